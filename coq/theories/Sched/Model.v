(* Executable model of the asyncio scheduling core (CPython 3.12.1: Future,
   Task.__step/__wakeup/cancel, the ready queue and timers of BaseEventLoop,
   Event, Lock, sleep) together with asynkit's scheduling functions,
   PriorityLock, PriorityCondition, InterruptCondition, task_throw,
   task_interrupt and task_timeout.

   User code is an arbitrary tree of library calls ([coro]); library coroutines
   are defunctionalised [frame]s whose resume functions transcribe the code
   after each `await`.  No proofs here: the model must keep running when a
   proof breaks. *)
From Coq Require Import QArith.
From RecordUpdate Require Import RecordUpdate.
From Asynkit Require Import Base.Prelude Queue.HeapqModel Queue.PQ Queue.PosPQ Queue.Exec.
Import RecordSetNotations.
Open Scope nat_scope.

(* ------------------------------------------------------------------ values *)
Inductive exn :=
| ECancelled                  (* a plain asyncio.CancelledError *)
| EInterrupt (tag : Z)        (* an InterruptException instance (derives CancelledError); tag = identity *)
| ETimeoutInt (b : nat)       (* the TimeoutInterrupt instance created by task_timeout block b *)
| ETimeout                    (* asyncio.TimeoutError *)
| EUser (n : Z)               (* an Exception subclass instance *)
| EBase (n : Z)               (* a BaseException-only subclass instance *)
| EAssertion | ERuntime (k : Z) | EValue | EInvalidState.

Definition is_cancel (e : exn) : bool :=
  match e with ECancelled | EInterrupt _ | ETimeoutInt _ => true | _ => false end.
Definition is_exception (e : exn) : bool :=     (* isinstance(e, Exception) *)
  match e with
  | ETimeout | EUser _ | EAssertion | ERuntime _ | EValue | EInvalidState => true
  | _ => false end.

Definition exn_eqb (a b : exn) : bool :=
  match a, b with
  | ECancelled, ECancelled | ETimeout, ETimeout | EAssertion, EAssertion
  | EValue, EValue | EInvalidState, EInvalidState => true
  | EInterrupt x, EInterrupt y | EUser x, EUser y | EBase x, EBase y
  | ERuntime x, ERuntime y => Z.eqb x y
  | ETimeoutInt x, ETimeoutInt y => Nat.eqb x y
  | _, _ => false
  end.

(* RuntimeError kinds *)
Definition rt_await_not_used : Z := 1.   (* "await wasn't used with future" *)
Definition rt_task_done : Z := 2.        (* "cannot interrupt task which is done" *)
Definition rt_task_cancelled : Z := 3.   (* "cannot interrupt a cancelled task" *)
Definition rt_self : Z := 4.             (* "cannot interrupt self" *)
Definition rt_not_acquired : Z := 5.     (* "Lock is not acquired." *)
Definition rt_wait_unlocked : Z := 6.    (* "cannot wait on un-acquired lock" *)
Definition rt_yield_from : Z := 7.       (* "yield was used instead of yield from" *)
Definition rt_await_self : Z := 8.       (* "Task cannot await on itself" *)
Definition rt_ctask : Z := 9.            (* "cannot interrupt a c-task ..." (not modelled further) *)

Inductive reply := RVal (v : Z) | RExc (e : exn).

Inductive spawn_kind :=
| SPlain                  (* asyncio.create_task: C task *)
| SPy                     (* create_pytask *)
| SPrio (p : Q)           (* PriorityTask(priority=p) *)
| SDescend                (* create_task_descend *)
| SStart                  (* create_task_start *)
| SEager.                 (* asynkit.eager(coro): replies with the future id of the returned awaitable *)

Inductive libop :=
| OLog (n : Z)
| OSleep0
| OSleep (d : Q)
| ONewFut
| OAwaitFut (f : nat)
| OAwaitTask (t : nat)
| OSetResult (f : nat) (v : Z)
| OSetExc (f : nat) (e : exn)
| OFutCancel (f : nat)
| OCancel (t : nat)
| OEventWait (e : nat) | OEventSet (e : nat) | OEventClear (e : nat)
| OAcquire (l : nat) | ORelease (l : nat)
| OCondWait (c : nat) | OCondNotify (c : nat) (n : nat) | OCondNotifyAll (c : nat)
| OSleepInsert (p : nat)
| OTaskSwitch (t : nat) (p : option nat)
| OTaskReinsert (t : nat) (p : nat)
| OCallSoon (n : Z) | OCallPos (p : nat) (n : Z)
| OTaskThrow (t : nat) (e : exn)
| OTaskInterrupt (t : nat) (e : exn)
| OTimeoutEnter (d : option Q)
| OTimeoutExit (b : nat) (r : reply)
| OInterruptor (b : nat)
| OSetPrio (p : Q)
| OSelf
| OQuery                        (* log what runnable_tasks()/blocked_tasks()/all_tasks() report *)
| OCallSoonQuery                (* loop.call_soon(<the same query as a plain callback>) *)
| OCallSoonCancel (t : nat)     (* loop.call_soon(task.cancel) *)
| OCancelAw (f : nat).          (* awaitable.cancel(): Task.cancel for a task's future, Future.cancel otherwise *)

Inductive coro :=
| Ret (v : Z)
| Raise (e : exn)
| Call (op : libop) (k : reply -> coro)
| Spawn (how : spawn_kind) (child : coro) (k : reply -> coro).

(* sequencing: run [c], then continue with its reply *)
Fixpoint bind (c : coro) (f : reply -> coro) : coro :=
  match c with
  | Ret v => f (RVal v)
  | Raise e => f (RExc e)
  | Call op k => Call op (fun r => bind (k r) f)
  | Spawn h ch k => Spawn h ch (fun r => bind (k r) f)
  end.

(* --------------------------------------------------------------- tables *)
Inductive fstate := FPending | FResult (v : Z) | FExc (e : exn) | FCancelled.
Inductive cb := CbWakeup (t : nat) | CbLog (n : Z).
(* fcexc: Future._cancelled_exc - the CancelledError(-subclass) instance that ended a task;
   the first result() of the cancelled future re-raises it and clears it *)
Record fut := mkFut { fstate_ : fstate; fcbs : list cb; fblock : bool; fowner : option nat;
                      fcexc : option exn }.
#[export] Instance eta_fut : Settable _ := settable! mkFut <fstate_; fcbs; fblock; fowner; fcexc>.

Inductive callback :=
| HStep (t : nat) (e : option exn)
| HWakeup (t : nat) (f : nat)
| HReinsert (t : nat) (p : nat)
| HLog (n : Z)
| HSetResult (f : nat) (v : Z)
| HTrigger (b : nat)
| HQuery
| HTaskCancel (t : nat).
Record handle := mkH { hcb : callback; hcancelled : bool }.

Inductive yielded := YNone | YFut (f : nat).
Notation yielded_ := yielded.

(* library frames: where a library coroutine is suspended *)
Inductive frame :=
| InSleep0
| InFut (f : nat)                       (* Future.__await__ suspended at `yield self` *)
| InSleepTimer (h : nat)                (* asyncio.sleep: finally h.cancel() *)
| InEventWait (e f : nat)
| InAcquireP (l f : nat) (had : bool)   (* PriorityLock.acquire after `await fut`; had = task has set_waiting_on *)
| InAcquireA (l f : nat)                (* asyncio.Lock.acquire after `await fut` *)
| InCondWaitP (c f : nat)               (* PriorityCondition.wait: inside `await fut` *)
| InReleasedP (c : nat) (err : option exn) (body : reply)
                                        (* _released.__aexit__ retry loop; body = how the with-body ended *)
| InCondWaitI (c f : nat)               (* InterruptCondition.wait: inside `await fut` *)
| InReacquireI (c : nat) (err : option exn) (body : reply)
| InIntr (b : nat) (i : nat) (phase : nat).  (* interruptor(): attempt i; phase 0 = inside task_interrupt, 1 = inside sleep(0) *)

Inductive tcont :=
| TNew (c : coro)
| TSusp (frs : list frame) (k : reply -> coro)
| TEager (y : yielded_) (frs : list frame) (k : reply -> coro)
                         (* continuation task of eager(): the coroutine was started by CoroStart and
                            is suspended having yielded y; the task has not taken its first step *)
| TRun
| TFin.

Inductive tkind := KC | KPy.
Record task := mkTask {
  tkind_ : tkind; tprio : option Q; tfut : nat; tcont_ : tcont;
  twaiter : option nat; tmustc : bool; tholding : list nat; twaiting : option nat }.
#[export] Instance eta_task : Settable _ :=
  settable! mkTask <tkind_; tprio; tfut; tcont_; twaiter; tmustc; tholding; twaiting>.

Inductive lkind := LPrio | LPlain.
(* PriorityLock waiters: heap of entries (priority, seq, obj = future id); the
   task of each entry in [lwt].  asyncio.Lock waiters: a deque of future ids. *)
Record lock := mkLock {
  lkind_ : lkind; llocked : bool; lowner : option nat;
  lpq : pq Q; lwt : list (nat * nat); ldq : list nat }.
#[export] Instance eta_lock : Settable _ := settable! mkLock <lkind_; llocked; lowner; lpq; lwt; ldq>.

Inductive ckind := CPrio | CIntr.
Record cond := mkCond { ckind_ : ckind; clock : nat; cpq : pq Q; cdq : list nat }.
#[export] Instance eta_cond : Settable _ := settable! mkCond <ckind_; clock; cpq; cdq>.

Record event := mkEv { evalue : bool; ewaiters : list nat }.

Record tblock := mkBlk { btask : nat; bactive : bool; btimer : nat }.

Inductive rq := RList (l : list nat) | RPos (p : pos).

Inductive looperr := LEInvalidState | LEValue | LEOther (e : exn).

Record st := mkSt {
  ready : rq; handles : list handle; futs : list fut; tasks : list task;
  locks : list lock; conds : list cond; events : list event; blocks : list tblock;
  timers : list (Q * nat);     (* loop._scheduled: heapq array of (when, handle id) *)
  now : Q; current : option nat; log : list (nat * Z); errors : list looperr }.
#[export] Instance eta_st : Settable _ :=
  settable! mkSt <ready; handles; futs; tasks; locks; conds; events; blocks; timers; now;
                  current; log; errors>.

Definition HQ : heapimpl Q := mk_heapimpl qltb 0%Q.
Definition timer_lt (a b : Q * nat) : bool := qltb (fst a) (fst b).   (* TimerHandle.__lt__ *)
Definition tdflt : Q * nat := (0%Q, 0).

(* ---------------------------------------------------------- table access *)
Definition dfut : fut := mkFut FPending [] false None None.
Definition dtask : task := mkTask KC None 0 TFin None false [] None.
Definition dlock : lock := mkLock LPrio false None pq_empty [] [].
Definition dcond : cond := mkCond CPrio 0 pq_empty [].
Definition dev : event := mkEv false [].
Definition dblk : tblock := mkBlk 0 false 0.
Definition dh : handle := mkH (HLog 0) true.

Definition getf (s : st) f := nth f (futs s) dfut.
Definition gett (s : st) t := nth t (tasks s) dtask.
Definition getl (s : st) l := nth l (locks s) dlock.
Definition getc (s : st) c := nth c (conds s) dcond.
Definition gete (s : st) e := nth e (events s) dev.
Definition getb (s : st) b := nth b (blocks s) dblk.
Definition geth (s : st) h := nth h (handles s) dh.

Definition setf (s : st) f x := s <| futs := set_nth (futs s) f x |>.
Definition sett (s : st) t x := s <| tasks := set_nth (tasks s) t x |>.
Definition setl (s : st) l x := s <| locks := set_nth (locks s) l x |>.
Definition setc (s : st) c x := s <| conds := set_nth (conds s) c x |>.
Definition sete (s : st) e x := s <| events := set_nth (events s) e x |>.
Definition setb (s : st) b x := s <| blocks := set_nth (blocks s) b x |>.

Definition fdone (s : st) f : bool :=
  match fstate_ (getf s f) with FPending => false | _ => true end.
Definition fcancelled (s : st) f : bool :=
  match fstate_ (getf s f) with FCancelled => true | _ => false end.
Definition tdone (s : st) t : bool := fdone s (tfut (gett s t)).

Definition addlog (s : st) (n : Z) : st :=
  s <| log := log s ++ [(match current s with Some t => S t | None => O end, n)] |>.
Definition adderr (s : st) (e : looperr) : st := s <| errors := errors s ++ [e] |>.

(* ------------------------------------------------- effective priorities *)
Definition qmin_opt (a : option Q) (b : Q) : option Q :=
  match a with None => Some b | Some x => Some (qmin x b) end.

Definition lock_waiter_tasks (lk : lock) : list nat :=
  map (fun e => match find (fun p => Nat.eqb (fst p) (Z.to_nat (eobj e))) (lwt lk) with
                | Some p => snd p | None => 0 end) (arr (lpq lk)).

Fixpoint eprio (fuel : nat) (s : st) (t : nat) : Q :=
  let own := match tprio (gett s t) with Some p => p | None => 0%Q end in
  match fuel with
  | O => own
  | S fuel =>
      let lockmin :=
        fold_left (fun acc l =>
          let lk := getl s l in
          match lock_waiter_tasks lk with
          | [] => acc
          | ws => let m := fold_left (fun m w =>
                              qmin_opt m (match tprio (gett s w) with
                                          | Some _ => eprio fuel s w | None => 0%Q end)) ws None in
                  match m with Some x => qmin_opt acc x | None => acc end
          end) (tholding (gett s t)) None in
      match lockmin with None => own | Some m => qmin own m end
  end.
Definition efuel (s : st) : nat := length (tasks s) + length (locks s) + 1.
Definition effective_priority (s : st) (t : nat) : Q := eprio (efuel s) s t.

(* ------------------------------------------------------- the ready queue *)
Definition task_of_cb (c : callback) : option nat :=
  match c with HStep t _ | HWakeup t _ => Some t | _ => None end.
Definition task_of_handle (s : st) (h : nat) : option nat := task_of_cb (hcb (geth s h)).

(* PrioritySchedulingMixin.get_priority *)
Definition handle_priority (s : st) (c : callback) : Q :=
  match task_of_cb c with
  | Some t => match tprio (gett s t) with Some _ => effective_priority s t | None => 0%Q end
  | None => 0%Q
  end.

Definition rq_items (r : rq) : list nat :=
  match r with
  | RList l => l
  | RPos p => map (fun e => Z.to_nat (eobj e)) (arr (pq_sort HPV (pq_ p)))
  end.
Definition rq_len (r : rq) : nat := length (rq_items r).

Definition rq_append (r : rq) (h : nat) (p : Q) : rq :=
  match r with
  | RList l => RList (l ++ [h])
  | RPos q => RPos (pos_append_pri HPV q (Z.of_nat h) p)
  end.

Definition rq_popleft (r : rq) : option (nat * rq) :=
  match r with
  | RList [] => None
  | RList (h :: t) => Some (h, RList t)
  | RPos q => match pos_popleft HPV q with
              | None => None
              | Some (o, q') => Some (Z.to_nat o, RPos q')
              end
  end.

Definition rq_insert_pos (r : rq) (k h : nat) : rq :=
  match r with
  | RList l => RList (insert_nth l k h)
  | RPos q => RPos (pos_insert HPV q k (Z.of_nat h))
  end.

(* index of the last element satisfying key *)
Fixpoint find_last {A} (key : A -> bool) (l : list A) : option nat :=
  match l with
  | [] => None
  | x :: t => match find_last key t with
              | Some i => Some (S i)
              | None => if key x then Some O else None
              end
  end.

(* queue_find(key, remove): searches from the end *)
Definition rq_find (r : rq) (key : nat -> bool) (rm : bool) : option (nat * rq) :=
  match r with
  | RList l => match find_last key l with
               | None => None
               | Some i => Some (nth i l 0, if rm then RList (remove_nth l i) else r)
               end
  | RPos q => match pos_find HPV q (fun o => key (Z.to_nat o)) rm with
              | None => None
              | Some (o, q') => Some (Z.to_nat o, RPos q')
              end
  end.

(* queue_remove(handle): PosPriorityQueue.remove counts as a removal *)
Definition rq_remove (r : rq) (h : nat) : option rq :=
  match r with
  | RList l => match find_last (Nat.eqb h) l with
               | None => None
               | Some i => Some (RList (remove_nth l i))
               end
  | RPos q => match pos_remove HPV q (Z.of_nat h) with
              | None => None
              | Some q' => Some (RPos q')
              end
  end.

Definition rq_reschedule (r : rq) (key : nat -> bool) (p : Q) : rq :=
  match r with
  | RList _ => r
  | RPos q => match pos_reschedule HPV q (fun o => key (Z.to_nat o)) p with
              | None => r
              | Some (_, q') => RPos q'
              end
  end.

Definition is_prio_loop (s : st) : bool := match ready s with RPos _ => true | _ => false end.

(* loop.call_soon *)
Definition call_soon (s : st) (c : callback) : st * nat :=
  let h := length (handles s) in
  let s := s <| handles := handles s ++ [mkH c false] |> in
  (s <| ready := rq_append (ready s) h (handle_priority s c) |>, h).
Definition call_soon_ (s : st) (c : callback) : st := fst (call_soon s c).

(* loop.call_at *)
Definition call_at (s : st) (w : Q) (c : callback) : st * nat :=
  let h := length (handles s) in
  (s <| handles := handles s ++ [mkH c false] |>
     <| timers := HeapqModel.heappush timer_lt tdflt (timers s) (w, h) |>, h).

Definition cancel_handle (s : st) (h : nat) : st :=
  s <| handles := set_nth (handles s) h (mkH (hcb (geth s h)) true) |>.

(* call_pos: call_soon, remove, insert at position *)
Definition call_pos (s : st) (p : nat) (c : callback) : st :=
  let '(s, h) := call_soon s c in
  match rq_remove (ready s) h with   (* queue_remove / queue.pop() of the entry just added *)
  | Some r => s <| ready := rq_insert_pos r p h |>
  | None => s
  end.

(* ------------------------------------------------------------- futures *)
Definition new_future (s : st) (owner : option nat) : st * nat :=
  (s <| futs := futs s ++ [mkFut FPending [] false owner None] |>, length (futs s)).

Definition cb_callback (f : nat) (c : cb) : callback :=
  match c with CbWakeup t => HWakeup t f | CbLog n => HLog n end.

(* Future.__schedule_callbacks *)
Definition schedule_callbacks (s : st) (f : nat) : st :=
  let cbs := fcbs (getf s f) in
  let s := setf s f (getf s f <| fcbs := [] |>) in
  fold_left (fun s c => call_soon_ s (cb_callback f c)) cbs s.

(* set_result / set_exception / Future.cancel : returns false when not pending *)
Definition fut_finish (s : st) (f : nat) (x : fstate) : st * bool :=
  match fstate_ (getf s f) with
  | FPending => (schedule_callbacks (setf s f (getf s f <| fstate_ := x |>)) f, true)
  | _ => (s, false)
  end.

Definition add_done_callback (s : st) (f : nat) (c : cb) : st :=
  if fdone s f then call_soon_ s (cb_callback f c)
  else setf s f (getf s f <| fcbs := fcbs (getf s f) ++ [c] |>).

Definition cb_eqb (a b : cb) : bool :=
  match a, b with
  | CbWakeup x, CbWakeup y => Nat.eqb x y
  | CbLog x, CbLog y => Z.eqb x y
  | _, _ => false
  end.
Definition remove_done_callback (s : st) (f : nat) (c : cb) : st :=
  setf s f (getf s f <| fcbs := filter (fun x => negb (cb_eqb x c)) (fcbs (getf s f)) |>).

(* Task.cancel, following _fut_waiter through awaited tasks *)
Fixpoint task_cancel (fuel : nat) (s : st) (t : nat) : st * bool :=
  if tdone s t then (s, false) else
  let tk := gett s t in
  let fallback := (sett s t (tk <| tmustc := true |>), true) in
  match twaiter tk with
  | None => fallback
  | Some f =>
      match fowner (getf s f) with
      | Some t' =>
          match fuel with
          | O => fallback
          | S fuel =>
              let '(s', ok) := task_cancel fuel s t' in
              if ok then (s', true) else (sett s' t (gett s' t <| tmustc := true |>), true)
          end
      | None =>
          let '(s', ok) := fut_finish s f FCancelled in
          if ok then (s', true) else fallback
      end
  end.
Definition cancel_task (s : st) (t : nat) : st * bool := task_cancel (length (tasks s)) s t.

(* cancelling whatever a task awaits: a plain future or another task *)
Definition cancel_awaitable (s : st) (f : nat) : st * bool :=
  match fowner (getf s f) with
  | Some t' => cancel_task s t'
  | None => fut_finish s f FCancelled
  end.

(* ------------------------------------------------------------- locks *)
Definition is_prio_task (s : st) (t : nat) : bool :=
  match tprio (gett s t) with Some _ => true | None => false end.

(* PriorityLock._take_lock: assertion, owner, add_owned_lock, locked *)
Definition take_lock (s : st) (l t : nat) : st + exn :=
  let lk := getl s l in
  match lowner lk with
  | Some _ => inr EAssertion
  | None =>
      let s := setl s l (lk <| lowner := Some t |> <| llocked := true |>) in
      inl (if is_prio_task s t
           then sett s t (gett s t <| tholding := l :: tholding (gett s t) |>)
           else s)
  end.

Definition pq_objs (q : pq Q) : list nat := map (fun e => Z.to_nat (eobj e)) (arr q).

(* PriorityLock._wake_up_first (repaired: do not wake a second waiter while an
   already woken one is still queued) *)
Definition wake_up_first_p (s : st) (l : nat) : st :=
  let lk := getl s l in
  match arr (lpq lk) with
  | [] => s
  | head :: _ =>
      if existsb (fun f => match fstate_ (getf s f) with FResult _ | FExc _ => true | _ => false end)
                 (pq_objs (lpq lk))
      then s
      else
        let f := Z.to_nat (eobj head) in
        if fdone s f then s else fst (fut_finish s f (FResult 1))
  end.

(* asyncio.Lock._wake_up_first *)
Definition wake_up_first_a (s : st) (l : nat) : st :=
  match ldq (getl s l) with
  | [] => s
  | f :: _ => if fdone s f then s else fst (fut_finish s f (FResult 1))
  end.

(* PriorityTask.propagate_priority / PriorityLock.propagate_priority *)
Definition task_is_blocked (s : st) (t : nat) : bool :=
  match twaiter (gett s t) with Some f => negb (fdone s f) | None => false end.
Definition task_is_runnable (s : st) (t : nat) : bool :=
  negb (task_is_blocked s t || tdone s t).

Definition task_key (s : st) (t : nat) (h : nat) : bool :=
  match task_of_handle s h with Some t' => Nat.eqb t t' | None => false end.

(* loop.task_reschedule (priority loop only) *)
Definition task_reschedule (s : st) (t : nat) : st :=
  s <| ready := rq_reschedule (ready s) (task_key s t) (effective_priority s t) |>.

Fixpoint propagate_task (fuel : nat) (s : st) (t : nat) : st :=
  (* t is a PriorityTask *)
  if negb (is_prio_task s t) then s else
  (* a runnable task is rescheduled; if it is ALSO still queued on a lock (a cancelled, interrupted or
     woken waiter that has not run its finally yet) the notification is passed on as well (repair F17) *)
  let s := if task_is_runnable s t then task_reschedule s t else s in
  match twaiting (gett s t), fuel with
       | Some l, S fuel =>
           (* PriorityLock.propagate_priority(from_obj = t) *)
           let lk := getl s l in
           let s := match lowner lk with
                    | Some o => propagate_task fuel s o
                    | None => s end in
           let p := effective_priority s t in
           let lk := getl s l in
           match find (fun pr => Nat.eqb (snd pr) t) (lwt lk) with
           | Some (f, _) =>
               match pq_reschedule HQ (lpq lk) (fun o => Nat.eqb (Z.to_nat o) f) p with
               | Some (_, q') => setl s l (lk <| lpq := q' |>)
               | None => s
               end
           | None => s
           end
       | _, _ => s
       end.
Definition propagate_priority (s : st) (t : nat) : st := propagate_task (efuel s) s t.

(* --------------------------------------------------- library coroutines *)
Inductive lres := LDone (r : reply) | LSusp (y : yielded) (frs : list frame).

(* `await fut` : Future.__await__ *)
(* Future.result(): a cancelled future raises its stored _cancelled_exc once *)
Definition fut_result (s : st) (f : nat) : st * reply :=
  match fstate_ (getf s f) with
  | FResult v => (s, RVal v)
  | FExc e => (s, RExc e)
  | FCancelled =>
      match fcexc (getf s f) with
      | Some e => (setf s f (getf s f <| fcexc := None |>), RExc e)
      | None => (s, RExc ECancelled)
      end
  | FPending => (s, RExc EInvalidState)
  end.

Definition await_fut (s : st) (f : nat) (outer : list frame) : st * lres :=
  if fdone s f then (let '(s', r) := fut_result s f in (s', LDone r))
  else (setf s f (getf s f <| fblock := true |>), LSusp (YFut f) (InFut f :: outer)).

(* PriorityLock.acquire up to its `await fut` *)
Definition acquire_p_start (s : st) (t l : nat) : st * lres :=
  let lk := getl s l in
  if negb (llocked lk) && match arr (lpq lk) with [] => true | _ => false end then
    match take_lock s l t with
    | inl s' => (s', LDone (RVal 1))
    | inr e => (s, LDone (RExc e))
    end
  else
    let had := is_prio_task s t in
    let p := if had then effective_priority s t else 0%Q in
    let '(s, f) := new_future s None in
    (* with _waiting_on(task, self): set_waiting_on asserts it was None *)
    if had && match twaiting (gett s t) with Some _ => true | None => false end
    then (s, LDone (RExc EAssertion))
    else
      let s := if had then sett s t (gett s t <| twaiting := Some l |>) else s in
      let lk := getl s l in
      let s := setl s l (lk <| lpq := pq_add HQ (lpq lk) p (Z.of_nat f) |>
                            <| lwt := lwt lk ++ [(f, t)] |>) in
      let s := match lowner (getl s l) with
               | Some o => propagate_priority s o
               | None => s end in
      (* await fut: just created, hence pending *)
      (setf s f (getf s f <| fblock := true |>), LSusp (YFut f) [InFut f; InAcquireP l f had]).

(* ... and after it: _take_lock on success, then the finally clause *)
Definition acquire_p_finish (s : st) (t l f : nat) (had : bool) (inp : reply) : st * reply :=
  let '(s, r) := match inp with
                 | RVal _ => match take_lock s l t with
                             | inl s' => (s', RVal 1)
                             | inr e => (s, RExc e)
                             end
                 | RExc e => (s, RExc e)
                 end in
  (* finally: self._waiters.remove(entry); if not self._locked: self._wake_up_first() *)
  let lk := getl s l in
  let s := match pq_remove HQ (lpq lk) (Z.of_nat f) with
           | Some (_, q') => setl s l (lk <| lpq := q' |>
                                        <| lwt := filter (fun pr => negb (Nat.eqb (fst pr) f)) (lwt lk) |>)
           | None => s
           end in
  (* a waiter has left a lock that stays locked: its owner may have become less urgent and
     re-keys itself (owning.propagate_priority(self), repair F16) *)
  let s := if llocked (getl s l)
           then match lowner (getl s l) with
                | Some o => if Nat.eqb o t then s else propagate_priority s o
                | None => s
                end
           else wake_up_first_p s l in
  (* _waiting_on.__exit__ *)
  let s := if had then sett s t (gett s t <| twaiting := None |>) else s in
  (s, r).

Definition release_p (s : st) (t l : nat) : st * reply :=
  let lk := getl s l in
  if negb (llocked lk) then (s, RExc (ERuntime rt_not_acquired)) else
  match lowner lk with
  | Some o =>
      if negb (Nat.eqb o t) then (s, RExc EAssertion) else
      let s := setl s l (lk <| lowner := None |>) in
      let s := if is_prio_task s t
               then sett s t (gett s t <| tholding := filter (fun x => negb (Nat.eqb x l)) (tholding (gett s t)) |>)
               else s in
      let s := setl s l (getl s l <| llocked := false |>) in
      (wake_up_first_p s l, RVal 0)
  | None => (s, RExc EAssertion)
  end.

(* asyncio.Lock *)
Definition acquire_a_start (s : st) (l : nat) : st * lres :=
  let lk := getl s l in
  if negb (llocked lk) && forallb (fun w => fcancelled s w) (ldq lk) then
    (setl s l (lk <| llocked := true |>), LDone (RVal 1))
  else
    let '(s, f) := new_future s None in
    let s := setl s l (getl s l <| ldq := ldq (getl s l) ++ [f] |>) in
    (setf s f (getf s f <| fblock := true |>), LSusp (YFut f) [InFut f; InAcquireA l f]).

Definition acquire_a_finish (s : st) (l f : nat) (inp : reply) : st * reply :=
  let lk := getl s l in
  let s := setl s l (lk <| ldq := filter (fun x => negb (Nat.eqb x f)) (ldq lk) |>) in
  match inp with
  | RExc e =>
      if is_cancel e
      then ((if llocked (getl s l) then s else wake_up_first_a s l), RExc e)
      else (s, RExc e)
  | RVal _ => (setl s l (getl s l <| llocked := true |>), RVal 1)
  end.

Definition release_a (s : st) (l : nat) : st * reply :=
  let lk := getl s l in
  if llocked lk then (wake_up_first_a (setl s l (lk <| llocked := false |>)) l, RVal 0)
  else (s, RExc (ERuntime rt_not_acquired)).

Definition acquire_start (s : st) (t l : nat) : st * lres :=
  match lkind_ (getl s l) with
  | LPrio => acquire_p_start s t l
  | LPlain => acquire_a_start s l
  end.
Definition release (s : st) (t l : nat) : st * reply :=
  match lkind_ (getl s l) with
  | LPrio => release_p s t l
  | LPlain => release_a s l
  end.

(* ------------------------------------------------------- task_throw *)
(* Python tasks only (the _Task__step path) *)
Definition task_throw (s : st) (t : nat) (e : exn) : st * reply :=
  if tdone s t then (s, RExc (ERuntime rt_task_done)) else
  match tkind_ (gett s t) with
  | KC => (s, RExc (ERuntime rt_ctask))
  | KPy =>
      let tk := gett s t in
      let go (s : st) : st * reply :=
        let s := sett s t (gett s t <| twaiter := None |>) in
        (call_soon_ s (HStep t (Some e)), RVal 0) in
      match twaiter tk with
      | Some f =>
          if negb (fdone s f) then go (remove_done_callback s f (CbWakeup t))
          else if tmustc tk || fcancelled s f then (s, RExc (ERuntime rt_task_cancelled))
          else match rq_find (ready s) (task_key s t) true with
               | Some (_, r) => go (s <| ready := r |>)
               | None => (s, RExc (ERuntime rt_self))
               end
      | None =>
          if tmustc tk then (s, RExc (ERuntime rt_task_cancelled))
          else match rq_find (ready s) (task_key s t) true with
               | Some (_, r) => go (s <| ready := r |>)
               | None => (s, RExc (ERuntime rt_self))
               end
      end
  end.

(* _task_reinsert *)
Definition task_reinsert (s : st) (t p : nat) : st * reply :=
  match rq_find (ready s) (task_key s t) true with
  | Some (h, r) => (s <| ready := rq_insert_pos r p h |>, RVal 0)
  | None => (s, RExc EValue)
  end.

(* ------------------------------------------------------- conditions *)
(* PriorityCondition._notify(n) through ordereditems *)
Definition notify_p (s : st) (c n : nat) : st :=
  let cd := getc s c in
  (* walk the waiters in priority order; the heap is restored unchanged in
     content (possibly re-arranged) by ordereditems' finally *)
  let order := map (fun e => Z.to_nat (eobj e)) (arr (pq_sort HQ (cpq cd))) in
  let '(s, taken, _) :=
    fold_left (fun '(s, taken, cnt) f =>
                 if Nat.leb n cnt then (s, taken, cnt)
                 else if fdone s f then (s, S taken, cnt)
                 else (fst (fut_finish s f (FResult 1)), S taken, S cnt))
              order (s, O, O) in
  (* number of items the consumer took before closing the generator *)
  let q' := snd (pq_ordered_take HQ (cpq cd) (if Nat.leb n 0 then 0 else taken)) in
  setc s c (getc s c <| cpq := q' |>).

Definition notify_i (s : st) (c n : nat) : st :=
  (* asyncio.Condition.notify *)
  fst (fold_left (fun '(s, cnt) f =>
                    if Nat.leb n cnt then (s, cnt)
                    else if fdone s f then (s, cnt)
                    else (fst (fut_finish s f (FResult 0)), S cnt))
                 (cdq (getc s c)) (s, O)).

Definition cond_locked (s : st) (c : nat) : bool := llocked (getl s (clock (getc s c))).

(* the retry loop of _released.__aexit__ / InterruptCondition.wait's finally:
   while True: try: await lock.acquire(); break; except CancelledError as e: err = e *)
Definition reacquire (s : st) (t c : nat) (prio_cond : bool) (err : option exn) (body : reply)
  : st * lres :=
  let l := clock (getc s c) in
  let '(s, r) := acquire_start s t l in
  let fr := if prio_cond then InReleasedP c err body else InReacquireI c err body in
  match r with
  | LSusp y frs => (s, LSusp y (frs ++ [fr]))
  | LDone (RVal _) =>
      (s, LDone (match err with Some e => RExc e | None => body end))
  | LDone (RExc e) =>
      (* only reachable through an assertion failure: propagates (not a CancelledError) *)
      (s, LDone (RExc e))
  end.

(* what happens in PriorityCondition.wait after `async with _released` has
   produced its outcome: `except BaseException: self._notify(1); raise` *)
Definition cond_p_after (s : st) (c : nat) (r : reply) : st * reply :=
  match r with
  | RVal _ => (s, RVal 1)
  | RExc e => (notify_p s c 1, RExc e)
  end.

(* scheduling.runnable_tasks / blocked_tasks / asyncio.all_tasks as coded *)
Fixpoint dedup (l : list nat) : list nat :=
  match l with
  | [] => []
  | x :: t => if existsb (Nat.eqb x) t then dedup t else x :: dedup t
  end.
Definition ready_items (s : st) : list nat :=
  match ready s with
  | RList l => l
  | RPos p => map (fun e => Z.to_nat (eobj e)) (arr (pq_sort HPV (pq_ p)))
  end.
Definition runnable_tasks (s : st) : list nat :=
  dedup (flat_map (fun h => match task_of_cb (hcb (nth h (handles s) (mkH (HLog 0) true))) with
                            | Some t => [t] | None => [] end) (ready_items s)).
Definition all_tasks (s : st) : list nat :=
  filter (fun t => negb (match fstate_ (nth (tfut (nth t (tasks s) dtask)) (futs s) dfut) with
                         | FPending => false | _ => true end)) (seq 0 (length (tasks s))).
Definition blocked_tasks (s : st) : list nat :=
  filter (fun t => negb (existsb (Nat.eqb t) (runnable_tasks s))
                   && negb (match current s with Some c => Nat.eqb c t | None => false end))
         (all_tasks s).
(* iterating the priority loop's ready queue (queue_items) sorts its array in place *)
Definition queue_iterated (s : st) : st :=
  match ready s with
  | RList _ => s
  | RPos p => s <| ready := RPos (snd (pos_iter HPV p)) |>
  end.
(* the asserts inside runnable_tasks()/blocked_tasks() *)
Definition query_code (s : st) : Z :=
  let r := runnable_tasks s in
  let b := blocked_tasks s in
  let blocked t := match twaiter (nth t (tasks s) dtask) with
                   | Some f => match fstate_ (nth f (futs s) dfut) with FPending => true | _ => false end
                   | None => false end in
  if existsb blocked r then (-1)%Z
  else if negb (forallb blocked b) then (-2)%Z
  else (Z.of_nat (length r) * 10000 + Z.of_nat (length b) * 100 + Z.of_nat (length (all_tasks s)))%Z.

(* ----------------------------------------------------- lib_call / resume *)
Definition is_runtime (r : reply) : bool :=
  match r with RExc (ERuntime _) => true | _ => false end.

(* task_interrupt up to its suspension *)
Definition task_interrupt_start (s : st) (t : nat) (e : exn) : st * lres :=
  let '(s, r) := task_throw s t e in
  match r with
  | RExc x => (s, LDone (RExc x))
  | RVal _ =>
      let '(s, r2) := task_reinsert s t 0 in
      match r2 with
      | RExc x => (s, LDone (RExc x))
      | RVal _ => (s, LSusp YNone [InSleep0])
      end
  end.

(* the interruptor task of task_timeout, attempt i *)
Fixpoint interruptor (fuel : nat) (s : st) (b i : nat) : st * lres :=
  match fuel with
  | O => (s, LDone (RVal 0))
  | S fuel =>
      if Nat.leb 3 i then (s, LDone (RVal 0)) else
      if negb (bactive (getb s b)) then interruptor fuel s b (S i) else
      let '(s, r) := task_interrupt_start s (btask (getb s b)) (ETimeoutInt b) in
      match r with
      | LSusp y frs => (s, LSusp y (frs ++ [InIntr b i 0]))
      | LDone (RExc (ERuntime k)) =>
          if Nat.eqb i 2 then (s, LDone (RExc (ERuntime k)))
          else (s, LSusp YNone [InSleep0; InIntr b i 1])
      | LDone (RExc e) => (s, LDone (RExc e))
      | LDone (RVal _) => interruptor fuel s b (S i)
      end
  end.

(* the `except Exception` clause around the interruptor body *)
Definition interruptor_wrap (s : st) (r : lres) : st * lres :=
  match r with
  | LDone (RExc e) =>
      (* call_exception_handler is given "task": current_task(), whose context is already
         entered, so asyncio only logs "Unhandled error in exception handler"; the loop's
         handler is never invoked *)
      if is_exception e then (s, LDone (RVal 0)) else (s, r)
  | _ => (s, r)
  end.

Definition lib_call (t : nat) (op : libop) (s : st) : st * lres :=
  match op with
  | OLog n => (addlog s n, LDone (RVal 0))
  | OSelf => (s, LDone (RVal (Z.of_nat t)))
  | OSleep0 => (s, LSusp YNone [InSleep0])
  | OSleep d =>
      let '(s, f) := new_future s None in
      let '(s, h) := call_at s (Qplus (now s) d) (HSetResult f 0) in
      (setf s f (getf s f <| fblock := true |>), LSusp (YFut f) [InFut f; InSleepTimer h])
  | ONewFut => let '(s, f) := new_future s None in (s, LDone (RVal (Z.of_nat f)))
  | OAwaitFut f => await_fut s f []
  | OAwaitTask t' => await_fut s (tfut (gett s t')) []
  | OSetResult f v =>
      let '(s', ok) := fut_finish s f (FResult v) in
      (s', LDone (if ok then RVal 0 else RExc EInvalidState))
  | OSetExc f e =>
      let '(s', ok) := fut_finish s f (FExc e) in
      (s', LDone (if ok then RVal 0 else RExc EInvalidState))
  | OFutCancel f =>
      let '(s', ok) := fut_finish s f FCancelled in (s', LDone (RVal (if ok then 1 else 0)))
  | OCancel t' => let '(s', ok) := cancel_task s t' in (s', LDone (RVal (if ok then 1 else 0)))
  | OEventWait e =>
      if evalue (gete s e) then (s, LDone (RVal 1)) else
      let '(s, f) := new_future s None in
      let s := sete s e (mkEv false (ewaiters (gete s e) ++ [f])) in
      (setf s f (getf s f <| fblock := true |>), LSusp (YFut f) [InFut f; InEventWait e f])
  | OEventSet e =>
      if evalue (gete s e) then (s, LDone (RVal 0)) else
      let s := sete s e (mkEv true (ewaiters (gete s e))) in
      (fold_left (fun s f => if fdone s f then s else fst (fut_finish s f (FResult 1)))
                 (ewaiters (gete s e)) s, LDone (RVal 0))
  | OEventClear e => (sete s e (mkEv false (ewaiters (gete s e))), LDone (RVal 0))
  | OAcquire l => acquire_start s t l
  | ORelease l => let '(s, r) := release s t l in (s, LDone r)
  | OCondWait c =>
      if negb (cond_locked s c) then (s, LDone (RExc (ERuntime rt_wait_unlocked))) else
      let cd := getc s c in
      match ckind_ cd with
      | CPrio =>
          let p := if is_prio_task s t then effective_priority s t else 0%Q in
          let '(s, f) := new_future s None in
          (* async with _released(lock): lock.release() *)
          let '(s, rr) := release s t (clock cd) in
          match rr with
          | RExc e => let '(s, r) := cond_p_after s c (RExc e) in (s, LDone r)
          | RVal _ =>
              let s := setc s c (getc s c <| cpq := pq_add HQ (cpq (getc s c)) p (Z.of_nat f) |>) in
              (setf s f (getf s f <| fblock := true |>), LSusp (YFut f) [InFut f; InCondWaitP c f])
          end
      | CIntr =>
          let '(s, rr) := release s t (clock cd) in
          match rr with
          | RExc e => (s, LDone (RExc e))
          | RVal _ =>
              let '(s, f) := new_future s None in
              let s := setc s c (getc s c <| cdq := cdq (getc s c) ++ [f] |>) in
              (setf s f (getf s f <| fblock := true |>), LSusp (YFut f) [InFut f; InCondWaitI c f])
          end
      end
  | OCondNotify c n =>
      if negb (cond_locked s c) then (s, LDone (RExc (ERuntime rt_wait_unlocked))) else
      (match ckind_ (getc s c) with CPrio => notify_p s c n | CIntr => notify_i s c n end,
       LDone (RVal 0))
  | OCondNotifyAll c =>
      if negb (cond_locked s c) then (s, LDone (RExc (ERuntime rt_wait_unlocked))) else
      (match ckind_ (getc s c) with
       | CPrio => notify_p s c (length (arr (cpq (getc s c))))
       | CIntr => notify_i s c (length (cdq (getc s c))) end, LDone (RVal 0))
  | OSleepInsert p =>
      (call_pos s 0 (HReinsert t p), LSusp YNone [InSleep0])
  | OTaskSwitch t' p =>
      let '(s, r) := task_reinsert s t' 0 in
      match r with
      | RExc e => (s, LDone (RExc e))
      | RVal _ => match p with
                  | None => (s, LSusp YNone [InSleep0])
                  | Some p => (call_pos s 0 (HReinsert t p), LSusp YNone [InSleep0])
                  end
      end
  | OTaskReinsert t' p => let '(s, r) := task_reinsert s t' p in (s, LDone r)
  | OCallSoon n => (call_soon_ s (HLog n), LDone (RVal 0))
  | OCallPos p n => (call_pos s p (HLog n), LDone (RVal 0))
  | OTaskThrow t' e => let '(s, r) := task_throw s t' e in (s, LDone r)
  | OTaskInterrupt t' e => task_interrupt_start s t' e
  | OTimeoutEnter None => (s, LDone (RVal (-1)))
  | OTimeoutEnter (Some d) =>
      let b := length (blocks s) in
      let '(s, h) := call_at s (Qplus (now s) d) (HTrigger b) in
      (s <| blocks := blocks s ++ [mkBlk t true h] |>, LDone (RVal (Z.of_nat b)))
  | OTimeoutExit b r =>
      (* except TimeoutInterrupt as err: if err is not my_interrupt: raise; raise TimeoutError
         finally: is_active = False; timeout_handle.cancel() *)
      let blk := getb s b in
      let s := cancel_handle (setb s b (mkBlk (btask blk) false (btimer blk))) (btimer blk) in
      (s, LDone (match r with
                 | RExc (ETimeoutInt b') => if Nat.eqb b b' then RExc ETimeout else r
                 | _ => r end))
  | OInterruptor b => let '(s', r) := interruptor 4 s b 0 in interruptor_wrap s' r
  | OSetPrio p =>
      if is_prio_task s t then (sett s t (gett s t <| tprio := Some p |>), LDone (RVal 0))
      else (s, LDone (RExc EValue))
  | OQuery => (queue_iterated (addlog s (query_code s)), LDone (RVal 0))
  | OCallSoonQuery => (call_soon_ s HQuery, LDone (RVal 0))
  | OCallSoonCancel t' => (call_soon_ s (HTaskCancel t'), LDone (RVal 0))
  | OCancelAw f => let '(s', ok) := cancel_awaitable s f in (s', LDone (RVal (if ok then 1 else 0)))
  end.

(* resuming one suspended library frame with the input that reaches it *)
Definition frame_resume (t : nat) (fr : frame) (inp : reply) (s : st) : st * lres :=
  match fr with
  | InSleep0 => (s, LDone (match inp with RVal _ => RVal 0 | RExc e => RExc e end))
  | InFut f =>
      (* resumed by send(None): `if not self.done(): raise RuntimeError`; return self.result() *)
      match inp with
      | RExc e => (s, LDone (RExc e))
      | RVal _ => if fdone s f then (let '(s', r) := fut_result s f in (s', LDone r))
                  else (s, LDone (RExc (ERuntime rt_await_not_used)))
      end
  | InSleepTimer h => (cancel_handle s h, LDone inp)
  | InEventWait e f =>
      let ev := gete s e in
      (sete s e (mkEv (evalue ev) (filter (fun x => negb (Nat.eqb x f)) (ewaiters ev))),
       LDone (match inp with RVal _ => RVal 1 | RExc x => RExc x end))
  | InAcquireP l f had => let '(s, r) := acquire_p_finish s t l f had inp in (s, LDone r)
  | InAcquireA l f => let '(s, r) := acquire_a_finish s l f inp in (s, LDone r)
  | InCondWaitP c f =>
      (* finally: self._waiters.remove(fut); `return True` / exception leaves the with-body;
         then _released.__aexit__ re-acquires *)
      let cd := getc s c in
      let s := match pq_remove HQ (cpq cd) (Z.of_nat f) with
               | Some (_, q') => setc s c (cd <| cpq := q' |>)
               | None => s end in
      let body := match inp with RVal _ => RVal 1 | RExc e => RExc e end in
      let '(s, r) := reacquire s t c true None body in
      match r with
      | LDone rep => let '(s, rep') := cond_p_after s c rep in (s, LDone rep')
      | _ => (s, r)
      end
  | InReleasedP c err body =>
      (* the acquire() awaited by the retry loop has finished with [inp] *)
      match inp with
      | RVal _ =>
          let '(s, rep) := cond_p_after s c (match err with Some e => RExc e | None => body end) in
          (s, LDone rep)
      | RExc e =>
          if is_cancel e then
            let '(s, r) := reacquire s t c true (Some e) body in
            match r with
            | LDone rep => let '(s, rep') := cond_p_after s c rep in (s, LDone rep')
            | _ => (s, r)
            end
          else let '(s, rep) := cond_p_after s c (RExc e) in (s, LDone rep)
      end
  | InCondWaitI c f =>
      let cd := getc s c in
      let s := setc s c (cd <| cdq := filter (fun x => negb (Nat.eqb x f)) (cdq cd) |>) in
      let body := match inp with RVal _ => RVal 1 | RExc e => RExc e end in
      reacquire s t c false None body
  | InReacquireI c err body =>
      match inp with
      | RVal _ => (s, LDone (match err with Some e => RExc e | None => body end))
      | RExc e => if is_cancel e then reacquire s t c false (Some e) body
                  else (s, LDone (RExc e))
      end
  | InIntr b i phase =>
      match inp with
      | RExc e =>
          (* inside task_interrupt's sleep(0) or the retry sleep(0): RuntimeError is only
             caught around task_interrupt (phase 0) *)
          if (Nat.eqb phase 0) && is_runtime inp && negb (Nat.eqb i 2)
          then interruptor_wrap s (LSusp YNone [InSleep0; InIntr b i 1])
          else interruptor_wrap s (LDone (RExc e))
      | RVal _ => let '(s', r) := interruptor 4 s b (S i) in interruptor_wrap s' r
      end
  end.

Fixpoint resume_stack (t : nat) (frs : list frame) (inp : reply) (s : st) : st * lres :=
  match frs with
  | [] => (s, LDone inp)
  | fr :: rest =>
      let '(s', r) := frame_resume t fr inp s in
      match r with
      | LDone rep => resume_stack t rest rep s'
      | LSusp y frs' => (s', LSusp y (frs' ++ rest))
      end
  end.

(* --------------------------------------------------------- user code *)
Inductive outcome := ODone (r : reply) | OYield (y : yielded) (frs : list frame) (k : reply -> coro).

Definition new_task (s : st) (kind : tkind) (p : option Q) (c : coro) : st * nat :=
  let t := length (tasks s) in
  let '(s, f) := new_future s (Some t) in
  let s := s <| tasks := tasks s ++ [mkTask kind p f (TNew c) None false [] None] |> in
  (call_soon_ s (HStep t None), t).

Definition spawn_task (s : st) (how : spawn_kind) (c : coro) : st * nat :=
  match how with
  | SPy => new_task s KPy None c
  | SPrio p => new_task s KC (Some p) c
  | _ => new_task s KC None c
  end.

Fixpoint exec (t : nat) (c : coro) (s : st) {struct c} : st * outcome :=
  match c with
  | Ret v => (s, ODone (RVal v))
  | Raise e => (s, ODone (RExc e))
  | Call op k =>
      let '(s', r) := lib_call t op s in
      match r with
      | LDone rep => exec t (k rep) s'
      | LSusp y frs => (s', OYield y frs k)
      end
  | Spawn SEager child k =>
      (* coro_eager: CoroStart runs the child synchronously, inside the current task's step,
         up to its first suspension *)
      let '(s, o) := exec t child s in
      match o with
      | ODone r =>
          (* cs.as_future(): a new, already completed future; no task *)
          let '(s, f) := new_future s None in
          let s := fst (fut_finish s f (match r with RVal v => FResult v | RExc e => FExc e end)) in
          exec t (k (RVal (Z.of_nat f))) s
      | OYield y frs kc =>
          (* CoroStart._capture(): the handshake flag of a captured future is cleared *)
          let s := match y with
                   | YFut f => setf s f (getf s f <| fblock := false |>)
                   | YNone => s end in
          (* create_task(<continuation>) *)
          let tn := length (tasks s) in
          let '(s, f) := new_future s (Some tn) in
          let s := s <| tasks := tasks s ++ [mkTask KC None f (TEager y frs kc) None false [] None] |> in
          let s := call_soon_ s (HStep tn None) in
          exec t (k (RVal (Z.of_nat f))) s
      end
  | Spawn how child k =>
      let '(s, t') := spawn_task s how child in
      match how with
      | SDescend =>
          (* await task_switch(task, insert_pos=1) *)
          let '(s, r) := lib_call t (OTaskSwitch t' (Some 1)) s in
          match r with
          | LDone (RExc e) => exec t (k (RExc e)) s
          | LDone (RVal _) => exec t (k (RVal (Z.of_nat t'))) s
          | LSusp y frs => (s, OYield y frs (fun r => match r with
                                                    | RVal _ => k (RVal (Z.of_nat t'))
                                                    | RExc e => k (RExc e) end))
          end
      | SStart =>
          (s, OYield YNone [InSleep0] (fun r => match r with
                                                | RVal _ => k (RVal (Z.of_nat t'))
                                                | RExc e => k (RExc e) end))
      | _ => exec t (k (RVal (Z.of_nat t'))) s
      end
  end.

(* Task.__step_run_and_handle_result: what is done with the coroutine's outcome *)
Definition finish_step (t : nat) (s : st) (o : outcome) : st :=
  let tk := gett s t in
  match o with
  | ODone (RVal v) =>
      let s := sett s t (tk <| tcont_ := TFin |>) in
      if tmustc tk
      then fst (fut_finish (sett s t (gett s t <| tmustc := false |>)) (tfut tk) FCancelled)
      else fst (fut_finish s (tfut tk) (FResult v))
  | ODone (RExc e) =>
      let s := sett s t (tk <| tcont_ := TFin |>) in
      if is_cancel e
      then fst (fut_finish (setf s (tfut tk) (getf s (tfut tk) <| fcexc := Some e |>)) (tfut tk) FCancelled)
      else fst (fut_finish s (tfut tk) (FExc e))
  | OYield YNone frs k =>
      call_soon_ (sett s t (tk <| tcont_ := TSusp frs k |>)) (HStep t None)
  | OYield (YFut f) frs k =>
      let s := sett s t (tk <| tcont_ := TSusp frs k |>) in
      if fblock (getf s f) then
        if Nat.eqb f (tfut tk) then call_soon_ s (HStep t (Some (ERuntime rt_await_self)))
        else
          let s := setf s f (getf s f <| fblock := false |>) in
          let s := add_done_callback s f (CbWakeup t) in
          let s := sett s t (gett s t <| twaiter := Some f |>) in
          if tmustc (gett s t) then
            let '(s', ok) := cancel_awaitable s f in
            if ok then sett s' t (gett s' t <| tmustc := false |>) else s'
          else s
      else call_soon_ s (HStep t (Some (ERuntime rt_yield_from)))
  end.

(* Task.__step(exc) *)
Definition step_task (t : nat) (exc : option exn) (s : st) : st :=
  if tdone s t then adderr s LEInvalidState else
  let tk := gett s t in
  let exc := if tmustc tk
             then match exc with
                  | Some e => if is_cancel e then Some e else Some ECancelled
                  | None => Some ECancelled end
             else exc in
  let cont := tcont_ tk in
  let s := sett s t (tk <| tmustc := false |> <| twaiter := None |> <| tcont_ := TRun |>) in
  let s := s <| current := Some t |> in
  let inp := match exc with None => RVal 0 | Some e => RExc e end in
  let '(s, o) :=
    match cont with
    | TNew c => match exc with
                | Some e => (s, ODone (RExc e))   (* throw() into an unstarted coroutine *)
                | None => exec t c s end
    | TSusp frs k =>
        let '(s, r) := resume_stack t frs inp s in
        match r with
        | LDone rep => exec t (k rep) s
        | LSusp y frs' => (s, OYield y frs' k)
        end
    | TEager y frs k =>
        match exc with
        | None =>
            (* first send(None): __await__ re-arms the flag and re-yields what was captured *)
            let s := match y with
                     | YFut f => setf s f (getf s f <| fblock := true |>)
                     | YNone => s end in
            (s, OYield y frs k)
        | Some _ =>
            (* throw() before the first step (repaired): forwarded to the started coroutine
               at its suspension point *)
            let '(s, r) := resume_stack t frs inp s in
            match r with
            | LDone rep => exec t (k rep) s
            | LSusp y' frs' => (s, OYield y' frs' k)
            end
        end
    | TRun | TFin => (s, ODone (RExc EInvalidState))
    end in
  let s := finish_step t s o in
  s <| current := None |>.

(* Task.__wakeup(future) *)
Definition wakeup (t f : nat) (s : st) : st :=
  match fstate_ (getf s f) with
  | FResult _ => step_task t None s
  | FExc e => step_task t (Some e) s
  | FCancelled => let '(s', r) := fut_result s f in
                  step_task t (match r with RExc e => Some e | RVal _ => None end) s'
  | FPending => step_task t (Some EInvalidState) s
  end.

Definition interruptor_body (b : nat) : coro :=
  Call (OInterruptor b) (fun r => match r with RVal v => Ret v | RExc e => Raise e end).

Definition run_callback (c : callback) (s : st) : st :=
  match c with
  | HStep t e => step_task t e s
  | HWakeup t f => wakeup t f s
  | HReinsert t p =>
      let '(s', r) := task_reinsert s t p in
      match r with RExc _ => adderr s' LEValue | _ => s' end
  | HLog n => addlog s n
  | HSetResult f v => fst (fut_finish s f (FResult v))      (* _set_result_unless_cancelled *)
  | HTrigger b => fst (new_task s KC None (interruptor_body b))
  | HQuery => queue_iterated (addlog s (query_code s))
  | HTaskCancel t => fst (cancel_task s t)
  end.

(* run exactly one ready handle (cancelled handles are popped and skipped) *)
Definition run_one (s : st) : st :=
  match rq_popleft (ready s) with
  | None => s
  | Some (h, r) =>
      let s := s <| ready := r |> in
      let hd := geth s h in
      if hcancelled hd then s else run_callback (hcb hd) s
  end.

(* what _run_once does before running handles: cancelled timers leave the head of
   the heap, due timers move to the ready queue *)
Fixpoint drop_cancelled (fuel : nat) (s : st) : st :=
  match fuel, timers s with
  | S fuel, (_, h) :: _ =>
      if hcancelled (geth s h) then
        match HeapqModel.heappop timer_lt tdflt (timers s) with
        | Some (_, tm) => drop_cancelled fuel (s <| timers := tm |>)
        | None => s
        end
      else s
  | _, _ => s
  end.
Fixpoint move_due (fuel : nat) (s : st) : st :=
  match fuel, timers s with
  | S fuel, (w, _) :: _ =>
      if Qle_bool w (now s) then
        match HeapqModel.heappop timer_lt tdflt (timers s) with
        | Some ((_, h), tm) =>
            let s := s <| timers := tm |> in
            move_due fuel (s <| ready := rq_append (ready s) h (handle_priority s (hcb (geth s h))) |>)
        | None => s
        end
      else s
  | _, _ => s
  end.
Definition begin_iteration (s : st) : st :=
  let n := length (timers s) in move_due n (drop_cancelled n s).

(* ------------------------------------------- environment actions *)
Inductive action :=
| AStep                          (* run one ready handle *)
| ABegin                         (* begin a loop iteration (timers) *)
| AAdvance (d : Q)               (* virtual clock += d *)
| ASpawn (how : spawn_kind) (c : coro)
| ADo (op : libop).              (* a synchronous library call made from outside the loop *)

Definition do_action (s : st) (a : action) : st :=
  match a with
  | AStep => run_one s
  | ABegin => begin_iteration s
  | AAdvance d => s <| now := Qplus (now s) d |>
  | ASpawn how c => fst (spawn_task s how c)
  | ADo op => fst (lib_call 0 op s)
  end.

Definition init_st (prio_loop : bool) (factor : Q) (draws : list Q)
           (lks : list lkind) (cds : list (ckind * nat)) (nev : nat) : st :=
  mkSt (if prio_loop then RPos (pos_empty factor draws) else RList [])
       [] [] []
       (map (fun k => mkLock k false None pq_empty [] []) lks)
       (map (fun c => mkCond (fst c) (snd c) pq_empty []) cds)
       (repeat dev nev) [] [] 0%Q None [] [].
