(* C03, whole runs: concrete instances.  The body
       try: await f0; log 1; await f1; log 2  finally: log 9
   is (A) started by eager() and cancelled by its caller in the very activation that started it
   (before the continuation task's first step: the F2 scenario), (A') run as a plain task and
   cancelled while blocked on f0; (B) started by eager(), f0 resolved, cancelled while blocked
   on f1, (B') run as a plain task, f0 and f1 resolved, cancelled while woken but not yet run.
   Traces and outcomes are those of the reference run with cancellation (evaluated inside
   Coq); the run-shape hypotheses of the theorems are checked, and the plain-task theorem is
   instantiated completely. *)
From Coq Require Import QArith.
From Asynkit Require Import Base.Prelude Sched.Model Sched.PartTables Sched.PartitionRun Sched.PartitionFinal
     Sched.TaskFrame Sched.EagerRunOth Sched.EagerRun Sched.CancelRun Sched.CancelRunThm.
Open Scope nat_scope.

Definition cx_body : coro :=
  Call (OAwaitFut 0) (fun r => match r with
    | RVal _ => Call (OLog 1) (fun _ => Call (OAwaitFut 1) (fun r2 => match r2 with
         | RVal _ => Call (OLog 2) (fun _ => Call (OLog 9) (fun _ => Ret 0))
         | RExc e => Call (OLog 9) (fun _ => Raise e) end))      (* finally: log 9; re-raise *)
    | RExc e => Call (OLog 9) (fun _ => Raise e) end).

Definition cx_P (f : nat) : Prop := f = 0 \/ f = 1.
Lemma cx_body_AD : AD cx_P cx_body.
Proof.
  apply AD_await; [left; reflexivity|]. intros [v|e]; [|apply AD_log; intros _; constructor].
  apply AD_log. intros _. apply AD_await; [right; reflexivity|].
  intros [v2|e2]; apply AD_log; intros _; [apply AD_log; intros _|]; constructor.
Qed.

Definition cx_val (f : nat) : reply := match f with O => RVal 5 | _ => RVal 7 end.
Definition cx_init : st :=
  fst (lib_call 0 ONewFut (fst (lib_call 0 ONewFut (init_st false 0 [] [] [] 0)))).

(* t = eager(body()); t.cancel(); await t *)
Definition cx_parent_cancel : coro :=
  Spawn SEager cx_body (fun r => match r with
     | RVal f => Call (OCancelAw (Z.to_nat f)) (fun _ => Call (OAwaitFut (Z.to_nat f)) (fun _ => Ret 0))
     | RExc e => Raise e end).
(* t = eager(body()); await t *)
Definition cx_parent : coro :=
  Spawn SEager cx_body (fun r => match r with
     | RVal f => Call (OAwaitFut (Z.to_nat f)) (fun _ => Ret 0)
     | RExc e => Raise e end).

Definition cx_A_start : st := fold_left do_action [ASpawn SPlain cx_parent_cancel; AStep] cx_init.
Definition cx_A_acts : list action := [AStep; AStep].
Definition cx_A : st := fold_left do_action cx_A_acts cx_A_start.

Definition cx_A'_start : st := do_action cx_init (ASpawn SPlain cx_body).
Definition cx_A'_acts : list action := [AStep; ADo (OCancel 0); AStep].
Definition cx_A' : st := fold_left do_action cx_A'_acts cx_A'_start.

Definition cx_B_start : st := fold_left do_action [ASpawn SPlain cx_parent; AStep] cx_init.
Definition cx_B_acts : list action := [AStep; ADo (OSetResult 0 5); AStep; ADo (OCancel 1); AStep; AStep].
Definition cx_B : st := fold_left do_action cx_B_acts cx_B_start.

Definition cx_B'_start : st := do_action cx_init (ASpawn SPlain cx_body).
Definition cx_B'_acts : list action :=
  [AStep; ADo (OSetResult 0 5); AStep; ADo (OSetResult 1 7); ADo (OCancel 0); AStep].
Definition cx_B' : st := fold_left do_action cx_B'_acts cx_B'_start.

Definition cx_obs (s : st) (t : nat) : list Z * tcont * fstate :=
  (map snd (evlog t 0 s), tcont_ (gett s t), fstate_ (getf s (tfut (gett s t)))).

(* equal traces [.., 9] and FCancelled in both start modes *)
Example ex_cancel_same :
  ref_run_c cx_body cx_val 0 = ([9]%Z, RExc ECancelled) /\
  ref_run_c cx_body cx_val 1 = ([1; 9]%Z, RExc ECancelled) /\
  (* (A) eager, cancelled before the continuation task's first step: task 0 is the caller, task 1
     the continuation; (A') plain task 0 cancelled while blocked on f0 *)
  cx_obs cx_A 1 = ([9]%Z, TFin, FCancelled) /\
  cx_obs cx_A' 0 = ([9]%Z, TFin, FCancelled) /\
  (* (B) eager, cancelled while blocked on f1; (B') plain, cancelled while woken, not yet run *)
  cx_obs cx_B 1 = ([1; 9]%Z, TFin, FCancelled) /\
  cx_obs cx_B' 0 = ([1; 9]%Z, TFin, FCancelled) /\
  (* the continuation is still unstepped when the caller's step (with the cancel) has ended *)
  (exists y frs k, tcont_ (gett cx_A_start 1) = TEager y frs k) /\ tmustc (gett cx_A_start 1) = true /\
  (* drained *)
  rq_items (ready cx_A) = [] /\ rq_items (ready cx_A') = [] /\
  rq_items (ready cx_B) = [] /\ rq_items (ready cx_B') = [].
Proof. vm_compute. repeat split; try reflexivity. eexists _, _, _. reflexivity. Qed.

(* ------------------------------------------------------------ the run-shape hypotheses hold *)
Ltac ev_pend :=
  match goal with |- context [pendb ?a ?b ?c] =>
    let v := eval vm_compute in (pendb a b c) in change (pendb a b c) with v; cbv iota end.
Ltac t_nostep :=
  first [exact Logic.I
        | let h := fresh in let r := fresh in let H := fresh in
          intros h r H; vm_compute in H;
          first [discriminate H|inversion H; subst; vm_compute; intros _; discriminate] ].
Ltac t_calm :=
  split; [vm_compute; reflexivity
         |let H := fresh in intros H;
          first [vm_compute in H; discriminate H|split; [vm_compute; reflexivity|t_nostep]]].
Ltac t_step :=
  split; [reflexivity|eexists; eexists; split; [vm_compute; reflexivity|split; vm_compute; reflexivity]].
Ltac t_deliver :=
  eexists _, _, _; split; [vm_compute; reflexivity|vm_compute; auto].
Ltac t_calm_run := repeat (split; [t_calm|]); exact Logic.I.

Example ex_cancel_run_A : cancel_run cx_val cx_body 1 0 None cx_A_start cx_A_acts.
Proof.
  unfold cancel_run, cx_A_acts. cbn [cancel_run_]. ev_pend.
  split; [vm_compute; reflexivity|]. right. split; [t_step|]. split; [t_deliver|]. cbn [calm_run]. t_calm_run.
Qed.

Example ex_cancel_run_A' : cancel_run cx_val cx_body 0 0 (Some 0) cx_A'_start cx_A'_acts.
Proof.
  unfold cancel_run, cx_A'_acts. cbn [cancel_run_]. ev_pend. split; [t_calm|]. ev_pend. split; [t_calm|]. ev_pend.
  split; [vm_compute; reflexivity|]. right. split; [t_step|]. split; [t_deliver|]. exact Logic.I.
Qed.

Example ex_cancel_run_B : cancel_run cx_val cx_body 1 1 (Some 1) cx_B_start cx_B_acts.
Proof.
  unfold cancel_run, cx_B_acts. cbn [cancel_run_].
  ev_pend. split; [t_calm|]. ev_pend. split; [t_calm|]. ev_pend. split; [t_calm|]. ev_pend. split; [t_calm|].
  ev_pend. split; [vm_compute; reflexivity|]. right. split; [t_step|]. split; [t_deliver|]. cbn [calm_run]. t_calm_run.
Qed.

Example ex_cancel_run_B' : cancel_run cx_val cx_body 0 1 None cx_B'_start cx_B'_acts.
Proof.
  unfold cancel_run, cx_B'_acts. cbn [cancel_run_].
  ev_pend. split; [t_calm|]. ev_pend. split; [t_calm|]. ev_pend. split; [t_calm|]. ev_pend. split; [t_calm|].
  ev_pend. split; [t_calm|].
  ev_pend. split; [vm_compute; reflexivity|]. right. split; [t_step|]. split; [t_deliver|]. exact Logic.I.
Qed.

(* ------------------------------------------------------------ the plain-task theorem, instantiated *)
Lemma cx_init_inv : Inv09 qok_list cx_init.
Proof.
  apply (Inv09_action qok_list QSpec_list _ (ADo ONewFut)); [|exact Logic.I].
  apply (Inv09_action qok_list QSpec_list _ (ADo ONewFut)); [|exact Logic.I].
  apply Inv09_init. exact Logic.I.
Qed.

Example ex_plain_cancel_thm :
  map snd (evlog 0 0 cx_A') = fst (ref_run_c cx_body cx_val 0) /\
  fstate_ (getf cx_A' (tfut (gett cx_A' 0))) = task_outcome (snd (ref_run_c cx_body cx_val 0)).
Proof.
  apply (plain_cancel_run qok_list QSpec_list cx_P cx_init SPlain cx_body cx_A'_acts cx_val 0 (Some 0)).
  - exact cx_init_inv.
  - discriminate.
  - exact cx_body_AD.
  - intros f [->| ->]; vm_compute; lia.
  - (* after the cancellation the body awaits nothing *)
    intros l y k H. vm_compute in H. inversion H; subst. apply AD_log. intros _. constructor.
  - intros f e H. destruct f as [|f]; cbn in H; discriminate.
  - cbn. auto.
  - exact ex_cancel_run_A'.
  - intros f [[->| ->] N]; [exfalso; apply N; reflexivity|vm_compute; exact Logic.I].
  - vm_compute. reflexivity.
Qed.
