(* C01, whole runs: a concrete instance.  One await-determined body run (i) eagerly inside a
   parent that joins it, the future resolved AFTER the continuation task has blocked on it, and
   (ii) as a plain task under a different action list in which the future is resolved BEFORE the
   task's first step.  Same future value: equal events, equal outcome, both equal to the
   reference run (evaluated inside Coq). *)
From Coq Require Import QArith.
From Asynkit Require Import Base.Prelude Sched.Model Sched.PartTables Sched.PartitionRun Sched.PartitionFinal
     Sched.EagerRunOth Sched.EagerRun.
Open Scope nat_scope.

Definition ex_body : coro :=
  Call (OLog 1) (fun _ =>
  Call (OAwaitFut 0) (fun r =>
    match r with
    | RVal v => Call (OLog 2) (fun _ => Ret v)
    | RExc e => Call (OLog 3) (fun _ => Raise e)        (* except: log; raise *)
    end)).

Lemma ex_body_AD : AD (fun f => f = 0) ex_body.
Proof.
  apply AD_log. intros _. apply AD_await; [reflexivity|]. intros [v|e]; apply AD_log; intros _; constructor.
Qed.

Definition ex_val (f : nat) : reply := RVal 5.
Definition ex_init : st := fst (lib_call 0 ONewFut (init_st false 0 [] [] [] 0)).

Definition ex_parent : coro :=
  Spawn SEager ex_body (fun r => match r with
                                 | RVal f => Call (OAwaitFut (Z.to_nat f)) (fun _ => Ret 0)
                                 | RExc e => Raise e end).
Definition ex_eager_final : st :=
  fold_left do_action [ASpawn SPlain ex_parent; AStep; AStep; ADo (OSetResult 0 5); AStep; AStep; AStep] ex_init.
Definition ex_plain_final : st :=
  fold_left do_action [ADo (OSetResult 0 5); ASpawn SPlain ex_body; AStep; AStep] ex_init.

(* the initial state satisfies the invariant the theorems assume (list loop) *)
Lemma ex_init_inv : Inv09 qok_list ex_init.
Proof.
  apply (Inv09_action qok_list QSpec_list _ (ADo ONewFut)); [|exact Logic.I].
  apply Inv09_init. exact Logic.I.
Qed.

Example ex_same_as_task :
  ref_run ex_body ex_val = ([1; 2]%Z, RVal 5) /\
  (* eager: task 0 is the parent (events tagged 1: the prefix), task 1 the continuation *)
  log ex_eager_final = [(1, 1%Z); (2, 2%Z)] /\
  length (tasks ex_eager_final) = 2 /\
  tcont_ (gett ex_eager_final 1) = TFin /\
  fstate_ (getf ex_eager_final (tfut (gett ex_eager_final 1))) = FResult 5 /\
  (* plain: task 0 is the body *)
  log ex_plain_final = [(1, 1%Z); (1, 2%Z)] /\
  tcont_ (gett ex_plain_final 0) = TFin /\
  fstate_ (getf ex_plain_final (tfut (gett ex_plain_final 0))) = FResult 5 /\
  (* the awaited future holds val's reply in both final states *)
  fstate_ (getf ex_eager_final 0) = FResult 5 /\ fstate_ (getf ex_plain_final 0) = FResult 5.
Proof. vm_compute. repeat split; reflexivity. Qed.
