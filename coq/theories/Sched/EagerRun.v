(* C01, whole runs: a coroutine whose behaviour is determined by what it awaits produces the
   same events and the same outcome whether it is started by eager() or as a plain task,
   under every schedule.

   - await-determined bodies [AD P c]: trees of Ret / Raise / log / await future f (P f) /
     sleep(0) with arbitrary branching on the replies (so every try/except/finally structure
     that Corr.denote produces over these operations is covered: [AD_denote]);
   - the reference semantics [ref_run c val]: the tree run with each `await f` answered by
     [val f] - a pure function that knows nothing about tasks, loops or schedules;
   - [exec_AD]: one activation of such a body inside the model, from any state;
   - [Tracks]: the position of the tracked task in the reference run; established by both
     start modes, preserved by every action of every run (EagerRunOth.X for the others'
     code, FutMono.FM for the futures, the partition invariant Inv09 for the activation
     discipline), and at the end it gives trace and outcome. *)
From Coq Require Import QArith Sorting.Permutation.
From RecordUpdate Require Import RecordUpdate.
From Asynkit Require Import Base.Prelude Queue.ListFacts Queue.PQ Queue.PosPQ Queue.Exec
     Sched.Model Sched.PartTables Sched.PartitionProofs Sched.PartitionSteps Sched.PartitionRun
     Sched.FrameFacts Sched.TaskFrame Sched.ThrowProofs Sched.EagerProofs Sched.FutMono
     Sched.EagerRunOth.
Import RecordSetNotations.
Open Scope nat_scope.

(* ------------------------------------------------------------ the class and its reference run *)
Inductive AD (P : nat -> Prop) : coro -> Prop :=
| AD_ret v : AD P (Ret v)
| AD_raise e : AD P (Raise e)
| AD_log n k : (forall r, AD P (k r)) -> AD P (Call (OLog n) k)
| AD_await f k : P f -> (forall r, AD P (k r)) -> AD P (Call (OAwaitFut f) k)
| AD_sleep0 k : (forall r, AD P (k r)) -> AD P (Call OSleep0 k).

Fixpoint ref_run (c : coro) (val : nat -> reply) {struct c} : list Z * reply :=
  match c with
  | Ret v => ([], RVal v)
  | Raise e => ([], RExc e)
  | Call (OLog n) k => let p := ref_run (k (RVal 0)) val in (n :: fst p, snd p)
  | Call (OAwaitFut f) k => ref_run (k (val f)) val
  | Call OSleep0 k => ref_run (k (RVal 0)) val
  | _ => ([], RExc EInvalidState)       (* outside the class *)
  end.

(* what a suspension point is resumed with, and its library frames *)
Definition yreply (val : nat -> reply) (y : yielded) : reply :=
  match y with YFut f => val f | YNone => RVal 0 end.
Definition yframes (y : yielded) : list frame :=
  match y with YFut f => [InFut f] | YNone => [InSleep0] end.

(* [val] agrees with the state on the futures the body may await: a finished future holds
   exactly val's reply (a cancelled one is outside the domain of the theorem) *)
Definition agree (P : nat -> Prop) (s : st) (val : nat -> reply) : Prop :=
  forall f, P f ->
    match fstate_ (getf s f) with
    | FPending => True
    | FResult v => val f = RVal v
    | FExc e => val f = RExc e
    | FCancelled => False
    end.

Lemma agree_mono (P : nat -> Prop) s s' val :
  FM s s' -> (forall f, P f -> f < length (futs s)) -> agree P s' val -> agree P s val.
Proof.
  intros M R A f Pf. specialize (A f Pf). destruct (fstate_ (getf s f)) eqn:E; auto.
  - rewrite (FM_write_once s s' f M (R f Pf)) in A by (rewrite E; discriminate). rewrite E in A. exact A.
  - rewrite (FM_write_once s s' f M (R f Pf)) in A by (rewrite E; discriminate). rewrite E in A. exact A.
  - rewrite (FM_write_once s s' f M (R f Pf)) in A by (rewrite E; discriminate). rewrite E in A. exact A.
Qed.

(* ------------------------------------------------------------ one activation of an AD body *)
Record Sf (s s' : st) : Prop := {
  sf_ready : ready s' = ready s; sf_handles : handles s' = handles s; sf_tasks : tasks s' = tasks s;
  sf_cur : current s' = current s; sf_len : length (futs s') = length (futs s);
  sf_fut : forall g, fstate_ (getf s' g) = fstate_ (getf s g) /\ fcbs (getf s' g) = fcbs (getf s g) }.

Lemma Sf_refl s : Sf s s. Proof. constructor; auto. Qed.
Lemma Sf_trans s1 s2 s3 : Sf s1 s2 -> Sf s2 s3 -> Sf s1 s3.
Proof.
  intros [A1 A2 A3 A4 A5 A6] [B1 B2 B3 B4 B5 B6]. constructor; try congruence.
  intros g. destruct (A6 g), (B6 g). split; congruence.
Qed.

Definition tagof (s : st) : nat := match current s with Some t => S t | None => O end.

Lemma Sf_flag s f b : Sf s (setf s f (getf s f <| fblock := b |>)).
Proof.
  constructor; try reflexivity.
  - apply length_futs_setf.
  - intros g. rewrite getf_setf. destruct (_ && _) eqn:B; [|auto].
    apply andb_prop in B. destruct B as [B _]. apply Nat.eqb_eq in B. subst. auto.
Qed.

Lemma fut_result_agree (P : nat -> Prop) s val f :
  agree P s val -> P f -> fdone s f = true -> fut_result s f = (s, val f).
Proof.
  intros A Pf D. specialize (A f Pf). unfold fut_result. unfold fdone in D.
  destruct (fstate_ (getf s f)); try discriminate; try contradiction; rewrite A; reflexivity.
Qed.

Section Exec.
Variable P : nat -> Prop.
Variable val : nat -> reply.

Definition yield_ok (s' : st) (y : yielded) : Prop :=
  match y with
  | YFut f => P f /\ fdone s' f = false /\ fblock (getf s' f) = true
  | YNone => True
  end.

Lemma exec_AD t : forall c, AD P c -> forall s s' o,
  (forall f, P f -> f < length (futs s)) -> agree P s val -> exec t c s = (s', o) ->
  exists l, Sf s s' /\ log s' = log s ++ map (pair (tagof s)) l /\
    match o with
    | ODone r => ref_run c val = (l, r)
    | OYield y frs k =>
        frs = yframes y /\ (forall r, AD P (k r)) /\ yield_ok s' y /\
        ref_run c val = (l ++ fst (ref_run (k (yreply val y)) val), snd (ref_run (k (yreply val y)) val))
    end.
Proof.
  induction 1 as [v|e|n k Hk IH|f k Pf Hk IH|k Hk IH]; intros s s' o R A E.
  - inversion E; subst. exists []. split; [apply Sf_refl|]. split; [cbn; rewrite app_nil_r; reflexivity|reflexivity].
  - inversion E; subst. exists []. split; [apply Sf_refl|]. split; [cbn; rewrite app_nil_r; reflexivity|reflexivity].
  - cbn [exec lib_call] in E.
    destruct (IH (RVal 0) (addlog s n) s' o R A E) as (l & S1 & L1 & O1).
    exists (n :: l). split; [|split].
    + eapply Sf_trans; [|exact S1]. constructor; auto.
    + rewrite L1. unfold addlog at 1. cbn. rewrite <- app_assoc. reflexivity.
    + cbn [ref_run]. destruct o as [r|y frs k'].
      * rewrite O1. reflexivity.
      * destruct O1 as (F1 & F2 & F3 & F4). repeat split; auto. rewrite F4. reflexivity.
  - cbn [exec lib_call] in E. unfold await_fut in E. destruct (fdone s f) eqn:D.
    + rewrite (fut_result_agree P s val f A Pf D) in E.
      destruct (IH (val f) s s' o R A E) as (l & S1 & L1 & O1).
      exists l. split; [exact S1|]. split; [exact L1|]. cbn [ref_run]. exact O1.
    + inversion E; subst. exists []. split; [apply Sf_flag|]. split; [cbn; rewrite app_nil_r; reflexivity|].
      split; [reflexivity|]. split; [exact Hk|]. split.
      * split; [exact Pf|]. split.
        -- unfold fdone in *. rewrite getf_setf_same by (apply R; exact Pf). exact D.
        -- rewrite getf_setf_same by (apply R; exact Pf). reflexivity.
      * cbn [ref_run yreply app]. apply surjective_pairing.
  - cbn [exec lib_call] in E. inversion E; subst. exists []. split; [apply Sf_refl|].
    split; [cbn; rewrite app_nil_r; reflexivity|]. split; [reflexivity|]. split; [exact Hk|].
    split; [exact Logic.I|]. cbn [ref_run yreply app]. apply surjective_pairing.
Qed.

(* resuming the suspension point with the reply the reference run feeds it *)
Lemma resume_AD t s y inp :
  agree P s val ->
  match y with
  | YFut f => P f /\ fdone s f = true /\
              (match inp with RVal _ => True | RExc e => fstate_ (getf s f) = FExc e end)
  | YNone => exists v, inp = RVal v
  end ->
  resume_stack t (yframes y) inp s = (s, LDone (yreply val y)).
Proof.
  intros A H. destruct y as [|f]; cbn [yframes yreply resume_stack frame_resume].
  - destruct H as [v ->]. reflexivity.
  - destruct H as (Pf & D & Hi). destruct inp as [v|e].
    + rewrite D. rewrite (fut_result_agree P s val f A Pf D). reflexivity.
    + specialize (A f Pf). rewrite Hi in A. rewrite A. reflexivity.
Qed.

End Exec.

(* ------------------------------------------------------------ frame facts of the end of a step *)
Lemma fold_soon_frame f cbs : forall u,
  let s' := fold_left (fun s c => call_soon_ s (cb_callback f c)) cbs u in
  tasks s' = tasks u /\ futs s' = futs u /\ log s' = log u /\ current s' = current u.
Proof.
  induction cbs as [|x cbs IH]; intros u; simpl; auto.
  destruct (IH (call_soon_ u (cb_callback f x))) as (A & B & C & D). auto.
Qed.

Lemma fut_finish_frame s f x :
  let s' := fst (fut_finish s f x) in
  tasks s' = tasks s /\ log s' = log s /\ current s' = current s /\ length (futs s') = length (futs s).
Proof.
  unfold fut_finish. destruct (fstate_ (getf s f)); cbn [fst]; auto. unfold schedule_callbacks.
  match goal with |- context [fold_left ?F ?l ?u] => destruct (fold_soon_frame f l u) as (A & B & C & D) end.
  cbv zeta in *. rewrite A, B, C, D. repeat split; auto.
  rewrite !length_futs_setf. reflexivity.
Qed.

Lemma fut_finish_state s f x :
  f < length (futs s) -> fstate_ (getf s f) = FPending ->
  fstate_ (getf (fst (fut_finish s f x)) f) = x.
Proof.
  intros L E. unfold fut_finish. rewrite E. cbn [fst]. unfold schedule_callbacks.
  match goal with |- context [fold_left ?F ?l ?u] => destruct (fold_soon_frame f l u) as (A & B & C & D) end.
  cbv zeta in *. unfold getf at 1. rewrite B.
  change (fstate_ (getf (setf (setf s f (getf s f <| fstate_ := x |>)) f
     (getf (setf s f (getf s f <| fstate_ := x |>)) f <| fcbs := [] |>)) f) = x).
  rewrite getf_setf_same by (rewrite length_futs_setf; exact L).
  rewrite getf_setf_same by exact L. reflexivity.
Qed.

Lemma gett_tasks_eq s' s t : tasks s' = tasks s -> gett s' t = gett s t.
Proof. unfold gett. intros ->. reflexivity. Qed.
Lemma getf_futs_eq s' s f : futs s' = futs s -> getf s' f = getf s f.
Proof. unfold getf. intros ->. reflexivity. Qed.

Lemma cnt_zero_inv {A} (p : A -> bool) l : cnt p l = 0 -> forall x, In x l -> p x = false.
Proof.
  intros H x Hx. destruct (p x) eqn:E; auto. pose proof (cnt_in_pos p l x Hx E). lia.
Qed.

Lemma evlog_app t n0 s s' l :
  n0 <= length (log s) -> log s' = log s ++ map (pair (S t)) l ->
  map snd (evlog t n0 s') = map snd (evlog t n0 s) ++ l.
Proof.
  intros L E. unfold evlog. rewrite E, skipn_app.
  replace (n0 - length (log s)) with 0 by lia. cbn [skipn]. rewrite filter_app, map_app. f_equal.
  clear E. induction l as [|x l IH]; cbn; auto. unfold tagged at 1. cbn. rewrite Nat.eqb_refl. cbn. f_equal. exact IH.
Qed.

Definition task_outcome (r : reply) : fstate :=
  match r with RVal v => FResult v | RExc e => if is_cancel e then FCancelled else FExc e end.
Definition wait_of (y : yielded) : option nat := match y with YFut f => Some f | YNone => None end.

(* ------------------------------------------------------------ the tracked task *)
Section Track.
Variable qok : rq -> Prop.
Hypothesis QS : QSpec qok.
Variable P : nat -> Prop.     (* the futures the body may await *)
Variable val : nat -> reply.  (* their values *)
Variable c : coro.            (* the body *)
Variable tn : nat.            (* its task *)
Variable n0 : nat.            (* log position at the task's creation *)
Variable pre : list Z.        (* events of the synchronous prefix (eager start); [] for a plain task *)

Definition evs_of (s : st) : list Z := pre ++ map snd (evlog tn n0 s).
Definition Rem (s : st) (c' : coro) : Prop :=
  ref_run c val = (evs_of s ++ fst (ref_run c' val), snd (ref_run c' val)).
Definition yP (y : yielded) : Prop := match y with YFut f => P f | YNone => True end.

Definition Tracks (s : st) : Prop :=
  n0 <= length (log s) /\
  match tcont_ (gett s tn) with
  | TNew c0 => AD P c0 /\ Rem s c0 /\ twaiter (gett s tn) = None
  | TSusp frs k =>
      exists y, frs = yframes y /\ (forall r, AD P (k r)) /\ yP y /\ Rem s (k (yreply val y)) /\
                twaiter (gett s tn) = wait_of y
  | TEager y frs k =>
      frs = yframes y /\ (forall r, AD P (k r)) /\ yP y /\ Rem s (k (yreply val y)) /\
      twaiter (gett s tn) = None
  | TFin => ref_run c val = (evs_of s, snd (ref_run c val)) /\
            fstate_ (getf s (tfut (gett s tn))) = task_outcome (snd (ref_run c val))
  | TRun => False
  end.

(* nothing of tn is scheduled or registered: the state inside tn's own step *)
Record Qt (s : st) : Prop := {
  q_qok : qok (ready s);
  q_rdy : forall h, In h (rq_items (ready s)) -> h < length (handles s) /\ task_of_handle s h <> Some tn;
  q_cbs : forall g, fdone s g = false -> ~ In (CbWakeup tn) (fcbs (getf s g));
  q_tn : tn < length (tasks s);
  q_kc : tkind_ (gett s tn) = KC }.

Lemma X_quiet s w evs : Qt s -> X qok tn w n0 evs false s.
Proof.
  intros [A1 A2 A3 A4 A5]. constructor; auto; try discriminate.
  - intros h Hh. destruct (A2 h Hh) as [L N]. split; [exact L|].
    unfold task_of_handle in N. destruct (hcb (geth s h)); cbn in *; auto; intros ->; exfalso; apply N; reflexivity.
  - intros g Hg Hi. exfalso. apply (A3 g Hg Hi).
Qed.

Lemma Qt_obs s s' :
  ready s' = ready s -> handles s' = handles s ->
  length (tasks s') = length (tasks s) -> tkind_ (gett s' tn) = tkind_ (gett s tn) ->
  (forall g, fstate_ (getf s' g) = fstate_ (getf s g) /\ fcbs (getf s' g) = fcbs (getf s g)) ->
  Qt s -> Qt s'.
Proof.
  intros E1 E2 E3 E3' E4 [A1 A2 A3 A4 A5]. constructor; unfold task_of_handle, geth in *;
    rewrite ?E1, ?E2, ?E3, ?E3'; auto.
  intros g Hg Hi. destruct (E4 g) as [F1 F2]. apply (A3 g).
  - unfold fdone in *. rewrite <- F1. exact Hg.
  - rewrite <- F2. exact Hi.
Qed.

Lemma X_upgrade s w evs :
  X qok tn w n0 evs false s -> twaiter (gett s tn) = w -> current s <> Some tn ->
  X qok tn w n0 (evlog tn n0 s) true s.
Proof. intros [A1 A2 A3 A4 A5 A6 A7 A8] Hw Hc. constructor; auto. Qed.

Lemma X_cur_none s w evs : X qok tn w n0 evs false s -> X qok tn w n0 evs false (s <| current := None |>).
Proof. intros [A1 A2 A3 A4 A5 A6 A7 A8]. constructor; auto; discriminate. Qed.

(* Task.__step's treatment of the outcome of tn's own activation *)
Lemma finish_own s o :
  Qt s -> tmustc (gett s tn) = false -> twaiter (gett s tn) = None ->
  tfut (gett s tn) < length (futs s) -> fstate_ (getf s (tfut (gett s tn))) = FPending ->
  match o with
  | ODone _ => True
  | OYield y frs k =>
      match y with
      | YFut f => fblock (getf s f) = true /\ f <> tfut (gett s tn) /\ f < length (futs s)
      | YNone => True
      end
  end ->
  let s' := finish_step tn s o in
  let w' := match o with ODone _ => None | OYield y _ _ => wait_of y end in
  X qok tn w' n0 [] false s' /\ twaiter (gett s' tn) = w' /\ log s' = log s /\
  tfut (gett s' tn) = tfut (gett s tn) /\ length (futs s') = length (futs s) /\
  match o with ODone r => fstate_ (getf s' (tfut (gett s tn))) = task_outcome r | _ => True end.
Proof.
  intros Q Hm Hw Hf Hp Ho. pose proof (q_tn s Q) as Ltn. unfold finish_step.
  set (tk := gett s tn) in *.
  assert (SS : forall x, tmustc x = tmustc tk -> tfut x = tfut tk -> twaiter x = twaiter tk ->
            tkind_ x = tkind_ tk ->
            let s1 := sett s tn x in
            X qok tn None n0 [] false s1 /\ gett s1 tn = x /\ futs s1 = futs s /\ log s1 = log s).
  { intros x _ _ E3 E4 s1. split; [|split; [apply gett_sett_same; exact Ltn|split; reflexivity]].
    apply X_sett; [intros _; split; [exact E3|exact E4]|apply X_quiet; exact Q]. }
  destruct o as [[v|e]|[|f] frs k]; cbv zeta.
  - (* return *)
    rewrite Hm. destruct (SS (tk <| tcont_ := TFin |>)) as (X1 & G1 & F1 & L1); try reflexivity.
    set (s1 := sett s tn (tk <| tcont_ := TFin |>)) in *.
    destruct (fut_finish_frame s1 (tfut tk) (FResult v)) as (A & B & C & D). cbv zeta in *.
    split; [apply X_fut_finish_fst; [exact QS|exact X1]|].
    rewrite (gett_tasks_eq _ _ tn A), G1, B, L1, D. unfold s1 at 1. rewrite length_futs_setf || idtac.
    repeat split; auto.
    apply fut_finish_state; [unfold s1; exact Hf|]. rewrite (getf_futs_eq _ s _ F1). exact Hp.
  - (* raise *)
    destruct (SS (tk <| tcont_ := TFin |>)) as (X1 & G1 & F1 & L1); try reflexivity.
    set (s1 := sett s tn (tk <| tcont_ := TFin |>)) in *.
    destruct (is_cancel e) eqn:Ec.
    + set (s2 := setf s1 (tfut tk) (getf s1 (tfut tk) <| fcexc := Some e |>)).
      assert (X2 : X qok tn None n0 [] false s2).
      { apply X_setf; [|exact X1]. intros Hq. split; [exact Hq|intros Hi; exact Hi]. }
      destruct (fut_finish_frame s2 (tfut tk) FCancelled) as (A & B & C & D). cbv zeta in *.
      split; [apply X_fut_finish_fst; [exact QS|exact X2]|].
      rewrite (gett_tasks_eq _ s1 tn A), G1, B, D.
      split; [exact Hw|]. split; [exact L1|]. split; [reflexivity|].
      split; [unfold s2; rewrite length_futs_setf, F1; reflexivity|].
      * cbn. rewrite Ec. apply fut_finish_state.
        -- unfold s2. rewrite length_futs_setf. exact Hf.
        -- unfold s2. rewrite getf_setf_same by exact Hf.
           change (fstate_ (getf s1 (tfut tk)) = FPending). rewrite (getf_futs_eq _ s _ F1). exact Hp.
    + destruct (fut_finish_frame s1 (tfut tk) (FExc e)) as (A & B & C & D). cbv zeta in *.
      split; [apply X_fut_finish_fst; [exact QS|exact X1]|].
      rewrite (gett_tasks_eq _ _ tn A), G1, B, L1, D.
      repeat split; auto.
      cbn. rewrite Ec. apply fut_finish_state; [exact Hf|]. rewrite (getf_futs_eq _ s _ F1). exact Hp.
  - (* bare yield *)
    destruct (SS (tk <| tcont_ := TSusp frs k |>)) as (X1 & G1 & F1 & L1); try reflexivity.
    set (s1 := sett s tn (tk <| tcont_ := TSusp frs k |>)) in *.
    split; [apply X_call_soon; [exact QS|cbn; intros _; reflexivity|exact X1]|].
    change (gett (call_soon_ s1 (HStep tn None)) tn) with (gett s1 tn). rewrite G1.
    repeat split; auto.
  - (* yield of a future *)
    destruct Ho as (Hb & Hn & Lf).
    destruct (SS (tk <| tcont_ := TSusp frs k |>)) as (X1 & G1 & F1 & L1); try reflexivity.
    set (s1 := sett s tn (tk <| tcont_ := TSusp frs k |>)) in *.
    rewrite (getf_futs_eq s1 s f F1), Hb.
    destruct (Nat.eqb_spec f (tfut tk)) as [Ef|_]; [exfalso; exact (Hn Ef)|].
    set (s2 := setf s1 f (getf s f <| fblock := false |>)).
    assert (Q1 : Qt s1).
    { eapply Qt_obs; [..|exact Q]; try reflexivity.
      - apply length_tasks_sett.
      - rewrite G1. reflexivity.
      - intros g. rewrite (getf_futs_eq s1 s g F1). auto. }
    assert (Q2 : Qt s2).
    { eapply Qt_obs; [..|exact Q1]; try reflexivity. intros g. unfold s2. rewrite getf_setf.
      destruct (_ && _) eqn:Bq; [|auto]. apply andb_prop in Bq. destruct Bq as [Bq _].
      apply Nat.eqb_eq in Bq. subst g. rewrite (getf_futs_eq s1 s f F1). auto. }
    set (s3 := add_done_callback s2 f (CbWakeup tn)).
    assert (T3 : tasks s3 = tasks s1).
    { unfold s3, add_done_callback. destruct (fdone s2 f); reflexivity. }
    assert (L3 : log s3 = log s1 /\ length (futs s3) = length (futs s)).
    { unfold s3, add_done_callback. destruct (fdone s2 f); cbn; rewrite ?set_nth_length; auto. }
    assert (X3 : X qok tn (Some f) n0 [] false s3).
    { unfold s3, add_done_callback. destruct (fdone s2 f).
      - apply X_call_soon; [exact QS|cbn; intros _; reflexivity|apply X_quiet; exact Q2].
      - apply X_setf_own; [reflexivity|intros Hq; exact Hq|apply X_quiet; exact Q2]. }
    set (s4 := sett s3 tn (gett s3 tn <| twaiter := Some f |>)).
    assert (G3 : gett s3 tn = tk <| tcont_ := TSusp frs k |>).
    { rewrite (gett_tasks_eq s3 s1 tn T3). exact G1. }
    assert (G4 : gett s4 tn = gett s3 tn <| twaiter := Some f |>).
    { apply gett_sett_same. rewrite T3. unfold s1. rewrite length_tasks_sett. exact Ltn. }
    rewrite G4, G3. change (tmustc (tk <| tcont_ := TSusp frs k |> <| twaiter := Some f |>)) with (tmustc tk).
    rewrite Hm. rewrite G4, G3. destruct L3 as [L3 L3'].
    split; [|repeat split; auto; change (log s4) with (log s3); rewrite L3; exact L1].
    apply X_sett_free; [reflexivity| |exact X3]. intros _. rewrite G3. reflexivity.
Qed.


(* the end of tn's own step, after an activation that produced the events l *)
Definition yarmed (s : st) (y : yielded) : Prop :=
  match y with YFut f => fblock (getf s f) = true | YNone => True end.

Lemma own_tail sp s2 o l c' :
  n0 <= length (log sp) -> Rem sp c' ->
  Qt s2 -> tmustc (gett s2 tn) = false -> twaiter (gett s2 tn) = None ->
  tfut (gett s2 tn) < length (futs s2) -> fstate_ (getf s2 (tfut (gett s2 tn))) = FPending ->
  log s2 = log sp ++ map (pair (S tn)) l ->
  (forall f, P f -> f < length (futs s2) /\ f <> tfut (gett s2 tn)) ->
  match o with
  | ODone r => ref_run c' val = (l, r)
  | OYield y frs k =>
      frs = yframes y /\ (forall r, AD P (k r)) /\ yP y /\ yarmed s2 y /\
      ref_run c' val = (l ++ fst (ref_run (k (yreply val y)) val), snd (ref_run (k (yreply val y)) val))
  end ->
  let s' := finish_step tn s2 o <| current := None |> in
  X qok tn (twaiter (gett s' tn)) n0 (evlog tn n0 s') true s' /\ Tracks s' /\
  tfut (gett s' tn) = tfut (gett s2 tn) /\ length (futs s') = length (futs s2).
Proof.
  intros Ln HR Q Hm Hw Hf Hp Hl Rng Ho s'.
  assert (Ho' : match o with
                | ODone _ => True
                | OYield y frs k =>
                    match y with
                    | YFut f => fblock (getf s2 f) = true /\ f <> tfut (gett s2 tn) /\ f < length (futs s2)
                    | YNone => True
                    end
                end).
  { destruct o as [r|y frs k]; [exact Logic.I|]. destruct y as [|f]; [exact Logic.I|].
    destruct Ho as (_ & _ & Py & Ar & _). cbn in Py, Ar. destruct (Rng f Py). auto. }
  destruct (finish_own s2 o Q Hm Hw Hf Hp Ho') as (X1 & W1 & L1 & F1 & N1 & O1).
  cbv zeta in X1, W1, L1, F1, N1, O1.
  set (sf := finish_step tn s2 o) in *.
  assert (Ew : twaiter (gett s' tn) = match o with ODone _ => None | OYield y _ _ => wait_of y end) by exact W1.
  assert (El : log s' = log sp ++ map (pair (S tn)) l) by (change (log s') with (log sf); rewrite L1; exact Hl).
  assert (Ee : evs_of s' = evs_of sp ++ l).
  { unfold evs_of. rewrite (evlog_app tn n0 sp s' l Ln El), app_assoc. reflexivity. }
  split; [|split; [|split; [exact F1|exact N1]]].
  - rewrite Ew. apply (X_upgrade s' _ []); [apply X_cur_none; exact X1|exact Ew|discriminate].
  - unfold Tracks. split; [rewrite El, app_length; lia|].
    change (gett s' tn) with (gett sf tn). unfold sf at 1. rewrite (finish_step_tcont tn s2 o (q_tn s2 Q)).
    unfold Rem in HR. destruct o as [r|y frs k].
    + rewrite Ho in HR. cbn [fst snd] in HR. rewrite HR. cbn [snd]. split; [rewrite Ee; reflexivity|].
      change (getf s' ?g) with (getf sf g). rewrite F1. exact O1.
    + destruct Ho as (Fy & Ak & Py & _ & Rr). exists y. split; [exact Fy|]. split; [exact Ak|]. split; [exact Py|].
      split; [|exact W1]. unfold Rem. rewrite HR, Rr, Ee. cbn [fst snd]. rewrite app_assoc. reflexivity.
Qed.

(* ------------------------------------------------------------ the invariant between loop actions *)
Record B (s : st) : Prop := {
  b_inv : Inv09 qok s;
  b_x : X qok tn (twaiter (gett s tn)) n0 (evlog tn n0 s) true s;
  b_tr : Tracks s;
  b_rng : forall f, P f -> f < length (futs s) /\ f <> tfut (gett s tn) }.

Definition Good (s0 s' : st) : Prop :=
  X qok tn (twaiter (gett s' tn)) n0 (evlog tn n0 s') true s' /\ Tracks s' /\
  tfut (gett s' tn) = tfut (gett s0 tn) /\ length (futs s') = length (futs s0).

Lemma own_core sp exc :
  Qt sp -> Tracks sp -> (forall f, P f -> f < length (futs sp) /\ f <> tfut (gett sp tn)) ->
  tfut (gett sp tn) < length (futs sp) ->
  tmustc (gett sp tn) = false -> tdone sp tn = false -> agree P sp val ->
  match exc with
  | None => forall f, twaiter (gett sp tn) = Some f -> fdone sp f = true
  | Some e => exists f, twaiter (gett sp tn) = Some f /\ fstate_ (getf sp f) = FExc e
  end ->
  Good sp (step_task tn exc sp).
Proof.
  intros Q [Ln T] Rng Hf Hm Hd A Hin. pose proof (q_tn sp Q) as Ltn.
  set (rs := running_state sp tn).
  assert (Grs : gett rs tn = gett sp tn <| tmustc := false |> <| twaiter := None |> <| tcont_ := TRun |>).
  { unfold rs, running_state. apply (gett_sett_same sp tn _ Ltn). }
  assert (Qrs : Qt rs).
  { eapply Qt_obs; [..|exact Q]; try reflexivity.
    - unfold rs, running_state. cbn. apply set_nth_length.
    - rewrite Grs. reflexivity.
    - intros g. auto. }
  assert (Hpend : fstate_ (getf sp (tfut (gett sp tn))) = FPending).
  { unfold tdone, fdone in Hd. destruct (fstate_ (getf sp (tfut (gett sp tn)))); congruence. }
  assert (Ars : agree P rs val) by (intros f Pf; exact (A f Pf)).
  assert (Rrs : forall f, P f -> f < length (futs rs)) by (intros f Pf; apply (Rng f Pf)).
  (* an activation of AD code c' from rs, then the end of the step *)
  assert (Run : forall c', AD P c' -> Rem sp c' ->
            Good sp (let '(s2, o) := exec tn c' rs in finish_step tn s2 o <| current := None |>)).
  { intros c' Hc' HR. destruct (exec tn c' rs) as [s2 o] eqn:E.
    destruct (exec_AD P val tn c' Hc' rs s2 o Rrs Ars E) as (l & S1 & L1 & O1).
    destruct S1 as [S1 S2 S3 S4 S5 S6].
    assert (G2 : gett s2 tn = gett rs tn) by (apply gett_tasks_eq; exact S3).
    assert (Q2 : Qt s2).
    { eapply Qt_obs; [exact S1|exact S2|rewrite S3; reflexivity|rewrite G2; reflexivity|exact S6|exact Qrs]. }
    assert (T2 : tfut (gett s2 tn) = tfut (gett sp tn)) by (rewrite G2, Grs; reflexivity).
    assert (Pend2 : fstate_ (getf s2 (tfut (gett s2 tn))) = FPending).
    { rewrite T2. destruct (S6 (tfut (gett sp tn))) as [-> _]. exact Hpend. }
    unfold Good.
    rewrite <- T2. replace (length (futs sp)) with (length (futs s2)) by exact S5.
    apply (own_tail sp s2 o l c' Ln HR Q2).
    - rewrite G2, Grs. reflexivity.
    - rewrite G2, Grs. reflexivity.
    - rewrite T2, S5. exact Hf.
    - exact Pend2.
    - exact L1.
    - intros f Pf. rewrite T2, S5. apply (Rng f Pf).
    - destruct o as [r|y frs k]; [exact O1|]. destruct O1 as (F1 & F2 & F3 & F4). split; [exact F1|].
      split; [exact F2|]. destruct y as [|f]; cbn in *; auto. destruct F3 as (a & b & c0). auto. }
  unfold Tracks in T. destruct (tcont_ (gett sp tn)) as [c0|frs k|y frs k| |] eqn:Ek.
  - (* first step of a plain task *)
    destruct T as (Hc0 & HR & Hw). destruct exc as [e|].
    { destruct Hin as (f & Hf' & _). congruence. }
    rewrite (step_new_eq sp tn c0 Hd Ek Hm). apply Run; assumption.
  - (* resumption *)
    destruct T as (y & Fy & Ak & Py & HR & Hw).
    rewrite (step_susp_eq sp tn exc frs k Hd Ek). rewrite (step_input_plain sp tn exc Hm).
    unfold run_cont. fold rs. rewrite Fy.
    rewrite (resume_AD P val tn rs y (input_reply exc) Ars).
    + apply Run; [apply Ak|exact HR].
    + destruct y as [|f]; cbn in Hw, Py |- *.
      * destruct exc as [e|]; [|exists 0%Z; reflexivity].
        destruct Hin as (f & Hf' & _). congruence.
      * split; [exact Py|]. destruct exc as [e|]; cbn.
        -- destruct Hin as (f' & Hf' & He). rewrite Hw in Hf'. inversion Hf'; subst f'.
           split; [|exact He]. unfold fdone. change (getf rs f) with (getf sp f). rewrite He. reflexivity.
        -- split; [|exact Logic.I]. apply (Hin f Hw).
  - (* first step of the continuation of eager() *)
    destruct T as (Fy & Ak & Py & HR & Hw). destruct exc as [e|].
    { destruct Hin as (f & Hf' & _). congruence. }
    rewrite (step_eager_first sp tn y frs k Hd Ek Hm). fold rs.
    set (s2 := set_flag true rs y).
    assert (F2 : forall g, fstate_ (getf s2 g) = fstate_ (getf rs g) /\ fcbs (getf s2 g) = fcbs (getf rs g)).
    { intros g. unfold s2, set_flag. destruct y as [|f]; [auto|]. rewrite getf_setf.
      destruct (_ && _) eqn:Bq; [|auto]. apply andb_prop in Bq. destruct Bq as [Bq _].
      apply Nat.eqb_eq in Bq. subst g. auto. }
    assert (T2 : tasks s2 = tasks rs) by (apply tasks_set_flag).
    assert (G2 : gett s2 tn = gett rs tn) by (apply gett_tasks_eq; exact T2).
    assert (N2 : length (futs s2) = length (futs sp)).
    { change (length (futs s2) = length (futs rs)). apply length_futs_set_flag. }
    assert (Q2 : Qt s2).
    { eapply Qt_obs; [| |rewrite T2; reflexivity|rewrite G2; reflexivity|exact F2|exact Qrs].
      - unfold s2, set_flag. destruct y; reflexivity.
      - unfold s2, set_flag. destruct y; reflexivity. }
    assert (Tf2 : tfut (gett s2 tn) = tfut (gett sp tn)) by (rewrite G2, Grs; reflexivity).
    unfold Good. rewrite <- Tf2, <- N2.
    apply (own_tail sp s2 (OYield y frs k) [] (k (yreply val y)) Ln HR Q2).
    + rewrite G2, Grs. reflexivity.
    + rewrite G2, Grs. reflexivity.
    + rewrite Tf2, N2. exact Hf.
    + rewrite Tf2. destruct (F2 (tfut (gett sp tn))) as [-> _]. exact Hpend.
    + unfold s2, set_flag. destruct y; cbn; rewrite app_nil_r; reflexivity.
    + intros f Pf. rewrite Tf2, N2. apply (Rng f Pf).
    + split; [exact Fy|]. split; [exact Ak|]. split; [exact Py|]. split.
      * destruct y as [|f]; [exact Logic.I|]. unfold yarmed, s2, set_flag.
        rewrite getf_setf_same by (apply (Rng f Py)). reflexivity.
      * cbn [app]. apply surjective_pairing.
  - destruct T.
  - (* finished already: contradicts tdone = false *)
    destruct T as (_ & Hfs). rewrite Hpend in Hfs. destruct (snd (ref_run c val)) as [v|e]; cbn in Hfs;
      [discriminate|destruct (is_cancel e); discriminate].
Qed.


Lemma Good_B s s' :
  B s -> Inv09 qok s' -> FM s s' -> Good s s' -> B s'.
Proof.
  intros Bs I M (Gx & Gt & Gf & Gl). constructor; auto.
  intros f Pf. destruct (b_rng s Bs f Pf) as [L N]. rewrite Gf, Gl. auto.
Qed.

(* an action that does not step tn *)
Lemma B_others s a : B s -> action_ok s a -> not_stepping tn s a -> B (do_action s a).
Proof.
  intros Bs Ha N. destruct Bs as [I Xs T Rng]. set (s' := do_action s a).
  pose proof (Inv09_action qok QS s a I Ha) as I'.
  pose proof (FM_action s a) as M. fold s' in M, I'.
  assert (Tn : timers_nt s).
  { intros wh h Hi. apply (i_tim (i_wf (proj1 I)) wh h Hi). }
  pose proof (X_action qok QS tn _ n0 _ true s a N Tn Xs) as Xs'. fold s' in Xs'.
  pose proof (Tf_action tn s a N) as [_ TF]. fold s' in TF.
  destruct (TF (x_tn _ _ _ _ _ _ _ Xs)) as (K1 & K2 & K3 & _).
  pose proof (x_tw _ _ _ _ _ _ _ Xs' eq_refl) as W'. pose proof (x_log _ _ _ _ _ _ _ Xs' eq_refl) as L'.
  constructor; auto.
  - rewrite W', L'. exact Xs'.
  - destruct T as [Ln T]. split.
    + destruct (g_log _ _ (grow_do_action s a)) as [l El]. unfold s'. rewrite El, app_length. lia.
    + assert (Ee : evs_of s' = evs_of s) by (unfold evs_of; rewrite L'; reflexivity).
      unfold Rem in *. rewrite K3, W', Ee. destruct (tcont_ (gett s tn)); auto.
      destruct T as [T1 T2]. split; [exact T1|]. rewrite K2.
      rewrite (FM_write_once s s' _ M); [exact T2| |rewrite T2].
      * apply (i_tfut (i_wf (proj1 I)) tn (x_tn _ _ _ _ _ _ _ Xs)).
      * destruct (snd (ref_run c val)) as [v|e]; cbn; [discriminate|destruct (is_cancel e); discriminate].
  - intros f Pf. destruct (Rng f Pf) as [L N']. destruct M as (M1 & _). rewrite K2. split; [lia|exact N'].
Qed.

(* the action that runs tn's own step *)
Lemma B_own s h r :
  B s -> rq_popleft (ready s) = Some (h, r) -> hcancelled (geth s h) = false ->
  task_of_handle s h = Some tn ->
  tmustc (gett s tn) = false -> tdone s tn = false -> agree P s val ->
  B (run_one s).
Proof.
  intros Bs Pp Hc Hk Hm Hd A. pose proof Bs as [I Xs T Rng].
  pose proof (Inv09_action qok QS s AStep I Logic.I) as I'. pose proof (FM_action s AStep) as M.
  cbn [do_action] in I', M.
  destruct (q_popleft QS _ _ _ (i_qok (i_wf (proj1 I))) Pp) as [Q1 Q2].
  pose proof (pop_task qok s h r tn Q1 Q2 Hk (proj1 I)) as Ip.
  set (sp := s <| ready := r |>) in *.
  destruct (InvC_cur_quiet qok tn sp Ip Hd) as (U1 & U2 & U3).
  assert (Q : Qt sp).
  { constructor.
    - exact Q1.
    - intros h' Hh'. split.
      + apply (i_rwf (i_wf (proj1 I)) h'). eapply Permutation_in; [symmetry; exact Q2|right; exact Hh'].
      + intros E. apply task_key_true in E. pose proof (cnt_zero_inv _ _ U1 h' Hh'). congruence.
    - intros g Hg Hi. pose proof (cnt_zero_inv _ _ (U2 g Hg) _ Hi) as Z.
      unfold is_wakeup in Z. cbn in Z. rewrite Nat.eqb_refl in Z. discriminate.
    - apply (i_cur Ip tn eq_refl).
    - exact (x_kc _ _ _ _ _ _ _ Xs). }
  assert (Hb : forall f, twaiter (gett sp tn) = Some f -> fdone sp f = true).
  { intros f Hf. unfold bo in U3. rewrite Hf in U3. destruct (fdone sp f); [reflexivity|discriminate]. }
  assert (Hg : hgood tn (twaiter (gett s tn)) (hcb (geth s h))).
  { apply (x_rdy _ _ _ _ _ _ _ Xs h). eapply Permutation_in; [symmetry; exact Q2|left; reflexivity]. }
  assert (Core : forall exc,
            match exc with
            | None => forall f, twaiter (gett sp tn) = Some f -> fdone sp f = true
            | Some e => exists f, twaiter (gett sp tn) = Some f /\ fstate_ (getf sp f) = FExc e
            end -> Good sp (step_task tn exc sp)).
  { intros exc Hin. apply own_core; auto.
    apply (i_tfut (i_wf (proj1 I)) tn (q_tn sp Q)). }
  apply (Good_B s _ Bs I' M).
  unfold run_one. rewrite Pp. change (geth (s <| ready := r |>) h) with (geth s h). rewrite Hc.
  fold sp. unfold task_of_handle in Hk.
  destruct (hcb (geth s h)) as [t e|t f| | | | | | ] eqn:Ecb; cbn in Hk; try discriminate;
    inversion Hk; subst t; cbn [run_callback].
  - cbn in Hg. rewrite (Hg eq_refl). apply (Core None). exact Hb.
  - cbn in Hg. specialize (Hg eq_refl). unfold wakeup.
    assert (Pf : P f).
    { destruct T as [_ T]. destruct (tcont_ (gett s tn)) as [c0|frs k|y frs k| |].
      - destruct T as (_ & _ & W). congruence.
      - destruct T as (y & _ & _ & Py & _ & W). rewrite W in Hg. destruct y; cbn in *; congruence.
      - destruct T as (_ & _ & _ & _ & W). congruence.
      - destruct T.
      - exfalso. destruct T as (_ & Hfs). unfold tdone, fdone in Hd. rewrite Hfs in Hd.
        destruct (snd (ref_run c val)) as [v|e]; cbn in Hd; [discriminate|destruct (is_cancel e); discriminate]. }
    pose proof (A f Pf) as Af. pose proof (Hb f Hg) as Df. unfold fdone in Df.
    change (getf sp f) with (getf s f) in *.
    destruct (fstate_ (getf s f)) eqn:Ef; try discriminate; try contradiction.
    + apply (Core None). exact Hb.
    + apply (Core (Some e)). exists f. split; [exact Hg|exact Ef].
Qed.

(* run-checked side condition on an action: tn has not been cancelled, and once its future is
   done the task is finished and is not stepped again (the model lets a program set a task's own
   future from outside - Python raises there) *)
Definition calm (s : st) (a : action) : Prop :=
  tmustc (gett s tn) = false /\
  (tdone s tn = true -> tcont_ (gett s tn) = TFin /\ not_stepping tn s a).

Theorem B_action s a :
  B s -> action_ok s a -> calm s a -> agree P (do_action s a) val -> B (do_action s a).
Proof.
  intros Bs Ha [Hm Hd] A'.
  assert (A : agree P s val).
  { apply (agree_mono P s (do_action s a) val (FM_action s a)); [|exact A'].
    intros f Pf. apply (b_rng s Bs f Pf). }
  destruct (tdone s tn) eqn:Dn.
  { apply B_others; [exact Bs|exact Ha|apply Hd; reflexivity]. }
  destruct a as [| |d|how c0|op]; try (apply B_others; [exact Bs|exact Ha|exact Logic.I]).
  destruct (rq_popleft (ready s)) as [[h r]|] eqn:Pp.
  2:{ apply B_others; [exact Bs|exact Ha|]. intros h r E. congruence. }
  destruct (hcancelled (geth s h)) eqn:Hc.
  { apply B_others; [exact Bs|exact Ha|]. intros h' r' E Hc'. congruence. }
  destruct (task_of_handle s h) as [t|] eqn:Hk.
  2:{ apply B_others; [exact Bs|exact Ha|]. intros h' r' E Hc'. congruence. }
  destruct (Nat.eq_dec t tn) as [->|N].
  2:{ apply B_others; [exact Bs|exact Ha|]. intros h' r' E Hc'. congruence. }
  cbn [do_action]. eapply B_own; eauto.
Qed.

Fixpoint calm_run (s : st) (acts : list action) : Prop :=
  match acts with
  | [] => True
  | a :: l => calm s a /\ calm_run (do_action s a) l
  end.

Theorem B_run : forall acts s,
  B s -> actions_ok s acts -> calm_run s acts -> agree P (fold_left do_action acts s) val ->
  B (fold_left do_action acts s).
Proof.
  induction acts as [|a acts IH]; intros s Bs Ha Hc A; cbn [fold_left]; [exact Bs|].
  destruct Ha as [Ha1 Ha2]. destruct Hc as [Hc1 Hc2].
  apply IH; auto. apply B_action; auto.
  apply (agree_mono P _ _ val (FM_actions acts (do_action s a))); [|exact A].
  intros f Pf. destruct (FM_action s a) as (L & _). pose proof (b_rng s Bs f Pf). lia.
Qed.

(* what the invariant says once the task has finished *)
Theorem B_final s :
  B s -> tcont_ (gett s tn) = TFin ->
  pre ++ map snd (evlog tn n0 s) = fst (ref_run c val) /\
  fstate_ (getf s (tfut (gett s tn))) = task_outcome (snd (ref_run c val)).
Proof.
  intros Bs Fin. destruct (b_tr s Bs) as [_ T]. rewrite Fin in T. destruct T as [T1 T2].
  split; [|exact T2]. rewrite T1. reflexivity.
Qed.


(* code of other tasks below the level of Task.__step keeps the tracked facts *)
Lemma keep s s' :
  X qok tn (twaiter (gett s tn)) n0 (evlog tn n0 s) true s' -> Tf tn s s' -> FM s s' ->
  (exists l, log s' = log s ++ l) -> tn < length (tasks s) -> tfut (gett s tn) < length (futs s) ->
  Tracks s -> (forall f, P f -> f < length (futs s) /\ f <> tfut (gett s tn)) ->
  X qok tn (twaiter (gett s' tn)) n0 (evlog tn n0 s') true s' /\ Tracks s' /\
  (forall f, P f -> f < length (futs s') /\ f <> tfut (gett s' tn)).
Proof.
  intros Xs' [_ TF] M [l El] Ltn Lf T Rng.
  destruct (TF Ltn) as (K1 & K2 & K3 & _).
  pose proof (x_tw _ _ _ _ _ _ _ Xs' eq_refl) as W'. pose proof (x_log _ _ _ _ _ _ _ Xs' eq_refl) as L'.
  split; [rewrite W', L'; exact Xs'|]. split.
  - destruct T as [Ln T]. split; [rewrite El, app_length; lia|].
    assert (Ee : evs_of s' = evs_of s) by (unfold evs_of; rewrite L'; reflexivity).
    unfold Rem in *. rewrite K3, W', Ee. destruct (tcont_ (gett s tn)); auto.
    destruct T as [T1 T2]. split; [exact T1|]. rewrite K2.
    rewrite (FM_write_once s s' _ M); [exact T2|exact Lf|rewrite T2].
    destruct (snd (ref_run c val)) as [v|e]; cbn; [discriminate|destruct (is_cancel e); discriminate].
  - intros f Pf. destruct (Rng f Pf) as [L N']. destruct M as (M1 & _). rewrite K2. split; [lia|exact N'].
Qed.

End Track.

(* ------------------------------------------------------------ the two start modes *)
Lemma AD_coro_ok P c : AD P c -> forall n, coro_ok n c.
Proof.
  induction 1 as [v|e|n k Hk IH|f k Pf Hk IH|k Hk IH]; intros m; cbn; auto.
Qed.

Section Start.
Variable qok : rq -> Prop.
Hypothesis QS : QSpec qok.
Variable P : nat -> Prop.
Variable val : nat -> reply.

(* a task entry appended to a state in which index tn = length (tasks s) is unused *)
Lemma fresh_quiet cur s x fx :
  InvC qok cur s -> tkind_ x = KC -> fcbs fx = [] ->
  Qt qok (length (tasks s)) (s <| futs := futs s ++ [fx] |> <| tasks := tasks s ++ [x] |>).
Proof.
  intros I Kx Fx. set (tn := length (tasks s)).
  destruct (i_oor I tn (Nat.le_refl _)) as [O1 O2]. constructor.
  - exact (i_qok (i_wf I)).
  - intros h Hh. split; [apply (i_rwf (i_wf I) h Hh)|].
    intros E. apply task_key_true in E. pose proof (cnt_zero_inv _ _ O1 h Hh) as Z.
    unfold task_key, task_of_handle, geth in *. cbn in E. congruence.
  - intros g Hg Hi. unfold fdone, getf in Hg, Hi. cbn in Hg, Hi.
    destruct (Nat.lt_ge_cases g (length (futs s))) as [L|L].
    + rewrite app_nth1 in Hg, Hi by exact L.
      pose proof (cnt_zero_inv _ _ (O2 g Hg) _ Hi) as Z. unfold is_wakeup in Z. cbn in Z.
      rewrite Nat.eqb_refl in Z. discriminate.
    + rewrite app_nth2 in Hi by exact L. destruct (g - length (futs s)) as [|[|m]]; cbn in Hi.
      * rewrite Fx in Hi. destruct Hi.
      * destruct Hi.
      * destruct Hi.
  - cbn. rewrite app_length. cbn. unfold tn. lia.
  - unfold gett. cbn. rewrite app_nth2 by lia. rewrite Nat.sub_diag. exact Kx.
Qed.

(* create_task(c): from the very state of its creation the task is tracked *)
Lemma start_plain cur s p c :
  InvC qok cur s -> current s <> Some (length (tasks s)) -> AD P c ->
  (forall f, P f -> f < length (futs s)) ->
  let tn := length (tasks s) in
  let s1 := fst (new_task s KC p c) in
  X qok tn (twaiter (gett s1 tn)) (length (log s)) (evlog tn (length (log s)) s1) true s1 /\
  Tracks P val c tn (length (log s)) [] s1 /\
  (forall f, P f -> f < length (futs s1) /\ f <> tfut (gett s1 tn)) /\
  tfut (gett s1 tn) = length (futs s).
Proof.
  intros I Hc Hc0 Rng tn s1.
  set (x := mkTask KC p (length (futs s)) (TNew c) None false [] None).
  set (u := s <| futs := futs s ++ [mkFut FPending [] false (Some tn) None] |> <| tasks := tasks s ++ [x] |>).
  assert (E1 : s1 = call_soon_ u (HStep tn None)) by reflexivity.
  pose proof (fresh_quiet cur s x (mkFut FPending [] false (Some tn) None) I eq_refl eq_refl) as Q.
  fold tn u in Q.
  assert (G1 : gett s1 tn = x).
  { rewrite E1. unfold gett. cbn. rewrite app_nth2 by (unfold tn; lia). unfold tn. rewrite Nat.sub_diag. reflexivity. }
  assert (L1 : log s1 = log s) by reflexivity.
  assert (Ev : evlog tn (length (log s)) s1 = []).
  { unfold evlog. rewrite L1, skipn_all. reflexivity. }
  rewrite G1, Ev. split; [|split; [|split]].
  - assert (X0 : X qok tn None (length (log s)) [] false s1).
    { rewrite E1. apply X_call_soon; [exact QS|cbn; intros _; reflexivity|apply X_quiet; exact Q]. }
    destruct X0 as [A1 A2 A3 A4 A5 A6 A7 A8]. constructor; auto;
      intros _; first [rewrite G1; reflexivity|exact Hc|exact Ev].
  - unfold Tracks. rewrite G1. cbn [tcont_ twaiter]. split; [rewrite L1; lia|].
    split; [exact Hc0|]. split; [|reflexivity]. unfold Rem, evs_of. rewrite Ev. cbn. apply surjective_pairing.
  - intros f Pf. pose proof (Rng f Pf). cbn. rewrite app_length. cbn. lia.
  - reflexivity.
Qed.

End Start.
