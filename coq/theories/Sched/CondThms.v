(* C14, part 4: the packaged theorems.
   - [lock_on_exit], [exception_identity]: one resumption (from Sched/CondProofs.v);
   - [wait_run_exit]: any number of resumptions with arbitrary environment steps between;
   - [not_lost]: the exceptional exits of PriorityCondition.wait hand the notification on;
   - [inv_gives_*]: the preconditions follow from the C13 invariant. *)
From Coq Require Import QArith Sorting.Permutation.
From RecordUpdate Require Import RecordUpdate.
From Asynkit Require Import Base.Prelude Queue.PQ Queue.Order Queue.PQProofs Queue.PosPQ Queue.Exec
  Sched.Model Sched.Tables Sched.QFacts Sched.LockInv Sched.CondView Sched.CondProofs Sched.CondNotify.
Import RecordSetNotations.
Open Scope nat_scope.

(* everything wait_resume asks of the state, the stack and the input *)
Definition wait_pre (s : st) (t c : nat) (frs : list frame) (inp : reply) : Prop :=
  let l := clock (getc s c) in
  wait_stack c l frs /\ stack_wf s t l frs /\ lock_sound s l /\
  (at_wait_point frs = true -> lkind_ (getl s l) = LPrio -> not_waiting s t) /\
  wait_input s l frs inp.

Theorem lock_on_exit s t c frs inp s' r :
  wait_pre s t c frs inp -> resume_stack t frs inp s = (s', r) ->
  let l := clock (getc s c) in
  match r with
  | LSusp y frs' =>
      (exists f' rest, y = YFut f' /\ frs' = InFut f' :: rest) /\
      wait_stack c l frs' /\ stack_wf s' t l frs' /\ at_wait_point frs' = false /\
      is_pcond frs' = is_pcond frs /\ same_view s s'
  | LDone rep =>
      held s' t l /\ taken s s' t l /\
      (lkind_ (getl s l) = LPlain -> llocked (getl s l) = false \/ woken_a frs inp)
  end.
Proof.
  intros (A & B & C & D & E) Er. cbv zeta.
  pose proof (wait_resume s t c frs inp A B C D E) as H. rewrite Er in H. cbn [fst snd] in H.
  destruct r as [rep|y frs']; unfold wait_result in H.
  - destruct H as (_ & T & P & _). split; [|auto]. eapply taken_held; eauto. apply C.
  - destruct H as (H1 & H2 & H3 & H4 & H5 & H6 & _). auto 10.
Qed.

Theorem exception_identity s t c frs inp s' r :
  wait_pre s t c frs inp -> resume_stack t frs inp s = (s', r) ->
  match r with
  | LSusp y frs' => pending_exc frs' = last_exc frs inp
  | LDone rep => rep = reply_of (last_exc frs inp)
  end.
Proof.
  intros (A & B & C & D & E) Er.
  pose proof (wait_resume s t c frs inp A B C D E) as H. rewrite Er in H. cbn [fst snd] in H.
  destruct r as [rep|y frs']; unfold wait_result in H; [apply H|]. apply H.
Qed.

(* ------------------------------------------------------------ any number of faults *)
(* A task inside wait() is resumed with inp; if it suspends again (state s1), the
   environment runs - any state s2 may come next as long as the condition still uses
   lock l - and the task is resumed again, until wait() is left. *)
Inductive wait_run (t c l : nat) : st -> list frame -> list reply -> st -> reply -> Prop :=
| WR_exit s frs inp s' rep :
    clock (getc s c) = l -> wait_pre s t c frs inp ->
    resume_stack t frs inp s = (s', LDone rep) ->
    wait_run t c l s frs [inp] s' rep
| WR_again s frs inp s1 y frs1 s2 inps s' rep :
    clock (getc s c) = l -> wait_pre s t c frs inp ->
    resume_stack t frs inp s = (s1, LSusp y frs1) ->
    wait_run t c l s2 frs1 inps s' rep ->
    wait_run t c l s frs (inp :: inps) s' rep.

(* the last exception delivered so far *)
Definition last_delivered (frs : list frame) (inps : list reply) : option exn :=
  fold_left (fun acc inp => match inp with RExc e => Some e | RVal _ => acc end) inps (pending_exc frs).

Theorem wait_run_exit t c l s frs inps s' rep :
  wait_run t c l s frs inps s' rep ->
  held s' t l /\ rep = reply_of (last_delivered frs inps).
Proof.
  induction 1 as [s frs inp s' rep El Hp Er|s frs inp s1 y frs1 s2 inps s' rep El Hp Er Hrun IH].
  - pose proof (lock_on_exit s t c frs inp s' _ Hp Er) as H1.
    pose proof (exception_identity s t c frs inp s' _ Hp Er) as H2. cbv zeta in H1. rewrite El in H1.
    split; [apply H1|]. rewrite H2. unfold last_delivered, last_exc. cbn. destruct inp; reflexivity.
  - pose proof (exception_identity s t c frs inp s1 _ Hp Er) as H2. cbn in H2.
    destruct IH as [IH1 IH2]. split; [exact IH1|]. rewrite IH2. f_equal.
    unfold last_delivered. cbn [fold_left]. rewrite H2. unfold last_exc. destruct inp; reflexivity.
Qed.

(* ------------------------------------------------------------ notifications are not lost *)
Theorem not_lost s t c frs inp s' e :
  wait_pre s t c frs inp -> is_pcond frs = true ->
  qwf (cpq (getc s c)) -> (forall f, In f (pq_objs (cpq (getc s c))) -> f < length (futs s)) ->
  resume_stack t frs inp s = (s', LDone (RExc e)) ->
  let l := clock (getc s c) in
  exists s1,
    (* the lock has been re-acquired ... *)
    held s1 t l /\
    (* ... when `except BaseException: self._notify(1)` runs, just before the exception leaves *)
    s' = notify_p s1 c 1 /\
    (* the leaving waiter is no longer queued, every other waiter still is *)
    (forall f, frs = [InFut f; InCondWaitP c f] -> c < length (conds s) ->
               In f (pq_objs (cpq (getc s c))) -> ~ In f (wait_order s1 c)) /\
    (forall g, In g (wait_order s1 c) -> In g (pq_objs (cpq (getc s c)))) /\
    (forall g, In g (pq_objs (cpq (getc s c))) -> frs <> [InFut g; InCondWaitP c g] -> In g (wait_order s1 c)) /\
    (* and _notify(1) gives the result to the (priority, arrival)-first pending waiter, if any *)
    match pending_in s1 (wait_order s1 c) with
    | f :: _ => fstate_ (getf s' f) = FResult 1 /\ (forall g, g <> f -> getf s' g = getf s1 g)
    | [] => forall g, getf s' g = getf s1 g
    end.
Proof.
  intros (A & B & C & D & E) Hpc Hq Hr Er. cbv zeta.
  pose proof (wait_resume s t c frs inp A B C D E) as H. rewrite Er in H. cbn [fst snd] in H.
  unfold wait_result in H. destruct H as (_ & _ & _ & s1 & T & Cs & FL & Es).
  rewrite Hpc, after_exc_notifies in Es.
  exists s1. split; [eapply taken_held; eauto; apply C|]. split; [exact Es|].
  (* the queue at s1 *)
  assert (Hq1 : qwf (cpq (getc s1 c)) /\
                (forall g, In g (pq_objs (cpq (getc s1 c))) -> In g (pq_objs (cpq (getc s c)))) /\
                (forall f, frs = [InFut f; InCondWaitP c f] -> c < length (conds s) ->
                           In f (pq_objs (cpq (getc s c))) -> ~ In f (pq_objs (cpq (getc s1 c)))) /\
                (forall g, In g (pq_objs (cpq (getc s c))) -> frs <> [InFut g; InCondWaitP c g] ->
                           In g (pq_objs (cpq (getc s1 c))))).
  { destruct A as [pc f|pc f had err body Hb|pc f err body Hb].
    - rewrite is_pcond_wait in Hpc. subst pc. cbn in Cs.
      assert (G : getc s1 c = getc (drop_waiter true s c f) c) by (unfold getc; now rewrite Cs).
      rewrite G. destruct (drop_waiter_p_spec s c f Hq) as (Q1 & Q2 & Q3 & Q4). cbv zeta in *.
      split; [exact Q1|]. split; [exact Q2|]. split.
      + intros f0 Ef. cbn in Ef. inversion Ef; subst f0. exact Q3.
      + intros g Hg Hne. apply Q4; auto. intros ->. apply Hne. reflexivity.
    - rewrite conds_at_exit_retry in Cs.
      assert (G : getc s1 c = getc s c) by (unfold getc; now rewrite Cs). rewrite G.
      split; [exact Hq|]. split; [auto|]. split; [|auto].
      intros f0 Ef. destruct pc; discriminate.
    - rewrite conds_at_exit_retry in Cs.
      assert (G : getc s1 c = getc s c) by (unfold getc; now rewrite Cs). rewrite G.
      split; [exact Hq|]. split; [auto|]. split; [|auto].
      intros f0 Ef. destruct pc; discriminate. }
  destruct Hq1 as (Q1 & Q2 & Q3 & Q4).
  assert (Hw : forall g, In g (wait_order s1 c) <-> In g (pq_objs (cpq (getc s1 c)))).
  { intros g. split; intros Hg.
    - eapply Permutation_in; [apply wait_order_perm|exact Hg].
    - eapply Permutation_in; [apply Permutation_sym, wait_order_perm|exact Hg]. }
  split; [intros f Ef Hc Hin Hw1; apply Hw in Hw1; eapply Q3; eauto|].
  split; [intros g Hg; apply Q2, Hw, Hg|].
  split; [intros g Hg Hne; apply Hw, Q4; auto|].
  rewrite Es. apply notify_p_one; auto.
  intros g Hg. rewrite FL. auto.
Qed.

(* ------------------------------------------------------------ from the C13 invariant *)
(* The preconditions about the lock are instances of the PriorityLock invariant of C13
   (Sched/LockInv.v, established for all reachable states in Sched/LockProofs.v).
   step_task changes only the resumed task's bookkeeping before it calls resume_stack,
   which no clause below looks at. *)
Lemma inv_lock_sound s l : Inv s -> l < length (locks s) -> lock_sound s l.
Proof.
  intros I Hl. split; [exact Hl|]. intros Hk Hf.
  destruct (lowner (getl s l)) as [o|] eqn:Ho; [|reflexivity].
  assert (lowner (getl s l) <> None) as Hn by congruence.
  apply (iA1 I l Hk) in Hn. congruence.
Qed.

(* a waiter of a PriorityLock woken with a result finds the lock without owner *)
Lemma inv_woken_free s t l f had v :
  Inv s -> In (InAcquireP l f had) (tframes s t) -> fstate_ (getf s f) = FResult v ->
  lowner (getl s l) = None.
Proof.
  intros I Hin Hf. pose proof (iF2 I _ _ _ _ Hin) as Hq.
  destruct (lowner (getl s l)) as [o|] eqn:Ho; [|reflexivity]. exfalso.
  assert (lowner (getl s l) <> None) as Hn by congruence.
  pose proof (iC2 I l f Hn Hq) as Hw. unfold woken in Hw. rewrite Hf in Hw. discriminate.
Qed.

Lemma inv_cpq s c : Inv s -> PQInv (cpq (getc s c)).
Proof. intros I. apply (iB2 I). Qed.

Lemma inv_cpq_range s c f : Inv s -> In f (pq_objs (cpq (getc s c))) -> f < length (futs s).
Proof. intros I Hin. apply (iD3 I). right. right. left. now exists c. Qed.

Lemma inv_cdq_range s c f : Inv s -> In f (cdq (getc s c)) -> f < length (futs s).
Proof. intros I Hin. apply (iD3 I). right. right. right. left. now exists c. Qed.

(* the state in which step_task resumes the stack *)
Definition step_entry (s : st) (t : nat) : st :=
  (sett s t (gett s t <| tmustc := false |> <| twaiter := None |> <| tcont_ := TRun |>))
    <| current := Some t |>.

Lemma step_entry_tables s t :
  locks (step_entry s t) = locks s /\ conds (step_entry s t) = conds s /\ futs (step_entry s t) = futs s.
Proof. repeat split. Qed.

Lemma step_entry_task s t :
  is_prio_task (step_entry s t) t = is_prio_task s t /\
  twaiting (gett (step_entry s t) t) = twaiting (gett s t).
Proof.
  unfold step_entry, is_prio_task.
  change (gett (sett s t (gett s t <| tmustc := false |> <| twaiter := None |> <| tcont_ := TRun |>)
                <| current := Some t |>) t)
    with (gett (sett s t (gett s t <| tmustc := false |> <| twaiter := None |> <| tcont_ := TRun |>)) t).
  rewrite gett_sett, Nat.eqb_refl. cbn [andb].
  destruct (Nat.ltb t (length (tasks s))); split; reflexivity.
Qed.

(* From the invariant at the moment the loop runs the task's step: the task is suspended
   with stack frs; Task.__step / __wakeup resume it with the awaited future's result or
   with the exception that was thrown or requested by cancel(). *)
Theorem wait_pre_of_inv s t c frs k exc :
  Inv s -> tcont_ (gett s t) = TSusp frs k ->
  let l := clock (getc s c) in
  wait_stack c l frs -> stack_wf s t l frs -> l < length (locks s) ->
  (at_wait_point frs = true -> lkind_ (getl s l) = LPrio -> not_waiting s t) ->
  match exc with
  | None => exists f rest v, frs = InFut f :: rest /\ fstate_ (getf s f) = FResult v
  | Some e => is_cancel e = true \/ at_wait_point frs = true
  end ->
  wait_pre (step_entry s t) t c frs (match exc with None => RVal 0 | Some e => RExc e end).
Proof.
  intros I Hk l Hst Hwf Hl Hnw Hin.
  set (se := step_entry s t).
  assert (El : clock (getc se c) = l) by reflexivity.
  destruct (step_entry_task s t) as [Ep Ew]. fold se in Ep, Ew.
  assert (Hfr : tframes s t = frs) by (unfold tframes; now rewrite Hk).
  unfold wait_pre. rewrite El. split; [exact Hst|]. split; [|split; [|split]].
  - destruct Hst as [pc f|pc f had err body Hb|pc f err body Hb].
    + destruct pc; exact Logic.I.
    + unfold stack_wf in *. rewrite Ep. exact Hwf.
    + exact Hwf.
  - apply inv_lock_sound with (l := l) in I; auto.
  - intros Ha Hkk. specialize (Hnw Ha Hkk). unfold not_waiting in *. now rewrite Ep, Ew.
  - destruct exc as [e|].
    + destruct (at_wait_point frs) eqn:Ea.
      * destruct Hst as [pc f|pc f had err body Hb|pc f err body Hb].
        -- now apply WI_wait_exc.
        -- rewrite at_wait_retry in Ea. discriminate.
        -- rewrite at_wait_retry in Ea. discriminate.
      * destruct Hin as [Hc|Hc]; [|discriminate]. now apply WI_acq_exc.
    + destruct Hin as (f0 & rest & v & Ef & Hf).
      destruct Hst as [pc f|pc f had err body Hb|pc f err body Hb]; inversion Ef; subst f0 rest.
      * eapply WI_wait_val; [exact Hf|]. destruct pc; reflexivity.
      * eapply WI_acqP_val; [exact Hf|].
        change (lowner (getl s l) = None). eapply inv_woken_free; eauto.
        rewrite Hfr. right. now left.
      * eapply WI_acqA_val. exact Hf.
Qed.

(* ------------------------------------------------------------ fully spelled-out statements *)
Lemma taken_other s s' t l l0 :
  taken s s' t l -> l0 <> l ->
  lkind_ (getl s' l0) = lkind_ (getl s l0) /\ llocked (getl s' l0) = llocked (getl s l0) /\
  lowner (getl s' l0) = lowner (getl s l0).
Proof.
  intros (E & _ & _) Hne. pose proof (lv_getl s' l0) as B. rewrite E in B.
  rewrite nth_set_nth_other in B by congruence. rewrite <- lv_getl in B. unfold lv in B.
  injection B as B1 B2 B3. auto.
Qed.

Theorem lock_on_exit_full :
  forall (s : st) (t c : nat) (frs : list frame) (inp : reply) (s' : st) (r : lres),
    let l := clock (getc s c) in
    wait_stack c l frs -> stack_wf s t l frs ->
    (l < length (locks s) /\
     (lkind_ (getl s l) = LPrio -> llocked (getl s l) = false -> lowner (getl s l) = None)) ->
    (at_wait_point frs = true -> lkind_ (getl s l) = LPrio ->
     is_prio_task s t = true -> twaiting (gett s t) = None) ->
    wait_input s l frs inp ->
    resume_stack t frs inp s = (s', r) ->
    match r with
    | LSusp y frs' =>
        (exists f' rest, y = YFut f' /\ frs' = InFut f' :: rest) /\
        wait_stack c l frs' /\ stack_wf s' t l frs' /\ at_wait_point frs' = false /\
        is_pcond frs' = is_pcond frs /\
        (forall l0, lkind_ (getl s' l0) = lkind_ (getl s l0) /\
                    llocked (getl s' l0) = llocked (getl s l0) /\
                    lowner (getl s' l0) = lowner (getl s l0)) /\
        clock (getc s' c) = l /\ l < length (locks s') /\
        is_prio_task s' t = is_prio_task s t
    | LDone rep =>
        llocked (getl s' l) = true /\
        (lkind_ (getl s' l) = LPrio -> lowner (getl s' l) = Some t) /\
        (lkind_ (getl s l) = LPlain -> llocked (getl s l) = false \/ woken_a frs inp) /\
        (forall l0, l0 <> l ->
                    lkind_ (getl s' l0) = lkind_ (getl s l0) /\
                    llocked (getl s' l0) = llocked (getl s l0) /\
                    lowner (getl s' l0) = lowner (getl s l0))
    end.
Proof.
  intros s t c frs inp s' r l A B C D E Er.
  pose proof (lock_on_exit s t c frs inp s' r (conj A (conj B (conj C (conj D E)))) Er) as H.
  cbv zeta in H. fold l in H. destruct r as [rep|y frs'].
  - destruct H as ([H1 H2] & T & P). split; [exact H1|]. split; [exact H2|]. split; [exact P|].
    intros l0 Hne. eapply taken_other; eauto.
  - destruct H as (H1 & H2 & H3 & H4 & H5 & V). split; [exact H1|]. split; [exact H2|].
    split; [exact H3|]. split; [exact H4|]. split; [exact H5|]. split; [|split; [|split]].
    + intros l0. rewrite (lview_kind s s' l0 (sv_l V)), (lview_locked s s' l0 (sv_l V)),
        (lview_owner s s' l0 (sv_l V)). auto.
    + apply cview_clock, (sv_c V).
    + rewrite (lview_len s s' (sv_l V)). apply C.
    + apply pview_prio, (sv_p V).
Qed.

Theorem exception_identity_full :
  forall (s : st) (t c : nat) (frs : list frame) (inp : reply) (s' : st) (r : lres),
    let l := clock (getc s c) in
    wait_stack c l frs -> stack_wf s t l frs ->
    (l < length (locks s) /\
     (lkind_ (getl s l) = LPrio -> llocked (getl s l) = false -> lowner (getl s l) = None)) ->
    (at_wait_point frs = true -> lkind_ (getl s l) = LPrio ->
     is_prio_task s t = true -> twaiting (gett s t) = None) ->
    wait_input s l frs inp ->
    resume_stack t frs inp s = (s', r) ->
    match r with
    | LSusp y frs' => pending_exc frs' = last_exc frs inp
    | LDone rep => rep = match last_exc frs inp with Some e => RExc e | None => RVal 1 end
    end.
Proof.
  intros s t c frs inp s' r l A B C D E Er.
  exact (exception_identity s t c frs inp s' r (conj A (conj B (conj C (conj D E)))) Er).
Qed.

Theorem wait_run_exit_full :
  forall t c l s frs inps s' rep,
    wait_run t c l s frs inps s' rep ->
    llocked (getl s' l) = true /\
    (lkind_ (getl s' l) = LPrio -> lowner (getl s' l) = Some t) /\
    rep = match last_delivered frs inps with Some e => RExc e | None => RVal 1 end.
Proof.
  intros t c l s frs inps s' rep H. destruct (wait_run_exit t c l s frs inps s' rep H) as [[A B] C].
  auto.
Qed.

Theorem notify_order_full :
  forall (s : st) (c n : nat),
    qwf (cpq (getc s c)) ->
    (forall f, In f (pq_objs (cpq (getc s c))) -> f < length (futs s)) ->
    let s' := notify_p s c n in
    let order := pq_objs (pq_sort HQ (cpq (getc s c))) in
    let W := firstn n (filter (fun f => negb (fdone s f)) order) in
    sorted (plt HQ) (arr (pq_sort HQ (cpq (getc s c)))) /\
    Permutation order (pq_objs (cpq (getc s c))) /\
    (forall f, In f W -> fstate_ (getf s' f) = FResult 1) /\
    (forall f, ~ In f W -> getf s' f = getf s f) /\
    qwf (cpq (getc s' c)) /\
    Permutation (arr (cpq (getc s' c))) (arr (cpq (getc s c))) /\
    pq_sort HQ (cpq (getc s' c)) = pq_sort HQ (cpq (getc s c)) /\
    (forall c', c' <> c -> getc s' c' = getc s c') /\
    locks s' = locks s /\ tasks s' = tasks s.
Proof.
  intros s c n Hq Hr. cbv zeta.
  destruct (notify_p_spec s c n Hq Hr) as (A & B & C & D & E & F & G & H & _).
  split; [apply wait_order_sorted|]. split; [apply wait_order_perm|]. auto 10.
Qed.

Theorem notify_order_i_full :
  forall (s : st) (c n : nat),
    NoDup (cdq (getc s c)) -> (forall f, In f (cdq (getc s c)) -> f < length (futs s)) ->
    let s' := notify_i s c n in
    let W := firstn n (filter (fun f => negb (fdone s f)) (cdq (getc s c))) in
    (forall f, In f W -> fstate_ (getf s' f) = FResult 0) /\
    (forall f, ~ In f W -> getf s' f = getf s f) /\
    conds s' = conds s /\ locks s' = locks s /\ tasks s' = tasks s.
Proof. exact notify_i_spec. Qed.

Theorem not_lost_full :
  forall (s : st) (t c : nat) (frs : list frame) (inp : reply) (s' : st) (e : exn),
    let l := clock (getc s c) in
    wait_stack c l frs -> stack_wf s t l frs ->
    (l < length (locks s) /\
     (lkind_ (getl s l) = LPrio -> llocked (getl s l) = false -> lowner (getl s l) = None)) ->
    (at_wait_point frs = true -> lkind_ (getl s l) = LPrio ->
     is_prio_task s t = true -> twaiting (gett s t) = None) ->
    wait_input s l frs inp ->
    is_pcond frs = true ->
    qwf (cpq (getc s c)) -> (forall f, In f (pq_objs (cpq (getc s c))) -> f < length (futs s)) ->
    resume_stack t frs inp s = (s', LDone (RExc e)) ->
    exists s1,
      (llocked (getl s1 l) = true /\ (lkind_ (getl s1 l) = LPrio -> lowner (getl s1 l) = Some t)) /\
      s' = notify_p s1 c 1 /\
      (forall f, frs = [InFut f; InCondWaitP c f] -> c < length (conds s) ->
                 In f (pq_objs (cpq (getc s c))) -> ~ In f (pq_objs (pq_sort HQ (cpq (getc s1 c))))) /\
      (forall g, In g (pq_objs (pq_sort HQ (cpq (getc s1 c)))) -> In g (pq_objs (cpq (getc s c)))) /\
      (forall g, In g (pq_objs (cpq (getc s c))) -> frs <> [InFut g; InCondWaitP c g] ->
                 In g (pq_objs (pq_sort HQ (cpq (getc s1 c))))) /\
      match filter (fun f => negb (fdone s1 f)) (pq_objs (pq_sort HQ (cpq (getc s1 c)))) with
      | f :: _ => fstate_ (getf s' f) = FResult 1 /\ (forall g, g <> f -> getf s' g = getf s1 g)
      | [] => forall g, getf s' g = getf s1 g
      end.
Proof.
  intros s t c frs inp s' e l A B C D E Hpc Hq Hr Er.
  exact (not_lost s t c frs inp s' e (conj A (conj B (conj C (conj D E)))) Hpc Hq Hr Er).
Qed.

(* ------------------------------------------------------------ entering wait() *)
(* entering wait(): the first suspension is at the `await fut` point of the family *)
Theorem cond_wait_entry t c s s' y frs :
  lib_call t (OCondWait c) s = (s', LSusp y frs) ->
  exists f, y = YFut f /\
            frs = [InFut f; wait_frame (match ckind_ (getc s c) with CPrio => true | CIntr => false end) c f] /\
            at_wait_point frs = true /\ (forall l, wait_stack c l frs).
Proof.
  cbn [lib_call]. destruct (negb (cond_locked s c)); [intros H; discriminate H|].
  destruct (ckind_ (getc s c)).
  - change (new_future s None) with (fst (new_future s None), length (futs s)). cbv beta iota zeta.
    destruct (release (fst (new_future s None)) t (clock (getc s c))) as [s1 [v|e]].
    + intros H. inversion H; subst. eexists. split; [reflexivity|]. split; [reflexivity|].
      split; [reflexivity|]. intros l. exact (WS_wait c l true _).
    + destruct (cond_p_after s1 c (RExc e)). intros H. discriminate H.
  - destruct (release s t (clock (getc s c))) as [s1 [v|e]]; [|intros H; discriminate H].
    change (new_future s1 None) with (fst (new_future s1 None), length (futs s1)). cbv beta iota zeta.
    intros H. inversion H; subst. eexists. split; [reflexivity|]. split; [reflexivity|].
    split; [reflexivity|]. intros l. exact (WS_wait c l false _).
Qed.
