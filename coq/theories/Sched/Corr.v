(* Correspondence interface of the scheduler model: a first-order script
   language for task bodies (denoted into [coro] trees; the Python harness
   interprets the same scripts with real async code on the real loops), the
   environment action syntax, and the observation of the complete scheduler
   state after every action. *)
From Coq Require Import QArith.
From Asynkit Require Import Base.Prelude Base.Obs Queue.PQ Queue.PosPQ Queue.Exec Sched.Model.
Open Scope nat_scope.

(* which exceptions an `except` clause catches *)
Inductive catch :=
| CCancel        (* except asyncio.CancelledError  (includes every interrupt) *)
| CTimeoutErr    (* except asyncio.TimeoutError *)
| CException     (* except Exception *)
| CBase          (* except BaseException *)
| CNever.        (* try/finally without except *)

Definition catches (c : catch) (e : exn) : bool :=
  match c with
  | CCancel => is_cancel e
  | CTimeoutErr => match e with ETimeout => true | _ => false end
  | CException => is_exception e
  | CBase => true
  | CNever => false
  end.

Inductive script :=
| SEnd
| SDo (op : libop) (rest : script)
| SSpawn (how : spawn_kind) (child : script) (rest : script)   (* binds the child's task id *)
| STry (body : script) (c : catch) (handler : script) (fin : script) (rest : script)
| STimeout (d : option Q) (body : script) (rest : script)       (* async with task_timeout(d) *)
| SRet (v : Z)
| SRaise (e : exn)
| SReraise
| SLogExc (rest : script).      (* log which exception is being handled *)

(* task operands >= 1000 refer to the (n-1000)-th task spawned by this script so far *)
Definition rv (env : list nat) (t : nat) : nat :=
  if Nat.leb 1000 t then nth (t - 1000) env 0 else t.
Definition resolve (env : list nat) (op : libop) : libop :=
  match op with
  | OAwaitTask t => OAwaitTask (rv env t)
  | OCancel t => OCancel (rv env t)
  | OTaskSwitch t p => OTaskSwitch (rv env t) p
  | OTaskReinsert t p => OTaskReinsert (rv env t) p
  | OTaskThrow t e => OTaskThrow (rv env t) e
  | OTaskInterrupt t e => OTaskInterrupt (rv env t) e
  | OCallSoonCancel t => OCallSoonCancel (rv env t)
  | OAwaitFut f => OAwaitFut (rv env f)
  | OCancelAw f => OCancelAw (rv env f)
  | _ => op
  end.

Definition exn_code (e : option exn) : Z :=
  match e with
  | None => 900
  | Some ECancelled => 901 | Some (EInterrupt t) => (910 + t)%Z | Some (ETimeoutInt _) => 903
  | Some ETimeout => 904 | Some (EUser n) => (950 + n)%Z | Some (EBase n) => (960 + n)%Z
  | Some EAssertion => 907 | Some (ERuntime k) => (980 + k)%Z | Some EValue => 909
  | Some EInvalidState => 908
  end.

Inductive compl := CNormal | CRet (v : Z) | CExc (e : exn).

(* CPS denotation; [cur] is the exception being handled (for a bare `raise`) *)
Fixpoint denote (s : script) (env : list nat) (cur : option exn)
         (k : list nat -> compl -> coro) {struct s} : coro :=
  match s with
  | SEnd => k env CNormal
  | SRet v => k env (CRet v)
  | SRaise e => k env (CExc e)
  | SReraise => k env (CExc (match cur with Some e => e | None => ERuntime 0 end))
  | SLogExc rest => Call (OLog (exn_code cur)) (fun _ => denote rest env cur k)
  | SDo op rest =>
      Call (resolve env op)
           (fun r => match r with
                     | RVal _ => denote rest env cur k
                     | RExc e => k env (CExc e)
                     end)
  | SSpawn how child rest =>
      Spawn how (denote child [] None
                        (fun _ c => match c with
                                    | CNormal => Ret 0 | CRet v => Ret v | CExc e => Raise e end))
            (fun r => match r with
                      | RVal t => denote rest (env ++ [Z.to_nat t]) cur k
                      | RExc e => k env (CExc e)
                      end)
  | STry body c handler fin rest =>
      let after_fin (env : list nat) (c0 : compl) : coro :=
        denote fin env cur
               (fun env cf => match cf with
                              | CNormal => match c0 with
                                           | CNormal => denote rest env cur k
                                           | _ => k env c0
                                           end
                              | _ => k env cf
                              end) in
      denote body env cur
             (fun env c0 =>
                match c0 with
                | CExc e => if catches c e
                            then denote handler env (Some e) after_fin
                            else after_fin env c0
                | _ => after_fin env c0
                end)
  | STimeout d body rest =>
      Call (OTimeoutEnter d)
           (fun rb =>
              match rb with
              | RExc e => k env (CExc e)
              | RVal b =>
                  if (b <? 0)%Z then
                    (* task_timeout(None): the body runs unguarded *)
                    denote body env cur
                           (fun env c0 => match c0 with
                                          | CNormal => denote rest env cur k
                                          | _ => k env c0 end)
                  else
                    denote body env cur
                           (fun env c0 =>
                              let r := match c0 with CExc e => RExc e | _ => RVal 0 end in
                              Call (OTimeoutExit (Z.to_nat b) r)
                                   (fun r' => match r' with
                                              | RExc e => k env (CExc e)
                                              | RVal _ => match c0 with
                                                          | CNormal => denote rest env cur k
                                                          | _ => k env c0
                                                          end
                                              end))
              end)
  end.

Definition denote_task (s : script) : coro :=
  denote s [] None (fun _ c => match c with
                               | CNormal => Ret 0 | CRet v => Ret v | CExc e => Raise e end).

(* ------------------------------------------------------------- actions *)
Inductive saction :=
| XStep | XBegin | XAdvance (d : Q)
| XSpawn (how : spawn_kind) (s : script)
| XDo (op : libop).

Definition act (a : saction) : action :=
  match a with
  | XStep => AStep | XBegin => ABegin | XAdvance d => AAdvance d
  | XSpawn how s => ASpawn how (denote_task s)
  | XDo op => ADo op
  end.

(* --------------------------------------------------------- observation *)
Definition oq (x : Q) : obs := let y := Qred x in OL [OI (Qnum y); OI (Zpos (Qden y))].
Definition oN (n : nat) : obs := OI (Z.of_nat n).
Definition oon (o : option nat) : obs := match o with None => OI (-1) | Some n => oN n end.

Definition oexn (e : exn) : obs :=
  match e with
  | ECancelled => OL [OI 1; OI 0]
  | EInterrupt t => OL [OI 2; OI t]
  | ETimeoutInt b => OL [OI 3; oN b]
  | ETimeout => OL [OI 4; OI 0]
  | EUser n => OL [OI 5; OI n]
  | EBase n => OL [OI 6; OI n]
  | EAssertion => OL [OI 7; OI 0]
  | ERuntime k => OL [OI 8; OI k]
  | EValue => OL [OI 9; OI 0]
  | EInvalidState => OL [OI 10; OI 0]
  end.

Definition ofut (f : fut) : obs :=
  OL [match fstate_ f with
      | FPending => OL [OI 0]
      | FResult v => OL [OI 1; OI v]
      | FExc e => OL [OI 2; oexn e]
      | FCancelled => OL [OI 3] end;
      oN (length (fcbs f)); ob (fblock f)].

Definition sort_nats (l : list nat) : list nat :=
  fold_right (fun x acc => (fix ins (l : list nat) := match l with
                                                       | [] => [x]
                                                       | h :: t => if Nat.leb x h then x :: l else h :: ins t
                                                       end) acc) [] l.

Definition otask (s : st) (t : task) : obs :=
  OL [ob (fdone s (tfut t)); oon (twaiter t); ob (tmustc t);
      olist oN (sort_nats (tholding t)); oon (twaiting t);
      match tprio t with None => OL [] | Some p => OL [oq p] end].
Definition otask_e (s : st) (i : nat) (t : task) : obs :=
  match otask s t with
  | OL l => OL (l ++ [match tprio t with None => OL [] | Some _ => OL [oq (effective_priority s i)] end])
  | o => o end.

Definition oqentry (e : entry Q) : obs := OL [oq (epri e); OI (eseq e); OI (eobj e)].
Definition opq (q : pq Q) : obs := OL [OI (seqn q); olist oqentry (arr q)].

Definition olock (l : lock) : obs :=
  match lkind_ l with
  | LPrio => OL [OI 0; ob (llocked l); oon (lowner l); opq (lpq l)]
  | LPlain => OL [OI 1; ob (llocked l); olist oN (ldq l)]
  end.
Definition ocond (c : cond) : obs :=
  match ckind_ c with
  | CPrio => OL [OI 0; opq (cpq c)]
  | CIntr => OL [OI 1; olist oN (cdq c)]
  end.
Definition oevent (e : event) : obs := OL [ob (evalue e); olist oN (ewaiters e)].

Definition opv (e : entry pv) : obs :=
  let p := epri e in
  OL [OI (pclass p); oq (base p); oq (boost p); OI (ins_at p); OI (eseq e); OI (eobj e)].
Definition ohandle (s : st) (h : nat) : obs :=
  OL [oN h; ob (hcancelled (geth s h)); oon (task_of_handle s h)].
Definition oready (s : st) : obs :=
  match ready s with
  | RList l => OL [OI 0; olist (ohandle s) l]
  | RPos p => OL [OI 1; olist (ohandle s) (rq_items (ready s));
                  OL [OI (last_maint p); OI (n_ins p); OI (n_rem p); OI (seqn (pq_ p));
                      olist opv (arr (pq_ p))]]
  end.

Definition oerr (e : looperr) : obs :=
  match e with LEInvalidState => OI 1 | LEValue => OI 2 | LEOther _ => OI 3 end.

Definition ostate (s : st) : obs :=
  OL [oready s;
      olist ofut (futs s);
      OL (map (fun it => otask_e s (fst it) (snd it)) (combine (seq 0 (length (tasks s))) (tasks s)));
      olist olock (locks s);
      olist ocond (conds s);
      olist oevent (events s);
      olist (fun th => OL [oq (fst th); oN (snd th); ob (hcancelled (geth s (snd th)))]) (timers s);
      oq (now s);
      olist (fun p => OL [oN (fst p); OI (snd p)]) (log s);
      olist oerr (errors s)].

Fixpoint run_from (s : st) (acts : list saction) : list obs :=
  match acts with
  | [] => []
  | a :: rest => let s' := do_action s (act a) in ostate s' :: run_from s' rest
  end.

(* input: loop kind (prio?), lock kinds, conditions (kind, lock), number of events, actions *)
Record sinput := mkIn {
  i_prio : bool; i_locks : list lkind; i_conds : list (ckind * nat); i_events : nat;
  i_acts : list saction }.

Definition sched_run (i : sinput) : obs :=
  OL (run_from (init_st (i_prio i) 0 [] (i_locks i) (i_conds i) (i_events i)) (i_acts i)).
