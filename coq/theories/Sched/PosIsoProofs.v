(* C08_posq_iso, unbounded: with every priority equal (0) the PosPriorityQueue model PosQ and
   the list queue ListQ of Sched/ListLoop.v give the same results, lengths and run orders on
   EVERY operation sequence in which handles enter the queue as new objects
   (PosIso.posq_iso_statement). *)
From Coq Require Import QArith Lqa Sorting.Sorted Sorting.Permutation.
From Asynkit Require Import Base.Prelude Base.Obs Queue.ListFacts Queue.PQ Queue.Order Queue.Heap
     Queue.HeapqProofs Queue.PQProofs Queue.PosPQ Queue.PosProofs Queue.PosInsert Queue.PosList
     Queue.Exec Queue.Deque Queue.DequeProofs Sched.ListLoop Sched.ListLoopProofs Sched.PosIso
     Sched.PrioQueueProofs Sched.PrioLoopProofs.
Open Scope nat_scope.

Definition objs (p : pos) : list Z := map (@eobj pv) (plist HPV p).
Definition reg0 (e : entry pv) : Prop := pclass (epri e) = 1%Z -> pv_priority (epri e) == 0.

(* the relation: the list is the run order of the priority queue; regular entries all have
   priority 0; no object is queued twice *)
Definition RZ (p : pos) (l : list Z) : Prop :=
  PInv HPV p /\ objs p = l /\ Forall reg0 (plist HPV p) /\ NoDup l.

Lemma RZ_empty : RZ (pos_empty 0 []) [].
Proof. split; [apply PInv_empty|]. split; [reflexivity|]. split; constructor. Qed.

Lemma RZ_len p l : RZ p l -> plen p = Z.of_nat (length l).
Proof.
  intros (_ & <- & _). unfold plen, objs. rewrite map_length.
  rewrite (Permutation_length (plist_perm HPV p)). reflexivity.
Qed.

Lemma RZ_order p l : RZ p l -> fst (pos_iter HPV p) = l.
Proof. intros (Hp & <- & _). apply (iter_plist HPV HPV_plt p Hp). Qed.

Lemma RZ_keyuniq p l h : RZ p l -> KeyUniq (Z.eqb h) (arr (pq_ p)).
Proof.
  intros (Hp & <- & _ & Hnd). apply ObjsDistinct_keyuniq. unfold ObjsDistinct.
  eapply Permutation_NoDup; [|exact Hnd]. apply Permutation_map, plist_perm.
Qed.

(* ---- append ---- *)
Lemma append_last p h pr :
  PInv HPV p -> Forall reg0 (plist HPV p) -> pr == 0 ->
  plist HPV (pos_append_pri HPV p h pr) =
  plist HPV p ++ [mkE (mkPV pr (n_ins p) 0 1) (seqn (pq_ p)) h].
Proof.
  intros Hp Hfl Hpr. rewrite (append_plist HPV HPV_plt HPV_spec) by exact Hp. apply ins_last.
  intros x Hx. change (plt HPV) with pv_lt. apply eltv_false_spec.
  pose proof (plist_seq_lt p Hp x Hx) as Hs.
  pose proof (plist_cls HPV p Hp) as Hc. rewrite Forall_forall in Hc, Hfl.
  destruct (Hc x Hx) as [[Hx0 _]|Hx1].
  - left. simpl. lia.
  - right. simpl pclass. split; [auto|]. right. specialize (Hfl x Hx Hx1).
    unfold pv_priority at 1. simpl. split; [lra | simpl; lia].
Qed.

Lemma RZ_append p l h : RZ p l -> ~ In h l -> RZ (pos_append_pri HPV p h 0) (l ++ [h]).
Proof.
  intros (Hp & Ho & Hfl & Hnd) Hn.
  assert (Epl := append_last p h 0 Hp Hfl ltac:(reflexivity)).
  split; [apply (append_pri_inv HPV HPV_spec); auto|]. split; [|split].
  - unfold objs. rewrite Epl, map_app. simpl. fold (objs p). rewrite Ho. reflexivity.
  - rewrite Epl. apply Forall_app. split; auto. constructor; auto. intros _.
    unfold pv_priority. simpl. lra.
  - apply NoDup_app_intro; auto; [constructor; [tauto | constructor]|].
    intros x Hx [<-|[]]. auto.
Qed.

(* ---- find / remove on the run order ---- *)
Lemma find_objs_split (h : Z) : forall (L : list (entry pv)) a b,
  map (@eobj pv) L = a ++ h :: b -> ~ In h a ->
  exists e, find (okey (Z.eqb h)) L = Some e /\ eobj e = h /\
            map (@eobj pv) (remove_first (okey (Z.eqb h)) L) = a ++ b.
Proof.
  induction L as [|x L IH]; intros a b E Hn.
  - destruct a; discriminate.
  - destruct a as [|y a]; simpl in E; injection E as Ex El.
    + exists x. simpl. unfold okey at 1 3. rewrite Ex, Z.eqb_refl. auto.
    + destruct (IH a b El) as (e & F & He & Hr); [simpl in Hn; tauto|].
      exists e. simpl. unfold okey at 1 3. rewrite Ex.
      destruct (Z.eqb_spec h y) as [->|Hne]; [simpl in Hn; tauto|].
      rewrite F. simpl. rewrite Hr, Ex. auto.
Qed.

Lemma find_objs_none (h : Z) (L : list (entry pv)) :
  ~ In h (map (@eobj pv) L) -> find (okey (Z.eqb h)) L = None.
Proof.
  intros Hn. apply find_none_iff. intros x Hx. unfold okey. apply Z.eqb_neq. intros ->.
  apply Hn. apply in_map. exact Hx.
Qed.

Lemma in_split_first (h : Z) (l : list Z) :
  In h l -> exists a b, l = a ++ h :: b /\ ~ In h a.
Proof.
  induction l as [|y l IH]; intros Hin; [destruct Hin|].
  destruct (Z.eq_dec y h) as [->|Hne].
  - exists [], l. auto.
  - destruct Hin as [E|Hin]; [congruence|]. destruct (IH Hin) as (a & b & -> & Ha).
    exists (y :: a), b. split; auto. simpl. tauto.
Qed.

Lemma NoDup_remove_mid (a b : list Z) h : NoDup (a ++ h :: b) -> NoDup (a ++ b) /\ ~ In h b.
Proof.
  intros Hnd. split; [eapply NoDup_remove_1; eauto|].
  apply NoDup_remove_2 in Hnd. intros Hb. apply Hnd. apply in_or_app. auto.
Qed.

Lemma Forall_rf {A} (P : A -> Prop) f l : Forall P l -> Forall P (remove_first f l).
Proof. rewrite !Forall_forall. intros Hl x Hx. apply Hl. eapply remove_first_incl; eauto. Qed.

Lemma RZ_find p l h rm :
  RZ p l ->
  exists p' l', qi_find PosQ p (Z.eqb h) rm = (if in_dec Z.eq_dec h l then Some h else None, p') /\
                qi_find ListQ l (Z.eqb h) rm = (if in_dec Z.eq_dec h l then Some h else None, l') /\
                RZ p' l' /\ incl l' l.
Proof.
  intros HR. pose proof HR as (Hp & Ho & Hfl & Hnd).
  pose proof (find_plist HPV HPV_plt HPV_spec p (Z.eqb h) rm Hp (RZ_keyuniq p l h HR)) as Hf.
  cbn [qi_find PosQ]. destruct (in_dec Z.eq_dec h l) as [Hin|Hout].
  - destruct (in_split_first h l Hin) as (a & b & El & Ha).
    destruct (find_objs_split h (plist HPV p) a b) as (e & F & He & Hr); [unfold objs in Ho; congruence | auto |].
    rewrite F in Hf. destruct Hf as (p' & E & Hp' & Hcase). rewrite E, He.
    rewrite El in Hnd. destruct (NoDup_remove_mid a b h Hnd) as [Hnd' Hb].
    exists p', (if rm then a ++ b else l). split; [reflexivity|]. split.
    + assert (Hkb : forall x, In x b -> Z.eqb h x = false).
      { intros x Hx. apply Z.eqb_neq. intros ->. auto. }
      rewrite El. rewrite (list_find_split a b h (Z.eqb h) rm (Z.eqb_refl h) Hkb).
      destruct rm; reflexivity.
    + destruct rm.
      * split; [|rewrite El; intros x Hx; apply in_app_or in Hx; apply in_or_app; simpl; tauto].
        split; auto. split; [unfold objs; rewrite Hcase; exact Hr|].
        split; [rewrite Hcase; apply Forall_rf; auto | auto].
      * subst p'. split; [exact HR | apply incl_refl].
  - rewrite find_objs_none in Hf by (fold (objs p); rewrite Ho; auto). rewrite Hf.
    exists p, l. split; [reflexivity|]. split; [apply list_find_none|split; [exact HR | apply incl_refl]].
    intros x Hx. apply Z.eqb_neq. intros ->. auto.
Qed.

Lemma RZ_remove p l h :
  RZ p l ->
  exists p' l', qi_remove PosQ p h = (if in_dec Z.eq_dec h l then true else false, p') /\
                qi_remove ListQ l h = (if in_dec Z.eq_dec h l then true else false, l') /\
                RZ p' l' /\ incl l' l.
Proof.
  intros HR. pose proof HR as (Hp & Ho & Hfl & Hnd).
  pose proof (remove_plist HPV HPV_plt HPV_spec p h Hp (RZ_keyuniq p l h HR)) as Hf.
  cbn [qi_remove PosQ]. destruct (in_dec Z.eq_dec h l) as [Hin|Hout].
  - destruct (in_split_first h l Hin) as (a & b & El & Ha).
    destruct (find_objs_split h (plist HPV p) a b) as (e & F & He & Hr); [unfold objs in Ho; congruence | auto |].
    rewrite F in Hf. destruct Hf as (p' & E & Hp' & Hcase). rewrite E.
    rewrite El in Hnd. destruct (NoDup_remove_mid a b h Hnd) as [Hnd' Hb].
    exists p', (a ++ b). split; [reflexivity|]. split; [rewrite El; apply list_remove_split; auto|].
    split; [|rewrite El; intros x Hx; apply in_app_or in Hx; apply in_or_app; simpl; tauto].
    split; auto. split; [unfold objs; rewrite Hcase; exact Hr|].
    split; [rewrite Hcase; apply Forall_rf; auto | auto].
  - rewrite find_objs_none in Hf by (fold (objs p); rewrite Ho; auto). rewrite Hf.
    exists p, l. split; [reflexivity|]. split; [apply list_remove_absent; auto|].
    split; [exact HR | apply incl_refl].
Qed.

(* ---- insert at a position ---- *)
Lemma ins_at_firstn_skipn (l : list Z) k h : firstn k l ++ h :: skipn k l = ins_at l k h.
Proof.
  unfold ins_at. rewrite insert_nth_split. destruct (Nat.le_gt_cases k (length l)) as [Hk|Hk].
  - rewrite Nat.min_l by lia. reflexivity.
  - rewrite Nat.min_r by lia. rewrite !insert_nth_end by lia. reflexivity.
Qed.

Lemma RZ_insert p l k h : RZ p l -> ~ In h l -> RZ (pos_insert HPV p k h) (ins_at l k h).
Proof.
  intros (Hp & Ho & Hfl & Hnd) Hn.
  destruct (insert_plist HPV HPV_plt HPV_spec p k h Hp) as (news & En & Em & Ec).
  split; [apply (insert_inv HPV HPV_plt HPV_spec); auto|]. split; [|split].
  - unfold objs. rewrite En, map_app, Em, <- app_assoc. simpl.
    rewrite <- firstn_map, <- skipn_map. fold (objs p). rewrite Ho. apply ins_at_firstn_skipn.
  - rewrite En. apply Forall_app. split.
    + eapply Forall_impl; [|exact Ec]. intros x Hx Hx1. simpl in Hx. lia.
    + rewrite Forall_forall in *. intros x Hx. apply Hfl. eapply in_skipn; eauto.
  - eapply Permutation_NoDup; [apply ins_at_perm|]. constructor; auto.
Qed.

(* ---- call_pos = append; remove; insert ---- *)
Lemma RZ_call_pos p l k h : RZ p l -> ~ In h l ->
  RZ (qi_call_pos PosQ p k h) (ins_at l k h).
Proof.
  intros HR Hn. pose proof (RZ_append p l h HR Hn) as HR1.
  cbn [qi_call_pos PosQ].
  destruct (RZ_remove (pos_append_pri HPV p h 0) (l ++ [h]) h HR1) as (p2 & l2 & E & El & HR2 & _).
  destruct (in_dec Z.eq_dec h (l ++ [h])) as [_|Hout]; [|exfalso; apply Hout, in_or_app; simpl; auto].
  cbn [qi_remove PosQ] in E.
  destruct (pos_remove HPV (pos_append_pri HPV p h 0) h) as [p2'|]; [|discriminate].
  assert (p2' = p2) by congruence. subst p2'.
  assert (l2 = l).
  { rewrite (list_remove_split l [] h) in El by (simpl; tauto). rewrite app_nil_r in El. congruence. }
  subst l2. apply RZ_insert; auto.
Qed.

(* ---- one operation ---- *)
Definition fresh_ok (l : list Z) (o : qop) : Prop :=
  match o with QAppend h | QInsertPos _ h | QCallPos _ h => ~ In h l | _ => True end.

Lemma qstep_iso p l o :
  RZ p l -> fresh_ok l o ->
  exists r p' l', qstep PosQ p o = (r, p') /\ qstep ListQ l o = (r, l') /\ RZ p' l' /\
    (forall x, In x l' -> In x l \/ match o with QAppend h | QInsertPos _ h | QCallPos _ h => x = h | _ => False end).
Proof.
  intros HR Hf. pose proof HR as (Hp & Ho & Hfl & Hnd). destruct o as [h| |h rm|h|k h|k h|]; cbn [qstep].
  - exists (OL []), (pos_append_pri HPV p h 0), (l ++ [h]). split; [reflexivity|]. split; [reflexivity|].
    split; [apply RZ_append; auto|]. intros x Hx. apply in_app_or in Hx. destruct Hx as [?|[<-|[]]]; auto.
  - pose proof (popleft_plist HPV HPV_plt HPV_spec p Hp) as Hl. cbn [qi_popleft PosQ ListQ].
    unfold objs in Ho. destruct (plist HPV p) as [|e t] eqn:Epl.
    + rewrite Hl. subst l. exists (OL [OI (-1)]), p, []. split; [reflexivity|]. split; [reflexivity|].
      split; [exact HR | tauto].
    + destruct Hl as (p' & E & Ht & Hp'). rewrite E. subst l. simpl.
      exists (OL [OI (eobj e)]), p', (map (@eobj pv) t). split; [reflexivity|]. split; [reflexivity|].
      split; [|simpl; tauto]. split; auto. split; [unfold objs; rewrite Ht; reflexivity|].
      split; [rewrite Ht; inversion Hfl; auto | inversion Hnd; auto].
  - destruct (RZ_find p l h rm HR) as (p' & l' & E1 & E2 & HR' & Hi). rewrite E1, E2.
    eexists _, p', l'. split; [reflexivity|]. split; [reflexivity|]. split; auto.
  - destruct (RZ_remove p l h HR) as (p' & l' & E1 & E2 & HR' & Hi). rewrite E1, E2.
    eexists _, p', l'. split; [reflexivity|]. split; [reflexivity|]. split; auto.
  - exists (OL []), (pos_insert HPV p k h), (ins_at l k h). split; [reflexivity|].
    split; [rewrite list_insert_pos; reflexivity|]. split; [apply RZ_insert; auto|].
    intros x Hx. apply (Permutation_in _ (Permutation_sym (ins_at_perm l k h))) in Hx. destruct Hx as [<-|?]; auto.
  - exists (OL []), (qi_call_pos PosQ p k h), (ins_at l k h). split; [reflexivity|].
    split; [rewrite list_call_pos; reflexivity|]. split; [apply RZ_call_pos; auto|].
    intros x Hx. apply (Permutation_in _ (Permutation_sym (ins_at_perm l k h))) in Hx. destruct Hx as [<-|?]; auto.
  - cbn [qi_items PosQ ListQ]. destruct (pos_iter HPV p) as [it p'] eqn:Ei.
    pose proof (iter_plist HPV HPV_plt p Hp) as [E1 E2]. rewrite Ei in E1, E2. simpl in E1, E2.
    exists (olist OI l), p', l. split; [rewrite E1; fold (objs p); rewrite Ho; reflexivity|].
    split; [reflexivity|]. split; [|tauto].
    split; [pose proof (iter_inv_pos HPV HPV_plt p Hp) as Hi; rewrite Ei in Hi; exact Hi|].
    split; [unfold objs; rewrite E2; exact Ho|]. split; [rewrite E2; auto | auto].
Qed.

(* ---- every operation sequence ---- *)
Lemma wf_fresh live l o t :
  incl l live -> wf_from live (o :: t) -> fresh_ok l o.
Proof.
  intros Hi Hw. destruct o; simpl in *; auto; destruct Hw as [Hn _]; intros Hx; apply Hn, Hi, Hx.
Qed.

Theorem qrun_iso : forall ops live p l,
  RZ p l -> incl l live -> wf_from live ops -> qrun PosQ p ops = qrun ListQ l ops.
Proof.
  induction ops as [|o t IH]; intros live p l HR Hi Hw; [reflexivity|].
  cbn [qrun]. destruct (qstep_iso p l o HR (wf_fresh live l o t Hi Hw)) as (r & p' & l' & E1 & E2 & HR' & Hin).
  rewrite E1, E2.
  assert (Elen : qi_len PosQ p' = qi_len ListQ l') by (apply RZ_len; exact HR').
  assert (Eord : qi_order PosQ p' = qi_order ListQ l') by (apply RZ_order; exact HR').
  rewrite Elen, Eord. f_equal.
  destruct o as [h| |h rm|h|k h|k h|]; simpl in Hw;
    try (apply (IH live); auto; intros x Hx; destruct (Hin x Hx) as [?|[]]; auto);
    destruct Hw as [Hn Hw]; apply (IH (h :: live)); auto;
    intros x Hx; destruct (Hin x Hx) as [? | ->]; simpl; auto.
Qed.

Lemma obs_eqb_refl : forall o, obs_eqb o o = true.
Proof.
  fix IH 1. intros [z|l].
  - simpl. apply Z.eqb_refl.
  - simpl. induction l as [|x l IHl]; auto. rewrite IH. simpl. exact IHl.
Qed.

Theorem posq_iso : posq_iso_statement.
Proof.
  intros ops Hw. unfold same_run. rewrite (qrun_iso ops [] (qi_empty PosQ) (qi_empty ListQ)); auto.
  - apply obs_eqb_refl.
  - apply RZ_empty.
  - intros x [].
Qed.
