(* Table access lemmas for the scheduler model: nth/set_nth, get/set of each
   table, and the projections of every record-update setter. *)
From Coq Require Import QArith.
From RecordUpdate Require Import RecordUpdate.
From Asynkit Require Import Base.Prelude Queue.PQ Queue.PosPQ Queue.Exec Sched.Model.
Import RecordSetNotations.
Open Scope nat_scope.

Lemma nth_set_nth_same {A} (l : list A) i x d :
  i < length l -> nth i (set_nth l i x) d = x.
Proof. revert i; induction l as [|h t IH]; intros [|i] H; simpl in *; try lia; auto. apply IH; lia. Qed.

Lemma nth_set_nth_other {A} (l : list A) i j x d :
  i <> j -> nth j (set_nth l i x) d = nth j l d.
Proof.
  revert i j; induction l as [|h t IH]; intros [|i] [|j] H; simpl; auto; try lia.
Qed.

Lemma set_nth_oob {A} (l : list A) i x : length l <= i -> set_nth l i x = l.
Proof. revert i; induction l as [|h t IH]; intros [|i] H; simpl in *; auto; try lia. f_equal. apply IH. lia. Qed.

Lemma nth_set_nth {A} (l : list A) i j x d :
  nth j (set_nth l i x) d = if (Nat.eqb i j && Nat.ltb i (length l))%bool then x else nth j l d.
Proof.
  destruct (Nat.eqb i j) eqn:E; simpl.
  - apply Nat.eqb_eq in E. subst j. destruct (Nat.ltb i (length l)) eqn:L.
    + apply Nat.ltb_lt in L. now apply nth_set_nth_same.
    + apply Nat.ltb_ge in L. now rewrite set_nth_oob.
  - apply Nat.eqb_neq in E. now apply nth_set_nth_other.
Qed.

Lemma map_set_nth {A B} (f : A -> B) (l : list A) i x :
  map f (set_nth l i x) = set_nth (map f l) i (f x).
Proof. revert i; induction l as [|h t IH]; intros [|i]; simpl; auto. f_equal. apply IH. Qed.

Lemma set_nth_same_val {A} (l : list A) i d : set_nth l i (nth i l d) = l.
Proof. revert i; induction l as [|h t IH]; intros [|i]; simpl; auto. f_equal. apply IH. Qed.

Lemma map_set_nth_same {A B} (f : A -> B) (l : list A) i x d :
  f x = f (nth i l d) -> map f (set_nth l i x) = map f l.
Proof.
  intros E. rewrite map_set_nth, E.
  destruct (Nat.ltb i (length l)) eqn:L.
  - apply Nat.ltb_lt in L. rewrite <- (map_nth f). apply set_nth_same_val.
  - apply Nat.ltb_ge in L. apply set_nth_oob. now rewrite map_length.
Qed.

Lemma nth_app_fresh {A} (l : list A) x d : nth (length l) (l ++ [x]) d = x.
Proof. rewrite app_nth2 by lia. now rewrite Nat.sub_diag. Qed.

Lemma nth_app_old {A} (l : list A) x i d : i < length l -> nth i (l ++ [x]) d = nth i l d.
Proof. intros. now apply app_nth1. Qed.

Lemma nth_oob {A} (l : list A) i d : length l <= i -> nth i l d = d.
Proof. apply nth_overflow. Qed.

(* ---- get after set ---- *)
Lemma getl_setl s l l' x :
  getl (setl s l x) l' = if (Nat.eqb l l' && Nat.ltb l (length (locks s)))%bool then x else getl s l'.
Proof. unfold getl, setl. cbn. apply nth_set_nth. Qed.
Lemma gett_sett s t t' x :
  gett (sett s t x) t' = if (Nat.eqb t t' && Nat.ltb t (length (tasks s)))%bool then x else gett s t'.
Proof. unfold gett, sett. cbn. apply nth_set_nth. Qed.
Lemma getf_setf s f f' x :
  getf (setf s f x) f' = if (Nat.eqb f f' && Nat.ltb f (length (futs s)))%bool then x else getf s f'.
Proof. unfold getf, setf. cbn. apply nth_set_nth. Qed.

Lemma getl_setl_same s l x : l < length (locks s) -> getl (setl s l x) l = x.
Proof. intros H. rewrite getl_setl, Nat.eqb_refl. apply Nat.ltb_lt in H. now rewrite H. Qed.
Lemma getl_setl_other s l l' x : l <> l' -> getl (setl s l x) l' = getl s l'.
Proof. intros H. rewrite getl_setl. apply Nat.eqb_neq in H. now rewrite H. Qed.
Lemma gett_sett_same s t x : t < length (tasks s) -> gett (sett s t x) t = x.
Proof. intros H. rewrite gett_sett, Nat.eqb_refl. apply Nat.ltb_lt in H. now rewrite H. Qed.
Lemma gett_sett_other s t t' x : t <> t' -> gett (sett s t x) t' = gett s t'.
Proof. intros H. rewrite gett_sett. apply Nat.eqb_neq in H. now rewrite H. Qed.
Lemma getf_setf_same s f x : f < length (futs s) -> getf (setf s f x) f = x.
Proof. intros H. rewrite getf_setf, Nat.eqb_refl. apply Nat.ltb_lt in H. now rewrite H. Qed.
Lemma getf_setf_other s f f' x : f <> f' -> getf (setf s f x) f' = getf s f'.
Proof. intros H. rewrite getf_setf. apply Nat.eqb_neq in H. now rewrite H. Qed.

Lemma getl_oob s l : length (locks s) <= l -> getl s l = dlock.
Proof. apply nth_overflow. Qed.
Lemma gett_oob s t : length (tasks s) <= t -> gett s t = dtask.
Proof. apply nth_overflow. Qed.
Lemma getf_oob s f : length (futs s) <= f -> getf s f = dfut.
Proof. apply nth_overflow. Qed.
Lemma setl_oob s l x : length (locks s) <= l -> locks (setl s l x) = locks s.
Proof. intros. unfold setl. cbn. now apply set_nth_oob. Qed.

Lemma gete_sete s e e' x :
  gete (sete s e x) e' = if (Nat.eqb e e' && Nat.ltb e (length (events s)))%bool then x else gete s e'.
Proof. unfold gete, sete. cbn. apply nth_set_nth. Qed.
Lemma getc_setc s c c' x :
  getc (setc s c x) c' = if (Nat.eqb c c' && Nat.ltb c (length (conds s)))%bool then x else getc s c'.
Proof. unfold getc, setc. cbn. apply nth_set_nth. Qed.
Lemma set_nth_set_nth {A} (l : list A) i x y : set_nth (set_nth l i x) i y = set_nth l i y.
Proof. revert i; induction l as [|h t IH]; intros [|i]; simpl; auto. f_equal. apply IH. Qed.
