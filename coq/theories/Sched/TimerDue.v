(* C16, timing half (continued): entering arms the timer; what the start of a loop iteration does
   with the timer heap (cancelled heads dropped, all due timers moved to the ready queue in
   deadline order); at the first iteration start at/after the deadline the trigger of a still
   active block becomes ready; when it runs the interruptor task is created; its first step
   throws the token and the target is the next handle. *)
From Coq Require Import QArith Sorting.Permutation Sorting.Sorted.
From RecordUpdate Require Import RecordUpdate.
From Asynkit Require Import Base.Prelude Queue.ListFacts Queue.PQ Queue.PosPQ Queue.Exec
     Queue.Heap Queue.HeapqModel Queue.HeapqProofs
     Sched.Model Sched.PartTables Sched.PartitionProofs Sched.FrameFacts Sched.PrioLoopProofs
     Sched.ThrowProofs Sched.TimeoutProofs Sched.TimeoutCompose Sched.TimerInv.
Import RecordSetNotations.
Open Scope nat_scope.

(* ------------------------------------------------------------ entering arms the timer *)
(* well-formedness of the state in which the block is entered; every clause holds in all
   reachable states: the first five are part of C09's invariant ([InvC_EnterWf]), handle 0 exists
   as soon as a task was ever created *)
Record EnterWf (qok : rq -> Prop) (s : st) : Prop := {
  w_q : qok (ready s);
  w_r : forall x, In x (rq_items (ready s)) -> x < length (handles s);
  w_blk : forall b', b' < length (blocks s) -> btimer (getb s b') < length (handles s);
  w_frm : sleep_wf s;
  w_tl : forall e, In e (timers s) -> snd e < length (handles s);
  w_h0 : 0 < length (handles s);
  w_trg : forall x b', x < length (handles s) -> hcb (geth s x) = HTrigger b' -> b' < length (blocks s);
  w_nd : NoDup (map snd (timers s));
  w_hp : theap (timers s) }.

Lemma InvC_EnterWf qok c s :
  InvC qok c s -> 0 < length (handles s) ->
  (forall x b', x < length (handles s) -> hcb (geth s x) = HTrigger b' -> b' < length (blocks s)) ->
  NoDup (map snd (timers s)) -> theap (timers s) ->
  EnterWf qok s.
Proof.
  intros I H0 Htr Hn Hh. pose proof (i_wf I) as W. constructor; auto.
  - apply (i_qok W).
  - apply (i_rwf W).
  - intros b' Hb'. apply (i_blk W b' Hb').
  - intros t h' Hin. destruct (Nat.lt_ge_cases t (length (tasks s))) as [Hl|Hl].
    + pose proof (i_frm W t Hl) as Hk. unfold frames_of in Hin.
      destruct (tcont_ (gett s t)); simpl in Hin, Hk; try tauto.
      * destruct Hk as [Hf _]. rewrite Forall_forall in Hf. apply (Hf _ Hin).
      * destruct Hk as [Hf _]. rewrite Forall_forall in Hf. apply (Hf _ Hin).
    + unfold gett in Hin. rewrite nth_overflow in Hin by lia. simpl in Hin. tauto.
  - intros [w0 h0] Hin. apply (i_tim W w0 h0 Hin).
Qed.

Definition enter_st (s : st) (t : nat) (d : Q) : st :=
  s <| handles := handles s ++ [mkH (HTrigger (length (blocks s))) false] |>
    <| timers := HeapqModel.heappush timer_lt tdflt (timers s) ((now s + d)%Q, length (handles s)) |>
    <| blocks := blocks s ++ [mkBlk t true (length (handles s))] |>.

Theorem enter_arms qok t d s :
  EnterWf qok s ->
  let b := length (blocks s) in
  let h := length (handles s) in
  let w := (now s + d)%Q in
  let s' := enter_st s t d in
  lib_call t (OTimeoutEnter (Some d)) s = (s', LDone (RVal (Z.of_nat b))) /\
  getb s' b = mkBlk t true h /\ geth s' h = mkH (HTrigger b) false /\
  Permutation (timers s') ((w, h) :: timers s) /\
  (forall e, In e (timers s) -> snd e <> h) /\
  Inv qok b h w s'.
Proof.
  intros W b h w s'. destruct W.
  pose proof (tperm_push (timers s) (w, h)) as P.
  pose proof (theap_push (timers s) (w, h) w_hp0) as Hhp.
  split; [reflexivity|]. split; [unfold getb, s', enter_st; cbn; apply nth_middle|].
  split; [unfold geth, s', enter_st; cbn; apply nth_middle|]. split; [exact P|].
  split; [intros e He; specialize (w_tl0 e He); unfold h; lia|].
  unfold s', enter_st. fold b h w.
  set (tm := HeapqModel.heappush timer_lt tdflt (timers s) (w, h)) in *. clearbody tm.
  constructor; cbn; unfold geth, getb; cbn; rewrite ?app_length; simpl; auto; try lia.
  - intros Hi. apply w_r0 in Hi. unfold h in Hi. lia.
  - unfold h. rewrite nth_middle. reflexivity.
  - intros x Hx Hcb. destruct (Nat.lt_ge_cases x (length (handles s))) as [Hl|Hl]; [|unfold h; lia].
    rewrite app_nth1 in Hcb by exact Hl. specialize (w_trg0 x b Hl Hcb). unfold b in w_trg0. lia.
  - unfold b. rewrite nth_middle. reflexivity.
  - intros b' Hb' Hn. rewrite app_nth1 by (unfold b in *; lia).
    assert (Hl : b' < length (blocks s)) by (unfold b in *; lia).
    specialize (w_blk0 b' Hl). unfold getb in w_blk0. unfold h. lia.
  - unfold b, h. rewrite !nth_middle. reflexivity.
  - intros t0. unfold tc_ok, frs_ok. rewrite Forall_forall. intros fr Hfr.
    destruct fr; simpl; auto. specialize (w_frm0 t0 _ Hfr). unfold h. lia.
  - intros e He. apply (Permutation_in _ P) in He. destruct He as [<-|He]; simpl; [unfold h; lia|].
    specialize (w_tl0 e He). lia.
  - eapply Permutation_NoDup; [apply Permutation_sym, Permutation_map, P|]. simpl. constructor; auto.
    intros Hi. apply in_map_iff in Hi. destruct Hi as (e & E1 & E2). specialize (w_tl0 e E2). unfold h in E1. lia.
  - intros _. apply (Permutation_in _ (Permutation_sym P)). left. reflexivity.
  - intros w0 Hi. apply (Permutation_in _ P) in Hi. destruct Hi as [Hi|Hi]; [inversion Hi; auto|].
    specialize (w_tl0 _ Hi). simpl in w_tl0. unfold h in w_tl0. lia.
Qed.

(* "exactly one entry": while the block is active the heap is l1 ++ (w, h) :: l2 and no other
   entry has handle h *)
Lemma armed_exactly_one qok b h w s :
  Inv qok b h w s -> bactive (getb s b) = true ->
  hcancelled (geth s h) = false /\
  exists l1 l2, timers s = l1 ++ (w, h) :: l2 /\ forall e, In e (l1 ++ l2) -> snd e <> h.
Proof.
  intros I A. split; [rewrite (v_c _ _ _ _ _ I), A; reflexivity|].
  destruct (in_split _ _ (v_in _ _ _ _ _ I A)) as (l1 & l2 & E). exists l1, l2. split; auto.
  pose proof (v_nd _ _ _ _ _ I) as ND. rewrite E, map_app in ND. simpl in ND.
  apply NoDup_remove_2 in ND. intros e He Hs. apply ND. rewrite <- map_app, <- Hs. apply in_map. exact He.
Qed.

(* ------------------------------------------------------------ the start of an iteration *)
Lemma st_eta_timers s : s = s <| timers := timers s |>.
Proof. destruct s; reflexivity. Qed.

Lemma drop_cancelled_spec : forall fuel s, theap (timers s) ->
  exists dropped tm',
    drop_cancelled fuel s = s <| timers := tm' |> /\
    Permutation (timers s) (dropped ++ tm') /\
    (forall e, In e dropped -> hcancelled (geth s (snd e)) = true) /\
    theap tm'.
Proof.
  induction fuel as [|fuel IH]; intros s Hh; cbn [drop_cancelled].
  - exists [], (timers s). split; [apply st_eta_timers|]. split; [reflexivity|]. split; [simpl; tauto|auto].
  - destruct (timers s) as [|[w0 h0] tl] eqn:T.
    + exists [], []. split; [rewrite <- T; apply st_eta_timers|]. split; [reflexivity|].
      split; [simpl; tauto|apply is_heap_nil].
    + assert (Base : exists dropped tm', s = s <| timers := tm' |> /\
                Permutation ((w0, h0) :: tl) (dropped ++ tm') /\
                (forall e, In e dropped -> hcancelled (geth s (snd e)) = true) /\ theap tm').
      { exists [], (timers s). split; [apply st_eta_timers|]. rewrite T. split; [reflexivity|].
        split; [simpl; tauto|exact Hh]. }
      assert (Hh0 : theap (timers s)) by (rewrite T; exact Hh).
      destruct (hcancelled (geth s h0)) eqn:C; [|exact Base].
      rewrite <- T. destruct (HeapqModel.heappop _ _ _) as [[e tm]|] eqn:P; [|rewrite T; exact Base].
      destruct (theap_pop _ _ _ Hh0 P) as [Hd Hh']. rewrite T in Hd. inversion Hd; subst e. clear Hd.
      assert (Hx : theap (timers (s <| timers := tm |>))) by exact Hh'.
      destruct (IH (s <| timers := tm |>) Hx) as (dr & tm' & E & Pm & Hc & Hp).
      exists ((w0, h0) :: dr), tm'. split; [rewrite E; reflexivity|]. split.
      * eapply perm_trans; [apply (tperm_pop _ _ _ P)|]. simpl. apply perm_skip. exact Pm.
      * split; [|exact Hp]. intros e [<-|He]; [exact C|]. apply (Hc e He).
Qed.

Definition app_due (s : st) (r : rq) (e : Q * nat) : rq :=
  rq_append r (snd e) (handle_priority s (hcb (geth s (snd e)))).

Definition dl_le (a c : Q * nat) : Prop := (fst a <= fst c)%Q.

Lemma move_due_spec : forall fuel s, theap (timers s) -> length (timers s) <= fuel ->
  exists moved tm',
    move_due fuel s = s <| timers := tm' |> <| ready := fold_left (app_due s) moved (ready s) |> /\
    Permutation (timers s) (moved ++ tm') /\
    (forall e, In e moved -> (fst e <= now s)%Q) /\
    (forall e, In e tm' -> (now s < fst e)%Q) /\
    StronglySorted dl_le moved /\ theap tm'.
Proof.
  induction fuel as [|fuel IH]; intros s Hh Hf.
  - destruct (timers s) eqn:T; [|simpl in Hf; lia]. exists [], []. cbn [move_due fold_left].
    split; [destruct s; cbn in T; subst; reflexivity|]. split; [reflexivity|].
    split; [simpl; tauto|]. split; [simpl; tauto|]. split; [constructor|apply is_heap_nil].
  - cbn [move_due]. destruct (timers s) as [|[w0 h0] tl] eqn:T.
    + exists [], []. cbn [fold_left]. split; [destruct s; cbn in T; subst; reflexivity|].
      split; [reflexivity|]. split; [simpl; tauto|]. split; [simpl; tauto|].
      split; [constructor|apply is_heap_nil].
    + assert (Hh0 : theap (timers s)) by (rewrite T; exact Hh).
      destruct (Qle_bool w0 (now s)) eqn:C.
      * rewrite <- T. destruct (HeapqModel.heappop _ _ _) as [[[w1 h1] tm]|] eqn:P.
        2:{ destruct (heappop_some timer_lt tdflt (timers s)) as (e & h' & E); [rewrite T; discriminate|].
            rewrite E in P. discriminate. }
        destruct (theap_pop _ _ _ Hh0 P) as [Hd Hh']. rewrite T in Hd. inversion Hd; subst w1 h1. clear Hd.
        pose proof (tperm_pop _ _ _ P) as Pp.
        set (s1 := s <| timers := tm |>
                     <| ready := rq_append (ready (s <| timers := tm |>)) h0
                                   (handle_priority (s <| timers := tm |>) (hcb (geth (s <| timers := tm |>) h0))) |>).
        assert (Hl1 : length (timers s1) <= fuel).
        { apply Permutation_length in Pp. rewrite T in Pp. simpl in Pp, Hf. change (timers s1) with tm. lia. }
        assert (Hx1 : theap (timers s1)) by exact Hh'.
        destruct (IH s1 Hx1 Hl1) as (mv & tm' & E & Pm & Hle & Hgt & Hs & Hp).
        change (timers s1) with tm in Pm. change (now s1) with (now s) in Hle, Hgt.
        exists ((w0, h0) :: mv), tm'. split.
        { change (move_due fuel s1 = s <| timers := tm' |>
                    <| ready := fold_left (app_due s) mv (app_due s (ready s) (w0, h0)) |>).
          rewrite E. unfold s1. cbn.
          assert (EA : forall r e, app_due s1 r e = app_due s r e).
          { intros r e. unfold app_due. f_equal. apply handle_priority_frame; reflexivity. }
          assert (EF : forall l r, fold_left (app_due s1) l r = fold_left (app_due s) l r).
          { induction l as [|x l IHl]; intros r; simpl; auto. rewrite EA. apply IHl. }
          unfold s1 in EF. rewrite EF. unfold app_due at 3. cbn [snd].
          rewrite (handle_priority_frame s (s <| timers := tm |>)) by reflexivity. reflexivity. }
        split; [eapply perm_trans; [exact Pp|]; simpl; apply perm_skip; exact Pm|].
        split; [intros e [<-|He]; [apply Qle_bool_iff; exact C|apply (Hle e He)]|].
        split; [exact Hgt|]. split; [|exact Hp].
        constructor; [exact Hs|]. rewrite Forall_forall. intros x Hx.
        apply (theap_min _ _ Hh). rewrite <- T.
        apply (Permutation_in _ (Permutation_sym Pp)). right.
        apply (Permutation_in _ (Permutation_sym Pm)). apply in_or_app. left. exact Hx.
      * exists [], (timers s). cbn [fold_left]. split; [rewrite T; destruct s; cbn in T; subst; reflexivity|].
        rewrite T. split; [reflexivity|]. split; [simpl; tauto|]. split; [|split; [constructor|exact Hh]].
        intros e He. pose proof (theap_min _ _ Hh e He) as Hm. simpl in Hm.
        eapply Qlt_le_trans; [|exact Hm]. apply Qnot_le_lt. intros Hc. apply Qle_bool_iff in Hc. congruence.
Qed.

(* what _run_once does with the timers: cancelled handles at the head of the heap are dropped;
   then ALL due timers (when <= now) - cancelled or not - are appended to the ready queue, in
   heap-pop order, i.e. by non-decreasing deadline (ties: heapq's array order, TimerHandle.__lt__
   compares `when` only); what remains in the heap is strictly later than now *)
Theorem begin_iteration_spec s : theap (timers s) ->
  exists dropped moved tm',
    begin_iteration s = s <| timers := tm' |> <| ready := fold_left (app_due s) moved (ready s) |> /\
    Permutation (timers s) (dropped ++ moved ++ tm') /\
    (forall e, In e dropped -> hcancelled (geth s (snd e)) = true) /\
    (forall e, In e moved -> (fst e <= now s)%Q) /\
    (forall e, In e tm' -> (now s < fst e)%Q) /\
    StronglySorted dl_le moved /\ theap tm'.
Proof.
  intros Hh. unfold begin_iteration.
  destruct (drop_cancelled_spec (length (timers s)) s Hh) as (dr & tm1 & E1 & P1 & Hc & Hh1).
  rewrite E1.
  assert (Hl : length (timers (s <| timers := tm1 |>)) <= length (timers s)).
  { apply Permutation_length in P1. rewrite app_length in P1. cbn. lia. }
  assert (Hx : theap (timers (s <| timers := tm1 |>))) by exact Hh1.
  destruct (move_due_spec (length (timers s)) (s <| timers := tm1 |>) Hx Hl)
    as (mv & tm' & E2 & P2 & Hle & Hgt & Hs & Hp).
  exists dr, mv, tm'. split.
  { rewrite E2. cbn.
    assert (EF : forall l r, fold_left (app_due (s <| timers := tm1 |>)) l r = fold_left (app_due s) l r).
    { induction l as [|x l IHl]; intros r; simpl; auto. rewrite <- IHl. f_equal.
      unfold app_due. f_equal. apply handle_priority_frame; reflexivity. }
    rewrite EF. reflexivity. }
  split; [eapply perm_trans; [exact P1|]; apply Permutation_app_head; exact P2|].
  repeat split; auto.
Qed.

(* on the list loop the ready queue is extended by exactly the moved handles, in that order *)
Lemma fold_app_due_list s moved l :
  fold_left (app_due s) moved (RList l) = RList (l ++ map snd moved).
Proof.
  revert l. induction moved as [|e mv IH]; intros l; simpl; [rewrite app_nil_r; reflexivity|].
  change (app_due s (RList l) e) with (RList (l ++ [snd e])). rewrite IH, <- app_assoc. reflexivity.
Qed.

Lemma fold_app_due_items qok (QS : QSpec qok) s moved : forall r, qok r ->
  qok (fold_left (app_due s) moved r) /\
  Permutation (rq_items (fold_left (app_due s) moved r)) (rq_items r ++ map snd moved).
Proof.
  induction moved as [|e mv IH]; intros r Hq; simpl; [split; auto; rewrite app_nil_r; reflexivity|].
  destruct (q_append QS r (snd e) (handle_priority s (hcb (geth s (snd e)))) Hq) as [Hq1 P1].
  destruct (IH _ Hq1) as [Hq2 P2]. split; auto.
  eapply perm_trans; [exact P2|]. eapply perm_trans; [apply Permutation_app_tail; exact P1|].
  simpl. apply Permutation_middle.
Qed.

(* ------------------------------------------------------------ the first iteration at/after the deadline *)
Theorem due_timer_moves qok (QS : QSpec qok) b h w s :
  Inv qok b h w s -> bactive (getb s b) = true -> (w <= now s)%Q ->
  exists dropped m1 m2 tm',
    let moved := m1 ++ (w, h) :: m2 in
    begin_iteration s = s <| timers := tm' |> <| ready := fold_left (app_due s) moved (ready s) |> /\
    Permutation (timers s) (dropped ++ moved ++ tm') /\
    (forall e, In e dropped -> hcancelled (geth s (snd e)) = true) /\
    (forall e, In e m1 -> (fst e <= w)%Q) /\
    (forall e, In e m2 -> (w <= fst e)%Q /\ (fst e <= now s)%Q) /\
    (forall e, In e tm' -> (now s < fst e)%Q) /\
    (forall e, In e (dropped ++ m1 ++ m2 ++ tm') -> snd e <> h) /\
    In h (rq_items (ready (begin_iteration s))) /\
    (forall l, ready s = RList l ->
       ready (begin_iteration s) = RList (l ++ map snd m1 ++ h :: map snd m2)).
Proof.
  intros I A Hw.
  destruct (begin_iteration_spec s (v_hp _ _ _ _ _ I)) as (dr & mv & tm' & E & P & Hc & Hle & Hgt & Hs & Hp).
  destruct (armed_exactly_one _ _ _ _ _ I A) as (Hnc & _).
  pose proof (v_in _ _ _ _ _ I A) as Hin.
  (* (w, h) is neither dropped (not cancelled) nor left in the heap (due) *)
  assert (Hmv : In (w, h) mv).
  { apply (Permutation_in _ P) in Hin. apply in_app_or in Hin. destruct Hin as [Hi|Hi].
    - apply Hc in Hi. simpl in Hi. congruence.
    - apply in_app_or in Hi. destruct Hi as [Hi|Hi]; auto.
      apply Hgt in Hi. simpl in Hi. exfalso. eapply Qlt_irrefl. eapply Qle_lt_trans; eauto. }
  destruct (in_split _ _ Hmv) as (m1 & m2 & Em). subst mv.
  exists dr, m1, m2, tm'. cbv zeta.
  assert (Hothers : forall e, In e (dr ++ m1 ++ m2 ++ tm') -> snd e <> h).
  { pose proof (v_nd _ _ _ _ _ I) as ND.
    assert (P' : Permutation (timers s) ((w, h) :: dr ++ m1 ++ m2 ++ tm')).
    { eapply perm_trans; [exact P|].
      replace (dr ++ (m1 ++ (w, h) :: m2) ++ tm') with ((dr ++ m1) ++ (w, h) :: m2 ++ tm')
        by (rewrite <- !app_assoc; reflexivity).
      replace ((w, h) :: dr ++ m1 ++ m2 ++ tm') with ((w, h) :: (dr ++ m1) ++ m2 ++ tm')
        by (rewrite <- app_assoc; reflexivity).
      apply Permutation_sym, Permutation_middle. }
    apply (Permutation_map snd) in P'. apply (Permutation_NoDup P') in ND. simpl in ND.
    inversion ND as [|? ? Hni _]; subst. intros e He Hs'. apply Hni. rewrite <- Hs'. apply in_map. exact He. }
  split; [exact E|]. split; [exact P|]. split; [exact Hc|].
  split.
  { intros e He.
    (* sortedness: everything before (w, h) in moved is <= w *)
    clear -Hs He. induction m1 as [|x m1 IH]; [destruct He|]. simpl in Hs.
    inversion Hs as [|? ? Hs' Hall]; subst. destruct He as [<-|He]; [|apply IH; auto].
    rewrite Forall_forall in Hall. apply (Hall (w, h)). apply in_or_app. right. left. reflexivity. }
  split.
  { intros e He. split.
    - clear -Hs He. induction m1 as [|x m1 IH]; simpl in Hs.
      + inversion Hs as [|? ? _ Hall]; subst. rewrite Forall_forall in Hall. apply (Hall e He).
      + inversion Hs; subst. apply IH; auto.
    - apply Hle. apply in_or_app. right. right. exact He. }
  split; [exact Hgt|]. split; [exact Hothers|].
  assert (Hready : In h (rq_items (ready (begin_iteration s)))).
  { rewrite E. cbn.
    destruct (fold_app_due_items qok QS s (m1 ++ (w, h) :: m2) (ready s) (v_q _ _ _ _ _ I)) as [_ Pf].
    apply (Permutation_in _ (Permutation_sym Pf)). apply in_or_app. right.
    rewrite map_app. apply in_or_app. right. left. reflexivity. }
  split; [exact Hready|].
  intros l R. rewrite E. cbn. rewrite R, fold_app_due_list, map_app. reflexivity.
Qed.

(* ------------------------------------------------------------ the trigger runs *)
Definition kI : reply -> coro := fun r => match r with RVal v => Ret v | RExc e => Raise e end.

Theorem trigger_runs s b h r :
  rq_popleft (ready s) = Some (h, r) -> geth s h = mkH (HTrigger b) false ->
  let tn := length (tasks s) in
  let hs := length (handles s) in
  let s' := run_one s in
  s' = fst (new_task (s <| ready := r |>) KC None (interruptor_body b)) /\
  length (tasks s') = S tn /\
  gett s' tn = mkTask KC None (length (futs s)) (TNew (interruptor_body b)) None false [] None /\
  tdone s' tn = false /\
  geth s' hs = mkH (HStep tn None) false /\
  (exists p, ready s' = rq_append r hs p) /\
  blocks s' = blocks s /\ timers s' = timers s /\ now s' = now s /\
  (forall t, t < tn -> gett s' t = gett s t) /\
  (forall x, x < hs -> geth s' x = geth s x).
Proof.
  intros P G tn hs s'.
  assert (E : s' = fst (new_task (s <| ready := r |>) KC None (interruptor_body b))).
  { unfold s', run_one. rewrite P. change (geth (s <| ready := r |>) h) with (geth s h). rewrite G. reflexivity. }
  split; [exact E|]. rewrite E. unfold tn, hs, new_task, new_future, call_soon_, call_soon. cbn.
  split; [rewrite app_length; simpl; lia|].
  split; [unfold gett; cbn; apply nth_middle|].
  split; [unfold tdone, gett, fdone, getf; cbn; rewrite nth_middle; cbn; rewrite nth_middle; reflexivity|].
  split; [unfold geth; cbn; apply nth_middle|].
  split; [eexists; reflexivity|]. split; [reflexivity|]. split; [reflexivity|]. split; [reflexivity|].
  split.
  - intros t Ht. unfold gett. cbn. apply app_nth1. exact Ht.
  - intros x Hx. unfold geth. cbn. apply app_nth1. exact Hx.
Qed.

(* the interruptor task's first step is attempt 0 of its loop *)
Theorem interruptor_first_step s hs r tn b :
  rq_popleft (ready s) = Some (hs, r) -> geth s hs = mkH (HStep tn None) false ->
  tdone s tn = false -> tcont_ (gett s tn) = TNew (interruptor_body b) -> tmustc (gett s tn) = false ->
  let s1 := running_state (s <| ready := r |>) tn in
  run_one s =
  (let '(s2, r2) := interruptor 4 s1 b 0 in
   let '(s3, r3) := interruptor_wrap s2 r2 in
   finish_step tn s3 (match r3 with LDone rep => ODone rep | LSusp y frs => OYield y frs kI end)
     <| current := None |>).
Proof.
  intros P G Hd Hk Hm s1. unfold run_one. rewrite P.
  change (geth (s <| ready := r |>) hs) with (geth s hs). rewrite G. cbn [hcancelled hcb run_callback].
  set (s0 := s <| ready := r |>) in *.
  assert (Hd0 : tdone s0 tn = false) by exact Hd.
  assert (Hk0 : tcont_ (gett s0 tn) = TNew (interruptor_body b)) by exact Hk.
  assert (Hm0 : tmustc (gett s0 tn) = false) by exact Hm.
  unfold step_task. rewrite Hd0, Hm0, Hk0.
  fold (running_state s0 tn). fold s1.
  unfold interruptor_body. cbn [exec lib_call].
  destruct (interruptor 4 s1 b 0) as [s2 r2]. destruct (interruptor_wrap s2 r2) as [s3 r3].
  destruct r3 as [[v|e]|y frs]; reflexivity.
Qed.

(* C16_fires_in_first_iteration (list loop): block b still active when its interruptor's first
   step runs, the target interruptible (task_throw accepts).  Then that step throws the token, the
   target's new handle hn is at the head of the ready queue when the step has ended (the
   interruptor itself queued behind), and the next handle run resumes the target with the token *)
Theorem fires_first_step s hs l tn b s1' v :
  ready s = RList (hs :: l) -> geth s hs = mkH (HStep tn None) false ->
  tdone s tn = false -> tcont_ (gett s tn) = TNew (interruptor_body b) -> tmustc (gett s tn) = false ->
  bactive (getb s b) = true ->
  let t := btask (getb s b) in
  let tok := ETimeoutInt b in
  let hn := length (handles s) in
  let s1 := running_state (s <| ready := RList l |>) tn in
  tn <> t -> task_throw s1 t tok = (s1', RVal v) ->
  exists l',
    let sI := s1' <| ready := RList (hn :: l') |> in
    let sF := run_one s in
    interruptor 4 s1 b 0 = (sI, LSusp YNone [InSleep0; InIntr b 0 0]) /\
    sF = finish_step tn sI (OYield YNone [InSleep0; InIntr b 0 0] kI) <| current := None |> /\
    ready sF = RList (hn :: l' ++ [length (handles sI)]) /\
    geth sF hn = mkH (HStep t (Some tok)) false /\
    gett sF t = gett sI t /\ blocks sF = blocks sI /\
    run_one sF = step_task t (Some tok) (sF <| ready := RList (l' ++ [length (handles sI)]) |>).
Proof.
  intros R G Hd Hk Hm A t tok hn s1 Hne T.
  assert (R1 : ready s1 = RList l) by reflexivity.
  assert (A1 : bactive (getb s1 b) = true) by exact A.
  destruct (interruptor_fires 3 s1 b 0 l s1' v R1 A1 ltac:(lia) T) as (l' & Rl & Gh & Ei & _).
  exists l'. cbv zeta.
  change (length (handles s1)) with hn in Gh, Ei.
  split; [exact Ei|].
  assert (P : rq_popleft (ready s) = Some (hs, RList l)) by (rewrite R; reflexivity).
  pose proof (interruptor_first_step s hs (RList l) tn b P G Hd Hk Hm) as Es. cbv zeta in Es.
  fold s1 in Es. rewrite Ei in Es. cbn [interruptor_wrap] in Es.
  split; [exact Es|].
  set (sI := s1' <| ready := RList (hn :: l') |>) in *.
  assert (Hl : hn < length (handles sI)).
  { destruct (Nat.lt_ge_cases hn (length (handles sI))) as [Hl|Hl]; auto.
    change (geth s1' hn) with (geth sI hn) in Gh. unfold geth in Gh. rewrite nth_overflow in Gh by exact Hl.
    discriminate. }
  destruct (interruptor_yield_keeps_head sI tn t hn l' [InSleep0; InIntr b 0 0] kI eq_refl Hl Hne)
    as (Rf & Gf & _ & Gt & _ & Bf & _).
  rewrite <- Es in Rf, Gf, Gt, Bf.
  split; [exact Rf|]. split; [rewrite Gf; exact Gh|]. split; [exact Gt|]. split; [exact Bf|].
  eapply run_one_step; [rewrite Rf; reflexivity|]. rewrite Gf. exact Gh.
Qed.
