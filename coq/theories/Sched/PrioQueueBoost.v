(* C09/C15 on the priority loop with starvation boosting ENABLED (any boost factor, any draws):
   the PosPriorityQueue still meets QSpec.  do_maintenance only changes the boost field of some
   entries and re-heapifies, so the heap invariant of the array and the multiset of queued
   objects survive every update_counters. *)
From Coq Require Import QArith Sorting.Permutation.
From RecordUpdate Require Import RecordUpdate.
From Asynkit Require Import Base.Prelude Queue.ListFacts Queue.PQ Queue.Order Queue.Heap
     Queue.HeapqProofs Queue.PQProofs Queue.PosPQ Queue.PosProofs Queue.PosList
     Queue.Exec Sched.Model Sched.PartTables Sched.PartitionProofs Sched.PartitionSteps
     Sched.PartitionRun Sched.PartitionFinal Sched.PrioQueueProofs.
Import RecordSetNotations.
Open Scope nat_scope.

Notation Invv := (PQProofs.Inv HPV).

(* sequence number and object: what maintenance never touches *)
Definition sk (e : entry pv) : Z * Z := (eseq e, eobj e).

Lemma boost_loop_sk a : forall limit m f ds,
  map sk (fst (fst (boost_loop a limit m f ds))) = map sk a /\
  (snd (boost_loop a limit m f ds) = 0 -> fst (fst (boost_loop a limit m f ds)) = a).
Proof.
  induction a as [|e t IH]; intros limit m f ds; simpl; [auto|].
  destruct (_ || _ || _).
  - destruct (IH limit m f ds) as [I1 I2]. destruct (boost_loop t limit m f ds) as [[t' ds'] n].
    simpl in *. split; [rewrite I1; reflexivity | intros Hn; rewrite I2; auto].
  - destruct (negb _).
    + destruct (IH limit m f (tl ds)) as [I1 I2]. destruct (boost_loop t limit m f (tl ds)) as [[t' ds'] n].
      simpl in *. split; [rewrite I1; reflexivity | intros Hn; rewrite I2; auto].
    + destruct (IH limit m f (tl ds)) as [I1 I2]. destruct (boost_loop t limit m f (tl ds)) as [[t' ds'] n].
      simpl in *. split; [rewrite I1; reflexivity | discriminate].
Qed.

Lemma map_sk_fst (a : list (entry pv)) : map fst (map sk a) = map (@eseq pv) a.
Proof. rewrite map_map. reflexivity. Qed.
Lemma map_sk_snd (a : list (entry pv)) : map snd (map sk a) = map (@eobj pv) a.
Proof. rewrite map_map. reflexivity. Qed.

Lemma CInv_sk s a a' : map sk a' = map sk a -> CInv s a -> CInv s a'.
Proof.
  intros E (Hnd & Hall & Hs).
  assert (Es : map (@eseq pv) a' = map (@eseq pv) a).
  { rewrite <- (map_sk_fst a'), <- (map_sk_fst a), E. reflexivity. }
  repeat split; auto.
  - rewrite Es. exact Hnd.
  - apply Forall_forall. intros x Hx.
    assert (Hi : In (eseq x) (map (@eseq pv) a)) by (rewrite <- Es; apply in_map; auto).
    apply in_map_iff in Hi. destruct Hi as (y & Ey & Hy). rewrite Forall_forall in Hall.
    rewrite <- Ey. apply Hall. exact Hy.
Qed.

Lemma objs_sk (a a' : list (entry pv)) : map sk a' = map sk a -> map (@eobj pv) a' = map (@eobj pv) a.
Proof. intros E. rewrite <- (map_sk_snd a'), <- (map_sk_snd a), E. reflexivity. Qed.

Lemma do_maintenance_gen s :
  Invv (pq_ s) ->
  Invv (pq_ (do_maintenance HPV s)) /\
  Permutation (map (@eobj pv) (arr (pq_ (do_maintenance HPV s)))) (map (@eobj pv) (arr (pq_ s))).
Proof.
  intros Hi. unfold do_maintenance. destruct (Qeq_bool (factor s) 0); [auto|].
  destruct (find _ _) as [r|]; [|auto]. destruct (has_straggler _ _); [|auto].
  destruct (boost_loop_sk (arr (pq_ s)) (n_ins s - plen s)
              (minmax_loop (arr (pq_ s)) (pv_priority (epri r))) (factor s) (draws s)) as [E1 E2].
  destruct (boost_loop _ _ _ _ _) as [[a' ds'] n]. simpl in E1, E2. cbn [pq_ arr].
  destruct Hi as [Hh Hc]. destruct n as [|n].
  - rewrite (E2 eq_refl). split; [split; auto | reflexivity].
  - split.
    + split; cbn [arr seqn]; [apply (hs_heapify_heap HPV_spec)|].
      eapply CInv_perm; [apply Permutation_sym, (hs_heapify_perm HPV_spec)|].
      eapply CInv_sk; eauto.
    + eapply perm_trans; [apply Permutation_map, (hs_heapify_perm HPV_spec)|].
      rewrite (objs_sk _ _ E1). reflexivity.
Qed.

Lemma update_counters_gen s b :
  Invv (pq_ s) ->
  Invv (pq_ (update_counters HPV s b)) /\
  Permutation (map (@eobj pv) (arr (pq_ (update_counters HPV s b)))) (map (@eobj pv) (arr (pq_ s))).
Proof.
  intros Hi. unfold update_counters. destruct b.
  - destruct (_ <? _)%Z; [|auto]. cbn [pq_].
    apply (do_maintenance_gen (mkPos (pq_ s) (last_maint s) (n_ins s + 1) (n_rem s) (factor s) (draws s))).
    exact Hi.
  - destruct (0 <? plen s)%Z; auto.
Qed.

(* ---- the queue predicate: only the PriorityQueue invariant of the array ---- *)
Definition qok_boost (r : rq) : Prop :=
  match r with RPos p => Invv (pq_ p) | RList _ => False end.

Definition oitems (p : pos) : list nat := map Z.to_nat (map (@eobj pv) (arr (pq_ p))).

Lemma items_oitems p : Permutation (rq_items (RPos p)) (oitems p).
Proof.
  unfold oitems. rewrite map_map. simpl. apply Permutation_map, (stable_sort_perm HPV).
Qed.

Lemma oitems_perm p p' l :
  Permutation (map (@eobj pv) (arr (pq_ p'))) (map (@eobj pv) (arr (pq_ p)) ++ l) ->
  Permutation (oitems p') (oitems p ++ map Z.to_nat l).
Proof. intros Hp. unfold oitems. rewrite <- map_app. apply Permutation_map. exact Hp. Qed.

Lemma promote_gen k : forall s acc s1 pr ok,
  Invv (pq_ s) -> promote HPV k s acc = (s1, pr, ok) ->
  Invv (pq_ s1) /\
  Permutation (acc ++ map (@eobj pv) (arr (pq_ s))) (pr ++ map (@eobj pv) (arr (pq_ s1))).
Proof.
  induction k as [|k IH]; intros s acc s1 pr ok Hi E; cbn [promote] in E.
  - inversion E; subst. auto.
  - unfold pos_popleft in E. destruct (pq_popentry HPV (pq_ s)) as [[e q]|] eqn:Ep.
    + destruct (pop_inv HPV HPV_sw HPV_spec _ _ _ Hi Ep) as (Hi' & Hperm & _).
      destruct (update_counters_gen (with_pq s q) false Hi') as [Hi2 Hp2].
      destruct (IH _ _ _ _ _ Hi2 E) as [Hi1 Hp1]. split; auto.
      eapply perm_trans; [|exact Hp1]. rewrite <- app_assoc. apply Permutation_app_head.
      eapply perm_trans; [apply Permutation_map, Hperm|]. simpl. apply perm_skip.
      apply Permutation_sym. exact Hp2.
    + inversion E; subst. auto.
Qed.

Lemma fold_add_gen p os : forall q,
  Invv q ->
  Invv (fold_left (fun q o => pq_add HPV q p o) os q) /\
  Permutation (map (@eobj pv) (arr (fold_left (fun q o => pq_add HPV q p o) os q)))
              (os ++ map (@eobj pv) (arr q)).
Proof.
  induction os as [|o os IH]; intros q Hi; simpl; [auto|].
  destruct (IH (pq_add HPV q p o) (add_inv HPV HPV_spec q p o Hi)) as [I1 I2]. split; auto.
  eapply perm_trans; [exact I2|].
  eapply perm_trans; [apply Permutation_app_head, Permutation_map, (add_perm HPV HPV_spec)|].
  simpl. apply Permutation_sym, Permutation_middle.
Qed.

Theorem QSpec_boost : QSpec qok_boost.
Proof.
  constructor.
  - (* append *)
    intros [l|p] h pr Hq; [destruct Hq|]. simpl in Hq. cbn [rq_append qok_boost].
    unfold pos_append_pri.
    set (q1 := pq_add HPV (pq_ p) (mkPV pr (n_ins p) 0 1) (Z.of_nat h)).
    assert (Hi1 : Invv q1) by (apply (add_inv HPV HPV_spec); auto).
    destruct (update_counters_gen (with_pq p q1) true Hi1) as [Hi2 Hp2]. split; [exact Hi2|].
    eapply perm_trans; [apply items_oitems|].
    eapply perm_trans; [|apply perm_skip, Permutation_sym, items_oitems].
    unfold oitems. eapply perm_trans; [apply Permutation_map, Hp2|]. cbn [with_pq pq_].
    eapply perm_trans; [apply Permutation_map, Permutation_map, (add_perm HPV HPV_spec)|].
    simpl. rewrite Nat2Z.id. reflexivity.
  - (* popleft *)
    intros [l|p] h r' Hq E; [destruct Hq|]. simpl in Hq. cbn [rq_popleft] in E.
    unfold pos_popleft in E. destruct (pq_popentry HPV (pq_ p)) as [[e q]|] eqn:Ep; [|discriminate].
    inversion E; subst h r'; clear E.
    destruct (pop_inv HPV HPV_sw HPV_spec _ _ _ Hq Ep) as (Hi' & Hperm & _).
    destruct (update_counters_gen (with_pq p q) false Hi') as [Hi2 Hp2]. split; [exact Hi2|].
    eapply perm_trans; [apply items_oitems|].
    eapply perm_trans; [|apply perm_skip, Permutation_sym, items_oitems].
    unfold oitems. eapply perm_trans; [apply Permutation_map, Permutation_map, Hperm|]. simpl.
    apply perm_skip. apply Permutation_map, Permutation_sym. exact Hp2.
  - (* find with remove *)
    intros [l|p] key h r' Hq E; [destruct Hq|]. simpl in Hq. cbn [rq_find] in E.
    unfold pos_find in E.
    destruct (pq_find HPV (pq_ p) _ true) as [[e q]|] eqn:Eq; [|discriminate].
    inversion E; subst h r'; clear E.
    destruct (find_inv HPV HPV_spec _ _ _ _ _ Hq Eq) as (Hi' & Hk & _ & Hperm).
    split; [exact Hi'|]. split; [exact Hk|].
    eapply perm_trans; [apply items_oitems|].
    eapply perm_trans; [|apply perm_skip, Permutation_sym, items_oitems].
    unfold oitems. eapply perm_trans; [apply Permutation_map, Permutation_map, Hperm|]. reflexivity.
  - (* find: nothing found *)
    intros [l|p] key Hq E h Hh; [destruct Hq|]. simpl in Hq. cbn [rq_find] in E.
    unfold pos_find in E.
    destruct (pq_find HPV (pq_ p) _ true) as [[e q]|] eqn:Eq; [discriminate|].
    destruct (find_last_index (fun o => key (Z.to_nat o)) (arr (pq_ p))) as [i|] eqn:Hfi.
    + destruct (find_some HPV HPV_spec (pq_ p) _ i Hq Hfi) as (_ & a' & E1 & _). congruence.
    + apply (Permutation_in _ (items_oitems p)) in Hh. unfold oitems in Hh. rewrite map_map in Hh.
      apply in_map_iff in Hh. destruct Hh as (x & <- & Hx). apply (find_last_index_none _ _ Hfi x Hx).
  - (* remove *)
    intros [l|p] h r' Hq E; [destruct Hq|]. simpl in Hq. cbn [rq_remove] in E.
    unfold pos_remove in E.
    destruct (pq_remove HPV (pq_ p) (Z.of_nat h)) as [[pr q]|] eqn:Eq; [|discriminate].
    inversion E; subst r'; clear E.
    destruct (remove_inv HPV HPV_sw HPV_spec _ _ _ _ Hq Eq) as (Hi' & e & He & _ & Hperm).
    destruct (update_counters_gen (with_pq p q) false Hi') as [Hi2 Hp2]. split; [exact Hi2|].
    eapply perm_trans; [apply items_oitems|].
    eapply perm_trans; [|apply perm_skip, Permutation_sym, items_oitems].
    unfold oitems. eapply perm_trans; [apply Permutation_map, Permutation_map, Hperm|]. simpl.
    rewrite He, Nat2Z.id. apply perm_skip. apply Permutation_map, Permutation_sym. exact Hp2.
  - (* insert at a position *)
    intros [l|p] k h Hq; [destruct Hq|]. simpl in Hq. cbn [rq_insert_pos qok_boost].
    unfold pos_insert. destruct (promote HPV k p []) as [[s1 pr] ok] eqn:Epm.
    destruct (promote_gen k p [] s1 pr ok Hq Epm) as [Hi1 Hp1]. simpl in Hp1.
    match goal with |- context [fold_left ?f ?os ?q0] =>
      destruct (fold_add_gen (mkPV (if ok then match pq_peek (pq_ s1) with
                                                | Some h0 => if (pclass (epri h0) =? 0)%Z then base (epri h0) - 1 else 0
                                                | None => 0 end else 0)%Q (n_ins s1) 0 0)
                             os q0 Hi1) as [Hi2 Hp2] end.
    match goal with |- context [update_counters HPV ?x true] =>
      destruct (update_counters_gen x true Hi2) as [Hi3 Hp3] end.
    split; [exact Hi3|].
    eapply perm_trans; [apply items_oitems|].
    eapply perm_trans; [|apply perm_skip, Permutation_sym, items_oitems].
    unfold oitems. eapply perm_trans; [apply Permutation_map, Hp3|]. cbn [with_pq pq_].
    eapply perm_trans; [apply Permutation_map, Hp2|].
    eapply perm_trans; [|apply perm_skip, Permutation_map, Permutation_sym, Hp1].
    rewrite <- !app_assoc, !map_app. simpl. rewrite Nat2Z.id.
    apply Permutation_sym, Permutation_middle.
  - (* reschedule *)
    intros [l|p] key pr Hq; [destruct Hq|]. simpl in Hq. cbn [rq_reschedule].
    unfold pos_reschedule.
    destruct (pq_find HPV (pq_ p) _ false) as [[e q]|]; [|split; [exact Hq | reflexivity]].
    destruct (pclass (epri e) =? 0)%Z; [split; [exact Hq | reflexivity]|].
    unfold pos_reschedule_reg.
    destruct (pq_reschedule HPV (pq_ p) _ _) as [[o' q']|] eqn:Er; [|split; [exact Hq | reflexivity]].
    destruct (resched_inv HPV HPV_spec _ _ _ _ _ Hq Er) as (Hi' & _ & e0 & r & _ & Ho & Hp & Hcase).
    split; [exact Hi'|].
    eapply perm_trans; [apply items_oitems|].
    eapply perm_trans; [|apply Permutation_sym, items_oitems].
    unfold oitems. cbn [with_pq pq_]. apply Permutation_map.
    destruct Hcase as [->|[Hp' _]]; [reflexivity|].
    eapply perm_trans; [apply Permutation_map, Hp'|].
    eapply perm_trans; [|apply Permutation_map, Permutation_sym, Hp]. simpl. rewrite Ho. reflexivity.
  - (* iteration *)
    intros p Hq. simpl in Hq. unfold pos_iter. cbn [snd qok_boost with_pq pq_]. split.
    + apply (abs_inv HPV HPV_sw); auto.
    + eapply perm_trans; [apply items_oitems|].
      eapply perm_trans; [|apply Permutation_sym, items_oitems].
      unfold oitems. cbn [pq_ pq_sort arr]. apply Permutation_map, Permutation_map, (stable_sort_perm HPV).
Qed.

(* Inv09 in every reachable state of the priority loop, whatever the boost factor and the draws *)
Theorem Inv09_prio_boost factor draws lks cds nev l :
  let s0 := init_st true factor draws lks cds nev in
  actions_ok s0 l -> Inv09 qok_boost (fold_left do_action l s0).
Proof.
  intros s0 Hl. apply (Inv09_run qok_boost QSpec_boost); auto.
  apply (Inv09_init qok_boost). simpl. apply Inv_empty.
Qed.
