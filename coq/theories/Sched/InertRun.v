(* Finished tasks are inert: the end of a step, Task.__step, run_one, timers, every environment
   action and every run.  Main theorems: inert_action, inert_run, NDH_of_inert, inert_reach. *)
From Coq Require Import QArith Sorting.Permutation.
From RecordUpdate Require Import RecordUpdate.
From Asynkit Require Import Base.Prelude Queue.ListFacts Queue.PQ Queue.Order Queue.PQProofs Queue.PosPQ Queue.Exec
     Queue.HeapqProofs Sched.Model Sched.PartTables Sched.PartitionProofs Sched.PartitionSteps
     Sched.PartitionRun Sched.ThrowProofs Sched.QFacts Sched.InterruptNext
     Sched.InertBase Sched.InertOps Sched.InertLib.
Import RecordSetNotations.
Open Scope nat_scope.

(* ------------------------------------------------------------ nec at the level of steps and runs *)
Definition step_nec (t : nat) (exc : option exn) (s : st) : Prop :=
  if tdone s t then True else
  let tk := gett s t in
  let exc := if tmustc tk
             then match exc with
                  | Some e => if is_cancel e then Some e else Some ECancelled
                  | None => Some ECancelled end
             else exc in
  let cont := tcont_ tk in
  let s := sett s t (tk <| tmustc := false |> <| twaiter := None |> <| tcont_ := TRun |>) in
  let s := s <| current := Some t |> in
  let inp := match exc with None => RVal 0 | Some e => RExc e end in
  match cont with
  | TNew c => match exc with Some _ => True | None => exec_nec t c s end
  | TSusp frs k =>
      let '(s, r) := resume_stack t frs inp s in
      match r with LDone rep => exec_nec t (k rep) s | LSusp _ _ => True end
  | TEager y frs k =>
      match exc with
      | None => True
      | Some _ =>
          let '(s, r) := resume_stack t frs inp s in
          match r with LDone rep => exec_nec t (k rep) s | LSusp _ _ => True end
      end
  | TRun | TFin => True
  end.

Definition wakeup_nec (t f : nat) (s : st) : Prop :=
  match fstate_ (getf s f) with
  | FResult _ => step_nec t None s
  | FExc e => step_nec t (Some e) s
  | FCancelled => let '(s', r) := fut_result s f in
                  step_nec t (match r with RExc e => Some e | RVal _ => None end) s'
  | FPending => step_nec t (Some EInvalidState) s
  end.

Definition callback_nec (c : callback) (s : st) : Prop :=
  match c with
  | HStep t e => step_nec t e s
  | HWakeup t f => wakeup_nec t f s
  | _ => True
  end.

Definition run_one_nec (s : st) : Prop :=
  match rq_popleft (ready s) with
  | None => True
  | Some (h, r) =>
      let s := s <| ready := r |> in
      let hd := geth s h in
      if hcancelled hd then True else callback_nec (hcb hd) s
  end.

(* no action of the run - and no library call of any step it runs - resolves, fails or
   cancels-as-a-future the future that belongs to a task *)
Definition action_nec (s : st) (a : action) : Prop :=
  match a with
  | AStep => run_one_nec s
  | ADo op => op_nec s op
  | _ => True
  end.

Fixpoint nec (s : st) (acts : list action) : Prop :=
  match acts with
  | [] => True
  | a :: rest => action_nec s a /\ nec (do_action s a) rest
  end.

Section Run.
Variable qok : rq -> Prop.
Hypothesis QS : QSpec qok.
Notation WF := (WF qok).
Notation InvC := (InvC qok).
Notation K := (K qok).
Notation KX := (KX qok).

Lemma XI_uncur c s : XI c s -> XI None s.
Proof. intros [D A O L PL C PC E H]. constructor; auto. discriminate. Qed.

Lemma XI_cur t s : XI None s -> tdone s t = false -> XI (Some t) s.
Proof. intros [D A O L PL C PC E H] Hd. constructor; auto. intros t' Hq. inversion Hq; subst; auto. Qed.

Lemma KX_sett c s0 s t x :
  tfut x = tfut (gett s t) -> twaiter x = twaiter (gett s t) -> tcont_ok s (tcont_ x) ->
  KX c s0 s -> KX c s0 (sett s t x).
Proof. intros A B C [HK X]. split; [apply K_sett; auto|apply XI_sett; auto]. Qed.

(* ------------------------------------------------------------ the end of a step *)
(* the task completes its own future *)
Lemma XI_finish_own t sA f x :
  InvC (Some t) sA -> XI (Some t) sA -> x <> FPending -> f = tfut (gett sA t) ->
  XI None (fst (fut_finish sA f x)).
Proof.
  intros I X Hx ->. pose proof (i_cur I t eq_refl) as Ht.
  pose proof (x_alive X t eq_refl) as Hd. destruct (x_ow X t Ht) as [Hf _].
  set (f := tfut (gett sA t)) in *.
  assert (Es : fstate_ (getf sA f) = FPending) by (apply fdone_pending; exact Hd).
  destruct (fut_finish sA f x) as [s' ok] eqn:E. cbn [fst].
  destruct (fut_finish_obs qok QS sA f x s' ok (i_wf I) Hx E Es Hf) as (W & E' & T & Hh & Hdn & Hc).
  pose proof (fut_finish_tabs sA f x) as FT. rewrite E in FT. cbn [fst] in FT.
  destruct FT as (L & C & Ev & Fx & Hq).
  assert (Eg : forall t', gett s' t' = gett sA t') by (intros; unfold gett; rewrite T; auto).
  destruct (InvC_cur_quiet qok t sA I Hd) as (Q1 & Q2 & Q3).
  assert (Pf : fdone sA f = false) by exact Hd.
  constructor.
  - rewrite T. intros t' Ht' Hd'. destruct (Nat.eq_dec t' t) as [->|Hn].
    + split; [rewrite Hh, Q1, Q2; auto|].
      intros g Hg. rewrite Hdn in Hg. apply orb_false_elim in Hg. destruct Hg as [Hg1 Hg2].
      apply Nat.eqb_neq in Hg1. rewrite Hc; auto.
    + assert (Hnf : tfut (gett sA t') <> f).
      { intros Eq. apply Hn. eapply tfut_inj; eauto. }
      unfold tdone in Hd'. rewrite Eg, Hdn in Hd'. apply Nat.eqb_neq in Hnf. rewrite Hnf in Hd'. simpl in Hd'.
      destruct (x_dead X t' Ht' Hd') as [D1 D2]. split; [rewrite Hh, D1, D2; auto|].
      intros g Hg. rewrite Hdn in Hg. apply orb_false_elim in Hg. destruct Hg as [Hg1 Hg2].
      apply Nat.eqb_neq in Hg1. rewrite Hc; auto.
  - discriminate.
  - rewrite T. intros t' Ht'. rewrite Eg. destruct (x_ow X t' Ht') as [O1 O2]. destruct Fx as [F1 F2].
    split; [lia|]. rewrite F2; auto.
  - unfold getl. rewrite L. intros l g Hg. eapply ntf_fext; [exact Fx|]. eapply (x_ql X); eauto.
  - unfold getl. rewrite L. apply (x_pl X).
  - unfold getc. rewrite C. intros k g Hg. eapply ntf_fext; [exact Fx|]. eapply (x_qc X); eauto.
  - unfold getc. rewrite C. apply (x_pc X).
  - unfold gete. rewrite Ev. intros e g Hg. eapply ntf_fext; [exact Fx|]. eapply (x_qe X); eauto.
  - intros h g v H. destruct (Hq h g v H) as [h' H']. eapply ntf_fext; [exact Fx|]. eapply (x_qh X); eauto.
Qed.

(* the step ends by re-scheduling the task itself *)
Lemma XI_finish_resched t s frs k hc :
  InvC (Some t) s -> XI (Some t) s -> task_of_cb hc = Some t -> (forall f v, hc <> HSetResult f v) ->
  Forall (frame_ok s) frs -> kont_ok (length (blocks s)) k ->
  XI None (call_soon_ (sett s t (gett s t <| tcont_ := TSusp frs k |>)) hc).
Proof.
  intros I X Hhc Hns Hf Hk. pose proof (i_cur I t eq_refl) as Ht.
  assert (HK1 : KX (Some t) s (sett s t (gett s t <| tcont_ := TSusp frs k |>))).
  { apply KX_sett; try reflexivity; [split; auto|apply KX_refl; auto]. }
  apply (XI_uncur (Some t)). apply (XI_call_soon qok QS); [apply HK1| |exact Hns|apply HK1].
  intros t' B. unfold cb_key in B. rewrite Hhc in B. apply Nat.eqb_eq in B. subst t'.
  split; [rewrite length_tasks_sett; exact Ht|]. apply (x_alive (KX_x _ _ _ _ HK1) t eq_refl).
Qed.

(* registering the wake-up callback of a live task *)
Lemma XI_add_cb c s f t :
  t < length (tasks s) -> tdone s t = false -> XI c s ->
  XI c (setf s f (getf s f <| fcbs := fcbs (getf s f) ++ [CbWakeup t] |>)).
Proof.
  intros Ht Hd X. eapply XI_obs_t; [exact X|..]; try (intros; reflexivity).
  - intros g. unfold fdone. rewrite getf_setf. destruct (_ && _) eqn:B; auto.
    apply andb_prop in B. destruct B as [B _]. apply Nat.eqb_eq in B. subst. reflexivity.
  - intros t' g _ Hd' _. unfold ccnt. rewrite getf_setf. destruct (_ && _) eqn:B; auto.
    apply andb_prop in B. destruct B as [B _]. apply Nat.eqb_eq in B. subst g.
    change (fcbs (getf s f <| fcbs := fcbs (getf s f) ++ [CbWakeup t] |>))
      with (fcbs (getf s f) ++ [CbWakeup t]).
    rewrite cnt_app, cnt_cons, cnt_nil. unfold is_wakeup at 2. cbn [cb_eqb].
    destruct (Nat.eqb_spec t t') as [->|Hn]; [congruence|lia].
  - split; [rewrite length_futs_setf; lia|]. intros g _. apply fowner_setf_same. reflexivity.
  - intros h g v H. left; eauto.
Qed.

Lemma tail_cancel_KX t s f :
  InvC None s -> XI None s ->
  XI None (if tmustc (gett s t)
           then let '(s', ok) := cancel_awaitable s f in
                if ok then sett s' t (gett s' t <| tmustc := false |>) else s'
           else s).
Proof.
  intros I X. pose proof (KX_refl qok None s I X) as HK. destruct (tmustc (gett s t)); auto.
  destruct (cancel_awaitable s f) as [s' ok] eqn:C.
  pose proof (KX_cancel_awaitable qok QS _ _ _ _ _ _ C HK) as HK1. destruct ok; [|apply HK1].
  assert (HK2 : KX None s (sett s' t (gett s' t <| tmustc := false |>))) by xgo. apply HK2.
Qed.

(* the state in which a task that yielded a future is parked (before the tail that cancels the
   awaited object when _must_cancel is set): InvC None - copied from PartitionSteps.finish_step_inv,
   whose proof establishes it inline *)
Lemma finish_wait_inv t s f frs k :
  InvC (Some t) s -> Forall (frame_ok s) frs -> kont_ok (length (blocks s)) k ->
  let s1 := sett s t (gett s t <| tcont_ := TSusp frs k |>) in
  fblock (getf s1 f) = true ->
  let s2 := setf s1 f (getf s1 f <| fblock := false |>) in
  let s3 := add_done_callback s2 f (CbWakeup t) in
  InvC None (sett s3 t (gett s3 t <| twaiter := Some f |>)).
Proof.
  intros I Hf Hk s1 Fb s2 s3. pose proof (i_cur I t eq_refl) as Ht.
  pose proof (K_refl qok (Some t) s I) as HK.
  assert (HK1 : K (Some t) s s1) by (unfold s1; apply K_sett; auto; split; auto).
  assert (Hfr : f < length (futs s)).
  { destruct (Nat.lt_ge_cases f (length (futs s))); auto.
    change (fblock (getf s f) = true) in Fb. rewrite getf_oob in Fb by auto. discriminate. }
  assert (HK2 : K (Some t) s s2) by (unfold s2; kgo).
  destruct HK2 as [I2 _].
  assert (Ht2 : t < length (tasks s2)) by (unfold s2, s1; change (t < length (tasks (sett s t (gett s t <| tcont_ := TSusp frs k |>)))); rewrite length_tasks_sett; auto).
  assert (Q2 : tdone s2 t = false -> quiet s2 t) by (apply (InvC_cur_quiet qok); auto).
  unfold s3, add_done_callback. destruct (fdone s2 f) eqn:Fd.
  + (* already done: a wakeup handle *)
    destruct (call_soon_facts qok QS s2 (HWakeup t f) (i_wf I2)) as (W3 & E3 & Eh3 & Hc3).
    set (s3' := call_soon_ s2 (HWakeup t f)) in *.
    set (s4 := sett s3' t (gett s3' t <| twaiter := Some f |>)).
    assert (W4 : WF s4).
    { eapply WF_obs; [exact W3|..]; try reflexivity; auto.
      - apply W3.
      - apply length_tasks_sett.
      - intros t' Ht'. unfold s4. rewrite gett_sett. destruct (_ && _) eqn:B; auto.
        apply andb_prop in B. destruct B as [B _]. apply Nat.eqb_eq in B. subst. reflexivity.
      - intros t' Ht'. unfold s4. rewrite gett_sett. destruct (_ && _) eqn:B; [|apply W3; auto].
        apply andb_prop in B. destruct B as [B _]. apply Nat.eqb_eq in B. subst.
        apply (i_frm W3); auto. }
    apply (InvC_obs_but qok (Some t) None s2 s4 t I2 W4).
    * unfold s4. rewrite length_tasks_sett. reflexivity.
    * discriminate.
    * intros t' Hn. rewrite is_cur_some_other; auto.
    * intros t' Hn. change (hcnt s4 t') with (hcnt s3' t'). rewrite Hc3. unfold cb_key. simpl.
      destruct (Nat.eqb_spec t' t); [congruence|lia].
    * reflexivity.
    * reflexivity.
    * intros t' Hn Ht'. unfold s4. rewrite gett_sett_other by auto. split; reflexivity.
    * intros _ Hd.
      assert (Hd2 : tdone s2 t = false).
      { unfold tdone in *. unfold s4 in Hd. rewrite gett_sett_same in Hd by exact Ht2. exact Hd. }
      destruct (Q2 Hd2) as (A1 & A2 & A3). change (RB s4 t).
      assert (Eb : bo s4 t = None).
      { unfold bo. unfold s4 at 1. rewrite gett_sett_same by exact Ht2.
        change (twaiter (gett s3' t <| twaiter := Some f |>)) with (Some f). cbv beta iota.
        change (fdone s4 f) with (fdone s2 f). rewrite Fd. reflexivity. }
      unfold RB. rewrite Eb. split.
      { change (hcnt s4 t) with (hcnt s3' t). rewrite Hc3, A1. unfold cb_key. simpl.
        rewrite Nat.eqb_refl. reflexivity. }
      { intros g Hg. apply (A2 g Hg). }
    * intros Hle. lia.
  + (* pending: register the wakeup callback *)
    assert (Hf2 : f < length (futs s2)).
    { unfold s2. rewrite length_futs_setf. unfold s1. exact Hfr. }
    set (s3' := setf s2 f (getf s2 f <| fcbs := fcbs (getf s2 f) ++ [CbWakeup t] |>)).
    set (s4 := sett s3' t (gett s3' t <| twaiter := Some f |>)).
    assert (Fs : forall g, fdone s4 g = fdone s2 g).
    { intros g. change (fdone s4 g) with (fdone s3' g). unfold fdone, s3'. rewrite getf_setf.
      destruct (_ && _) eqn:B; auto. apply andb_prop in B. destruct B as [B _].
      apply Nat.eqb_eq in B. subst. reflexivity. }
    assert (Cs : forall t' g, ccnt s4 t' g = ccnt s2 t' g +
                               (if Nat.eqb g f && Nat.eqb t' t then 1 else 0)).
    { intros t' g. change (ccnt s4 t' g) with (ccnt s3' t' g). unfold ccnt, s3'.
      destruct (Nat.eq_dec g f) as [->|Hn].
      - rewrite getf_setf_same by exact Hf2.
        change (fcbs (getf s2 f <| fcbs := fcbs (getf s2 f) ++ [CbWakeup t] |>))
          with (fcbs (getf s2 f) ++ [CbWakeup t]).
        rewrite cnt_app, cnt_cons, cnt_nil, Nat.eqb_refl.
        unfold is_wakeup at 2. cbn [cb_eqb andb]. rewrite (Nat.eqb_sym t t'). lia.
      - rewrite getf_setf_other by auto. destruct (Nat.eqb_spec g f); [congruence|].
        cbn [andb]. lia. }
    assert (W4 : WF s4).
    { eapply WF_obs; [exact (i_wf I2)|..]; try reflexivity; auto.
      - apply (i_wf I2).
      - unfold s4. rewrite length_tasks_sett. reflexivity.
      - unfold s4, s3'. change (length (futs s2) <= length (futs (setf s2 f (getf s2 f <| fcbs := fcbs (getf s2 f) ++ [CbWakeup t] |>)))).
        rewrite length_futs_setf. lia.
      - intros t' Ht'. unfold s4. rewrite gett_sett. destruct (_ && _) eqn:B; auto.
        apply andb_prop in B. destruct B as [B _]. apply Nat.eqb_eq in B. subst. reflexivity.
      - intros t' Ht'. unfold s4. rewrite gett_sett. destruct (_ && _) eqn:B;
          [|apply (i_frm (i_wf I2)); auto].
        apply andb_prop in B. destruct B as [B _]. apply Nat.eqb_eq in B. subst.
        apply (i_frm (i_wf I2)); auto. }
    apply (InvC_obs_but qok (Some t) None s2 s4 t I2 W4).
    * unfold s4. rewrite length_tasks_sett. reflexivity.
    * discriminate.
    * intros t' Hn. rewrite is_cur_some_other; auto.
    * reflexivity.
    * exact Fs.
    * intros t' g Hn Hg. rewrite Cs. destruct (Nat.eqb_spec t' t); [congruence|].
      rewrite andb_false_r. lia.
    * intros t' Hn Ht'. unfold s4. rewrite gett_sett_other by auto. split; reflexivity.
    * intros _ Hd.
      assert (Ht3 : t < length (tasks s3')) by exact Ht2.
      assert (Hd2 : tdone s2 t = false).
      { unfold tdone in *. unfold s4 in Hd. rewrite gett_sett_same in Hd by exact Ht3.
        rewrite <- Fs. exact Hd. }
      destruct (Q2 Hd2) as (A1 & A2 & A3). change (RB s4 t).
      assert (Eb : bo s4 t = Some f).
      { unfold bo. unfold s4 at 1. rewrite gett_sett_same by exact Ht3.
        change (twaiter (gett s3' t <| twaiter := Some f |>)) with (Some f). cbv beta iota.
        rewrite Fs, Fd. reflexivity. }
      unfold RB. rewrite Eb. split; [exact A1|].
      intros g Hg. rewrite Fs in Hg. rewrite Cs, (A2 g Hg), Nat.eqb_refl, andb_true_r.
      rewrite (Nat.eqb_sym f g). destruct (g =? f); reflexivity.
    * intros Hle. lia.
Qed.

Lemma finish_step_XI t s o :
  InvC (Some t) s -> outcome_ok s o -> XI (Some t) s -> XI None (finish_step t s o).
Proof.
  intros I Ho X. pose proof (i_cur I t eq_refl) as Ht. pose proof (KX_refl qok (Some t) s I X) as HK.
  assert (Done : forall sA x, KX (Some t) s sA -> tfut (gett sA t) = tfut (gett s t) -> x <> FPending ->
                              XI None (fst (fut_finish sA (tfut (gett s t)) x))).
  { intros sA x HKA Etf Hx. apply (XI_finish_own t); auto; [apply HKA|apply HKA]. }
  unfold finish_step. destruct o as [[v|e]|[|f] frs k].
  - (* return *)
    destruct (tmustc (gett s t)).
    + apply Done; try discriminate.
      * xgo. apply KX_sett; auto; exact Logic.I.
      * rewrite gett_sett_same by (rewrite length_tasks_sett; auto).
        change (tfut (gett (sett s t (gett s t <| tcont_ := TFin |>)) t) = tfut (gett s t)).
        rewrite gett_sett_same by auto. reflexivity.
    + apply Done; try discriminate.
      * apply KX_sett; auto; exact Logic.I.
      * rewrite gett_sett_same by auto. reflexivity.
  - (* raise *)
    destruct (is_cancel e).
    + apply Done; try discriminate.
      * xgo. apply KX_sett; auto; exact Logic.I.
      * change (tfut (gett (sett s t (gett s t <| tcont_ := TFin |>)) t) = tfut (gett s t)).
        rewrite gett_sett_same by auto. reflexivity.
    + apply Done; try discriminate.
      * apply KX_sett; auto; exact Logic.I.
      * rewrite gett_sett_same by auto. reflexivity.
  - (* bare yield *) destruct Ho. apply XI_finish_resched; auto. intros; discriminate.
  - (* yielded a future *)
    destruct Ho as [Hf Hk].
    set (s1 := sett s t (gett s t <| tcont_ := TSusp frs k |>)).
    destruct (fblock (getf s1 f)) eqn:Fb; [|apply XI_finish_resched; auto; intros; discriminate].
    destruct (f =? tfut (gett s t)); [apply XI_finish_resched; auto; intros; discriminate|].
    pose proof (finish_wait_inv t s f frs k I Hf Hk Fb) as I4. cbv zeta in I4. fold s1 in I4.
    set (s2 := setf s1 f (getf s1 f <| fblock := false |>)) in *.
    assert (HK2 : KX (Some t) s s2).
    { unfold s2. apply KX_setf; try reflexivity. unfold s1. apply KX_sett; try reflexivity; [split; auto|exact HK]. }
    assert (Ht2 : t < length (tasks s2)).
    { unfold s2, s1. change (t < length (tasks (sett s t (gett s t <| tcont_ := TSusp frs k |>)))).
      rewrite length_tasks_sett; auto. }
    pose proof (x_alive (KX_x _ _ _ _ HK2) t eq_refl) as Hd2.
    apply tail_cancel_KX; [exact I4|].
    apply XI_sett; [reflexivity|]. apply (XI_uncur (Some t)).
    unfold add_done_callback. destruct (fdone s2 f) eqn:Fd.
    + apply (XI_call_soon qok QS); [apply HK2| |intros; discriminate|apply HK2].
      intros t' B. unfold cb_key in B. simpl in B. apply Nat.eqb_eq in B. subst t'. split; auto.
    + apply XI_add_cb; auto. apply HK2.
Qed.

(* ------------------------------------------------------------ Task.__step *)
Lemma step_task_XI t exc s :
  InvC (Some t) s -> current s = None -> XI None s -> step_nec t exc s ->
  XI None (step_task t exc s).
Proof.
  intros I Hcur X Hn. pose proof (i_cur I t eq_refl) as Ht. unfold step_task. unfold step_nec in Hn.
  destruct (tdone s t) eqn:Hd.
  { eapply XI_same; [..|exact X]; reflexivity. }
  cbv zeta in Hn.
  set (exc' := if tmustc (gett s t) then _ else exc) in *.
  set (x := gett s t <| tmustc := false |> <| twaiter := None |> <| tcont_ := TRun |>) in *.
  set (s2 := sett s t x <| current := Some t |>) in *.
  assert (I2 : InvC (Some t) s2).
  { eapply InvC_same; [..|apply (step_start qok t s x I); reflexivity]; reflexivity. }
  assert (X2 : XI (Some t) s2).
  { eapply XI_same; [..|apply (XI_sett (Some t) s t x eq_refl (XI_cur t s X Hd))]; reflexivity. }
  pose proof (i_frm (i_wf I) t Ht) as Hk.
  assert (Hk2 : tcont_ok s2 (tcont_ (gett s t))).
  { eapply tcont_ok_eq; [| |exact Hk]; reflexivity. }
  set (inp := match exc' with None => RVal 0 | Some e => RExc e end) in *.
  assert (Resume : forall frs k s3 o,
    Forall (frame_ok s2) frs -> kont_ok (length (blocks s2)) k ->
    (let '(s, r) := resume_stack t frs inp s2 in
     match r with LDone rep => exec t (k rep) s | LSusp y frs' => (s, OYield y frs' k) end) = (s3, o) ->
    (let '(s, r) := resume_stack t frs inp s2 in
     match r with LDone rep => exec_nec t (k rep) s | LSusp _ _ => True end) ->
    InvC (Some t) s3 /\ outcome_ok s3 o /\ XI (Some t) s3).
  { intros frs k s3 o Hf Hko E N. destruct (resume_stack t frs inp s2) as [sa r] eqn:R.
    destruct (resume_stack_K qok QS (Some t) t frs inp s2 sa r R Hf I2) as [HKa Hl].
    pose proof (resume_stack_KX qok QS (Some t) t frs inp s2 sa r R Hf I2 X2) as HXa.
    pose proof (e_blen (proj2 HKa)) as Hb.
    destruct r as [rep|y frs'].
    - destruct (exec_K qok QS (Some t) t (k rep) sa s3 o E) as [HKb Ho].
      + apply Hko. exact Hb.
      + apply HKa.
      + split; [apply HKb|]. split; [exact Ho|].
        eapply (exec_KX qok QS (Some t) t (k rep) sa s3 o E); [apply Hko; exact Hb|exact N|apply HKa|apply HXa].
    - inversion E; subst. split; [apply HKa|]. split; [|apply HXa].
      split; [exact Hl|]. eapply kont_ok_mono; eauto. }
  assert (Body : forall s3 o,
    match tcont_ (gett s t) with
    | TNew c => match exc' with Some e => (s2, ODone (RExc e)) | None => exec t c s2 end
    | TSusp frs k =>
        let '(s, r) := resume_stack t frs inp s2 in
        match r with LDone rep => exec t (k rep) s | LSusp y frs' => (s, OYield y frs' k) end
    | TEager y frs k =>
        match exc' with
        | None => (match y with YFut f => setf s2 f (getf s2 f <| fblock := true |>) | YNone => s2 end,
                   OYield y frs k)
        | Some _ =>
            let '(s, r) := resume_stack t frs inp s2 in
            match r with LDone rep => exec t (k rep) s | LSusp y' frs' => (s, OYield y' frs' k) end
        end
    | TRun | TFin => (s2, ODone (RExc EInvalidState))
    end = (s3, o) ->
    match tcont_ (gett s t) with
    | TNew c => match exc' with Some _ => True | None => exec_nec t c s2 end
    | TSusp frs k =>
        let '(s, r) := resume_stack t frs inp s2 in
        match r with LDone rep => exec_nec t (k rep) s | LSusp _ _ => True end
    | TEager y frs k =>
        match exc' with
        | None => True
        | Some _ =>
            let '(s, r) := resume_stack t frs inp s2 in
            match r with LDone rep => exec_nec t (k rep) s | LSusp _ _ => True end
        end
    | TRun | TFin => True
    end -> InvC (Some t) s3 /\ outcome_ok s3 o /\ XI (Some t) s3).
  { intros s3 o E N. destruct (tcont_ (gett s t)) as [c0|frs k|y frs k| |].
    - destruct exc'; [inversion E; subst; split; [auto|split; [exact Logic.I|auto]]|].
      destruct (exec_K qok QS (Some t) t c0 s2 s3 o E Hk2 I2) as [HKb Ho]. split; [apply HKb|].
      split; [exact Ho|]. apply (exec_KX qok QS (Some t) t c0 s2 s3 o E Hk2 N I2 X2).
    - destruct Hk2. eapply Resume; eauto.
    - destruct Hk2 as [Hf Hko]. destruct exc'; [eapply Resume; eauto|].
      inversion E; subst. destruct y as [|f].
      + split; [auto|]. split; [split; auto|auto].
      + assert (HK3 : KX (Some t) s2 (setf s2 f (getf s2 f <| fblock := true |>))).
        { apply KX_setf; try reflexivity. apply KX_refl; auto. }
        split; [apply HK3|]. split; [|apply HK3].
        split; [eapply frames_ok_ext; [apply HK3|exact Hf]|exact Hko].
    - inversion E; subst. split; [auto|split; [exact Logic.I|auto]].
    - inversion E; subst. split; [auto|split; [exact Logic.I|auto]]. }
  match goal with |- context [match ?m with _ => _ end] =>
    lazymatch type of m with prod st outcome =>
      pose proof (Body (fst m) (snd m) (surjective_pairing m) Hn) as B3; clear Body Resume;
      destruct m as [s3 o] end end.
  destruct B3 as (I3 & Ho & X3). simpl in I3, Ho, X3.
  eapply XI_same; [..|apply (finish_step_XI t s3 o I3 Ho X3)]; reflexivity.
Qed.


(* ------------------------------------------------------------ popping a handle, run_one *)
Lemma XI_pop c s h r :
  Permutation (rq_items (ready s)) (h :: rq_items r) -> XI c s -> XI c (s <| ready := r |>).
Proof.
  intros P X. apply XI_ready_sub; auto. intros t. unfold hcnt.
  rewrite (cnt_perm (task_key s t) _ _ P), cnt_cons.
  change (ready (s <| ready := r |>)) with r.
  change (task_key (s <| ready := r |>) t) with (task_key s t). destruct (task_key s t h); lia.
Qed.

Lemma XI_fut_result c s f s' r : fut_result s f = (s', r) -> XI c s -> XI c s'.
Proof.
  unfold fut_result. intros E X. repeat case_in E; inversion E; subst; auto.
  apply XI_setf; auto.
Qed.

Lemma run_one_XI s :
  InvC None s -> current s = None -> XI None s -> run_one_nec s -> XI None (run_one s).
Proof.
  intros I Hc X Hn. unfold run_one. unfold run_one_nec in Hn.
  destruct (rq_popleft (ready s)) as [[h r]|] eqn:Pp; [|auto].
  destruct (q_popleft QS _ _ _ (i_qok (i_wf I)) Pp) as [Hq P].
  cbv zeta in Hn.
  set (sp := s <| ready := r |>) in *.
  change (geth sp h) with (geth s h) in *.
  assert (Xp : XI None sp) by apply (XI_pop None s h r P X).
  destruct (hcancelled (geth s h)) eqn:Hcan; [exact Xp|].
  assert (NT : task_of_handle s h = None -> KX None s sp).
  { intros Hn0. split; [|exact Xp]. eapply pop_nontask; eauto. apply K_refl; auto. }
  unfold task_of_handle in NT.
  destruct (hcb (geth s h)) as [t e|t f|t p|n|f v|b| |t] eqn:Hcb; cbn [run_callback]; cbn [callback_nec] in Hn.
  - (* HStep *)
    apply step_task_XI; auto. eapply pop_task; eauto. unfold task_of_handle. rewrite Hcb. reflexivity.
  - (* HWakeup *)
    assert (I1 : InvC (Some t) sp).
    { eapply pop_task; eauto. unfold task_of_handle. rewrite Hcb. reflexivity. }
    unfold wakeup. unfold wakeup_nec in Hn. destruct (fstate_ (getf sp f)); try (apply step_task_XI; auto).
    destruct (fut_result sp f) as [s' r'] eqn:Fr.
    pose proof (K_fut_result qok (Some t) sp sp f s' r' Fr (K_refl qok _ _ I1)) as [I2 E2].
    apply step_task_XI; auto; [rewrite (e_cur E2); exact Hc|]. eapply XI_fut_result; eauto.
  - (* HReinsert *)
    specialize (NT eq_refl). destruct (task_reinsert sp t p) as [s' r'] eqn:R.
    pose proof (KX_task_reinsert qok QS _ _ _ _ _ _ _ R NT) as HK1.
    destruct r'; [apply HK1|]. apply (KX_adderr qok None s s' LEValue HK1).
  - apply (KX_addlog qok None s sp n (NT eq_refl)).
  - (* HSetResult *)
    specialize (NT eq_refl).
    apply (KX_fut_finish_fst' qok QS None s sp f (FResult v)); [discriminate| |exact NT].
    intros X1. apply (x_qh X1 h f v). exact Hcb.
  - (* HTrigger *)
    specialize (NT eq_refl). rewrite new_task_add. simpl.
    apply (add_task_KX qok QS None sp KC None (TNew (interruptor_body b))); [apply NT| |apply NT].
    apply coro_ok_interruptor.
  - apply (KX_queue_iterated qok QS None s _ (KX_addlog qok None s sp _ (NT eq_refl))).
  - specialize (NT eq_refl). destruct (cancel_task sp t) as [s' ok] eqn:C. simpl.
    apply (KX_cancel_task qok QS None s sp t s' ok C NT).
Qed.

(* ------------------------------------------------------------ timers *)
Lemma KX_timers_sub c s0 s tm :
  (forall x, In x tm -> In x (timers s)) -> KX c s0 s -> KX c s0 (s <| timers := tm |>).
Proof.
  intros Hs [HK X]. split; [apply K_timers_sub; auto|eapply XI_same; [..|exact X]; reflexivity].
Qed.

Lemma KX_ready_append_nt c s0 s h p :
  nontask s h -> KX c s0 s -> KX c s0 (s <| ready := rq_append (ready s) h p |>).
Proof.
  intros Hnt [HK X]. split; [apply K_ready_append_nt; auto|].
  destruct Hnt as [Hl Hn0].
  destruct (q_append QS (ready s) h p (i_qok (i_wf (proj1 HK)))) as [Hq P].
  apply XI_ready_sub; auto. intros t. unfold hcnt.
  change (ready (s <| ready := rq_append (ready s) h p |>)) with (rq_append (ready s) h p).
  rewrite (cnt_perm _ _ _ P), cnt_cons.
  change (task_key (s <| ready := rq_append (ready s) h p |>) t) with (task_key s t).
  unfold task_key at 1. rewrite Hn0. apply Nat.le_refl.
Qed.

Lemma KX_drop_cancelled c s0 : forall fuel s, KX c s0 s -> KX c s0 (drop_cancelled fuel s).
Proof.
  induction fuel as [|fuel IH]; intros s HK; cbn [drop_cancelled]; auto.
  destruct (timers s) as [|[w h] tl] eqn:T; auto.
  destruct (hcancelled (geth s h)); auto.
  destruct (HeapqModel.heappop timer_lt tdflt ((w, h) :: tl)) as [[e tm]|] eqn:Hp; auto.
  apply IH. apply KX_timers_sub; auto. intros y Hy. rewrite T.
  eapply Permutation_in; [symmetry; apply (heappop_perm timer_lt tdflt timer_lt_asym timer_le_trans _ _ _ Hp)|].
  right; auto.
Qed.

Lemma KX_move_due c s0 : forall fuel s, KX c s0 s -> KX c s0 (move_due fuel s).
Proof.
  induction fuel as [|fuel IH]; intros s HK; cbn [move_due]; auto.
  destruct (timers s) as [|[w h] tl] eqn:T; auto.
  destruct (Qle_bool w (now s)); auto.
  destruct (HeapqModel.heappop timer_lt tdflt ((w, h) :: tl)) as [[[w' h'] tm]|] eqn:Hp; auto.
  pose proof (heappop_perm timer_lt tdflt timer_lt_asym timer_le_trans _ _ _ Hp) as P.
  apply IH.
  assert (HK1 : KX c s0 (s <| timers := tm |>)).
  { apply KX_timers_sub; auto. intros y Hy. rewrite T.
    eapply Permutation_in; [symmetry; exact P|]. right; auto. }
  apply (KX_ready_append_nt c s0 (s <| timers := tm |>)); auto.
  eapply nontask_eq; [|apply (i_tim (i_wf (KX_inv _ _ _ _ HK)) w' h')]; [reflexivity|].
  rewrite T. eapply Permutation_in; [symmetry; exact P|]. left; auto.
Qed.

Lemma KX_begin_iteration c s0 s : KX c s0 s -> KX c s0 (begin_iteration s).
Proof. intros HK. unfold begin_iteration. apply KX_move_due. apply KX_drop_cancelled. exact HK. Qed.

(* ------------------------------------------------------------ actions and runs *)
Notation Inv09 := (Inv09 qok).

Theorem inert_action s a :
  Inv09 s -> XI None s -> action_ok s a -> action_nec s a -> XI None (do_action s a).
Proof.
  intros [I Hc] X Ha Hn. pose proof (KX_refl qok None s I X) as HK.
  destruct a as [| |d|how c0|op]; cbn [do_action].
  - apply run_one_XI; auto.
  - apply (KX_begin_iteration None s s HK).
  - eapply XI_same; [..|exact X]; reflexivity.
  - destruct (spawn_task s how c0) as [s' t'] eqn:S. simpl.
    apply (spawn_task_KX qok QS None s how c0 s' t' S I X Ha).
  - destruct (lib_call 0 op s) as [s' r] eqn:L. simpl.
    apply (lib_call_KX qok QS None 0 op s s' r L Ha Hn I X).
Qed.

Theorem inert_run : forall acts s,
  Inv09 s -> XI None s -> actions_ok s acts -> nec s acts ->
  Inv09 (fold_left do_action acts s) /\ XI None (fold_left do_action acts s).
Proof.
  induction acts as [|a acts IH]; intros s J X Ha Hn; simpl; auto.
  destruct Ha as [Ha Hl]. destruct Hn as [Hn Hnl]. apply IH; auto.
  - apply (Inv09_action qok QS); auto.
  - apply inert_action; auto.
Qed.

(* no handle of a finished task is queued; nor is a wake-up of a finished task pending *)
Theorem NDH_of_inert c s : InvC c s -> XI c s -> NDH s.
Proof.
  intros I X h t Hin Hh.
  assert (Hp : 0 < hcnt s t).
  { unfold hcnt. eapply cnt_in_pos; [exact Hin|]. apply task_key_true. exact Hh. }
  destruct (Nat.lt_ge_cases t (length (tasks s))) as [Ht|Ht].
  - destruct (tdone s t) eqn:Hd; auto. destruct (x_dead X t Ht Hd) as [D _]. lia.
  - destruct (i_oor I t Ht) as [O _]. lia.
Qed.

End Run.

Lemma XI_init prio factor draws lks cds nev : XI None (init_st prio factor draws lks cds nev).
Proof.
  set (s := init_st prio factor draws lks cds nev).
  assert (Ll : forall l, getl s l = dlock \/ exists k, getl s l = mkLock k false None pq_empty [] []).
  { intros l. unfold getl, s, init_st. cbn [locks].
    destruct (nth_in_or_default l (map (fun k => mkLock k false None pq_empty [] []) lks) dlock) as [H|H]; auto.
    apply in_map_iff in H. destruct H as (k & <- & _). right; eauto. }
  assert (Lc : forall k, getc s k = dcond \/ exists a b, getc s k = mkCond a b pq_empty []).
  { intros k. unfold getc, s, init_st. cbn [conds].
    destruct (nth_in_or_default k (map (fun c => mkCond (fst c) (snd c) pq_empty []) cds) dcond) as [H|H]; auto.
    apply in_map_iff in H. destruct H as (x & <- & _). right; eauto. }
  assert (Le : forall e, gete s e = dev).
  { intros e. unfold gete, s, init_st. cbn [events].
    destruct (nth_in_or_default e (repeat dev nev) dev) as [H|H]; auto. apply repeat_spec in H. exact H. }
  constructor.
  - simpl. intros; lia.
  - discriminate.
  - simpl. intros; lia.
  - intros l f Hf. destruct (Ll l) as [E|[k E]]; rewrite E in Hf; destruct Hf.
  - intros l. destruct (Ll l) as [E|[k E]]; rewrite E; apply PQInv_empty.
  - intros k f Hf. destruct (Lc k) as [E|[a [b E]]]; rewrite E in Hf; destruct Hf.
  - intros k. destruct (Lc k) as [E|[a [b E]]]; rewrite E; apply PQInv_empty.
  - intros e f Hf. rewrite Le in Hf. destruct Hf.
  - intros h f v H. unfold geth, s, init_st in H. cbn [handles] in H. destruct h; discriminate.
Qed.
