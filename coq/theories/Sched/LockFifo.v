(* C13, fourth round: FIFO among equals.  With equal stored keys on lock l (in particular plain
   tasks: key 0) the waiter queue is served in arrival order (C12_entry_order /
   C12_arrival_numbers), so the measure of Sched/LockRounds.v never grows: no newcomer becomes a
   blocker of w and no waiter behind w is woken while w waits (C12's no-overtake pass,
   NoOvertakeThms.action_no_overtake).  Hence w is served within (r + 1) * (K + M) + M steps,
   r = number of entries ahead of it. *)
From Coq Require Import QArith Lqa Sorting.Permutation.
From RecordUpdate Require Import RecordUpdate.
From Asynkit Require Import Base.Prelude Queue.PQ Queue.Order Queue.PQProofs Queue.PosPQ Queue.Exec
  Sched.Model Sched.Tables Sched.QFacts Sched.LockInv Sched.Footprint Sched.LockOps Sched.LockLib
  Sched.LockProofs Sched.LockThms Sched.LockLive Sched.LockProgress Sched.WaitProofs
  Sched.NoOvertakeRel Sched.NoOvertakePass Sched.NoOvertakeThms.
From Asynkit Require Import Sched.LockRounds.
Import RecordSetNotations.
Open Scope nat_scope.

(* ================================================================ 1. no positional scheduling => no eager start *)
Lemma exec_np_ne c : forall t s, exec_np t c s -> exec_ne t c s.
Proof.
  induction c as [v|e|op k IHk|how child IHc k IHk]; intros t s Hnp; cbn [exec_np exec_ne] in *; auto.
  - destruct Hnp as [_ Hk]. destruct (lib_call t op s) as [s' r]. destruct r; auto.
  - destruct how; try contradiction.
    + destruct (spawn_task s SPlain child). auto.
    + destruct (spawn_task s SPy child). auto.
    + destruct (spawn_task s (SPrio p) child). auto.
    + destruct (spawn_task s SStart child). exact I.
Qed.

Lemma step_np_ne t exc s : step_np t exc s -> step_ne t exc s.
Proof.
  unfold step_np, step_ne. destruct (tdone s t); auto. cbv zeta.
  destruct (tcont_ (gett s t)) as [c|frs k|y frs k| |]; auto.
  - destruct (if tmustc (gett s t) then _ else exc); auto. apply exec_np_ne.
  - intros [_ H]. destruct (resume_stack t frs _ _) as [s1 r]. destruct r; auto. now apply exec_np_ne.
  - contradiction.
Qed.

Lemma run_one_np_ne s : run_one_np s -> run_one_ne s.
Proof.
  unfold run_one_np, run_one_ne. destruct (rq_popleft (ready s)) as [[h r]|]; auto. cbv zeta.
  destruct (hcancelled _); auto. destruct (hcb _); cbn [run_callback_np run_callback_ne]; auto.
  - apply step_np_ne.
  - unfold wakeup_np, wakeup_ne. destruct (fstate_ _); try apply step_np_ne.
    destruct (fut_result _ _). apply step_np_ne.
Qed.

(* ================================================================ 2. entries *)
Lemma ent_in s l g e : ent s l g = Some e -> In e (qa l s) /\ fo e = g.
Proof. unfold ent. intros H. apply List.find_some in H as [Hin E]. apply Nat.eqb_eq in E. auto. Qed.

Lemma ent_some s l g e : NoDup (objs s l) -> In e (qa l s) -> fo e = g -> ent s l g = Some e.
Proof.
  intros Hn Hin E. unfold ent. destruct (find _ _) as [e0|] eqn:F.
  - apply List.find_some in F as [Hin0 E0]. apply Nat.eqb_eq in E0. f_equal.
    apply (nodup_map_inj fo (qa l s) e0 e Hn Hin0 Hin). unfold fo in *. now rewrite E0, E.
  - pose proof (List.find_none _ _ F e Hin) as H. cbv beta in H. unfold fo in E. rewrite E, Nat.eqb_refl in H. discriminate.
Qed.

Lemma objs_ent s l g : In g (objs s l) -> exists e, In e (qa l s) /\ fo e = g.
Proof. rewrite objs_qa. intros H. apply in_map_iff in H as (e & E & Hin). eauto. Qed.

Lemma objs_nodup s l : Inv s -> NoDup (objs s l).
Proof. intros I. destruct (iB1 I l) as (_ & Hn & _). exact Hn. Qed.

Lemma before_entries s l g f eg ef :
  NoDup (objs s l) -> In eg (qa l s) -> In ef (qa l s) -> fo eg = g -> fo ef = f ->
  before s l g f = entry_lt qltb eg ef.
Proof. intros Hn A B Eg Ef. unfold before. now rewrite (ent_some s l g eg Hn A Eg), (ent_some s l f ef Hn B Ef). Qed.

(* ================================================================ 3. the conditions of FIFO service *)
(* all stored keys of l are equal (e.g. all contenders are plain tasks: key 0) *)
Definition eqkeys (s : st) (l : nat) : Prop :=
  forall a b, In a (qa l s) -> In b (qa l s) -> qltb (epri a) (epri b) = false.
(* arrival numbers follow creation order: acquire() creates its future and its entry together *)
Definition arrival_ids (s : st) (l : nat) : Prop :=
  forall a b, In a (qa l s) -> In b (qa l s) -> fo a < fo b -> (eseq a < eseq b)%Z.
(* an entry is not woken in the very step in which it arrives (acquire() suspends right after
   enqueueing) *)
Definition arrivals_pending (l : nat) (s s' : st) : Prop :=
  forall g, In g (objs s' l) -> ~ In g (objs s l) -> woken s' g = false.

Definition fifo_run (l n : nat) (s : st) : Prop :=
  forall k, k <= n ->
    eqkeys (steps k s) l /\ arrival_ids (steps k s) l /\ calmf (steps k s) l /\
    arrivals_pending l (steps k s) (steps (S k) s).

Lemma eq_lt s l a b : eqkeys s l -> In a (qa l s) -> In b (qa l s) ->
  entry_lt qltb a b = (eseq a <? eseq b)%Z.
Proof. intros H A B. unfold entry_lt. rewrite (H a b A B), (H b a B A). reflexivity. Qed.

(* every future queued after a step was queued before it or is fresh *)
Lemma old_or_fresh s l g :
  Inv s -> run_one_ok s -> run_one_ne s -> In g (objs (run_one s) l) -> In g (objs s l) \/ nf s <= g.
Proof.
  intros I Hok Hne Hg. destruct (do_action_pp l s AStep I Hok Hne) as (m & B & [A|(t & m0 & _ & Rk & [A _])]).
  - pose proof (p_len _ _ _ A). destruct (q_objs _ _ _ B g Hg) as [H1|H1]; [left|right; lia].
    rewrite objs_qa in H1. apply in_map_iff in H1 as (e & E & Hin). subst g. apply in_objs_qa. apply (p_sub _ _ _ A e Hin).
  - pose proof (p_len _ _ _ A). pose proof (r_len _ _ _ Rk).
    destruct (q_objs _ _ _ B g Hg) as [H1|H1]; [left|right; lia].
    rewrite objs_qa in H1. apply in_map_iff in H1 as (e & E & Hin). subst g.
    apply (r_objs _ _ _ Rk). apply in_objs_qa. apply (p_sub _ _ _ A e Hin).
Qed.

Lemma filter_none {A} (p : A -> bool) (L : list A) : (forall x, In x L -> p x = false) -> filter p L = [].
Proof.
  induction L as [|x L IH]; intros H; simpl; auto. rewrite (H x (or_introl eq_refl)). apply IH.
  intros y Hy. apply H. now right.
Qed.

(* ================================================================ 4. no gain among equals *)
Theorem no_gain_equal s l fw :
  R s -> step_q s -> fw < nf s ->
  eqkeys s l -> arrival_ids s l -> calmf s l ->
  eqkeys (run_one s) l -> arrival_ids (run_one s) l -> arrivals_pending l s (run_one s) ->
  gain l fw s (run_one s) = 0.
Proof.
  intros Hr [Hok Hnp] Hfw Ek Ea Hc Ek' Ea' Hap. pose proof (run_one_np_ne s Hnp) as Hne.
  pose proof Hr as (I & _). destruct (R_step s Hr Hok) as (I' & _).
  unfold gain. destruct (fdone (run_one s) fw) eqn:Hd; [reflexivity|].
  destruct (memb fw (objs (run_one s) l)) eqn:Hm; [|reflexivity]. cbn [orb negb].
  apply memb_in in Hm.
  assert (Hfw0 : In fw (objs s l)).
  { destruct (old_or_fresh s l fw I Hok Hne Hm); [auto|lia]. }
  destruct (objs_ent _ _ _ Hfw0) as (ew & Hew & Eew). destruct (objs_ent _ _ _ Hm) as (ew' & Hew' & Eew').
  pose proof (objs_nodup s l I) as Hn. pose proof (objs_nodup (run_one s) l I') as Hn'.
  match goal with |- length ?L = 0 => assert (HL : L = []); [|now rewrite HL] end.
  apply filter_none. intros g Hg. apply blockers_in in Hg as [Hg Hb].
  apply negb_false_iff, memb_in, blockers_in.
  unfold blocker in Hb. apply andb_prop in Hb as [Hneq Hor].
  assert (Hgf : g <> fw) by (intros ->; rewrite Nat.eqb_refl in Hneq; discriminate).
  destruct (objs_ent _ _ _ Hg) as (eg' & Heg' & Eeg').
  assert (Main : In g (objs s l) /\ (before s l g fw || woken s g = true)%bool).
  { apply orb_prop in Hor as [Hb|Hw].
    - (* before w afterwards: then it was before w already (arrival order) *)
      rewrite (before_entries _ l g fw eg' ew' Hn' Heg' Hew' Eeg' Eew'), (eq_lt _ l eg' ew' Ek' Heg' Hew') in Hb.
      apply Z.ltb_lt in Hb.
      assert (Hlt : g < fw).
      { destruct (lt_eq_lt_dec g fw) as [[H|H]|H]; auto; [contradiction|].
        pose proof (Ea' ew' eg' Hew' Heg' ltac:(lia)). lia. }
      assert (Hg0 : In g (objs s l)) by (destruct (old_or_fresh s l g I Hok Hne Hg); [auto|lia]).
      split; auto. destruct (objs_ent _ _ _ Hg0) as (eg & Heg & Eeg).
      rewrite (before_entries _ l g fw eg ew Hn Heg Hew Eeg Eew), (eq_lt _ l eg ew Ek Heg Hew).
      pose proof (Ea eg ew Heg Hew ltac:(lia)) as Hs. apply Z.ltb_lt in Hs. rewrite Hs. reflexivity.
    - (* woken afterwards: not a newcomer, and if newly woken it was before w (no overtaking) *)
      destruct (in_dec Nat.eq_dec g (objs s l)) as [Hin|Hnin]; [|rewrite (Hap g Hg Hnin) in Hw; discriminate].
      split; auto. destruct (woken s g) eqn:W; [apply orb_true_r|].
      destruct (objs_ent _ _ _ Hin) as (eg & Heg & Eeg).
      rewrite (before_entries _ l g fw eg ew Hn Heg Hew Eeg Eew).
      rewrite (action_no_overtake l s AStep ew eg I Hok Hne Hc Hew Heg); auto;
        cbn [do_action]; rewrite ?Eeg, ?Eew; auto. }
  destruct Main as [Hin Hor0]. split; auto. unfold blocker. rewrite Hneq. exact Hor0.
Qed.

Lemma gains_zero l fw n : forall s,
  R s -> quiet n s -> fw < nf s -> fifo_run l n s -> gains l fw n s = 0.
Proof.
  induction n as [|n IH]; intros s Hr Hq Hfw Hf; cbn [gains]; auto.
  destruct Hq as [_ [Hsq Hq]].
  destruct (Hf 0 ltac:(lia)) as (E0 & A0 & C0 & P0). destruct (Hf 1 ltac:(lia)) as (E1 & A1 & _ & _).
  cbn [steps do_action] in *.
  rewrite (no_gain_equal s l fw Hr Hsq Hfw E0 A0 C0 E1 A1 P0).
  destruct (R_ready s Hr) as [q Eq]. pose proof (run_one_mono s q Eq (proj2 Hsq)) as Mo.
  rewrite IH; auto.
  - apply (R_step s Hr (proj1 Hsq)).
  - pose proof (m_fl _ _ Mo). unfold nf in *. lia.
  - intros k Hk. apply (Hf (S k)). lia.
Qed.

(* C13_every_acquirer_served for equal priorities *)
Theorem served_equal K M l fw r s :
  R s -> lkind_ (getl s l) = LPrio -> In fw (objs s l) ->
  quiet (bound K M r) s -> rbound M (bound K M r) s ->
  releases_within K l (bound K M r) s -> nocb l fw (bound K M r) s ->
  fifo_run l (bound K M r) s -> nblk s l fw <= r ->
  exists n t, n < bound K M r /\ (forall j, j <= n -> In fw (objs (steps j s) l)) /\
              turn (steps n s) l fw t.
Proof.
  intros Hr Hk Hf Hq Hb Hrel Hcb Hff Hm.
  apply (served_rounds K M l fw r s Hr Hk Hf Hq Hb Hrel Hcb).
  rewrite (gains_zero l fw _ s Hr Hq); auto; [lia|].
  apply (Inv_bound s (R_inv s Hr) l fw Hf).
Qed.

(* ================================================================ 5. where gains come from (unequal priorities) *)
(* The measure grows only by NEWCOMERS that queue before w (more urgent arrivals) and by entries
   whose order relative to w is FLIPPED (re-keying by priority inheritance / its undoing): a waiter
   that was queued behind w is never woken while w keeps waiting (no overtaking, C12). *)
Theorem gain_char s l fw g :
  R s -> step_q s -> calmf s l -> fw < nf s -> qpend (run_one s) l fw ->
  In g (blockers (run_one s) l fw) -> ~ In g (blockers s l fw) ->
  (~ In g (objs s l) /\ nf s <= g) \/
  (In g (objs s l) /\ before s l g fw = false /\ before (run_one s) l g fw = true).
Proof.
  intros Hr [Hok Hnp] Hc Hfw [Hm Hd] Hg Hng. pose proof (run_one_np_ne s Hnp) as Hne.
  pose proof Hr as (I & _). destruct (R_step s Hr Hok) as (I' & _).
  apply blockers_in in Hg as [Hg Hb]. unfold blocker in Hb. apply andb_prop in Hb as [Hneq Hor].
  destruct (in_dec Nat.eq_dec g (objs s l)) as [Hin|Hnin].
  - right. split; auto.
    assert (Hnb : blocker s l fw g = false).
    { destruct (blocker s l fw g) eqn:E; auto. exfalso. apply Hng. apply blockers_in. auto. }
    unfold blocker in Hnb. rewrite Hneq in Hnb. cbn [andb] in Hnb. apply orb_false_elim in Hnb as [Hb0 Hw0].
    split; auto. apply orb_prop in Hor as [Hb1|Hw1]; auto. exfalso.
    assert (Hfw0 : In fw (objs s l)) by (destruct (old_or_fresh s l fw I Hok Hne Hm); [auto|lia]).
    destruct (objs_ent _ _ _ Hfw0) as (ew & Hew & Eew). destruct (objs_ent _ _ _ Hin) as (eg & Heg & Eeg).
    rewrite (before_entries _ l g fw eg ew (objs_nodup s l I) Heg Hew Eeg Eew) in Hb0.
    rewrite (action_no_overtake l s AStep ew eg I Hok Hne Hc Hew Heg) in Hb0; auto;
      cbn [do_action]; rewrite ?Eeg, ?Eew; auto. discriminate.
  - left. split; auto. destruct (old_or_fresh s l g I Hok Hne Hg); [contradiction|auto].
Qed.

(* ================================================================ 6. boolean checker *)
Definition calmb (s : st) (l : nat) : bool :=
  match lowner (getl s l) with
  | None => true
  | Some t => forallb (fun fr => negb (is_acq fr)) (tframes s t)
  end.
Lemma calmb_ok s l : calmb s l = true -> calmf s l.
Proof.
  unfold calmb, calmf. intros H t Ho (l0 & f & had & Hin). rewrite Ho in H.
  rewrite forallb_forall in H. specialize (H _ Hin). discriminate.
Qed.

Definition fifob1 (l : nat) (s s' : st) : bool :=
  forallb (fun a => forallb (fun b => negb (qltb (epri a) (epri b)) &&
                                      (negb (Nat.ltb (fo a) (fo b)) || (eseq a <? eseq b)%Z))
                            (qa l s)) (qa l s) &&
  calmb s l &&
  forallb (fun g => memb g (objs s l) || negb (woken s' g)) (objs s' l).
Definition fifob (l n : nat) (s : st) : bool :=
  forallb (fun k => fifob1 l (steps k s) (steps (S k) s)) (seq 0 (S n)).

Lemma fifob_ok l n s : fifob l n s = true -> fifo_run l n s.
Proof.
  intros H k Hk. unfold fifob in H. rewrite forallb_forall in H.
  specialize (H k ltac:(apply in_seq; lia)). unfold fifob1 in H.
  apply andb_prop in H as [H H3]. apply andb_prop in H as [H1 H2].
  rewrite forallb_forall in H1.
  assert (P : forall a b, In a (qa l (steps k s)) -> In b (qa l (steps k s)) ->
            qltb (epri a) (epri b) = false /\ (fo a < fo b -> (eseq a < eseq b)%Z)).
  { intros a b Ha Hb. specialize (H1 a Ha). rewrite forallb_forall in H1. specialize (H1 b Hb).
    apply andb_prop in H1 as [A B]. split; [now apply negb_true_iff in A|].
    intros Hlt. apply Nat.ltb_lt in Hlt. rewrite Hlt in B. cbn in B. now apply Z.ltb_lt. }
  split; [intros a b Ha Hb; apply (P a b Ha Hb)|]. split; [intros a b Ha Hb; apply (P a b Ha Hb)|].
  split; [now apply calmb_ok|].
  intros g Hg Hng. rewrite forallb_forall in H3. specialize (H3 g Hg).
  apply orb_prop in H3 as [H3|H3]; [apply memb_in in H3; contradiction|now apply negb_true_iff in H3].
Qed.
