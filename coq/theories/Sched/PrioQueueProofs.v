(* C09/C15 on the priority loop: the PosPriorityQueue ready queue (boost factor 0)
   meets the abstract ready-queue interface QSpec of Sched/PartTables.v, hence the
   partition invariant Inv09 and the task_throw theorems hold on it too. *)
From Coq Require Import QArith Sorting.Permutation.
From RecordUpdate Require Import RecordUpdate.
From Asynkit Require Import Base.Prelude Queue.ListFacts Queue.PQ Queue.Order Queue.Heap
     Queue.HeapqProofs Queue.PQProofs Queue.PosPQ Queue.PosProofs Queue.PosInsert Queue.PosList
     Queue.Exec Sched.Model Sched.PartTables Sched.PartitionProofs Sched.PartitionSteps
     Sched.PartitionRun Sched.PartitionFinal.
Import RecordSetNotations.
Open Scope nat_scope.

Lemma HPV_spec : HeapSpec HPV.
Proof. exact (heapq_model_spec pv_lt pv_dflt pv_lt_strict_weak). Qed.

Lemma HPV_plt : plt HPV = pv_lt.
Proof. reflexivity. Qed.

Lemma HPV_sw : StrictWeak (plt HPV).
Proof. exact pv_lt_strict_weak. Qed.

(* the ready queue is a PosPriorityQueue satisfying its invariant: heap-ordered
   array, distinct sequence numbers below the counter, boost factor 0, classes 0/1 *)
Definition qok_pos (r : rq) : Prop :=
  match r with RPos p => PInv HPV p | RList _ => False end.

(* the handle id stored in an entry *)
Definition onat (e : entry pv) : nat := Z.to_nat (eobj e).

Lemma rq_items_pos p : rq_items (RPos p) = map onat (plist HPV p).
Proof. reflexivity. Qed.

Lemma items_perm_arr p : Permutation (rq_items (RPos p)) (map onat (arr (pq_ p))).
Proof. rewrite rq_items_pos. apply Permutation_map, plist_perm. Qed.

Lemma items_of_arr_perm p p' x :
  Permutation (arr (pq_ p)) (x :: arr (pq_ p')) ->
  Permutation (rq_items (RPos p)) (onat x :: rq_items (RPos p')).
Proof.
  intros Hp. eapply perm_trans; [apply items_perm_arr|].
  eapply perm_trans; [apply Permutation_map, Hp|]. simpl. apply perm_skip.
  apply Permutation_sym, items_perm_arr.
Qed.

Lemma pq_counters p b : PInv HPV p -> pq_ (update_counters HPV p b) = pq_ p.
Proof. intros (_ & Hf & _). apply (update_counters_off HPV p b Hf). Qed.

(* re-keying an entry never changes which objects are queued *)
Lemma reschedule_objs p key np o p' :
  PInv HPV p -> pos_reschedule HPV p key np = Some (o, p') ->
  Permutation (map (@eobj pv) (arr (pq_ p'))) (map (@eobj pv) (arr (pq_ p))).
Proof.
  intros (Hi & Hf & Hc). unfold pos_reschedule.
  destruct (pq_find HPV (pq_ p) key false) as [[e q]|]; [|discriminate].
  destruct (pclass (epri e) =? 0)%Z.
  - intros E. inversion E; subst. reflexivity.
  - unfold pos_reschedule_reg.
    destruct (pq_reschedule HPV (pq_ p) key _) as [[o' q']|] eqn:Er; [|discriminate].
    intros E. inversion E; subst o' p'; clear E. simpl pq_.
    destruct (resched_inv HPV HPV_spec _ _ _ _ _ Hi Er) as (_ & _ & e0 & r & _ & Ho & Hp & Hq).
    destruct Hq as [->|[Hp' _]]; [reflexivity|].
    eapply perm_trans; [apply Permutation_map, Hp'|].
    eapply perm_trans; [|apply Permutation_map, Permutation_sym, Hp].
    simpl. rewrite Ho. reflexivity.
Qed.

Theorem QSpec_pos : QSpec qok_pos.
Proof.
  constructor.
  - (* append *)
    intros [l|p] h pr Hq; [destruct Hq|]. simpl in Hq. split.
    + simpl. apply (append_pri_inv HPV HPV_spec); auto.
    + simpl rq_append. rewrite !rq_items_pos.
      rewrite (append_plist HPV HPV_plt HPV_spec) by exact Hq.
      eapply perm_trans; [apply Permutation_map, (ins_stable_perm HPV)|].
      simpl. unfold onat at 1. simpl. rewrite Nat2Z.id. reflexivity.
  - (* popleft *)
    intros [l|p] h r' Hq E; [destruct Hq|]. simpl in Hq, E.
    pose proof (popleft_plist HPV HPV_plt HPV_spec p Hq) as Hl.
    rewrite rq_items_pos.
    destruct (plist HPV p) as [|e t]; [rewrite Hl in E; discriminate|].
    destruct Hl as (s' & E1 & Ht & Hp'). rewrite E1 in E. inversion E; subst h r'; clear E.
    split; [exact Hp'|]. rewrite rq_items_pos, Ht. reflexivity.
  - (* find with remove *)
    intros [l|p] key h r' Hq E; [destruct Hq|]. simpl in Hq, E.
    destruct (pos_find HPV p (fun o => key (Z.to_nat o)) true) as [[o q']|] eqn:Ef; [|discriminate].
    inversion E; subst h r'; clear E.
    pose proof (find_inv_pos HPV HPV_spec _ _ _ _ _ Hq Ef) as Hp'.
    unfold pos_find in Ef.
    destruct (pq_find HPV (pq_ p) _ true) as [[e q]|] eqn:Eq; [|discriminate].
    inversion Ef; subst o q'; clear Ef.
    destruct Hq as (Hi & _).
    destruct (find_inv HPV HPV_spec _ _ _ _ _ Hi Eq) as (_ & Hk & _ & Hperm).
    split; [exact Hp'|]. split; [exact Hk|].
    apply (items_of_arr_perm p (with_pq p q) e). exact Hperm.
  - (* find: nothing found *)
    intros [l|p] key Hq E h Hh; [destruct Hq|]. simpl in Hq, E.
    destruct (pos_find HPV p (fun o => key (Z.to_nat o)) true) as [[o q']|] eqn:Ef; [discriminate|].
    unfold pos_find in Ef.
    destruct (pq_find HPV (pq_ p) _ true) as [[e q]|] eqn:Eq; [discriminate|].
    destruct Hq as (Hi & _).
    destruct (find_last_index (fun o => key (Z.to_nat o)) (arr (pq_ p))) as [i|] eqn:Hfi.
    + destruct (find_some HPV HPV_spec (pq_ p) _ i Hi Hfi) as (_ & a' & E1 & _). congruence.
    + apply (Permutation_in _ (items_perm_arr p)) in Hh. apply in_map_iff in Hh.
      destruct Hh as (x & <- & Hx). apply (find_last_index_none _ _ Hfi x Hx).
  - (* remove *)
    intros [l|p] h r' Hq E; [destruct Hq|]. simpl in Hq, E.
    destruct (pos_remove HPV p (Z.of_nat h)) as [q'|] eqn:Er; [|discriminate].
    inversion E; subst r'; clear E.
    split; [apply (remove_inv_pos HPV HPV_plt HPV_spec _ _ _ Hq Er)|].
    unfold pos_remove in Er.
    destruct (pq_remove HPV (pq_ p) (Z.of_nat h)) as [[pr q]|] eqn:Eq; [|discriminate].
    assert (Eq' : q' = update_counters HPV (with_pq p q) false) by congruence. clear Er.
    pose proof Hq as (Hi & Hf & _).
    destruct (remove_inv HPV HPV_sw HPV_spec _ _ _ _ Hi Eq) as (_ & e & He & _ & Hperm).
    assert (Hh : onat e = h) by (unfold onat; rewrite He; apply Nat2Z.id).
    eapply perm_trans; [apply (items_of_arr_perm p q' e)|rewrite Hh; reflexivity].
    subst q'. destruct (update_counters_off HPV (with_pq p q) false Hf) as [Epq _]. rewrite Epq. exact Hperm.
  - (* insert at a position *)
    intros [l|p] k h Hq; [destruct Hq|]. simpl in Hq. split.
    + simpl. apply (insert_inv HPV HPV_plt HPV_spec); auto.
    + simpl rq_insert_pos. rewrite !rq_items_pos.
      unfold onat. rewrite <- !(map_map (@eobj pv) Z.to_nat).
      unfold plist at 1. rewrite (insert_position HPV HPV_plt HPV_spec p k (Z.of_nat h) Hq).
      fold (plist HPV p). rewrite map_app. simpl map. rewrite Nat2Z.id.
      eapply perm_trans; [apply Permutation_sym, Permutation_middle|]. apply perm_skip.
      rewrite <- map_app, <- map_app, firstn_skipn. reflexivity.
  - (* reschedule *)
    intros [l|p] key pr Hq; [destruct Hq|]. simpl in Hq. simpl rq_reschedule.
    destruct (pos_reschedule HPV p (fun o => key (Z.to_nat o)) pr) as [[o p']|] eqn:Er.
    + split; [apply (reschedule_inv_pos HPV HPV_spec _ _ _ _ _ Hq Er)|].
      eapply perm_trans; [apply items_perm_arr|].
      eapply perm_trans; [|apply Permutation_sym, items_perm_arr].
      unfold onat. rewrite <- !(map_map (@eobj pv) Z.to_nat). apply Permutation_map.
      eapply reschedule_objs; eauto.
    + split; [exact Hq | reflexivity].
  - (* iteration sorts the array in place *)
    intros p Hq. simpl in Hq. split.
    + apply (iter_inv_pos HPV HPV_plt); auto.
    + rewrite !rq_items_pos.
      destruct (iter_plist HPV HPV_plt p Hq) as [_ ->]. reflexivity.
Qed.

(* ------------------------------------------------ Inv09 on the priority loop *)
Lemma qok_pos_init draws lks cds nev : qok_pos (ready (init_st true 0 draws lks cds nev)).
Proof. simpl. apply PInv_empty. Qed.

(* Inv09 holds in every reachable state of the priority loop (boost factor 0) *)
Theorem Inv09_prio draws lks cds nev l :
  let s0 := init_st true 0 draws lks cds nev in
  actions_ok s0 l -> Inv09 qok_pos (fold_left do_action l s0).
Proof.
  intros s0 Hl. apply (Inv09_run qok_pos QSpec_pos); auto.
  apply (Inv09_init qok_pos). apply qok_pos_init.
Qed.

(* hence the ready queue of every reachable state satisfies the queue invariant *)
Corollary reachable_PInv draws lks cds nev l :
  let s0 := init_st true 0 draws lks cds nev in
  actions_ok s0 l -> exists p, ready (fold_left do_action l s0) = RPos p /\ PInv HPV p.
Proof.
  intros s0 Hl. destruct (Inv09_prio draws lks cds nev l Hl) as [I _].
  pose proof (i_qok (i_wf I)) as Hq. fold s0 in Hq.
  destruct (ready (fold_left do_action l s0)) as [x|p]; [destruct Hq|]. eauto.
Qed.
