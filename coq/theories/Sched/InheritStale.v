(* C12, finding F16 and its repair.
   Before the repair, acquire()'s `finally` only removed the leaving waiter's entry: when the
   high-priority waiter from which a QUEUED lock holder inherited left by cancellation, the
   holder's effective priority fell back but nobody re-keyed the holder's own entry in the
   lock it is queued on.  The entry kept a stale, too urgent key, `keyed` failed in a reachable
   state and release() handed that lock to it over a waiter that was now more urgent.
   The repaired `finally` (Model.acquire_p_finish) calls propagate_priority on the owner of a
   lock that stays locked; below: (1) the refutation of the old text on a reachable state,
   (2) the same run in the current model, where the entry is re-keyed and the hand-over is
   right. *)
From Coq Require Import QArith Lqa Sorting.Permutation.
From RecordUpdate Require Import RecordUpdate.
From Asynkit Require Import Base.Prelude Queue.PQ Queue.Order Queue.PosPQ Queue.PosProofs Queue.Exec
  Sched.Model Sched.Corr Sched.Tables Sched.QFacts Sched.LockInv Sched.LockOps Sched.LockLib
  Sched.LockProofs Sched.LockStatic Sched.LockThms Sched.InheritEprio Sched.InheritHandover
  Sched.InheritKeys Sched.InheritFalls.
Import RecordSetNotations.
Open Scope nat_scope.

(* list loop, two PriorityLocks, as in InheritExamples.v but H sleeps once more.
   H (task 0, priority 0) holds lock 0; W1 (task 1, priority 5) holds lock 1 and queues on
   lock 0 (future 3, arrival 0); W2 (task 2, priority 3) queues on lock 0 (future 4,
   arrival 1); X (task 3, priority -5) queues on lock 1 (future 6): W1's entry in lock 0 is
   re-keyed to -5 (state istA of InheritExamples.v, where keyed holds for both locks).
   Then X is cancelled from outside (state istX: X is runnable, its cancelled future 6 is
   still queued on lock 1) and runs acquire()'s `finally`: it leaves lock 1 (state istLeft). *)
Definition sH : script :=
  SDo (OAcquire 0) (SDo OSleep0 (SDo OSleep0 (SDo OSleep0 (SDo OSleep0 (SDo (ORelease 0) SEnd))))).
Definition sW1 : script :=
  SDo (OAcquire 1) (SDo (OAcquire 0) (SDo (ORelease 0) (SDo (ORelease 1) SEnd))).
Definition sW2 : script := SDo (OAcquire 0) (SDo (ORelease 0) SEnd).
Definition sX : script := SDo (OAcquire 1) (SDo (ORelease 1) SEnd).

Definition sacts_inh : list saction :=     (* ... up to X queued on lock 1, W1 inherits -5 *)
  [XSpawn (SPrio 0) sH; XStep; XSpawn (SPrio 5) sW1; XSpawn (SPrio 3) sW2;
   XStep; XStep; XStep; XSpawn (SPrio (-5)) sX; XStep; XStep].
Definition sacts_cancel : list saction :=  (* X.cancel(); H sleeps *)
  [XDo (OCancel 3); XStep].
Definition sacts_fin : list saction := [XStep].   (* X runs acquire's finally *)
Definition sacts_rel : list saction := [XStep].   (* H releases lock 0 *)
Definition st0 : st := init_st false 0 [] [LPrio; LPrio] [] 0.
Definition run_to (l : list saction) : st := fold_left do_action (map act l) st0.
Definition istX : st := run_to (sacts_inh ++ sacts_cancel).
Definition istLeft : st := run_to (sacts_inh ++ sacts_cancel ++ sacts_fin).
Definition istAfter : st := run_to (sacts_inh ++ sacts_cancel ++ sacts_fin ++ sacts_rel).

(* the run has no eager spawn (and no spawn from inside a task at all) *)
Fixpoint script_flat (s : script) : bool :=
  match s with
  | SDo _ r | SLogExc r => script_flat r
  | SSpawn _ _ _ => false
  | STry b _ h f r => script_flat b && script_flat h && script_flat f && script_flat r
  | STimeout _ b r => script_flat b && script_flat r
  | _ => true
  end.
Definition sact_no_eager (a : saction) : bool :=
  match a with XSpawn SEager _ => false | XSpawn _ s => script_flat s | _ => true end.
Example stale_no_eager : forallb sact_no_eager (sacts_inh ++ sacts_cancel ++ sacts_fin ++ sacts_rel) = true.
Proof. reflexivity. Qed.

Example stale_run_ok : run_ok st0 (map act (sacts_inh ++ sacts_cancel ++ sacts_fin ++ sacts_rel)).
Proof. vm_compute. repeat split. Qed.

Example reachable_istX : reachable istX.
Proof.
  exists false, 0%Q, [], [LPrio; LPrio], [], 0, (map act (sacts_inh ++ sacts_cancel)).
  split; [|reflexivity].
  apply (run_ok_app st0 _ (map act (sacts_fin ++ sacts_rel))). rewrite <- map_app, <- !app_assoc.
  apply stale_run_ok.
Qed.
Example reachable_istLeft : reachable istLeft.
Proof.
  exists false, 0%Q, [], [LPrio; LPrio], [], 0, (map act (sacts_inh ++ sacts_cancel ++ sacts_fin)).
  split; [|reflexivity].
  apply (run_ok_app st0 _ (map act sacts_rel)). rewrite <- map_app, <- !app_assoc. apply stale_run_ok.
Qed.
Example reachable_istAfter : reachable istAfter.
Proof.
  exists false, 0%Q, [], [LPrio; LPrio], [], 0,
    (map act (sacts_inh ++ sacts_cancel ++ sacts_fin ++ sacts_rel)).
  split; [|reflexivity]. apply stale_run_ok.
Qed.

(* ---------------------------------------------------------------- the reachable state istX *)
(* X's future 6 is cancelled but still queued on lock 1 (X has not run yet: it is the next
   handle in the ready queue), so W1 still inherits -5, its entry in lock 0 carries -5 and
   `keyed` holds for both locks *)
Lemma istX_arr0 : arr (lpq (getl istX 0)) = [mkE (-5)%Q 0 3; mkE 3%Q 1 4].
Proof. vm_compute; reflexivity. Qed.
Lemma istX_arr1 : arr (lpq (getl istX 1)) = [mkE (-5)%Q 0 6].
Proof. vm_compute; reflexivity. Qed.
Example istX_facts :
  arr (lpq (getl istX 0)) = [mkE (-5)%Q 0 3; mkE 3%Q 1 4] /\
  lwt (getl istX 0) = [(3, 1); (4, 2)] /\
  arr (lpq (getl istX 1)) = [mkE (-5)%Q 0 6] /\ lwt (getl istX 1) = [(6, 3)] /\
  lowner (getl istX 0) = Some 0 /\ lowner (getl istX 1) = Some 1 /\
  map (fun t => Qred (effective_priority istX t)) [0; 1; 2; 3] = [(-5)%Q; (-5)%Q; 3%Q; (-5)%Q] /\
  map (fun f => fstate_ (getf istX f)) [3; 4; 6] = [FPending; FPending; FCancelled] /\
  (* X (task 3) is suspended in acquire(lock 1) on future 6 and is the next task to run *)
  tframes istX 3 = [InFut 6; InAcquireP 1 6 true] /\ task_is_runnable istX 3 = true /\
  keyed istX 0 /\ keyed istX 1.
Proof.
  split; [apply istX_arr0|]. do 9 (split; [vm_compute; reflexivity|]). split.
  - intros e He _. rewrite istX_arr0 in He. destruct He as [<-|[<-|[]]]; vm_compute; reflexivity.
  - intros e He _. rewrite istX_arr1 in He. destruct He as [<-|[]]; vm_compute; reflexivity.
Qed.

(* ---------------------------------------------------------------- before the repair (F16) *)
(* PriorityLock.acquire after `await fut` as it was: the `finally` clause removes the entry
   and passes the wake-up on if the lock is free; nothing else *)
Definition acquire_p_finish_old (s : st) (t l f : nat) (had : bool) (inp : reply) : st * reply :=
  let '(s, r) := match inp with
                 | RVal _ => match take_lock s l t with
                             | inl s' => (s', RVal 1)
                             | inr e => (s, RExc e)
                             end
                 | RExc e => (s, RExc e)
                 end in
  let lk := getl s l in
  let s := match pq_remove HQ (lpq lk) (Z.of_nat f) with
           | Some (_, q') => setl s l (lk <| lpq := q' |>
                                        <| lwt := filter (fun pr => negb (Nat.eqb (fst pr) f)) (lwt lk) |>)
           | None => s
           end in
  let s := if llocked (getl s l) then s else wake_up_first_p s l in
  let s := if had then sett s t (gett s t <| twaiting := None |>) else s in
  (s, r).

(* the two versions differ only when the lock stays locked by somebody else: in particular
   they agree whenever the caller ends up owning the lock or the lock ends up free.  (In the
   run up to istX no acquire() has reached its `finally` at all, so istX is reached by the
   unrepaired code as well.) *)
Lemma finish_old_agrees s t l f had inp :
  (let s' := fst (acquire_p_finish_old s t l f had inp) in
   llocked (getl s' l) = false \/ lowner (getl s' l) = Some t \/ lowner (getl s' l) = None) ->
  acquire_p_finish s t l f had inp = acquire_p_finish_old s t l f had inp.
Proof.
  unfold acquire_p_finish, acquire_p_finish_old.
  set (p0 := match inp with
             | RVal _ => match take_lock s l t with inl s' => (s', RVal 1) | inr e => (s, RExc e) end
             | RExc e => (s, RExc e) end).
  destruct p0 as [s0 r]. cbv zeta.
  set (s1 := match pq_remove HQ (lpq (getl s0 l)) (Z.of_nat f) with
             | Some (_, q') => _ | None => s0 end).
  cbn [fst]. intros H.
  destruct (llocked (getl s1 l)) eqn:El; [|reflexivity].
  assert (E : forall x : st, getl (if had then sett x t (gett x t <| twaiting := None |>) else x) l = getl x l)
    by (intros x; destruct had; reflexivity).
  rewrite E in H. rewrite El in H.
  destruct (lowner (getl s1 l)) as [o|]; [|reflexivity].
  destruct H as [H|[H|H]]; try discriminate. inversion H; subst o. now rewrite Nat.eqb_refl.
Qed.

(* X's `finally` with the old text, in the reachable state istX *)
Definition istXold : st := fst (acquire_p_finish_old istX 3 1 6 true (RExc ECancelled)).
(* ... and with the current one *)
Definition istXnew : st := fst (acquire_p_finish istX 3 1 6 true (RExc ECancelled)).

Lemma istXold_def : istXold = fst (acquire_p_finish_old istX 3 1 6 true (RExc ECancelled)).
Proof. unfold istXold. reflexivity. Qed.
Lemma istXnew_def : istXnew = fst (acquire_p_finish istX 3 1 6 true (RExc ECancelled)).
Proof. unfold istXnew. reflexivity. Qed.
Lemma istX_fut6 : fstate_ (getf istX 6) = FCancelled.
Proof. vm_compute; reflexivity. Qed.

(* the wait-for graph of istXold is acyclic: W1, W2 wait for H; nobody waits for W1 *)
Lemma istXold_graph :
  (tholding (gett istXold 0) = [0] /\ tholding (gett istXold 1) = [1] /\
   tholding (gett istXold 2) = [] /\ tholding (gett istXold 3) = []) /\
  (lock_waiter_tasks (getl istXold 0) = [1; 2] /\ lock_waiter_tasks (getl istXold 1) = []) /\
  efuel istXold = 7.
Proof. repeat split; vm_compute; reflexivity. Qed.
Example istXold_ranked : ranked istXold.
Proof.
  destruct istXold_graph as ((H0 & H1 & H2 & H3) & (W0 & W1) & Hf).
  exists (fun t => match t with 0 => 1 | _ => 0 end). split.
  - intros w t (l & Hl & Hw). destruct t as [|[|[|[|t]]]].
    + rewrite H0 in Hl. destruct Hl as [<-|[]]. rewrite W0 in Hw. destruct Hw as [<-|[<-|[]]]; lia.
    + rewrite H1 in Hl. destruct Hl as [<-|[]]. rewrite W1 in Hw. destruct Hw.
    + rewrite H2 in Hl. destruct Hl.
    + rewrite H3 in Hl. destruct Hl.
    + rewrite gett_oob in Hl by (vm_compute; lia). destruct Hl.
  - intros t. rewrite Hf. destruct t; lia.
Qed.

Lemma istXold_arr0 : arr (lpq (getl istXold 0)) = [mkE (-5)%Q 0 3; mkE 3%Q 1 4].
Proof. vm_compute; reflexivity. Qed.

Example istXold_facts :
  (* lock 0: W1's entry (future 3) still carries the inherited key -5 ... *)
  arr (lpq (getl istXold 0)) = [mkE (-5)%Q 0 3; mkE 3%Q 1 4] /\
  lwt (getl istXold 0) = [(3, 1); (4, 2)] /\
  (* ... X has left lock 1, which W1 still holds ... *)
  arr (lpq (getl istXold 1)) = [] /\ lowner (getl istXold 1) = Some 1 /\
  lowner (getl istXold 0) = Some 0 /\
  (* ... so W1's effective priority is back to its own 5 (H: 0, W2: 3, X: -5) *)
  map (fun t => Qred (effective_priority istXold t)) [0; 1; 2; 3] = [0%Q; 5%Q; 3%Q; (-5)%Q] /\
  map (fun t => Qred (wprio istXold t)) [1; 2] = [5%Q; 3%Q] /\
  (* both waiters of lock 0 are live; X's future 6 is cancelled *)
  map (fun f => fstate_ (getf istXold f)) [3; 4; 6] = [FPending; FPending; FCancelled] /\
  live istXold (mkE (-5)%Q 0 3) /\ live istXold (mkE 3%Q 1 4) /\
  (* the queued W1 holds lock 1 *)
  tholding (gett istXold 1) = [1] /\
  ~ keyed istXold 0.
Proof.
  split; [apply istXold_arr0|]. do 10 (split; [vm_compute; reflexivity|]).
  intros K. specialize (K (mkE (-5)%Q 0 3)).
  assert (E : (-5 == wprio istXold (entry_task (getl istXold 0) (mkE (-5)%Q 0 3)))%Q).
  { apply K; [rewrite istXold_arr0; simpl; auto|vm_compute; reflexivity]. }
  assert (E2 : (wprio istXold (entry_task (getl istXold 0) (mkE (-5)%Q 0 3)) == 5)%Q)
    by (vm_compute; reflexivity).
  lra.
Qed.

(* H releases lock 0: W1 (effective priority 5, stale key -5) gets the lock although the
   live waiter W2 (effective priority 3) is `before` it; the conclusion of
   handover_by_eprio fails *)
Definition istXold_free : st := pre_wake istXold 0 0.
Lemma istXold_before :
  before istXold_free 0 (mkE 3%Q 1 4) (mkE (-5)%Q 0 3) /\
  ~ before istXold_free 0 (mkE (-5)%Q 0 3) (mkE 3%Q 1 4).
Proof.
  unfold before; cbv zeta.
  set (p1 := wprio _ (entry_task _ (mkE (-5)%Q 0 3))). set (p2 := wprio _ (entry_task _ (mkE 3%Q 1 4))).
  assert (E1 : (p1 == 5)%Q) by (vm_compute; reflexivity).
  assert (E2 : (p2 == 3)%Q) by (vm_compute; reflexivity).
  split; [left; lra|intros [L|[E _]]; lra].
Qed.
Example istXold_handover :
  release_p istXold 0 0 = (wake_up_first_p istXold_free 0, RVal 0) /\
  arr (lpq (getl istXold_free 0)) = [mkE (-5)%Q 0 3; mkE 3%Q 1 4] /\
  map (fun t => Qred (wprio istXold_free t)) [1; 2] = [5%Q; 3%Q] /\
  live istXold_free (mkE (-5)%Q 0 3) /\ live istXold_free (mkE 3%Q 1 4) /\
  (* W2's entry is `before` W1's, not the other way round, but W1's future is resolved *)
  before istXold_free 0 (mkE 3%Q 1 4) (mkE (-5)%Q 0 3) /\
  ~ before istXold_free 0 (mkE (-5)%Q 0 3) (mkE 3%Q 1 4) /\
  map (fun f => fstate_ (getf (wake_up_first_p istXold_free 0) f)) [3; 4] = [FResult 1; FPending].
Proof.
  split; [apply release_p_wake; vm_compute; reflexivity|].
  do 4 (split; [vm_compute; reflexivity|]).
  split; [apply istXold_before|]. split; [apply istXold_before|].
  vm_compute; reflexivity.
Qed.

(* ---------------------------------------------------------------- the repaired code *)
(* the current `finally` re-keys W1's entry in lock 0 to W1's current effective priority 5
   (arrival number 0 kept); everything else as with the old text *)
Lemma istXnew_arr0 : arr (lpq (getl istXnew 0)) = [mkE 3%Q 1 4; mkE 5%Q 0 3].
Proof. vm_compute; reflexivity. Qed.
Lemma istLeft_arr0 : arr (lpq (getl istLeft 0)) = [mkE 3%Q 1 4; mkE 5%Q 0 3].
Proof. vm_compute; reflexivity. Qed.
Lemma istLeft_arr1 : arr (lpq (getl istLeft 1)) = [].
Proof. vm_compute; reflexivity. Qed.

Lemma istLeft_graph :
  (tholding (gett istLeft 0) = [0] /\ tholding (gett istLeft 1) = [1] /\
   tholding (gett istLeft 2) = [] /\ tholding (gett istLeft 3) = []) /\
  (lock_waiter_tasks (getl istLeft 0) = [2; 1] /\ lock_waiter_tasks (getl istLeft 1) = []) /\
  efuel istLeft = 7.
Proof. repeat split; vm_compute; reflexivity. Qed.
Example istLeft_ranked : ranked istLeft.
Proof.
  destruct istLeft_graph as ((H0 & H1 & H2 & H3) & (W0 & W1) & Hf).
  exists (fun t => match t with 0 => 1 | _ => 0 end). split.
  - intros w t (l & Hl & Hw). destruct t as [|[|[|[|t]]]].
    + rewrite H0 in Hl. destruct Hl as [<-|[]]. rewrite W0 in Hw. destruct Hw as [<-|[<-|[]]]; lia.
    + rewrite H1 in Hl. destruct Hl as [<-|[]]. rewrite W1 in Hw. destruct Hw.
    + rewrite H2 in Hl. destruct Hl.
    + rewrite H3 in Hl. destruct Hl.
    + rewrite gett_oob in Hl by (vm_compute; lia). destruct Hl.
  - intros t. rewrite Hf. destruct t; lia.
Qed.

Example istLeft_keyed0 : keyed istLeft 0.
Proof.
  intros e He _. rewrite istLeft_arr0 in He. destruct He as [<-|[<-|[]]]; vm_compute; reflexivity.
Qed.
Example istLeft_keyed1 : keyed istLeft 1.
Proof. intros e He _. rewrite istLeft_arr1 in He. destruct He. Qed.

Example istLeft_facts :
  (* X's finally at lock level, applied to istX: keys of lock 0 are (3, W2), (5, W1) *)
  arr (lpq (getl istXnew 0)) = [mkE 3%Q 1 4; mkE 5%Q 0 3] /\
  (* the run itself *)
  arr (lpq (getl istLeft 0)) = [mkE 3%Q 1 4; mkE 5%Q 0 3] /\
  lwt (getl istLeft 0) = [(3, 1); (4, 2)] /\
  arr (lpq (getl istLeft 1)) = [] /\ lowner (getl istLeft 1) = Some 1 /\
  lowner (getl istLeft 0) = Some 0 /\
  map (fun t => Qred (effective_priority istLeft t)) [0; 1; 2; 3] = [0%Q; 5%Q; 3%Q; (-5)%Q] /\
  map (fun t => Qred (wprio istLeft t)) [1; 2] = [5%Q; 3%Q] /\
  map (fun f => fstate_ (getf istLeft f)) [3; 4; 6] = [FPending; FPending; FCancelled] /\
  live istLeft (mkE 5%Q 0 3) /\ live istLeft (mkE 3%Q 1 4) /\
  tholding (gett istLeft 1) = [1] /\
  keyed istLeft 0 /\ keyed istLeft 1.
Proof.
  split; [apply istXnew_arr0|]. split; [apply istLeft_arr0|].
  do 10 (split; [vm_compute; reflexivity|]). split; [apply istLeft_keyed0|apply istLeft_keyed1].
Qed.

(* H releases lock 0: the lock goes to W2 (future 4, effective priority 3), which is `before`
   W1 (effective priority 5) *)
Definition istLeft_free : st := pre_wake istLeft 0 0.
Lemma istLeft_free_arr0 : arr (lpq (getl istLeft_free 0)) = [mkE 3%Q 1 4; mkE 5%Q 0 3].
Proof. vm_compute; reflexivity. Qed.
Example istLeft_free_keyed : keyed istLeft_free 0.
Proof.
  intros e He _. rewrite istLeft_free_arr0 in He. destruct He as [<-|[<-|[]]]; vm_compute; reflexivity.
Qed.
Lemma istLeft_before : before istLeft_free 0 (mkE 3%Q 1 4) (mkE 5%Q 0 3).
Proof.
  unfold before; cbv zeta.
  set (p1 := wprio _ (entry_task _ (mkE 3%Q 1 4))). set (p2 := wprio _ (entry_task _ (mkE 5%Q 0 3))).
  assert (E1 : (p1 == 3)%Q) by (vm_compute; reflexivity).
  assert (E2 : (p2 == 5)%Q) by (vm_compute; reflexivity).
  left; lra.
Qed.
Example istLeft_handover :
  release_p istLeft 0 0 = (wake_up_first_p istLeft_free 0, RVal 0) /\
  arr (lpq (getl istLeft_free 0)) = [mkE 3%Q 1 4; mkE 5%Q 0 3] /\
  PQInv (lpq (getl istLeft_free 0)) /\ keyed istLeft_free 0 /\
  before istLeft_free 0 (mkE 3%Q 1 4) (mkE 5%Q 0 3) /\
  map (fun f => fstate_ (getf (wake_up_first_p istLeft_free 0) f)) [3; 4] = [FPending; FResult 1] /\
  (* the same in the run itself *)
  map (fun f => fstate_ (getf istAfter f)) [3; 4] = [FPending; FResult 1] /\
  map (fun t => Qred (effective_priority istAfter t)) [1; 2] = [5%Q; 3%Q].
Proof.
  split; [apply release_p_wake; vm_compute; reflexivity|].
  split; [apply istLeft_free_arr0|].
  split.
  { assert (E : lpq (getl istLeft_free 0) = lpq (getl istLeft 0)) by (vm_compute; reflexivity).
    rewrite E. apply (iB1 (reachable_inv _ reachable_istLeft) 0). }
  split; [apply istLeft_free_keyed|]. split; [apply istLeft_before|].
  repeat split; vm_compute; reflexivity.
Qed.

(* the conclusion of C12_handover for this release, from the theorem rather than by
   computation: the woken head (future 4 = W2) is `before` every other live entry *)
Example istLeft_handover_by_theorem :
  exists head rest,
    arr (lpq (getl istLeft_free 0)) = head :: rest /\ 4 = Z.to_nat (eobj head) /\
    (forall e, In e rest -> live istLeft_free e -> before istLeft_free 0 head e).
Proof.
  destruct istLeft_handover as (_ & _ & Hq & Hk & _ & H4 & _).
  destruct (handover_by_eprio istLeft_free 0 4 Hq Hk) as (head & rest & Ea & Ef & _ & _ & Hb & _).
  - assert (E1 : fstate_ (getf (wake_up_first_p istLeft_free 0) 4) = FResult 1) by (vm_compute; reflexivity).
    assert (E2 : fstate_ (getf istLeft_free 4) = FPending) by (vm_compute; reflexivity).
    rewrite E1, E2. discriminate.
  - exists head, rest. auto.
Qed.

Print Assumptions istXold_facts.
Print Assumptions istXold_handover.
Print Assumptions istLeft_facts.
Print Assumptions istLeft_handover.
Print Assumptions reachable_istX.
