(* C12: `keyed` (every live waiter entry carries the current effective priority of its
   task) is NOT an invariant of reachable states: when the high-priority waiter from which a
   queued task inherited leaves by cancellation, acquire()'s `finally` removes its entry but
   nobody re-keys the inheritor's entry in the lock it is queued on.  The entry keeps a stale,
   too urgent key, and release() hands the lock to it over a waiter that is now more urgent. *)
From Coq Require Import QArith Lqa Sorting.Permutation.
From RecordUpdate Require Import RecordUpdate.
From Asynkit Require Import Base.Prelude Queue.PQ Queue.Order Queue.PosPQ Queue.PosProofs Queue.Exec
  Sched.Model Sched.Corr Sched.Tables Sched.QFacts Sched.LockInv Sched.LockOps Sched.LockLib
  Sched.LockProofs Sched.LockStatic Sched.LockThms Sched.InheritEprio Sched.InheritHandover
  Sched.InheritKeys Sched.InheritFalls.
Import RecordSetNotations.
Open Scope nat_scope.

(* list loop, two PriorityLocks, as in InheritExamples.v but H sleeps once more.
   H (task 0, priority 0) holds lock 0; W1 (task 1, priority 5) holds lock 1 and queues on
   lock 0 (future 3, arrival 0); W2 (task 2, priority 3) queues on lock 0 (future 4,
   arrival 1); X (task 3, priority -5) queues on lock 1 (future 6): W1's entry in lock 0 is
   re-keyed to -5 (state istA of InheritExamples.v, where keyed holds for both locks).
   Then X is cancelled from outside and runs: it leaves lock 1. *)
Definition sH : script :=
  SDo (OAcquire 0) (SDo OSleep0 (SDo OSleep0 (SDo OSleep0 (SDo OSleep0 (SDo (ORelease 0) SEnd))))).
Definition sW1 : script :=
  SDo (OAcquire 1) (SDo (OAcquire 0) (SDo (ORelease 0) (SDo (ORelease 1) SEnd))).
Definition sW2 : script := SDo (OAcquire 0) (SDo (ORelease 0) SEnd).
Definition sX : script := SDo (OAcquire 1) (SDo (ORelease 1) SEnd).

Definition sacts_inh : list saction :=     (* ... up to X queued on lock 1, W1 inherits -5 *)
  [XSpawn (SPrio 0) sH; XStep; XSpawn (SPrio 5) sW1; XSpawn (SPrio 3) sW2;
   XStep; XStep; XStep; XSpawn (SPrio (-5)) sX; XStep; XStep].
Definition sacts_cancel : list saction :=  (* X.cancel(); H sleeps; X runs acquire's finally *)
  [XDo (OCancel 3); XStep; XStep].
Definition sacts_rel : list saction := [XStep].   (* H releases lock 0 *)
Definition st0 : st := init_st false 0 [] [LPrio; LPrio] [] 0.
Definition run_to (l : list saction) : st := fold_left do_action (map act l) st0.
Definition istStale : st := run_to (sacts_inh ++ sacts_cancel).
Definition istAfter : st := run_to (sacts_inh ++ sacts_cancel ++ sacts_rel).

(* the run has no eager spawn (and no spawn from inside a task at all) *)
Fixpoint script_flat (s : script) : bool :=
  match s with
  | SDo _ r | SLogExc r => script_flat r
  | SSpawn _ _ _ => false
  | STry b _ h f r => script_flat b && script_flat h && script_flat f && script_flat r
  | STimeout _ b r => script_flat b && script_flat r
  | _ => true
  end.
Definition sact_no_eager (a : saction) : bool :=
  match a with XSpawn SEager _ => false | XSpawn _ s => script_flat s | _ => true end.
Example stale_no_eager : forallb sact_no_eager (sacts_inh ++ sacts_cancel ++ sacts_rel) = true.
Proof. reflexivity. Qed.

Example stale_run_ok : run_ok st0 (map act ((sacts_inh ++ sacts_cancel) ++ sacts_rel)).
Proof. vm_compute. repeat split. Qed.

Example reachable_istStale : reachable istStale.
Proof.
  exists false, 0%Q, [], [LPrio; LPrio], [], 0, (map act (sacts_inh ++ sacts_cancel)).
  split; [|reflexivity].
  apply (run_ok_app st0 _ (map act sacts_rel)). rewrite <- map_app. apply stale_run_ok.
Qed.
Example reachable_istAfter : reachable istAfter.
Proof.
  exists false, 0%Q, [], [LPrio; LPrio], [], 0, (map act (sacts_inh ++ sacts_cancel ++ sacts_rel)).
  split; [|reflexivity]. rewrite app_assoc. apply stale_run_ok.
Qed.

(* the wait-for graph of istStale is acyclic: W1, W2 wait for H; nobody waits for W1 *)
Lemma istStale_graph :
  (tholding (gett istStale 0) = [0] /\ tholding (gett istStale 1) = [1] /\
   tholding (gett istStale 2) = [] /\ tholding (gett istStale 3) = []) /\
  (lock_waiter_tasks (getl istStale 0) = [1; 2] /\ lock_waiter_tasks (getl istStale 1) = []) /\
  efuel istStale = 7.
Proof. repeat split; vm_compute; reflexivity. Qed.
Example istStale_ranked : ranked istStale.
Proof.
  destruct istStale_graph as ((H0 & H1 & H2 & H3) & (W0 & W1) & Hf).
  exists (fun t => match t with 0 => 1 | _ => 0 end). split.
  - intros w t (l & Hl & Hw). destruct t as [|[|[|[|t]]]].
    + rewrite H0 in Hl. destruct Hl as [<-|[]]. rewrite W0 in Hw. destruct Hw as [<-|[<-|[]]]; lia.
    + rewrite H1 in Hl. destruct Hl as [<-|[]]. rewrite W1 in Hw. destruct Hw.
    + rewrite H2 in Hl. destruct Hl.
    + rewrite H3 in Hl. destruct Hl.
    + rewrite gett_oob in Hl by (vm_compute; lia). destruct Hl.
  - intros t. rewrite Hf. destruct t; lia.
Qed.

Lemma istStale_arr0 : arr (lpq (getl istStale 0)) = [mkE (-5)%Q 0 3; mkE 3%Q 1 4].
Proof. vm_compute; reflexivity. Qed.

Example istStale_facts :
  (* lock 0: W1's entry (future 3) still carries the inherited key -5 ... *)
  arr (lpq (getl istStale 0)) = [mkE (-5)%Q 0 3; mkE 3%Q 1 4] /\
  lwt (getl istStale 0) = [(3, 1); (4, 2)] /\
  (* ... X has left lock 1, which W1 still holds ... *)
  arr (lpq (getl istStale 1)) = [] /\ lowner (getl istStale 1) = Some 1 /\
  lowner (getl istStale 0) = Some 0 /\
  (* ... so W1's effective priority is back to its own 5 (H: 0, W2: 3, X: -5) *)
  map (fun t => Qred (effective_priority istStale t)) [0; 1; 2; 3] = [0%Q; 5%Q; 3%Q; (-5)%Q] /\
  map (fun t => Qred (wprio istStale t)) [1; 2] = [5%Q; 3%Q] /\
  (* both waiters of lock 0 are live; X's future 6 is cancelled *)
  map (fun f => fstate_ (getf istStale f)) [3; 4; 6] = [FPending; FPending; FCancelled] /\
  live istStale (mkE (-5)%Q 0 3) /\ live istStale (mkE 3%Q 1 4) /\
  ~ keyed istStale 0.
Proof.
  split; [apply istStale_arr0|]. do 9 (split; [vm_compute; reflexivity|]).
  intros K. specialize (K (mkE (-5)%Q 0 3)).
  assert (E : (-5 == wprio istStale (entry_task (getl istStale 0) (mkE (-5)%Q 0 3)))%Q).
  { apply K; [rewrite istStale_arr0; simpl; auto|vm_compute; reflexivity]. }
  assert (E2 : (wprio istStale (entry_task (getl istStale 0) (mkE (-5)%Q 0 3)) == 5)%Q)
    by (vm_compute; reflexivity).
  lra.
Qed.

(* H releases lock 0: W1 (effective priority 5, stale key -5) gets the lock although the
   live waiter W2 (effective priority 3) is `before` it; the conclusion of
   handover_by_eprio fails in a reachable, acyclic state *)
Definition istStale_free : st := pre_wake istStale 0 0.
Lemma istStale_before :
  before istStale_free 0 (mkE 3%Q 1 4) (mkE (-5)%Q 0 3) /\
  ~ before istStale_free 0 (mkE (-5)%Q 0 3) (mkE 3%Q 1 4).
Proof.
  unfold before; cbv zeta.
  set (p1 := wprio _ (entry_task _ (mkE (-5)%Q 0 3))). set (p2 := wprio _ (entry_task _ (mkE 3%Q 1 4))).
  assert (E1 : (p1 == 5)%Q) by (vm_compute; reflexivity).
  assert (E2 : (p2 == 3)%Q) by (vm_compute; reflexivity).
  split; [left; lra|intros [L|[E _]]; lra].
Qed.
Example istStale_handover :
  release_p istStale 0 0 = (wake_up_first_p istStale_free 0, RVal 0) /\
  arr (lpq (getl istStale_free 0)) = [mkE (-5)%Q 0 3; mkE 3%Q 1 4] /\
  map (fun t => Qred (wprio istStale_free t)) [1; 2] = [5%Q; 3%Q] /\
  live istStale_free (mkE (-5)%Q 0 3) /\ live istStale_free (mkE 3%Q 1 4) /\
  (* W2's entry is `before` W1's, not the other way round, but W1's future is resolved *)
  before istStale_free 0 (mkE 3%Q 1 4) (mkE (-5)%Q 0 3) /\
  ~ before istStale_free 0 (mkE (-5)%Q 0 3) (mkE 3%Q 1 4) /\
  map (fun f => fstate_ (getf (wake_up_first_p istStale_free 0) f)) [3; 4] = [FResult 1; FPending] /\
  (* the same in the run itself *)
  map (fun f => fstate_ (getf istAfter f)) [3; 4] = [FResult 1; FPending] /\
  map (fun t => Qred (effective_priority istAfter t)) [1; 2] = [5%Q; 3%Q].
Proof.
  split; [apply release_p_wake; vm_compute; reflexivity|].
  do 4 (split; [vm_compute; reflexivity|]).
  split; [apply istStale_before|]. split; [apply istStale_before|].
  repeat split; vm_compute; reflexivity.
Qed.

Print Assumptions istStale_facts.
Print Assumptions istStale_handover.
Print Assumptions reachable_istStale.
