(* C08 liveness, computed instance: three tasks A, B, C on the list loop; C's first step (handle 2)
   has two entries ahead of it.  A executes task_switch(B, insert_pos=5): B is moved to the
   front (it already is), and A's re-insertion callback is put at position 0 by call_pos - one
   entry pushed in front of handle 2 (K = 1); running that callback moves A's own step handle,
   which is behind handle 2, and pushes nothing.  Handle 2 reaches the head after exactly
   ahead + K = 3 steps and is run by step ahead + K + 1 = 4: the bound of runs_eventually is
   attained.  (Without the switch it would be run by step 3.) *)
From Coq Require Import QArith.
From RecordUpdate Require Import RecordUpdate.
From Asynkit Require Import Base.Prelude Sched.Model Sched.Corr Sched.LockLive Sched.LockProgress
  Sched.QueuePosition Sched.Liveness08.
Open Scope nat_scope.

Definition xA : script := SDo (OTaskSwitch 1 (Some 5)) SEnd.
Definition xB : script := SDo OSleep0 SEnd.
Definition x_pre : list action := map act [XSpawn SPlain xA; XSpawn SPlain xB; XSpawn SPlain xB].
Definition x_s : st := fold_left do_action x_pre (init_st false 0 [] [] [] 0).

Lemma x_queue :
  items x_s = [0; 1; 2] /\
  map (fun j => items (steps j x_s)) [1; 2; 3; 4] = [[3; 1; 2; 4]; [1; 2; 4]; [2; 4; 5]; [4; 5; 6]] /\
  map (fun h => hcb (geth (steps 3 x_s) h)) [2; 3] = [HStep 2 None; HReinsert 0 5].
Proof. vm_compute. auto. Qed.

Lemma x_ahead : ahead x_s 2 = 2 /\ pushes 3 x_s 2 = 1 /\
  map (fun j => pushed (steps j x_s) 2) [0; 1; 2] = [1; 0; 0].
Proof. vm_compute. auto. Qed.

Lemma x_listq : listq 3 x_s.
Proof. cbn [listq]. repeat split; eexists; vm_compute; reflexivity. Qed.

Lemma x_kept : kept 3 x_s 2.
Proof.
  cbn [kept]. repeat split; intros Hq Ha; vm_compute in Ha |- *; first [lia | tauto | auto 8].
Qed.

Lemma x_queued : queued x_s 2.
Proof. vm_compute. auto. Qed.

(* the theorem applies with K = 1 ... *)
Lemma x_applies :
  exists j rest, j <= 2 + 1 /\
    (forall i, i < j -> queued (steps i x_s) 2 /\ 0 < ahead (steps i x_s) 2) /\
    ready (steps j x_s) = RList (2 :: rest) /\
    do_action (steps j x_s) AStep =
      (let s1 := steps j x_s <| ready := RList rest |> in
       if hcancelled (geth (steps j x_s) 2) then s1 else run_callback (hcb (geth (steps j x_s) 2)) s1).
Proof.
  destruct x_ahead as (A & P & _).
  destruct (runs_eventually 3 x_s 2 1 x_listq x_kept) as (j & rest & Hj & H); [lia|exact x_queued|lia|].
  exists j, rest. split; [lia|exact H].
Qed.

(* ... and the bound is attained: the handle is at the head after exactly ahead + K = 3 steps,
   not before, it is not cancelled, and step 4 runs task 2 *)
Lemma x_attained :
  (forall j, j < 3 -> hd 0 (items (steps j x_s)) <> 2) /\
  ready (steps 3 x_s) = RList [2; 4; 5] /\
  hcancelled (geth (steps 3 x_s) 2) = false /\ hcb (geth (steps 3 x_s) 2) = HStep 2 None /\
  ~ queued (steps 4 x_s) 2.
Proof.
  split.
  - intros j Hj. destruct j as [|[|[|j]]]; [vm_compute; lia ..|lia].
  - vm_compute. repeat split. intros H. repeat (destruct H as [H|H]; [lia|]). exact H.
Qed.
