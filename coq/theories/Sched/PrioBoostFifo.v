(* C10, equal priorities with starvation boosting ENABLED (any boost factor, any random draws):
   when every regular entry of the queue has the same priority value, do_maintenance finds no
   entry to boost (the boost condition is "priority strictly greater than the minimum"), so the
   queue with factor f behaves exactly like the same queue with factor 0: every operation
   commutes with [zero] (set the factor to 0).  Hence the isomorphism with the list queue
   (PrioLoopProofs.Riso) holds for every boost factor. *)
From Coq Require Import QArith Lqa Sorting.Sorted Sorting.Permutation.
From RecordUpdate Require Import RecordUpdate.
From Asynkit Require Import Base.Prelude Queue.ListFacts Queue.PQ Queue.Order Queue.Heap
     Queue.HeapqProofs Queue.PQProofs Queue.PosPQ Queue.PosProofs Queue.PosInsert Queue.PosList
     Queue.Exec Sched.Model Sched.PartTables Sched.PrioQueueProofs Sched.PrioLoopProofs.
Open Scope nat_scope.

Definition zero (s : pos) : pos := mkPos (pq_ s) (last_maint s) (n_ins s) (n_rem s) 0 (draws s).

(* positional, or of priority value c *)
Definition regc (c : Q) (e : entry pv) : Prop :=
  pclass (epri e) = 0%Z \/ pv_priority (epri e) == c.
Definition flatc (c : Q) (a : list (entry pv)) : Prop := Forall (regc c) a.

Lemma flatc_perm c a a' : Permutation a a' -> flatc c a -> flatc c a'.
Proof. apply Permutation_Forall. Qed.

Lemma qmin_eq c x y : x == c -> y == c -> qmin x y == c.
Proof. intros Hx Hy. unfold qmin. destruct (qltb y x); auto. Qed.

Lemma minmax_flat c a : forall mn, flatc c a -> mn == c -> minmax_loop a mn == c.
Proof.
  induction a as [|e a IH]; intros mn Hf Hm; simpl; auto.
  inversion Hf as [|? ? He Ha]; subst.
  destruct (pclass (epri e) =? 0)%Z eqn:Ec; [apply IH; auto|].
  apply IH; auto. destruct He as [He|He]; [apply Z.eqb_neq in Ec; lia|]. apply qmin_eq; auto.
Qed.

Lemma boost_loop_flat c a limit mp f : forall ds,
  flatc c a -> mp == c -> boost_loop a limit mp f ds = (a, ds, 0).
Proof.
  induction a as [|e a IH]; intros ds Hf Hm; simpl; auto.
  inversion Hf as [|? ? He Ha]; subst.
  assert (Hc : (pclass (epri e) =? 0)%Z || negb (ins_at (epri e) <? limit)%Z
               || negb (qltb mp (pv_priority (epri e))) = true).
  { destruct He as [He|He].
    - rewrite He. reflexivity.
    - assert (Hq : qltb mp (pv_priority (epri e)) = false) by (apply qltb_ge; lra).
      rewrite Hq. simpl. apply orb_true_r. }
  rewrite Hc. rewrite IH; auto.
Qed.

Lemma find_regular_flat c a r :
  flatc c a -> find (fun e => negb (pclass (epri e) =? 0)%Z) a = Some r -> pv_priority (epri r) == c.
Proof.
  intros Hf Hr. apply List.find_some in Hr. destruct Hr as [Hin Hc].
  unfold flatc in Hf. rewrite Forall_forall in Hf. destruct (Hf r Hin) as [H0|Hq]; auto.
  rewrite H0 in Hc. discriminate.
Qed.

(* nothing to boost *)
Lemma do_maintenance_flat c s : flatc c (arr (pq_ s)) -> do_maintenance HPV s = s.
Proof.
  intros Hf. unfold do_maintenance. destruct (Qeq_bool (factor s) 0); auto.
  destruct (find _ (arr (pq_ s))) as [r|] eqn:Er; auto.
  destruct (has_straggler _ _); auto.
  rewrite (boost_loop_flat c); auto.
  - destruct s as [[sq a] lm ni nr f ds]. reflexivity.
  - apply minmax_flat; auto. eapply find_regular_flat; eauto.
Qed.

Lemma update_counters_zero c s b :
  flatc c (arr (pq_ s)) -> zero (update_counters HPV s b) = update_counters HPV (zero s) b.
Proof.
  intros Hf. unfold update_counters. destruct b.
  - change (plen (mkPos (pq_ s) (last_maint s) (n_ins s + 1) (n_rem s) (factor s) (draws s))) with (plen s).
    change (plen (mkPos (pq_ (zero s)) (last_maint (zero s)) (n_ins (zero s) + 1) (n_rem (zero s))
                        (factor (zero s)) (draws (zero s)))) with (plen s).
    cbn [last_maint n_ins n_rem zero pq_ factor draws].
    destruct (_ <? _)%Z; [|reflexivity].
    rewrite (do_maintenance_flat c) by exact Hf.
    rewrite (do_maintenance_off HPV) by reflexivity. reflexivity.
  - change (plen (zero s)) with (plen s). destruct (0 <? plen s)%Z; reflexivity.
Qed.

Lemma with_pq_zero s q : zero (with_pq s q) = with_pq (zero s) q.
Proof. reflexivity. Qed.

(* ---- the operations that touch the counters commute with [zero] ---- *)
Lemma append_zero c s o p :
  flatc c (arr (pq_ s)) -> p == c ->
  zero (pos_append_pri HPV s o p) = pos_append_pri HPV (zero s) o p /\
  flatc c (arr (pq_ (pos_append_pri HPV (zero s) o p))).
Proof.
  intros Hf Hp. unfold pos_append_pri.
  assert (Hf' : flatc c (arr (pq_add HPV (pq_ s) (mkPV p (n_ins s) 0 1) o))).
  { eapply flatc_perm; [apply Permutation_sym, (add_perm HPV HPV_spec)|]. constructor; auto.
    right. unfold pv_priority. simpl. lra. }
  split.
  - rewrite (update_counters_zero c) by exact Hf'. reflexivity.
  - match goal with |- flatc c (arr (pq_ (update_counters HPV ?x true))) =>
      destruct (update_counters_off HPV x true eq_refl) as [E _]; rewrite E end.
    exact Hf'.
Qed.

Lemma flatc_reset c sq a : flatc c a -> flatc c (arr (reset_if_empty sq a)).
Proof. intros Hf. unfold reset_if_empty. simpl. exact Hf. Qed.

Lemma popleft_zero c s :
  flatc c (arr (pq_ s)) ->
  pos_popleft HPV (zero s) =
    match pos_popleft HPV s with None => None | Some (o, s') => Some (o, zero s') end /\
  (forall o s', pos_popleft HPV s = Some (o, s') -> flatc c (arr (pq_ s'))).
Proof.
  intros Hf. unfold pos_popleft. change (pq_ (zero s)) with (pq_ s).
  unfold pq_popentry. destruct (heappop HPV (arr (pq_ s))) as [[e a']|] eqn:Ep.
  - assert (Hf' : flatc c (arr (reset_if_empty (seqn (pq_ s)) a'))).
    { apply flatc_reset. pose proof (hs_pop_perm HPV_spec _ _ _ Ep) as Hperm.
      apply (flatc_perm c _ _ Hperm) in Hf. inversion Hf; auto. }
    split.
    + rewrite <- with_pq_zero, (update_counters_zero c) by exact Hf'. reflexivity.
    + intros o s' E. inversion E; subst.
      unfold update_counters. destruct (0 <? _)%Z; exact Hf'.
  - split; [reflexivity | discriminate].
Qed.

Lemma remove_zero c s o :
  PInvv (zero s) -> flatc c (arr (pq_ s)) ->
  pos_remove HPV (zero s) o =
    match pos_remove HPV s o with None => None | Some s' => Some (zero s') end.
Proof.
  intros (Hi & _) Hf. unfold pos_remove. change (pq_ (zero s)) with (pq_ s) in *.
  destruct (pq_remove HPV (pq_ s) o) as [[pr q]|] eqn:Er; [|reflexivity].
  destruct (remove_inv HPV HPV_sw HPV_spec _ _ _ _ Hi Er) as (_ & e & _ & _ & Hperm).
  assert (Hf' : flatc c (arr q)).
  { apply (flatc_perm c _ _ Hperm) in Hf. inversion Hf; auto. }
  rewrite <- with_pq_zero, (update_counters_zero c) by exact Hf'. reflexivity.
Qed.

Lemma promote_zero c k : forall s acc,
  flatc c (arr (pq_ s)) ->
  promote HPV k (zero s) acc =
    (let '(s1, pr, ok) := promote HPV k s acc in (zero s1, pr, ok)) /\
  flatc c (arr (pq_ (fst (fst (promote HPV k s acc))))).
Proof.
  induction k as [|k IH]; intros s acc Hf; cbn [promote]; [auto|].
  destruct (popleft_zero c s Hf) as [E Hnext]. rewrite E.
  destruct (pos_popleft HPV s) as [[o s']|]; [|auto].
  apply IH. eapply Hnext; eauto.
Qed.

Lemma fold_add_flat c p os : forall q,
  flatc c (arr q) -> pclass p = 0%Z ->
  flatc c (arr (fold_left (fun q o => pq_add HPV q p o) os q)).
Proof.
  induction os as [|o os IH]; intros q Hf Hp; simpl; auto.
  apply IH; auto. eapply flatc_perm; [apply Permutation_sym, (add_perm HPV HPV_spec)|].
  constructor; auto. left. exact Hp.
Qed.

Lemma insert_zero c s k o :
  flatc c (arr (pq_ s)) -> zero (pos_insert HPV s k o) = pos_insert HPV (zero s) k o.
Proof.
  intros Hf. unfold pos_insert. destruct (promote_zero c k s [] Hf) as [E Hf1]. rewrite E.
  destruct (promote HPV k s []) as [[s1 pr] ok]. cbn [fst] in Hf1.
  change (pq_ (zero s1)) with (pq_ s1). change (n_ins (zero s1)) with (n_ins s1).
  rewrite <- with_pq_zero. rewrite <- (update_counters_zero c); [reflexivity|].
  cbn [with_pq pq_]. apply fold_add_flat; auto.
Qed.

(* ---- the ready queue of the scheduler model, any boost factor ---- *)
Definition zero_rq (r : rq) : rq := match r with RPos p => RPos (zero p) | RList l => RList l end.

Lemma rq_items_zero r : rq_items (zero_rq r) = rq_items r.
Proof. destruct r; reflexivity. Qed.

(* [Riso c (zero_rq rp) rl]: rp is a PosPriorityQueue with ANY boost factor and draws whose
   array satisfies the queue invariant, all regular entries have priority == c, and rl is its
   run order *)
Definition RisoB (c : Q) (rp rl : rq) : Prop := Riso c (zero_rq rp) rl.

Lemma RisoB_flat c p rl : RisoB c (RPos p) rl -> PInvv (zero p) /\ flatc c (arr (pq_ p)).
Proof.
  destruct rl as [l|p0]; [|intros []]. intros (Hp & Hfl & _). split; auto.
  pose proof (plist_cls HPV (zero p) Hp) as Hc.
  apply (flatc_perm c _ _ (plist_perm HPV (zero p))).
  unfold flatc. rewrite Forall_forall in *. intros x Hx. destruct (Hfl x Hx) as [_ Hq].
  destruct (Hc x Hx) as [[H0 _]|H1]; [left; auto | right; auto].
Qed.

Theorem isoB_empty c f ds : RisoB c (RPos (pos_empty f ds)) (RList []).
Proof. apply (Riso_empty c ds). Qed.

Theorem isoB_append c rp rl h pr :
  RisoB c rp rl -> pr == c -> RisoB c (rq_append rp h pr) (rq_append rl h pr).
Proof.
  intros HR Hpr. destruct rp as [l0|p]; [destruct HR|].
  destruct (RisoB_flat c p rl HR) as [_ Hf].
  unfold RisoB. cbn [rq_append zero_rq].
  destruct (append_zero c p (Z.of_nat h) pr Hf Hpr) as [E _]. rewrite E.
  apply (iso_append c (RPos (zero p)) rl h pr HR Hpr).
Qed.

Theorem isoB_popleft c rp rl :
  RisoB c rp rl ->
  match rq_popleft rp, rq_popleft rl with
  | None, None => True
  | Some (h, rp'), Some (h', rl') => h = h' /\ RisoB c rp' rl'
  | _, _ => False
  end.
Proof.
  intros HR. destruct rp as [l0|p]; [destruct HR|].
  destruct (RisoB_flat c p rl HR) as [_ Hf].
  pose proof (iso_popleft c (RPos (zero p)) rl HR) as Hi.
  cbn [rq_popleft] in *. destruct (popleft_zero c p Hf) as [E _]. rewrite E in Hi.
  destruct (pos_popleft HPV p) as [[o p']|]; exact Hi.
Qed.

Theorem isoB_insert_pos c rp rl k h :
  RisoB c rp rl -> RisoB c (rq_insert_pos rp k h) (rq_insert_pos rl k h).
Proof.
  intros HR. destruct rp as [l0|p]; [destruct HR|].
  destruct (RisoB_flat c p rl HR) as [_ Hf].
  unfold RisoB. cbn [rq_insert_pos zero_rq]. rewrite (insert_zero c) by exact Hf.
  apply (iso_insert_pos c (RPos (zero p)) rl k h HR).
Qed.

Theorem isoB_find c rp rl key rm :
  RisoB c rp rl -> cnt key (rq_items rl) <= 1 ->
  match rq_find rp key rm, rq_find rl key rm with
  | None, None => True
  | Some (h, rp'), Some (h', rl') => h = h' /\ RisoB c rp' rl'
  | _, _ => False
  end.
Proof.
  intros HR Hc. destruct rp as [l0|p]; [destruct HR|].
  pose proof (iso_find c (RPos (zero p)) rl key rm HR Hc) as Hi.
  cbn [rq_find] in *. unfold pos_find in *. change (pq_ (zero p)) with (pq_ p) in Hi.
  destruct (pq_find HPV (pq_ p) _ rm) as [[e q]|]; exact Hi.
Qed.

Theorem isoB_remove c rp rl h :
  RisoB c rp rl -> cnt (Nat.eqb h) (rq_items rl) <= 1 ->
  match rq_remove rp h, rq_remove rl h with
  | None, None => True
  | Some rp', Some rl' => RisoB c rp' rl'
  | _, _ => False
  end.
Proof.
  intros HR Hc. destruct rp as [l0|p]; [destruct HR|].
  destruct (RisoB_flat c p rl HR) as [Hp Hf].
  pose proof (iso_remove c (RPos (zero p)) rl h HR Hc) as Hi.
  cbn [rq_remove] in *. rewrite (remove_zero c p _ Hp Hf) in Hi.
  destruct (pos_remove HPV p (Z.of_nat h)) as [p'|]; exact Hi.
Qed.

Theorem isoB_reschedule c rp rl key pr :
  RisoB c rp rl -> pr == c -> rq_reschedule rp key pr = rp /\ rq_reschedule rl key pr = rl.
Proof.
  intros HR Hpr. destruct rp as [l0|p]; [destruct HR|].
  destruct (iso_reschedule c (RPos (zero p)) rl key pr HR Hpr) as [E1 E2]. split; auto.
  cbn [rq_reschedule] in *. unfold pos_reschedule, pos_reschedule_reg in *.
  change (pq_ (zero p)) with (pq_ p) in E1. change (n_ins (zero p)) with (n_ins p) in E1.
  destruct (pq_find HPV (pq_ p) _ false) as [[e q]|]; auto.
  destruct (pclass (epri e) =? 0)%Z; auto.
  destruct (pq_reschedule HPV (pq_ p) _ _) as [[o q']|]; auto.
  assert (Eq : with_pq (zero p) q' = zero p) by congruence.
  assert (Eq' : q' = pq_ p) by (apply (f_equal pq_) in Eq; exact Eq).
  rewrite Eq'. rewrite with_pq_id. reflexivity.
Qed.

Theorem isoB_iter c p rl :
  RisoB c (RPos p) rl ->
  RisoB c (RPos (snd (pos_iter HPV p))) rl /\ RList (map Z.to_nat (fst (pos_iter HPV p))) = rl.
Proof.
  intros HR. exact (iso_iter c (zero p) rl HR).
Qed.
