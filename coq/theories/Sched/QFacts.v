(* Facts about the PriorityQueue of waiter futures of a PriorityLock /
   PriorityCondition, instantiated at the executable heap [HQ] (priorities in Q):
   which future ids are queued after add / remove / reschedule / ordered_take. *)
From Coq Require Import QArith Lqa Sorting.Permutation.
From Asynkit Require Import Base.Prelude Queue.PQ Queue.Order Queue.Heap Queue.HeapqProofs
  Queue.PQProofs Queue.PosPQ Queue.PosProofs Queue.Exec Sched.Model.
Open Scope nat_scope.

Lemma qltb_strict_weak : StrictWeak qltb.
Proof.
  constructor.
  - intros a. apply qltb_ge. lra.
  - intros a b c. rewrite !qltb_lt. lra.
  - intros a b c. rewrite !qltb_ge. intros. split; lra.
Qed.

Lemma HQ_spec : HeapSpec HQ.
Proof. exact (heapq_model_spec qltb 0%Q qltb_strict_weak). Qed.

Lemma HQ_sw : StrictWeak (plt HQ).
Proof. exact qltb_strict_weak. Qed.

Definition PQInv (q : pq Q) : Prop := PQProofs.Inv HQ q.

(* well-formed waiter queue: heap invariant, distinct non-negative objects *)
Definition qwf (q : pq Q) : Prop :=
  PQInv q /\ NoDup (pq_objs q) /\ Forall (fun e => (0 <= eobj e)%Z) (arr q).

Lemma PQInv_empty : PQInv pq_empty.
Proof. apply Inv_empty. Qed.

Lemma qwf_empty : qwf pq_empty.
Proof. split; [apply PQInv_empty|]. split; constructor. Qed.

Definition objs_of (a : list (entry Q)) : list nat := map (fun e => Z.to_nat (eobj e)) a.

Lemma pq_objs_eq q : pq_objs q = objs_of (arr q).
Proof. reflexivity. Qed.

Lemma objs_of_perm a b : Permutation a b -> Permutation (objs_of a) (objs_of b).
Proof. apply Permutation_map. Qed.

Lemma pq_objs_add q p f :
  Permutation (pq_objs (pq_add HQ q p (Z.of_nat f))) (f :: pq_objs q).
Proof.
  rewrite !pq_objs_eq.
  eapply perm_trans; [apply objs_of_perm, (add_perm HQ HQ_spec)|].
  simpl. rewrite Nat2Z.id. reflexivity.
Qed.

Lemma PQInv_add q p o : PQInv q -> PQInv (pq_add HQ q p o).
Proof. apply (add_inv HQ HQ_spec). Qed.

Lemma qwf_add q p f : qwf q -> ~ In f (pq_objs q) -> qwf (pq_add HQ q p (Z.of_nat f)).
Proof.
  intros (Hi & Hn & Hp) Hf. split; [now apply PQInv_add|]. split.
  - eapply Permutation_NoDup; [apply Permutation_sym, pq_objs_add|]. now constructor.
  - eapply Permutation_Forall; [apply Permutation_sym, (add_perm HQ HQ_spec)|].
    constructor; auto. simpl. lia.
Qed.

Lemma pq_remove_perm q o p q' :
  PQInv q -> pq_remove HQ q o = Some (p, q') ->
  PQInv q' /\ exists e, eobj e = o /\ Permutation (arr q) (e :: arr q').
Proof.
  intros Hi E. destruct (remove_inv HQ HQ_sw HQ_spec _ _ _ _ Hi E) as (Hi' & e & Ho & _ & Hp).
  split; auto. exists e. auto.
Qed.

Lemma pq_remove_objs q f p q' :
  PQInv q -> pq_remove HQ q (Z.of_nat f) = Some (p, q') ->
  PQInv q' /\ Permutation (pq_objs q) (f :: pq_objs q').
Proof.
  intros Hi E. destruct (pq_remove_perm _ _ _ _ Hi E) as (Hi' & e & Ho & Hp). split; auto.
  rewrite !pq_objs_eq. eapply perm_trans; [apply objs_of_perm, Hp|].
  simpl. rewrite Ho, Nat2Z.id. reflexivity.
Qed.

Lemma qwf_remove q f p q' :
  qwf q -> pq_remove HQ q (Z.of_nat f) = Some (p, q') ->
  qwf q' /\ Permutation (pq_objs q) (f :: pq_objs q') /\ ~ In f (pq_objs q').
Proof.
  intros (Hi & Hn & Hp) E.
  destruct (pq_remove_perm _ _ _ _ Hi E) as (Hi' & e & Ho & Hpe).
  destruct (pq_remove_objs _ _ _ _ Hi E) as (_ & Hpo).
  pose proof (Permutation_NoDup Hpo Hn) as Hn'. inversion Hn' as [|? ? Hnf Hn'']; subst.
  split; [|split; auto]. split; auto. split; auto.
  pose proof (Permutation_Forall Hpe Hp) as Hf. now inversion Hf.
Qed.

Lemma find_index_none_in (key : Z -> bool) (a : list (entry Q)) :
  find_index key a = None -> forall e, In e a -> key (eobj e) = false.
Proof.
  induction a as [|x a IH]; simpl; intros E e [].
  - subst x. destruct (key (eobj e)); [discriminate|reflexivity].
  - destruct (key (eobj x)); [discriminate|].
    destruct (find_index key a); [discriminate|]. now apply IH.
Qed.

Lemma heappop_HQ_some a : a <> [] -> exists e a', heappop HQ a = Some (e, a').
Proof. apply (hs_pop_some HQ_spec). Qed.

Lemma pq_remove_none q f :
  qwf q -> pq_remove HQ q (Z.of_nat f) = None -> ~ In f (pq_objs q).
Proof.
  intros (Hi & Hn & Hp) E Hin.
  unfold pq_remove in E.
  destruct (find_index (Z.eqb (Z.of_nat f)) (arr q)) as [i|] eqn:Ef.
  - destruct (Nat.eqb i 0).
    + destruct (heappop HQ (arr q)) as [[e a']|] eqn:Ep; [discriminate|].
      assert (arr q <> []) as Hne.
      { intros Hnil. rewrite Hnil in Ef. discriminate. }
      destruct (heappop_HQ_some _ Hne) as (e & a' & Ep'). congruence.
    + destruct (Nat.eqb i (length (arr q) - 1)); discriminate.
  - rewrite pq_objs_eq in Hin. apply in_map_iff in Hin as (e & Ee & Hin).
    pose proof (find_index_none_in _ _ Ef e Hin) as Hk.
    rewrite Forall_forall in Hp. specialize (Hp _ Hin).
    apply Z.eqb_neq in Hk. apply Hk. subst f. rewrite Z2Nat.id; auto.
Qed.

Lemma pq_resched_objs q key np o q' :
  qwf q -> pq_reschedule HQ q key np = Some (o, q') ->
  qwf q' /\ Permutation (pq_objs q') (pq_objs q).
Proof.
  intros (Hi & Hn & Hp) E.
  destruct (resched_inv HQ HQ_spec _ _ _ _ _ Hi E) as (Hi' & _ & e & r & Hin & Ho & Hpe & Hq).
  destruct Hq as [->|[Hpq _]].
  - split; [split; auto|reflexivity].
  - assert (Hpo : Permutation (pq_objs q') (pq_objs q)).
    { rewrite !pq_objs_eq. eapply perm_trans; [apply objs_of_perm, Hpq|].
      eapply perm_trans; [|apply Permutation_sym, objs_of_perm, Hpe]. simpl. now rewrite Ho. }
    split; auto. split; auto. split.
    + eapply Permutation_NoDup; [apply Permutation_sym, Hpo|auto].
    + eapply Permutation_Forall; [apply Permutation_sym, Hpq|].
      pose proof (Permutation_Forall Hpe Hp) as Hf. inversion Hf as [|? ? He Hr].
      constructor; [simpl; rewrite <- Ho; exact He | exact Hr].
Qed.

Lemma pq_add_in q p f x :
  In x (pq_objs (pq_add HQ q p (Z.of_nat f))) -> x = f \/ In x (pq_objs q).
Proof.
  intros H. eapply Permutation_in in H; [|apply pq_objs_add]. destruct H; auto.
Qed.

Lemma pq_remove_in q o p q' x :
  PQInv q -> pq_remove HQ q o = Some (p, q') -> In x (pq_objs q') -> In x (pq_objs q).
Proof.
  intros Hi E Hx. destruct (pq_remove_perm _ _ _ _ Hi E) as (_ & e & _ & Hp).
  rewrite pq_objs_eq in *. eapply Permutation_in; [apply Permutation_sym, objs_of_perm, Hp|].
  simpl. auto.
Qed.

Lemma pq_take_inv q n :
  PQInv q -> PQInv (snd (pq_ordered_take HQ q n)) /\
             Permutation (pq_objs (snd (pq_ordered_take HQ q n))) (pq_objs q).
Proof.
  intros Hi. destruct (pq_ordered_take HQ q n) as [ys q'] eqn:E.
  destruct (ordered_take_spec HQ HQ_sw HQ_spec _ _ _ _ Hi E) as (_ & Hi' & Hp & _).
  split; auto. simpl. rewrite !pq_objs_eq. now apply objs_of_perm.
Qed.
