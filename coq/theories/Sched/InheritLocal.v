(* C12, nested waiters: effective priorities are LOCAL - a change of the wait-for graph changes
   the effective priority only of the tasks "above" the change - and, as a first consequence,
   release() by a task that is not queued anywhere keeps every stored key equal to the waiter's
   effective priority ([keyed] for all locks). *)
From Coq Require Import QArith Lqa Sorting.Permutation.
From RecordUpdate Require Import RecordUpdate.
From Asynkit Require Import Base.Prelude Queue.PQ Queue.Order Queue.PosPQ Queue.Exec
  Sched.Model Sched.Tables Sched.QFacts Sched.LockInv Sched.Footprint Sched.LockOps Sched.LockLib
  Sched.LockProofs Sched.LockThms Sched.InheritEprio Sched.InheritHandover Sched.InheritKeys
  Sched.InheritFalls Sched.WaitInv Sched.WaitOps Sched.WaitProofs.
From Asynkit Require Import Sched.OrderInv Sched.OrderPass Sched.OrderThms Sched.OrderExample.
Import RecordSetNotations.
Open Scope nat_scope.

(* ------------------------------------------------------------ locality of effective priorities *)
Section Local.
Variables (s s' : st) (rank rank' : nat -> nat) (D : nat -> Prop).
Hypothesis Hr : forall w t, waits_on s w t -> rank w < rank t.
Hypothesis Hb : forall t, rank t <= efuel s.
Hypothesis Hr' : forall w t, waits_on s' w t -> rank' w < rank' t.
Hypothesis Hb' : forall t, rank' t <= efuel s'.
(* outside the dirty set D: same priority, same waiters (up to order), and D is closed upwards
   (a waiter of a clean task is clean) *)
Hypothesis Hp : forall x, ~ D x -> tprio (gett s' x) = tprio (gett s x).
Hypothesis Hw : forall x, ~ D x -> Permutation (waiters_of s' x) (waiters_of s x).
Hypothesis Hup : forall x w, ~ D x -> In w (waiters_of s x) -> ~ D w.

Theorem eprio_local : forall x, ~ D x -> (effective_priority s' x == effective_priority s x)%Q.
Proof.
  intros x. remember (rank x) as n eqn:En. revert x En.
  induction n as [n IH] using lt_wf_ind. intros x En Hx.
  assert (Ho : own s' x = own s x) by (unfold own; now rewrite (Hp x Hx)).
  assert (Hg : forall w, In w (waiters_of s x) -> (wprio s' w == wprio s w)%Q).
  { intros w Hin. pose proof (Hup x w Hx Hin) as Hdw. unfold wprio. rewrite (Hp w Hdw).
    destruct (tprio (gett s w)); [|reflexivity].
    apply (IH (rank w)); auto. subst n. apply Hr. now apply waits_on_iff. }
  eapply min_of_sim; [apply (eprio_fixpoint s' rank' Hr' Hb')|apply (eprio_fixpoint s rank Hr Hb)| |].
  - intros v [<-|Hv].
    + exists (own s x). split; [now left|rewrite Ho; reflexivity].
    + apply in_map_iff in Hv as (w & <- & Hin).
      assert (Hin0 : In w (waiters_of s x)) by (eapply Permutation_in; [apply (Hw x Hx)|exact Hin]).
      exists (wprio s w). split; [right; now apply in_map|now apply Hg].
  - intros v [<-|Hv].
    + exists (own s' x). split; [now left|rewrite Ho; reflexivity].
    + apply in_map_iff in Hv as (w & <- & Hin).
      exists (wprio s' w). split; [|now apply Hg]. right. apply in_map.
      eapply Permutation_in; [apply Permutation_sym, (Hw x Hx)|exact Hin].
Qed.

Corollary wprio_local x : ~ D x -> (wprio s' x == wprio s x)%Q.
Proof.
  intros Hx. unfold wprio. rewrite (Hp x Hx). destruct (tprio (gett s x)); [|reflexivity].
  now apply eprio_local.
Qed.
End Local.

(* ------------------------------------------------------------ release() *)
Lemma release_p_frame s t l :
  let s' := fst (release_p s t l) in
  (forall l0, lpq (getl s' l0) = lpq (getl s l0) /\ lwt (getl s' l0) = lwt (getl s l0)) /\
  (forall x, tprio (gett s' x) = tprio (gett s x)) /\
  (forall x, x <> t -> tholding (gett s' x) = tholding (gett s x)) /\
  (forall l0, In l0 (tholding (gett s' t)) -> In l0 (tholding (gett s t))) /\
  length (tasks s') = length (tasks s) /\ length (locks s') = length (locks s) /\
  (forall g, fdone s g = true -> fdone s' g = true).
Proof.
  intros s'. destruct (release_p_ot s t l) as [O Hh]. fold s' in O, Hh.
  assert (Main :
    (forall l0, lpq (getl s' l0) = lpq (getl s l0) /\ lwt (getl s' l0) = lwt (getl s l0)) /\
    tprio (gett s' t) = tprio (gett s t) /\ length (locks s') = length (locks s) /\
    (forall g, fdone s g = true -> fdone s' g = true)).
  { unfold s', release_p. destruct (negb (llocked (getl s l))); [cbn [fst]; auto|].
    destruct (lowner (getl s l)) as [o|]; [|cbn [fst]; auto].
    destruct (negb (Nat.eqb o t)); [cbn [fst]; auto|]. cbn [fst].
    set (s1 := setl s l (getl s l <| lowner := None |>)).
    assert (K1 : wk s s1) by (apply wk_setl; reflexivity).
    set (s2 := if is_prio_task s1 t
               then sett s1 t (gett s1 t <| tholding := filter (fun x => negb (Nat.eqb x l)) (tholding (gett s1 t)) |>)
               else s1).
    assert (E2 : locks s2 = locks s1 /\ futs s2 = futs s1) by (unfold s2; destruct (is_prio_task s1 t); auto).
    destruct E2 as [E2l E2f].
    assert (P2 : tprio (gett s2 t) = tprio (gett s1 t)).
    { unfold s2. destruct (is_prio_task s1 t); auto. rewrite gett_sett, Nat.eqb_refl. simpl.
      match goal with |- context [if ?b then _ else _] => destruct b end; reflexivity. }
    set (s3 := setl s2 l (getl s2 l <| llocked := false |>)).
    assert (K3 : wk s2 s3) by (apply wk_setl; reflexivity).
    pose proof (wk_wake_p s3 l) as K4. pose proof (wk_trans _ _ _ K3 K4) as K34.
    assert (G : forall l0, getl s2 l0 = getl s1 l0) by (intros; unfold getl; now rewrite E2l).
    split; [|split; [|split]].
    - intros l0. pose proof (k_lpq K34 l0) as A. pose proof (k_rows K34 l0) as B. unfold rows in B.
      rewrite A, B, G. split; [apply (k_lpq K1)|apply (k_rows K1)].
    - assert (E : gett (wake_up_first_p s3 l) t = gett s2 t).
      { unfold gett. rewrite tasks_wake_p. reflexivity. }
      rewrite E, P2. reflexivity.
    - rewrite (k_nlocks K34), E2l. apply (k_nlocks K1).
    - intros g Hg. apply (k_done K34). unfold fdone, getf in *. rewrite E2f. exact Hg. }
  destruct Main as (M1 & M2 & M3 & M4).
  split; [exact M1|]. split.
  { intros x. destruct (Nat.eq_dec x t) as [->|Hne]; [exact M2|]. now rewrite (o_oth O x Hne). }
  split; [intros x Hne; now rewrite (o_oth O x Hne)|]. split; [exact Hh|].
  split; [apply (o_nt O)|]. split; [exact M3|exact M4].
Qed.

(* release() by a task that has no row in any waiter table (the running task, without eager
   starts; [WIx] is the second invariant in its intermediate-state form, so the statement applies in
   the middle of a task step) keeps [keyed] for every lock: only the releasing task's own effective priority
   changes, and it is nobody's waiter *)
Theorem keyed_release ne X R s t l :
  WIx ne X R s -> ranked s -> (forall l0 f, ~ In (f, t) (rows s l0)) ->
  (forall l0, keyed s l0) -> forall l0, keyed (fst (release_p s t l)) l0.
Proof.
  intros W (rank & Hr & Hb) Hnr K l0.
  destruct (release_p_frame s t l) as (Fl & Fp & Fh & Fs & Fnt & Fnl & Fd).
  set (s' := fst (release_p s t l)) in *.
  assert (Hlw : forall l1, lock_waiter_tasks (getl s' l1) = lock_waiter_tasks (getl s l1)).
  { intros l1. unfold lock_waiter_tasks. destruct (Fl l1) as [-> ->]. reflexivity. }
  assert (Ef : efuel s' = efuel s) by (unfold efuel; now rewrite Fnt, Fnl).
  assert (Hsub : forall w x, waits_on s' w x -> waits_on s w x).
  { intros w x (l1 & H1 & H2). exists l1. rewrite Hlw in H2. split; auto.
    destruct (Nat.eq_dec x t) as [->|Hne]; [now apply Fs|now rewrite <- (Fh x Hne)]. }
  assert (Hr' : forall w x, waits_on s' w x -> rank w < rank x) by (intros w x H; apply Hr, Hsub, H).
  assert (Hb' : forall x, rank x <= efuel s') by (intros x; rewrite Ef; apply Hb).
  assert (Hnw : forall x w, In w (waiters_of s x) -> w <> t).
  { intros x w Hin ->. apply waits_on_iff in Hin as (l1 & _ & Hin).
    destruct (waiter_has_row _ _ _ _ _ _ W Hin) as (f & Hrow). exact (Hnr l1 f Hrow). }
  assert (L : forall x, x <> t -> (wprio s' x == wprio s x)%Q).
  { intros x Hx. apply (wprio_local s s' rank rank (fun u => u = t) Hr Hb Hr' Hb'); auto.
    - intros u Hu. unfold waiters_of. rewrite (Fh u Hu).
      erewrite flat_map_ext; [apply Permutation_refl|]. intros l1. apply Hlw.
    - intros u w _ Hin. eapply Hnw; eauto. }
  intros e He Hlive. destruct (Fl l0) as [Eq Ew]. rewrite Eq in He.
  assert (Hl0 : live s e).
  { unfold live in *. destruct (fdone s (Z.to_nat (eobj e))) eqn:E; auto. rewrite (Fd _ E) in Hlive. discriminate. }
  assert (Et : entry_task (getl s' l0) e = entry_task (getl s l0) e).
  { unfold entry_task, task_of_fut. now rewrite Ew. }
  rewrite Et. rewrite (K l0 e He Hl0). symmetry. apply L.
  intros E. pose proof (rtask_row _ _ _ _ _ _ W He) as Hrow. unfold rtask in Hrow.
  unfold entry_task in E. rewrite E in Hrow. exact (Hnr _ _ Hrow).
Qed.

(* ------------------------------------------------------------ non-vacuity *)
(* the state [est] of OrderExample.v (chain B -> A -> C): C = task 0 holds lock 1 and has no row;
   every key is current; the theorem gives [keyed] after C's release of lock 1, where C's
   effective priority has fallen back from -2 to its own 7 *)
Example est_keyed : forall l0, keyed est l0.
Proof.
  intros l0 e He _. destruct l0 as [|[|l0]].
  - vm_compute in He. destruct He as [<-|[]]. vm_compute. reflexivity.
  - vm_compute in He. destruct He as [<-|[]]. vm_compute. reflexivity.
  - vm_compute in He. destruct l0; destruct He.
Qed.

Example est_C_no_row : forall l0 f, ~ In (f, 0) (rows est l0).
Proof.
  intros l0 f H. destruct l0 as [|[|l0]]; vm_compute in H.
  - destruct H as [H|[]]. discriminate.
  - destruct H as [H|[]]. discriminate.
  - destruct l0; destruct H.
Qed.

Example est_release_keyed :
  (forall l0, keyed (fst (release_p est 0 1)) l0) /\
  Qred (effective_priority est 0) = (-2)%Q /\
  Qred (effective_priority (fst (release_p est 0 1)) 0) = 7%Q.
Proof.
  split; [|split; vm_compute; reflexivity].
  apply (keyed_release true (fun _ => False) (0, []) est 0 1).
  - apply reachable_ne_WInv, reachable_ord_ne, est_reachable_ord.
  - exact est_ranked.
  - exact est_C_no_row.
  - exact est_keyed.
Qed.
