(* C13, fifth round: two of the run-checked side facts of C13_every_acquirer_served derived from
   the step itself.
   - [arrival_ids] (arrival numbers of the entries of lock l follow the creation order of their
     futures): consequence of the queue invariant [AI l s] (every arrival number is below the
     counter of the queue, and arrival numbers are ordered like the future ids), which every
     primitive of a step keeps: pq_add numbers the new entry with the counter and its future is
     fresh; pq_remove / reset_if_empty restart the counter only on an empty array; pq_reschedule
     keeps (arrival number, future).
   - [arrivals_pending] (no entry is woken in the step in which it arrives): the two-phase
     structure of a step - phase 2 (the enqueueing half of acquire(), propagate_priority, the
     bookkeeping of Task.__step) wakes no queued future of l, old or new ([W]).
   Technique: the relations of Sched/NoOvertakeRel.v are strengthened ([prc], [rek], [post], [both]
   below carry the extra clauses) and the pass of Sched/NoOvertakePass.v is replayed over them. *)
From Coq Require Import QArith Lqa Sorting.Permutation.
From RecordUpdate Require Import RecordUpdate.
From Asynkit Require Import Base.Prelude Queue.PQ Queue.Order Queue.PQProofs Queue.PosPQ Queue.Exec
  Sched.Model Sched.Tables Sched.QFacts Sched.LockInv Sched.Footprint Sched.LockOps Sched.LockLib
  Sched.LockProofs Sched.LockThms Sched.LockLive Sched.LockProgress Sched.WaitProofs
  Sched.NoOvertakeRel Sched.NoOvertakePass Sched.NoOvertakeThms Sched.LockRounds Sched.LockFifo.
Import RecordSetNotations.
Open Scope nat_scope.

(* ================================================================ 1. the queue invariant *)
Definition AIq (q : pq Q) : Prop :=
  (forall a, In a (arr q) -> (eseq a < seqn q)%Z) /\
  (forall a b, In a (arr q) -> In b (arr q) -> fo a < fo b -> (eseq a < eseq b)%Z).
Definition AI (l : nat) (s : st) : Prop := AIq (lpq (getl s l)).

Lemma AI_arrival_ids l s : AI l s -> arrival_ids s l.
Proof. intros [_ H] a b Ha Hb. apply H; auto. Qed.

Lemma AIq_img (q q' : pq Q) :
  (seqn q' = seqn q \/ arr q' = []) ->
  (forall e', In e' (arr q') -> exists e, In e (arr q) /\ eseq e = eseq e' /\ eobj e = eobj e') ->
  AIq q -> AIq q'.
Proof.
  intros Hs Hi [A B]. split.
  - intros a Ha. destruct Hs as [Hs|Hs]; [|rewrite Hs in Ha; destruct Ha].
    destruct (Hi a Ha) as (e & He & E1 & _). rewrite Hs, <- E1. now apply A.
  - intros a b Ha Hb Hlt. destruct (Hi a Ha) as (ea & Hea & E1 & E2). destruct (Hi b Hb) as (eb & Heb & E3 & E4).
    rewrite <- E1, <- E3. apply B; auto. unfold fo in *. now rewrite E2, E4.
Qed.

Lemma AIq_sub (q q' : pq Q) :
  (seqn q' = seqn q \/ arr q' = []) -> (forall e, In e (arr q') -> In e (arr q)) -> AIq q -> AIq q'.
Proof. intros Hs Hi. apply AIq_img; auto. intros e He. exists e. auto. Qed.

Lemma reset_seq (s0 : Z) (a : list (entry Q)) :
  seqn (reset_if_empty s0 a) = s0 \/ arr (reset_if_empty s0 a) = [].
Proof. destruct a; simpl; auto. Qed.

Lemma remove_seq (q : pq Q) o p q' :
  pq_remove HQ q o = Some (p, q') -> seqn q' = seqn q \/ arr q' = [].
Proof.
  unfold pq_remove. destruct (find_index (Z.eqb o) (arr q)) as [i|]; [|discriminate]. cbv zeta.
  destruct (Nat.eqb i 0).
  - destruct (heappop HQ (arr q)) as [[e a']|]; [|discriminate]. intros H. inversion H. apply reset_seq.
  - destruct (Nat.eqb i (length (arr q) - 1)); intros H; inversion H; apply reset_seq.
Qed.

Lemma AIq_remove (q : pq Q) o p q' : PQInv q -> pq_remove HQ q o = Some (p, q') -> AIq q -> AIq q'.
Proof.
  intros Hi E. destruct (pq_remove_perm _ _ _ _ Hi E) as (_ & e & _ & Hpe).
  apply AIq_sub; [eapply remove_seq; eauto|].
  intros x Hx. eapply Permutation_in; [apply Permutation_sym; exact Hpe|]. now right.
Qed.

Lemma AIq_resched (q : pq Q) key np o q' :
  PQInv q -> pq_reschedule HQ q key np = Some (o, q') -> AIq q -> AIq q'.
Proof.
  intros Hi E. destruct (resched_inv HQ HQ_spec _ _ _ _ _ Hi E) as (_ & _ & e & r & Hin & Ho & Hpe & Hq).
  destruct Hq as [->|[Hp Hs]]; auto.
  apply AIq_img; auto. intros e' He'. eapply Permutation_in in He'; [|exact Hp].
  destruct He' as [<-|He'].
  - exists e. cbn. auto.
  - exists e'. split; auto. eapply Permutation_in; [apply Permutation_sym; exact Hpe|]. now right.
Qed.

Lemma AIq_add (q : pq Q) p f :
  AIq q -> (forall a, In a (arr q) -> fo a < f) -> AIq (pq_add HQ q p (Z.of_nat f)).
Proof.
  intros [A B] Hf.
  assert (Hin : forall x, In x (arr (pq_add HQ q p (Z.of_nat f))) ->
                          x = mkE p (seqn q) (Z.of_nat f) \/ In x (arr q)).
  { intros x Hx. eapply Permutation_in in Hx; [|apply (add_perm HQ HQ_spec)]. destruct Hx; auto. }
  assert (Efo : fo (mkE p (seqn q) (Z.of_nat f)) = f) by (unfold fo; cbn; apply Nat2Z.id).
  split.
  - intros a Ha. cbn [seqn pq_add]. destruct (Hin a Ha) as [->|H]; [cbn; lia|]. pose proof (A a H). lia.
  - intros a b Ha Hb Hlt. destruct (Hin a Ha) as [->|H1]; destruct (Hin b Hb) as [->|H2].
    + lia.
    + rewrite Efo in Hlt. pose proof (Hf b H2). lia.
    + cbn [eseq]. now apply A.
    + now apply B.
Qed.

(* propagate_priority keeps it (re-keying keeps arrival numbers and futures) *)
Lemma prop_AI l fuel : forall s t, QD s -> AI l s -> AI l (propagate_task fuel s t).
Proof.
  induction fuel as [|fuel IH]; intros s t Q A; cbn [propagate_task].
  - destruct (negb (is_prio_task s t)); auto.
    set (s0 := if task_is_runnable s t then task_reschedule s t else s).
    assert (A0 : AI l s0) by (unfold s0; destruct (task_is_runnable s t); exact A).
    clearbody s0. destruct (twaiting (gett s0 t)); exact A0.
  - destruct (negb (is_prio_task s t)); auto.
    set (s0 := if task_is_runnable s t then task_reschedule s t else s).
    assert (A0 : AI l s0) by (unfold s0; destruct (task_is_runnable s t); exact A).
    assert (Q0 : QD s0).
    { unfold s0; destruct (task_is_runnable s t); auto. }
    clearbody s0. clear A Q s. rename s0 into s, A0 into A, Q0 into Q.
    destruct (twaiting (gett s t)) as [l1|]; auto.
    set (s1 := match lowner (getl s l1) with Some o => propagate_task fuel s o | None => s end).
    assert (A1 : AI l s1) by (unfold s1; destruct (lowner (getl s l1)); auto).
    assert (Q1 : QD s1) by (unfold s1; destruct (lowner (getl s l1)); auto; now apply prop_objs).
    destruct (find _ (lwt (getl s1 l1))) as [[f t0]|]; auto.
    destruct (pq_reschedule HQ (lpq (getl s1 l1)) _ _) as [[o q']|] eqn:Er; auto.
    unfold AI. rewrite getl_setl. destruct (Nat.eqb l1 l && _)%bool eqn:C; [|exact A1].
    apply andb_prop in C as [C _]. apply Nat.eqb_eq in C. subst l1. cbn.
    eapply AIq_resched; [|exact Er|exact A1]. apply (proj1 Q1 l).
Qed.

(* ================================================================ 2. the strengthened relations *)
Definition X (l : nat) (s s' : st) : Prop := AI l s -> AI l s'.
Definition W (l : nat) (m s' : st) : Prop :=
  forall f, In f (objs s' l) -> woken s' f = true -> In f (objs m l) /\ woken m f = true.

Lemma X_same l s s' : lpq (getl s' l) = lpq (getl s l) -> X l s s'.
Proof. unfold X, AI. now intros ->. Qed.
Lemma X_refl l s : X l s s. Proof. now intros H. Qed.
Lemma X_trans l s1 s2 s3 : X l s1 s2 -> X l s2 s3 -> X l s1 s3.
Proof. unfold X. auto. Qed.
Lemma W_refl l s : W l s s. Proof. intros f; auto. Qed.
Lemma W_trans l s1 s2 s3 : W l s1 s2 -> W l s2 s3 -> W l s1 s3.
Proof. intros A B f H1 H2. destruct (B f H1 H2) as [H3 H4]. now apply A. Qed.

Definition prc (l : nat) (s s' : st) : Prop := NoOvertakeRel.prc l s s' /\ X l s s'.
Definition rek (l : nat) (s s' : st) : Prop := NoOvertakeRel.rek l s s' /\ X l s s'.
Definition pre (l t : nat) (s s' : st) : Prop := prc l s s' /\ otr l t s s'.
Definition post (l : nat) (m s' : st) : Prop := NoOvertakeRel.post l m s' /\ X l m s' /\ W l m s'.
Definition pp (l t : nat) (s s' : st) : Prop := exists m, pre l t s m /\ post l m s'.
Definition both (l : nat) (s s' : st) : Prop :=
  NoOvertakeRel.both l s s' /\ lpq (getl s' l) = lpq (getl s l) /\
  (forall f, In f (objs s l) -> woken s' f = true -> woken s f = true).
Definition lead (l : nat) (s s' : st) : Prop := prc l s s' \/ rek l s s'.

Lemma pre_old l t s s' : pre l t s s' -> NoOvertakeRel.pre l t s s'.
Proof. intros [[A _] B]. split; auto. Qed.
Lemma pre_new l t s s' : NoOvertakeRel.pre l t s s' -> X l s s' -> pre l t s s'.
Proof. intros [A B] C. split; auto. split; auto. Qed.
Lemma pre_X l t s s' : pre l t s s' -> X l s s'.
Proof. now intros [[_ A] _]. Qed.

Lemma prc_refl l s : prc l s s.
Proof. split; [apply NoOvertakeRel.prc_refl|apply X_refl]. Qed.
Lemma prc_trans l s1 s2 s3 : prc l s1 s2 -> prc l s2 s3 -> prc l s1 s3.
Proof. intros [A1 A2] [B1 B2]. split; [eapply NoOvertakeRel.prc_trans|eapply X_trans]; eauto. Qed.
Lemma pre_refl l t s : pre l t s s.
Proof. apply pre_new; [apply NoOvertakeRel.pre_refl|apply X_refl]. Qed.
Lemma pre_trans l t s1 s2 s3 : pre l t s1 s2 -> pre l t s2 s3 -> pre l t s1 s3.
Proof.
  intros A B. apply pre_new.
  - eapply NoOvertakeRel.pre_trans; apply pre_old; eauto.
  - eapply X_trans; eapply pre_X; eauto.
Qed.
Lemma pre_prc l t s s' : pre l t s s' -> prc l s s'.
Proof. now intros [A _]. Qed.
Lemma rek_refl l s : rek l s s.
Proof. split; [apply NoOvertakeRel.rek_refl|apply X_refl]. Qed.
Lemma rek_trans l s1 s2 s3 : rek l s1 s2 -> rek l s2 s3 -> rek l s1 s3.
Proof. intros [A1 A2] [B1 B2]. split; [eapply NoOvertakeRel.rek_trans|eapply X_trans]; eauto. Qed.
Lemma post_refl l s : post l s s.
Proof. split; [apply NoOvertakeRel.post_refl|]. split; [apply X_refl|apply W_refl]. Qed.
Lemma post_trans l s1 s2 s3 : post l s1 s2 -> post l s2 s3 -> post l s1 s3.
Proof.
  intros (A1 & A2 & A3) (B1 & B2 & B3). split; [eapply NoOvertakeRel.post_trans; eauto|].
  split; [eapply X_trans|eapply W_trans]; eauto.
Qed.

Lemma both_old l s s' : both l s s' -> NoOvertakeRel.both l s s'.
Proof. now intros [A _]. Qed.
Lemma both_X l s s' : both l s s' -> X l s s'.
Proof. intros (_ & E & _). now apply X_same. Qed.
Lemma both_W l s s' : both l s s' -> W l s s'.
Proof.
  intros (_ & E & H) f Hf Hw. assert (Eo : objs s' l = objs s l) by (unfold objs; now rewrite E).
  rewrite Eo in Hf. auto.
Qed.
Lemma both_post l s s' : both l s s' -> post l s s'.
Proof. intros B. split; [apply (proj2 (both_old _ _ _ B))|]. split; [now apply both_X|now apply both_W]. Qed.
Lemma both_pre l t s s' : both l s s' -> pre l t s s'.
Proof. intros B. apply pre_new; [apply NoOvertakeRel.both_pre, both_old, B|now apply both_X]. Qed.
Lemma both_prc l s s' : both l s s' -> prc l s s'.
Proof. intros B. apply (pre_prc l 0), both_pre, B. Qed.
Lemma both_refl l s : both l s s.
Proof. split; [apply NoOvertakeRel.both_refl|]. split; auto. Qed.
Lemma both_trans l s1 s2 s3 : both l s1 s2 -> both l s2 s3 -> both l s1 s3.
Proof.
  intros (A1 & A2 & A3) (B1 & B2 & B3). split; [eapply NoOvertakeRel.both_trans; eauto|].
  split; [congruence|]. intros f Hf Hw. apply A3; auto. apply B3; auto.
  unfold objs. now rewrite A2.
Qed.

Lemma pp_pre l t s s' : pre l t s s' -> pp l t s s'.
Proof. intros H. exists s'. split; auto. apply post_refl. Qed.
Lemma pp_post l t s s' : post l s s' -> pp l t s s'.
Proof. intros H. exists s. split; auto. apply pre_refl. Qed.
Lemma pp_both l t s s' : both l s s' -> pp l t s s'.
Proof. intros H. now apply pp_pre, both_pre. Qed.
Lemma pp_refl l t s : pp l t s s.
Proof. apply pp_pre, pre_refl. Qed.
Lemma pp_pre_l l t s1 s2 s3 : pre l t s1 s2 -> pp l t s2 s3 -> pp l t s1 s3.
Proof. intros A (m & B & C). exists m. split; auto. eapply pre_trans; eauto. Qed.
Lemma pp_post_r l t s1 s2 s3 : pp l t s1 s2 -> post l s2 s3 -> pp l t s1 s3.
Proof. intros (m & B & C) A. exists m. split; auto. eapply post_trans; eauto. Qed.
Lemma pp_both_r l t s1 s2 s3 : pp l t s1 s2 -> both l s2 s3 -> pp l t s1 s3.
Proof. intros A B. eapply pp_post_r; eauto. now apply both_post. Qed.
Lemma pp_both_l l t s1 s2 s3 : both l s1 s2 -> pp l t s2 s3 -> pp l t s1 s3.
Proof. intros A B. eapply pp_pre_l; eauto. now apply both_pre. Qed.
Lemma pre_both_r l t s1 s2 s3 : pre l t s1 s2 -> both l s2 s3 -> pre l t s1 s3.
Proof. intros A B. eapply pre_trans; eauto. now apply both_pre. Qed.

(* ------------------------------------------------------------ base steps *)
Lemma both_fs l s s' :
  lpq (getl s' l) = lpq (getl s l) ->
  (lowner (getl s' l) = lowner (getl s l) \/ qa l s' = []) ->
  nf s <= nf s' ->
  (forall f, f < nf s -> fstate_ (getf s' f) = fstate_ (getf s f)) ->
  (forall f, nf s <= f -> woken s' f = false) ->
  both l s s'.
Proof.
  intros El Eo' Hn Hf Hnew. split; [now apply NoOvertakeRel.both_fs|]. split; auto.
  intros f _ Wk. destruct (Nat.lt_ge_cases f (nf s)) as [H|H].
  - unfold woken in *. now rewrite <- Hf.
  - rewrite Hnew in Wk by exact H. discriminate.
Qed.

Lemma both_same_g l s s' :
  lpq (getl s' l) = lpq (getl s l) ->
  (lowner (getl s' l) = lowner (getl s l) \/ qa l s' = []) -> futs s' = futs s -> both l s s'.
Proof.
  intros El Eo Ef. apply both_fs; auto.
  - unfold nf. rewrite Ef. lia.
  - intros f _. unfold getf. now rewrite Ef.
  - intros f H. unfold woken. rewrite getf_oob; auto. unfold nf in H. now rewrite Ef.
Qed.

Lemma both_same l s s' :
  lpq (getl s' l) = lpq (getl s l) -> lowner (getl s' l) = lowner (getl s l) ->
  futs s' = futs s -> both l s s'.
Proof. intros El Eo Ef. apply both_same_g; auto. Qed.

Lemma rek_same l s s' :
  lpq (getl s' l) = lpq (getl s l) -> lowner (getl s' l) = lowner (getl s l) ->
  futs s' = futs s -> rek l s s'.
Proof. intros El Eo Ef. split; [now apply NoOvertakeRel.rek_same|now apply X_same]. Qed.

Lemma prc_same l s s' :
  lpq (getl s' l) = lpq (getl s l) -> futs s' = futs s -> prc l s s'.
Proof. intros El Ef. split; [now apply NoOvertakeRel.prc_same|now apply X_same]. Qed.

Lemma both_new_future l s o : both l s (fst (new_future s o)).
Proof.
  unfold new_future. cbn [fst]. apply both_fs.
  - reflexivity.
  - now left.
  - unfold nf. cbn. rewrite app_length. lia.
  - intros f H. unfold getf. cbn. now rewrite nth_app_old.
  - intros f H. unfold woken, getf. cbn. destruct (Nat.eq_dec f (nf s)) as [->|Hne].
    + unfold nf. now rewrite nth_app_fresh.
    + rewrite nth_oob; auto. rewrite app_length. simpl. unfold nf in *. lia.
Qed.

Lemma both_setf_flag l s f x : fstate_ x = fstate_ (getf s f) -> both l s (setf s f x).
Proof.
  intros E. apply both_fs.
  - reflexivity.
  - now left.
  - unfold nf, setf. cbn. rewrite set_nth_length. lia.
  - intros g _. rewrite getf_setf.
    destruct (Nat.eqb f g && Nat.ltb f (length (futs s)))%bool eqn:C; auto.
    apply andb_prop in C as [C _]. apply Nat.eqb_eq in C. now subst g.
  - intros g Hg. unfold woken. rewrite getf_setf.
    destruct (Nat.eqb f g && Nat.ltb f (length (futs s)))%bool eqn:C.
    + apply andb_prop in C as [C1 C2]. apply Nat.eqb_eq in C1. apply Nat.ltb_lt in C2.
      subst g. unfold nf in Hg. lia.
    + rewrite getf_oob; auto.
Qed.

Lemma both_chg l Wf s s' :
  chg Wf s s' -> Inv s -> (forall g, Wf g -> ~ In g (objs s l)) -> both l s s'.
Proof.
  intros C I HW. split; [eapply NoOvertakeRel.both_chg; eauto|].
  split; [destruct (c_lock C l) as (_ & _ & E & _); exact E|].
  intros f Hin W1. assert (lockfut s f) as Hl by (now exists l).
  destruct (iD0 I _ Hl) as [Hr _]. destruct (c_woken C _ Hr W1) as [|Hx]; auto.
  exfalso. eapply HW; eauto.
Qed.

Lemma both_benign l s s' : benign s s' -> Inv s -> both l s s'.
Proof.
  intros B I. eapply both_chg; eauto. intros g Hg Hin. apply Hg. now exists l.
Qed.

Lemma rek_benign l s s' : benign s s' -> Inv s -> rek l s s'.
Proof.
  intros C I. split; [now apply NoOvertakeRel.rek_benign|].
  apply X_same. destruct (c_lock C l) as (_ & _ & E & _). exact E.
Qed.

Lemma wake_lpq s l0 l : lpq (getl (wake_up_first_p s l0) l) = lpq (getl s l).
Proof. unfold getl. now rewrite wake_locks. Qed.

Lemma rek_propagate l s o : QD s -> rek l s (propagate_priority s o).
Proof.
  intros Q. split; [now apply NoOvertakeRel.rek_propagate|]. intros A. now apply prop_AI.
Qed.

(* the `finally` of acquire() keeps the queue invariant *)
Lemma acq_finish_X l s t l0 f had inp : QD s -> X l s (fst (acquire_p_finish s t l0 f had inp)).
Proof.
  intros Q A. unfold acquire_p_finish.
  set (p := match inp with
            | RVal _ => match take_lock s l0 t with inl s' => (s', RVal 1) | inr e => (s, RExc e) end
            | RExc e => (s, RExc e) end).
  assert (K0 : futs (fst p) = futs s /\ forall l, lpq (getl (fst p) l) = lpq (getl s l)).
  { unfold p. destruct inp; cbn [fst]; auto. destruct (take_lock s l0 t) eqn:E; cbn [fst]; auto.
    eapply take_lock_same; eauto. }
  destruct p as [s0 r]. cbn [fst] in K0. destruct K0 as [Ef0 El0].
  pose proof (QD_same s s0 El0 Q) as Q0.
  assert (A0 : AI l s0) by (unfold AI; now rewrite El0).
  set (s1 := match pq_remove HQ (lpq (getl s0 l0)) (Z.of_nat f) with
             | Some (_, q') => setl s0 l0 (getl s0 l0 <| lpq := q' |>
                  <| lwt := filter (fun pr => negb (Nat.eqb (fst pr) f)) (lwt (getl s0 l0)) |>)
             | None => s0 end).
  assert (H1 : AI l s1 /\ (forall l1, qwf (lpq (getl s1 l1))) /\
               (forall l1 g, In g (objs s1 l1) -> In g (objs s0 l1))).
  { unfold s1. destruct (pq_remove HQ (lpq (getl s0 l0)) (Z.of_nat f)) as [[pr q']|] eqn:Er.
    - destruct (qwf_remove _ _ _ _ (proj1 Q0 l0) Er) as (Hq & Hp & _).
      split; [|split].
      + unfold AI. rewrite getl_setl. destruct (Nat.eqb l0 l && _)%bool eqn:C; [|exact A0].
        apply andb_prop in C as [C _]. apply Nat.eqb_eq in C. subst l0. cbn.
        eapply AIq_remove; [|exact Er|exact A0]. apply (proj1 (proj1 Q0 l)).
      + intros l1. rewrite getl_setl. destruct (Nat.eqb l0 l1 && _)%bool eqn:C; [|apply (proj1 Q0)].
        exact Hq.
      + intros l1 g. unfold objs. rewrite getl_setl.
        destruct (Nat.eqb l0 l1 && _)%bool eqn:C; auto.
        apply andb_prop in C as [C _]. apply Nat.eqb_eq in C. subst l1. cbn. intros Hx.
        eapply Permutation_in; [apply Permutation_sym; exact Hp|]. now right.
    - split; [exact A0|]. split; [apply (proj1 Q0)|auto]. }
  destruct H1 as (A1 & Hq1 & Ho1).
  assert (Q1 : QD s1).
  { split; [exact Hq1|]. intros l1 l2 g A' B'. apply (proj2 Q0 l1 l2 g); auto. }
  fold s1.
  set (s2 := if llocked (getl s1 l0)
             then match lowner (getl s1 l0) with
                  | Some o => if Nat.eqb o t then s1 else propagate_priority s1 o
                  | None => s1 end
             else wake_up_first_p s1 l0).
  assert (A2 : AI l s2).
  { unfold s2. destruct (llocked (getl s1 l0)).
    - destruct (lowner (getl s1 l0)) as [o|]; auto. destruct (Nat.eqb o t); auto.
      unfold propagate_priority. now apply prop_AI.
    - unfold AI. now rewrite wake_lpq. }
  cbn [fst]. destruct had; exact A2.
Qed.

Lemma acq_finish_lead l s t l0 f had inp :
  QD s -> lead l s (fst (acquire_p_finish s t l0 f had inp)).
Proof.
  intros Q. pose proof (acq_finish_X l s t l0 f had inp Q) as Hx.
  destruct (NoOvertakeRel.acq_finish_lead l s t l0 f had inp Q) as [H|H]; [left|right]; split; auto.
Qed.

Lemma release_p_lpq s t l0 l : lpq (getl (fst (release_p s t l0)) l) = lpq (getl s l).
Proof.
  unfold release_p.
  destruct (negb (llocked (getl s l0))); [reflexivity|].
  destruct (lowner (getl s l0)) as [n|]; [|reflexivity].
  destruct (negb (Nat.eqb n t)); [reflexivity|]. cbn [fst]. rewrite wake_lpq.
  set (s1 := setl s l0 (getl s l0 <| lowner := None |>)).
  set (s2 := if is_prio_task s1 t
             then sett s1 t (gett s1 t <| tholding := filter (fun x => negb (Nat.eqb x l0)) (tholding (gett s1 t)) |>)
             else s1).
  assert (E1 : forall l', lpq (getl s1 l') = lpq (getl s l')).
  { intros l'. unfold s1. rewrite getl_setl. destruct (Nat.eqb l0 l' && _)%bool eqn:C; auto.
    apply andb_prop in C as [C _]. apply Nat.eqb_eq in C. now subst l'. }
  assert (E2 : forall l', getl s2 l' = getl s1 l').
  { intros l'. unfold s2. destruct (is_prio_task s1 t); reflexivity. }
  rewrite getl_setl. destruct (Nat.eqb l0 l && _)%bool eqn:C.
  - apply andb_prop in C as [C _]. apply Nat.eqb_eq in C. subst l0. cbn. now rewrite E2, E1.
  - now rewrite E2, E1.
Qed.

Lemma pre_release_p l s t l0 : QD s -> pre l t s (fst (release_p s t l0)).
Proof.
  intros Q. apply pre_new; [now apply NoOvertakeRel.pre_release_p|]. apply X_same, release_p_lpq.
Qed.

Definition nov (l t : nat) (s s' : st) (r : lres) : Prop :=
  if lres_done r then pre l t s s' else pp l t s s'.

Lemma nov_pp l t s s' r : nov l t s s' r -> pp l t s s'.
Proof. unfold nov. destruct (lres_done r); auto. apply pp_pre. Qed.
Lemma nov_both l t s s' r : both l s s' -> nov l t s s' r.
Proof. unfold nov. intros B. destruct (lres_done r); [now apply both_pre|now apply pp_both]. Qed.
Lemma nov_pre_l l t s1 s2 s3 r : pre l t s1 s2 -> nov l t s2 s3 r -> nov l t s1 s3 r.
Proof.
  unfold nov. intros A B. destruct (lres_done r); [eapply pre_trans|eapply pp_pre_l]; eauto.
Qed.

(* PriorityLock.acquire up to its `await fut`: the new entry gets the counter as arrival number,
   its future is fresh, and it is pending when the coroutine suspends *)
Lemma nov_acq_p_start l s t l0 :
  QD s -> (forall l1 g, In g (objs s l1) -> g < nf s) ->
  nov l t s (fst (acquire_p_start s t l0)) (snd (acquire_p_start s t l0)).
Proof.
  intros Q Hbd. unfold acquire_p_start.
  destruct (negb (llocked (getl s l0)) && _)%bool eqn:Efree.
  - destruct (take_lock s l0 t) as [s'|e] eqn:E; cbn [fst snd].
    + destruct (take_lock_same s l0 t s' E) as [Ef El]. apply nov_both. apply both_same_g; auto.
      destruct (Nat.eq_dec l0 l) as [->|Hne].
      * right. unfold qa. rewrite El. apply andb_prop in Efree as [_ Efree].
        destruct (arr (lpq (getl s l))); [reflexivity|discriminate].
      * left. unfold take_lock in E. destruct (lowner (getl s l0)); [discriminate|].
        inversion E; subst s'. clear E.
        set (s1 := setl s l0 (getl s l0 <| lowner := Some t |> <| llocked := true |>)).
        assert (A : lowner (getl s1 l) = lowner (getl s l)) by (unfold s1; now rewrite getl_setl_other).
        destruct (is_prio_task s1 t); exact A.
    + apply nov_both, both_refl.
  - set (f := length (futs s)). set (s1 := fst (new_future s None)).
    change (new_future s None) with (s1, f). cbv beta iota.
    assert (B1 : both l s s1) by apply both_new_future.
    destruct (is_prio_task s t && _)%bool.
    { cbn [fst snd]. now apply nov_both. }
    set (s2 := if is_prio_task s t then sett s1 t (gett s1 t <| twaiting := Some l0 |>) else s1).
    set (p := if is_prio_task s t then effective_priority s t else 0%Q).
    set (s3 := setl s2 l0 (getl s2 l0 <| lpq := pq_add HQ (lpq (getl s2 l0)) p (Z.of_nat f) |>
                                        <| lwt := lwt (getl s2 l0) ++ [(f, t)] |>)).
    set (s4 := match lowner (getl s3 l0) with Some o => propagate_priority s3 o | None => s3 end).
    set (s5 := setf s4 f (getf s4 f <| fblock := true |>)).
    cbn [fst snd]. unfold nov. cbn [lres_done]. apply pp_post.
    assert (E2 : futs s2 = futs s1 /\ forall l', getl s2 l' = getl s1 l').
    { unfold s2. destruct (is_prio_task s t); split; reflexivity. }
    destruct E2 as [Ef2 El2].
    assert (Ef3 : futs s3 = futs s1) by (rewrite <- Ef2; reflexivity).
    assert (Ho3' : forall l1 g, In g (objs s3 l1) -> (l1 = l0 /\ g = f) \/ In g (objs s l1)).
    { intros l1 g. unfold s3, objs. rewrite getl_setl.
      destruct (Nat.eqb l0 l1 && _)%bool eqn:C.
      - apply andb_prop in C as [C _]. apply Nat.eqb_eq in C. subst l1. cbn. intros H.
        apply pq_add_in in H. destruct H; auto. right. now rewrite El2 in H.
      - rewrite El2. auto. }
    assert (Ho3 : forall l1 g, In g (objs s3 l1) -> g = f \/ In g (objs s l1)).
    { intros l1 g H. destruct (Ho3' l1 g H) as [[_ ->]|H']; auto. }
    assert (Q3 : QD s3).
    { assert (Hfresh : forall l1, ~ In f (objs s l1)).
      { intros l1 H. pose proof (Hbd l1 f H). unfold f, nf in *. lia. }
      split.
      - intros l1. unfold s3. rewrite getl_setl.
        destruct (Nat.eqb l0 l1 && _)%bool; [|rewrite El2; apply (proj1 Q)].
        cbn. apply qwf_add; [rewrite El2; apply (proj1 Q)|]. rewrite El2. apply (Hfresh l0).
      - intros l1 l2 g H1 H2.
        destruct (Ho3' l1 g H1) as [[E1 Eg1]|A]; destruct (Ho3' l2 g H2) as [[E2 Eg2]|B].
        + congruence.
        + subst. exfalso. now apply (Hfresh l2).
        + subst. exfalso. now apply (Hfresh l1).
        + apply (proj2 Q l1 l2 g); auto. }
    assert (P4 : futs s4 = futs s3 /\ forall l1 g, In g (objs s4 l1) <-> In g (objs s3 l1)).
    { unfold s4. destruct (lowner (getl s3 l0)).
      - split; [apply prop_futs|apply prop_objs; exact Q3].
      - split; [reflexivity|intros; tauto]. }
    destruct P4 as [Ef4 Ho4].
    assert (Hfs : forall g, g < nf s -> fstate_ (getf s5 g) = fstate_ (getf s g)).
    { intros g Hg. unfold s5. rewrite getf_setf.
      assert (Eg : fstate_ (getf s4 g) = fstate_ (getf s g)).
      { unfold getf. rewrite Ef4, Ef3. unfold s1, new_future. cbn. now rewrite nth_app_old. }
      destruct (Nat.eqb f g && _)%bool eqn:C; auto.
      apply andb_prop in C as [C _]. apply Nat.eqb_eq in C. subst g. exact Eg. }
    assert (Hn5 : nf s5 = S (nf s)).
    { unfold nf, s5, setf. cbn. rewrite set_nth_length, Ef4, Ef3. unfold s1, new_future. cbn.
      rewrite app_length. simpl. lia. }
    split; [|split].
    + constructor.
      * lia.
      * intros g H. change (objs s5 l) with (objs s4 l) in H. apply Ho4 in H.
        destruct (Ho3 l g H) as [->|H']; [right; unfold f, nf; lia|now left].
      * intros g D. pose proof (fdone_inrange _ _ D) as Hr. unfold fdone in *. now rewrite Hfs.
      * intros g Hg _ Wk. unfold woken in *. now rewrite <- Hfs.
    + (* the queue invariant *)
      intros A. change (AI l s5) with (AI l s4).
      assert (A3 : AI l s3).
      { unfold AI, s3. rewrite getl_setl. destruct (Nat.eqb l0 l && _)%bool eqn:C.
        - apply andb_prop in C as [C _]. apply Nat.eqb_eq in C. subst l0. cbn. rewrite El2.
          apply AIq_add; [exact A|]. intros a Ha. apply (Hbd l). now apply in_objs_qa.
        - rewrite El2. exact A. }
      unfold s4. destruct (lowner (getl s3 l0)); [|exact A3].
      unfold propagate_priority. now apply prop_AI.
    + (* nobody queued on l is woken, the newcomer is pending *)
      intros g H Wk. change (objs s5 l) with (objs s4 l) in H. apply Ho4 in H.
      destruct (Ho3 l g H) as [->|H'].
      * exfalso. unfold woken, s5 in Wk. rewrite getf_setf in Wk.
        assert (Eg : fstate_ (getf s4 f) = FPending).
        { unfold getf. rewrite Ef4, Ef3. unfold s1, new_future, f. cbn. now rewrite nth_app_fresh. }
        destruct (Nat.eqb f f && _)%bool; cbn in Wk; rewrite Eg in Wk; discriminate.
      * split; auto. unfold woken in *. rewrite <- Hfs; auto. now apply (Hbd l).
Qed.

(* ================================================================ 3. the pass of Sched/NoOvertakePass.v replayed over the strengthened relations (proof scripts unchanged) *)
Lemma nov_benign l t s s' r : Inv s -> benign s s' -> nov l t s s' r.
Proof. intros I B. apply nov_both. now apply both_benign. Qed.

Lemma Inv_bound s : Inv s -> forall l1 g, In g (objs s l1) -> g < nf s.
Proof. intros I l1 g H. apply (iD0 I). now exists l1. Qed.

(* ------------------------------------------------------------ acquire / release *)
Lemma acquire_start_nov l s t l0 :
  Inv s -> nov l t s (fst (acquire_start s t l0)) (snd (acquire_start s t l0)).
Proof.
  intros I. unfold acquire_start. destruct (lkind_ (getl s l0)) eqn:Ek.
  - apply nov_acq_p_start; [now apply QD_of_Inv|now apply Inv_bound].
  - destruct (benign_acquire_a_start s l0 I Ek) as [B _]. now apply nov_benign.
Qed.

Lemma release_pre l s t l0 : Inv s -> pre l t s (fst (release s t l0)).
Proof.
  intros I. unfold release. destruct (lkind_ (getl s l0)) eqn:Ek.
  - apply pre_release_p. now apply QD_of_Inv.
  - apply both_pre, both_benign; auto. now apply benign_release_a.
Qed.

Lemma reacquire_nov l s t c pc err body :
  Inv s -> nov l t s (fst (reacquire s t c pc err body)) (snd (reacquire s t c pc err body)).
Proof.
  intros I. unfold reacquire. pose proof (acquire_start_nov l s t (clock (getc s c)) I) as N.
  destruct (acquire_start s t (clock (getc s c))) as [s1 r]. cbn [fst snd] in *.
  destruct r as [[v|e]|y frs]; exact N.
Qed.

Lemma reacq_after_nov l s t c err body :
  Inv s -> t < length (tasks s) ->
  nov l t s (fst (reacq_after s t c err body)) (snd (reacq_after s t c err body)).
Proof.
  intros I Ht. unfold reacq_after.
  pose proof (reacquire_nov l s t c true err body I) as N.
  destruct (reacquire_ext s t c true err body I Ht) as [E _].
  destruct (reacquire s t c true err body) as [s1 r]. cbn [fst snd] in *.
  destruct r as [rep|y frs]; [|exact N].
  pose proof (benign_cond_p_after s1 c rep (ext_inv _ _ E)) as B.
  destruct (cond_p_after s1 c rep) as [s2 rep']. cbn [fst snd] in *.
  unfold nov in *. cbn [lres_done] in *. eapply pre_both_r; [exact N|].
  apply both_benign; auto. apply (ext_inv _ _ E).
Qed.

(* ------------------------------------------------------------ lib_call *)
Theorem lib_call_nov l t op s :
  Inv s -> op_safe s op -> (needs_task op = true -> t < length (tasks s)) ->
  nov l t s (fst (lib_call t op s)) (snd (lib_call t op s)).
Proof.
  intros I Hs Hn. destruct op; cbn [lib_call].
  - (* OLog *) apply nov_both, both_same; reflexivity.
  - (* OSleep0 *) apply nov_both, both_refl.
  - (* OSleep *)
    set (f := length (futs s)). set (s1 := fst (new_future s None)).
    change (new_future s None) with (s1, f). cbv beta iota.
    destruct (call_at s1 (Qplus (now s1) d) (HSetResult f 0)) as [s2 h] eqn:Ec. cbn [fst snd].
    apply nov_both. eapply both_trans; [apply both_new_future|].
    assert (E2 : locks s2 = locks s1 /\ futs s2 = futs s1).
    { unfold call_at in Ec. inversion Ec. split; reflexivity. }
    destruct E2 as [El2 Ef2].
    eapply both_trans; [apply both_same; [unfold getl; now rewrite El2|unfold getl; now rewrite El2|exact Ef2]|].
    apply both_setf_flag. reflexivity.
  - (* ONewFut *) cbn [fst snd]. apply nov_both, both_new_future.
  - (* OAwaitFut *)
    apply nov_benign; auto. apply chg_await_fut.
  - (* OAwaitTask *)
    apply nov_benign; auto. apply chg_await_fut.
  - (* OSetResult *)
    pose proof (benign_fut_finish s f (FResult v) I (or_intror Hs)) as B.
    destruct (fut_finish s f (FResult v)) as [s' ok]. cbn [fst snd] in *. now apply nov_benign.
  - (* OSetExc *)
    pose proof (benign_fut_finish s f (FExc e) I (or_intror Hs)) as B.
    destruct (fut_finish s f (FExc e)) as [s' ok]. cbn [fst snd] in *. now apply nov_benign.
  - (* OFutCancel *)
    pose proof (benign_fut_finish s f FCancelled I (or_introl eq_refl)) as B.
    destruct (fut_finish s f FCancelled) as [s' ok]. cbn [fst snd] in *. now apply nov_benign.
  - (* OCancel *)
    pose proof (benign_cancel_task s t0 I) as B.
    destruct (cancel_task s t0) as [s' ok]. cbn [fst snd] in *. now apply nov_benign.
  - (* OEventWait *)
    destruct (evalue (gete s e)); [apply nov_both, both_refl|].
    set (f := length (futs s)). set (s1 := fst (new_future s None)).
    change (new_future s None) with (s1, f). cbv beta iota. cbn [fst snd].
    set (s2 := sete s1 e _).
    apply nov_both. apply both_trans with (s2 := s1); [apply both_new_future|].
    apply both_trans with (s2 := s2); [apply both_same; reflexivity|]. apply both_setf_flag. reflexivity.
  - (* OEventSet *)
    destruct (evalue (gete s e)); [apply nov_both, both_refl|].
    cbn [fst snd]. apply nov_benign; auto.
    set (s1 := sete s e (mkEv true (ewaiters (gete s e)))).
    assert (B1 : benign s s1) by (apply chg_sete; intros g Hg; now left).
    eapply benign_trans; [exact B1|]. apply benign_event_fold; [eapply Inv_benign; eauto|].
    intros g Hg Hl. apply (benign_lockfut s s1 g B1) in Hl. apply (iD2 I _ Hl).
    apply (foreign_ev s e). unfold s1 in Hg. rewrite gete_sete, Nat.eqb_refl in Hg. simpl in Hg.
    destruct (Nat.ltb e (length (events s))); exact Hg.
  - (* OEventClear *) cbn [fst snd]. apply nov_both, both_same; reflexivity.
  - (* OAcquire *) now apply acquire_start_nov.
  - (* ORelease *)
    pose proof (release_pre l s t l0 I) as P. destruct (release s t l0) as [s' r]. cbn [fst snd] in *.
    exact P.
  - (* OCondWait *)
    destruct (negb (cond_locked s c)); [apply nov_both, both_refl|].
    destruct (ckind_ (getc s c)).
    + set (f := length (futs s)). set (s1 := fst (new_future s None)).
      change (new_future s None) with (s1, f). cbv beta iota.
      assert (B1 : benign s s1) by apply chg_new_future.
      pose proof (Inv_benign s s1 B1 I) as I1.
      pose proof (release_pre l s1 t (clock (getc s c)) I1) as P2.
      destruct (release_facts s1 t (clock (getc s c)) I1) as (E2 & _).
      destruct (release s1 t (clock (getc s c))) as [s2 rr]. cbn [fst snd] in *.
      assert (P02 : pre l t s s2).
      { eapply pre_trans; [|exact P2]. apply both_pre, both_new_future. }
      destruct rr as [v|e].
      * cbn [fst snd]. unfold nov. cbn [lres_done]. set (s3 := setc s2 c _).
        eapply pp_both_r; [apply pp_pre; exact P02|].
        apply both_trans with (s2 := s3); [apply both_same; reflexivity|]. apply both_setf_flag. reflexivity.
      * pose proof (benign_cond_p_after s2 c (RExc e) (ext_inv _ _ E2)) as B3.
        destruct (cond_p_after s2 c (RExc e)) as [s3 r3]. cbn [fst snd] in *.
        unfold nov. cbn [lres_done]. eapply pre_both_r; [exact P02|].
        apply both_benign; auto. apply (ext_inv _ _ E2).
    + pose proof (release_pre l s t (clock (getc s c)) I) as P1.
      destruct (release s t (clock (getc s c))) as [s1 rr]. cbn [fst snd] in *.
      destruct rr as [v|e]; [|cbn [fst snd]; exact P1].
      set (f := length (futs s1)). set (s2 := fst (new_future s1 None)).
      change (new_future s1 None) with (s2, f). cbv beta iota. cbn [fst snd].
      unfold nov. cbn [lres_done]. set (s3 := setc s2 c _).
      eapply pp_both_r; [apply pp_pre; exact P1|].
      apply both_trans with (s2 := s2); [apply both_new_future|].
      apply both_trans with (s2 := s3); [apply both_same; reflexivity|]. apply both_setf_flag. reflexivity.
  - (* OCondNotify *)
    destruct (negb (cond_locked s c)); [apply nov_both, both_refl|].
    cbn [fst snd]. apply nov_benign; auto.
    destruct (ckind_ (getc s c)); [now apply benign_notify_p|now apply benign_notify_i].
  - (* OCondNotifyAll *)
    destruct (negb (cond_locked s c)); [apply nov_both, both_refl|].
    cbn [fst snd]. apply nov_benign; auto.
    destruct (ckind_ (getc s c)); [now apply benign_notify_p|now apply benign_notify_i].
  - (* OSleepInsert *)
    cbn [fst snd]. apply nov_benign; auto. apply chg_call_pos.
    split; [exact Logic.I|intros; discriminate].
  - (* OTaskSwitch *)
    pose proof (benign_task_reinsert s t0 0) as B. destruct (task_reinsert s t0 0) as [s1 r]. cbn [fst] in B.
    destruct r as [v|e]; [|now apply nov_benign].
    destruct p as [p|]; cbn [fst snd].
    + apply nov_benign; auto.
      eapply benign_trans; [exact B|]. apply chg_call_pos. split; [exact Logic.I|intros; discriminate].
    + now apply nov_benign.
  - (* OTaskReinsert *)
    pose proof (benign_task_reinsert s t0 p) as B. destruct (task_reinsert s t0 p) as [s1 r]. cbn [fst snd] in *.
    now apply nov_benign.
  - (* OCallSoon *) cbn [fst snd]. apply nov_both, both_same; reflexivity.
  - (* OCallPos *) cbn [fst snd]. apply nov_benign; auto. apply chg_call_pos, cb_ok_log.
  - (* OTaskThrow *)
    pose proof (benign_task_throw s t0 e) as B. destruct (task_throw s t0 e) as [s1 r]. cbn [fst snd] in *.
    now apply nov_benign.
  - (* OTaskInterrupt *)
    apply nov_benign; auto. apply benign_task_interrupt_start.
  - (* OTimeoutEnter *)
    destruct d as [d|]; [|apply nov_both, both_refl].
    destruct (call_at s (Qplus (now s) d) (HTrigger (length (blocks s)))) as [s1 h] eqn:Ec. cbn [fst snd].
    apply nov_both. unfold call_at in Ec. inversion Ec. apply both_same; reflexivity.
  - (* OTimeoutExit *)
    cbn [fst snd]. apply nov_both, both_same; reflexivity.
  - (* OInterruptor *)
    pose proof (benign_interruptor 4 s b 0) as B.
    destruct (interruptor 4 s b 0) as [s1 r]. cbn [fst snd] in *.
    pose proof (interruptor_wrap_fst s1 r) as E.
    destruct (interruptor_wrap s1 r) as [s2 r2]. cbn [fst snd] in *. subst s2.
    now apply nov_benign.
  - (* OSetPrio *)
    destruct (is_prio_task s t); cbn [fst snd]; [|apply nov_both, both_refl].
    apply nov_both, both_same; reflexivity.
  - (* OSelf *) apply nov_both, both_refl.
  - (* OQuery *) cbn [fst snd]. apply nov_both. unfold queue_iterated.
    destruct (ready (addlog s (query_code s))); apply both_same; reflexivity.
  - (* OCallSoonQuery *) cbn [fst snd]. apply nov_both, both_same; reflexivity.
  - (* OCallSoonCancel *) cbn [fst snd]. apply nov_both, both_same; reflexivity.
  - (* OCancelAw *)
    pose proof (benign_cancel_awaitable s f I) as B.
    destruct (cancel_awaitable s f) as [s' ok]. cbn [fst snd] in *. now apply nov_benign.
Qed.

(* ------------------------------------------------------------ frame_resume *)
Theorem frame_resume_nov l t fr inp s :
  Inv s -> t < length (tasks s) -> frame_ok s fr ->
  nov l t s (fst (frame_resume t fr inp s)) (snd (frame_resume t fr inp s)).
Proof.
  intros I Ht Hok. destruct fr; cbn [frame_resume].
  - (* InSleep0 *) apply nov_both, both_refl.
  - (* InFut *)
    destruct inp as [v|e]; [|apply nov_both, both_refl].
    destruct (fdone s f); [|apply nov_both, both_refl].
    pose proof (chg_fut_result (notlf s) s f) as B. destruct (fut_result s f) as [s' r]. cbn [fst snd] in *.
    now apply nov_benign.
  - (* InSleepTimer *) cbn [fst snd]. apply nov_both, both_same; reflexivity.
  - (* InEventWait *) cbn [fst snd]. apply nov_both, both_same; reflexivity.
  - (* InAcquireP *) destruct Hok.
  - (* InAcquireA *)
    pose proof (benign_acquire_a_finish s l0 f inp I Hok) as B.
    destruct (acquire_a_finish s l0 f inp) as [s' r]. cbn [fst snd] in *. now apply nov_benign.
  - (* InCondWaitP *)
    set (s1 := match pq_remove HQ (cpq (getc s c)) (Z.of_nat f) with
               | Some (_, q') => setc s c (getc s c <| cpq := q' |>) | None => s end).
    assert (B1 : benign s s1).
    { unfold s1. destruct (pq_remove HQ (cpq (getc s c)) (Z.of_nat f)) as [[p q']|] eqn:Er; [|apply benign_refl].
      apply chg_setc.
      - intros g Hg. cbn in Hg. left. eapply pq_remove_in; eauto. apply (iB2 I).
      - intros g Hg. now left.
      - intros H. cbn. eapply pq_remove_perm; eauto. }
    pose proof (Inv_benign s s1 B1 I) as I1.
    assert (Ht1 : t < length (tasks s1)) by (pose proof (benign_tasks s s1 B1); lia).
    pose proof (reacq_after_nov l s1 t c None (match inp with RVal _ => RVal 1 | RExc e => RExc e end) I1 Ht1) as N.
    unfold reacq_after in N.
    destruct (reacquire s1 t c true None _) as [s2 r]. destruct r as [rep|y frs].
    + destruct (cond_p_after s2 c rep) as [s3 rep']. cbn [fst snd] in *.
      eapply nov_pre_l; [apply both_pre, both_benign; eauto|exact N].
    + cbn [fst snd] in *. eapply nov_pre_l; [apply both_pre, both_benign; eauto|exact N].
  - (* InReleasedP *)
    destruct inp as [v|e].
    + pose proof (benign_cond_p_after s c (match err with Some e => RExc e | None => body end) I) as B.
      destruct (cond_p_after s c _) as [s1 rep]. cbn [fst snd] in *. now apply nov_benign.
    + destruct (is_cancel e).
      * pose proof (reacq_after_nov l s t c (Some e) body I Ht) as N. unfold reacq_after in N.
        destruct (reacquire s t c true (Some e) body) as [s2 r]. destruct r as [rep|y frs].
        -- destruct (cond_p_after s2 c rep) as [s3 rep']. cbn [fst snd] in *. exact N.
        -- cbn [fst snd] in *. exact N.
      * pose proof (benign_cond_p_after s c (RExc e) I) as B.
        destruct (cond_p_after s c (RExc e)) as [s1 rep]. cbn [fst snd] in *. now apply nov_benign.
  - (* InCondWaitI *)
    set (s1 := setc s c (getc s c <| cdq := filter (fun x => negb (Nat.eqb x f)) (cdq (getc s c)) |>)).
    assert (B1 : benign s s1).
    { apply chg_setc.
      - intros g Hg. now left.
      - intros g Hg. cbn in Hg. apply filter_In in Hg as [Hg _]. now left.
      - intros H. exact H. }
    pose proof (Inv_benign s s1 B1 I) as I1.
    eapply nov_pre_l; [apply both_pre, both_benign; eauto|]. now apply reacquire_nov.
  - (* InReacquireI *)
    destruct inp as [v|e]; [apply nov_both, both_refl|].
    destruct (is_cancel e); [now apply reacquire_nov|apply nov_both, both_refl].
  - (* InIntr *)
    destruct inp as [v|e].
    + pose proof (benign_interruptor 4 s b (S i)) as B.
      destruct (interruptor 4 s b (S i)) as [s1 r]. cbn [fst snd] in *.
      pose proof (interruptor_wrap_fst s1 r) as E.
      destruct (interruptor_wrap s1 r) as [s2 r2]. cbn [fst snd] in *. subst s2.
      now apply nov_benign.
    + destruct (Nat.eqb phase 0 && is_runtime (RExc e) && negb (Nat.eqb i 2))%bool.
      * pose proof (interruptor_wrap_fst s (LSusp YNone [InSleep0; InIntr b i 1])) as E'.
        destruct (interruptor_wrap s (LSusp YNone [InSleep0; InIntr b i 1])) as [s2 r2].
        cbn [fst snd] in *. subst s2. apply nov_both, both_refl.
      * pose proof (interruptor_wrap_fst s (LDone (RExc e))) as E'.
        destruct (interruptor_wrap s (LDone (RExc e))) as [s2 r2].
        cbn [fst snd] in *. subst s2. apply nov_both, both_refl.
Qed.

(* ------------------------------------------------------------ resume_stack *)
Lemma nov_susp_app l t s s' y frs rest : nov l t s s' (LSusp y frs) -> nov l t s s' (LSusp y (frs ++ rest)).
Proof. auto. Qed.

Lemma resume_noacq_nov l frs : forall t inp s,
  Inv s -> t < length (tasks s) -> no_acq frs ->
  (forall l0 f, In (InAcquireA l0 f) frs -> lkind_ (getl s l0) = LPlain) ->
  nov l t s (fst (resume_stack t frs inp s)) (snd (resume_stack t frs inp s)).
Proof.
  induction frs as [|fr rest IH]; intros t inp s I Ht Hn Hk; cbn [resume_stack].
  - cbn [fst snd]. apply nov_both, both_refl.
  - assert (Hok : frame_ok s fr).
    { pose proof (Hn fr (or_introl eq_refl)) as Ha. destruct fr; simpl in *; auto; try discriminate.
      apply (Hk l0 f). now left. }
    destruct (frame_resume_ext t fr inp s I Ht Hok) as [E _].
    pose proof (frame_resume_nov l t fr inp s I Ht Hok) as N.
    destruct (frame_resume t fr inp s) as [s1 r]. cbn [fst snd] in *.
    destruct E as (I1 & Hlen & Hkind & _).
    assert (Hk1 : forall l0 f, In (InAcquireA l0 f) rest -> lkind_ (getl s1 l0) = LPlain).
    { intros l0 f Hin. rewrite Hkind. apply (Hk l0 f). now right. }
    destruct r as [rep|y frs1].
    + eapply nov_pre_l; [exact N|]. apply IH; auto; [lia|apply (no_acq_tail fr rest Hn)].
    + cbn [fst snd]. exact N.
Qed.

(* a frame stack that contains a suspended PriorityLock.acquire() *)
Definition acqfr (frs : list frame) : Prop := exists l0 f had, In (InAcquireP l0 f had) frs.

(* phase 0 (possible only when the stack holds a suspended acquire), then phases 1 and 2 *)
Definition nov3 (l t : nat) (frs : list frame) (s s' : st) (r : lres) : Prop :=
  exists m0, (prc l s m0 \/ (acqfr frs /\ rek l s m0)) /\ nov l t m0 s' r.

Theorem resume_stack_nov l frs t inp s :
  Inv s -> t < length (tasks s) -> pend s frs ->
  nov3 l t frs s (fst (resume_stack t frs inp s)) (snd (resume_stack t frs inp s)).
Proof.
  intros I Ht (Hs & Ha & Hk). destruct Hs as [Hn|(l0 & f & had & rest & -> & Hn)].
  - exists s. split; [left; apply prc_refl|]. now apply resume_noacq_nov.
  - cbn [resume_stack].
    destruct (infut_step t f inp s) as (rep & Er & B & Hw & Hfr).
    destruct (frame_resume t (InFut f) inp s) as [s1 r]. cbn [fst snd] in *. subst r.
    pose proof (Inv_benign s s1 B I) as I1.
    assert (Ht1 : t < length (tasks s1)) by (pose proof (benign_tasks s s1 B); lia).
    destruct (Ha l0 f had (or_intror (or_introl eq_refl))) as [Hf Hnf].
    assert (Hf1 : In f (objs s1 l0)) by (now rewrite (benign_objs s s1 l0 B)).
    assert (Hnf1 : no_frame s1 f) by (intros t0 l1 had0; rewrite Hfr; apply Hnf).
    cbn [frame_resume].
    destruct (lstep_acquire_p_finish s1 t l0 f had rep I1 Ht1 Hf1 Hnf1 Hw) as (L & _ & _).
    pose proof (acq_finish_lead l s1 t l0 f had rep (QD_of_Inv s1 I1)) as P2.
    destruct (acquire_p_finish s1 t l0 f had rep) as [s2 r2]. cbn [fst snd] in *.
    pose proof (ls_inv L) as I2.
    assert (Ht2 : t < length (tasks s2)) by (rewrite (ls_ntasks L); exact Ht1).
    assert (Hk2 : forall l1 f0, In (InAcquireA l1 f0) rest -> lkind_ (getl s2 l1) = LPlain).
    { intros l1 f0 Hin. rewrite (ls_kind L), (benign_kind s s1 l1 B). apply (Hk l1 f0). right. now right. }
    exists s2. split.
    + destruct P2 as [P2|R2].
      * left. eapply prc_trans; [apply both_prc, both_benign; eauto|exact P2].
      * right. split; [exists l0, f, had; right; now left|].
        eapply rek_trans; [apply rek_benign; eauto|exact R2].
    + now apply resume_noacq_nov.
Qed.

(* ------------------------------------------------------------ user code *)
Definition onov (l t : nat) (s s' : st) (o : outcome) : Prop :=
  match o with ODone _ => pre l t s s' | OYield _ _ _ => pp l t s s' end.

Lemma onov_pre_l l t s1 s2 s3 o : pre l t s1 s2 -> onov l t s2 s3 o -> onov l t s1 s3 o.
Proof. intros A B. destruct o; cbn in *; [eapply pre_trans|eapply pp_pre_l]; eauto. Qed.
Lemma onov_pp l t s s' o : onov l t s s' o -> pp l t s s'.
Proof. destruct o; cbn; auto. apply pp_pre. Qed.

Theorem exec_nov l c : forall t s,
  Inv s -> t < length (tasks s) -> exec_ok t c s -> exec_ne t c s ->
  onov l t s (fst (exec t c s)) (snd (exec t c s)).
Proof.
  induction c as [v|e|op k IHk|how child IHc k IHk]; intros t s I Ht Hok Hne.
  - cbn. apply pre_refl.
  - cbn. apply pre_refl.
  - cbn [exec exec_ok exec_ne] in *. destruct Hok as [Hs Hk].
    destruct (lib_call_ext t op s I Hs (fun _ => Ht)) as [E _].
    pose proof (lib_call_nov l t op s I Hs (fun _ => Ht)) as N.
    destruct (lib_call t op s) as [s1 r]. cbn [fst snd] in *. destruct r as [rep|y frs].
    + eapply onov_pre_l; [exact N|].
      apply IHk; auto; [apply (ext_inv _ _ E)|pose proof (ext_tasks _ _ E); lia].
    + cbn [fst snd onov]. exact N.
  - assert (Hsp : forall how', let s1 := fst (spawn_task s how' child) in
              Inv s1 /\ t < length (tasks s1) /\ pre l t s s1).
    { intros how'. cbv zeta. pose proof (benign_spawn_task s how' child I) as B.
      split; [eapply Inv_benign; eauto|]. split; [pose proof (benign_tasks _ _ B); lia|].
      now apply both_pre, both_benign. }
    destruct how.
    + cbn [exec exec_ok exec_ne] in *. destruct (Hsp SPlain) as (I1 & Ht1 & P1).
      destruct (spawn_task s SPlain child) as [s1 t']. cbn [fst] in *.
      eapply onov_pre_l; [exact P1|]. apply IHk; auto.
    + cbn [exec exec_ok exec_ne] in *. destruct (Hsp SPy) as (I1 & Ht1 & P1).
      destruct (spawn_task s SPy child) as [s1 t']. cbn [fst] in *.
      eapply onov_pre_l; [exact P1|]. apply IHk; auto.
    + cbn [exec exec_ok exec_ne] in *. destruct (Hsp (SPrio p)) as (I1 & Ht1 & P1).
      destruct (spawn_task s (SPrio p) child) as [s1 t']. cbn [fst] in *.
      eapply onov_pre_l; [exact P1|]. apply IHk; auto.
    + (* SDescend *)
      cbn [exec exec_ok exec_ne] in *. destruct (Hsp SDescend) as (I1 & Ht1 & P1).
      destruct (spawn_task s SDescend child) as [s1 t']. cbn [fst] in *.
      destruct (lib_call_ext t (OTaskSwitch t' (Some 1)) s1 I1 Logic.I (fun _ => Ht1)) as [E2 _].
      pose proof (lib_call_nov l t (OTaskSwitch t' (Some 1)) s1 I1 Logic.I (fun _ => Ht1)) as N2.
      destruct (lib_call t (OTaskSwitch t' (Some 1)) s1) as [s2 r]. cbn [fst snd] in *.
      assert (Ht2 : t < length (tasks s2)) by (pose proof (ext_tasks _ _ E2); lia).
      eapply onov_pre_l; [exact P1|].
      destruct r as [[v|e]|y frs].
      * eapply onov_pre_l; [exact N2|]. apply IHk; auto. apply (ext_inv _ _ E2).
      * eapply onov_pre_l; [exact N2|]. apply IHk; auto. apply (ext_inv _ _ E2).
      * cbn [fst snd onov]. exact N2.
    + (* SStart *)
      cbn [exec exec_ok exec_ne] in *. destruct (Hsp SStart) as (I1 & Ht1 & P1).
      destruct (spawn_task s SStart child) as [s1 t']. cbn [fst snd onov] in *. now apply pp_pre.
    + (* SEager *) cbn [exec_ne] in Hne. destruct Hne.
Qed.

(* ------------------------------------------------------------ finish_step *)
Theorem finish_step_both l t s o :
  Inv s -> t < length (tasks s) -> (forall y frs k, o = OYield y frs k -> pend s frs) ->
  both l s (finish_step t s o).
Proof.
  intros I Ht P. unfold finish_step.
  pose proof (taskfut_not_lockfut s t I Ht) as Hnl.
  destruct o as [[v|e]|y frs k].
  - set (s1 := sett s t (gett s t <| tcont_ := TFin |>)).
    assert (B1 : benign s s1) by (apply chg_sett; [reflexivity|reflexivity|reflexivity|right; reflexivity]).
    pose proof (Inv_benign _ _ B1 I) as I1.
    apply both_benign; auto. eapply benign_trans; [exact B1|].
    destruct (tmustc (gett s t)).
    + eapply benign_trans; [|apply benign_fut_finish; [|now left]].
      * bsett.
      * eapply Inv_benign; [|exact I1]. bsett.
    + apply benign_fut_finish; [exact I1|right; exact Hnl].
  - set (s1 := sett s t (gett s t <| tcont_ := TFin |>)).
    assert (B1 : benign s s1) by (apply chg_sett; [reflexivity|reflexivity|reflexivity|right; reflexivity]).
    pose proof (Inv_benign _ _ B1 I) as I1.
    apply both_benign; auto. eapply benign_trans; [exact B1|].
    destruct (is_cancel e).
    + eapply benign_trans; [|apply benign_fut_finish; [|now left]].
      * apply chg_setf_flag; reflexivity.
      * eapply Inv_benign; [|exact I1]. apply chg_setf_flag; reflexivity.
    + apply benign_fut_finish; [exact I1|right; exact Hnl].
  - specialize (P y frs k eq_refl).
    set (s1 := sett s t (gett s t <| tcont_ := TSusp frs k |>)).
    assert (I1 : Inv s1) by (apply Inv_store_sett; auto).
    assert (Ht1 : t < length (tasks s1)) by (unfold s1; now rewrite sett_len).
    assert (B01 : both l s s1) by (apply both_same; reflexivity).
    assert (Hsoon : forall e, both l s (call_soon_ s1 (HStep t e))).
    { intros e. eapply both_trans; [exact B01|]. apply both_same; reflexivity. }
    destruct y as [|f]; [apply Hsoon|].
    destruct (fblock (getf s1 f)); [|apply Hsoon].
    destruct (Nat.eqb f (tfut (gett s t))); [apply Hsoon|].
    set (s2 := setf s1 f (getf s1 f <| fblock := false |>)).
    assert (B2 : benign s1 s2) by (apply chg_setf_flag; reflexivity).
    set (s3 := add_done_callback s2 f (CbWakeup t)).
    assert (B3 : benign s2 s3) by (apply chg_add_done_callback; exact Ht1).
    set (s4 := sett s3 t (gett s3 t <| twaiter := Some f |>)).
    assert (B4 : benign s3 s4) by bsett.
    pose proof (benign_trans _ _ _ B2 (benign_trans _ _ _ B3 B4)) as B14.
    assert (K14 : both l s s4) by (eapply both_trans; [exact B01|now apply both_benign]).
    destruct (tmustc (gett s4 t)); [|exact K14].
    pose proof (Inv_benign _ _ B14 I1) as I4.
    pose proof (benign_cancel_awaitable s4 f I4) as B5.
    destruct (cancel_awaitable s4 f) as [s5 ok]. cbn [fst] in B5.
    assert (K15 : both l s s5) by (eapply both_trans; [exact K14|now apply both_benign]).
    destruct ok; [|exact K15].
    eapply both_trans; [exact K15|]. apply both_same; reflexivity.
Qed.

(* ------------------------------------------------------------ step_task *)
(* one step of task t whose stored frames are frs: phase 0 (only if frs holds a suspended
   acquire), then phases 1 and 2 *)
Definition st3 (l t : nat) (frs : list frame) (s s' : st) : Prop :=
  exists m0, (prc l s m0 \/ (acqfr frs /\ rek l s m0)) /\ pp l t m0 s'.

Lemma st3_pp l t frs s s' : pp l t s s' -> st3 l t frs s s'.
Proof. intros H. exists s. split; auto. left. apply prc_refl. Qed.
Lemma st3_both_r l t frs s1 s2 s3 : st3 l t frs s1 s2 -> both l s2 s3 -> st3 l t frs s1 s3.
Proof. intros (m0 & A & B) C. exists m0. split; auto. eapply pp_both_r; eauto. Qed.
Lemma st3_quiet_l l t frs s1 s2 s3 :
  prc l s1 s2 -> rek l s1 s2 -> st3 l t frs s2 s3 -> st3 l t frs s1 s3.
Proof.
  intros P R (m0 & [A|[F A]] & B); exists m0; (split; [|exact B]).
  - left. eapply prc_trans; eauto.
  - right. split; auto. eapply rek_trans; eauto.
Qed.

Lemma step_tail_pp l t frs s0 s3 o :
  st3 l t frs s0 s3 -> Inv s3 -> t < length (tasks s3) -> (forall y frs k, o = OYield y frs k -> pend s3 frs) ->
  st3 l t frs s0 ((finish_step t s3 o) <| current := None |>).
Proof.
  intros E I3 Ht P. pose proof (finish_step_both l t s3 o I3 Ht P) as B.
  eapply st3_both_r; [exact E|]. eapply both_trans; [exact B|]. apply both_same; reflexivity.
Qed.

Lemma resume_then_exec_pp l t frs inp s k :
  Inv s -> t < length (tasks s) -> pend s frs ->
  (let '(s1, r) := resume_stack t frs inp s in
   match r with LDone rep => exec_ok t (k rep) s1 | LSusp _ _ => True end) ->
  (let '(s1, r) := resume_stack t frs inp s in
   match r with LDone rep => exec_ne t (k rep) s1 | LSusp _ _ => True end) ->
  let '(s3, o) := (let '(s1, r) := resume_stack t frs inp s in
                   match r with
                   | LDone rep => exec t (k rep) s1
                   | LSusp y frs' => (s1, OYield y frs' k) end) in
  st3 l t frs s s3.
Proof.
  intros I Ht P Hok Hne.
  destruct (resume_stack_ext frs t inp s I Ht P) as [E1 _].
  pose proof (resume_stack_nov l frs t inp s I Ht P) as (m0 & L0 & N1).
  destruct (resume_stack t frs inp s) as [s1 r]. cbn [fst snd] in *.
  assert (Ht1 : t < length (tasks s1)) by (pose proof (ext_tasks _ _ E1); lia).
  destruct r as [rep|y frs1].
  - pose proof (exec_nov l (k rep) t s1 (ext_inv _ _ E1) Ht1 Hok Hne) as N2.
    destruct (exec t (k rep) s1) as [s3 o]. cbn [fst snd] in *.
    exists m0. split; [exact L0|]. eapply pp_pre_l; [exact N1|]. eapply onov_pp; eauto.
  - exists m0. split; [exact L0|]. exact N1.
Qed.

Theorem step_task_pp l t exc s :
  Inv s -> t < length (tasks s) -> step_ok t exc s -> step_ne t exc s ->
  st3 l t (tframes s t) s (step_task t exc s).
Proof.
  intros I Ht Hok Hne.
  unfold step_task, step_ok, step_ne in *.
  destruct (tdone s t); [apply st3_pp, pp_both, both_same; reflexivity|].
  set (exc' := if tmustc (gett s t)
               then match exc with
                    | Some e => if is_cancel e then Some e else Some ECancelled
                    | None => Some ECancelled end
               else exc) in *.
  set (s1 := sett s t (gett s t <| tmustc := false |> <| twaiter := None |> <| tcont_ := TRun |>)) in *.
  set (s2 := s1 <| current := Some t |>) in *.
  assert (B2 : benign s s2).
  { apply benign_trans with (s2 := s1); [|apply chg_core_eq; reflexivity].
    apply chg_sett; [reflexivity|reflexivity|reflexivity|right; reflexivity]. }
  pose proof (ext_benign _ _ I B2) as E2. pose proof (ext_inv _ _ E2) as I2.
  assert (B02 : both l s s2) by (apply both_same; reflexivity).
  assert (P02 : pre l t s s2) by (apply both_pre, B02).
  assert (C02 : prc l s s2) by (apply both_prc, B02).
  assert (R02 : rek l s s2) by (apply rek_same; reflexivity).
  assert (Ht2 : t < length (tasks s2)) by (pose proof (ext_tasks _ _ E2); lia).
  assert (Hfr2 : forall t0, tframes s2 t0 = if Nat.eqb t t0 then [] else tframes s t0).
  { intros t0. unfold tframes. change (gett s2 t0) with (gett s1 t0). unfold s1. rewrite gett_sett.
    apply Nat.ltb_lt in Ht. rewrite Ht, andb_true_r. destruct (Nat.eqb t t0); reflexivity. }
  assert (P2 : pend s2 (tframes s t)).
  { split; [apply (iF1 I)|]. split.
    - intros l0 f had Hin. split; [apply (iF2 I _ _ _ _ Hin)|].
      intros t0 l1 had0 H0. rewrite Hfr2 in H0. destruct (Nat.eqb t t0) eqn:E; [destruct H0|].
      apply Nat.eqb_neq in E. apply E. eapply (iF3 I); eauto.
    - intros l0 f Hin. apply (iF4 I _ _ _ Hin). }
  unfold tframes in P2 |- *.
  destruct (tcont_ (gett s t)) as [c|frs k|y frs k| |]; cbn [frames_of] in P2 |- *.
  - (* TNew *)
    destruct exc' as [e|].
    + apply step_tail_pp; auto; [now apply st3_pp, pp_pre|intros; discriminate].
    + destruct (exec_ext c t s2 I2 Ht2 Hok) as [E3 P3].
      pose proof (exec_nov l c t s2 I2 Ht2 Hok Hne) as N3.
      destruct (exec t c s2) as [s3 o]. cbn [fst snd] in *.
      apply step_tail_pp; [|apply (ext_inv _ _ E3)|pose proof (ext_tasks _ _ E3); lia|exact P3].
      apply st3_pp. eapply pp_pre_l; [exact P02|]. eapply onov_pp; eauto.
  - (* TSusp *)
    pose proof (resume_then_exec t frs (match exc' with None => RVal 0 | Some e => RExc e end) s s2 k E2 Ht2 P2 Hok) as H.
    pose proof (resume_then_exec_pp l t frs (match exc' with None => RVal 0 | Some e => RExc e end) s2 k
                  I2 Ht2 P2 Hok Hne) as HW.
    destruct (let '(s1, r) := resume_stack t frs _ s2 in _) as [s3 o].
    destruct H as (E3 & Ht3 & P3). apply step_tail_pp; auto; [|apply (ext_inv _ _ E3)].
    eapply st3_quiet_l; eauto.
  - (* TEager *)
    destruct exc' as [e|].
    + pose proof (resume_then_exec t frs (RExc e) s s2 k E2 Ht2 P2 Hok) as H.
      pose proof (resume_then_exec_pp l t frs (RExc e) s2 k I2 Ht2 P2 Hok Hne) as HW.
      destruct (let '(s1, r) := resume_stack t frs _ s2 in _) as [s3 o].
      destruct H as (E3 & Ht3 & P3). apply step_tail_pp; auto; [|apply (ext_inv _ _ E3)].
      eapply st3_quiet_l; eauto.
    + set (s3 := match y with YFut f => setf s2 f (getf s2 f <| fblock := true |>) | YNone => s2 end).
      assert (B3 : benign s2 s3).
      { unfold s3. destruct y; [apply benign_refl|apply chg_setf_flag; reflexivity]. }
      apply step_tail_pp.
      * apply st3_pp. eapply pp_pre_l; [exact P02|]. apply pp_both. now apply both_benign.
      * eapply Inv_benign; eauto.
      * pose proof (benign_tasks _ _ B3). lia.
      * intros y0 frs0 k0 H. inversion H; subst. eapply pend_benign; eauto.
  - (* TRun *) apply step_tail_pp; auto; [now apply st3_pp, pp_pre|intros; discriminate].
  - (* TFin *) apply step_tail_pp; auto; [now apply st3_pp, pp_pre|intros; discriminate].
Qed.

(* ------------------------------------------------------------ the loop *)
(* one scheduler action, seen from lock l: phase 0 is possible only in a step of a task that was
   suspended in PriorityLock.acquire() when the action began *)
Definition pp3 (l : nat) (s s' : st) : Prop :=
  exists m, post l m s' /\
    (prc l s m \/ exists t m0, acqfr (tframes s t) /\ rek l s m0 /\ pre l t m0 m).

Lemma st3_pp3 l t s s' : st3 l t (tframes s t) s s' -> pp3 l s s'.
Proof.
  intros (m0 & A & m & B & C). exists m. split; auto. destruct A as [A|[F A]].
  - left. eapply prc_trans; [exact A|]. apply (pre_prc _ _ _ _ B).
  - right. exists t, m0. auto.
Qed.
Lemma pp_pp3 l t s s' : pp l t s s' -> pp3 l s s'.
Proof. intros (m & A & B). exists m. split; auto. left. apply (pre_prc _ _ _ _ A). Qed.
Lemma both_pp3 l s s' : both l s s' -> pp3 l s s'.
Proof. intros B. apply (pp_pp3 l 0), pp_both, B. Qed.
Lemma pp3_quiet_l l s1 s2 s3 :
  prc l s1 s2 -> rek l s1 s2 -> (forall t, acqfr (tframes s2 t) -> acqfr (tframes s1 t)) ->
  pp3 l s2 s3 -> pp3 l s1 s3.
Proof.
  intros P R F (m & A & [B|(t & m0 & F2 & B & C)]); exists m; (split; [exact A|]).
  - left. eapply prc_trans; eauto.
  - right. exists t, m0. split; [now apply F|]. split; auto. eapply rek_trans; eauto.
Qed.

Lemma benign_acqfr s s' t : benign s s' -> t < length (tasks s) -> acqfr (tframes s' t) -> acqfr (tframes s t).
Proof.
  intros B Ht F. destruct (c_task B t Ht) as (_ & _ & _ & [E|E]); rewrite E in F; auto.
  destruct F as (l0 & f & had & []).
Qed.

Theorem wakeup_pp l t f s :
  Inv s -> t < length (tasks s) -> wakeup_ok t f s -> wakeup_ne t f s -> pp3 l s (wakeup t f s).
Proof.
  intros I Ht Hok Hne. unfold wakeup, wakeup_ok, wakeup_ne in *. destruct (fstate_ (getf s f)).
  - now apply (st3_pp3 l t), step_task_pp.
  - now apply (st3_pp3 l t), step_task_pp.
  - now apply (st3_pp3 l t), step_task_pp.
  - pose proof (chg_fut_result (notlf s) s f) as B. destruct (fut_result s f) as [s' r]. cbn [fst] in B.
    assert (Ht' : t < length (tasks s')) by (pose proof (benign_tasks _ _ B); lia).
    apply pp3_quiet_l with (s2 := s').
    + apply both_prc, both_benign; auto.
    + apply rek_benign; auto.
    + intros t0 F. destruct (Nat.lt_ge_cases t0 (length (tasks s))) as [H0|H0].
      * eapply benign_acqfr; eauto.
      * exfalso. destruct (c_newtask B t0 H0) as (_ & E & _). rewrite E in F.
        destruct F as (l0 & f0 & had & []).
    + apply (st3_pp3 l t), step_task_pp; auto. eapply Inv_benign; eauto.
Qed.

Theorem run_callback_pp l c s :
  Inv s -> In c (hcbs s) -> run_callback_ok c s -> run_callback_ne c s -> pp3 l s (run_callback c s).
Proof.
  intros I Hin Hok Hne. pose proof (iE1 I _ Hin) as Hc.
  destruct c; cbn [run_callback run_callback_ok run_callback_ne cb_task_ok] in *.
  - now apply (st3_pp3 l t), step_task_pp.
  - now apply wakeup_pp.
  - pose proof (benign_task_reinsert s t p) as B. destruct (task_reinsert s t p) as [s' r]. cbn [fst] in B.
    destruct r; [now apply both_pp3, both_benign|].
    apply both_pp3. eapply both_trans; [apply both_benign; eauto|]. apply both_same; reflexivity.
  - apply both_pp3, both_same; reflexivity.
  - apply both_pp3, both_benign; auto. apply benign_fut_finish; auto. right.
    intros Hl. apply (iD2 I _ Hl). eapply foreign_timer; eauto.
  - apply both_pp3, both_benign; auto. now apply benign_new_task.
  - apply both_pp3. unfold queue_iterated.
    destruct (ready (addlog s (query_code s))); apply both_same; reflexivity.
  - apply both_pp3, both_benign; auto. now apply benign_cancel_task.
Qed.

Theorem run_one_pp l s : Inv s -> run_one_ok s -> run_one_ne s -> pp3 l s (run_one s).
Proof.
  intros I Hok Hne. unfold run_one, run_one_ok, run_one_ne in *.
  destruct (rq_popleft (ready s)) as [[h r]|]; [|apply both_pp3, both_refl].
  set (s1 := s <| ready := r |>) in *.
  assert (B1 : benign s s1) by (apply chg_core_eq; reflexivity).
  destruct (hcancelled (geth s1 h)) eqn:Ec; [apply both_pp3, both_same; reflexivity|].
  apply pp3_quiet_l with (s2 := s1);
    [apply both_prc, both_same; reflexivity|apply rek_same; reflexivity|intros t F; exact F|].
  apply run_callback_pp; auto.
  - eapply Inv_benign; eauto.
  - change (hcbs s1) with (hcbs s). change (geth s1 h) with (geth s h) in *.
    destruct (Nat.lt_ge_cases h (length (handles s))) as [Hh|Hh].
    + unfold hcbs, geth. apply in_map. now apply nth_In.
    + unfold geth in Ec. rewrite nth_overflow in Ec by auto. discriminate.
Qed.

Theorem do_action_pp l s a : Inv s -> action_ok s a -> action_ne s a -> pp3 l s (do_action s a).
Proof.
  intros I Hok Hne. destruct a; cbn [do_action action_ok action_ne] in *.
  - now apply run_one_pp.
  - apply both_pp3, both_benign; auto. apply benign_begin_iteration.
  - apply both_pp3, both_same; reflexivity.
  - apply both_pp3, both_benign; auto. now apply benign_spawn_task.
  - destruct Hok as [Hs Hn]. apply (pp_pp3 l 0). eapply nov_pp. apply (lib_call_nov l 0 op s I Hs).
    intros H. congruence.
Qed.

(* ================================================================ 4. the two side facts, per step and along a quiet run *)
Lemma pp3_X l s s' : pp3 l s s' -> X l s s'.
Proof.
  intros (m & (_ & Xp & _) & [[_ Xa]|(t & m0 & _ & [_ Xr] & Hp)]).
  - eapply X_trans; eauto.
  - eapply X_trans; [exact Xr|]. eapply X_trans; [eapply pre_X; eauto|exact Xp].
Qed.

Lemma pp3_pending l s s' : pp3 l s s' -> arrivals_pending l s s'.
Proof.
  intros (m & (_ & _ & Wp) & Hm) g Hg Hng. destruct (woken s' g) eqn:Wk; auto. exfalso. apply Hng.
  destruct (Wp g Hg Wk) as [Hgm _].
  rewrite objs_qa in Hgm. apply in_map_iff in Hgm as (e & <- & He).
  destruct Hm as [[Pa _]|(t & m0 & _ & [Ra _] & Hp)].
  - apply in_objs_qa. apply (p_sub _ _ _ Pa e He).
  - pose proof (pre_prc _ _ _ _ Hp) as [Pa _].
    apply (r_objs _ _ _ Ra). apply in_objs_qa. apply (p_sub _ _ _ Pa e He).
Qed.

(* every action without eager() start keeps the queue invariant of every lock *)
Theorem action_AI l s a : Inv s -> action_ok s a -> action_ne s a -> AI l s -> AI l (do_action s a).
Proof. intros I Hok Hne. apply (pp3_X l s (do_action s a)). now apply do_action_pp. Qed.

Theorem step_AI l s : Inv s -> run_one_ok s -> run_one_ne s -> AI l s -> AI l (run_one s).
Proof. intros I Hok Hne. apply (action_AI l s AStep I Hok Hne). Qed.

(* no entry is woken in the step in which it arrives *)
Theorem step_arrivals_pending l s :
  Inv s -> run_one_ok s -> run_one_ne s -> arrivals_pending l s (run_one s).
Proof. intros I Hok Hne. apply pp3_pending. apply (do_action_pp l s AStep I Hok Hne). Qed.

Lemma AI_steps l n : forall s, R s -> quiet n s -> AI l s -> forall k, k <= n -> AI l (steps k s).
Proof.
  induction n as [|n IH]; intros s Hr Hq A k Hk.
  - assert (k = 0) by lia. subst. exact A.
  - destruct k as [|k]; [exact A|]. destruct Hq as [_ [Hsq Hq]]. cbn [steps do_action].
    apply IH; auto; [apply (R_step s Hr (proj1 Hsq))| |lia].
    apply step_AI; auto; [apply (R_inv s Hr)|apply (proj1 Hsq)|apply run_one_np_ne, (proj2 Hsq)].
Qed.

Lemma pending_steps l n : forall s, R s -> quiet n s ->
  forall k, k < n -> arrivals_pending l (steps k s) (steps (S k) s).
Proof.
  induction n as [|n IH]; intros s Hr Hq k Hk; [lia|]. destruct Hq as [_ [Hsq Hq]].
  destruct k as [|k].
  - apply (step_arrivals_pending l s (R_inv s Hr) (proj1 Hsq) (run_one_np_ne s (proj2 Hsq))).
  - exact (IH (run_one s) (R_step s Hr (proj1 Hsq)) Hq k ltac:(lia)).
Qed.

(* arrival_ids in every state of a quiet run, from the queue invariant at its start *)
Theorem arrival_ids_run l n s :
  R s -> quiet n s -> AI l s -> forall k, k <= n -> arrival_ids (steps k s) l.
Proof. intros Hr Hq A k Hk. apply AI_arrival_ids. now apply (AI_steps l n s). Qed.

(* the hypothesis [fifo_run] of C13_every_acquirer_served with two of its four clauses derived *)
Theorem fifo_run_derived l n s :
  R s -> quiet (S n) s -> AI l s ->
  (forall k, k <= n -> eqkeys (steps k s) l /\ calmf (steps k s) l) ->
  fifo_run l n s.
Proof.
  intros Hr Hq A H k Hk. destruct (H k Hk) as [E C]. split; auto. split; [|split; auto].
  - apply (arrival_ids_run l (S n) s Hr Hq A). lia.
  - apply (pending_steps l (S n) s Hr Hq). lia.
Qed.

Lemma gains_zero' l fw n : forall s,
  R s -> quiet n s -> fw < nf s -> AI l s ->
  (forall k, k <= n -> eqkeys (steps k s) l) -> (forall k, k < n -> calmf (steps k s) l) ->
  gains l fw n s = 0.
Proof.
  induction n as [|n IH]; intros s Hr Hq Hfw A He Hc; cbn [gains]; auto.
  pose proof Hq as [_ [Hsq Hq']]. pose proof (R_inv s Hr) as I.
  pose proof (run_one_np_ne s (proj2 Hsq)) as Hne.
  assert (A1 : AI l (run_one s)) by (apply step_AI; auto; apply (proj1 Hsq)).
  rewrite (no_gain_equal s l fw Hr Hsq Hfw (He 0 ltac:(lia)) (AI_arrival_ids _ _ A) (Hc 0 ltac:(lia))
             (He 1 ltac:(lia)) (AI_arrival_ids _ _ A1)
             (step_arrivals_pending l s I (proj1 Hsq) Hne)).
  destruct (R_ready s Hr) as [q Eq]. pose proof (run_one_mono s q Eq (proj2 Hsq)) as Mo.
  assert (G : gains l fw n (run_one s) = 0).
  { apply IH; auto.
    - apply (R_step s Hr (proj1 Hsq)).
    - pose proof (m_fl _ _ Mo). unfold nf in *. lia.
    - intros k Hk. apply (He (S k)). lia.
    - intros k Hk. apply (Hc (S k)). lia. }
  rewrite G. reflexivity.
Qed.

(* C13_every_acquirer_served for equal stored keys, with arrival_ids and arrivals_pending derived:
   what remains of [fifo_run] is [eqkeys] in the states of the run, [calmf] in the states before
   the last one, and the queue invariant [AI] in the FIRST state only *)
Theorem served_equal_derived K M l fw r s :
  R s -> lkind_ (getl s l) = LPrio -> In fw (objs s l) ->
  quiet (bound K M r) s -> rbound M (bound K M r) s ->
  releases_within K l (bound K M r) s -> nocb l fw (bound K M r) s ->
  AI l s ->
  (forall k, k <= bound K M r -> eqkeys (steps k s) l) ->
  (forall k, k < bound K M r -> calmf (steps k s) l) ->
  nblk s l fw <= r ->
  exists n t, n < bound K M r /\ (forall j, j <= n -> In fw (objs (steps j s) l)) /\
              turn (steps n s) l fw t.
Proof.
  intros Hr Hk Hf Hq Hb Hrel Hcb A He Hc Hm.
  apply (served_rounds K M l fw r s Hr Hk Hf Hq Hb Hrel Hcb).
  rewrite (gains_zero' l fw _ s Hr Hq); auto; [lia|].
  apply (Inv_bound s (R_inv s Hr) l fw Hf).
Qed.

(* ================================================================ 5. the queue invariant from reachability (runs without eager() starts) *)
Lemma init_locks_empty' (lks : list lkind) : forall l,
  arr (lpq (nth l (map (fun k => mkLock k false None pq_empty [] []) lks) dlock)) = [].
Proof. induction lks as [|k lks IH]; intros [|l]; simpl; auto. Qed.

Lemma AI_init l p fa dr lks cds nev : AI l (init_st p fa dr lks cds nev).
Proof.
  assert (E : arr (lpq (getl (init_st p fa dr lks cds nev) l)) = []).
  { unfold getl, init_st. cbn [locks]. apply init_locks_empty'. }
  unfold AI, AIq. rewrite E. split; [intros a []|intros a b []].
Qed.

Theorem AI_run l acts : forall s,
  Inv s -> AI l s -> run_ok s acts -> run_ne s acts -> AI l (fold_left do_action acts s).
Proof.
  induction acts as [|a acts IH]; intros s I A Hok Hne; simpl; [auto|].
  destruct Hok as [Ha Hr]. destruct Hne as [Hna Hnr]. apply IH; auto.
  - apply (ext_inv _ _ (do_action_ext s a I Ha)).
  - now apply action_AI.
Qed.

(* every state reached from an initial state by a run without eager() starts *)
Theorem AI_reachable l p fa dr lks cds nev acts :
  let s0 := init_st p fa dr lks cds nev in
  run_ok s0 acts -> run_ne s0 acts -> AI l (fold_left do_action acts s0).
Proof. intros s0 Hok Hne. apply AI_run; auto; [apply Inv_init|apply AI_init]. Qed.

(* boolean checker of the queue invariant of one state *)
Definition AIb (l : nat) (s : st) : bool :=
  let q := lpq (getl s l) in
  forallb (fun a => (eseq a <? seqn q)%Z) (arr q) &&
  forallb (fun a => forallb (fun b => negb (Nat.ltb (fo a) (fo b)) || (eseq a <? eseq b)%Z) (arr q)) (arr q).
Lemma AIb_ok l s : AIb l s = true -> AI l s.
Proof.
  unfold AIb, AI, AIq. intros H. apply andb_prop in H as [H1 H2]. rewrite forallb_forall in H1, H2. split.
  - intros a Ha. apply Z.ltb_lt. now apply H1.
  - intros a b Ha Hb Hlt. specialize (H2 a Ha). rewrite forallb_forall in H2. specialize (H2 b Hb).
    apply Nat.ltb_lt in Hlt. rewrite Hlt in H2. cbn in H2. now apply Z.ltb_lt.
Qed.
