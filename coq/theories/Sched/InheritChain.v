(* C12, nested waiters, towards the invariant [forall l, keyed s l] on the fixed-lock-order domain
   (model with the repairs F16 and F17).

   This file: the table form [OW] of the fixed order (a PriorityTask with _waiting_on = l holds only
   locks of smaller index), [ranked] from it at INTERMEDIATE states ([WIx ne X R]), the holder chain
   walked by the repaired propagate_priority ([reachq]: the chain tasks need not be blocked any more),
   and the core theorem [keyed_propagate_up]: if every live entry is keyed by the current effective
   priority except possibly those of the tasks above o in the wait-for graph, then after
   propagate_priority(o) every live entry of every lock is. *)
From Coq Require Import QArith Lqa Sorting.Permutation.
From RecordUpdate Require Import RecordUpdate.
From Asynkit Require Import Base.Prelude Queue.PQ Queue.Order Queue.Heap Queue.ListFacts Queue.PQProofs Queue.PosPQ Queue.Exec
  Sched.Model Sched.Tables Sched.QFacts Sched.LockInv Sched.Footprint Sched.LockOps Sched.LockLib
  Sched.LockProofs Sched.LockThms Sched.InheritEprio Sched.InheritHandover Sched.InheritKeys
  Sched.InheritFalls Sched.WaitInv Sched.WaitOps Sched.WaitProofs.
From Asynkit Require Import Sched.OrderInv Sched.OrderPass Sched.OrderThms Sched.InheritLocal.
Import RecordSetNotations.
Open Scope nat_scope.

(* ------------------------------------------------------------ the fixed order on the tables *)
Definition OW (s : st) : Prop :=
  forall x l l0, is_prio_task s x = true -> twaiting (gett s x) = Some l ->
                 In l0 (tholding (gett s x)) -> l0 < l.

Lemma lrank_dec_tbl ne X R s : Inv s -> WIx ne X R s -> OW s ->
  forall w t, waits_on s w t -> lrank s w < lrank s t.
Proof.
  intros I W O w t (l & Hl & Hw).
  destruct (waiter_has_row _ _ _ _ _ _ W Hw) as (f & Hrow).
  pose proof (rows_inrange _ _ _ _ Hrow) as Hlr.
  assert (Hpt : is_prio_task s t = true).
  { destruct (is_prio_task s t) eqn:E; auto. rewrite (iA4 I t E) in Hl. destruct Hl. }
  assert (Hrt : S l < lrank s t).
  { unfold lrank. rewrite Hpt. destruct (twaiting (gett s t)) as [l'|] eqn:Ew; [|lia].
    pose proof (O t l' l Hpt Ew Hl). lia. }
  unfold lrank at 1. destruct (is_prio_task s w) eqn:Epw; [|lia].
  destruct (w_wait W l f w Hrow Epw) as [-> _]. lia.
Qed.

Theorem ranked_tbl ne X R s : Inv s -> WIx ne X R s -> OW s -> ranked s.
Proof.
  intros I W O. exists (lrank s). split; [now apply (lrank_dec_tbl ne X R)|].
  intros t. pose proof (lrank_bound s t). unfold efuel. lia.
Qed.

(* at the boundary of an action [OW] follows from the frame form [ordf] *)
Lemma OW_of_ordf s : WInv true s -> ordf s -> OW s.
Proof.
  intros W O x l l0 Hp Ew Hl.
  destruct (w_newait W eq_refl x l (fun h => h) Hp Ew) as (f & Hrow).
  eapply queued_holds_below; eauto.
Qed.

(* ------------------------------------------------------------ stable goals *)
Lemma stable_em (P : Prop) : (P \/ ~ P -> False) -> False.
Proof. tauto. Qed.

(* ------------------------------------------------------------ the holder chain *)
(* w is a PriorityTask queued on lock l with waiter future f (blocked or not) *)
Definition queued_on (s : st) (w l f : nat) : Prop :=
  is_prio_task s w = true /\ twaiting (gett s w) = Some l /\
  In (f, w) (lwt (getl s l)) /\ (forall f', In (f', w) (lwt (getl s l)) -> f' = f).

Inductive reachq (s : st) : nat -> nat -> nat -> Prop :=
| rq_here u : reachq s O u u
| rq_up n u l f o w : queued_on s u l f -> lowner (getl s l) = Some o ->
                      reachq s n o w -> reachq s (S n) u w.

Lemma rk_queued_on s s' w l f : rk s s' -> queued_on s w l f -> queued_on s' w l f.
Proof.
  intros R (A & C & D & E). unfold queued_on.
  rewrite (rk_is_prio _ _ w R), (rk_gett _ _ w R), (rk_lwt _ _ R). auto.
Qed.

Lemma rk_reachq s s' n u w : rk s s' -> reachq s n u w -> reachq s' n u w.
Proof.
  intros R H. induction H as [u|n u l f o w B O _ IH]; [constructor|].
  econstructor; [eapply rk_queued_on; eauto| |exact IH]. now rewrite (rk_owner _ _ R).
Qed.

Lemma reachq_app s n u v : reachq s n u v -> forall m x, reachq s m v x -> reachq s (n + m) u x.
Proof.
  induction 1 as [u|n u l f o w B O _ IH]; intros m x H; [exact H|].
  simpl. econstructor; eauto.
Qed.

(* the lock half of propagate_task *)
Definition prest (fuel : nat) (s : st) (t : nat) : st :=
  match twaiting (gett s t), fuel with
  | Some l, S fuel =>
      let s1 := match lowner (getl s l) with Some o => propagate_task fuel s o | None => s end in
      match find (fun pr => Nat.eqb (snd pr) t) (lwt (getl s1 l)) with
      | Some (f, _) =>
          match pq_reschedule HQ (lpq (getl s1 l)) (fun o => Nat.eqb (Z.to_nat o) f)
                              (effective_priority s1 t) with
          | Some (_, q') => setl s1 l (getl s1 l <| lpq := q' |>)
          | None => s1
          end
      | None => s1
      end
  | _, _ => s
  end.

Lemma propagate_unf fuel s t :
  propagate_task fuel s t =
  if negb (is_prio_task s t) then s
  else prest fuel (if task_is_runnable s t then task_reschedule s t else s) t.
Proof. destruct fuel; reflexivity. Qed.

Lemma rk_resched_ready s t : allwf s -> rk s (if task_is_runnable s t then task_reschedule s t else s).
Proof. intros W. destruct (task_is_runnable s t); [now apply rk_only_ready|now apply rk_refl]. Qed.

(* every PriorityTask on the holder chain that is queued (blocked, or runnable and still queued)
   has its entry re-keyed to its current effective priority *)
Theorem propagate_rekeys_q fuel : forall s u n w l f,
  allwf s -> lwt_ok s -> reachq s n u w -> n < fuel -> queued_on s w l f ->
  key_current (propagate_task fuel s u) w l f.
Proof.
  induction fuel as [|fuel IH]; intros s u n w l f W L Hr Hn Hb; [lia|].
  assert (Hpu : is_prio_task s u = true).
  { inversion Hr; subst; [apply Hb|]. match goal with H : queued_on _ u _ _ |- _ => apply H end. }
  rewrite propagate_unf, Hpu. cbn [negb].
  pose proof (rk_resched_ready s u W) as R0.
  set (s0 := if task_is_runnable s u then task_reschedule s u else s) in *. clearbody s0.
  pose proof (rk_wf _ _ R0) as W0. pose proof (rk_lwt_ok _ _ R0 L) as L0.
  pose proof (rk_reachq _ _ _ _ _ R0 Hr) as Hr0. pose proof (rk_queued_on _ _ _ _ _ R0 Hb) as Hb0.
  clear R0 W L Hr Hb Hpu s. rename s0 into s, W0 into W, L0 into L, Hr0 into Hr, Hb0 into Hb.
  inversion Hr as [u0|n0 u0 l1 f1 o w0 Hbu Ho Hr' E1 E2 E3]; subst.
  - (* w = u: its own entry is re-keyed last *)
    unfold prest. destruct Hb as (A & C & D & E). rewrite C.
    set (s1 := match lowner (getl s l) with Some o => propagate_task fuel s o | None => s end).
    assert (R1 : rk s s1).
    { unfold s1. destruct (lowner (getl s l)); [now apply rk_propagate_task|now apply rk_refl]. }
    pose proof (rk_queued_on _ _ _ _ _ R1 (conj A (conj C (conj D E)))) as (A1 & C1 & D1 & E1).
    destruct (find (fun pr => Nat.eqb (snd pr) w) (lwt (getl s1 l))) as [[f1 u']|] eqn:Ef.
    + pose proof (find_snd_in _ _ _ _ Ef) as Hin1. assert (f1 = f) by (now apply E1). subst f1.
      destruct (pq_reschedule HQ (lpq (getl s1 l)) _ (effective_priority s1 w)) as [[o q']|] eqn:Er.
      * destruct (rk_resched s1 l w f o q' (rk_wf _ _ R1) (rk_lwt_ok _ _ R1 L) A1 Hin1 Er) as [R2 K2].
        intros e He Hf. rewrite (K2 e He Hf). symmetry.
        apply effective_priority_sim, rk_esim, R2.
      * intros e He Hf. exfalso.
        assert (find_last_index (fun o => Nat.eqb (Z.to_nat o) f) (arr (lpq (getl s1 l))) = None) as Hn0.
        { unfold pq_reschedule in Er. destruct (find_last_index _ _); [|reflexivity].
          destruct (_ || _); discriminate. }
        pose proof (find_last_index_none _ _ Hn0 e He) as Hk. simpl in Hk.
        rewrite Hf, Nat.eqb_refl in Hk. discriminate.
    + exfalso. eapply List.find_none in Ef; [|exact D1]. simpl in Ef. now rewrite Nat.eqb_refl in Ef.
  - (* w is further up *)
    unfold prest. pose proof Hbu as (Au & Cu & Du & Eu). rewrite Cu, Ho.
    set (s1 := propagate_task fuel s o).
    assert (R1 : rk s s1) by (now apply rk_propagate_task).
    assert (K1 : key_current s1 w l f) by (apply (IH s o n0 w l f); auto; lia).
    pose proof (rk_queued_on _ _ _ _ _ R1 Hb) as Hb1.
    pose proof (rk_queued_on _ _ _ _ _ R1 Hbu) as (A1 & C1 & D1 & E1).
    assert (Tw : task_of_fut (getl s1 l) f = w).
    { destruct Hb1 as (_ & _ & Dw & _). apply task_of_fut_unique; auto. apply (rk_lwt_ok _ _ R1 L). }
    destruct (find (fun pr => Nat.eqb (snd pr) u) (lwt (getl s1 l1))) as [[f2 u']|] eqn:Ef; auto.
    pose proof (find_snd_in _ _ _ _ Ef) as Hin1.
    destruct (pq_reschedule HQ (lpq (getl s1 l1)) _ (effective_priority s1 u)) as [[o2 q']|] eqn:Er; auto.
    destruct (rk_resched s1 l1 u f2 o2 q' (rk_wf _ _ R1) (rk_lwt_ok _ _ R1 L) A1 Hin1 Er) as [R2 _].
    eapply rk_key_current_other; eauto. apply Hb1.
Qed.

(* ------------------------------------------------------------ chain = the tasks above, and its length *)
Section Chain.
Variables (ne : bool) (X : nat -> Prop) (R : nat * list frame) (s : st).
Hypothesis I : Inv s.
Hypothesis W : WIx ne X R s.
Hypothesis O : OW s.

Lemma holder_prio x l : In l (tholding (gett s x)) -> is_prio_task s x = true.
Proof.
  intros Hl. destruct (is_prio_task s x) eqn:E; auto. rewrite (iA4 I x E) in Hl. destruct Hl.
Qed.

(* one edge of the graph, from a PriorityTask, is one hop of the chain *)
Lemma edge_hop u x : is_prio_task s u = true -> waits_on s u x ->
  reachq s 1 u x /\ is_prio_task s x = true.
Proof.
  intros Hp (l & Hl & Hw).
  destruct (waiter_has_row _ _ _ _ _ _ W Hw) as (f & Hrow).
  pose proof (rows_inrange _ _ _ _ Hrow) as Hlr.
  destruct (w_wait W l f u Hrow Hp) as [Ew _].
  split; [|eapply holder_prio; eauto].
  apply (rq_up s 0 u l f x x); [|now apply (iA2 I)|constructor].
  repeat split; auto. intros f' Hin. symmetry. eapply (w_one W); eauto.
Qed.

Lemma tr_chain u x : is_prio_task s u = true -> waits_tr s u x ->
  exists n, reachq s n u x /\ is_prio_task s x = true.
Proof.
  intros Hp H. induction H as [u x H|u v x _ IH H].
  - exists 1. now apply edge_hop.
  - destruct (IH Hp) as (n & Hr & Hpv). destruct (edge_hop v x Hpv H) as [H1 Hpx].
    exists (n + 1). split; auto. eapply reachq_app; eauto.
Qed.

(* the locks along the chain increase, so the chain is short *)
Lemma reachq_bound n u w : reachq s n u w ->
  forall l, twaiting (gett s u) = Some l -> 0 < n -> l + n <= length (locks s).
Proof.
  induction 1 as [u|n u l f o w B Ho Hr IH]; intros l0 Ew Hn; [lia|].
  destruct B as (Bp & Bw & Bin & _). rewrite Bw in Ew. injection Ew as <-.
  pose proof (rows_inrange s l f u Bin) as Hlr.
  destruct n as [|n]; [lia|].
  inversion Hr as [|n' u' l' f' o' w' B' Ho' Hr' E1 E2 E3]; subst.
  destruct B' as (Bp' & Bw' & Bin' & _).
  pose proof (IH l' Bw' ltac:(lia)) as Hb.
  pose proof (O o l' l Bp' Bw' (iA3 I l o Ho Bp')). lia.
Qed.

Lemma reachq_short n u w : reachq s n u w -> n < efuel s.
Proof.
  intros H. destruct n as [|n]; [unfold efuel; lia|].
  inversion H as [|n' u' l f o w' B Ho Hr E1 E2 E3]; subst.
  pose proof (reachq_bound _ _ _ H l (proj1 (proj2 B)) ltac:(lia)). unfold efuel. lia.
Qed.

(* the tasks above o: o itself and every task o waits for, transitively *)
Definition above (o x : nat) : Prop := x = o \/ waits_tr s o x.

(* THE CORE: stale keys only above o are all repaired by propagate_priority(o) *)
Theorem keyed_propagate_up o :
  is_prio_task s o = true ->
  (forall l0 e, In e (arr (lpq (getl s l0))) -> live s e ->
                ~ above o (entry_task (getl s l0) e) ->
                (epri e == wprio s (entry_task (getl s l0) e))%Q) ->
  forall l0, keyed (propagate_priority s o) l0.
Proof.
  intros Hpo K l0 e' He' Hlive'.
  assert (Wf : allwf s) by (intros l; apply (iB1 I)).
  assert (Lw : lwt_ok s) by (intros l; apply (w_nodup W)).
  pose proof (rk_propagate_priority s o Wf Lw) as Rk.
  set (s' := propagate_priority s o) in *.
  destruct (rk_ent _ _ Rk l0 e' He') as (e & He & Sq & Ob & Ky).
  assert (Le : live s e).
  { apply (rk_live s s' e' Rk) in Hlive'. unfold live in *. now rewrite <- Ob. }
  rewrite (rk_entry_task s s' l0 e e' Rk Ob).
  rewrite (wprio_sim s s' _ (rk_esim _ _ Rk)).
  set (w := entry_task (getl s l0) e) in *.
  destruct Ky as [Ky|Ky]; [|exact Ky].
  destruct (Qeq_dec (epri e') (wprio s w)) as [Hq|Hq]; [exact Hq|exfalso].
  apply (stable_em (above o w)). intros [Ha|Hna].
  2:{ apply Hq. rewrite Ky. now apply K. }
  (* w is above o: it is on the chain and its entry has been re-keyed *)
  pose proof (rtask_row _ _ _ _ _ _ W He) as Hrow. fold (entry_task (getl s l0) e) in Hrow.
  change (rtask s l0 (Z.to_nat (eobj e))) with w in Hrow.
  assert (Hch : exists n, reachq s n o w /\ is_prio_task s w = true).
  { destruct Ha as [->|Ha]; [exists 0; split; [constructor|exact Hpo]|now apply tr_chain]. }
  destruct Hch as (n & Hr & Hpw).
  destruct (w_wait W l0 _ w Hrow Hpw) as [Ew _].
  assert (Hq0 : queued_on s w l0 (Z.to_nat (eobj e))).
  { repeat split; auto. intros f' Hin. symmetry. eapply (w_one W); eauto. }
  pose proof (propagate_rekeys_q (efuel s) s o n w l0 _ Wf Lw Hr (reachq_short _ _ _ Hr) Hq0) as Kc.
  apply Hq. rewrite (Kc e' He' ltac:(now rewrite Ob)).
  change (propagate_task (efuel s) s o) with s'.
  rewrite (effective_priority_sim s s' w (rk_esim _ _ Rk)).
  unfold wprio. unfold is_prio_task in Hpw. destruct (tprio (gett s w)); [reflexivity|discriminate].
Qed.

(* closure properties of [above] used for the locality argument *)
Lemma above_up o w x : above o w -> waits_on s w x -> above o x.
Proof.
  intros [->|H] Hw; right; [now apply wt_one|eapply wt_step; eauto].
Qed.
End Chain.
