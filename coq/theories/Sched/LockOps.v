(* Preservation of the C13 invariant by the PriorityLock operations of the model. *)
From Coq Require Import QArith Sorting.Permutation.
From RecordUpdate Require Import RecordUpdate.
From Asynkit Require Import Base.Prelude Queue.PQ Queue.PosPQ Queue.Exec Sched.Model
  Sched.Tables Sched.QFacts Sched.LockInv Sched.Footprint.
Import RecordSetNotations.
Open Scope nat_scope.

(* normal form of a PriorityLock update: lock l := lk', held-lock list of t := h *)
Definition upd (s : st) (l : nat) (lk' : lock) (t : nat) (oh : option (list nat)) : st :=
  let s1 := setl s l lk' in
  match oh with Some h => sett s1 t (gett s t <| tholding := h |>) | None => s1 end.

Lemma upd_getl s l lk' t oh l' :
  getl (upd s l lk' t oh) l' =
  if (Nat.eqb l l' && Nat.ltb l (length (locks s)))%bool then lk' else getl s l'.
Proof.
  unfold upd. destruct oh.
  - change (getl (sett (setl s l lk') t (gett s t <| tholding := l0 |>)) l') with (getl (setl s l lk') l').
    apply getl_setl.
  - apply getl_setl.
Qed.

Lemma upd_gett_other s l lk' t oh t' : t' <> t -> gett (upd s l lk' t oh) t' = gett s t'.
Proof.
  intros Hne. unfold upd. destruct oh; [|reflexivity].
  rewrite gett_sett_other by auto. reflexivity.
Qed.

Lemma upd_gett_fields s l lk' t oh t' :
  tfut (gett (upd s l lk' t oh) t') = tfut (gett s t') /\
  tprio (gett (upd s l lk' t oh) t') = tprio (gett s t') /\
  tcont_ (gett (upd s l lk' t oh) t') = tcont_ (gett s t').
Proof.
  unfold upd. destruct oh; [|auto].
  rewrite gett_sett. change (tasks (setl s l lk')) with (tasks s).
  destruct (Nat.eqb t t' && Nat.ltb t (length (tasks s)))%bool eqn:E; [|auto].
  apply andb_prop in E as [E _]. apply Nat.eqb_eq in E. subst t'. auto.
Qed.

Lemma upd_tholding s l lk' t oh :
  tholding (gett (upd s l lk' t oh) t) =
  match oh with
  | Some h => if Nat.ltb t (length (tasks s)) then h else tholding (gett s t)
  | None => tholding (gett s t) end.
Proof.
  unfold upd. destruct oh; [|reflexivity].
  rewrite gett_sett, Nat.eqb_refl. change (tasks (setl s l lk')) with (tasks s). simpl.
  destruct (Nat.ltb t (length (tasks s))); reflexivity.
Qed.

Theorem Inv_upd s l lk' t oh :
  let s' := upd s l lk' t oh in
  lkind_ (getl s' l) = lkind_ (getl s l) -> ldq (getl s' l) = ldq (getl s l) ->
  (lkind_ (getl s l) = LPrio -> (lowner (getl s' l) <> None <-> llocked (getl s' l) = true)) ->
  (l < length (locks s) -> forall t', In l (tholding (gett s' t')) -> lowner (getl s' l) = Some t') ->
  (forall l', l' <> l -> (In l' (tholding (gett s' t)) <-> In l' (tholding (gett s t)))) ->
  (forall t', lowner (getl s' l) = Some t' -> is_prio_task s t' = true ->
              In l (tholding (gett s' t'))) ->
  (is_prio_task s t = false -> tholding (gett s' t) = []) ->
  (forall t', lowner (getl s' l) = Some t' -> t' < length (tasks s)) ->
  (forall l0, l0 < length (locks s) -> count_occ Nat.eq_dec (tholding (gett s' t)) l0 <= 1) ->
  (lkind_ (getl s l) = LPlain -> arr (lpq (getl s' l)) = []) ->
  qwf (lpq (getl s' l)) ->
  (forall f1 f2, In f1 (objs s' l) -> In f2 (objs s' l) ->
                 woken s f1 = true -> woken s f2 = true -> f1 = f2) ->
  (forall f, lowner (getl s' l) <> None -> In f (objs s' l) -> woken s f = false) ->
  (forall f, In f (objs s' l) -> In f (objs s l) \/
       (f < length (futs s) /\ fowner (getf s f) = None /\ ~ lockfut s f /\ ~ foreign s f)) ->
  (forall t' f had, In (InAcquireP l f had) (tframes s t') -> In f (objs s' l)) ->
  Inv s -> Inv s'.
Proof.
  intros s'. intros. eapply (Inv_lockstep s s' l t); eauto.
  - unfold s', upd. destruct oh; reflexivity.
  - unfold s', upd. destruct oh; reflexivity.
  - unfold s', upd. destruct oh; reflexivity.
  - unfold s', upd. destruct oh; reflexivity.
  - unfold s', upd. destruct oh; cbn; now rewrite ?set_nth_length.
  - unfold s', upd. destruct oh; cbn; now rewrite ?set_nth_length.
  - intros l' Hne. unfold s'. rewrite upd_getl. apply not_eq_sym, Nat.eqb_neq in Hne. now rewrite Hne.
  - intros t'. destruct (upd_gett_fields s l lk' t oh t') as (E1 & E2 & E3). fold s' in E1, E2, E3.
    split; [exact E1|]. split; [unfold is_prio_task; now rewrite E2|].
    split; [unfold tframes; now rewrite E3|]. intros Hne. unfold s'. now rewrite upd_gett_other.
Qed.

Lemma upd_lk s l lk' t oh :
  (l < length (locks s) /\ getl (upd s l lk' t oh) l = lk') \/
  (length (locks s) <= l /\ getl (upd s l lk' t oh) l = getl s l /\ getl s l = dlock).
Proof.
  rewrite upd_getl, Nat.eqb_refl. simpl. destruct (Nat.ltb l (length (locks s))) eqn:E.
  - left. apply Nat.ltb_lt in E. auto.
  - right. apply Nat.ltb_ge in E. split; auto. split; auto. now apply getl_oob.
Qed.

Lemma upd_tholding_other s l lk' t oh t' :
  t' <> t -> tholding (gett (upd s l lk' t oh) t') = tholding (gett s t').
Proof. intros H. now rewrite upd_gett_other. Qed.

Lemma count_occ_filter_eq (H : list nat) l :
  count_occ Nat.eq_dec (filter (fun x => negb (Nat.eqb x l)) H) l = 0.
Proof.
  apply count_occ_not_In. intros Hin. apply filter_In in Hin as [_ Hin].
  rewrite Nat.eqb_refl in Hin. discriminate.
Qed.
Lemma count_occ_filter_neq (H : list nat) l l0 :
  l0 <> l -> count_occ Nat.eq_dec (filter (fun x => negb (Nat.eqb x l)) H) l0 = count_occ Nat.eq_dec H l0.
Proof.
  intros Hne. induction H as [|x H IH]; simpl; auto.
  destruct (Nat.eqb x l) eqn:E; simpl.
  - apply Nat.eqb_eq in E. subst x. destruct (Nat.eq_dec l l0); [congruence|exact IH].
  - destruct (Nat.eq_dec x l0); [now rewrite IH|exact IH].
Qed.
Lemma count_cons_fresh s t l l0 :
  Inv s -> lowner (getl s l) = None -> l0 < length (locks s) ->
  count_occ Nat.eq_dec (l :: tholding (gett s t)) l0 <= 1.
Proof.
  intros I Ho Hl0. simpl. destruct (Nat.eq_dec l l0) as [->|Hne]; [|apply (iA6 I); auto].
  assert (~ In l0 (tholding (gett s t))) as Hn.
  { intros Hin. pose proof (iA2 I _ _ Hl0 Hin). congruence. }
  apply (count_occ_not_In Nat.eq_dec) in Hn. lia.
Qed.

(* ---------------------------------------------------------------- _take_lock *)
Definition take_lk (s : st) (l t : nat) : lock :=
  getl s l <| lowner := Some t |> <| llocked := true |>.
Definition take_oh (s : st) (l t : nat) : option (list nat) :=
  if is_prio_task s t then Some (l :: tholding (gett s t)) else None.

Lemma take_lock_eq s l t :
  lowner (getl s l) = None -> take_lock s l t = inl (upd s l (take_lk s l t) t (take_oh s l t)).
Proof.
  intros H. unfold take_lock. rewrite H. unfold upd, take_oh, take_lk.
  change (is_prio_task (setl s l (getl s l <| lowner := Some t |> <| llocked := true |>)) t)
    with (is_prio_task s t).
  destruct (is_prio_task s t); reflexivity.
Qed.

Lemma take_lock_err s l t e : take_lock s l t = inr e -> lowner (getl s l) <> None.
Proof. unfold take_lock. destruct (lowner (getl s l)); [discriminate|]. intros; discriminate. Qed.

Lemma take_lock_ok s l t s' : take_lock s l t = inl s' -> lowner (getl s l) = None.
Proof. unfold take_lock. destruct (lowner (getl s l)); [discriminate|reflexivity]. Qed.

Lemma Inv_take s l t :
  Inv s -> lowner (getl s l) = None -> t < length (tasks s) ->
  (forall f, In f (objs s l) -> woken s f = false) ->
  Inv (upd s l (take_lk s l t) t (take_oh s l t)).
Proof.
  intros I Ho Ht Hnw.
  set (s' := upd s l (take_lk s l t) t (take_oh s l t)).
  assert (Hth : tholding (gett s' t) = if is_prio_task s t then l :: tholding (gett s t) else tholding (gett s t)).
  { unfold s'. rewrite upd_tholding. unfold take_oh. destruct (is_prio_task s t); auto.
    apply Nat.ltb_lt in Ht. now rewrite Ht. }
  assert (Hq : lpq (getl s' l) = lpq (getl s l)).
  { destruct (upd_lk s l (take_lk s l t) t (take_oh s l t)) as [[_ E]|(_ & E & _)]; fold s' in E; rewrite E; reflexivity. }
  assert (Hob : objs s' l = objs s l) by (unfold objs; now rewrite Hq).
  apply Inv_upd; fold s'; auto.
  - destruct (upd_lk s l (take_lk s l t) t (take_oh s l t)) as [[_ E]|(_ & E & _)]; fold s' in E; rewrite E; reflexivity.
  - destruct (upd_lk s l (take_lk s l t) t (take_oh s l t)) as [[_ E]|(_ & E & _)]; fold s' in E; rewrite E; reflexivity.
  - intros Hk. destruct (upd_lk s l (take_lk s l t) t (take_oh s l t)) as [[_ E]|(_ & E & _)]; fold s' in E; rewrite E.
    + cbn. split; auto. intros _; discriminate.
    + apply (iA1 I); auto.
  - intros Hl t' Hin. destruct (upd_lk s l (take_lk s l t) t (take_oh s l t)) as [[_ E]|(Hge & _)]; [|lia].
    fold s' in E. rewrite E. cbn. destruct (Nat.eq_dec t' t) as [->|Hne]; auto.
    unfold s' in Hin. rewrite upd_tholding_other in Hin by auto.
    pose proof (iA2 I _ _ Hl Hin). congruence.
  - intros l' Hne. rewrite Hth. destruct (is_prio_task s t); [|tauto]. simpl. intuition congruence.
  - intros t' Ho' Hp. destruct (upd_lk s l (take_lk s l t) t (take_oh s l t)) as [[_ E]|(_ & E & _)]; fold s' in E; rewrite E in Ho'.
    + cbn in Ho'. inversion Ho'; subst t'. rewrite Hth, Hp. now left.
    + congruence.
  - intros Hp. rewrite Hth, Hp. apply (iA4 I); auto.
  - intros t' Ho'. destruct (upd_lk s l (take_lk s l t) t (take_oh s l t)) as [[_ E]|(_ & E & _)]; fold s' in E; rewrite E in Ho'.
    + cbn in Ho'. inversion Ho'; subst t'. auto.
    + congruence.
  - intros l0 Hl0. rewrite Hth. destruct (is_prio_task s t); [now apply count_cons_fresh|apply (iA6 I); auto].
  - intros Hk. rewrite Hq. apply (iB0 I); auto.
  - rewrite Hq. apply (iB1 I).
  - intros f1 f2. rewrite Hob. apply (iC1 I).
  - intros f _. rewrite Hob. apply Hnw.
  - intros f. rewrite Hob. auto.
  - intros t' f had Hin. rewrite Hob. eapply (iF2 I); eauto.
Qed.

(* ---------------------------------------------------------------- _wake_up_first *)
Lemma existsb_false_forall {A} (p : A -> bool) l : existsb p l = false -> forall x, In x l -> p x = false.
Proof.
  intros H x Hin. destruct (p x) eqn:E; auto.
  assert (existsb p l = true) by (apply existsb_exists; eauto). congruence.
Qed.

Lemma chg_wake s l : Inv s -> chg (fun g => In g (objs s l)) s (wake_up_first_p s l).
Proof.
  intros I. unfold wake_up_first_p.
  destruct (arr (lpq (getl s l))) as [|head rest] eqn:Ea; [apply chg_refl|].
  destruct (existsb _ _); [apply chg_refl|].
  destruct (fdone s (Z.to_nat (eobj head))); [apply chg_refl|].
  apply chg_fut_finish; [apply (iE2 I)|].
  unfold objs, pq_objs. rewrite Ea. simpl. now left.
Qed.

Lemma Inv_wake s l : Inv s -> lowner (getl s l) = None -> Inv (wake_up_first_p s l).
Proof.
  intros I Ho. unfold wake_up_first_p.
  destruct (arr (lpq (getl s l))) as [|head rest] eqn:Ea; [exact I|].
  destruct (existsb _ _) eqn:Ex; [exact I|].
  set (f := Z.to_nat (eobj head)).
  destruct (fdone s f); [exact I|].
  assert (Hf : In f (objs s l)). { unfold objs, pq_objs. rewrite Ea. simpl. now left. }
  assert (Hnw : forall g, In g (objs s l) -> woken s g = false).
  { intros g Hg. apply (existsb_false_forall _ _ Ex g Hg). }
  assert (C : chg (eq f) s (fst (fut_finish s f (FResult 1)))).
  { apply chg_fut_finish; [apply (iE2 I)|reflexivity]. }
  assert (Hw : forall l0 g, In g (objs s l0) -> woken (fst (fut_finish s f (FResult 1))) g = true ->
                            woken s g = true \/ g = f).
  { intros l0 g Hg Hw. assert (lockfut s g) as Hl by (now exists l0).
    destruct (iD0 I _ Hl) as [Hr _]. destruct (c_woken C _ Hr Hw); auto. }
  eapply Inv_chg_gen; eauto.
  - intros l0 f1 f2 H1 H2 W1 W2.
    destruct (Hw _ _ H1 W1) as [W1'|E1]; destruct (Hw _ _ H2 W2) as [W2'|E2].
    + apply (iC1 I l0); auto.
    + subst f2. pose proof (iD1 I _ _ _ H2 Hf). subst l0. rewrite Hnw in W1'; auto. discriminate.
    + subst f1. pose proof (iD1 I _ _ _ H1 Hf). subst l0. rewrite Hnw in W2'; auto. discriminate.
    + congruence.
  - intros l0 g Ho0 Hg. destruct (woken (fst (fut_finish s f (FResult 1))) g) eqn:Ew; auto.
    destruct (Hw _ _ Hg Ew) as [W'|E].
    + rewrite (iC2 I l0 g Ho0 Hg) in W'. discriminate.
    + subst g. pose proof (iD1 I _ _ _ Hg Hf). subst l0. congruence.
Qed.

(* ---------------------------------------------------------------- release *)
Definition rel_lk (s : st) (l : nat) : lock := getl s l <| lowner := None |> <| llocked := false |>.
Definition rel_oh (s : st) (l t : nat) : option (list nat) :=
  if is_prio_task s t then Some (filter (fun x => negb (Nat.eqb x l)) (tholding (gett s t))) else None.

Lemma release_core_eq s l t :
  l < length (locks s) ->
  let s1 := setl s l (getl s l <| lowner := None |>) in
  let s2 := if is_prio_task s1 t
            then sett s1 t (gett s1 t <| tholding := filter (fun x => negb (Nat.eqb x l)) (tholding (gett s1 t)) |>)
            else s1 in
  setl s2 l (getl s2 l <| llocked := false |>) = upd s l (rel_lk s l) t (rel_oh s l t).
Proof.
  intros Hl s1 s2.
  assert (E : getl s2 l = getl s l <| lowner := None |>).
  { unfold s2. change (is_prio_task s1 t) with (is_prio_task s t). destruct (is_prio_task s t).
    - change (getl (sett s1 t _) l) with (getl s1 l). unfold s1. now apply getl_setl_same.
    - unfold s1. now apply getl_setl_same. }
  rewrite E. unfold s2, s1, upd, rel_oh, rel_lk.
  change (is_prio_task (setl s l (getl s l <| lowner := None |>)) t) with (is_prio_task s t).
  destruct (is_prio_task s t); unfold setl, sett; cbn; rewrite set_nth_set_nth; reflexivity.
Qed.

Lemma llocked_inrange s l : llocked (getl s l) = true -> l < length (locks s).
Proof.
  intros H. destruct (Nat.lt_ge_cases l (length (locks s))); auto.
  rewrite getl_oob in H by auto. discriminate.
Qed.

Lemma Inv_release_core s l t :
  Inv s -> l < length (locks s) -> lowner (getl s l) = Some t ->
  Inv (upd s l (rel_lk s l) t (rel_oh s l t)).
Proof.
  intros I Hl Ho.
  set (s' := upd s l (rel_lk s l) t (rel_oh s l t)).
  pose proof (iA5 I _ _ Ho) as Ht.
  assert (E : getl s' l = rel_lk s l).
  { destruct (upd_lk s l (rel_lk s l) t (rel_oh s l t)) as [[_ E]|(Hge & _)]; [exact E|lia]. }
  assert (Hth : tholding (gett s' t) =
                if is_prio_task s t then filter (fun x => negb (Nat.eqb x l)) (tholding (gett s t))
                else tholding (gett s t)).
  { unfold s'. rewrite upd_tholding. unfold rel_oh. destruct (is_prio_task s t); auto.
    apply Nat.ltb_lt in Ht. now rewrite Ht. }
  assert (Hob : objs s' l = objs s l) by (unfold objs; rewrite E; reflexivity).
  apply Inv_upd; fold s'; auto; try (rewrite E; cbn).
  - reflexivity.
  - reflexivity.
  - intros _. split; [congruence|discriminate].
  - intros _ t' Hin. exfalso. destruct (Nat.eq_dec t' t) as [->|Hne].
    + rewrite Hth in Hin. destruct (is_prio_task s t) eqn:Hp.
      * apply filter_In in Hin as [_ Hin]. rewrite Nat.eqb_refl in Hin. discriminate.
      * rewrite (iA4 I _ Hp) in Hin. destruct Hin.
    + unfold s' in Hin. rewrite upd_tholding_other in Hin by auto.
      pose proof (iA2 I _ _ Hl Hin). congruence.
  - intros l' Hne. rewrite Hth. destruct (is_prio_task s t); [|tauto].
    rewrite filter_In. apply Nat.eqb_neq in Hne. rewrite Hne. simpl. tauto.
  - intros; discriminate.
  - intros Hp. rewrite Hth, Hp. apply (iA4 I); auto.
  - intros; discriminate.
  - intros l0 Hl0. rewrite Hth. destruct (is_prio_task s t); [|apply (iA6 I); auto].
    destruct (Nat.eq_dec l0 l) as [->|Hne]; [rewrite count_occ_filter_eq; lia|].
    rewrite count_occ_filter_neq by auto. apply (iA6 I); auto.
  - apply (iB0 I).
  - apply (iB1 I).
  - intros f1 f2. rewrite Hob. apply (iC1 I).
  - intros f Hn. congruence.
  - intros f. rewrite Hob. auto.
  - intros t' f had Hin. rewrite Hob. eapply (iF2 I); eauto.
Qed.

(* facts a PriorityLock step exports to its callers *)
Record lstep (s s' : st) : Prop := mkLs {
  ls_inv : Inv s';
  ls_ntasks : length (tasks s') = length (tasks s);
  ls_nfuts : length (futs s') = length (futs s);
  ls_kind : forall l, lkind_ (getl s' l) = lkind_ (getl s l);
  ls_frames : forall t, tframes s' t = tframes s t;
  ls_objs : forall l f, In f (objs s' l) -> In f (objs s l)
}.
Arguments ls_inv {s s'} _. Arguments ls_ntasks {s s'} _. Arguments ls_nfuts {s s'} _.
Arguments ls_kind {s s'} _. Arguments ls_frames {s s'} _. Arguments ls_objs {s s'} _.

Lemma lstep_refl s : Inv s -> lstep s s.
Proof. intros I. constructor; auto. Qed.

Lemma lstep_trans s1 s2 s3 : lstep s1 s2 -> lstep s2 s3 -> lstep s1 s3.
Proof.
  intros A B. constructor.
  - apply (ls_inv B).
  - rewrite (ls_ntasks B). apply (ls_ntasks A).
  - rewrite (ls_nfuts B). apply (ls_nfuts A).
  - intros l. rewrite (ls_kind B). apply (ls_kind A).
  - intros t. rewrite (ls_frames B). apply (ls_frames A).
  - intros l f H. apply (ls_objs A). apply (ls_objs B). exact H.
Qed.

Lemma upd_kind s l lk' t oh l0 :
  lkind_ lk' = lkind_ (getl s l) -> lkind_ (getl (upd s l lk' t oh) l0) = lkind_ (getl s l0).
Proof.
  intros H. rewrite upd_getl. destruct (Nat.eqb l l0 && Nat.ltb l (length (locks s)))%bool eqn:E; auto.
  apply andb_prop in E as [E _]. apply Nat.eqb_eq in E. now subst l0.
Qed.

Lemma upd_objs_in s l lk' t oh l0 f :
  (forall g, In g (pq_objs (lpq lk')) -> In g (objs s l)) ->
  In f (objs (upd s l lk' t oh) l0) -> In f (objs s l0).
Proof.
  intros H. unfold objs at 1. rewrite upd_getl.
  destruct (Nat.eqb l l0 && Nat.ltb l (length (locks s)))%bool eqn:E; auto.
  apply andb_prop in E as [E _]. apply Nat.eqb_eq in E. subst l0. apply H.
Qed.

Lemma upd_tframes s l lk' t oh t' : tframes (upd s l lk' t oh) t' = tframes s t'.
Proof. unfold tframes. destruct (upd_gett_fields s l lk' t oh t') as (_ & _ & ->). reflexivity. Qed.

Lemma lstep_upd s l lk' t oh :
  Inv (upd s l lk' t oh) -> lkind_ lk' = lkind_ (getl s l) ->
  (forall g, In g (pq_objs (lpq lk')) -> In g (objs s l)) -> lstep s (upd s l lk' t oh).
Proof.
  intros I Hk Ho. constructor; auto.
  - unfold upd. destruct oh; cbn; now rewrite ?set_nth_length.
  - unfold upd. destruct oh; reflexivity.
  - intros l0. now apply upd_kind.
  - intros t0. apply upd_tframes.
  - intros l0 f. now apply upd_objs_in.
Qed.

Lemma lstep_chg W s s' :
  chg W s s' -> Inv s' -> length (tasks s') = length (tasks s) -> length (futs s') = length (futs s) ->
  (forall t, tframes s' t = tframes s t) -> lstep s s'.
Proof.
  intros C I Et Ef Efr. constructor; auto.
  - intros l. apply (chg_kind l C).
  - intros l f. now rewrite (chg_objs l C).
Qed.

Lemma fold_soon_proj f cbs : forall s1,
  let s' := fold_left (fun s c => call_soon_ s (cb_callback f c)) cbs s1 in
  tasks s' = tasks s1 /\ futs s' = futs s1 /\ locks s' = locks s1.
Proof.
  induction cbs as [|c cbs IH]; intros s1; simpl; auto.
  destruct (IH (call_soon_ s1 (cb_callback f c))) as (A & B & C). auto.
Qed.

Lemma fut_finish_proj s f x :
  let s' := fst (fut_finish s f x) in
  tasks s' = tasks s /\ length (futs s') = length (futs s) /\ locks s' = locks s.
Proof.
  unfold fut_finish. destruct (fstate_ (getf s f)); cbn [fst]; auto.
  unfold schedule_callbacks.
  match goal with |- context [fold_left ?F ?L ?S] => destruct (fold_soon_proj f L S) as (A & B & C) end.
  rewrite A, B, C. unfold setf. cbn. rewrite !set_nth_length. auto.
Qed.

Lemma lstep_wake s l : Inv s -> lowner (getl s l) = None -> lstep s (wake_up_first_p s l).
Proof.
  intros I Ho. pose proof (Inv_wake s l I Ho) as I'. pose proof (chg_wake s l I) as C.
  assert (P : tasks (wake_up_first_p s l) = tasks s /\
              length (futs (wake_up_first_p s l)) = length (futs s)).
  { unfold wake_up_first_p. destruct (arr (lpq (getl s l))); auto. destruct (existsb _ _); auto.
    destruct (fdone s _); auto.
    destruct (fut_finish_proj s (Z.to_nat (eobj e)) (FResult 1)) as (A & B & _). auto. }
  destruct P as [Pt Pf]. eapply lstep_chg; eauto.
  - now rewrite Pt.
  - intros t. unfold tframes, gett. now rewrite Pt.
Qed.

Lemma lstep_release_p s t l :
  Inv s -> lstep s (fst (release_p s t l)).
Proof.
  intros I. unfold release_p.
  destruct (negb (llocked (getl s l))) eqn:El; [now apply lstep_refl|].
  apply negb_false_iff in El. pose proof (llocked_inrange s l El) as Hl.
  destruct (lowner (getl s l)) as [o|] eqn:Ho; [|now apply lstep_refl].
  destruct (negb (Nat.eqb o t)) eqn:Eo; [now apply lstep_refl|].
  apply negb_false_iff, Nat.eqb_eq in Eo. subst o.
  cbn [fst]. rewrite (release_core_eq s l t Hl).
  pose proof (Inv_release_core s l t I Hl Ho) as I1.
  eapply lstep_trans.
  - apply lstep_upd; [exact I1|reflexivity|intros g Hg; exact Hg].
  - apply lstep_wake; auto.
    destruct (upd_lk s l (rel_lk s l) t (rel_oh s l t)) as [[_ E]|(Hge & _)]; [|lia].
    rewrite E. reflexivity.
Qed.

(* ---------------------------------------------------------------- I4: a wake-up is in flight *)
(* a free PriorityLock with waiters has a waiter whose future is done (woken with a
   result, or cancelled: in both cases its task has been scheduled and will take the lock
   or pass the wake-up on in its finally clause) *)
Definition wf4_at (s : st) (l : nat) : Prop :=
  lkind_ (getl s l) = LPrio -> llocked (getl s l) = false -> objs s l <> [] ->
  exists f, In f (objs s l) /\ fdone s f = true.
Definition WF4 (s : st) : Prop := forall l, wf4_at s l.

Lemma wf4_at_chg W s s' l : chg W s s' -> wf4_at s l -> wf4_at s' l.
Proof.
  intros C H Hk Hl Hne. destruct (c_lock C l) as (Ek & _ & _ & El). rewrite Ek in Hk.
  rewrite (chg_objs l C) in *. destruct El as [El|El]; [|congruence]. rewrite El in Hl.
  destruct (H Hk Hl Hne) as (f & Hf & Hd). exists f. split; auto. apply (c_done C); auto.
Qed.
Lemma WF4_chg W s s' : chg W s s' -> WF4 s -> WF4 s'.
Proof. intros C H l. eapply wf4_at_chg; eauto. Qed.

Lemma upd_fdone s l lk' t oh g : fdone (upd s l lk' t oh) g = fdone s g.
Proof. unfold upd. destruct oh; reflexivity. Qed.

Lemma wf4_at_upd_other s l lk' t oh l' : l' <> l -> wf4_at s l' -> wf4_at (upd s l lk' t oh) l'.
Proof.
  intros Hne H. unfold wf4_at, objs in *. rewrite upd_getl.
  apply not_eq_sym, Nat.eqb_neq in Hne. rewrite Hne. simpl.
  intros Hk Hl Ho. destruct (H Hk Hl Ho) as (f & Hf & Hd). exists f. split; auto. now rewrite upd_fdone.
Qed.

Lemma WF4_upd s l lk' t oh : WF4 s -> wf4_at (upd s l lk' t oh) l -> WF4 (upd s l lk' t oh).
Proof.
  intros H Hl l0. destruct (Nat.eq_dec l0 l) as [->|Hne]; auto. apply wf4_at_upd_other; auto.
Qed.

Lemma wf4_at_locked s l : llocked (getl s l) = true -> wf4_at s l.
Proof. intros H _ Hl. congruence. Qed.

Lemma wake_locks s l : locks (wake_up_first_p s l) = locks s.
Proof.
  unfold wake_up_first_p. destruct (arr (lpq (getl s l))); auto.
  match goal with |- context [if ?b then _ else _] => destruct b end; auto.
  match goal with |- context [if ?b then _ else _] => destruct b end; auto.
  apply fut_finish_proj.
Qed.

Lemma getf_congr s1 s2 f : futs s1 = futs s2 -> getf s1 f = getf s2 f.
Proof. intros E. unfold getf. now rewrite E. Qed.

Lemma fut_finish_done s f x :
  f < length (futs s) -> x <> FPending -> fdone (fst (fut_finish s f x)) f = true.
Proof.
  intros Hr Hx. unfold fut_finish. destruct (fstate_ (getf s f)) eqn:E; cbn [fst];
    try (unfold fdone; rewrite E; reflexivity).
  unfold schedule_callbacks.
  match goal with |- context [fold_left ?F ?L ?S] => destruct (fold_soon_proj f L S) as (_ & B & _) end.
  unfold fdone. rewrite (getf_congr _ _ f B).
  set (s1 := setf s f (getf s f <| fstate_ := x |>)).
  assert (L1 : length (futs s1) = length (futs s)) by (unfold s1, setf; cbn; apply set_nth_length).
  rewrite getf_setf_same by (rewrite L1; exact Hr). cbn.
  rewrite nth_set_nth_same by exact Hr. cbn. destruct x; auto; congruence.
Qed.

Lemma wake_done s l :
  Inv s -> objs s l <> [] -> exists f, In f (objs s l) /\ fdone (wake_up_first_p s l) f = true.
Proof.
  intros I Hne. unfold wake_up_first_p. unfold objs, pq_objs in Hne.
  destruct (arr (lpq (getl s l))) as [|head rest] eqn:Ea; [contradiction|].
  assert (Hh : In (Z.to_nat (eobj head)) (objs s l)).
  { unfold objs, pq_objs. rewrite Ea. simpl. now left. }
  destruct (existsb _ _) eqn:Ex.
  - apply existsb_exists in Ex as (f & Hf & Hw). exists f. split; [exact Hf|].
    unfold fdone. destruct (fstate_ (getf s f)); auto; discriminate.
  - destruct (fdone s (Z.to_nat (eobj head))) eqn:Ed; [eauto|].
    exists (Z.to_nat (eobj head)). split; auto. apply fut_finish_done; [|discriminate].
    apply (iD0 I). now exists l.
Qed.

Lemma wake_wf4_at s l : Inv s -> wf4_at (wake_up_first_p s l) l.
Proof.
  intros I. unfold wf4_at, objs, getl. rewrite wake_locks. intros _ _ Hne.
  apply (wake_done s l I Hne).
Qed.

Lemma WF4_wake s l :
  Inv s -> (forall l', l' <> l -> wf4_at s l') -> WF4 (wake_up_first_p s l).
Proof.
  intros I H l0. destruct (Nat.eq_dec l0 l) as [->|Hne]; [now apply wake_wf4_at|].
  eapply wf4_at_chg; [apply chg_wake; exact I|auto].
Qed.

Lemma WF4_release_p s t l : Inv s -> WF4 s -> WF4 (fst (release_p s t l)).
Proof.
  intros I H. unfold release_p.
  destruct (negb (llocked (getl s l))) eqn:El; [exact H|].
  apply negb_false_iff in El. pose proof (llocked_inrange s l El) as Hl.
  destruct (lowner (getl s l)) as [o|] eqn:Ho; [|exact H].
  destruct (negb (Nat.eqb o t)) eqn:Eo; [exact H|].
  apply negb_false_iff, Nat.eqb_eq in Eo. subst o.
  cbn [fst]. rewrite (release_core_eq s l t Hl).
  apply WF4_wake; [now apply Inv_release_core|].
  intros l' Hne. apply wf4_at_upd_other; auto.
Qed.

(* ---------------------------------------------------------------- re-keying a waiter *)
Lemma perm_nil_objs (q : pq Q) : pq_objs q = [] -> arr q = [].
Proof. unfold pq_objs. destruct (arr q); [auto|discriminate]. Qed.

Lemma Inv_resched s l q' :
  Inv s -> qwf q' -> Permutation (pq_objs q') (objs s l) ->
  Inv (upd s l (getl s l <| lpq := q' |>) 0 None).
Proof.
  intros I Hq Hp.
  set (s' := upd s l (getl s l <| lpq := q' |>) 0 None).
  assert (Ht : forall t', gett s' t' = gett s t') by reflexivity.
  destruct (upd_lk s l (getl s l <| lpq := q' |>) 0 None) as [[Hl E]|(Hge & E & Ed)]; fold s' in E.
  - assert (Hob : forall f, In f (objs s' l) <-> In f (objs s l)).
    { intros f. unfold objs at 1. rewrite E. cbn. split; intros H.
      - eapply Permutation_in; eauto.
      - eapply Permutation_in; [apply Permutation_sym|]; eauto. }
    apply Inv_upd; fold s'; try (rewrite E; cbn).
    + reflexivity.
    + reflexivity.
    + apply (iA1 I).
    + intros _ t' Hin. exact (iA2 I l t' Hl Hin).
    + intros l' _. split; intros H; exact H.
    + intros t' Ho Hpr. exact (iA3 I l t' Ho Hpr).
    + exact (iA4 I 0).
    + exact (iA5 I l).
    + intros l0 Hl0. exact (iA6 I 0 l0 Hl0).
    + intros Hk. apply perm_nil_objs. pose proof (iB0 I l Hk) as Hn.
      unfold objs, pq_objs in Hp. rewrite Hn in Hp. simpl in Hp. apply Permutation_nil. now apply Permutation_sym.
    + exact Hq.
    + intros f1 f2 H1 H2. apply Hob in H1, H2. apply (iC1 I l); auto.
    + intros f Ho Hin. apply Hob in Hin. apply (iC2 I l); auto.
    + intros f Hin. left. now apply Hob.
    + intros t' f had Hin. apply Hob. eapply (iF2 I); eauto.
    + exact I.
  - assert (Hob : objs s' l = objs s l) by (unfold objs; now rewrite E).
    apply Inv_upd; fold s'; try rewrite E.
    + reflexivity.
    + reflexivity.
    + apply (iA1 I).
    + intros Hl. lia.
    + intros l' _. split; intros H; exact H.
    + intros t' Ho Hpr. exact (iA3 I l t' Ho Hpr).
    + exact (iA4 I 0).
    + exact (iA5 I l).
    + intros l0 Hl0. exact (iA6 I 0 l0 Hl0).
    + apply (iB0 I).
    + apply (iB1 I).
    + intros f1 f2. rewrite Hob. apply (iC1 I).
    + intros f. rewrite Hob. apply (iC2 I).
    + intros f. rewrite Hob. auto.
    + intros t' f had Hin. rewrite Hob. eapply (iF2 I); eauto.
    + exact I.
Qed.

(* a lock step that also keeps every queued future queued *)
Definition pstep (s s' : st) : Prop :=
  lstep s s' /\ (forall l f, In f (objs s l) -> In f (objs s' l)) /\ (WF4 s -> WF4 s').

Lemma pstep_refl s : Inv s -> pstep s s.
Proof. intros I. split; [now apply lstep_refl|auto]. Qed.
Lemma pstep_trans s1 s2 s3 : pstep s1 s2 -> pstep s2 s3 -> pstep s1 s3.
Proof. intros (A1 & A2 & A3) (B1 & B2 & B3). split; [eapply lstep_trans; eauto|auto]. Qed.

Lemma pstep_core_eq s s' :
  Inv s -> locks s' = locks s -> tasks s' = tasks s -> futs s' = futs s -> events s' = events s ->
  conds s' = conds s -> hcbs s' = hcbs s -> pstep s s'.
Proof.
  intros I El Et Ef Ee Ec Eh.
  assert (C : chg (fun _ => False) s s') by (apply chg_core_eq; auto).
  assert (I' : Inv s') by (eapply Inv_chg; eauto; tauto).
  split; [|split].
  - eapply lstep_chg; eauto; try congruence. intros t. unfold tframes, gett. now rewrite Et.
  - intros l f. unfold objs, getl. now rewrite El.
  - eapply WF4_chg; eauto.
Qed.

Lemma pstep_propagate_task fuel : forall s t, Inv s -> pstep s (propagate_task fuel s t).
Proof.
  induction fuel as [|fuel IH]; intros s t I; cbn [propagate_task].
  - destruct (negb (is_prio_task s t)); [now apply pstep_refl|].
    destruct (task_is_runnable s t); destruct (twaiting (gett _ t));
      try (now apply pstep_refl); apply pstep_core_eq; auto.
  - destruct (negb (is_prio_task s t)); [now apply pstep_refl|].
    set (s0 := if task_is_runnable s t then task_reschedule s t else s).
    assert (P0 : pstep s s0).
    { unfold s0. destruct (task_is_runnable s t); [apply pstep_core_eq; auto|now apply pstep_refl]. }
    clearbody s0. eapply pstep_trans; [exact P0|]. apply (fun P => ls_inv (proj1 P)) in P0.
    clear I s. rename s0 into s, P0 into I.
    destruct (twaiting (gett s t)) as [l|]; [|now apply pstep_refl].
    set (s1 := match lowner (getl s l) with Some o => propagate_task fuel s o | None => s end).
    assert (P1 : pstep s s1).
    { unfold s1. destruct (lowner (getl s l)); [now apply IH|now apply pstep_refl]. }
    pose proof (ls_inv (proj1 P1)) as I1.
    destruct (find _ (lwt (getl s1 l))) as [[f t0]|]; [|exact P1].
    destruct (pq_reschedule HQ (lpq (getl s1 l)) _ _) as [[o q']|] eqn:Er; [|exact P1].
    eapply pstep_trans; [exact P1|].
    destruct (pq_resched_objs _ _ _ _ _ (iB1 I1 l) Er) as [Hq Hp].
    change (setl s1 l (getl s1 l <| lpq := q' |>)) with (upd s1 l (getl s1 l <| lpq := q' |>) 0 None).
    pose proof (Inv_resched s1 l q' I1 Hq Hp) as I2. split; [|split].
    + apply lstep_upd; [exact I2|reflexivity|].
      intros g Hg. cbn in Hg. eapply Permutation_in; eauto.
    + intros l0 g Hg. unfold objs at 1. rewrite upd_getl.
      destruct (Nat.eqb l l0 && Nat.ltb l (length (locks s1)))%bool eqn:E; auto.
      apply andb_prop in E as [E _]. apply Nat.eqb_eq in E. subst l0. cbn.
      eapply Permutation_in; [apply Permutation_sym|]; eauto.
    + intros H4. apply WF4_upd; auto. unfold wf4_at, objs. rewrite upd_getl, Nat.eqb_refl. simpl.
      destruct (Nat.ltb l (length (locks s1))); [|apply (H4 l)]. cbn.
      intros Hk Hl Hne. destruct (H4 l Hk Hl) as (g & Hg & Hd).
      * intros E. unfold objs in E. apply Hne. apply Permutation_nil.
        rewrite E in Hp. apply Permutation_sym. exact Hp.
      * exists g. split; [eapply Permutation_in; [apply Permutation_sym|]; eauto|exact Hd].
Qed.

Lemma pstep_propagate_priority s t : Inv s -> pstep s (propagate_priority s t).
Proof. apply pstep_propagate_task. Qed.

(* ---------------------------------------------------------------- pending frames *)
Definition no_frame (s : st) (f : nat) : Prop :=
  forall t l had, ~ In (InAcquireP l f had) (tframes s t).
(* frames held by the running task (not yet stored in the task table) *)
Definition pend (s : st) (frs : list frame) : Prop :=
  stack_ok frs /\
  (forall l f had, In (InAcquireP l f had) frs -> In f (objs s l) /\ no_frame s f) /\
  (forall l f, In (InAcquireA l f) frs -> lkind_ (getl s l) = LPlain).

Definition ext (s s' : st) : Prop :=
  Inv s' /\ length (tasks s) <= length (tasks s') /\
  (forall l, lkind_ (getl s' l) = lkind_ (getl s l)) /\ (WF4 s -> WF4 s').

Lemma ext_refl s : Inv s -> ext s s.
Proof. intros I. split; auto. Qed.
Lemma ext_trans s1 s2 s3 : ext s1 s2 -> ext s2 s3 -> ext s1 s3.
Proof.
  intros (A1 & A2 & A3 & A4) (B1 & B2 & B3 & B4). split; auto. split; [lia|]. split; auto.
  intros l. rewrite B3. apply A3.
Qed.
Lemma ext_benign s s' : Inv s -> benign s s' -> ext s s'.
Proof.
  intros I B. split; [eapply Inv_benign; eauto|]. split; [apply (benign_tasks s s' B)|].
  split; [intros l; apply (benign_kind s s' l B)|]. eapply WF4_chg; eauto.
Qed.
Lemma ext_lstep s s' : lstep s s' -> (WF4 s -> WF4 s') -> ext s s'.
Proof.
  intros L H4. split; [apply (ls_inv L)|]. split; [rewrite (ls_ntasks L); lia|].
  split; [apply (ls_kind L)|exact H4].
Qed.
Lemma ext_kind s s' l : ext s s' -> lkind_ (getl s' l) = lkind_ (getl s l).
Proof. intros H. apply H. Qed.
Lemma ext_wf4 s s' : ext s s' -> WF4 s -> WF4 s'.
Proof. intros H. apply H. Qed.
Lemma ext_inv s s' : ext s s' -> Inv s'.
Proof. intros H. apply H. Qed.

Lemma pend_no_acq s frs :
  no_acq frs -> (forall l f, In (InAcquireA l f) frs -> lkind_ (getl s l) = LPlain) -> pend s frs.
Proof.
  intros H K. split; [now left|]. split; auto.
  intros l f had Hin. exfalso. eapply no_acq_in; eauto.
Qed.

Lemma setl_upd s l a t oh c : setl (upd s l a t oh) l c = upd s l c t oh.
Proof.
  unfold upd. destruct oh; unfold setl, sett; cbn; rewrite set_nth_set_nth; reflexivity.
Qed.

(* ---------------------------------------------------------------- leaving the queue *)
Lemma Inv_leave s l t f p q' w (took : bool) :
  Inv s -> l < length (locks s) ->
  pq_remove HQ (lpq (getl s l)) (Z.of_nat f) = Some (p, q') -> no_frame s f ->
  (took = true -> lowner (getl s l) = None /\ t < length (tasks s) /\ woken s f = true) ->
  Inv (upd s l ((if took then take_lk s l t else getl s l) <| lpq := q' |> <| lwt := w |>) t
           (if took then take_oh s l t else None)).
Proof.
  intros I Hl Er Hnf Htk.
  set (lk' := (if took then take_lk s l t else getl s l) <| lpq := q' |> <| lwt := w |>).
  set (oh := if took then take_oh s l t else None).
  set (s' := upd s l lk' t oh).
  destruct (qwf_remove _ _ _ _ (iB1 I l) Er) as (Hq & Hp & Hnin).
  assert (E : getl s' l = lk').
  { destruct (upd_lk s l lk' t oh) as [[_ E]|(Hge & _)]; [exact E|lia]. }
  assert (Hob : objs s' l = pq_objs q') by (unfold objs; rewrite E; unfold lk'; destruct took; reflexivity).
  assert (Hsub : forall g, In g (pq_objs q') -> In g (objs s l) /\ g <> f).
  { intros g Hg. split.
    - eapply Permutation_in; [apply Permutation_sym; exact Hp|]. now right.
    - intros ->. contradiction. }
  assert (Hth : tholding (gett s' t) =
                if (took && is_prio_task s t)%bool then l :: tholding (gett s t) else tholding (gett s t)).
  { unfold s', oh. rewrite upd_tholding. destruct took; simpl; auto. unfold take_oh.
    destruct (is_prio_task s t); auto. destruct (Htk eq_refl) as (_ & Ht & _).
    apply Nat.ltb_lt in Ht. now rewrite Ht. }
  apply Inv_upd; fold oh; fold lk'; fold s'; try rewrite E; try rewrite Hob.
  - unfold lk'. destruct took; reflexivity.
  - unfold lk'. destruct took; reflexivity.
  - intros Hk. unfold lk'. destruct took; cbn.
    + split; auto. intros _; discriminate.
    + apply (iA1 I); auto.
  - intros _ t' Hin. unfold lk'. destruct took; cbn.
    + destruct (Htk eq_refl) as (Ho & _). destruct (Nat.eq_dec t' t) as [->|Hne]; auto.
      unfold s' in Hin. rewrite upd_tholding_other in Hin by auto.
      pose proof (iA2 I _ _ Hl Hin). congruence.
    + apply (iA2 I); auto.
  - intros l' Hne. rewrite Hth. destruct (took && is_prio_task s t)%bool; [|tauto]. simpl. intuition congruence.
  - intros t' Ho' Hpr. unfold lk' in Ho'. destruct took; cbn in Ho'.
    + inversion Ho'; subst t'. rewrite Hth, Hpr. now left.
    + pose proof (iA3 I _ _ Ho' Hpr) as Hin. destruct (Nat.eq_dec t' t) as [->|Hne].
      * rewrite Hth. exact Hin.
      * unfold s'. now rewrite upd_tholding_other by auto.
  - intros Hpr. rewrite Hth, Hpr, andb_false_r. apply (iA4 I); auto.
  - intros t' Ho'. unfold lk' in Ho'. destruct took; cbn in Ho'.
    + inversion Ho'; subst t'. apply (Htk eq_refl).
    + apply (iA5 I _ _ Ho').
  - intros l0 Hl0. rewrite Hth. destruct took; simpl; [|apply (iA6 I); auto].
    destruct (is_prio_task s t); [|apply (iA6 I); auto].
    apply count_cons_fresh; auto. apply (Htk eq_refl).
  - intros Hk. exfalso. pose proof (iB0 I l Hk) as Hn.
    unfold pq_objs in Hp at 1. rewrite Hn in Hp. simpl in Hp. apply Permutation_nil in Hp. discriminate.
  - unfold lk'. destruct took; exact Hq.
  - intros f1 f2 H1 H2. apply (iC1 I l); apply Hsub; auto.
  - intros g Ho' Hg. destruct (Hsub _ Hg) as [Hin Hne].
    unfold lk' in Ho'. destruct took; cbn in Ho'.
    + destruct (Htk eq_refl) as (_ & _ & Hw). destruct (woken s g) eqn:Ew; auto.
      exfalso. apply Hne. apply (iC1 I l); auto.
      eapply Permutation_in; [apply Permutation_sym; exact Hp|]. now left.
    + apply (iC2 I l); auto.
  - intros g Hg. left. now apply Hsub.
  - intros t' g had Hin. pose proof (iF2 I _ _ _ _ Hin) as Hg.
    eapply Permutation_in in Hg; [|exact Hp]. destruct Hg as [<-|Hg]; auto.
    exfalso. eapply Hnf; eauto.
  - exact I.
Qed.

Lemma objs_kind_prio s l f : Inv s -> In f (objs s l) -> lkind_ (getl s l) = LPrio.
Proof.
  intros I Hin. destruct (lkind_ (getl s l)) eqn:Ek; auto.
  pose proof (iB0 I l Ek) as Hn. unfold objs, pq_objs in Hin. rewrite Hn in Hin. destruct Hin.
Qed.

Lemma lstep_sett_flags s t x :
  Inv s -> tholding x = tholding (gett s t) -> tfut x = tfut (gett s t) -> tprio x = tprio (gett s t) ->
  tcont_ x = tcont_ (gett s t) -> lstep s (sett s t x).
Proof.
  intros I E1 E2 E3 E4.
  assert (C : benign s (sett s t x)).
  { apply chg_sett; auto. unfold is_prio_task. now rewrite E3. left. unfold tframes. now rewrite E4. }
  eapply lstep_chg; eauto.
  - eapply Inv_benign; eauto.
  - unfold sett. cbn. apply set_nth_length.
  - intros t0. unfold tframes. rewrite gett_sett.
    destruct (Nat.eqb t t0 && Nat.ltb t (length (tasks s)))%bool eqn:E; auto.
    apply andb_prop in E as [E _]. apply Nat.eqb_eq in E. subst t0. now rewrite E4.
Qed.

(* PriorityLock.acquire after `await fut` *)
Theorem lstep_acquire_p_finish s t l f had inp :
  Inv s -> t < length (tasks s) -> In f (objs s l) -> no_frame s f ->
  (forall v, inp = RVal v -> woken s f = true) ->
  lstep s (fst (acquire_p_finish s t l f had inp)) /\
  (forall v, inp = RVal v -> snd (acquire_p_finish s t l f had inp) = RVal 1) /\
  (WF4 s -> WF4 (fst (acquire_p_finish s t l f had inp))).
Proof.
  intros I Ht Hf Hnf Hw.
  pose proof (objs_inrange s l f Hf) as Hl.
  pose proof (objs_kind_prio s l f I Hf) as Hk.
  destruct (pq_remove HQ (lpq (getl s l)) (Z.of_nat f)) as [[p q']|] eqn:Er.
  2:{ exfalso. eapply pq_remove_none; eauto. apply (iB1 I). }
  unfold acquire_p_finish.
  assert (Hfin : forall s2, lstep s s2 ->
            lstep s (if had then sett s2 t (gett s2 t <| twaiting := None |>) else s2)).
  { intros s2 L. destruct had; auto. eapply lstep_trans; [exact L|].
    apply lstep_sett_flags; auto. apply (ls_inv L). }
  assert (Hfin4 : forall s2, WF4 s2 ->
            WF4 (if had then sett s2 t (gett s2 t <| twaiting := None |>) else s2)).
  { intros s2 H2. destruct had; auto. }
  destruct inp as [v|e].
  - (* woken with a result: the lock is free *)
    assert (Ho : lowner (getl s l) = None).
    { destruct (lowner (getl s l)) eqn:Ho; auto.
      assert (lowner (getl s l) <> None) as Hn by congruence.
      rewrite (iC2 I l f Hn Hf) in Hw. specialize (Hw v eq_refl). discriminate. }
    rewrite (take_lock_eq s l t Ho).
    set (s1 := upd s l (take_lk s l t) t (take_oh s l t)).
    assert (E1 : getl s1 l = take_lk s l t).
    { destruct (upd_lk s l (take_lk s l t) t (take_oh s l t)) as [[_ E]|(Hge & _)]; [exact E|lia]. }
    rewrite E1. change (lpq (take_lk s l t)) with (lpq (getl s l)). rewrite Er.
    unfold s1. rewrite setl_upd.
    set (w := filter (fun pr : nat * nat => negb (Nat.eqb (fst pr) f)) (lwt (take_lk s l t))).
    pose proof (Inv_leave s l t f p q' w true I Hl Er Hnf) as I2.
    cbv beta iota in I2. specialize (I2 (fun _ => conj Ho (conj Ht (Hw v eq_refl)))).
    set (s2 := upd s l (take_lk s l t <| lpq := q' |> <| lwt := w |>) t (take_oh s l t)) in *.
    assert (E2 : getl s2 l = take_lk s l t <| lpq := q' |> <| lwt := w |>).
    { destruct (upd_lk s l (take_lk s l t <| lpq := q' |> <| lwt := w |>) t (take_oh s l t))
        as [[_ E]|(Hge & _)]; [exact E|lia]. }
    rewrite E2. cbn [llocked take_lk]. cbn. rewrite Nat.eqb_refl.
    split; [|split; [auto|]].
    + apply Hfin. apply lstep_upd; [exact I2|reflexivity|].
      intros g Hg. cbn in Hg. destruct (qwf_remove _ _ _ _ (iB1 I l) Er) as (_ & Hp & _).
      eapply Permutation_in; [apply Permutation_sym; exact Hp|]. now right.
    + intros H4. apply Hfin4. apply WF4_upd; auto. apply wf4_at_locked. fold s2. rewrite E2. reflexivity.
  - (* cancelled / interrupted: leave the queue, pass the wake-up on if the lock is free *)
    rewrite Er.
    set (w := filter (fun pr : nat * nat => negb (Nat.eqb (fst pr) f)) (lwt (getl s l))).
    pose proof (Inv_leave s l t f p q' w false I Hl Er Hnf) as I2.
    cbv beta iota in I2. specialize (I2 (fun H => False_ind _ (Bool.diff_false_true H))).
    change (setl s l (getl s l <| lpq := q' |> <| lwt := w |>))
      with (upd s l (getl s l <| lpq := q' |> <| lwt := w |>) t None).
    set (s2 := upd s l (getl s l <| lpq := q' |> <| lwt := w |>) t None) in *.
    assert (E2 : getl s2 l = getl s l <| lpq := q' |> <| lwt := w |>).
    { destruct (upd_lk s l (getl s l <| lpq := q' |> <| lwt := w |>) t None)
        as [[_ E]|(Hge & _)]; [exact E|lia]. }
    assert (L2 : lstep s s2).
    { apply lstep_upd; [exact I2|reflexivity|].
      intros g Hg. cbn in Hg. destruct (qwf_remove _ _ _ _ (iB1 I l) Er) as (_ & Hp & _).
      eapply Permutation_in; [apply Permutation_sym; exact Hp|]. now right. }
    assert (P3 : pstep s2 (match lowner (getl s2 l) with
                           | Some o => if Nat.eqb o t then s2 else propagate_priority s2 o
                           | None => s2 end)).
    { destruct (lowner (getl s2 l)) as [o|]; [|now apply pstep_refl].
      destruct (Nat.eqb o t); [now apply pstep_refl|now apply pstep_propagate_priority]. }
    split; [|split; [intros; discriminate|]]; cbn [fst].
    + apply Hfin.
      replace (llocked (getl s2 l)) with (llocked (getl s l)) by (rewrite E2; reflexivity).
      destruct (llocked (getl s l)) eqn:Elk; [eapply lstep_trans; [exact L2|apply P3]|].
      eapply lstep_trans; [exact L2|]. apply lstep_wake; [exact I2|].
      rewrite E2. change (lowner (getl s l <| lpq := q' |> <| lwt := w |>)) with (lowner (getl s l)).
      destruct (lowner (getl s l)) eqn:Ho; auto.
      assert (lowner (getl s l) <> None) as Hn by congruence.
      apply (iA1 I l Hk) in Hn. congruence.
    + intros H4. apply Hfin4.
      replace (llocked (getl s2 l)) with (llocked (getl s l)) by (rewrite E2; reflexivity).
      destruct (llocked (getl s l)) eqn:Elk.
      * apply (proj2 (proj2 P3)).
        apply WF4_upd; auto. apply wf4_at_locked. fold s2. rewrite E2. exact Elk.
      * apply WF4_wake; [exact I2|]. intros l' Hne. apply wf4_at_upd_other; auto.
Qed.

(* ---------------------------------------------------------------- joining the queue *)
Lemma Inv_add s l f p w :
  Inv s -> l < length (locks s) -> lkind_ (getl s l) = LPrio ->
  f < length (futs s) -> fowner (getf s f) = None -> ~ lockfut s f -> ~ foreign s f ->
  woken s f = false ->
  Inv (upd s l (getl s l <| lpq := pq_add HQ (lpq (getl s l)) p (Z.of_nat f) |> <| lwt := w |>) 0 None).
Proof.
  intros I Hl Hk Hr Hfo Hnl Hnf Hw.
  set (lk' := getl s l <| lpq := pq_add HQ (lpq (getl s l)) p (Z.of_nat f) |> <| lwt := w |>).
  set (s' := upd s l lk' 0 None).
  assert (E : getl s' l = lk').
  { destruct (upd_lk s l lk' 0 None) as [[_ E]|(Hge & _)]; [exact E|lia]. }
  assert (Hob : forall g, In g (objs s' l) <-> g = f \/ In g (objs s l)).
  { intros g. unfold objs at 1. rewrite E. cbn. split; intros H.
    - now apply pq_add_in in H.
    - eapply Permutation_in; [apply Permutation_sym, pq_objs_add|]. destruct H; [now left|now right]. }
  assert (Hnin : ~ In f (objs s l)) by (intros H; apply Hnl; now exists l).
  apply Inv_upd; fold lk'; fold s'; try (rewrite E; cbn).
  - reflexivity.
  - reflexivity.
  - intros _. apply (iA1 I); auto.
  - intros _ t' Hin. exact (iA2 I l t' Hl Hin).
  - intros l' _. split; intros H; exact H.
  - intros t' Ho Hpr. exact (iA3 I l t' Ho Hpr).
  - exact (iA4 I 0).
  - exact (iA5 I l).
  - intros l0 Hl0. exact (iA6 I 0 l0 Hl0).
  - intros Hk'. congruence.
  - apply qwf_add; [apply (iB1 I)|exact Hnin].
  - intros f1 f2 H1 H2 W1 W2. apply Hob in H1, H2.
    destruct H1 as [->|H1]; [congruence|]. destruct H2 as [->|H2]; [congruence|].
    apply (iC1 I l); auto.
  - intros g Ho Hg. apply Hob in Hg. destruct Hg as [->|Hg]; auto. apply (iC2 I l); auto.
  - intros g Hg. apply Hob in Hg. destruct Hg as [->|Hg]; auto.
  - intros t' g had Hin. apply Hob. right. eapply (iF2 I); eauto.
  - exact I.
Qed.

Lemma fresh_no_frame s : Inv s -> no_frame s (length (futs s)).
Proof.
  intros I t l had Hin. pose proof (iF2 I _ _ _ _ Hin) as Hf.
  assert (lockfut s (length (futs s))) as Hl by (now exists l).
  destruct (iD0 I _ Hl). lia.
Qed.

Lemma fresh_not_lockfut s : Inv s -> ~ lockfut s (length (futs s)).
Proof. intros I Hl. destruct (iD0 I _ Hl). lia. Qed.
Lemma fresh_not_foreign s : Inv s -> ~ foreign s (length (futs s)).
Proof. intros I Hf. pose proof (iD3 I _ Hf). lia. Qed.

(* PriorityLock.acquire up to its `await fut` *)
Theorem acquire_p_start_ext s t l :
  Inv s -> t < length (tasks s) -> lkind_ (getl s l) = LPrio ->
  ext s (fst (acquire_p_start s t l)) /\
  (forall y frs, snd (acquire_p_start s t l) = LSusp y frs -> pend (fst (acquire_p_start s t l)) frs).
Proof.
  intros I Ht Hk. unfold acquire_p_start.
  destruct (negb (llocked (getl s l)) && match arr (lpq (getl s l)) with [] => true | _ => false end)%bool eqn:Efast.
  - (* fast path *)
    apply andb_prop in Efast as [El Ea]. apply negb_true_iff in El.
    assert (Ho : lowner (getl s l) = None).
    { destruct (lowner (getl s l)) eqn:Ho; auto.
      assert (lowner (getl s l) <> None) as Hn by congruence. apply (iA1 I l Hk) in Hn. congruence. }
    rewrite (take_lock_eq s l t Ho). cbn [fst snd]. split; [|intros; discriminate].
    assert (Hemp : objs s l = []).
    { unfold objs, pq_objs. destruct (arr (lpq (getl s l))); [reflexivity|discriminate]. }
    apply ext_lstep.
    + apply lstep_upd; [|reflexivity|intros g Hg; exact Hg].
      apply Inv_take; auto. intros f. rewrite Hemp. intros [].
    + intros H4. apply WF4_upd; auto.
      destruct (upd_lk s l (take_lk s l t) t (take_oh s l t)) as [[_ E]|(_ & E & _)].
      * apply wf4_at_locked. rewrite E. reflexivity.
      * unfold wf4_at, objs. rewrite E. intros Hk' Hl' Hne'.
        destruct (H4 l Hk' Hl' Hne') as (g & Hg & Hd). exists g. split; auto.
  - (* queue up *)
    assert (Hl : l < length (locks s)).
    { destruct (Nat.lt_ge_cases l (length (locks s))); auto.
      rewrite getl_oob in Efast by auto. discriminate. }
    set (f := length (futs s)).
    set (s1 := fst (new_future s None)).
    assert (B1 : benign s s1) by apply chg_new_future.
    change (new_future s None) with (s1, f). cbv beta iota.
    destruct (is_prio_task s t && match twaiting (gett s1 t) with Some _ => true | None => false end)%bool.
    { cbn [fst snd]. split; [now apply ext_benign|intros; discriminate]. }
    set (s2 := if is_prio_task s t then sett s1 t (gett s1 t <| twaiting := Some l |>) else s1).
    assert (B2 : benign s s2).
    { unfold s2. destruct (is_prio_task s t); auto. eapply benign_trans; [exact B1|]. bsett. }
    pose proof (Inv_benign s s2 B2 I) as I2.
    assert (Hf2 : getf s2 f = mkFut FPending [] false None None).
    { unfold s2. destruct (is_prio_task s t); apply new_future_get. }
    assert (Hlen2 : length (futs s2) = S (length (futs s))).
    { unfold s2. destruct (is_prio_task s t); apply new_future_len. }
    assert (Hfor2 : forall g, foreign s2 g <-> foreign s g).
    { intros g. unfold s2. destruct (is_prio_task s t); reflexivity. }
    assert (Hl2 : getl s2 l = getl s l).
    { unfold s2. destruct (is_prio_task s t); reflexivity. }
    assert (Hfr2 : forall t0, tframes s2 t0 = tframes s t0).
    { intros t0. unfold s2. destruct (is_prio_task s t); [|reflexivity].
      unfold tframes. rewrite gett_sett.
      destruct (Nat.eqb t t0 && Nat.ltb t (length (tasks s1)))%bool eqn:E; [|reflexivity].
      apply andb_prop in E as [E _]. apply Nat.eqb_eq in E. subst t0. reflexivity. }
    set (p := if is_prio_task s t then effective_priority s t else 0%Q).
    set (w := lwt (getl s2 l) ++ [(f, t)]).
    change (setl s2 l (getl s2 l <| lpq := pq_add HQ (lpq (getl s2 l)) p (Z.of_nat f) |> <| lwt := w |>))
      with (upd s2 l (getl s2 l <| lpq := pq_add HQ (lpq (getl s2 l)) p (Z.of_nat f) |> <| lwt := w |>) 0 None).
    set (s3 := upd s2 l (getl s2 l <| lpq := pq_add HQ (lpq (getl s2 l)) p (Z.of_nat f) |> <| lwt := w |>) 0 None).
    assert (I3 : Inv s3).
    { apply Inv_add; auto.
      - rewrite (c_nlocks B2). exact Hl.
      - rewrite Hl2. exact Hk.
      - rewrite Hlen2. unfold f. lia.
      - now rewrite Hf2.
      - intros H. apply (benign_lockfut s s2 f B2) in H. now apply (fresh_not_lockfut s I).
      - intros H. apply Hfor2 in H. now apply (fresh_not_foreign s I).
      - unfold woken. now rewrite Hf2. }
    assert (E3 : getl s3 l = getl s2 l <| lpq := pq_add HQ (lpq (getl s2 l)) p (Z.of_nat f) |> <| lwt := w |>).
    { destruct (upd_lk s2 l (getl s2 l <| lpq := pq_add HQ (lpq (getl s2 l)) p (Z.of_nat f) |> <| lwt := w |>) 0 None)
        as [[_ E]|(Hge & _)]; [exact E|]. rewrite (c_nlocks B2) in Hge. lia. }
    assert (Hf3 : In f (objs s3 l)).
    { unfold objs. rewrite E3. cbn. eapply Permutation_in; [apply Permutation_sym, pq_objs_add|]. now left. }
    set (s4 := match lowner (getl s3 l) with Some o => propagate_priority s3 o | None => s3 end).
    assert (P4 : pstep s3 s4).
    { unfold s4. destruct (lowner (getl s3 l)); [now apply pstep_propagate_priority|now apply pstep_refl]. }
    destruct P4 as (L4 & O4 & W4). pose proof (ls_inv L4) as I4.
    set (s5 := setf s4 f (getf s4 f <| fblock := true |>)).
    assert (B5 : benign s4 s5) by (apply chg_setf_flag; reflexivity).
    pose proof (Inv_benign s4 s5 B5 I4) as I5.
    cbn [fst snd]. split.
    + split; [exact I5|]. split; [|split].
      * change (tasks s5) with (tasks s4). rewrite (ls_ntasks L4).
        change (length (tasks s3)) with (length (tasks (upd s2 l (getl s3 l) 0 None))).
        pose proof (benign_tasks s s2 B2). unfold s3, upd. cbn. lia.
      * intros l0. change (getl s5 l0) with (getl s4 l0). rewrite (ls_kind L4).
        unfold s3. rewrite upd_kind by reflexivity. apply (benign_kind s s2 l0 B2).
      * intros H4. apply (WF4_chg _ _ _ B5). apply W4.
        pose proof (WF4_chg _ _ _ B2 H4) as H42.
        apply WF4_upd; auto. fold s3. intros Hk3 Hl3 Hne3.
        rewrite E3 in Hl3. cbn in Hl3. rewrite Hl2 in Hl3.
        assert (Hne : objs s2 l <> []).
        { unfold objs, pq_objs. rewrite Hl2. rewrite Hl3 in Efast. simpl in Efast.
          destruct (arr (lpq (getl s l))); [discriminate|discriminate]. }
        destruct (H42 l) as (g & Hg & Hd); auto; [now rewrite Hl2|now rewrite Hl2|].
        exists g. split.
        -- unfold objs. rewrite E3. cbn. eapply Permutation_in; [apply Permutation_sym, pq_objs_add|]. now right.
        -- unfold s3. now rewrite upd_fdone.
    + intros y frs Hy. inversion Hy; subst y frs. split; [|split].
      * right. exists l, f, (is_prio_task s t), []. split; [reflexivity|apply no_acq_nil].
      * intros l0 f0 had0 [H|[H|[]]]; [discriminate|]. inversion H; subst l0 f0 had0. split.
        -- change (objs s5 l) with (objs s4 l). apply O4. exact Hf3.
        -- intros t0 l0 had0. change (tframes s5 t0) with (tframes s4 t0).
           rewrite (ls_frames L4). unfold s3. rewrite upd_tframes, Hfr2. apply (fresh_no_frame s I).
      * intros l0 f0 [H|[H|[]]]; discriminate.
Qed.
