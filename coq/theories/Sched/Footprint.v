(* Footprints: every primitive of the scheduler model that is not a PriorityLock
   operation is a [benign] step (it leaves the PriorityLock tables, the held-lock
   lists and the suspended acquire frames alone, wakes no lock-waiter future and
   only introduces fresh future ids into the other waiter tables). *)
From Coq Require Import QArith Sorting.Permutation.
From RecordUpdate Require Import RecordUpdate.
From Asynkit Require Import Base.Prelude Queue.PQ Queue.PosPQ Queue.Exec Sched.Model
  Sched.Tables Sched.QFacts Sched.LockInv.
Import RecordSetNotations.
Open Scope nat_scope.

Definition notlf (s : st) : nat -> Prop := fun g => ~ lockfut s g.
Definition benign (s s' : st) : Prop := chg (notlf s) s s'.

Lemma Inv_benign s s' : benign s s' -> Inv s -> Inv s'.
Proof. intros H. eapply Inv_chg; eauto. Qed.

Lemma chg_refl W s : chg W s s.
Proof. apply chg_core_eq; reflexivity. Qed.

Lemma benign_refl s : benign s s.
Proof. apply chg_refl. Qed.

Lemma cb_task_ok_mono s s' c : length (tasks s) <= length (tasks s') -> cb_task_ok s c -> cb_task_ok s' c.
Proof. intros H. destruct c; simpl; auto; lia. Qed.

Lemma chg_trans W1 W2 s1 s2 s3 :
  chg W1 s1 s2 -> chg W2 s2 s3 -> chg (fun g => W1 g \/ W2 g) s1 s3.
Proof.
  intros A B.
  assert (Hlf : forall f, lockfut s2 f <-> lockfut s1 f) by (intros; eapply chg_lockfut; eauto).
  pose proof (c_ntasks A) as Nt1. pose proof (c_ntasks B) as Nt2.
  pose proof (c_nfuts A) as Nf1. pose proof (c_nfuts B) as Nf2.
  constructor.
  - rewrite (c_nlocks B). apply (c_nlocks A).
  - intros l. destruct (c_lock A l) as (K1 & O1 & Q1 & L1). destruct (c_lock B l) as (K2 & O2 & Q2 & L2).
    repeat split; try congruence. destruct L1 as [L1|L1]; auto. destruct L2 as [L2|L2]; [left; congruence|].
    right. congruence.
  - lia.
  - intros t Ht. destruct (c_task A t Ht) as (H1 & F1 & P1 & R1).
    destruct (c_task B t ltac:(lia)) as (H2 & F2 & P2 & R2).
    repeat split; try congruence. destruct R2 as [R2|R2]; auto. rewrite R2. auto.
  - intros t Ht. destruct (Nat.lt_ge_cases t (length (tasks s2))) as [Ht2|Ht2].
    + destruct (c_newtask A t Ht) as (H1 & R1 & D1). destruct (c_task B t Ht2) as (H2 & F2 & P2 & R2).
      split; [congruence|]. split; [destruct R2 as [R2|R2]; congruence|].
      intros _. destruct (D1 Ht2) as [Dr Do]. rewrite F2. split; [lia|].
      rewrite (c_fowner B); auto.
    + apply (c_newtask B t Ht2).
  - lia.
  - intros g Hg. rewrite (c_fowner B) by lia. apply (c_fowner A); auto.
  - intros g Hg Hw. destruct (c_woken B g ltac:(lia) Hw) as [Hw2|Hn]; auto.
    destruct (c_woken A g Hg Hw2); auto.
  - intros g t Hc. destruct (c_cbs B _ _ Hc) as [Hc2|]; auto.
    destruct (c_cbs A _ _ Hc2) as [|]; auto. right. lia.
  - intros c Hc. destruct (c_hcbs B _ Hc) as [Hc2|]; auto.
    destruct (c_hcbs A _ Hc2) as [|]; auto. right. eapply cb_task_ok_mono; eauto.
  - intros f Hf. destruct (c_foreign B _ Hf) as [Hf2|[Hr Hn]].
    + destruct (c_foreign A _ Hf2) as [|[Hr Hn]]; auto. right. split; auto. lia.
    + right. split; auto. now rewrite <- Hlf.
  - intros Hc. apply (c_cpq B). apply (c_cpq A). exact Hc.
  - intros g Hd. apply (c_done B). apply (c_done A). exact Hd.
Qed.

Lemma chg_trans' W s1 s2 s3 : chg W s1 s2 -> chg W s2 s3 -> chg W s1 s3.
Proof. intros A B. eapply chg_weaken; [|eapply chg_trans; eauto]. simpl. tauto. Qed.

Lemma benign_trans s1 s2 s3 : benign s1 s2 -> benign s2 s3 -> benign s1 s3.
Proof.
  intros A B. unfold benign in *. eapply chg_weaken; [|eapply chg_trans; eauto].
  simpl. intros g [H|H]; auto. unfold notlf in *. now rewrite <- (chg_lockfut _ _ _ g A).
Qed.

(* what else a benign step guarantees *)
Lemma benign_tasks s s' : benign s s' -> length (tasks s) <= length (tasks s').
Proof. apply c_ntasks. Qed.
Lemma benign_futs s s' : benign s s' -> length (futs s) <= length (futs s').
Proof. apply c_nfuts. Qed.
Lemma benign_kind s s' l : benign s s' -> lkind_ (getl s' l) = lkind_ (getl s l).
Proof. intros H. apply (c_lock H l). Qed.
Lemma benign_objs s s' l : benign s s' -> objs s' l = objs s l.
Proof. apply chg_objs. Qed.
Lemma benign_lockfut s s' f : benign s s' -> (lockfut s' f <-> lockfut s f).
Proof. apply chg_lockfut. Qed.
Lemma benign_getl s s' l : benign s s' ->
  lkind_ (getl s' l) = lkind_ (getl s l) /\ lowner (getl s' l) = lowner (getl s l) /\
  lpq (getl s' l) = lpq (getl s l).
Proof. intros H. destruct (c_lock H l) as (A & B & C & _). auto. Qed.

(* ---------------------------------------------------------------- generic shapes *)
Definition cb_ok (s : st) (c : callback) : Prop :=
  cb_task_ok s c /\ forall f v, c = HSetResult f v -> f < length (futs s) /\ ~ lockfut s f.

(* only handles change *)
Lemma chg_handles W s s' :
  locks s' = locks s -> tasks s' = tasks s -> futs s' = futs s -> events s' = events s ->
  conds s' = conds s -> (forall c, In c (hcbs s') -> In c (hcbs s) \/ cb_ok s c) -> chg W s s'.
Proof.
  intros El Et Ef Ee Ec Eh.
  assert (Hl : forall l, getl s' l = getl s l) by (intros; unfold getl; now rewrite El).
  assert (Ht : forall t, gett s' t = gett s t) by (intros; unfold gett; now rewrite Et).
  assert (Hf : forall f, getf s' f = getf s f) by (intros; unfold getf; now rewrite Ef).
  constructor.
  - now rewrite El.
  - intros l. rewrite Hl. auto.
  - rewrite Et. lia.
  - intros t _. unfold is_prio_task, tframes. rewrite Ht. auto.
  - intros t Hge. unfold tframes. rewrite Ht, gett_oob by auto. simpl. split; auto. split; auto.
    intros Hlt. rewrite Et in Hlt. lia.
  - rewrite Ef. lia.
  - intros g _. now rewrite Hf.
  - intros g _. unfold woken. rewrite Hf. auto.
  - intros g t. rewrite Hf. auto.
  - intros c Hc. destruct (Eh _ Hc) as [|[Hok _]]; auto. right.
    destruct c; simpl in *; auto; rewrite Et; auto.
  - intros f Hfo. unfold foreign in *.
    destruct Hfo as [(l & H)|[(e & H)|[(c & H)|[(c & H)|(v & H)]]]].
    + left. left. exists l. now rewrite <- Hl.
    + left. right. left. exists e. unfold gete in *. now rewrite <- Ee.
    + left. right. right. left. exists c. unfold getc in *. now rewrite <- Ec.
    + left. right. right. right. left. exists c. unfold getc in *. now rewrite <- Ec.
    + destruct (Eh _ H) as [H'|[_ Hok]].
      * left. right. right. right. right. now exists v.
      * right. rewrite Ef. eapply Hok; eauto.
  - intros Hc c. unfold getc. rewrite Ec. apply Hc.
  - intros g. unfold fdone. now rewrite Hf.
Qed.

(* only one future record changes *)
Lemma chg_setf W s f x :
  fowner x = fowner (getf s f) ->
  (woken (setf s f x) f = true -> woken s f = true \/ W f) ->
  (forall t, In (CbWakeup t) (fcbs x) -> In (CbWakeup t) (fcbs (getf s f)) \/ t < length (tasks s)) ->
  (fdone s f = true -> fdone (setf s f x) f = true) ->
  chg W s (setf s f x).
Proof.
  intros Eo Ew Ecb Ed.
  assert (Hl : forall l, getl (setf s f x) l = getl s l) by reflexivity.
  assert (Ht : forall t, gett (setf s f x) t = gett s t) by reflexivity.
  assert (Elen : length (futs (setf s f x)) = length (futs s)).
  { unfold setf. cbn. apply set_nth_length. }
  constructor.
  - reflexivity.
  - intros l. rewrite Hl. auto.
  - cbn. lia.
  - intros t _. unfold is_prio_task, tframes. rewrite Ht. auto.
  - intros t Hge. unfold tframes. rewrite Ht, gett_oob by auto. simpl. split; auto. split; auto.
    intros Hlt. cbn in Hlt. lia.
  - rewrite Elen. lia.
  - intros g _. rewrite getf_setf. destruct (Nat.eqb f g && Nat.ltb f (length (futs s)))%bool eqn:E; auto.
    apply andb_prop in E as [E _]. apply Nat.eqb_eq in E. now subst g.
  - intros g _ Hw. destruct (Nat.eq_dec f g) as [<-|Hne]; auto.
    left. unfold woken in *. rewrite getf_setf_other in Hw; auto.
  - intros g t Hc. rewrite getf_setf in Hc.
    destruct (Nat.eqb f g && Nat.ltb f (length (futs s)))%bool eqn:E; auto.
    apply andb_prop in E as [E _]. apply Nat.eqb_eq in E. subst g. apply Ecb; auto.
  - intros c Hc. left. exact Hc.
  - intros g Hg. left. exact Hg.
  - intros Hc c. apply Hc.
  - intros g Hd. destruct (Nat.eq_dec f g) as [<-|Hne]; auto.
    unfold fdone in *. now rewrite getf_setf_other.
Qed.

(* only one task record changes, in fields the invariant does not read (or its
   frames are dropped) *)
Lemma chg_sett W s t x :
  tholding x = tholding (gett s t) -> tfut x = tfut (gett s t) ->
  (match tprio x with Some _ => true | None => false end = is_prio_task s t) ->
  (frames_of (tcont_ x) = tframes s t \/ frames_of (tcont_ x) = []) ->
  chg W s (sett s t x).
Proof.
  intros Eh Ef Ep Efr.
  assert (Hl : forall l, getl (sett s t x) l = getl s l) by reflexivity.
  assert (Hf : forall f, getf (sett s t x) f = getf s f) by reflexivity.
  assert (Elen : length (tasks (sett s t x)) = length (tasks s)).
  { unfold sett. cbn. apply set_nth_length. }
  constructor.
  - reflexivity.
  - intros l. rewrite Hl. auto.
  - rewrite Elen. lia.
  - intros t0 Ht0. unfold is_prio_task, tframes. rewrite gett_sett.
    destruct (Nat.eqb t t0 && Nat.ltb t (length (tasks s)))%bool eqn:E; auto.
    apply andb_prop in E as [E _]. apply Nat.eqb_eq in E. subst t0. auto.
  - intros t0 Hge. unfold tframes. rewrite gett_sett.
    destruct (Nat.eqb t t0 && Nat.ltb t (length (tasks s)))%bool eqn:E.
    + apply andb_prop in E as [E1 E2]. apply Nat.eqb_eq in E1. apply Nat.ltb_lt in E2. lia.
    + rewrite gett_oob by auto. split; [reflexivity|]. split; [reflexivity|].
      intros Hlt. rewrite Elen in Hlt. lia.
  - cbn. lia.
  - intros g _. now rewrite Hf.
  - intros g _. unfold woken. rewrite Hf. auto.
  - intros g t0. rewrite Hf. auto.
  - intros c Hc. left. exact Hc.
  - intros g Hg. left. exact Hg.
  - intros Hc c. apply Hc.
  - intros g. unfold fdone. now rewrite Hf.
Qed.

Lemma chg_new_future W s o : chg W s (fst (new_future s o)).
Proof.
  unfold new_future. cbn [fst].
  set (s' := s <| futs := futs s ++ [mkFut FPending [] false o None] |>).
  assert (Hl : forall l, getl s' l = getl s l) by reflexivity.
  assert (Ht : forall t, gett s' t = gett s t) by reflexivity.
  assert (Hf : forall g, g < length (futs s) -> getf s' g = getf s g).
  { intros g Hg. unfold getf, s'. cbn. now apply nth_app_old. }
  constructor.
  - reflexivity.
  - intros l. rewrite Hl. auto.
  - cbn. lia.
  - intros t _. unfold is_prio_task, tframes. rewrite Ht. auto.
  - intros t Hge. unfold tframes. rewrite Ht, gett_oob by auto. simpl. split; auto. split; auto.
    intros Hlt. cbn in Hlt. lia.
  - unfold s'. cbn. rewrite app_length. lia.
  - intros g Hg. now rewrite Hf.
  - intros g Hg. unfold woken. rewrite Hf; auto.
  - intros g t Hc. destruct (Nat.lt_ge_cases g (length (futs s))) as [Hg|Hg].
    + rewrite Hf in Hc; auto.
    + exfalso. unfold getf, s' in Hc. cbn in Hc.
      destruct (Nat.eq_dec g (length (futs s))) as [->|Hne].
      * rewrite nth_app_fresh in Hc. destruct Hc.
      * rewrite nth_oob in Hc by (rewrite app_length; simpl; lia). destruct Hc.
  - intros c Hc. left. exact Hc.
  - intros g Hg. left. exact Hg.
  - intros Hc c. apply Hc.
  - intros g Hd. destruct (Nat.lt_ge_cases g (length (futs s))) as [Hg|Hg].
    + unfold fdone in *. now rewrite Hf.
    + unfold fdone in Hd. rewrite getf_oob in Hd by auto. discriminate.
Qed.

Lemma new_future_id s o : snd (new_future s o) = length (futs s).
Proof. reflexivity. Qed.
Lemma new_future_len s o : length (futs (fst (new_future s o))) = S (length (futs s)).
Proof. unfold new_future. cbn. rewrite app_length. simpl. lia. Qed.
Lemma new_future_get s o : getf (fst (new_future s o)) (length (futs s)) = mkFut FPending [] false o None.
Proof. unfold new_future, getf. cbn. apply nth_app_fresh. Qed.

(* ---------------------------------------------------------------- foreign *)
Lemma foreign_ldq s l f : In f (ldq (getl s l)) -> foreign s f.
Proof. intros H. left. now exists l. Qed.
Lemma foreign_ev s e f : In f (ewaiters (gete s e)) -> foreign s f.
Proof. intros H. right. left. now exists e. Qed.
Lemma foreign_cpq s c f : In f (pq_objs (cpq (getc s c))) -> foreign s f.
Proof. intros H. right. right. left. now exists c. Qed.
Lemma foreign_cdq s c f : In f (cdq (getc s c)) -> foreign s f.
Proof. intros H. right. right. right. left. now exists c. Qed.
Lemma foreign_timer s f v : In (HSetResult f v) (hcbs s) -> foreign s f.
Proof. intros H. right. right. right. right. now exists v. Qed.

Ltac for_cases H :=
  destruct H as [(?l & H)|[(?e & H)|[(?c & H)|[(?c & H)|(?v & H)]]]].

(* only the non-PriorityLock waiter tables change *)
Lemma chg_tables W s s' :
  tasks s' = tasks s -> futs s' = futs s -> hcbs s' = hcbs s ->
  length (locks s') = length (locks s) ->
  (forall l, lkind_ (getl s' l) = lkind_ (getl s l) /\ lowner (getl s' l) = lowner (getl s l) /\
             lpq (getl s' l) = lpq (getl s l) /\
             (llocked (getl s' l) = llocked (getl s l) \/ lkind_ (getl s l) = LPlain)) ->
  (forall f, foreign s' f -> foreign s f \/ (f < length (futs s) /\ ~ lockfut s f)) ->
  ((forall c, PQInv (cpq (getc s c))) -> forall c, PQInv (cpq (getc s' c))) ->
  chg W s s'.
Proof.
  intros Et Ef Eh Enl Hlk Hfor Hcpq.
  assert (Ht : forall t, gett s' t = gett s t) by (intros; unfold gett; now rewrite Et).
  assert (Hf : forall f, getf s' f = getf s f) by (intros; unfold getf; now rewrite Ef).
  constructor; auto.
  - rewrite Et. lia.
  - intros t _. unfold is_prio_task, tframes. rewrite Ht. auto.
  - intros t Hge. unfold tframes. rewrite Ht, gett_oob by auto. split; [reflexivity|]. split; [reflexivity|].
    intros Hlt. rewrite Et in Hlt. lia.
  - rewrite Ef. lia.
  - intros g _. now rewrite Hf.
  - intros g _. unfold woken. rewrite Hf. auto.
  - intros g t. rewrite Hf. auto.
  - intros c. rewrite Eh. auto.
  - intros f H. rewrite Ef. auto.
  - intros g. unfold fdone. now rewrite Hf.
Qed.

Definition freshish (s : st) (f : nat) : Prop := f < length (futs s) /\ ~ lockfut s f.

Lemma chg_sete W s e ev :
  (forall f, In f (ewaiters ev) -> In f (ewaiters (gete s e)) \/ freshish s f) -> chg W s (sete s e ev).
Proof.
  intros H. apply chg_tables; try reflexivity.
  - intros l. change (getl (sete s e ev) l) with (getl s l). auto.
  - intros f Hf. for_cases Hf.
    + left. eapply foreign_ldq; eauto.
    + rewrite gete_sete in Hf. destruct (Nat.eqb e e0 && Nat.ltb e (length (events s)))%bool.
      * destruct (H _ Hf); auto. left. eapply foreign_ev; eauto.
      * left. eapply foreign_ev; eauto.
    + left. eapply foreign_cpq; eauto.
    + left. eapply foreign_cdq; eauto.
    + left. eapply foreign_timer; eauto.
  - intros Hc c. apply Hc.
Qed.

Lemma chg_setc W s c cd :
  (forall f, In f (pq_objs (cpq cd)) -> In f (pq_objs (cpq (getc s c))) \/ freshish s f) ->
  (forall f, In f (cdq cd) -> In f (cdq (getc s c)) \/ freshish s f) ->
  (PQInv (cpq (getc s c)) -> PQInv (cpq cd)) ->
  chg W s (setc s c cd).
Proof.
  intros H1 H2 H3. apply chg_tables; try reflexivity.
  - intros l. change (getl (setc s c cd) l) with (getl s l). auto.
  - intros f Hf. for_cases Hf.
    + left. eapply foreign_ldq; eauto.
    + left. eapply foreign_ev; eauto.
    + rewrite getc_setc in Hf. destruct (Nat.eqb c c0 && Nat.ltb c (length (conds s)))%bool.
      * destruct (H1 _ Hf); auto. left. eapply foreign_cpq; eauto.
      * left. eapply foreign_cpq; eauto.
    + rewrite getc_setc in Hf. destruct (Nat.eqb c c0 && Nat.ltb c (length (conds s)))%bool.
      * destruct (H2 _ Hf); auto. left. eapply foreign_cdq; eauto.
      * left. eapply foreign_cdq; eauto.
    + left. eapply foreign_timer; eauto.
  - intros Hc c0. rewrite getc_setc. destruct (Nat.eqb c c0 && Nat.ltb c (length (conds s)))%bool eqn:E; auto.
Qed.

(* an asyncio.Lock-style update of a lock record: deque and flag only *)
Lemma chg_setl_plain W s l lk' :
  lkind_ lk' = lkind_ (getl s l) -> lowner lk' = lowner (getl s l) -> lpq lk' = lpq (getl s l) ->
  (llocked lk' = llocked (getl s l) \/ lkind_ (getl s l) = LPlain) ->
  (forall f, In f (ldq lk') -> In f (ldq (getl s l)) \/ freshish s f) ->
  chg W s (setl s l lk').
Proof.
  intros Hk Ho Hq Hl Hd. apply chg_tables; try reflexivity.
  - unfold setl. cbn. apply set_nth_length.
  - intros l0. rewrite getl_setl. destruct (Nat.eqb l l0 && Nat.ltb l (length (locks s)))%bool eqn:E; auto.
    apply andb_prop in E as [E _]. apply Nat.eqb_eq in E. subst l0. auto.
  - intros f Hf. for_cases Hf.
    + rewrite getl_setl in Hf. destruct (Nat.eqb l l0 && Nat.ltb l (length (locks s)))%bool.
      * destruct (Hd _ Hf); auto. left. eapply foreign_ldq; eauto.
      * left. eapply foreign_ldq; eauto.
    + left. eapply foreign_ev; eauto.
    + left. eapply foreign_cpq; eauto.
    + left. eapply foreign_cdq; eauto.
    + left. eapply foreign_timer; eauto.
  - intros Hc c. apply Hc.
Qed.

(* ---------------------------------------------------------------- handles *)
Lemma hcbs_call_soon s c : hcbs (call_soon_ s c) = hcbs s ++ [c].
Proof. unfold hcbs, call_soon_, call_soon. cbn. now rewrite map_app. Qed.
Lemma hcbs_call_at s w c : hcbs (fst (call_at s w c)) = hcbs s ++ [c].
Proof. unfold hcbs, call_at. cbn. now rewrite map_app. Qed.

Lemma chg_call_soon W s c : cb_ok s c -> chg W s (call_soon_ s c).
Proof.
  intros Hc. apply chg_handles; try reflexivity. intros c0 H0. rewrite hcbs_call_soon in H0.
  apply in_app_or in H0 as [|[<-|[]]]; auto.
Qed.
Lemma chg_call_at W s w c : cb_ok s c -> chg W s (fst (call_at s w c)).
Proof.
  intros Hc. apply chg_handles; try reflexivity. intros c0 H0. rewrite hcbs_call_at in H0.
  apply in_app_or in H0 as [|[<-|[]]]; auto.
Qed.
Lemma call_soon_fst s c : fst (call_soon s c) = call_soon_ s c.
Proof. reflexivity. Qed.

Lemma chg_call_pos W s p c : cb_ok s c -> chg W s (call_pos s p c).
Proof.
  intros Hc. unfold call_pos. pose proof (chg_call_soon W s c Hc) as H1. unfold call_soon_ in H1.
  destruct (call_soon s c) as [s1 h]. cbn [fst] in H1.
  destruct (rq_remove (ready s1) h); auto.
  eapply chg_trans'; [exact H1|]. apply chg_core_eq; reflexivity.
Qed.

Lemma chg_cancel_handle W s h : chg W s (cancel_handle s h).
Proof.
  apply chg_core_eq; try reflexivity. unfold hcbs, cancel_handle. cbn.
  apply map_set_nth_same with (d := dh). reflexivity.
Qed.

Lemma cb_ok_log s n : cb_ok s (HLog n).
Proof. split; simpl; auto. intros; discriminate. Qed.
Lemma cb_ok_step s t e : t < length (tasks s) -> cb_ok s (HStep t e).
Proof. split; simpl; auto. intros; discriminate. Qed.
Lemma cb_ok_wakeup s t f : t < length (tasks s) -> cb_ok s (HWakeup t f).
Proof. split; simpl; auto. intros; discriminate. Qed.

(* ---------------------------------------------------------------- futures *)
Lemma woken_setf_same s f y : fstate_ y = fstate_ (getf s f) -> woken (setf s f y) f = woken s f.
Proof.
  intros E. unfold woken. rewrite getf_setf, Nat.eqb_refl. simpl.
  destruct (Nat.ltb f (length (futs s))); [now rewrite E|reflexivity].
Qed.

Lemma fdone_setf_same s f y : fstate_ y = fstate_ (getf s f) -> fdone (setf s f y) f = fdone s f.
Proof.
  intros E. unfold fdone. rewrite getf_setf, Nat.eqb_refl. simpl.
  destruct (Nat.ltb f (length (futs s))); [now rewrite E|reflexivity].
Qed.

Lemma chg_fold_soon W f cbs : forall s,
  (forall t, In (CbWakeup t) cbs -> t < length (tasks s)) ->
  chg W s (fold_left (fun s c => call_soon_ s (cb_callback f c)) cbs s).
Proof.
  induction cbs as [|c cbs IH]; intros s H; simpl; [apply chg_refl|].
  apply chg_trans' with (s2 := call_soon_ s (cb_callback f c)).
  - apply chg_call_soon. destruct c; simpl; [apply cb_ok_wakeup; apply H; now left|apply cb_ok_log].
  - apply IH. intros t Ht. change (tasks (call_soon_ s (cb_callback f c))) with (tasks s). apply H. now right.
Qed.

Lemma chg_fut_finish W s f x :
  (forall t, In (CbWakeup t) (fcbs (getf s f)) -> t < length (tasks s)) ->
  (match x with FResult _ | FExc _ => W f | _ => True end) ->
  chg W s (fst (fut_finish s f x)).
Proof.
  intros Hcb HW. unfold fut_finish. destruct (fstate_ (getf s f)) eqn:E; try apply chg_refl.
  cbn [fst]. unfold schedule_callbacks.
  set (s1 := setf s f (getf s f <| fstate_ := x |>)).
  assert (Hg1 : fcbs (getf s1 f) = fcbs (getf s f)).
  { unfold s1. rewrite getf_setf. destruct (Nat.eqb f f && Nat.ltb f (length (futs s)))%bool; reflexivity. }
  eapply chg_trans'; [|eapply chg_trans'].
  - apply chg_setf with (x := getf s f <| fstate_ := x |>);
      [reflexivity| |cbn; auto|intros Hd; unfold fdone in Hd; rewrite E in Hd; discriminate].
    intros Hw. right. unfold woken in Hw. rewrite getf_setf, Nat.eqb_refl in Hw.
    destruct (Nat.ltb f (length (futs s))); cbn in Hw.
    + destruct x; try discriminate; exact HW.
    + rewrite E in Hw. discriminate.
  - apply chg_setf with (x := getf s1 f <| fcbs := [] |>);
      [reflexivity| |intros t []|intros Hd; now rewrite fdone_setf_same by reflexivity].
    intros Hw. left. rewrite woken_setf_same in Hw by reflexivity. exact Hw.
  - apply chg_fold_soon. intros t Ht. rewrite Hg1 in Ht. apply Hcb. exact Ht.
Qed.

Lemma fut_finish_false s f x : snd (fut_finish s f x) = false -> fst (fut_finish s f x) = s.
Proof. unfold fut_finish. destruct (fstate_ (getf s f)); simpl; auto; discriminate. Qed.

Lemma chg_add_done_callback W s f t :
  t < length (tasks s) -> chg W s (add_done_callback s f (CbWakeup t)).
Proof.
  intros Ht. unfold add_done_callback. destruct (fdone s f).
  - apply chg_call_soon. simpl. now apply cb_ok_wakeup.
  - apply chg_setf; [reflexivity| | |intros Hd; now rewrite fdone_setf_same by reflexivity].
    + intros Hw. left. rewrite woken_setf_same in Hw by reflexivity. exact Hw.
    + cbn. intros t0 H0. apply in_app_or in H0 as [|[H0|[]]]; auto. inversion H0; subst. auto.
Qed.

Lemma chg_remove_done_callback W s f c : chg W s (remove_done_callback s f c).
Proof.
  unfold remove_done_callback.
  apply chg_setf; [reflexivity| | |intros Hd; now rewrite fdone_setf_same by reflexivity].
  - intros Hw. left. rewrite woken_setf_same in Hw by reflexivity. exact Hw.
  - cbn. intros t0 H0. apply filter_In in H0 as [H0 _]. auto.
Qed.

Lemma chg_setf_flag W s f x :
  fstate_ x = fstate_ (getf s f) -> fowner x = fowner (getf s f) -> fcbs x = fcbs (getf s f) ->
  chg W s (setf s f x).
Proof.
  intros E1 E2 E3. apply chg_setf; auto.
  - intros Hw. left. rewrite woken_setf_same in Hw by exact E1. exact Hw.
  - intros t. rewrite E3. auto.
  - intros Hd. now rewrite fdone_setf_same by exact E1.
Qed.

Lemma chg_fut_result W s f : chg W s (fst (fut_result s f)).
Proof.
  unfold fut_result. destruct (fstate_ (getf s f)); try apply chg_refl.
  destruct (fcexc (getf s f)); [|apply chg_refl]. cbn [fst]. apply chg_setf_flag; reflexivity.
Qed.

Lemma chg_await_fut W s f outer : chg W s (fst (await_fut s f outer)).
Proof.
  unfold await_fut. destruct (fdone s f).
  - pose proof (chg_fut_result W s f) as H. destruct (fut_result s f) as [s' r]. exact H.
  - cbn [fst]. apply chg_setf_flag; reflexivity.
Qed.

(* ---------------------------------------------------------------- under the invariant *)
Ltac bsett := apply chg_sett; [reflexivity|reflexivity|reflexivity|left; reflexivity].

Lemma benign_fut_finish s f x :
  Inv s -> (x = FCancelled \/ ~ lockfut s f) -> benign s (fst (fut_finish s f x)).
Proof.
  intros I H. apply chg_fut_finish; [apply (iE2 I)|].
  destruct x; auto; destruct H as [H|H]; try discriminate; exact H.
Qed.

Lemma kpy_inrange s t : tkind_ (gett s t) = KPy -> t < length (tasks s).
Proof.
  intros H. destruct (Nat.lt_ge_cases t (length (tasks s))); auto.
  rewrite gett_oob in H by auto. discriminate.
Qed.

Lemma benign_task_cancel fuel : forall s t, Inv s -> benign s (fst (task_cancel fuel s t)).
Proof.
  induction fuel as [|fuel IH]; intros s t I; cbn [task_cancel].
  - destruct (tdone s t); [apply benign_refl|].
    destruct (twaiter (gett s t)) as [f|]; [|cbn [fst]; bsett].
    destruct (fowner (getf s f)); [cbn [fst]; bsett|].
    pose proof (benign_fut_finish s f FCancelled I (or_introl eq_refl)) as B.
    destruct (fut_finish s f FCancelled) as [s' ok]. destruct ok; [exact B|cbn [fst]; bsett].
  - destruct (tdone s t); [apply benign_refl|].
    destruct (twaiter (gett s t)) as [f|]; [|cbn [fst]; bsett].
    destruct (fowner (getf s f)) as [t'|].
    + pose proof (IH s t' I) as B. destruct (task_cancel fuel s t') as [s' ok]. cbn [fst] in B.
      destruct ok; [exact B|]. cbn [fst]. eapply benign_trans; [exact B|]. bsett.
    + pose proof (benign_fut_finish s f FCancelled I (or_introl eq_refl)) as B.
      destruct (fut_finish s f FCancelled) as [s' ok]. destruct ok; [exact B|cbn [fst]; bsett].
Qed.

Lemma benign_cancel_task s t : Inv s -> benign s (fst (cancel_task s t)).
Proof. apply benign_task_cancel. Qed.

Lemma benign_cancel_awaitable s f : Inv s -> benign s (fst (cancel_awaitable s f)).
Proof.
  intros I. unfold cancel_awaitable. destruct (fowner (getf s f)).
  - now apply benign_cancel_task.
  - apply benign_fut_finish; auto.
Qed.

Lemma benign_task_reinsert s t p : benign s (fst (task_reinsert s t p)).
Proof.
  unfold task_reinsert. destruct (rq_find _ _ _) as [[h r]|]; apply chg_core_eq; reflexivity.
Qed.

Lemma benign_go s t e :
  t < length (tasks s) ->
  benign s (call_soon_ (sett s t (gett s t <| twaiter := None |>)) (HStep t (Some e))).
Proof.
  intros Ht. apply benign_trans with (s2 := sett s t (gett s t <| twaiter := None |>)); [bsett|].
  apply chg_call_soon. apply cb_ok_step.
  unfold sett. cbn. now rewrite set_nth_length.
Qed.

Lemma benign_task_throw s t e : benign s (fst (task_throw s t e)).
Proof.
  unfold task_throw. destruct (tdone s t); [apply benign_refl|].
  destruct (tkind_ (gett s t)) eqn:Ek; [apply benign_refl|].
  pose proof (kpy_inrange s t Ek) as Ht.
  destruct (twaiter (gett s t)) as [f|].
  - destruct (negb (fdone s f)).
    + cbn [fst]. eapply benign_trans; [apply chg_remove_done_callback|]. apply benign_go. exact Ht.
    + destruct (tmustc (gett s t) || fcancelled s f)%bool; [apply benign_refl|].
      destruct (rq_find (ready s) (task_key s t) true) as [[h r]|]; [|apply benign_refl].
      cbn [fst]. apply benign_trans with (s2 := s <| ready := r |>); [apply chg_core_eq; reflexivity|].
      apply benign_go. exact Ht.
  - destruct (tmustc (gett s t)); [apply benign_refl|].
    destruct (rq_find (ready s) (task_key s t) true) as [[h r]|]; [|apply benign_refl].
    cbn [fst]. apply benign_trans with (s2 := s <| ready := r |>); [apply chg_core_eq; reflexivity|].
      apply benign_go. exact Ht.
Qed.

Lemma benign_task_interrupt_start s t e : benign s (fst (task_interrupt_start s t e)).
Proof.
  unfold task_interrupt_start. pose proof (benign_task_throw s t e) as B.
  destruct (task_throw s t e) as [s1 r]. cbn [fst] in B. destruct r; [|exact B].
  pose proof (benign_task_reinsert s1 t 0) as B2. destruct (task_reinsert s1 t 0) as [s2 r2].
  cbn [fst] in B2. destruct r2; cbn [fst]; eapply benign_trans; eauto.
Qed.

Lemma benign_interruptor fuel : forall s b i, benign s (fst (interruptor fuel s b i)).
Proof.
  induction fuel as [|fuel IH]; intros s b i; cbn [interruptor]; [apply benign_refl|].
  destruct (Nat.leb 3 i); [apply benign_refl|].
  destruct (negb (bactive (getb s b))); [apply IH|].
  pose proof (benign_task_interrupt_start s (btask (getb s b)) (ETimeoutInt b)) as B.
  destruct (task_interrupt_start s (btask (getb s b)) (ETimeoutInt b)) as [s1 r]. cbn [fst] in B.
  destruct r as [[v|e]|y frs]; cbn [fst]; auto.
  - eapply benign_trans; [exact B|apply IH].
  - destruct e; auto. destruct (Nat.eqb i 2); exact B.
Qed.

Lemma interruptor_wrap_fst s r : fst (interruptor_wrap s r) = s.
Proof. unfold interruptor_wrap. destruct r as [[v|e]|]; auto. destruct (is_exception e); auto. Qed.
