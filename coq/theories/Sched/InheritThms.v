(* C11 / C12: the statements as they are exported to Props/C11.v and Props/C12.v. *)
From Coq Require Import QArith Lqa Sorting.Permutation.
From RecordUpdate Require Import RecordUpdate.
From Asynkit Require Import Base.Prelude Queue.PQ Queue.Order Queue.PosPQ Queue.PosProofs Queue.Exec
  Sched.Model Sched.Corr Sched.Tables Sched.QFacts Sched.LockInv Sched.LockOps Sched.LockLib
  Sched.LockProofs Sched.LockStatic Sched.LockThms Sched.InheritEprio Sched.InheritHandover
  Sched.InheritKeys Sched.InheritFalls Sched.InheritExamples.
Import RecordSetNotations.
Open Scope nat_scope.

(* ------------------------------------------------------------ C11 *)
Theorem C11_fuel_independent_thm s fuel t :
  ranked s -> efuel s <= fuel -> eprio fuel s t = effective_priority s t.
Proof. intros (rank & H1 & H2) Hf. now apply (eprio_fuel_enough s rank H1 H2). Qed.

Theorem C11_fixpoint_thm s t :
  ranked s -> min_of (effective_priority s t) (own s t :: map (wprio s) (waiters_of s t)).
Proof. intros (rank & H1 & H2). now apply (eprio_fixpoint s rank H1 H2). Qed.

Theorem C11_closed_form_thm s t :
  ranked s -> (forall u, is_prio_task s u = false -> tholding (gett s u) = []) ->
  (effective_priority s t <= own s t)%Q /\
  (forall w, waits_tr s w t -> (effective_priority s t <= own s w)%Q) /\
  (exists u, (u = t \/ waits_tr s u t) /\ effective_priority s t = own s u).
Proof.
  intros (rank & H1 & H2) Hp. split; [now apply (eprio_le_own s rank H1 H2)|]. split.
  - intros w Hw. now apply (eprio_lower_bound s rank H1 H2 Hp).
  - now apply (eprio_attained s rank H1 H2 Hp).
Qed.

Theorem C11_closed_form_reach s t :
  reachable s -> ranked s ->
  (effective_priority s t <= own s t)%Q /\
  (forall w, waits_tr s w t -> (effective_priority s t <= own s w)%Q) /\
  (exists u, (u = t \/ waits_tr s u t) /\ effective_priority s t = own s u).
Proof.
  intros Hr R. apply C11_closed_form_thm; auto. apply (iA4 (reachable_inv s Hr)).
Qed.

(* w is queued on lock l, owned by the PriorityTask h *)
Theorem C11_holder_thm s l w h :
  Inv s -> ranked s -> In w (lock_waiter_tasks (getl s l)) ->
  lowner (getl s l) = Some h -> is_prio_task s h = true ->
  (effective_priority s h <= effective_priority s w)%Q /\
  (forall x, waits_tr s h x -> (effective_priority s x <= effective_priority s w)%Q).
Proof.
  intros I (rank & H1 & H2) Hw Ho Hp.
  assert (W : waits_on s w h) by (exists l; split; [now apply (iA3 I)|exact Hw]).
  assert (E : (effective_priority s h <= effective_priority s w)%Q).
  { apply (holder_chain_le s rank H1 H2 (iA4 I)). now apply wt_one. }
  split; auto. intros x Hx.
  pose proof (holder_chain_le s rank H1 H2 (iA4 I) _ _ Hx). lra.
Qed.

Theorem C11_holder_reach s l w h :
  reachable s -> ranked s -> In w (lock_waiter_tasks (getl s l)) ->
  lowner (getl s l) = Some h -> is_prio_task s h = true ->
  (effective_priority s h <= effective_priority s w)%Q /\
  (forall x, waits_tr s h x -> (effective_priority s x <= effective_priority s w)%Q).
Proof. intros Hr. apply C11_holder_thm. now apply reachable_inv. Qed.

(* ------------------------------------------------------------ C12 *)
Theorem C12_heap_min_reach s l f :
  reachable s ->
  fstate_ (getf (wake_up_first_p s l) f) <> fstate_ (getf s f) ->
  exists head rest,
    arr (lpq (getl s l)) = head :: rest /\ f = Z.to_nat (eobj head) /\
    fstate_ (getf s f) = FPending /\
    fstate_ (getf (wake_up_first_p s l) f) = FResult 1 /\
    (forall e, In e rest -> entry_lt qltb head e = true) /\
    (forall g, In g (pq_objs (lpq (getl s l))) -> woken s g = false) /\
    (forall g, g <> f -> fstate_ (getf (wake_up_first_p s l) g) = fstate_ (getf s g)).
Proof. intros Hr. apply handover_is_heap_min. apply (iB1 (reachable_inv s Hr) l). Qed.

(* what propagate_priority does to the waiter queues, in one statement *)
Theorem C12_propagate_thm s t :
  Inv s -> lwt_ok s ->
  let s' := propagate_priority s t in
  (forall u, (effective_priority s' u == effective_priority s u)%Q) /\
  (forall l, lwt (getl s' l) = lwt (getl s l) /\
             Permutation (pq_objs (lpq (getl s' l))) (pq_objs (lpq (getl s l))) /\
             forall e', In e' (arr (lpq (getl s' l))) ->
               exists e, In e (arr (lpq (getl s l))) /\ eseq e' = eseq e /\ eobj e' = eobj e /\
                 ((epri e' == epri e)%Q \/
                  (epri e' == wprio s' (entry_task (getl s' l) e'))%Q)) /\
  (forall l, keyed s l -> keyed s' l) /\
  (forall n w l f, reaches s n t w -> n < efuel s -> blocked_on s w l f ->
     forall e, In e (arr (lpq (getl s' l))) -> Z.to_nat (eobj e) = f ->
               (epri e == effective_priority s' w)%Q).
Proof.
  intros I L s'. assert (W : allwf s) by (intros l; apply (iB1 I)).
  pose proof (rk_propagate_priority s t W L) as R. fold s' in R.
  split; [intros u; apply effective_priority_sim, rk_esim, R|]. split; [|split].
  - intros l. split; [apply (rk_lwt _ _ R)|]. split; [apply (rk_objs _ _ R)|].
    intros e' He'. destruct (rk_ent _ _ R l e' He') as (e & He & Sq & Ob & Ky).
    exists e. repeat split; auto. destruct Ky as [Ky|Ky]; [now left|right].
    rewrite Ky. rewrite (rk_entry_task s s' l e e' R Ob). symmetry.
    apply wprio_sim, rk_esim, R.
  - intros l. apply rk_keyed, R.
  - intros n w l f Hre Hn Hb. apply (propagate_rekeys_chain (efuel s) s t n w l f W L Hre Hn Hb).
Qed.

(* ------------------------------------------------------------ examples, repackaged *)
Theorem C11_example_thm :
  reachable istA /\ ranked istA /\
  map (own istA) [0; 1; 2; 3] = [0%Q; 5%Q; 3%Q; (-5)%Q] /\
  map (fun t => Qred (effective_priority istA t)) [0; 1; 2; 3] = [(-5)%Q; (-5)%Q; 3%Q; (-5)%Q] /\
  reachable istR /\ Qred (effective_priority istR 0) = 0%Q.
Proof.
  destruct istA_facts as (A & B & _ & _ & _ & _ & _ & _ & _ & _ & _ & C & D).
  destruct istA_handover as (_ & _ & _ & _ & _ & _ & E).
  exact (conj A (conj B (conj D (conj C (conj reachable_istR E))))).
Qed.
