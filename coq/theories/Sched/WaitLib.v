(* [WI] through every library call and every frame resumption of the model. *)
From Coq Require Import QArith Sorting.Permutation.
From RecordUpdate Require Import RecordUpdate.
From Asynkit Require Import Base.Prelude Queue.PQ Queue.Order Queue.ListFacts Queue.PQProofs Queue.PosPQ
  Queue.Exec Sched.Model Sched.Tables Sched.QFacts Sched.LockInv Sched.Footprint Sched.LockOps
  Sched.LockLib Sched.LockProofs Sched.WaitInv Sched.WaitOps.
Import RecordSetNotations.
Open Scope nat_scope.

(* ------------------------------------------------------------ condition queues *)
Lemma WIx_setc ne X R s c cd :
  WIx ne X R s -> clock cd = clock (getc s c) ->
  NoDup (pq_objs (cpq cd)) -> Forall (fun e => (0 <= eobj e)%Z) (arr (cpq cd)) -> NoDup (cdq cd) ->
  (forall f, In f (pq_objs (cpq cd)) \/ In f (cdq cd) ->
     (In f (pq_objs (cpq (getc s c))) \/ In f (cdq (getc s c))) \/
     (f < length (futs s) /\ fowner (getf s f) = None /\ clock (getc s c) < length (locks s))) ->
  WIx ne X R (setc s c cd).
Proof.
  intros W Ec Hn Hf Hd Hin. constructor.
  - exact (w_nodup W).
  - exact (w_objs W).
  - exact (w_range W).
  - exact (w_wait W).
  - exact (w_one W).
  - exact (w_frame W).
  - exact (w_row W).
  - exact (w_rt W).
  - exact (w_necont W).
  - exact (w_newait W).
  - exact (w_key W).
  - intros c0. rewrite getc_setc. destruct (Nat.eqb c c0 && Nat.ltb c (length (conds s)))%bool; [auto|apply (w_cq W)].
  - intros c0. rewrite getc_setc. destruct (Nat.eqb c c0 && Nat.ltb c (length (conds s)))%bool; [auto|apply (w_cd W)].
  - intros c0 f. rewrite getc_setc.
    destruct (Nat.eqb c c0 && Nat.ltb c (length (conds s)))%bool eqn:E; [|apply (w_cf W)].
    apply andb_prop in E as [E _]. apply Nat.eqb_eq in E. subst c0.
    intros H. rewrite Ec. destruct (Hin f H) as [H0|H0]; [apply (w_cf W c f H0)|exact H0].
  - intros t fr c0 Hh Ec0. pose proof (w_cw W t fr c0 Hh Ec0) as Hck. unfold cok in *.
    rewrite getc_setc. destruct (Nat.eqb c c0 && Nat.ltb c (length (conds s)))%bool eqn:E; [|exact Hck].
    apply andb_prop in E as [E _]. apply Nat.eqb_eq in E. subst c0. rewrite Ec. exact Hck.
Qed.

Lemma cond_qwf ne X R s c : Inv s -> WIx ne X R s -> qwf (cpq (getc s c)).
Proof. intros I W. split; [apply (iB2 I)|apply (w_cq W)]. Qed.

Lemma wk_notify_fold n lst : forall s a b,
  wk s (fst (fst (fold_left (fun '(s, taken, cnt) f =>
                 if Nat.leb n cnt then (s, taken, cnt)
                 else if fdone s f then (s, S taken, cnt)
                 else (fst (fut_finish s f (FResult 1)), S taken, S cnt)) lst (s, a, b)))).
Proof.
  induction lst as [|f lst IH]; intros s a b; simpl; [apply wk_refl|].
  destruct (Nat.leb n b); [apply IH|]. destruct (fdone s f); [apply IH|].
  eapply wk_trans; [apply wk_fut_finish|apply IH].
Qed.

Lemma notify_p_W ne X R s c n : Inv s -> WIx ne X R s -> WIx ne X R (notify_p s c n).
Proof.
  intros I W. unfold notify_p.
  set (order := map (fun e => Z.to_nat (eobj e)) (arr (pq_sort HQ (cpq (getc s c))))).
  pose proof (wk_notify_fold n order s 0 0) as K.
  destruct (fold_left _ order (s, 0, 0)) as [[s1 taken] cnt]. cbn [fst] in K.
  pose proof (WI_wk _ _ _ _ _ K W) as W1.
  destruct (k_cond K c) as (Eq & Ed & Ec).
  set (m := if Nat.leb n 0 then 0 else taken).
  destruct (pq_ordered_take HQ (cpq (getc s c)) m) as [ys q'] eqn:Et. cbn [snd].
  destruct (ordered_take_spec HQ HQ_sw HQ_spec _ _ _ _ (iB2 I c) Et) as (_ & _ & Hp & _).
  destruct (w_cq W c) as [Hnd Hnn].
  apply WIx_setc; auto; cbn.
  - eapply Permutation_NoDup; [apply Permutation_sym, objs_of_perm, Hp|exact Hnd].
  - eapply Permutation_Forall; [apply Permutation_sym, Hp|exact Hnn].
  - rewrite Ed. apply (w_cd W).
  - intros f [H|H]; left; [left|right].
    + rewrite Eq. eapply Permutation_in; [apply objs_of_perm, Hp|exact H].
    + exact H.
Qed.

Lemma wk_notify_i s c n : wk s (notify_i s c n).
Proof.
  unfold notify_i.
  assert (H : forall lst s0 cnt,
    wk s0 (fst (fold_left (fun '(s, cnt) f =>
                    if Nat.leb n cnt then (s, cnt)
                    else if fdone s f then (s, cnt)
                    else (fst (fut_finish s f (FResult 0)), S cnt)) lst (s0, cnt)))).
  { induction lst as [|f lst IH]; intros s0 cnt; simpl; [apply wk_refl|].
    destruct (Nat.leb n cnt); [apply IH|]. destruct (fdone s0 f); [apply IH|].
    eapply wk_trans; [apply wk_fut_finish|apply IH]. }
  apply H.
Qed.

Lemma cond_p_after_W ne X R s c r : Inv s -> WIx ne X R s -> WIx ne X R (fst (cond_p_after s c r)).
Proof. intros I W. unfold cond_p_after. destruct r; [exact W|]. cbn [fst]. now apply notify_p_W. Qed.

Lemma wk_event_fold lst : forall s,
  wk s (fold_left (fun s f => if fdone s f then s else fst (fut_finish s f (FResult 1))) lst s).
Proof.
  induction lst as [|f lst IH]; intros s; simpl; [apply wk_refl|].
  eapply wk_trans; [|apply IH]. destruct (fdone s f); [apply wk_refl|apply wk_fut_finish].
Qed.

(* ------------------------------------------------------------ acquire *)
Definition push (r : lres) (P : list frame) : list frame :=
  match r with LSusp _ frs => frs ++ P | LDone _ => P end.

Lemma acq_frames_app (frs P : list frame) :
  (forall l f had, ~ In (InAcquireP l f had) frs) ->
  forall l f had, In (InAcquireP l f had) (frs ++ P) <-> In (InAcquireP l f had) P.
Proof. intros H l f had. rewrite in_app_iff. split; [intros [A|A]; [destruct (H _ _ _ A)|auto]|auto]. Qed.

(* frames that may be pushed on the runner's stack without further obligations *)
Definition calm (fr : frame) : bool :=
  match fr with InAcquireP _ _ _ | InCondWaitP _ _ | InCondWaitI _ _ => false | _ => true end.
Definition noacqp (frs : list frame) : Prop :=
  (forall l f had, ~ In (InAcquireP l f had) frs) /\ (forall fr c, cwait fr = Some c -> ~ In fr frs).
(* ... or whose conditions have an existing lock *)
Definition pushok (s : st) (frs : list frame) : Prop :=
  (forall l f had, ~ In (InAcquireP l f had) frs) /\
  (forall fr c, cwait fr = Some c -> In fr frs -> cok s c).

Lemma inert_noacqp frs : Forall (fun fr => calm fr = true) frs -> noacqp frs.
Proof.
  intros H. rewrite Forall_forall in H. split.
  - intros l f had Hin. specialize (H _ Hin). discriminate.
  - intros fr c Ec Hin. specialize (H _ Hin). destruct fr; simpl in *; discriminate.
Qed.
Lemma noacqp_pushok s frs : noacqp frs -> pushok s frs.
Proof. intros [A B]. split; auto. intros fr c Ec Hin. destruct (B fr c Ec Hin). Qed.

Lemma WI_push ne X t frs P s :
  pushok s frs -> t < length (tasks s) -> WIx ne X (t, P) s -> WIx ne X (t, frs ++ P) s.
Proof.
  intros [Ha Hc] Ht W.
  assert (H1 : forall t0 l f had, hasfr s (t, frs ++ P) t0 (InAcquireP l f had) <->
                                 hasfr s (t, P) t0 (InAcquireP l f had)).
  { intros t0 l f had. unfold hasfr. simpl. rewrite in_app_iff. split; [|tauto].
    intros [H|[E [H|H]]]; auto. destruct (Ha _ _ _ H). }
  constructor.
  - apply (w_nodup W).
  - apply (w_objs W).
  - apply (w_range W).
  - apply (w_wait W).
  - apply (w_one W).
  - intros t0 l f had Hh. apply H1 in Hh. apply (w_frame W _ _ _ _ Hh).
  - intros l f u Hin. destruct (w_row W l f u Hin) as (t0 & had & Hh). exists t0, had. now apply H1.
  - intros _. exact Ht.
  - apply (w_necont W).
  - apply (w_newait W).
  - apply (w_key W).
  - apply (w_cq W).
  - apply (w_cd W).
  - apply (w_cf W).
  - intros t0 fr c [Hh|[E Hh]] Ec; [apply (w_cw W t0 fr c (or_introl Hh) Ec)|]. simpl in E, Hh.
    apply in_app_or in Hh as [Hh|Hh]; [eapply Hc; eauto|].
    apply (w_cw W t0 fr c); [right; simpl; split; auto|exact Ec].
Qed.

Lemma WI_push_inert ne X t frs P s :
  noacqp frs -> t < length (tasks s) -> WIx ne X (t, P) s -> WIx ne X (t, frs ++ P) s.
Proof. intros H. apply WI_push. now apply noacqp_pushok. Qed.

Theorem acquire_start_W ne s t l P :
  Inv s -> t < length (tasks s) -> WI ne (t, P) s ->
  WI ne (t, push (snd (acquire_start s t l)) P) (fst (acquire_start s t l)).
Proof.
  intros I Ht W. unfold acquire_start. destruct (lkind_ (getl s l)) eqn:Ek.
  - now apply acquire_p_start_W.
  - pose proof (wk_acquire_a_start s l) as K. pose proof (WI_wk _ _ _ _ _ K W) as W1.
    assert (Ht1 : t < length (tasks (fst (acquire_a_start s l)))) by (pose proof (k_ntasks K); lia).
    revert W1 Ht1. unfold acquire_a_start. destruct (_ && _)%bool; cbn [fst snd push]; auto.
    change (new_future s None) with (fst (new_future s None), length (futs s)). cbv beta iota. cbn [fst snd push].
    intros W1 Ht1. apply (WI_push_inert ne _ t [InFut _; InAcquireA l _]); auto.
    apply inert_noacqp. repeat constructor.
Qed.

Lemma reacquire_W ne s t c pc err body P :
  Inv s -> t < length (tasks s) -> WI ne (t, P) s ->
  WI ne (t, push (snd (reacquire s t c pc err body)) P) (fst (reacquire s t c pc err body)).
Proof.
  intros I Ht W. unfold reacquire.
  pose proof (acquire_start_W ne s t (clock (getc s c)) P I Ht W) as W1.
  destruct (acquire_start_ext s t (clock (getc s c)) I Ht) as [E _].
  destruct (acquire_start s t (clock (getc s c))) as [s1 r]. cbn [fst snd] in *.
  destruct r as [[v|e]|y frs]; cbn [fst snd push] in *; auto.
  eapply WI_frames; [| | |exact W1].
  - intros l f had. rewrite <- app_assoc, !in_app_iff. simpl.
    split; intros [H|H]; auto. destruct H as [[H|[]]|H]; auto. destruct pc; discriminate.
  - intros fr c0 Ec. rewrite <- app_assoc, !in_app_iff. simpl.
    intros [H|[[H|[]]|H]]; auto. rewrite <- H in Ec. destruct pc; discriminate.
  - intros _. pose proof (ext_tasks _ _ E). lia.
Qed.

Lemma reacq_after_W ne s t c err body P :
  Inv s -> t < length (tasks s) -> WI ne (t, P) s ->
  WI ne (t, push (snd (reacq_after s t c err body)) P) (fst (reacq_after s t c err body)).
Proof.
  intros I Ht W. unfold reacq_after.
  pose proof (reacquire_W ne s t c true err body P I Ht W) as W1.
  destruct (reacquire_ext s t c true err body I Ht) as [E _].
  destruct (reacquire s t c true err body) as [s1 r]. cbn [fst snd] in *.
  destruct r as [rep|y frs]; [|exact W1].
  pose proof (cond_p_after_W ne _ _ s1 c rep (ext_inv _ _ E) W1) as W2.
  destruct (cond_p_after s1 c rep) as [s2 rep']. exact W2.
Qed.

(* ------------------------------------------------------------ lib_call *)
Lemma interruptor_calm fuel : forall s b i y frs,
  snd (interruptor fuel s b i) = LSusp y frs -> Forall (fun fr => calm fr = true) frs.
Proof.
  induction fuel as [|fuel IH]; intros s b i y frs; cbn [interruptor]; [discriminate|].
  destruct (Nat.leb 3 i); [discriminate|].
  destruct (negb (bactive (getb s b))); [apply IH|].
  unfold task_interrupt_start.
  destruct (task_throw s (btask (getb s b)) (ETimeoutInt b)) as [s1 r]. destruct r as [v|e].
  - destruct (task_reinsert s1 (btask (getb s b)) 0) as [s2 r2]. destruct r2 as [v2|e2]; cbn [snd].
    + intros H. inversion H; subst. repeat constructor.
    + destruct e2; try discriminate. destruct (Nat.eqb i 2); [discriminate|].
      intros H. inversion H; subst. repeat constructor.
  - cbn [snd]. destruct e; try discriminate. destruct (Nat.eqb i 2); [discriminate|].
    intros H. inversion H; subst. repeat constructor.
Qed.

Lemma task_interrupt_start_calm s t e y frs :
  snd (task_interrupt_start s t e) = LSusp y frs -> Forall (fun fr => calm fr = true) frs.
Proof.
  unfold task_interrupt_start. destruct (task_throw s t e) as [s1 r]. destruct r; [|discriminate].
  destruct (task_reinsert s1 t 0) as [s2 r2]. destruct r2; [|discriminate]. cbn.
  intros H. inversion H; subst. repeat constructor.
Qed.

Ltac nf_tac :=
  let y := fresh "y" in let frs := fresh "frs" in let Hy := fresh "Hy" in
  intros y frs Hy; try discriminate; inversion Hy; subst; try apply noacqp_pushok; apply inert_noacqp; repeat constructor.

Lemma fin_wk ne R s s' (r : lres) :
  WI ne R s -> wk s s' -> (forall y frs, r = LSusp y frs -> noacqp frs) ->
  WI ne R s' /\ (forall y frs, r = LSusp y frs -> pushok s' frs).
Proof.
  intros W K H. split; [eapply WI_wk; eauto|]. intros y frs Hy. apply noacqp_pushok. eauto.
Qed.

Lemma cok_setc s c cd c0 : clock cd = clock (getc s c) -> cok s c0 -> cok (setc s c cd) c0.
Proof.
  intros Ec Hck. unfold cok in *. rewrite getc_setc.
  destruct (Nat.eqb c c0 && Nat.ltb c (length (conds s)))%bool eqn:E; [|exact Hck].
  apply andb_prop in E as [E _]. apply Nat.eqb_eq in E. subst c0. rewrite Ec. exact Hck.
Qed.

Lemma pushok_wait s c f fr :
  cwait fr = Some c -> cok s c -> pushok s [InFut f; fr].
Proof.
  intros Ec Hck. split.
  - intros l0 f0 h0 [H|[H|[]]]; [discriminate|]. subst fr. discriminate.
  - intros fr0 c0 Ec0 [H|[H|[]]]; subst fr0; [discriminate|]. congruence.
Qed.

(* the calls that change the held locks or the priority of the calling task *)
Definition touches_own (op : libop) : bool :=
  match op with ORelease _ | OCondWait _ | OSetPrio _ => true | _ => false end.

Theorem lib_call_core ne t op s R :
  Inv s -> op_safe s op -> needs_task op = false ->
  (ne = true -> touches_own op = true -> forall l f, ~ In (f, t) (rows s l)) -> WI ne R s ->
  WI ne R (fst (lib_call t op s)) /\
  (forall y frs, snd (lib_call t op s) = LSusp y frs -> pushok (fst (lib_call t op s)) frs).
Proof.
  intros I Hs Hn Hnr W. destruct op; cbn [lib_call]; try discriminate Hn.
  - (* OLog *) apply (fin_wk _ _ s); auto; [apply wk_core; reflexivity|nf_tac].
  - (* OSleep0 *) apply (fin_wk _ _ s); auto; [apply wk_refl|nf_tac].
  - (* OSleep *)
    change (new_future s None) with (fst (new_future s None), length (futs s)). cbv beta iota.
    set (s1 := fst (new_future s None)).
    pose proof (wk_call_at s1 (Qplus (now s1) d) (HSetResult (length (futs s)) 0)) as K2.
    destruct (call_at s1 (Qplus (now s1) d) (HSetResult (length (futs s)) 0)) as [s2 h]. cbn [fst snd] in *.
    apply (fin_wk _ _ s); auto; [|nf_tac].
    eapply wk_trans; [apply wk_new_future|]. eapply wk_trans; [exact K2|apply wk_setf_flag; reflexivity].
  - (* ONewFut *) cbn [fst snd]. apply (fin_wk _ _ s); auto; [apply wk_new_future|nf_tac].
  - (* OAwaitFut *)
    pose proof (wk_await_fut s f []) as K. unfold await_fut in *. destruct (fdone s f).
    + destruct (fut_result s f) as [s' r]. cbn [fst snd] in *. apply (fin_wk _ _ s); auto. nf_tac.
    + cbn [fst snd] in *. apply (fin_wk _ _ s); auto. nf_tac.
  - (* OAwaitTask *)
    pose proof (wk_await_fut s (tfut (gett s t0)) []) as K. unfold await_fut in *.
    destruct (fdone s (tfut (gett s t0))).
    + destruct (fut_result s _) as [s' r]. cbn [fst snd] in *. apply (fin_wk _ _ s); auto. nf_tac.
    + cbn [fst snd] in *. apply (fin_wk _ _ s); auto. nf_tac.
  - (* OSetResult *)
    pose proof (wk_fut_finish s f (FResult v)) as K.
    destruct (fut_finish s f (FResult v)) as [s' ok]. cbn [fst snd] in *. apply (fin_wk _ _ s); auto. nf_tac.
  - (* OSetExc *)
    pose proof (wk_fut_finish s f (FExc e)) as K.
    destruct (fut_finish s f (FExc e)) as [s' ok]. cbn [fst snd] in *. apply (fin_wk _ _ s); auto. nf_tac.
  - (* OFutCancel *)
    pose proof (wk_fut_finish s f FCancelled) as K.
    destruct (fut_finish s f FCancelled) as [s' ok]. cbn [fst snd] in *. apply (fin_wk _ _ s); auto. nf_tac.
  - (* OCancel *)
    pose proof (wk_cancel_task s t0) as K.
    destruct (cancel_task s t0) as [s' ok]. cbn [fst snd] in *. apply (fin_wk _ _ s); auto. nf_tac.
  - (* OEventWait *)
    destruct (evalue (gete s e)); [apply (fin_wk _ _ s); auto; [apply wk_refl|nf_tac]|].
    change (new_future s None) with (fst (new_future s None), length (futs s)). cbv beta iota.
    cbn [fst snd]. apply (fin_wk _ _ s); auto; [|nf_tac].
    eapply wk_trans; [apply wk_new_future|]. eapply wk_trans; [|apply wk_setf_flag; reflexivity].
    apply wk_core; reflexivity.
  - (* OEventSet *)
    destruct (evalue (gete s e)); [apply (fin_wk _ _ s); auto; [apply wk_refl|nf_tac]|].
    cbn [fst snd]. apply (fin_wk _ _ s); auto; [|nf_tac].
    eapply wk_trans; [|apply wk_event_fold]. apply wk_core; reflexivity.
  - (* OEventClear *) cbn [fst snd]. apply (fin_wk _ _ s); auto; [apply wk_core; reflexivity|nf_tac].
  - (* ORelease *)
    pose proof (release_W ne _ R s t l (fun E => Hnr E eq_refl) W) as W1. destruct (release s t l) as [s' r]. cbn [fst snd] in *.
    split; [exact W1|nf_tac].
  - (* OCondWait *)
    destruct (negb (cond_locked s c)) eqn:Elk; [apply (fin_wk _ _ s); auto; [apply wk_refl|nf_tac]|].
    apply negb_false_iff in Elk. unfold cond_locked in Elk. pose proof (llocked_inrange _ _ Elk) as Hcl.
    destruct (ckind_ (getc s c)).
    + change (new_future s None) with (fst (new_future s None), length (futs s)). cbv beta iota.
      set (f := length (futs s)). set (s1 := fst (new_future s None)).
      assert (B1 : benign s s1) by apply chg_new_future.
      pose proof (Inv_benign s s1 B1 I) as I1.
      assert (W1 : WI ne R s1) by (eapply WI_wk; [apply wk_new_future|exact W]).
      pose proof (release_W ne _ R s1 t (clock (getc s c)) (fun E => Hnr E eq_refl) W1) as W2.
      destruct (release_aux s1 t (clock (getc s c))) as [Hnl2 Hfo2].
      destruct (release_facts s1 t (clock (getc s c)) I1) as (E2 & Hf2 & _ & _ & Hc2).
      destruct (release s1 t (clock (getc s c))) as [s2 rr]. cbn [fst snd] in *.
      assert (Eg : getc s2 c = getc s c) by (unfold getc; now rewrite Hc2).
      destruct rr as [v|e].
      * assert (Hck2 : cok s2 c) by (unfold cok; rewrite Eg, Hnl2; exact Hcl).
        cbn [fst snd]. split.
        2:{ intros y0 frs0 Hy. inversion Hy; subst. apply (pushok_wait _ c); [reflexivity|].
            match goal with |- cok (setf ?S _ _) _ => change (cok S c) end.
            apply cok_setc; [reflexivity|exact Hck2]. }
        eapply WI_wk; [apply wk_setf_flag; reflexivity|].
        assert (Hfresh : ~ In f (pq_objs (cpq (getc s2 c)))).
        { rewrite Eg. intros H. destruct (w_cf W c f (or_introl H)) as (Hr & _). unfold f in Hr. lia. }
        destruct (qwf_add _ (if is_prio_task s t then effective_priority s t else 0%Q) f
                    (cond_qwf _ _ _ _ c (ext_inv _ _ E2) W2) Hfresh) as (_ & Hnd & Hnn).
        apply WIx_setc; auto; cbn.
        -- apply (w_cd W2).
        -- intros g [H|H]; [|left; now right]. apply pq_add_in in H as [->|H]; [right|left; now left].
           split; [rewrite Hf2; unfold s1; rewrite new_future_len; unfold f; lia|]. split.
           ++ rewrite Hfo2 by (unfold s1; rewrite new_future_len; unfold f; lia).
              unfold s1, f. now rewrite new_future_get.
           ++ rewrite Eg, Hnl2. exact Hcl.
      * pose proof (cond_p_after_W ne _ _ s2 c (RExc e) (ext_inv _ _ E2) W2) as W3.
        destruct (cond_p_after s2 c (RExc e)) as [s3 r3]. cbn [fst snd] in *. split; [exact W3|intros; discriminate].
    + pose proof (release_W ne _ R s t (clock (getc s c)) (fun E => Hnr E eq_refl) W) as W1.
      destruct (release_aux s t (clock (getc s c))) as [Hnl1 _].
      destruct (release_facts s t (clock (getc s c)) I) as (E1 & _ & _ & _ & Hc1).
      destruct (release s t (clock (getc s c))) as [s1 rr]. cbn [fst snd] in *.
      destruct rr as [v|e]; [|cbn [fst snd]; split; [exact W1|intros; discriminate]].
      change (new_future s1 None) with (fst (new_future s1 None), length (futs s1)). cbv beta iota.
      set (f := length (futs s1)). set (s2 := fst (new_future s1 None)).
      pose proof (WI_wk _ _ _ _ _ (wk_new_future s1 None) W1) as W2. fold s2 in W2.
      assert (Ec : clock (getc s1 c) = clock (getc s c)) by (unfold getc; now rewrite Hc1).
      assert (Hck2 : cok s2 c).
      { unfold cok. change (getc s2 c) with (getc s1 c). change (locks s2) with (locks s1).
        rewrite Ec, Hnl1. exact Hcl. }
      cbn [fst snd]. split.
      2:{ intros y0 frs0 Hy. inversion Hy; subst. apply (pushok_wait _ c); [reflexivity|].
          match goal with |- cok (setf ?S _ _) _ => change (cok S c) end.
          apply cok_setc; [reflexivity|exact Hck2]. }
      eapply WI_wk; [apply wk_setf_flag; reflexivity|].
      assert (Hc2 : getc s2 c = getc s1 c) by reflexivity.
      assert (Hl2 : locks s2 = locks s1) by reflexivity.
      assert (Hlen2 : length (futs s2) = S (length (futs s1))) by apply new_future_len.
      assert (Hget2 : getf s2 f = mkFut FPending [] false None None) by apply new_future_get.
      clearbody s2.
      assert (Hfresh : ~ In f (cdq (getc s2 c))).
      { rewrite Hc2. intros H. destruct (w_cf W1 c f (or_intror H)) as (Hr & _). unfold f in Hr. lia. }
      apply WIx_setc; auto; cbn.
      * apply (w_cq W2).
      * apply (w_cq W2).
      * apply NoDup_app_snoc; [apply (w_cd W2)|exact Hfresh].
      * intros g [H|H]; [left; now left|]. apply in_app_or in H as [H|[<-|[]]]; [left; now right|right].
        split; [rewrite Hlen2; unfold f; lia|]. split.
        -- now rewrite Hget2.
        -- rewrite Hc2, Hl2, Ec, Hnl1. exact Hcl.
  - (* OCondNotify *)
    destruct (negb (cond_locked s c)); [apply (fin_wk _ _ s); auto; [apply wk_refl|nf_tac]|].
    cbn [fst snd]. split; [|nf_tac].
    destruct (ckind_ (getc s c)); [now apply notify_p_W|eapply WI_wk; [apply wk_notify_i|exact W]].
  - (* OCondNotifyAll *)
    destruct (negb (cond_locked s c)); [apply (fin_wk _ _ s); auto; [apply wk_refl|nf_tac]|].
    cbn [fst snd]. split; [|nf_tac].
    destruct (ckind_ (getc s c)); [now apply notify_p_W|eapply WI_wk; [apply wk_notify_i|exact W]].
  - (* OSleepInsert *) cbn [fst snd]. apply (fin_wk _ _ s); auto; [apply wk_call_pos|nf_tac].
  - (* OTaskSwitch *)
    pose proof (wk_task_reinsert s t0 0) as K. destruct (task_reinsert s t0 0) as [s1 r]. cbn [fst] in K.
    destruct r as [v|e]; [|apply (fin_wk _ _ s); auto; nf_tac].
    destruct p as [p|]; cbn [fst snd].
    + apply (fin_wk _ _ s); auto; [|nf_tac]. eapply wk_trans; [exact K|apply wk_call_pos].
    + apply (fin_wk _ _ s); auto. nf_tac.
  - (* OTaskReinsert *)
    pose proof (wk_task_reinsert s t0 p) as K. destruct (task_reinsert s t0 p) as [s1 r]. cbn [fst snd] in *.
    apply (fin_wk _ _ s); auto. nf_tac.
  - (* OCallSoon *) cbn [fst snd]. apply (fin_wk _ _ s); auto; [apply wk_call_soon|nf_tac].
  - (* OCallPos *) cbn [fst snd]. apply (fin_wk _ _ s); auto; [apply wk_call_pos|nf_tac].
  - (* OTaskThrow *)
    pose proof (wk_task_throw s t0 e) as K. destruct (task_throw s t0 e) as [s1 r]. cbn [fst snd] in *.
    apply (fin_wk _ _ s); auto. nf_tac.
  - (* OTaskInterrupt *)
    apply (fin_wk _ _ s); auto; [apply wk_task_interrupt_start|].
    intros y frs Hy. apply inert_noacqp. eapply task_interrupt_start_calm; eauto.
  - (* OTimeoutEnter *)
    destruct d as [d|]; [|apply (fin_wk _ _ s); auto; [apply wk_refl|nf_tac]].
    pose proof (wk_call_at s (Qplus (now s) d) (HTrigger (length (blocks s)))) as K.
    destruct (call_at s (Qplus (now s) d) (HTrigger (length (blocks s)))) as [s1 h]. cbn [fst snd] in *.
    apply (fin_wk _ _ s); auto; [|nf_tac]. eapply wk_trans; [exact K|apply wk_core; reflexivity].
  - (* OTimeoutExit *)
    cbn [fst snd]. apply (fin_wk _ _ s); auto; [|nf_tac].
    eapply wk_trans; [|apply wk_cancel_handle]. apply wk_core; reflexivity.
  - (* OInterruptor *)
    pose proof (wk_interruptor 4 s b 0) as K. pose proof (interruptor_calm 4 s b 0) as Hi.
    destruct (interruptor 4 s b 0) as [s1 r]. cbn [fst snd] in *.
    pose proof (interruptor_wrap_fst s1 r) as E. pose proof (interruptor_wrap_snd s1 r) as E2.
    destruct (interruptor_wrap s1 r) as [s2 r2]. cbn [fst snd] in *. subst s2.
    apply (fin_wk _ _ s); auto. intros y frs Hy. apply inert_noacqp. eapply Hi. eapply E2. exact Hy.
  - (* OSetPrio *)
    destruct (is_prio_task s t) eqn:Ep; cbn [fst snd]; [|apply (fin_wk _ _ s); auto; [apply wk_refl|nf_tac]].
    split; [|nf_tac]. apply WIx_sett_own; auto.
  - (* OSelf *) apply (fin_wk _ _ s); auto; [apply wk_refl|nf_tac].
  - (* OQuery *) cbn [fst snd]. apply (fin_wk _ _ s); auto; [|nf_tac].
    unfold queue_iterated. destruct (ready (addlog s (query_code s))); apply wk_core; reflexivity.
  - (* OCallSoonQuery *) cbn [fst snd]. apply (fin_wk _ _ s); auto; [apply wk_call_soon|nf_tac].
  - (* OCallSoonCancel *) cbn [fst snd]. apply (fin_wk _ _ s); auto; [apply wk_call_soon|nf_tac].
  - (* OCancelAw *)
    pose proof (wk_cancel_awaitable s f) as K.
    destruct (cancel_awaitable s f) as [s' ok]. cbn [fst snd] in *. apply (fin_wk _ _ s); auto. nf_tac.
Qed.

Theorem lib_call_W ne t op s P :
  Inv s -> op_safe s op -> t < length (tasks s) ->
  (ne = true -> forall l f, ~ In (f, t) (rows s l)) -> WI ne (t, P) s ->
  WI ne (t, push (snd (lib_call t op s)) P) (fst (lib_call t op s)).
Proof.
  intros I Hs Ht Hnr W. destruct (needs_task op) eqn:En.
  - destruct op; try discriminate En. cbn [lib_call]. now apply acquire_start_W.
  - destruct (lib_call_core ne t op s (t, P) I Hs En (fun E _ => Hnr E) W) as [W1 Hf].
    destruct (lib_call_ext t op s I Hs (fun _ => Ht)) as [E _].
    destruct (lib_call t op s) as [s1 r]. cbn [fst snd] in *.
    destruct r as [rep|y frs]; cbn [push]; [exact W1|].
    apply WI_push; auto; [eapply Hf; eauto|pose proof (ext_tasks _ _ E); lia].
Qed.

(* ------------------------------------------------------------ frame_resume *)
Theorem frame_resume_W ne t fr inp s rest :
  Inv s -> t < length (tasks s) -> frame_ok s fr ->
  WI ne (t, rest) s ->
  WI ne (t, push (snd (frame_resume t fr inp s)) rest) (fst (frame_resume t fr inp s)).
Proof.
  intros I Ht Hok W. destruct fr; cbn [frame_resume].
  - (* InSleep0 *) exact W.
  - (* InFut *)
    destruct inp as [v|e]; [|exact W]. destruct (fdone s f); [|exact W].
    pose proof (wk_fut_result s f) as K. destruct (fut_result s f) as [s' r]. cbn [fst snd push] in *.
    eapply WI_wk; eauto.
  - (* InSleepTimer *) cbn [fst snd push]. eapply WI_wk; [apply wk_cancel_handle|exact W].
  - (* InEventWait *) cbn [fst snd push]. apply (WI_wk _ _ _ s); [apply wk_core; reflexivity|exact W].
  - (* InAcquireP *) destruct Hok.
  - (* InAcquireA *)
    pose proof (wk_acquire_a_finish s l f inp) as K.
    destruct (acquire_a_finish s l f inp) as [s' r]. cbn [fst snd push] in *. eapply WI_wk; eauto.
  - (* InCondWaitP *)
    set (s1 := match pq_remove HQ (cpq (getc s c)) (Z.of_nat f) with
               | Some (_, q') => setc s c (getc s c <| cpq := q' |>) | None => s end).
    assert (B1 : benign s s1).
    { unfold s1. destruct (pq_remove HQ (cpq (getc s c)) (Z.of_nat f)) as [[p q']|] eqn:Er; [|apply benign_refl].
      apply chg_setc.
      - intros g Hg. cbn in Hg. left. eapply pq_remove_in; eauto. apply (iB2 I).
      - intros g Hg. now left.
      - intros H. cbn. eapply pq_remove_perm; eauto. }
    assert (W1 : WI ne (t, rest) s1).
    { unfold s1. destruct (pq_remove HQ (cpq (getc s c)) (Z.of_nat f)) as [[p q']|] eqn:Er; [|exact W].
      destruct (qwf_remove _ _ _ _ (cond_qwf _ _ _ _ c I W) Er) as ((_ & Hnd & Hnn) & Hp & _).
      apply WIx_setc; auto; cbn.
      - apply (w_cd W).
      - intros g [H|H]; left; [left|now right].
        eapply Permutation_in; [apply Permutation_sym; exact Hp|now right]. }
    pose proof (Inv_benign s s1 B1 I) as I1.
    assert (Ht1 : t < length (tasks s1)) by (pose proof (benign_tasks s s1 B1); lia).
    pose proof (reacq_after_W ne s1 t c None (match inp with RVal _ => RVal 1 | RExc e => RExc e end) rest I1 Ht1 W1) as W2.
    unfold reacq_after in W2.
    destruct (reacquire s1 t c true None _) as [s2 r]. destruct r as [rep|y frs].
    + destruct (cond_p_after s2 c rep) as [s3 rep']. exact W2.
    + exact W2.
  - (* InReleasedP *)
    destruct inp as [v|e].
    + pose proof (cond_p_after_W ne _ _ s c (match err with Some e => RExc e | None => body end) I W) as W1.
      destruct (cond_p_after s c _) as [s1 rep]. exact W1.
    + destruct (is_cancel e).
      * pose proof (reacq_after_W ne s t c (Some e) body rest I Ht W) as W2. unfold reacq_after in W2.
        destruct (reacquire s t c true (Some e) body) as [s2 r]. destruct r as [rep|y frs].
        -- destruct (cond_p_after s2 c rep) as [s3 rep']. exact W2.
        -- exact W2.
      * pose proof (cond_p_after_W ne _ _ s c (RExc e) I W) as W1.
        destruct (cond_p_after s c (RExc e)) as [s1 rep]. exact W1.
  - (* InCondWaitI *)
    set (s1 := setc s c (getc s c <| cdq := filter (fun x => negb (Nat.eqb x f)) (cdq (getc s c)) |>)).
    assert (B1 : benign s s1).
    { apply chg_setc.
      - intros g Hg. now left.
      - intros g Hg. cbn in Hg. apply filter_In in Hg as [Hg _]. now left.
      - intros H. exact H. }
    assert (W1 : WI ne (t, rest) s1).
    { apply WIx_setc; auto; cbn.
      - apply (w_cq W).
      - apply (w_cq W).
      - apply NoDup_filter. apply (w_cd W).
      - intros g [H|H]; left; [now left|right]. apply filter_In in H as [H _]. exact H. }
    pose proof (Inv_benign s s1 B1 I) as I1.
    assert (Ht1 : t < length (tasks s1)) by (pose proof (benign_tasks s s1 B1); lia).
    apply reacquire_W; auto.
  - (* InReacquireI *)
    destruct inp as [v|e]; [exact W|]. destruct (is_cancel e); [apply reacquire_W; auto|exact W].
  - (* InIntr *)
    destruct inp as [v|e].
    + pose proof (wk_interruptor 4 s b (S i)) as K. pose proof (interruptor_calm 4 s b (S i)) as Hi.
      destruct (interruptor 4 s b (S i)) as [s1 r]. cbn [fst snd] in *.
      pose proof (interruptor_wrap_fst s1 r) as E. pose proof (interruptor_wrap_snd s1 r) as E2.
      destruct (interruptor_wrap s1 r) as [s2 r2]. cbn [fst snd] in *. subst s2.
      pose proof (WI_wk _ _ _ _ _ K W) as W1.
      destruct r2 as [rep|y frs]; cbn [push]; [exact W1|].
      apply WI_push_inert; auto; [apply inert_noacqp; eapply Hi; eapply E2; reflexivity|pose proof (k_ntasks K); lia].
    + destruct (Nat.eqb phase 0 && is_runtime (RExc e) && negb (Nat.eqb i 2))%bool.
      * pose proof (interruptor_wrap_fst s (LSusp YNone [InSleep0; InIntr b i 1])) as E'.
        pose proof (interruptor_wrap_snd s (LSusp YNone [InSleep0; InIntr b i 1])) as E2'.
        destruct (interruptor_wrap s (LSusp YNone [InSleep0; InIntr b i 1])) as [s2 r2].
        cbn [fst snd] in *. subst s2. destruct r2 as [rep|y frs]; cbn [push]; [exact W|].
        specialize (E2' _ _ eq_refl). inversion E2'; subst.
        apply WI_push_inert; auto. apply inert_noacqp. repeat constructor.
      * pose proof (interruptor_wrap_fst s (LDone (RExc e))) as E'.
        pose proof (interruptor_wrap_snd s (LDone (RExc e))) as E2'.
        destruct (interruptor_wrap s (LDone (RExc e))) as [s2 r2].
        cbn [fst snd] in *. subst s2. destruct r2 as [rep|y frs]; cbn [push]; [exact W|].
        specialize (E2' _ _ eq_refl). discriminate.
Qed.

(* ------------------------------------------------------------ resume_stack *)
Lemma WI_drop ne X t fr rest s : is_acq fr = false -> WIx ne X (t, fr :: rest) s -> WIx ne X (t, rest) s.
Proof.
  intros Ha W. eapply WI_frames; [| | |exact W].
  - intros l f had. simpl. split; auto. intros [H|H]; auto. subst fr. discriminate.
  - intros fr0 c _ H. now right.
  - intros _. apply (w_rt W). simpl. discriminate.
Qed.

Lemma resume_noacq_W ne frs : forall t inp s,
  Inv s -> t < length (tasks s) -> no_acq frs ->
  (forall l f, In (InAcquireA l f) frs -> lkind_ (getl s l) = LPlain) ->
  WI ne (t, frs) s ->
  WI ne (t, push (snd (resume_stack t frs inp s)) []) (fst (resume_stack t frs inp s)).
Proof.
  induction frs as [|fr rest IH]; intros t inp s I Ht Hn Hk W; cbn [resume_stack].
  - exact W.
  - assert (Hok : frame_ok s fr).
    { pose proof (Hn fr (or_introl eq_refl)) as Ha. destruct fr; simpl in *; auto; try discriminate.
      apply (Hk l f). now left. }
    pose proof (WI_drop _ _ _ _ _ _ (Hn fr (or_introl eq_refl)) W) as W0.
    pose proof (frame_resume_W ne t fr inp s rest I Ht Hok W0) as W1.
    destruct (frame_resume_ext t fr inp s I Ht Hok) as [E _].
    destruct (frame_resume t fr inp s) as [s1 r]. cbn [fst snd] in *.
    destruct E as (I1 & Hlen & Hkind & _).
    destruct r as [rep|y frs1]; cbn [push] in *.
    + apply IH; auto; [lia|apply (no_acq_tail fr rest Hn)|].
      intros l f Hin. rewrite Hkind. apply (Hk l f). now right.
    + cbn [fst snd push]. rewrite app_nil_r. exact W1.
Qed.

Theorem resume_stack_W ne frs t inp s :
  Inv s -> t < length (tasks s) -> pend s frs -> WI ne (t, frs) s ->
  WI ne (t, push (snd (resume_stack t frs inp s)) []) (fst (resume_stack t frs inp s)).
Proof.
  intros I Ht (Hs & Ha & Hk) W. destruct Hs as [Hn|(l & f & had & rest & -> & Hn)].
  - now apply resume_noacq_W.
  - cbn [resume_stack].
    destruct (infut_step t f inp s) as (rep & Er & B & Hw & Hfr).
    assert (K : wk s (fst (frame_resume t (InFut f) inp s))).
    { cbn [frame_resume]. destruct inp as [v|e]; [|apply wk_refl]. destruct (fdone s f); [|apply wk_refl].
      pose proof (wk_fut_result s f) as K. destruct (fut_result s f) as [s' r]. exact K. }
    destruct (frame_resume t (InFut f) inp s) as [s1 r]. cbn [fst snd] in *. subst r.
    pose proof (Inv_benign s s1 B I) as I1.
    assert (Ht1 : t < length (tasks s1)) by (pose proof (benign_tasks s s1 B); lia).
    destruct (Ha l f had (or_intror (or_introl eq_refl))) as [Hf Hnf].
    assert (Hf1 : In f (objs s1 l)) by (now rewrite (benign_objs s s1 l B)).
    assert (Hnf1 : no_frame s1 f) by (intros t0 l0 had0; rewrite Hfr; apply Hnf).
    pose proof (WI_wk _ _ _ _ _ K W) as W1.
    pose proof (WI_drop ne _ t (InFut f) _ s1 eq_refl W1) as W1'.
    cbn [frame_resume].
    pose proof (acquire_p_finish_W ne s1 t l f had rep rest I1 Ht1 Hf1 Hnf1 Hn W1') as W2.
    destruct (lstep_acquire_p_finish s1 t l f had rep I1 Ht1 Hf1 Hnf1 Hw) as (L & _ & _).
    destruct (acquire_p_finish s1 t l f had rep) as [s2 r2]. cbn [fst snd] in *.
    pose proof (ls_inv L) as I2.
    assert (Ht2 : t < length (tasks s2)) by (rewrite (ls_ntasks L); exact Ht1).
    apply resume_noacq_W; auto.
    intros l0 f0 Hin. rewrite (ls_kind L), (benign_kind s s1 l0 B). apply (Hk l0 f0). right. now right.
Qed.
