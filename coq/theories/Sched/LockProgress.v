(* C13, third round: the liveness half on the FIFO (list) ready queue.
   In a quiet environment (only AStep actions) and while no positional scheduling
   operation is executed, the list ready queue is FIFO: a handle at position i is run by
   exactly the (i+1)-th step.  With the wake-up-in-flight invariant (LockLive) this gives:
   a free PriorityLock with waiters loses one of its queued entries within len(ready)
   steps - the in-flight waiter runs the code after `await fut` of acquire(), takes the
   lock or (cancelled / interrupted) leaves the queue and passes the wake-up on. *)
From Coq Require Import QArith Sorting.Permutation.
From RecordUpdate Require Import RecordUpdate.
From Asynkit Require Import Base.Prelude Queue.PQ Queue.Order Queue.PosPQ Queue.Exec Sched.Model
  Sched.Tables Sched.QFacts Sched.LockInv Sched.Footprint Sched.LockOps Sched.LockLib
  Sched.LockProofs Sched.LockStatic Sched.LockLive.
From Asynkit Require Sched.PartTables Sched.PartitionProofs Sched.PartitionSteps Sched.PartitionRun
  Sched.PartitionFinal.
Import RecordSetNotations.
Open Scope nat_scope.

(* ================================================================ 1. what a step keeps *)
(* [qrel c s s']: on the list queue the step only appends to the ready queue; the handle
   table only grows and keeps every callback (cancel only sets a flag); the future table
   only grows and done futures keep their state; the task table only grows, the stored
   continuation of every old task other than the running one [c] is untouched, and new
   tasks have no suspended frames *)
Record qrel (c : option nat) (s s' : st) : Prop := mkQ {
  q_r : forall q, ready s = RList q -> exists app, ready s' = RList (q ++ app);
  q_hl : length (handles s) <= length (handles s');
  q_hc : forall h, h < length (handles s) -> hcb (geth s' h) = hcb (geth s h);
  q_fl : length (futs s) <= length (futs s');
  q_fs : forall g, fstate_ (getf s g) <> FPending -> fstate_ (getf s' g) = fstate_ (getf s g);
  q_tl : length (tasks s) <= length (tasks s');
  q_tc : forall t, Some t <> c ->
           tcont_ (gett s' t) = tcont_ (gett s t) \/
           (length (tasks s) <= t /\ frames_of (tcont_ (gett s' t)) = []) }.

Lemma fs_fd s s' : (forall g, fstate_ (getf s g) <> FPending -> fstate_ (getf s' g) = fstate_ (getf s g)) ->
  forall g, fdone s g = true -> fdone s' g = true.
Proof.
  intros H g Hd. unfold fdone in *. rewrite H; auto. destruct (fstate_ (getf s g)); congruence.
Qed.

Lemma qrel_refl c s : qrel c s s.
Proof. constructor; auto. intros q E. exists []. now rewrite app_nil_r. Qed.


Lemma qrel_trans c s1 s2 s3 : qrel c s1 s2 -> qrel c s2 s3 -> qrel c s1 s3.
Proof.
  intros [A1 A2 A3 A4 A5 A6 A7] [B1 B2 B3 B4 B5 B6 B7]. constructor; try lia; auto.
  - intros q E. destruct (A1 q E) as [a1 E1]. destruct (B1 _ E1) as [a2 E2].
    exists (a1 ++ a2). now rewrite app_assoc.
  - intros h Hh. rewrite B3 by lia. now apply A3.
  - intros g Hg. rewrite B5; [now apply A5|]. now rewrite A5.
  - intros t Hc. destruct (B7 t Hc) as [E|[Hl E]].
    + destruct (A7 t Hc) as [E1|[Hl1 E1]]; [left; congruence|]. right. split; auto. now rewrite E.
    + right. split; [lia|exact E].
Qed.

Lemma qrel_eq' c s s' :
  (forall q, ready s = RList q -> ready s' = RList q) ->
  handles s' = handles s -> futs s' = futs s -> kproj s' = kproj s -> qrel c s s'.
Proof.
  intros Er Eh Ef Ek. constructor.
  - intros q E. exists []. rewrite app_nil_r. auto.
  - rewrite Eh. lia.
  - intros h _. unfold geth. now rewrite Eh.
  - rewrite Ef. lia.
  - intros g _. unfold getf. now rewrite Ef.
  - rewrite (kproj_len s s' Ek). lia.
  - intros t _. left. now apply kproj_tcont.
Qed.

Lemma qrel_eq c s s' :
  ready s' = ready s -> handles s' = handles s -> futs s' = futs s -> kproj s' = kproj s -> qrel c s s'.
Proof. intros Er. apply qrel_eq'. intros q E. congruence. Qed.

Lemma rlist_same s s' : ready s' = ready s -> forall q, ready s = RList q -> exists app, ready s' = RList (q ++ app).
Proof. intros E q Eq. exists []. rewrite app_nil_r. congruence. Qed.

Lemma qrel_setf c s f x :
  (fstate_ (getf s f) <> FPending -> fstate_ x = fstate_ (getf s f)) -> qrel c s (setf s f x).
Proof.
  intros H. constructor.
  - now apply rlist_same.
  - cbn. lia.
  - auto.
  - cbn. rewrite set_nth_length. lia.
  - intros g Hg. rewrite getf_setf.
    destruct (Nat.eqb f g && Nat.ltb f (length (futs s)))%bool eqn:E; auto.
    apply andb_prop in E as [E _]. apply Nat.eqb_eq in E. subst g. now apply H.
  - cbn. lia.
  - intros; now left.
Qed.

Lemma qrel_sett_k c s t x : tcont_ x = tcont_ (gett s t) -> qrel c s (sett s t x).
Proof. intros E. apply qrel_eq; try reflexivity. now apply kproj_sett. Qed.

Lemma qrel_sett_cur s t x : qrel (Some t) s (sett s t x).
Proof.
  constructor.
  - now apply rlist_same.
  - cbn. lia.
  - auto.
  - cbn. lia.
  - auto.
  - cbn. rewrite set_nth_length. lia.
  - intros t0 Hne. left. rewrite gett_sett_other; [reflexivity|congruence].
Qed.

Lemma qrel_call_soon c s cb : qrel c s (call_soon_ s cb).
Proof.
  unfold call_soon_, call_soon. cbn [fst]. constructor.
  - intros q E. cbn. rewrite E. cbn. eauto.
  - cbn. rewrite app_length. lia.
  - intros h Hh. unfold geth. cbn. now rewrite app_nth1.
  - cbn. lia.
  - auto.
  - cbn. lia.
  - intros; now left.
Qed.

Lemma qrel_call_at c s w cb : qrel c s (fst (call_at s w cb)).
Proof.
  unfold call_at. cbn [fst]. constructor.
  - now apply rlist_same.
  - cbn. rewrite app_length. lia.
  - intros h Hh. unfold geth. cbn. now rewrite app_nth1.
  - cbn. lia.
  - auto.
  - cbn. lia.
  - intros; now left.
Qed.

Lemma qrel_cancel_handle c s h : qrel c s (cancel_handle s h).
Proof.
  unfold cancel_handle. constructor.
  - now apply rlist_same.
  - cbn. rewrite set_nth_length. lia.
  - intros h' Hh. unfold geth. cbn. rewrite nth_set_nth.
    destruct (Nat.eqb h h' && Nat.ltb h (length (handles s)))%bool eqn:E; auto.
    apply andb_prop in E as [E _]. apply Nat.eqb_eq in E. now subst h'.
  - cbn. lia.
  - auto.
  - cbn. lia.
  - intros; now left.
Qed.

Lemma qrel_new_future' c s x : qrel c s (s <| futs := futs s ++ [x] |>).
Proof.
  constructor.
  - now apply rlist_same.
  - cbn. lia.
  - auto.
  - cbn. rewrite app_length. lia.
  - intros g Hp. unfold getf in *. cbn. destruct (Nat.lt_ge_cases g (length (futs s))) as [Hg|Hg].
    + now rewrite app_nth1.
    + rewrite (nth_overflow (futs s)) in Hp by auto. exfalso. now apply Hp.
  - cbn. lia.
  - intros; now left.
Qed.
Lemma qrel_new_future c s o : qrel c s (fst (new_future s o)).
Proof. apply qrel_new_future'. Qed.

Lemma qrel_app_task c s tk : frames_of (tcont_ tk) = [] -> qrel c s (s <| tasks := tasks s ++ [tk] |>).
Proof.
  intros Hk. constructor.
  - now apply rlist_same.
  - cbn. lia.
  - auto.
  - cbn. lia.
  - auto.
  - cbn. rewrite app_length. lia.
  - intros t _. destruct (Nat.lt_ge_cases t (length (tasks s))) as [Ht|Ht].
    + left. now rewrite gett_app_old.
    + right. split; auto. destruct (Nat.eq_dec t (length (tasks s))) as [->|Hne].
      * now rewrite gett_app_new.
      * rewrite gett_app_oob by lia. reflexivity.
Qed.

Ltac qeq := solve [apply qrel_eq; try reflexivity; try (apply kproj_sett; reflexivity)].
Ltac qf := solve [apply qrel_setf; first [intros _; reflexivity | let H := fresh in intros H; congruence]].
Ltac qq := first [apply qrel_refl | qeq | qf | apply qrel_call_soon | apply qrel_new_future | apply qrel_new_future'
                 | apply qrel_cancel_handle].
Ltac qtr := eapply qrel_trans.
(* peel the outermost setter *)
Ltac qpeel :=
  match goal with
  | |- qrel _ _ (setf ?S _ _) => apply (qrel_trans _ _ S); [|qf]
  | |- qrel _ _ (setl ?S _ _) => apply (qrel_trans _ _ S); [|qeq]
  | |- qrel _ _ (setc ?S _ _) => apply (qrel_trans _ _ S); [|qeq]
  | |- qrel _ _ (sete ?S _ _) => apply (qrel_trans _ _ S); [|qeq]
  | |- qrel _ _ (setb ?S _ _) => apply (qrel_trans _ _ S); [|qeq]
  | |- qrel _ _ (sett ?S _ _) => apply (qrel_trans _ _ S); [|apply qrel_sett_k; reflexivity]
  | |- qrel _ _ (call_soon_ ?S _) => apply (qrel_trans _ _ S); [|apply qrel_call_soon]
  | |- qrel _ _ (cancel_handle ?S _) => apply (qrel_trans _ _ S); [|apply qrel_cancel_handle]
  end.

Lemma q_fold_soon c f cbs : forall s,
  qrel c s (fold_left (fun s cb => call_soon_ s (cb_callback f cb)) cbs s).
Proof.
  induction cbs as [|x cbs IH]; intros s; simpl; [apply qrel_refl|].
  qtr; [apply qrel_call_soon|apply IH].
Qed.

Lemma q_fut_finish c s f x : qrel c s (fst (fut_finish s f x)).
Proof.
  unfold fut_finish. destruct (fstate_ (getf s f)) eqn:E; try apply qrel_refl. cbn [fst].
  unfold schedule_callbacks. cbv zeta. qtr; [|apply q_fold_soon]. qtr; [|qf]. qf.
Qed.

Lemma q_add_done_callback c s f cb : qrel c s (add_done_callback s f cb).
Proof. unfold add_done_callback. destruct (fdone s f); qq. Qed.

Lemma q_task_cancel c fuel : forall s t, qrel c s (fst (task_cancel fuel s t)).
Proof.
  induction fuel as [|fuel IH]; intros s t; cbn [task_cancel].
  - destruct (tdone s t); [qq|]. destruct (twaiter (gett s t)) as [f|]; [|cbn [fst]; qq].
    destruct (fowner (getf s f)); [cbn [fst]; qq|].
    pose proof (q_fut_finish c s f FCancelled) as E. destruct (fut_finish s f FCancelled) as [s' ok].
    destruct ok; [exact E|cbn [fst]; qq].
  - destruct (tdone s t); [qq|]. destruct (twaiter (gett s t)) as [f|]; [|cbn [fst]; qq].
    destruct (fowner (getf s f)) as [t'|].
    + pose proof (IH s t') as E. destruct (task_cancel fuel s t') as [s' ok]. cbn [fst] in *.
      destruct ok; [exact E|]. cbn [fst]. qtr; [exact E|qq].
    + pose proof (q_fut_finish c s f FCancelled) as E. destruct (fut_finish s f FCancelled) as [s' ok].
      destruct ok; [exact E|cbn [fst]; qq].
Qed.

Lemma q_cancel_awaitable c s f : qrel c s (fst (cancel_awaitable s f)).
Proof.
  unfold cancel_awaitable. destruct (fowner (getf s f)); [apply q_task_cancel|apply q_fut_finish].
Qed.

Lemma q_wake_p c s l : qrel c s (wake_up_first_p s l).
Proof.
  unfold wake_up_first_p. destruct (arr (lpq (getl s l))); [qq|].
  match goal with |- context [if ?b then _ else _] => destruct b end; [qq|].
  match goal with |- context [if ?b then _ else _] => destruct b end; [qq|].
  apply q_fut_finish.
Qed.

Lemma q_wake_a c s l : qrel c s (wake_up_first_a s l).
Proof.
  unfold wake_up_first_a. destruct (ldq (getl s l)); [qq|]. destruct (fdone s n); [qq|apply q_fut_finish].
Qed.

Lemma q_take_lock c s l t s' : take_lock s l t = inl s' -> qrel c s s'.
Proof.
  unfold take_lock. destruct (lowner (getl s l)); [discriminate|]. intros H. inversion H; subst. clear H.
  destruct (is_prio_task _ t); [qpeel|]; qq.
Qed.

Lemma q_task_reschedule c s t : qrel c s (task_reschedule s t).
Proof.
  unfold task_reschedule. apply qrel_eq'; try reflexivity. intros q E. cbn. rewrite E. reflexivity.
Qed.

Lemma q_propagate_task c fuel : forall s t, qrel c s (propagate_task fuel s t).
Proof.
  induction fuel as [|fuel IH]; intros s t; cbn [propagate_task].
  - destruct (negb (is_prio_task s t)); [qq|].
    set (s0 := if task_is_runnable s t then task_reschedule s t else s).
    assert (E0 : qrel c s s0) by (unfold s0; destruct (task_is_runnable s t); [apply q_task_reschedule|qq]).
    clearbody s0. qtr; [exact E0|]. clear E0 s. rename s0 into s.
    destruct (twaiting (gett s t)); qq.
  - destruct (negb (is_prio_task s t)); [qq|].
    set (s0 := if task_is_runnable s t then task_reschedule s t else s).
    assert (E0 : qrel c s s0) by (unfold s0; destruct (task_is_runnable s t); [apply q_task_reschedule|qq]).
    clearbody s0. qtr; [exact E0|]. clear E0 s. rename s0 into s.
    destruct (twaiting (gett s t)) as [l|]; [|qq].
    set (s1 := match lowner (getl s l) with Some o => propagate_task fuel s o | None => s end).
    assert (E1 : qrel c s s1) by (unfold s1; destruct (lowner (getl s l)); [apply IH|qq]).
    destruct (find _ (lwt (getl s1 l))) as [[f t0]|]; [|exact E1].
    destruct (pq_reschedule HQ _ _ _) as [[o q']|]; [|exact E1]. qtr; [exact E1|qq].
Qed.

Lemma q_acquire_p_start c s t l : qrel c s (fst (acquire_p_start s t l)).
Proof.
  unfold acquire_p_start.
  destruct (negb (llocked (getl s l)) && _)%bool.
  - destruct (take_lock s l t) as [s'|e] eqn:E; [|qq]. cbn [fst]. eapply q_take_lock; eauto.
  - change (new_future s None) with (fst (new_future s None), length (futs s)). cbv beta iota.
    destruct (is_prio_task s t && _)%bool; [cbn [fst]; qq|]. cbn [fst].
    qpeel.
    match goal with |- qrel _ _ (match ?o with Some x => propagate_priority ?S x | None => ?S end) =>
      assert (E : qrel c s S); [|destruct o; [unfold propagate_priority; qtr; [exact E|apply q_propagate_task]|exact E]] end.
    qpeel. destruct (is_prio_task s t); [qpeel|]; qq.
Qed.

Lemma q_acquire_p_finish c s t l f had inp : qrel c s (fst (acquire_p_finish s t l f had inp)).
Proof.
  unfold acquire_p_finish.
  set (p := match inp with
            | RVal _ => match take_lock s l t with inl s' => (s', RVal 1) | inr e => (s, RExc e) end
            | RExc e => (s, RExc e) end).
  assert (E0 : qrel c s (fst p)).
  { unfold p. destruct inp; [|qq]. destruct (take_lock s l t) eqn:E; [|qq]. eapply q_take_lock; eauto. }
  destruct p as [s0 r]. cbn [fst] in *.
  set (s1 := match pq_remove HQ (lpq (getl s0 l)) (Z.of_nat f) with Some (_, q') => _ | None => s0 end).
  assert (E1 : qrel c s0 s1) by (unfold s1; destruct (pq_remove _ _ _) as [[? ?]|]; qq).
  set (s2 := if llocked (getl s1 l)
             then match lowner (getl s1 l) with
                  | Some o => if Nat.eqb o t then s1 else propagate_priority s1 o
                  | None => s1 end
             else wake_up_first_p s1 l).
  assert (E2 : qrel c s1 s2).
  { unfold s2; destruct (llocked _); [|apply q_wake_p].
    destruct (lowner _) as [o|]; [|qq]. destruct (Nat.eqb o t); [qq|].
    unfold propagate_priority. apply q_propagate_task. }
  pose proof (qrel_trans _ _ _ _ E0 (qrel_trans _ _ _ _ E1 E2)) as E3.
  destruct had; cbn [fst]; [|exact E3]. qtr; [exact E3|apply qrel_sett_k; reflexivity].
Qed.

Lemma q_release_p c s t l : qrel c s (fst (release_p s t l)).
Proof.
  unfold release_p. destruct (negb (llocked (getl s l))); [qq|]. destruct (lowner (getl s l)); [|qq].
  destruct (negb (Nat.eqb n t)); [qq|]. cbn [fst]. qtr; [|apply q_wake_p].
  qpeel. destruct (is_prio_task _ t); [qpeel|]; qq.
Qed.

Lemma q_acquire_start c s t l : qrel c s (fst (acquire_start s t l)).
Proof.
  unfold acquire_start. destruct (lkind_ (getl s l)); [apply q_acquire_p_start|].
  unfold acquire_a_start. destruct (_ && _)%bool; [cbn [fst]; qq|].
  change (new_future s None) with (fst (new_future s None), length (futs s)). cbv beta iota. cbn [fst].
  qpeel. qpeel. qq.
Qed.

Lemma q_release c s t l : qrel c s (fst (release s t l)).
Proof.
  unfold release. destruct (lkind_ (getl s l)); [apply q_release_p|].
  unfold release_a. destruct (llocked (getl s l)); [|qq]. cbn [fst]. qtr; [|apply q_wake_a]. qq.
Qed.

Lemma q_event_fold c lst : forall s,
  qrel c s (fold_left (fun s f => if fdone s f then s else fst (fut_finish s f (FResult 1))) lst s).
Proof.
  induction lst as [|f lst IH]; intros s; simpl; [qq|]. qtr; [|apply IH].
  destruct (fdone s f); [qq|apply q_fut_finish].
Qed.

Lemma q_notify_i c s cd n : qrel c s (notify_i s cd n).
Proof.
  unfold notify_i.
  assert (H : forall lst s0 cnt,
    qrel c s0 (fst (fold_left (fun '(s, cnt) f =>
                    if Nat.leb n cnt then (s, cnt)
                    else if fdone s f then (s, cnt)
                    else (fst (fut_finish s f (FResult 0)), S cnt)) lst (s0, cnt)))).
  { induction lst as [|f lst IH]; intros s0 cnt; simpl; [qq|].
    destruct (Nat.leb n cnt); [apply IH|]. destruct (fdone s0 f); [apply IH|].
    qtr; [apply q_fut_finish|apply IH]. }
  apply H.
Qed.

Lemma q_notify_p c s cd n : qrel c s (notify_p s cd n).
Proof.
  unfold notify_p.
  assert (H : forall lst s0 a b,
    qrel c s0 (fst (fst (fold_left (fun '(s, taken, cnt) f =>
                 if Nat.leb n cnt then (s, taken, cnt)
                 else if fdone s f then (s, S taken, cnt)
                 else (fst (fut_finish s f (FResult 1)), S taken, S cnt)) lst (s0, a, b))))).
  { induction lst as [|f lst IH]; intros s0 a b; simpl; [qq|].
    destruct (Nat.leb n b); [apply IH|]. destruct (fdone s0 f); [apply IH|].
    qtr; [apply q_fut_finish|apply IH]. }
  match goal with |- context [fold_left ?F ?L ?A] => specialize (H L s 0 0); destruct (fold_left F L A) as [[s1 tk] cnt] end.
  cbn [fst] in H. qpeel. exact H.
Qed.

Lemma q_cond_p_after c s cd r : qrel c s (fst (cond_p_after s cd r)).
Proof. unfold cond_p_after. destruct r; [qq|]. apply q_notify_p. Qed.

Lemma q_reacquire c s t cd pc err body : qrel c s (fst (reacquire s t cd pc err body)).
Proof.
  unfold reacquire. pose proof (q_acquire_start c s t (clock (getc s cd))) as E.
  destruct (acquire_start s t (clock (getc s cd))) as [s1 r]. cbn [fst] in E.
  destruct r as [[v|e]|y frs]; exact E.
Qed.

Lemma q_fut_result c s f : qrel c s (fst (fut_result s f)).
Proof. unfold fut_result. destruct (fstate_ (getf s f)); try qq. destruct (fcexc (getf s f)); qq. Qed.

Lemma q_await_fut c s f outer : qrel c s (fst (await_fut s f outer)).
Proof.
  unfold await_fut. destruct (fdone s f); [|cbn [fst]; qq].
  pose proof (q_fut_result c s f) as E. destruct (fut_result s f). exact E.
Qed.

(* ================================================================ 2. no positional scheduling *)
(* operations that take an entry out of the middle of the ready queue or insert one at a
   position: call_pos (sleep_insert, task_switch, call_insert), task_reinsert, and
   task_throw / task_interrupt / the task_timeout interruptor (which remove the target's
   handle and, for interrupts, re-insert it at the front) *)
Definition op_fifo (op : libop) : Prop :=
  match op with
  | OSleepInsert _ | OTaskSwitch _ _ | OTaskReinsert _ _ | OCallPos _ _
  | OTaskThrow _ _ | OTaskInterrupt _ _ | OInterruptor _ => False
  | _ => True
  end.
Definition frame_fifo (fr : frame) : Prop :=
  match fr with InIntr _ _ _ => False | _ => True end.

Theorem q_lib_call c t op s : op_fifo op -> qrel c s (fst (lib_call t op s)).
Proof.
  intros Hop. destruct op; cbn [lib_call op_fifo] in *; try contradiction; try (cbn [fst]; qq).
  - (* OSleep *)
    change (new_future s None) with (fst (new_future s None), length (futs s)). cbv beta iota.
    match goal with |- context [call_at ?S ?w ?cb] =>
      pose proof (qrel_call_at c S w cb) as E; destruct (call_at S w cb) as [s2 h] end.
    cbn [fst] in *. qpeel. qtr; [|exact E]. qq.
  - apply q_await_fut.
  - apply q_await_fut.
  - pose proof (q_fut_finish c s f (FResult v)) as E. destruct (fut_finish s f (FResult v)). exact E.
  - pose proof (q_fut_finish c s f (FExc e)) as E. destruct (fut_finish s f (FExc e)). exact E.
  - pose proof (q_fut_finish c s f FCancelled) as E. destruct (fut_finish s f FCancelled). exact E.
  - pose proof (q_task_cancel c (length (tasks s)) s t0) as E. unfold cancel_task.
    destruct (task_cancel (length (tasks s)) s t0). exact E.
  - destruct (evalue (gete s e)); [qq|].
    change (new_future s None) with (fst (new_future s None), length (futs s)). cbv beta iota. cbn [fst].
    qpeel. qpeel. qq.
  - destruct (evalue (gete s e)); [qq|]. cbn [fst]. qtr; [|apply q_event_fold]. qq.
  - apply q_acquire_start.
  - pose proof (q_release c s t l) as E. destruct (release s t l). exact E.
  - (* OCondWait *)
    destruct (negb (cond_locked s c0)); [qq|]. destruct (ckind_ (getc s c0)).
    + change (new_future s None) with (fst (new_future s None), length (futs s)). cbv beta iota.
      pose proof (q_release c (fst (new_future s None)) t (clock (getc s c0))) as E.
      destruct (release (fst (new_future s None)) t (clock (getc s c0))) as [s2 rr]. cbn [fst] in E.
      assert (E0 : qrel c s s2) by (qtr; [apply qrel_new_future|exact E]).
      destruct rr as [v|e].
      * cbn [fst]. qpeel. qpeel. exact E0.
      * pose proof (q_cond_p_after c s2 c0 (RExc e)) as E2. destruct (cond_p_after s2 c0 (RExc e)) as [s3 r3].
        cbn [fst] in *. qtr; eauto.
    + pose proof (q_release c s t (clock (getc s c0))) as E.
      destruct (release s t (clock (getc s c0))) as [s1 rr]. cbn [fst] in E.
      destruct rr as [v|e]; [|exact E].
      change (new_future s1 None) with (fst (new_future s1 None), length (futs s1)). cbv beta iota. cbn [fst].
      qpeel. qpeel. qtr; [exact E|qq].
  - destruct (negb (cond_locked s c0)); [qq|]. cbn [fst].
    destruct (ckind_ (getc s c0)); [apply q_notify_p|apply q_notify_i].
  - destruct (negb (cond_locked s c0)); [qq|]. cbn [fst].
    destruct (ckind_ (getc s c0)); [apply q_notify_p|apply q_notify_i].
  - (* OTimeoutEnter *) destruct d; [|qq].
    match goal with |- context [call_at ?S ?w ?cb] =>
      pose proof (qrel_call_at c S w cb) as E; destruct (call_at S w cb) as [s2 h] end.
    cbn [fst] in *. qtr; [exact E|qq].
  - (* OTimeoutExit *) cbn [fst]. qpeel. qq.
  - destruct (is_prio_task s t); cbn [fst]; qq.
  - (* OQuery *) cbn [fst]. unfold queue_iterated. destruct (ready (addlog s (query_code s))) eqn:E; [qq|].
    apply qrel_eq'; try reflexivity. intros q Eq. cbn in E. congruence.
  - pose proof (q_cancel_awaitable c s f) as E. destruct (cancel_awaitable s f). exact E.
Qed.

Lemma q_acquire_a_finish c s l f inp : qrel c s (fst (acquire_a_finish s l f inp)).
Proof.
  unfold acquire_a_finish. destruct inp; [cbn [fst]; qpeel; qpeel; qq|].
  destruct (is_cancel e); [|cbn [fst]; qpeel; qq]. cbn [fst].
  match goal with |- context [if ?b then _ else _] => destruct b end; [qpeel; qq|].
  qtr; [|apply q_wake_a]. qq.
Qed.

Theorem q_frame_resume c t fr inp s : frame_fifo fr -> qrel c s (fst (frame_resume t fr inp s)).
Proof.
  intros Hfr. destruct fr; cbn [frame_resume frame_fifo] in *; try contradiction; try (cbn [fst]; qq).
  - destruct inp; [|qq]. destruct (fdone s f); [|qq].
    pose proof (q_fut_result c s f) as E. destruct (fut_result s f). exact E.
  - pose proof (q_acquire_p_finish c s t l f had inp) as E. destruct (acquire_p_finish s t l f had inp). exact E.
  - pose proof (q_acquire_a_finish c s l f inp) as E. destruct (acquire_a_finish s l f inp). exact E.
  - (* InCondWaitP *)
    set (s1 := match pq_remove HQ (cpq (getc s c0)) (Z.of_nat f) with
               | Some (_, q') => setc s c0 (getc s c0 <| cpq := q' |>) | None => s end).
    assert (E1 : qrel c s s1) by (unfold s1; destruct (pq_remove _ _ _) as [[? ?]|]; qq).
    match goal with |- context [reacquire s1 t c0 true None ?b] =>
      pose proof (q_reacquire c s1 t c0 true None b) as E2; destruct (reacquire s1 t c0 true None b) as [s2 r] end.
    cbn [fst] in E2. destruct r as [rep|y frs]; [|cbn [fst]; qtr; eauto].
    pose proof (q_cond_p_after c s2 c0 rep) as E3. destruct (cond_p_after s2 c0 rep). cbn [fst] in *.
    qtr; [exact E1|]. qtr; eauto.
  - (* InReleasedP *)
    destruct inp as [v|e].
    + match goal with |- context [cond_p_after s c0 ?r] =>
        pose proof (q_cond_p_after c s c0 r) as E; destruct (cond_p_after s c0 r) end. exact E.
    + destruct (is_cancel e).
      * pose proof (q_reacquire c s t c0 true (Some e) body) as E2.
        destruct (reacquire s t c0 true (Some e) body) as [s2 r]. cbn [fst] in E2.
        destruct r as [rep|y frs]; [|exact E2].
        pose proof (q_cond_p_after c s2 c0 rep) as E3. destruct (cond_p_after s2 c0 rep). cbn [fst] in *. qtr; eauto.
      * pose proof (q_cond_p_after c s c0 (RExc e)) as E. destruct (cond_p_after s c0 (RExc e)). exact E.
  - (* InCondWaitI *) qtr; [|apply q_reacquire]. qq.
  - destruct inp; [qq|]. destruct (is_cancel e); [|qq]. apply q_reacquire.
Qed.

Theorem q_resume_stack c frs : forall t inp s,
  Forall frame_fifo frs -> qrel c s (fst (resume_stack t frs inp s)).
Proof.
  induction frs as [|fr rest IH]; intros t inp s Hf; cbn [resume_stack]; [qq|].
  inversion Hf as [|? ? Hfr Hrest]; subst.
  pose proof (q_frame_resume c t fr inp s Hfr) as E. destruct (frame_resume t fr inp s) as [s1 r].
  cbn [fst] in E. destruct r as [rep|y frs1]; [|exact E]. qtr; [exact E|now apply IH].
Qed.

Lemma q_new_task c s kind p co : qrel c s (fst (new_task s kind p co)).
Proof.
  unfold new_task.
  change (new_future s (Some (length (tasks s)))) with
    (fst (new_future s (Some (length (tasks s)))), length (futs s)). cbv beta iota. cbn [fst].
  qpeel. qtr; [apply qrel_new_future|]. apply qrel_app_task. reflexivity.
Qed.

Lemma q_spawn_task c s how co : qrel c s (fst (spawn_task s how co)).
Proof. unfold spawn_task. destruct how; apply q_new_task. Qed.

(* [exec_np t c s]: while task t runs the user code c from state s (up to its next
   suspension) no positional scheduling call, no create_task_descend and no eager() start
   is executed *)
Fixpoint exec_np (t : nat) (c : coro) (s : st) {struct c} : Prop :=
  match c with
  | Ret _ | Raise _ => True
  | Call op k =>
      op_fifo op /\
      (let '(s', r) := lib_call t op s in
       match r with LDone rep => exec_np t (k rep) s' | LSusp _ _ => True end)
  | Spawn how child k =>
      match how with
      | SDescend | SEager => False
      | SStart => True
      | _ => let '(s, t') := spawn_task s how child in exec_np t (k (RVal (Z.of_nat t'))) s
      end
  end.

(* acquire frames returned by a computation started in a state with n futures are fresh *)
Definition afresh (n : nat) (frs : list frame) : Prop :=
  forall l f had, In (InAcquireP l f had) frs -> n <= f.
Definition rfresh (n : nat) (r : lres) : Prop := afresh n (lfr r).

Lemma afresh_noacq n frs : (forall l f had, ~ In (InAcquireP l f had) frs) -> afresh n frs.
Proof. intros H l f had Hin. exfalso. eapply H; eauto. Qed.
Lemma afresh_app n a b : afresh n a -> afresh n b -> afresh n (a ++ b).
Proof. intros A B l f had H. apply in_app_or in H as [H|H]; eauto. Qed.
Ltac noacq := apply afresh_noacq; cbn; intros ? ? ? HH; repeat (destruct HH as [HH|HH]; [discriminate|]); exact HH.

Lemma acquire_start_fresh s t l : rfresh (length (futs s)) (snd (acquire_start s t l)).
Proof.
  unfold acquire_start, rfresh. destruct (lkind_ (getl s l)).
  - unfold acquire_p_start. destruct (_ && _)%bool.
    + destruct (take_lock s l t); cbn; noacq.
    + change (new_future s None) with (fst (new_future s None), length (futs s)). cbv beta iota.
      destruct (_ && _)%bool; cbn [snd lfr]; [noacq|].
      intros l0 f had H. destruct H as [H|[H|[]]]; [discriminate|]. inversion H; subst. lia.
  - unfold acquire_a_start. destruct (_ && _)%bool; cbn [snd lfr]; [noacq|].
    change (new_future s None) with (fst (new_future s None), length (futs s)). cbv beta iota. cbn. noacq.
Qed.

Lemma reacquire_fresh s t c pc err body :
  rfresh (length (futs s)) (snd (reacquire s t c pc err body)).
Proof.
  unfold reacquire. pose proof (acquire_start_fresh s t (clock (getc s c))) as H.
  destruct (acquire_start s t (clock (getc s c))) as [s1 r]. cbn [snd] in H. unfold rfresh in *.
  destruct r as [[v|e]|y frs]; cbn [snd lfr]; try noacq. apply afresh_app; auto. destruct pc; noacq.
Qed.

Lemma await_fut_fresh n s f : rfresh n (snd (await_fut s f [])).
Proof.
  unfold await_fut, rfresh. destruct (fdone s f).
  - destruct (fut_result s f). cbn. noacq.
  - cbn. noacq.
Qed.

Theorem lib_call_fresh t op s : op_fifo op -> rfresh (length (futs s)) (snd (lib_call t op s)).
Proof.
  intros Hop. unfold rfresh.
  destruct op; cbn [lib_call op_fifo] in *; try contradiction; try (cbn; noacq).
  - apply await_fut_fresh.
  - apply await_fut_fresh.
  - destruct (fut_finish s f (FResult v)). cbn. noacq.
  - destruct (fut_finish s f (FExc e)). cbn. noacq.
  - destruct (fut_finish s f FCancelled). cbn. noacq.
  - destruct (cancel_task s t0). cbn. noacq.
  - destruct (evalue (gete s e)); cbn; noacq.
  - destruct (evalue (gete s e)); cbn; noacq.
  - apply acquire_start_fresh.
  - destruct (release s t l). cbn. noacq.
  - destruct (negb (cond_locked s c)); [cbn; noacq|]. destruct (ckind_ (getc s c)).
    + change (new_future s None) with (fst (new_future s None), length (futs s)). cbv beta iota.
      destruct (release _ t _) as [s2 rr]. destruct rr as [v|e].
      * cbn. noacq.
      * destruct (cond_p_after s2 c (RExc e)). cbn. noacq.
    + destruct (release s t _) as [s1 rr]. destruct rr as [v|e]; [|cbn; noacq].
      change (new_future s1 None) with (fst (new_future s1 None), length (futs s1)). cbv beta iota. cbn. noacq.
  - destruct (negb (cond_locked s c)); cbn; noacq.
  - destruct (negb (cond_locked s c)); cbn; noacq.
  - destruct d; [|cbn; noacq]. destruct (call_at _ _ _) as [s2 h]. cbn. noacq.
  - destruct (is_prio_task s t); cbn; noacq.
  - destruct (cancel_awaitable s f). cbn. noacq.
Qed.

Theorem frame_resume_fresh t fr inp s :
  frame_fifo fr -> rfresh (length (futs s)) (snd (frame_resume t fr inp s)).
Proof.
  intros Hfr. unfold rfresh.
  destruct fr; cbn [frame_resume frame_fifo] in *; try contradiction; try (cbn; noacq).
  - destruct inp; [|cbn; noacq]. destruct (fdone s f); [|cbn; noacq]. destruct (fut_result s f). cbn. noacq.
  - destruct (acquire_p_finish s t l f had inp). cbn. noacq.
  - destruct (acquire_a_finish s l f inp). cbn. noacq.
  - set (s1 := match pq_remove HQ (cpq (getc s c)) (Z.of_nat f) with
               | Some (_, q') => setc s c (getc s c <| cpq := q' |>) | None => s end).
    assert (El : length (futs s1) = length (futs s)) by (unfold s1; destruct (pq_remove _ _ _) as [[? ?]|]; reflexivity).
    match goal with |- context [reacquire s1 t c true None ?b] =>
      pose proof (reacquire_fresh s1 t c true None b) as H; destruct (reacquire s1 t c true None b) as [s2 r] end.
    cbn [snd] in H. rewrite El in H. destruct r as [rep|y frs]; [|exact H]. destruct (cond_p_after s2 c rep). cbn. noacq.
  - destruct inp as [v|e].
    + destruct (cond_p_after s c _). cbn. noacq.
    + destruct (is_cancel e).
      * pose proof (reacquire_fresh s t c true (Some e) body) as H.
        destruct (reacquire s t c true (Some e) body) as [s2 r]. cbn [snd] in H.
        destruct r as [rep|y frs]; [|exact H]. destruct (cond_p_after s2 c rep). cbn. noacq.
      * destruct (cond_p_after s c (RExc e)). cbn. noacq.
  - match goal with |- context [reacquire ?S t c false None ?b] =>
      pose proof (reacquire_fresh S t c false None b) as H end. exact H.
  - destruct inp; [cbn; noacq|]. destruct (is_cancel e); [apply reacquire_fresh|cbn; noacq].
Qed.

Theorem resume_stack_fresh frs : forall t inp s,
  Forall frame_fifo frs ->
  forall l f had, In (InAcquireP l f had) (lfr (snd (resume_stack t frs inp s))) ->
    length (futs s) <= f \/ In (InAcquireP l f had) frs.
Proof.
  induction frs as [|fr rest IH]; intros t inp s Hf l f had; cbn [resume_stack]; [intros []|].
  inversion Hf as [|? ? Hfr Hrest]; subst.
  pose proof (frame_resume_fresh t fr inp s Hfr) as H. pose proof (q_frame_resume None t fr inp s Hfr) as Q.
  destruct (frame_resume t fr inp s) as [s1 r]. cbn [fst snd] in *. destruct r as [rep|y frs1].
  - intros Hin. destruct (IH t rep s1 Hrest l f had Hin) as [Hl|Hl]; [left|right; now right].
    pose proof (q_fl _ _ _ Q). lia.
  - cbn [snd lfr]. intros Hin. apply in_app_or in Hin as [Hin|Hin]; [left|right; now right].
    apply (H l f had Hin).
Qed.

Theorem q_exec cc c : forall t s, exec_np t c s ->
  qrel cc s (fst (exec t c s)) /\
  (forall y frs k, snd (exec t c s) = OYield y frs k -> afresh (length (futs s)) frs).
Proof.
  induction c as [v|e|op k IHk|how child IHc k IHk]; intros t s Hnp; cbn [exec exec_np] in *.
  - split; [qq|intros; discriminate].
  - split; [qq|intros; discriminate].
  - destruct Hnp as [Hop Hk].
    pose proof (q_lib_call cc t op s Hop) as Q. pose proof (lib_call_fresh t op s Hop) as F.
    destruct (lib_call t op s) as [s1 r]. cbn [fst snd] in *. destruct r as [rep|y1 frs1].
    + destruct (IHk rep t s1 Hk) as [Q2 F2]. split; [qtr; eauto|].
      intros y frs k0 E l f had Hin. pose proof (F2 y frs k0 E l f had Hin). pose proof (q_fl _ _ _ Q). lia.
    + cbn [fst snd]. split; [exact Q|]. intros y frs k0 E. inversion E; subst. exact F.
  - destruct how; try contradiction.
    + pose proof (q_spawn_task cc s SPlain child) as Q. destruct (spawn_task s SPlain child) as [s1 t'].
      cbn [fst] in Q. destruct (IHk _ t s1 Hnp) as [Q2 F2]. split; [qtr; eauto|].
      intros y frs k0 E l f had Hin. pose proof (F2 y frs k0 E l f had Hin). pose proof (q_fl _ _ _ Q). lia.
    + pose proof (q_spawn_task cc s SPy child) as Q. destruct (spawn_task s SPy child) as [s1 t'].
      cbn [fst] in Q. destruct (IHk _ t s1 Hnp) as [Q2 F2]. split; [qtr; eauto|].
      intros y frs k0 E l f had Hin. pose proof (F2 y frs k0 E l f had Hin). pose proof (q_fl _ _ _ Q). lia.
    + pose proof (q_spawn_task cc s (SPrio p) child) as Q. destruct (spawn_task s (SPrio p) child) as [s1 t'].
      cbn [fst] in Q. destruct (IHk _ t s1 Hnp) as [Q2 F2]. split; [qtr; eauto|].
      intros y frs k0 E l f had Hin. pose proof (F2 y frs k0 E l f had Hin). pose proof (q_fl _ _ _ Q). lia.
    + pose proof (q_spawn_task cc s SStart child) as Q. destruct (spawn_task s SStart child) as [s1 t'].
      cbn [fst snd] in *. split; [exact Q|]. intros y frs k0 E. inversion E; subst. noacq.
Qed.

(* ================================================================ 3. Task.__step and the loop *)
Ltac qpc :=
  match goal with
  | |- qrel (Some ?t) _ (sett ?S ?t _) => apply (qrel_trans _ _ S); [|apply qrel_sett_cur]
  end.

Lemma q_finish_step t s o : qrel (Some t) s (finish_step t s o).
Proof.
  unfold finish_step. destruct o as [[v|e]|y frs k]; cbv zeta.
  - destruct (tmustc (gett s t)).
    + qtr; [|apply q_fut_finish]. qpc. qpc. qq.
    + qtr; [|apply q_fut_finish]. qpc. qq.
  - destruct (is_cancel e).
    + qtr; [|apply q_fut_finish]. qpeel. qpc. qq.
    + qtr; [|apply q_fut_finish]. qpc. qq.
  - destruct y as [|f].
    + qpeel. qpc. qq.
    + destruct (fblock _); [|qpeel; qpc; qq]. destruct (Nat.eqb f _); [qpeel; qpc; qq|].
      match goal with |- context [tmustc (gett ?S4 t)] => set (s4 := S4) end.
      assert (E4 : qrel (Some t) s s4).
      { unfold s4. qpc. qtr; [|apply q_add_done_callback]. qpeel. qpc. qq. }
      destruct (tmustc (gett s4 t)); [|exact E4].
      pose proof (q_cancel_awaitable (Some t) s4 f) as E5. destruct (cancel_awaitable s4 f) as [s5 ok].
      cbn [fst] in E5. destruct ok; [qpc|]; qtr; eauto.
Qed.

(* [step_np t exc s]: Task.__step of t executes no positional scheduling; stacks containing a
   task_timeout interruptor frame and not yet started eager() continuations are excluded *)
Definition step_np (t : nat) (exc : option exn) (s : st) : Prop :=
  if tdone s t then True else
  let tk := gett s t in
  let exc := if tmustc tk
             then match exc with
                  | Some e => if is_cancel e then Some e else Some ECancelled
                  | None => Some ECancelled end
             else exc in
  let cont := tcont_ tk in
  let s := sett s t (tk <| tmustc := false |> <| twaiter := None |> <| tcont_ := TRun |>) in
  let s := s <| current := Some t |> in
  let inp := match exc with None => RVal 0 | Some e => RExc e end in
  match cont with
  | TNew c => match exc with Some _ => True | None => exec_np t c s end
  | TSusp frs k =>
      Forall frame_fifo frs /\
      (let '(s, r) := resume_stack t frs inp s in
       match r with LDone rep => exec_np t (k rep) s | LSusp _ _ => True end)
  | TEager _ _ _ => False
  | TRun | TFin => True
  end.

Theorem q_step_task t exc s : step_np t exc s -> qrel (Some t) s (step_task t exc s).
Proof.
  intros Hnp. unfold step_task, step_np in *.
  destruct (tdone s t); [qq|].
  set (exc' := if tmustc (gett s t) then _ else exc) in *.
  set (s1 := sett s t (gett s t <| tmustc := false |> <| twaiter := None |> <| tcont_ := TRun |>)) in *.
  set (s2 := s1 <| current := Some t |>) in *.
  assert (E2 : qrel (Some t) s s2).
  { apply (qrel_trans _ _ s1); [apply qrel_sett_cur|qq]. }
  assert (Tail : forall s3 o, qrel (Some t) s s3 -> qrel (Some t) s ((finish_step t s3 o) <| current := None |>)).
  { intros s3 o E3. qtr; [exact E3|]. qtr; [apply q_finish_step|qq]. }
  destruct (tcont_ (gett s t)) as [c|frs k|y frs k| |].
  - destruct exc' as [e|]; [now apply Tail|].
    destruct (q_exec (Some t) c t s2 Hnp) as [Q _]. destruct (exec t c s2) as [s3 o]. cbn [fst] in Q.
    apply Tail. qtr; eauto.
  - destruct Hnp as [Hf Hnp].
    pose proof (q_resume_stack (Some t) frs t (match exc' with None => RVal 0 | Some e => RExc e end) s2 Hf) as Q.
    destruct (resume_stack t frs _ s2) as [s3 r]. cbn [fst] in Q. destruct r as [rep|y frs'].
    + destruct (q_exec (Some t) (k rep) t s3 Hnp) as [Q2 _]. destruct (exec t (k rep) s3) as [s4 o].
      cbn [fst] in Q2. apply Tail. qtr; [exact E2|]. qtr; eauto.
    + apply Tail. qtr; eauto.
  - contradiction.
  - now apply Tail.
  - now apply Tail.
Qed.

Definition wakeup_np (t f : nat) (s : st) : Prop :=
  match fstate_ (getf s f) with
  | FResult _ => step_np t None s
  | FExc e => step_np t (Some e) s
  | FCancelled => let '(s', r) := fut_result s f in
                  step_np t (match r with RExc e => Some e | RVal _ => None end) s'
  | FPending => step_np t (Some EInvalidState) s
  end.

Definition run_callback_np (c : callback) (s : st) : Prop :=
  match c with
  | HStep t e => step_np t e s
  | HWakeup t f => wakeup_np t f s
  | HReinsert _ _ => False
  | _ => True
  end.

Definition run_one_np (s : st) : Prop :=
  match rq_popleft (ready s) with
  | None => True
  | Some (h, r) =>
      let s := s <| ready := r |> in
      let hd := geth s h in
      if hcancelled hd then True else run_callback_np (hcb hd) s
  end.

Theorem q_wakeup t f s : wakeup_np t f s -> qrel (Some t) s (wakeup t f s).
Proof.
  unfold wakeup, wakeup_np. destruct (fstate_ (getf s f)); try apply q_step_task.
  pose proof (q_fut_result (Some t) s f) as E. destruct (fut_result s f) as [s' r]. cbn [fst] in E.
  intros H. qtr; [exact E|now apply q_step_task].
Qed.

Theorem q_run_callback cb s : run_callback_np cb s -> qrel (task_of_cb cb) s (run_callback cb s).
Proof.
  destruct cb; cbn [run_callback run_callback_np task_of_cb]; try contradiction.
  - apply q_step_task.
  - apply q_wakeup.
  - intros _. qq.
  - intros _. apply q_fut_finish.
  - intros _. apply q_new_task.
  - intros _. unfold queue_iterated. destruct (ready (addlog s (query_code s))) eqn:E; [qq|].
    apply qrel_eq'; try reflexivity. intros q Eq. cbn in E. congruence.
  - intros _. apply q_task_cancel.
Qed.

Theorem q_run_one s h rest :
  ready s = RList (h :: rest) -> run_one_np s ->
  qrel (task_of_handle s h) (s <| ready := RList rest |>) (run_one s).
Proof.
  intros E Hnp. unfold run_one, run_one_np in *. rewrite E in *. cbn [rq_popleft] in *. cbv zeta in *.
  change (geth (s <| ready := RList rest |>) h) with (geth s h) in *.
  destruct (hcancelled (geth s h)); [qq|]. now apply q_run_callback.
Qed.

(* ---------------------------------------------------------------- what all steps keep *)
Record mono (s s' : st) : Prop := mkMono {
  m_hl : length (handles s) <= length (handles s');
  m_hc : forall h, h < length (handles s) -> hcb (geth s' h) = hcb (geth s h);
  m_fl : length (futs s) <= length (futs s');
  m_fs : forall g, fstate_ (getf s g) <> FPending -> fstate_ (getf s' g) = fstate_ (getf s g);
  m_tl : length (tasks s) <= length (tasks s') }.

Lemma mono_refl s : mono s s.
Proof. constructor; auto. Qed.
Lemma mono_trans s1 s2 s3 : mono s1 s2 -> mono s2 s3 -> mono s1 s3.
Proof.
  intros [A1 A2 A3 A4 A5] [B1 B2 B3 B4 B5]. constructor; try lia; auto.
  - intros h Hh. rewrite B2 by lia. now apply A2.
  - intros g Hg. rewrite B4; [now apply A4|]. now rewrite A4.
Qed.
Lemma qrel_mono c s s' : qrel c s s' -> mono s s'.
Proof. intros [A1 A2 A3 A4 A5 A6 A7]. constructor; auto. Qed.

Lemma run_one_nil s : ready s = RList [] -> run_one s = s.
Proof. intros E. unfold run_one. rewrite E. reflexivity. Qed.

Lemma run_one_mono s q : ready s = RList q -> run_one_np s -> mono s (run_one s).
Proof.
  intros E Hnp. destruct q as [|h rest].
  - rewrite (run_one_nil s E). apply mono_refl.
  - pose proof (qrel_mono _ _ _ (q_run_one s h rest E Hnp)) as [A1 A2 A3 A4 A5]. constructor; auto.
Qed.

(* the step is FIFO: it pops the head and only appends *)
Theorem run_one_fifo s q :
  ready s = RList q -> run_one_np s -> exists app, ready (run_one s) = RList (tl q ++ app).
Proof.
  intros E Hnp. destruct q as [|h rest].
  - rewrite (run_one_nil s E). exists []. rewrite E. reflexivity.
  - destruct (q_r _ _ _ (q_run_one s h rest E Hnp) rest eq_refl) as [app Ea]. exists app. exact Ea.
Qed.

(* n AStep actions, none of which executes positional scheduling *)
Fixpoint run_np (n : nat) (s : st) : Prop :=
  match n with O => True | S n => run_one_np s /\ run_np n (run_one s) end.

Lemma run_np_le n : forall m s, m <= n -> run_np n s -> run_np m s.
Proof.
  induction n as [|n IH]; intros m s Hm H; destruct m as [|m]; simpl; auto; try lia.
  destruct H as [H1 H2]. split; auto. apply IH; auto. lia.
Qed.

Lemma np_fifo n : forall s q, ready s = RList q -> run_np n s -> fifo n s.
Proof.
  induction n as [|n IH]; intros s q E H; simpl; auto. destruct H as [H1 H2].
  destruct (run_one_fifo s q E H1) as [app Ea]. split.
  - exists q, app. split; auto.
  - eapply IH; eauto.
Qed.

Lemma steps_mono n : forall s q, ready s = RList q -> run_np n s ->
  mono s (steps n s) /\ exists q', ready (steps n s) = RList q'.
Proof.
  induction n as [|n IH]; intros s q E H; cbn [steps].
  - split; [apply mono_refl|eauto].
  - destruct H as [H1 H2]. destruct (run_one_fifo s q E H1) as [app Ea].
    destruct (IH _ _ Ea H2) as [M Q]. split; auto. cbn [do_action].
    eapply mono_trans; [eapply run_one_mono; eauto|exact M].
Qed.

Lemma steps_add a : forall b s, steps (a + b) s = steps b (steps a s).
Proof. induction a as [|a IH]; intros b s; simpl; auto. Qed.

Lemma run_np_add a : forall b s, run_np (a + b) s -> run_np a s /\ run_np b (steps a s).
Proof.
  induction a as [|a IH]; intros b s H; simpl in *; auto. destruct H as [H1 H2].
  destruct (IH b _ H2). auto.
Qed.

(* C13_handle_runs_within: on the list queue, while only AStep actions happen and none of them
   executes positional scheduling, the handle at position i is popped by exactly the (i+1)-th
   step, which runs the callback the handle had at the start unless it was cancelled meanwhile *)
Theorem handle_runs_within s q i :
  ready s = RList q -> i < length q -> nth i q 0 < length (handles s) -> run_np i s ->
  exists rest, ready (steps i s) = RList (nth i q 0 :: rest) /\
    do_action (steps i s) AStep =
      (let s1 := (steps i s) <| ready := RList rest |> in
       if hcancelled (geth s1 (nth i q 0)) then s1 else run_callback (hcb (geth s (nth i q 0))) s1).
Proof.
  intros E Hi Hh Hnp. pose proof (np_fifo i s q E Hnp) as F.
  destruct (handle_runs_in_turn s q i E Hi F) as (rest & Er & Ed). exists rest. split; [exact Er|].
  rewrite Ed. cbv zeta. destruct (steps_mono i s q E Hnp) as [M _].
  change (geth (steps i s <| ready := RList rest |>) (nth i q 0)) with (geth (steps i s) (nth i q 0)).
  rewrite (m_hc _ _ M _ Hh). reflexivity.
Qed.

(* ================================================================ 4. the in-flight waiter runs *)
Lemma finish_frames t s o : t < length (tasks s) -> tframes (finish_step t s o) t = ofr o.
Proof.
  intros Ht. unfold finish_step.
  assert (Base : forall k, tframes (sett s t (gett s t <| tcont_ := k |>)) t = frames_of k).
  { intros k. rewrite tframes_sett, Nat.eqb_refl. apply Nat.ltb_lt in Ht. now rewrite Ht. }
  destruct o as [[v|e]|y frs k]; cbv zeta; cbn [ofr].
  - destruct (tmustc (gett s t)).
    + rewrite (kproj_tframes _ _ t (kproj_fut_finish _ _ _)).
      rewrite (kproj_tframes (sett s t (gett s t <| tcont_ := TFin |>)) _ t); [apply Base|].
      apply kproj_sett. reflexivity.
    + rewrite (kproj_tframes _ _ t (kproj_fut_finish _ _ _)). apply Base.
  - destruct (is_cancel e).
    + rewrite (kproj_tframes _ _ t (kproj_fut_finish _ _ _)).
      rewrite (kproj_tframes (sett s t (gett s t <| tcont_ := TFin |>)) _ t); [apply Base|reflexivity].
    + rewrite (kproj_tframes _ _ t (kproj_fut_finish _ _ _)). apply Base.
  - set (s1 := sett s t (gett s t <| tcont_ := TSusp frs k |>)).
    assert (B1 : tframes s1 t = frs) by apply Base.
    assert (Soon : forall e, tframes (call_soon_ s1 (HStep t e)) t = frs) by (intros; exact B1).
    destruct y as [|f]; [apply Soon|].
    destruct (fblock (getf s1 f)); [|apply Soon].
    destruct (Nat.eqb f (tfut (gett s t))); [apply Soon|].
    set (s2 := setf s1 f (getf s1 f <| fblock := false |>)).
    set (s3 := add_done_callback s2 f (CbWakeup t)).
    assert (K3 : kproj s3 = kproj s1).
    { unfold s3. rewrite (proj1 (kk_add_done_callback s2 f (CbWakeup t))). reflexivity. }
    set (s4 := sett s3 t (gett s3 t <| twaiter := Some f |>)).
    assert (K4 : kproj s4 = kproj s1).
    { unfold s4. rewrite kproj_sett by reflexivity. exact K3. }
    destruct (tmustc (gett s4 t)); [|rewrite (kproj_tframes _ _ t K4); exact B1].
    pose proof (kproj_cancel_awaitable s4 f) as K5. destruct (cancel_awaitable s4 f) as [s5 ok]. cbn [fst] in K5.
    destruct ok.
    + rewrite (kproj_tframes s5 _ t); [|apply kproj_sett; reflexivity].
      rewrite (kproj_tframes _ _ t K5), (kproj_tframes _ _ t K4). exact B1.
    + rewrite (kproj_tframes _ _ t K5), (kproj_tframes _ _ t K4). exact B1.
Qed.

(* the reply of `await fut` (Future.__await__ resumed) *)
Definition infut_reply (s : st) (f : nat) (inp : reply) : st * reply :=
  match inp with
  | RExc e => (s, RExc e)
  | RVal _ => if fdone s f then fut_result s f else (s, RExc (ERuntime rt_await_not_used))
  end.

Lemma resume_two t l f had rest inp s :
  resume_stack t (InFut f :: InAcquireP l f had :: rest) inp s =
  (let '(s3, rep) := infut_reply s f inp in
   let '(s4, r) := acquire_p_finish s3 t l f had rep in resume_stack t rest r s4).
Proof.
  cbn [resume_stack frame_resume]. unfold infut_reply. destruct inp as [v|e].
  - destruct (fdone s f).
    + destruct (fut_result s f) as [s3 rep]. destruct (acquire_p_finish s3 t l f had rep). reflexivity.
    + destruct (acquire_p_finish s t l f had _). reflexivity.
  - destruct (acquire_p_finish s t l f had (RExc e)). reflexivity.
Qed.

Lemma q_infut_reply c s f inp : qrel c s (fst (infut_reply s f inp)).
Proof.
  unfold infut_reply. destruct inp; [|qq]. destruct (fdone s f); [apply q_fut_result|qq].
Qed.

Lemma no_acq_fifo_in l f had frs : no_acq frs -> ~ In (InAcquireP l f had) frs.
Proof. apply no_acq_in. Qed.

(* Task.__step of a task suspended in acquire()'s `await fut`: afterwards the future is no
   longer queued on the lock *)
Theorem step_fire t exc s l f had rest :
  Inv s -> LV [] s -> t < length (tasks s) -> tdone s t = false ->
  tframes s t = InFut f :: InAcquireP l f had :: rest ->
  step_ok t exc s -> step_np t exc s ->
  ~ In f (objs (step_task t exc s) l).
Proof.
  intros I L Ht Hd Hfr Hok Hnp Hin.
  pose proof (ext_inv _ _ (step_task_ext t exc s I Ht Hok)) as I'.
  pose proof (step_task_live t exc s I Ht L) as L'.
  pose proof (q_step_task t exc s Hnp) as Q.
  assert (Hfb : f < length (futs s)).
  { apply (iD0 I). exists l. apply (iF2 I t l f had). rewrite Hfr. right. now left. }
  destruct (waiter_link _ l f I' L' Hin) as (t2 & had2 & rest2 & Ht2 & Hfr2).
  destruct (Nat.eq_dec t2 t) as [->|Hne].
  - (* the stepped task itself: its new frames are fresh *)
    clear Q. unfold step_task, step_np in *. rewrite Hd in *.
    set (exc' := if tmustc (gett s t) then _ else exc) in *.
    set (s1 := sett s t (gett s t <| tmustc := false |> <| twaiter := None |> <| tcont_ := TRun |>)) in *.
    set (s2 := s1 <| current := Some t |>) in *.
    set (inp := match exc' with None => RVal 0 | Some e => RExc e end) in *.
    assert (Hl2 : length (tasks s2) = length (tasks s)) by (unfold s2, s1; cbn; now rewrite set_nth_length).
    assert (Hf2 : length (futs s2) = length (futs s)) by reflexivity.
    assert (Hso : stack_ok (tframes s t)) by apply (iF1 I).
    assert (Hrest : no_acq rest).
    { rewrite Hfr in Hso. destruct Hso as [Hn|(l0 & f0 & had0 & rest0 & E & Hn)].
      - specialize (Hn (InAcquireP l f had)). cbn in Hn. discriminate Hn. right. now left.
      - inversion E; subst. exact Hn. }
    unfold tframes in Hfr.
    destruct (tcont_ (gett s t)) as [c|frs k|y frs k| |]; cbn [frames_of] in Hfr; try discriminate; try contradiction.
    subst frs. destruct Hnp as [Hff Hnp]. rewrite resume_two in *.
    pose proof (q_infut_reply None s2 f inp) as Q3. destruct (infut_reply s2 f inp) as [s3 rep]. cbn [fst] in Q3.
    pose proof (q_acquire_p_finish None s3 t l f had rep) as Q4.
    destruct (acquire_p_finish s3 t l f had rep) as [s4 r]. cbn [fst] in Q4.
    inversion Hff as [|? ? _ Hff1]; subst. inversion Hff1 as [|? ? _ Hff2]; subst.
    pose proof (q_resume_stack None rest t r s4 Hff2) as Q5.
    pose proof (resume_stack_fresh rest t r s4 Hff2) as F5.
    destruct (resume_stack t rest r s4) as [s5 r5]. cbn [fst snd] in *.
    assert (Q25 : qrel None s2 s5) by (qtr; [exact Q3|]; qtr; eauto).
    assert (Hcase : exists s6 o, (match r5 with
                      | LDone rep0 => exec t (k rep0) s5
                      | LSusp y frs' => (s5, OYield y frs' k) end) = (s6, o) /\
                    length (tasks s) <= length (tasks s6) /\
                    forall l0 g had0, In (InAcquireP l0 g had0) (ofr o) -> length (futs s) <= g).
    { destruct r5 as [rep0|y frs'].
      - destruct (q_exec None (k rep0) t s5 Hnp) as [Q6 F6]. destruct (exec t (k rep0) s5) as [s6 o] eqn:E6.
        cbn [fst snd] in *. exists s6, o. split; auto. split.
        + pose proof (q_tl _ _ _ Q25). pose proof (q_tl _ _ _ Q6). lia.
        + intros l0 g had0 Hg. destruct o as [r0|y0 frs0 k0]; [destruct Hg|]. cbn [ofr] in Hg.
          pose proof (F6 y0 frs0 k0 eq_refl l0 g had0 Hg). pose proof (q_fl _ _ _ Q25). lia.
      - exists s5, (OYield y frs' k). split; auto. split; [pose proof (q_tl _ _ _ Q25); lia|].
        cbn [ofr]. intros l0 g had0 Hg. cbn [lfr] in F5. destruct (F5 l0 g had0 Hg) as [Hl|Hl].
        + pose proof (q_fl _ _ _ Q3). pose proof (q_fl _ _ _ Q4). lia.
        + exfalso. eapply no_acq_in; eauto. }
    destruct Hcase as (s6 & o & E6 & Hl6 & F6). rewrite E6 in Hfr2.
    change (tframes (finish_step t s6 o <| current := None |>) t) with (tframes (finish_step t s6 o) t) in Hfr2.
    rewrite finish_frames in Hfr2 by lia.
    specialize (F6 l f had2). rewrite Hfr2 in F6. specialize (F6 ltac:(right; now left)). lia.
  - (* another task: its continuation is untouched, or it is new and has no frames *)
    destruct (q_tc _ _ _ Q t2 ltac:(congruence)) as [E|[_ E]].
    + apply Hne. apply (iF3 I t2 t l l f had2 had).
      * unfold tframes in *. rewrite <- E, Hfr2. right. now left.
      * rewrite Hfr. right. now left.
    + unfold tframes in Hfr2. rewrite E in Hfr2. discriminate.
Qed.

(* ================================================================ 5. reachable states, quiet runs *)
(* the four invariants of a state reachable on the list loop (LockLive.reach_list) *)
Definition R (s : st) : Prop :=
  Inv s /\ WF4 s /\ LV [] s /\ PartitionRun.Inv09 PartitionFinal.qok_list s.

Lemma R_ready s : R s -> exists q, ready s = RList q.
Proof.
  intros (_ & _ & _ & I9 & _). pose proof (PartTables.i_qok (PartTables.i_wf I9)) as Hq.
  destruct (ready s) as [q|p]; [eauto|destruct Hq].
Qed.

Lemma R_step s : R s -> run_one_ok s -> R (run_one s).
Proof.
  intros (I & H4 & L & I9) Hok. pose proof (do_action_ext s AStep I Hok) as E.
  split; [apply (ext_inv _ _ E)|]. split; [apply (ext_wf4 _ _ E H4)|].
  split; [apply (do_action_live s AStep I Hok L)|].
  apply (PartitionRun.Inv09_action _ PartitionFinal.QSpec_list s AStep I9 Logic.I).
Qed.

Theorem R_reach factor draws lks cds nev acts :
  let s0 := init_st false factor draws lks cds nev in
  run_ok s0 acts -> PartitionRun.actions_ok s0 acts -> R (fold_left do_action acts s0).
Proof. intros s0 H1 H2. apply (reach_list factor draws lks cds nev acts (conj H1 H2)). Qed.

(* one quiet step: the C13 side condition (no set_result on a lock-waiter future) and no
   positional scheduling *)
Definition step_q (s : st) : Prop := run_one_ok s /\ run_one_np s.

(* [quiet n s]: the next n actions are AStep actions satisfying step_q, and in every state
   passed no task future has been completed from outside (LockLive.no_external_completion) *)
Fixpoint quiet (n : nat) (s : st) : Prop :=
  no_external_completion s /\
  match n with O => True | S n => step_q s /\ quiet n (run_one s) end.

Lemma quiet_le n : forall m s, m <= n -> quiet n s -> quiet m s.
Proof.
  induction n as [|n IH]; intros m s Hm [H0 H]; destruct m as [|m]; simpl; auto; try lia.
  destruct H as [H1 H2]. split; auto. split; auto. apply IH; auto. lia.
Qed.
Lemma quiet_ext n s : quiet n s -> no_external_completion s.
Proof. destruct n; intros [H _]; exact H. Qed.
Lemma quiet_np n : forall s, quiet n s -> run_np n s.
Proof. induction n as [|n IH]; intros s [_ H]; simpl; auto. destruct H as [[_ H1] H2]. auto. Qed.
Lemma quiet_add a : forall b s, quiet (a + b) s -> quiet a s /\ quiet b (steps a s).
Proof.
  induction a as [|a IH]; intros b s H; cbn [steps plus].
  - split; auto. split; [eapply quiet_ext; eauto|exact Logic.I].
  - destruct H as [H0 [H1 H2]]. destruct (IH b _ H2) as [A B]. split; auto. split; auto.
Qed.
Lemma R_steps n : forall s, R s -> quiet n s -> R (steps n s).
Proof.
  induction n as [|n IH]; intros s Hr [_ H]; cbn [steps]; auto. destruct H as [[H1 _] H2].
  apply IH; auto. now apply R_step.
Qed.

(* ---------------------------------------------------------------- the wake-up in flight *)
(* waiter f of lock l is in flight at position i: its future is done, its task t is suspended
   in acquire()'s `await fut`, and the handle at position i of the ready queue is t's *)
Definition inflight (s : st) (l f t i : nat) : Prop :=
  In f (objs s l) /\ fdone s f = true /\
  (exists had rest, tframes s t = InFut f :: InAcquireP l f had :: rest) /\
  exists q, ready s = RList q /\ i < length q /\ task_of_handle s (nth i q 0) = Some t.

Lemma inflight_task s l f t i :
  no_external_completion s -> inflight s l f t i -> t < length (tasks s) /\ tdone s t = false.
Proof.
  intros Hx (_ & _ & (had & rest & Hfr) & _). split.
  - destruct (Nat.lt_ge_cases t (length (tasks s))); auto. rewrite tframes_oob in Hfr by auto. discriminate.
  - destruct (tdone s t) eqn:E; auto. rewrite (Hx t E) in Hfr. discriminate.
Qed.

Lemma fut_result_fdone s f g : fdone (fst (fut_result s f)) g = fdone s g.
Proof.
  unfold fut_result. destruct (fstate_ (getf s f)) eqn:E; try reflexivity.
  destruct (fcexc (getf s f)); [|reflexivity]. cbn [fst]. unfold fdone. rewrite getf_setf.
  destruct (Nat.eqb f g && Nat.ltb f (length (futs s)))%bool eqn:Eb; [|reflexivity].
  apply andb_prop in Eb as [Eb _]. apply Nat.eqb_eq in Eb. subst g. cbn. now rewrite E.
Qed.
Lemma fut_result_tasks s f : tasks (fst (fut_result s f)) = tasks s.
Proof. unfold fut_result. destruct (fstate_ (getf s f)); try reflexivity. destruct (fcexc (getf s f)); reflexivity. Qed.

Theorem wakeup_fire t g s l f had rest :
  Inv s -> LV [] s -> t < length (tasks s) -> tdone s t = false ->
  tframes s t = InFut f :: InAcquireP l f had :: rest ->
  wakeup_ok t g s -> wakeup_np t g s ->
  ~ In f (objs (wakeup t g s) l).
Proof.
  intros I L Ht Hd Hfr Hok Hnp. unfold wakeup, wakeup_ok, wakeup_np in *.
  destruct (fstate_ (getf s g)); try (eapply step_fire; eauto; fail).
  pose proof (chg_fut_result (notlf s) s g) as B. pose proof (kk_fut_result s g) as K.
  pose proof (fut_result_fdone s g) as Fd. pose proof (fut_result_tasks s g) as Ft.
  destruct (fut_result s g) as [s' r]. cbn [fst] in *.
  eapply step_fire; eauto.
  - eapply Inv_benign; eauto.
  - eapply LV_kk; eauto.
  - rewrite Ft. exact Ht.
  - unfold tdone, gett in *. rewrite Ft, Fd. exact Hd.
  - rewrite (kproj_tframes s s' t (proj1 K)). exact Hfr.
Qed.

(* the head handle belongs to the in-flight waiter: the step consumes its queue entry *)
Theorem run_one_fire s l f t :
  R s -> no_external_completion s -> step_q s -> inflight s l f t 0 ->
  ~ In f (objs (run_one s) l).
Proof.
  intros (I & H4 & L & I9 & Hc) Hx [Hok Hnp] Hfl.
  destruct (inflight_task s l f t 0 Hx Hfl) as [Ht Hd].
  destruct Hfl as (Hf & Hfd & (had & rest & Hfr) & q & Eq & Hi & Hth).
  destruct q as [|h q]; [simpl in Hi; lia|]. cbn [nth] in Hth.
  unfold run_one, run_one_ok, run_one_np in *. rewrite Eq in *. cbn [rq_popleft] in *. cbv zeta in *.
  set (s1 := s <| ready := RList q |>) in *.
  change (geth s1 h) with (geth s h) in *.
  assert (Hcan : hcancelled (geth s h) = false).
  { destruct (hcancelled (geth s h)) eqn:E; auto.
    pose proof (PartTables.i_canc (PartTables.i_wf I9) h E). congruence. }
  rewrite Hcan in *.
  assert (B1 : benign s s1) by (apply chg_core_eq; reflexivity).
  assert (I1 : Inv s1) by (eapply Inv_benign; eauto).
  assert (L1 : LV [] s1) by (eapply LV_kk; [|exact L]; kks).
  unfold task_of_handle in Hth.
  destruct (hcb (geth s h)) as [t0 e|t0 g| | | | | |]; cbn [task_of_cb] in Hth; try discriminate;
    inversion Hth; subst t0; cbn [run_callback run_callback_ok run_callback_np] in *.
  - eapply step_fire; eauto.
  - eapply wakeup_fire; eauto.
Qed.

(* any other step: the in-flight handle moves one position towards the head *)
Theorem inflight_shift s l f t i :
  R s -> no_external_completion s -> step_q s -> inflight s l f t (S i) ->
  In f (objs (run_one s) l) -> inflight (run_one s) l f t i.
Proof.
  intros (I & H4 & L & I9 & Hc) Hx [Hok Hnp] Hfl Hin.
  destruct (inflight_task s l f t (S i) Hx Hfl) as [Ht Hd].
  destruct Hfl as (Hf & Hfd & (had & rest & Hfr) & q & Eq & Hi & Hth).
  destruct q as [|h q]; [simpl in Hi; lia|]. cbn [nth length] in Hth, Hi.
  (* t has exactly one handle, so the head is not t's *)
  assert (Hh1 : PartTables.hcnt s t = 1).
  { pose proof (PartTables.i_cls I9 t Ht Hd) as C. unfold PartTables.cls in C. simpl in C.
    destruct C as [R1 _]. unfold PartTables.bo in R1.
    destruct (twaiter (gett s t)) as [g|] eqn:Ew; [|exact R1].
    destruct (lv_j _ _ L t g Ew) as [rest' E']. rewrite Hfr in E'. inversion E'; subst g.
    rewrite Hfd in R1. exact R1. }
  assert (Hhead : task_of_handle s h <> Some t).
  { intros Eh. unfold PartTables.hcnt in Hh1. rewrite Eq in Hh1. cbn [rq_items] in Hh1.
    rewrite PartTables.cnt_cons in Hh1. unfold task_key at 1 in Hh1. rewrite Eh, Nat.eqb_refl in Hh1.
    assert (0 < PartTables.cnt (task_key s t) q).
    { apply PartTables.cnt_in_pos with (x := nth i q 0); [apply nth_In; lia|].
      unfold task_key. rewrite Hth. apply Nat.eqb_refl. }
    lia. }
  pose proof (q_run_one s h q Eq Hnp) as Q.
  set (s1 := s <| ready := RList q |>) in *.
  destruct (q_r _ _ _ Q q eq_refl) as [app Ea].
  assert (Hhl : nth i q 0 < length (handles s)).
  { apply (PartTables.i_rwf (PartTables.i_wf I9)). rewrite Eq. cbn. right. apply nth_In. lia. }
  split; [exact Hin|]. split; [apply (fs_fd _ _ (q_fs _ _ _ Q)); exact Hfd|]. split.
  - exists had, rest. destruct (q_tc _ _ _ Q t ltac:(congruence)) as [E|[Hge _]].
    + unfold tframes in *. rewrite E. exact Hfr.
    + change (length (tasks s1)) with (length (tasks s)) in Hge. lia.
  - exists (q ++ app). split; [exact Ea|]. split; [rewrite app_length; lia|].
    rewrite app_nth1 by lia. unfold task_of_handle in *.
    rewrite (q_hc _ _ _ Q _ Hhl). exact Hth.
Qed.

Lemma steps_S n s : steps (S n) s = steps n (run_one s).
Proof. reflexivity. Qed.

(* a wake-up in flight at position i is consumed within i+1 steps *)
Theorem inflight_progress i : forall s l f t,
  R s -> quiet (S i) s -> inflight s l f t i ->
  exists n, 1 <= n <= S i /\ ~ In f (objs (steps n s) l).
Proof.
  induction i as [|i IH]; intros s l f t Hr [Hx [Hq Hrest]] Hfl.
  - exists 1. split; [lia|]. cbn [steps do_action]. eapply run_one_fire; eauto.
  - destruct (in_dec Nat.eq_dec f (objs (run_one s) l)) as [Hin|Hnin].
    + pose proof (inflight_shift s l f t i Hr Hx Hq Hfl Hin) as Hfl'.
      destruct (IH (run_one s) l f t (R_step s Hr (proj1 Hq)) Hrest Hfl') as (n & Hn & Hout).
      exists (S n). split; [lia|]. exact Hout.
    + exists 1. split; [lia|]. exact Hnin.
Qed.

(* C13_free_lock_is_taken (the measure step): a free PriorityLock with waiters loses one of its
   queued entries within len(ready) steps *)
Theorem free_lock_progress s l :
  R s -> quiet (rq_len (ready s)) s ->
  lkind_ (getl s l) = LPrio -> llocked (getl s l) = false -> objs s l <> [] ->
  exists f n, In f (objs s l) /\ 1 <= n <= rq_len (ready s) /\ ~ In f (objs (steps n s) l).
Proof.
  intros Hr Hq Hk Hl Hne. destruct Hr as (I & H4 & L & I9). destruct (R_ready s (conj I (conj H4 (conj L I9)))) as [q Eq].
  destruct (progress_list s q I H4 L I9 (quiet_ext _ _ Hq) Eq l Hk Hl Hne)
    as (f & t & had & rest & i & Hf & Hd & Hfr & Hnd & Hi & Hth & _).
  assert (Hfl : inflight s l f t i).
  { split; auto. split; auto. split; [eauto|]. exists q. auto. }
  unfold rq_len in *. rewrite Eq in *. cbn [rq_items] in *.
  destruct (inflight_progress i s l f t (conj I (conj H4 (conj L I9))) (quiet_le (length q) (S i) s ltac:(lia) Hq) Hfl)
    as (n & Hn & Hout).
  exists f, n. split; auto. split; [lia|exact Hout].
Qed.

(* ================================================================ 6. iterating: the lock is eventually owned or has no waiters *)
(* no new waiter joins lock l during the next n steps *)
Definition nonew (l n : nat) (s : st) : Prop :=
  forall k, k < n -> incl (objs (steps (S k) s) l) (objs (steps k s) l).
(* the ready queue never holds more than M handles during the next n steps *)
Definition rbound (M n : nat) (s : st) : Prop :=
  forall k, k <= n -> rq_len (ready (steps k s)) <= M.

Lemma nonew_incl l n s : nonew l n s -> forall k, k <= n -> incl (objs (steps k s) l) (objs s l).
Proof.
  intros H k. induction k as [|k IH]; intros Hk; [apply incl_refl|].
  eapply incl_tran; [apply H; lia|apply IH; lia].
Qed.
Lemma nonew_add l a b s : nonew l (a + b) s -> nonew l b (steps a s).
Proof.
  intros H k Hk. rewrite <- !steps_add. replace (a + S k) with (S (a + k)) by lia. apply H. lia.
Qed.
Lemma nonew_le l n m s : m <= n -> nonew l n s -> nonew l m s.
Proof. intros Hm H k Hk. apply H. lia. Qed.
Lemma rbound_add M a b s : rbound M (a + b) s -> rbound M b (steps a s).
Proof. intros H k Hk. rewrite <- steps_add. apply H. lia. Qed.
Lemma rbound_le M n m s : m <= n -> rbound M n s -> rbound M m s.
Proof. intros Hm H k Hk. apply H. lia. Qed.

Lemma steps_kind l n : forall s, R s -> quiet n s ->
  lkind_ (getl (steps n s) l) = lkind_ (getl s l).
Proof.
  induction n as [|n IH]; intros s Hr [_ H]; cbn [steps]; auto. destruct H as [[H1 H1'] H2].
  rewrite IH; auto; [|now apply R_step]. cbn [do_action].
  destruct Hr as (I & _). apply (ext_kind _ _ l (do_action_ext s AStep I H1)).
Qed.

Lemma nodup_lt (a b : list nat) f :
  NoDup a -> incl a b -> In f b -> ~ In f a -> length a < length b.
Proof.
  intros Hn Hi Hf Hnf. assert (H : length (f :: a) <= length b).
  { apply NoDup_incl_length; [constructor; auto|]. intros x [<-|Hx]; auto. }
  simpl in H. lia.
Qed.

(* C13_lock_eventually_owned_or_queue_empty *)
Theorem lock_eventually M l : forall m s,
  length (objs s l) <= m -> R s -> lkind_ (getl s l) = LPrio ->
  quiet (m * M) s -> nonew l (m * M) s -> rbound M (m * M) s ->
  exists n, n <= m * M /\
    (llocked (getl (steps n s) l) = true \/ objs (steps n s) l = []).
Proof.
  induction m as [|m IH]; intros s Hlen Hr Hk Hq Hnn Hb.
  - exists 0. split; [lia|]. right. cbn [steps]. destruct (objs s l); [reflexivity|simpl in Hlen; lia].
  - destruct (llocked (getl s l)) eqn:Hl; [exists 0; split; [lia|now left]|].
    destruct (objs s l) as [|f0 fs] eqn:Ho; [exists 0; split; [lia|now right]|].
    assert (Hne : objs s l <> []) by (rewrite Ho; discriminate).
    assert (HM : rq_len (ready s) <= M) by (apply (Hb 0); lia).
    destruct (free_lock_progress s l Hr (quiet_le (S m * M) (rq_len (ready s)) s ltac:(cbn; lia) Hq) Hk Hl Hne)
      as (f & n1 & Hf & Hn1 & Hout).
    assert (Hle1 : n1 + m * M <= S m * M) by (cbn; lia).
    destruct (quiet_add n1 (m * M) s (quiet_le (S m * M) (n1 + m * M) s Hle1 Hq)) as [Hq1 Hq2].
    pose proof (R_steps n1 s Hr Hq1) as Hr1.
    assert (Hlen1 : length (objs (steps n1 s) l) <= m).
    { assert (length (objs (steps n1 s) l) < length (objs s l)); [|rewrite Ho in *; simpl in *; lia].
      apply nodup_lt with (f := f); auto.
      - destruct Hr1 as (I1 & _). apply (iB1 I1 l).
      - apply (nonew_incl l (S m * M) s Hnn). lia. }
    destruct (IH (steps n1 s) Hlen1 Hr1) as (n2 & Hn2 & Hfin).
    + rewrite (steps_kind l n1 s Hr Hq1). exact Hk.
    + exact Hq2.
    + apply nonew_add. eapply nonew_le; eauto.
    + apply rbound_add. eapply rbound_le; eauto.
    + exists (n1 + n2). split; [lia|]. rewrite steps_add. exact Hfin.
Qed.

(* ================================================================ 6b. what the in-flight waiter's step does *)
From Asynkit Require Import Sched.Corr Sched.LockThms.
Lemma wake_p_locks s l : locks (wake_up_first_p s l) = locks s.
Proof.
  unfold wake_up_first_p. destruct (arr (lpq (getl s l))); auto. destruct (existsb _ _); auto.
  destruct (fdone s _); auto. apply (fut_finish_proj s _ (FResult 1)).
Qed.

Lemma getl_locks s s' l : locks s' = locks s -> getl s' l = getl s l.
Proof. intros E. unfold getl. now rewrite E. Qed.

(* the finally clause of acquire() *)
Definition acq_tail (s : st) (t l f : nat) (had : bool) : st :=
  let lk := getl s l in
  let s1 := match pq_remove HQ (lpq lk) (Z.of_nat f) with
            | Some (_, q') => setl s l (lk <| lpq := q' |>
                                         <| lwt := filter (fun pr => negb (Nat.eqb (fst pr) f)) (lwt lk) |>)
            | None => s end in
  let s2 := if llocked (getl s1 l)
            then match lowner (getl s1 l) with
                 | Some o => if Nat.eqb o t then s1 else propagate_priority s1 o
                 | None => s1 end
            else wake_up_first_p s1 l in
  if had then sett s2 t (gett s2 t <| twaiting := None |>) else s2.

(* propagate_priority re-keys waiter queues (and, on the priority loop, ready-queue handles):
   owner and locked flag of every lock are untouched (repair F16: the finally clause calls it
   on the owner of a lock that stays locked) *)
Lemma propagate_task_own fuel : forall s t l0,
  lowner (getl (propagate_task fuel s t) l0) = lowner (getl s l0) /\
  llocked (getl (propagate_task fuel s t) l0) = llocked (getl s l0).
Proof.
  induction fuel as [|fuel IH]; intros s t l0; cbn [propagate_task].
  - destruct (negb (is_prio_task s t)); [auto|].
    set (s0 := if task_is_runnable s t then task_reschedule s t else s).
    assert (E0 : lowner (getl s0 l0) = lowner (getl s l0) /\ llocked (getl s0 l0) = llocked (getl s l0))
      by (unfold s0; destruct (task_is_runnable s t); auto).
    clearbody s0. destruct E0 as [<- <-]. clear s. rename s0 into s.
    destruct (twaiting (gett s t)); auto.
  - destruct (negb (is_prio_task s t)); [auto|].
    set (s0 := if task_is_runnable s t then task_reschedule s t else s).
    assert (E0 : lowner (getl s0 l0) = lowner (getl s l0) /\ llocked (getl s0 l0) = llocked (getl s l0))
      by (unfold s0; destruct (task_is_runnable s t); auto).
    clearbody s0. destruct E0 as [<- <-]. clear s. rename s0 into s.
    destruct (twaiting (gett s t)) as [l|]; [|auto].
    set (s1 := match lowner (getl s l) with Some o => propagate_task fuel s o | None => s end).
    assert (E1 : forall l1, lowner (getl s1 l1) = lowner (getl s l1) /\ llocked (getl s1 l1) = llocked (getl s l1)).
    { intros l1. unfold s1. destruct (lowner (getl s l)); [apply IH|auto]. }
    destruct (find _ (lwt (getl s1 l))) as [[f t0]|]; [|apply E1].
    destruct (pq_reschedule HQ _ _ _) as [[o q']|]; [|apply E1].
    rewrite getl_setl. destruct (Nat.eqb l l0 && Nat.ltb l (length (locks s1)))%bool eqn:E; [|apply E1].
    apply andb_prop in E as [E _]. apply Nat.eqb_eq in E. subst l0. cbn. apply E1.
Qed.

Lemma acq_finish_tail s t l f had inp :
  fst (acquire_p_finish s t l f had inp) =
  acq_tail (match inp with
            | RVal _ => match take_lock s l t with inl s' => s' | inr _ => s end
            | RExc _ => s end) t l f had.
Proof.
  unfold acquire_p_finish, acq_tail. destruct inp as [v|e]; [destruct (take_lock s l t)|]; reflexivity.
Qed.

Lemma acq_tail_lock s t l f had :
  l < length (locks s) ->
  lowner (getl (acq_tail s t l f had) l) = lowner (getl s l) /\
  llocked (getl (acq_tail s t l f had) l) = llocked (getl s l).
Proof.
  intros Hl. unfold acq_tail. cbv zeta.
  set (s1 := match pq_remove HQ (lpq (getl s l)) (Z.of_nat f) with Some (_, q') => _ | None => s end).
  assert (E1 : lowner (getl s1 l) = lowner (getl s l) /\ llocked (getl s1 l) = llocked (getl s l)).
  { unfold s1. destruct (pq_remove _ _ _) as [[? q']|]; [|auto].
    rewrite getl_setl_same by lia. auto. }
  set (s2 := if llocked (getl s1 l)
             then match lowner (getl s1 l) with
                  | Some o => if Nat.eqb o t then s1 else propagate_priority s1 o
                  | None => s1 end
             else wake_up_first_p s1 l).
  assert (E2 : lowner (getl s2 l) = lowner (getl s1 l) /\ llocked (getl s2 l) = llocked (getl s1 l)).
  { unfold s2. generalize (llocked (getl s1 l)) at 1 2. generalize (lowner (getl s1 l)) at 1 3.
    intros oo b. destruct b.
    - destruct oo as [o|]; [|auto]. destruct (Nat.eqb o t); [auto|]. apply propagate_task_own.
    - rewrite (getl_locks _ _ l (wake_p_locks s1 l)). auto. }
  destruct E1 as [E1a E1b]. destruct E2 as [E2a E2b].
  destruct had; [change (getl (sett s2 t (gett s2 t <| twaiting := None |>)) l) with (getl s2 l)|];
    rewrite E2a, E2b; auto.
Qed.

(* the lock record after the code following `await fut` of acquire() *)
Lemma acq_finish_lockstate s t l f had inp :
  l < length (locks s) ->
  let s' := fst (acquire_p_finish s t l f had inp) in
  match inp with
  | RVal _ =>
      match take_lock s l t with
      | inl _ => lowner (getl s' l) = Some t /\ llocked (getl s' l) = true
      | inr _ => lowner (getl s' l) = lowner (getl s l) /\ llocked (getl s' l) = llocked (getl s l)
      end
  | RExc _ => lowner (getl s' l) = lowner (getl s l) /\ llocked (getl s' l) = llocked (getl s l)
  end.
Proof.
  intros Hl. cbv zeta. rewrite acq_finish_tail. destruct inp as [v|e]; [|now apply acq_tail_lock].
  destruct (take_lock s l t) as [s0|e0] eqn:Et; [|now apply acq_tail_lock].
  assert (H0 : length (locks s0) = length (locks s) /\ lowner (getl s0 l) = Some t /\ llocked (getl s0 l) = true).
  { unfold take_lock in Et. destruct (lowner (getl s l)); [discriminate|]. inversion Et; subst s0. clear Et.
    set (s1 := setl s l (getl s l <| lowner := Some t |> <| llocked := true |>)).
    assert (E1 : length (locks s1) = length (locks s) /\ lowner (getl s1 l) = Some t /\ llocked (getl s1 l) = true).
    { unfold s1. split; [cbn; apply set_nth_length|]. rewrite getl_setl_same by lia. auto. }
    destruct (is_prio_task s1 t); exact E1. }
  destruct H0 as (H0 & Ho & Hk). destruct (acq_tail_lock s0 t l f had ltac:(lia)) as [A B].
  rewrite Ho in A. rewrite Hk in B. auto.
Qed.

(* woken with a result, not cancelled: the waiter takes the lock (C13_take_lock_only_when_free) *)
Lemma acq_finish_took s t l f had v :
  Inv s -> In f (objs s l) -> woken s f = true ->
  snd (acquire_p_finish s t l f had (RVal v)) = RVal 1 /\
  lowner (getl (fst (acquire_p_finish s t l f had (RVal v))) l) = Some t /\
  llocked (getl (fst (acquire_p_finish s t l f had (RVal v))) l) = true /\
  ~ In f (objs (fst (acquire_p_finish s t l f had (RVal v))) l).
Proof.
  intros I Hf Hw. split; [now apply take_reply_of_inv|].
  pose proof (acq_finish_lockstate s t l f had (RVal v) (objs_inrange s l f Hf)) as H. cbv zeta in H.
  destruct (take_lock_free_of_inv s l t f I Hf Hw) as [s' Et]. rewrite Et in H. destruct H as [A B].
  split; auto. split; auto.
  destruct (acq_p_finish_facts s t l f had (RVal v) (QF_of_Inv s I) Hf) as (_ & _ & _ & Ho).
  intros Hin. destruct (Ho l f Hin) as [_ Hne]. congruence.
Qed.

(* cancelled / interrupted: the finally clause removes the entry, leaves owner and locked flag of
   the lock as they are (keys may be re-keyed by the F16 propagate when it stays locked by another
   task) and (if it is free) a done waiter in the queue - the wake-up is passed on *)
Lemma acq_finish_pass s t l f had e :
  Inv s -> WF4 s -> t < length (tasks s) -> In f (objs s l) -> no_frame s f ->
  snd (acquire_p_finish s t l f had (RExc e)) = RExc e /\
  lowner (getl (fst (acquire_p_finish s t l f had (RExc e))) l) = lowner (getl s l) /\
  llocked (getl (fst (acquire_p_finish s t l f had (RExc e))) l) = llocked (getl s l) /\
  ~ In f (objs (fst (acquire_p_finish s t l f had (RExc e))) l) /\
  (llocked (getl s l) = false -> objs (fst (acquire_p_finish s t l f had (RExc e))) l <> [] ->
   exists g, In g (objs (fst (acquire_p_finish s t l f had (RExc e))) l) /\
             fdone (fst (acquire_p_finish s t l f had (RExc e))) g = true).
Proof.
  intros I H4 Ht Hf Hnf. split; [rewrite acquire_p_finish_reply; reflexivity|].
  pose proof (acq_finish_lockstate s t l f had (RExc e) (objs_inrange s l f Hf)) as H. cbv zeta in H.
  destruct H as [A B]. split; auto. split; auto.
  destruct (acq_p_finish_facts s t l f had (RExc e) (QF_of_Inv s I) Hf) as (_ & _ & _ & Ho).
  split; [intros Hin; destruct (Ho l f Hin) as [_ Hne]; congruence|].
  destruct (lstep_acquire_p_finish s t l f had (RExc e) I Ht Hf Hnf ltac:(intros; discriminate)) as (Ls & _ & W).
  intros Hl Hne. apply (W H4 l); auto.
  - rewrite (ls_kind Ls). eapply objs_kind_prio; eauto.
  - rewrite B. exact Hl.
Qed.

(* Task.__step of a task suspended in acquire()'s `await fut`, spelled out: bookkeeping
   ([step_pre]), the reply of `await fut` ([infut_reply]), the code after it
   ([acquire_p_finish]: _take_lock on success, then the finally clause), then the rest of the
   task's code ([step_post]) *)
Definition step_inp (s : st) (t : nat) (exc : option exn) : reply :=
  match (if tmustc (gett s t)
         then match exc with
              | Some e => if is_cancel e then Some e else Some ECancelled
              | None => Some ECancelled end
         else exc) with
  | None => RVal 0 | Some e => RExc e end.
Definition step_pre (s : st) (t : nat) : st :=
  (sett s t (gett s t <| tmustc := false |> <| twaiter := None |> <| tcont_ := TRun |>))
    <| current := Some t |>.
Definition step_post (t : nat) (rest : list frame) (k : reply -> coro) (r : reply) (s4 : st) : st :=
  let '(s5, o) := (let '(s5, r5) := resume_stack t rest r s4 in
                   match r5 with
                   | LDone rep0 => exec t (k rep0) s5
                   | LSusp y frs' => (s5, OYield y frs' k) end) in
  (finish_step t s5 o) <| current := None |>.

Lemma step_task_acq t exc s l f had rest k :
  tdone s t = false -> tcont_ (gett s t) = TSusp (InFut f :: InAcquireP l f had :: rest) k ->
  step_task t exc s =
  (let '(s3, rep) := infut_reply (step_pre s t) f (step_inp s t exc) in
   let '(s4, r) := acquire_p_finish s3 t l f had rep in step_post t rest k r s4).
Proof.
  intros Hd Hc. unfold step_task. rewrite Hd, Hc, resume_two. fold (step_pre s t). fold (step_inp s t exc).
  destruct (infut_reply (step_pre s t) f (step_inp s t exc)) as [s3 rep].
  destruct (acquire_p_finish s3 t l f had rep) as [s4 r]. reflexivity.
Qed.

Theorem step_detail t exc s l f had rest k :
  Inv s -> WF4 s -> t < length (tasks s) -> tdone s t = false -> fdone s f = true ->
  tcont_ (gett s t) = TSusp (InFut f :: InAcquireP l f had :: rest) k ->
  let s3 := fst (infut_reply (step_pre s t) f (step_inp s t exc)) in
  let rep := snd (infut_reply (step_pre s t) f (step_inp s t exc)) in
  let s4 := fst (acquire_p_finish s3 t l f had rep) in
  let r := snd (acquire_p_finish s3 t l f had rep) in
  step_task t exc s = step_post t rest k r s4 /\
  Inv s3 /\ locks s3 = locks s /\
  ~ In f (objs s4 l) /\
  (* woken with a result and not cancelled meanwhile: the reply is a value *)
  (forall v, fstate_ (getf s f) = FResult v -> (exists v0, step_inp s t exc = RVal v0) -> rep = RVal v) /\
  (* a value: the waiter takes the lock, acquire() returns True *)
  (forall v, rep = RVal v ->
     fstate_ (getf s f) = FResult v /\ r = RVal 1 /\
     lowner (getl s4 l) = Some t /\ llocked (getl s4 l) = true) /\
  (* an exception (cancelled / interrupted): the entry is removed, owner and locked flag kept, and
     if it is free and still has waiters one of them is done - the wake-up is passed on *)
  (forall e, rep = RExc e ->
     r = RExc e /\ lowner (getl s4 l) = lowner (getl s l) /\ llocked (getl s4 l) = llocked (getl s l) /\
     (llocked (getl s l) = false -> objs s4 l <> [] -> exists g, In g (objs s4 l) /\ fdone s4 g = true)).
Proof.
  intros I H4 Ht Hd Hfd Hc. cbv zeta.
  split.
  { rewrite (step_task_acq t exc s l f had rest k Hd Hc).
    destruct (infut_reply (step_pre s t) f (step_inp s t exc)) as [s3 rep]. cbn [fst snd].
    destruct (acquire_p_finish s3 t l f had rep) as [s4 r]. reflexivity. }
  set (s2 := step_pre s t). set (inp := step_inp s t exc).
  assert (Hfr : tframes s t = InFut f :: InAcquireP l f had :: rest) by (unfold tframes; now rewrite Hc).
  assert (B2 : benign s s2).
  { unfold s2, step_pre.
    apply benign_trans with (s2 := sett s t (gett s t <| tmustc := false |> <| twaiter := None |> <| tcont_ := TRun |>));
      [|apply chg_core_eq; reflexivity].
    apply chg_sett; [reflexivity|reflexivity|reflexivity|right; reflexivity]. }
  assert (Hfr2 : forall t0, tframes s2 t0 = if Nat.eqb t t0 then [] else tframes s t0).
  { intros t0. unfold tframes, s2, step_pre.
    change (gett (?S <| current := Some t |>) t0) with (gett S t0). rewrite gett_sett.
    apply Nat.ltb_lt in Ht. rewrite Ht, andb_true_r. destruct (Nat.eqb t t0); reflexivity. }
  assert (Hf2 : forall g, getf s2 g = getf s g) by reflexivity.
  assert (B3 : benign s2 (fst (infut_reply s2 f inp))).
  { unfold infut_reply. destruct inp; [|apply benign_refl]. destruct (fdone s2 f); [|apply benign_refl].
    apply chg_fut_result. }
  assert (Hrep : forall v, snd (infut_reply s2 f inp) = RVal v ->
            fst (infut_reply s2 f inp) = s2 /\ fstate_ (getf s f) = FResult v).
  { unfold infut_reply. destruct inp as [v0|e0]; [|discriminate].
    change (fdone s2 f) with (fdone s f). rewrite Hfd. unfold fut_result. rewrite Hf2.
    destruct (fstate_ (getf s f)) eqn:Es; cbn [fst snd]; try discriminate.
    - intros v1 E. inversion E; subst. auto.
    - destruct (fcexc (getf s f)); discriminate. }
  assert (Hconv : forall v, fstate_ (getf s f) = FResult v -> (exists v0, inp = RVal v0) ->
            snd (infut_reply s2 f inp) = RVal v).
  { intros v Es [v0 Ei]. unfold infut_reply. rewrite Ei. change (fdone s2 f) with (fdone s f). rewrite Hfd.
    unfold fut_result. rewrite Hf2, Es. reflexivity. }
  set (s3 := fst (infut_reply s2 f inp)) in *. set (rep := snd (infut_reply s2 f inp)) in *.
  assert (B13 : benign s s3) by (eapply benign_trans; eauto).
  pose proof (Inv_benign _ _ B13 I) as I3.
  assert (H43 : WF4 s3) by (eapply WF4_chg; eauto).
  assert (Hin3 : In f (objs s3 l)).
  { rewrite (benign_objs s s3 l B13). apply (iF2 I t l f had). rewrite Hfr. right. now left. }
  assert (Ht3 : t < length (tasks s3)) by (pose proof (benign_tasks _ _ B13); lia).
  assert (Hnf3 : no_frame s3 f).
  { intros t0 l0 had0 Hin. apply (chg_frames_in _ _ _ _ _ B3) in Hin. rewrite Hfr2 in Hin.
    destruct (Nat.eqb t t0) eqn:E; [destruct Hin|]. apply Nat.eqb_neq in E. apply E.
    apply (iF3 I t t0 l l0 f had had0); [rewrite Hfr; right; now left|exact Hin]. }
  assert (Hl3 : locks s3 = locks s).
  { unfold s3, infut_reply. destruct inp; [|reflexivity]. destruct (fdone s2 f); [|reflexivity].
    unfold fut_result. destruct (fstate_ (getf s2 f)); try reflexivity. destruct (fcexc (getf s2 f)); reflexivity. }
  split; [exact I3|]. split; [exact Hl3|].
  assert (Hout : ~ In f (objs (fst (acquire_p_finish s3 t l f had rep)) l)).
  { destruct (acq_p_finish_facts s3 t l f had rep (QF_of_Inv s3 I3) Hin3) as (_ & _ & _ & Ho).
    intros Hin. destruct (Ho l f Hin) as [_ Hne]. congruence. }
  split; [exact Hout|]. split; [exact Hconv|]. split.
  - intros v Er. destruct (Hrep v Er) as [E3 Es]. split; [exact Es|]. rewrite Er.
    assert (Hw : woken s3 f = true).
    { rewrite E3. unfold woken. rewrite Hf2, Es. reflexivity. }
    destruct (acq_finish_took s3 t l f had v I3 Hin3 Hw) as (A & B & C & _). auto.
  - intros e Er. rewrite Er.
    destruct (acq_finish_pass s3 t l f had e I3 H43 Ht3 Hin3 Hnf3) as (A & B & C & _ & D).
    assert (Eg : getl s3 l = getl s l) by (apply getl_locks; exact Hl3).
    rewrite Eg in *. auto.
Qed.

(* ---------------------------------------------------------------- exact timing, and the woken waiter *)
Lemma other_step_frames s l f t i :
  R s -> no_external_completion s -> step_q s -> inflight s l f t (S i) ->
  tframes (run_one s) t = tframes s t.
Proof.
  intros (I & H4 & L & I9 & Hc) Hx [Hok Hnp] Hfl.
  destruct (inflight_task s l f t (S i) Hx Hfl) as [Ht Hd].
  destruct Hfl as (Hf & Hfd & (had & rest & Hfr) & q & Eq & Hi & Hth).
  destruct q as [|h q]; [simpl in Hi; lia|]. cbn [nth length] in Hth, Hi.
  assert (Hh1 : PartTables.hcnt s t = 1).
  { pose proof (PartTables.i_cls I9 t Ht Hd) as C. unfold PartTables.cls in C. simpl in C.
    destruct C as [R1 _]. unfold PartTables.bo in R1.
    destruct (twaiter (gett s t)) as [g|] eqn:Ew; [|exact R1].
    destruct (lv_j _ _ L t g Ew) as [rest' E']. rewrite Hfr in E'. inversion E'; subst g.
    rewrite Hfd in R1. exact R1. }
  assert (Hhead : task_of_handle s h <> Some t).
  { intros Eh. unfold PartTables.hcnt in Hh1. rewrite Eq in Hh1. cbn [rq_items] in Hh1.
    rewrite PartTables.cnt_cons in Hh1. unfold task_key at 1 in Hh1. rewrite Eh, Nat.eqb_refl in Hh1.
    assert (0 < PartTables.cnt (task_key s t) q).
    { apply PartTables.cnt_in_pos with (x := nth i q 0); [apply nth_In; lia|].
      unfold task_key. rewrite Hth. apply Nat.eqb_refl. }
    lia. }
  pose proof (q_run_one s h q Eq Hnp) as Q.
  destruct (q_tc _ _ _ Q t ltac:(congruence)) as [E|[Hge _]].
  - unfold tframes in *. rewrite E. reflexivity.
  - change (length (tasks (s <| ready := RList q |>))) with (length (tasks s)) in Hge. lia.
Qed.

Theorem inflight_shift' s l f t i :
  R s -> no_external_completion s -> step_q s -> inflight s l f t (S i) ->
  inflight (run_one s) l f t i.
Proof.
  intros Hr Hx Hq Hfl. apply inflight_shift; auto.
  pose proof (other_step_frames s l f t i Hr Hx Hq Hfl) as E.
  destruct (R_step s Hr (proj1 Hq)) as (I' & _).
  destruct Hfl as (_ & _ & (had & rest & Hfr) & _).
  apply (iF2 I' t l f had). rewrite E, Hfr. right. now left.
Qed.

Lemma inflight_stays j : forall i s l f t,
  R s -> quiet (S (j + i)) s -> inflight s l f t (j + i) -> inflight (steps j s) l f t i.
Proof.
  induction j as [|j IH]; intros i s l f t Hr Hq Hfl; [exact Hfl|].
  cbn [steps do_action]. cbn [plus] in Hq, Hfl. destruct Hq as [Hx [Hsq Hrest]].
  apply IH; [apply (R_step s Hr (proj1 Hsq))|exact Hrest|]. now apply inflight_shift'.
Qed.

(* the entry of a waiter in flight at position i stays queued for i steps, its handle is at the
   head after i steps, and the (i+1)-th step consumes the entry *)
Theorem inflight_exact i : forall s l f t,
  R s -> quiet (S i) s -> inflight s l f t i ->
  inflight (steps i s) l f t 0 /\ ~ In f (objs (steps (S i) s) l).
Proof.
  induction i as [|i IH]; intros s l f t Hr [Hx [Hq Hrest]] Hfl.
  - split; [exact Hfl|]. cbn [steps do_action]. eapply run_one_fire; eauto.
  - pose proof (inflight_shift' s l f t i Hr Hx Hq Hfl) as Hfl'.
    destruct (IH (run_one s) l f t (R_step s Hr (proj1 Hq)) Hrest Hfl') as [A B]. split; assumption.
Qed.

(* One round of the hand-over.  A waiter whose wake-up handle HWakeup t f is at the head of the
   ready queue, whose future holds the result and whose task was not cancelled meanwhile
   (_must_cancel not set): the step runs `_take_lock`, acquire() returns True, and t owns the
   lock when its code continues ([step_post]).  If it was cancelled meanwhile the reply is
   CancelledError and [step_detail] applies: the entry is removed and the wake-up passed on. *)
Theorem woken_head_takes_lock s l f t v had rest k h q :
  R s -> ready s = RList (h :: q) -> hcb (geth s h) = HWakeup t f ->
  fstate_ (getf s f) = FResult v -> tdone s t = false ->
  tcont_ (gett s t) = TSusp (InFut f :: InAcquireP l f had :: rest) k ->
  tmustc (gett s t) = false ->
  let s1 := step_pre (s <| ready := RList q |>) t in
  let s4 := fst (acquire_p_finish s1 t l f had (RVal v)) in
  run_one s = step_post t rest k (RVal 1) s4 /\
  lowner (getl s4 l) = Some t /\ llocked (getl s4 l) = true /\ ~ In f (objs s4 l).
Proof.
  intros (I & H4 & L & I9 & Hc) Eq Hcb Hs Hd Hk Hm. cbv zeta.
  set (s0 := s <| ready := RList q |>).
  assert (Hcan : hcancelled (geth s h) = false).
  { destruct (hcancelled (geth s h)) eqn:E; auto.
    pose proof (PartTables.i_canc (PartTables.i_wf I9) h E) as Hn. unfold task_of_handle in Hn.
    rewrite Hcb in Hn. discriminate. }
  assert (Ht : t < length (tasks s)).
  { destruct (Nat.lt_ge_cases t (length (tasks s))); auto. rewrite gett_oob in Hk by auto. discriminate. }
  assert (Erun : run_one s = step_task t None s0).
  { unfold run_one. rewrite Eq. cbn [rq_popleft]. cbv zeta. change (geth (s <| ready := RList q |>) h) with (geth s h).
    rewrite Hcan, Hcb. cbn [run_callback]. unfold wakeup. change (getf (s <| ready := RList q |>) f) with (getf s f).
    rewrite Hs. reflexivity. }
  assert (B0 : benign s s0) by (apply chg_core_eq; reflexivity).
  pose proof (Inv_benign _ _ B0 I) as I0. assert (H40 : WF4 s0) by (eapply WF4_chg; eauto).
  assert (Hfd : fdone s0 f = true) by (unfold fdone; change (getf s0 f) with (getf s f); now rewrite Hs).
  pose proof (step_detail t None s0 l f had rest k I0 H40 Ht Hd Hfd Hk) as D. cbv zeta in D.
  assert (Einp : step_inp s0 t None = RVal 0).
  { unfold step_inp. change (gett s0 t) with (gett s t). now rewrite Hm. }
  assert (Erep : infut_reply (step_pre s0 t) f (step_inp s0 t None) = (step_pre s0 t, RVal v)).
  { rewrite Einp. unfold infut_reply. change (fdone (step_pre s0 t) f) with (fdone s0 f). rewrite Hfd.
    unfold fut_result. change (getf (step_pre s0 t) f) with (getf s f). rewrite Hs. reflexivity. }
  rewrite Erep in D. cbn [fst snd] in D.
  destruct D as (E1 & _ & _ & Hout & _ & Hv & _). destruct (Hv v eq_refl) as (_ & Er & Ho & Hlk).
  rewrite Erun, E1, Er. auto.
Qed.

(* C13_every_acquirer_served, one round: a woken waiter (future holds the result) whose wake-up
   handle is at position i is served by exactly the (i+1)-th quiet step, unless its task is
   cancelled in the meantime *)
Theorem woken_waiter_served i s l f t v :
  R s -> quiet (S i) s -> inflight s l f t i -> fstate_ (getf s f) = FResult v ->
  (forall q, ready s = RList q -> hcb (geth s (nth i q 0)) = HWakeup t f) ->
  tmustc (gett (steps i s) t) = false ->
  exists had rest k h q,
    ready (steps i s) = RList (h :: q) /\
    tcont_ (gett (steps i s) t) = TSusp (InFut f :: InAcquireP l f had :: rest) k /\
    (forall j, j <= i -> In f (objs (steps j s) l)) /\
    let s1 := step_pre ((steps i s) <| ready := RList q |>) t in
    let s4 := fst (acquire_p_finish s1 t l f had (RVal v)) in
    steps (S i) s = step_post t rest k (RVal 1) s4 /\
    lowner (getl s4 l) = Some t /\ llocked (getl s4 l) = true /\ ~ In f (objs s4 l).
Proof.
  intros Hr Hq Hfl Hs Hcb Hm.
  destruct (R_ready s Hr) as [q0 Eq0].
  assert (Hq' : quiet i s) by (apply (quiet_le (S i) i s); [lia|exact Hq]).
  pose proof (R_steps i s Hr Hq') as Hri.
  destruct (inflight_exact i s l f t Hr Hq Hfl) as [Hfi _].
  destruct (steps_mono i s q0 Eq0 (quiet_np i s Hq')) as [M _].
  assert (Hall : forall j, j <= i -> In f (objs (steps j s) l)).
  { intros j Hj. replace i with (j + (i - j)) in Hq, Hfl by lia.
    apply (inflight_stays j (i - j) s l f t Hr Hq Hfl). }
  assert (Hx : no_external_completion (steps i s)).
  { replace (S i) with (i + 1) in Hq by lia. destruct (quiet_add i 1 s Hq) as [_ [H _]]. exact H. }
  destruct (inflight_task _ l f t 0 Hx Hfi) as [Hti Hdi].
  destruct Hfi as (Hfin & Hfdi & (had & rest & Hfri) & qi & Eqi & Hlen & Hthi).
  destruct qi as [|h q]; [simpl in Hlen; lia|]. cbn [nth] in Hthi.
  (* the head handle is the one that was at position i *)
  assert (Fi : fifo i s) by (apply (np_fifo i s q0 Eq0), quiet_np, Hq').
  assert (Hiq : i < length q0) by (destruct Hfl as (_ & _ & _ & q1 & E1 & H1 & _); congruence).
  destruct (handle_runs_in_turn s q0 i Eq0 Hiq Fi) as (rest' & Er' & _).
  rewrite Eqi in Er'. inversion Er'; subst h q.
  assert (Hhl : nth i q0 0 < length (handles s)).
  { destruct Hr as (_ & _ & _ & I9 & _). apply (PartTables.i_rwf (PartTables.i_wf I9)). rewrite Eq0. cbn.
    apply nth_In. exact Hiq. }
  assert (Hcbi : hcb (geth (steps i s) (nth i q0 0)) = HWakeup t f).
  { rewrite (m_hc _ _ M _ Hhl). now apply Hcb. }
  assert (Hsi : fstate_ (getf (steps i s) f) = FResult v).
  { rewrite (m_fs _ _ M f); [exact Hs|]. rewrite Hs. discriminate. }
  (* the stored continuation is a TSusp (a pending eager continuation could not carry HWakeup) *)
  assert (Hnp : run_one_np (steps i s)).
  { replace (S i) with (i + 1) in Hq by lia. destruct (quiet_add i 1 s Hq) as [_ [_ [[_ H] _]]]. exact H. }
  assert (Hk : exists k, tcont_ (gett (steps i s) t) = TSusp (InFut f :: InAcquireP l f had :: rest) k).
  { unfold tframes in Hfri. destruct (tcont_ (gett (steps i s) t)) as [c|frs k|y frs k| |] eqn:Ec;
      cbn [frames_of] in Hfri; try discriminate.
    - subst frs. eauto.
    - exfalso. unfold run_one_np in Hnp. rewrite Eqi in Hnp. cbn [rq_popleft] in Hnp. cbv zeta in Hnp.
      change (geth (steps i s <| ready := RList rest' |>) (nth i q0 0)) with (geth (steps i s) (nth i q0 0)) in Hnp.
      destruct Hri as (_ & _ & _ & I9i & _).
      destruct (hcancelled (geth (steps i s) (nth i q0 0))) eqn:Ecan.
      + pose proof (PartTables.i_canc (PartTables.i_wf I9i) _ Ecan) as Hn. unfold task_of_handle in Hn.
        rewrite Hcbi in Hn. discriminate.
      + rewrite Hcbi in Hnp. cbn [run_callback_np] in Hnp. unfold wakeup_np in Hnp.
        change (getf (steps i s <| ready := RList rest' |>) f) with (getf (steps i s) f) in Hnp.
        rewrite Hsi in Hnp. unfold step_np in Hnp.
        change (tdone (steps i s <| ready := RList rest' |>) t) with (tdone (steps i s) t) in Hnp.
        rewrite Hdi in Hnp. change (gett (steps i s <| ready := RList rest' |>) t) with (gett (steps i s) t) in Hnp.
        rewrite Ec in Hnp. exact Hnp. }
  destruct Hk as [k Hk]. exists had, rest, k, (nth i q0 0), rest'.
  split; [exact Eqi|]. split; [exact Hk|]. split; [exact Hall|].
  replace (steps (S i) s) with (run_one (steps i s)).
  - apply (woken_head_takes_lock (steps i s) l f t v had rest k (nth i q0 0) rest' Hri Eqi Hcbi Hsi Hdi Hk Hm).
  - replace (S i) with (i + 1) by lia. rewrite steps_add. reflexivity.
Qed.

(* ================================================================ 7. example *)
(* Three contenders W1 (priority 1), W2 (5), W3 (7) queue behind the holder H.  H releases and
   wakes the head W1; W1 is cancelled before it runs (Task.cancel on a task whose future is
   already done: _must_cancel).  In the state [ex_s] the lock is free, the queue is [4;5;6],
   W1's wake-up handle is in flight at position 0.  Step 1: W1's acquire() gets the
   CancelledError, its finally clause removes entry 4 and wakes the new head W2 - the lock is
   passed on.  Step 2: W2 takes the lock.  (Then W2 releases, W3 takes it, everybody finishes.) *)
Definition ex_sH : script := SDo (OAcquire 0) (SDo OSleep0 (SDo OSleep0 (SDo (ORelease 0) SEnd))).
Definition ex_sW : script := SDo (OAcquire 0) (SDo OSleep0 (SDo (ORelease 0) SEnd)).
Definition ex_pre : list action :=
  map act [XSpawn (SPrio 0) ex_sH; XStep; XSpawn (SPrio 1) ex_sW; XSpawn (SPrio 5) ex_sW;
           XSpawn (SPrio 7) ex_sW; XStep; XStep; XStep; XStep; XStep; XDo (OCancel 1)].
Definition ex_s0 : st := init_st false 0 [] [LPrio] [] 0.
Definition ex_s : st := fold_left do_action ex_pre ex_s0.

Lemma coro_ok_exH n : PartTables.coro_ok n (denote_task ex_sH).
Proof. cok. Qed.
Lemma coro_ok_exW n : PartTables.coro_ok n (denote_task ex_sW).
Proof. cok. Qed.

Lemma ex_reach : R ex_s.
Proof.
  apply R_reach.
  - vm_compute. repeat split.
  - apply actions_ok_static. unfold ex_pre. cbn [map act].
    repeat (constructor; [first [exact I|apply coro_ok_exH|apply coro_ok_exW]|]). constructor.
Qed.

Definition noextb (s : st) : bool :=
  forallb (fun t => negb (tdone s t) || match tframes s t with [] => true | _ => false end)
          (seq 0 (length (tasks s))).
Lemma noextb_ok s : noextb s = true -> no_external_completion s.
Proof. intros H. apply (no_ext_small s (length (tasks s))); auto. Qed.

Ltac quiet_tac :=
  cbn [quiet];
  repeat match goal with
         | |- _ /\ _ => split
         | |- no_external_completion _ => apply noextb_ok; vm_compute; reflexivity
         | |- step_q _ => split; vm_compute; repeat split; repeat constructor
         | |- True => exact I
         end.

Lemma ex_quiet : quiet 6 ex_s.
Proof. quiet_tac. Qed.

Example ex_progress :
  (* the state: free lock, three queued waiters, the head woken and then cancelled *)
  llocked (getl ex_s 0) = false /\ objs ex_s 0 = [4; 5; 6] /\
  map (fun f => fstate_ (getf ex_s f)) [4; 5; 6] = [FResult 1; FPending; FPending] /\
  tmustc (gett ex_s 1) = true /\ ready ex_s = RList [6] /\ hcb (geth ex_s 6) = HWakeup 1 4 /\
  inflight ex_s 0 4 1 0 /\
  (* C13_handle_runs_within / C13_free_lock_is_taken: within len(ready) = 1 step entry 4 is gone,
     the lock is still free and the next head W2 (future 5) has been woken *)
  (exists f n, In f (objs ex_s 0) /\ 1 <= n <= rq_len (ready ex_s) /\ ~ In f (objs (steps n ex_s) 0)) /\
  objs (steps 1 ex_s) 0 = [5; 6] /\ llocked (getl (steps 1 ex_s) 0) = false /\
  fstate_ (getf (steps 1 ex_s) 5) = FResult 1 /\ fstate_ (getf (steps 1 ex_s) (tfut (gett ex_s 1))) = FCancelled /\
  (* C13_lock_eventually_owned_or_queue_empty with M = 1, m = 3: within 3 steps *)
  (exists n, n <= 3 * 1 /\ (llocked (getl (steps n ex_s) 0) = true \/ objs (steps n ex_s) 0 = [])) /\
  lowner (getl (steps 2 ex_s) 0) = Some 2 /\
  (* and the run ends with everybody served or cancelled, the lock clean *)
  lowner (getl (steps 4 ex_s) 0) = Some 3 /\
  map (fun t => fstate_ (getf (steps 6 ex_s) (tfut t))) (tasks (steps 6 ex_s)) =
    [FResult 0; FCancelled; FResult 0; FResult 0] /\
  objs (steps 6 ex_s) 0 = [] /\ llocked (getl (steps 6 ex_s) 0) = false.
Proof.
  pose proof ex_reach as Hr. pose proof ex_quiet as Hq.
  split; [vm_compute; reflexivity|]. split; [vm_compute; reflexivity|]. split; [vm_compute; reflexivity|].
  split; [vm_compute; reflexivity|]. split; [vm_compute; reflexivity|]. split; [vm_compute; reflexivity|].
  split.
  { split; [vm_compute; auto|]. split; [vm_compute; reflexivity|]. split.
    - exists true, []. vm_compute. reflexivity.
    - exists [6]. split; [vm_compute; reflexivity|]. split; [simpl; lia|vm_compute; reflexivity]. }
  split.
  { apply (free_lock_progress ex_s 0 Hr).
    - apply (quiet_le 6 _ ex_s); [vm_compute; lia|exact Hq].
    - vm_compute. reflexivity.
    - vm_compute. reflexivity.
    - vm_compute. discriminate. }
  split; [vm_compute; reflexivity|]. split; [vm_compute; reflexivity|]. split; [vm_compute; reflexivity|].
  split; [vm_compute; reflexivity|].
  split.
  { apply (lock_eventually 1 0 3 ex_s).
    - vm_compute. lia.
    - exact Hr.
    - vm_compute. reflexivity.
    - apply (quiet_le 6 _ ex_s); [vm_compute; lia|exact Hq].
    - intros k Hk. do 3 (destruct k as [|k]; [vm_compute; intros ? ?; tauto|]). lia.
    - intros k Hk. do 4 (destruct k as [|k]; [vm_compute; lia|]). lia. }
  repeat split; vm_compute; reflexivity.
Qed.

(* ================================================================ 8. final forms *)
(* C13_free_lock_is_taken with exact timing: the in-flight waiter at position i keeps its entry
   for i steps and the (i+1)-th step - its own Task.__step, see step_detail - consumes it *)
Theorem free_lock_taken s l :
  R s -> quiet (rq_len (ready s)) s ->
  lkind_ (getl s l) = LPrio -> llocked (getl s l) = false -> objs s l <> [] ->
  exists f t i,
    inflight s l f t i /\ i < rq_len (ready s) /\
    (forall j, j <= i -> In f (objs (steps j s) l)) /\
    inflight (steps i s) l f t 0 /\ ~ In f (objs (steps (S i) s) l).
Proof.
  intros Hr Hq Hk Hl Hne. pose proof Hr as (I & H4 & L & I9). destruct (R_ready s Hr) as [q Eq].
  destruct (progress_list s q I H4 L I9 (quiet_ext _ _ Hq) Eq l Hk Hl Hne)
    as (f & t & had & rest & i & Hf & Hd & Hfr & Hnd & Hi & Hth & _).
  assert (Hfl : inflight s l f t i).
  { split; auto. split; auto. split; [eauto|]. exists q. auto. }
  unfold rq_len in *. rewrite Eq in *. cbn [rq_items] in *.
  assert (Hq' : quiet (S i) s) by (apply (quiet_le (length q) (S i) s); [lia|exact Hq]).
  destruct (inflight_exact i s l f t Hr Hq' Hfl) as [A B].
  exists f, t, i. split; auto. split; auto. split; [|auto].
  intros j Hj. replace i with (j + (i - j)) in Hq', Hfl by lia.
  apply (inflight_stays j (i - j) s l f t Hr Hq' Hfl).
Qed.
