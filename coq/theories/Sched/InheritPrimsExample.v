(* Non-vacuity of [keyed_arrive] (Sched/InheritArrive.v) on the F17 scenario: in the reachable state
   [kpre] of OrderExample.v T (task 3, priority -5) is about to call acquire(lock 0); lock 0 is held by
   U, which is cancelled, RUNNABLE and still queued on lock 1 (owner O1, itself queued on lock 2).
   All hypotheses of the theorem hold, and the THEOREM (not a computation) gives [keyed] for every
   lock after T's arrival - through a runnable chain task, the case the pre-F17 code got wrong. *)
From Coq Require Import QArith Lqa Sorting.Permutation.
From RecordUpdate Require Import RecordUpdate.
From Asynkit Require Import Base.Prelude Queue.PQ Queue.Order Queue.PosPQ Queue.Exec
  Sched.Model Sched.Tables Sched.QFacts Sched.LockInv Sched.Footprint Sched.LockOps Sched.LockLib
  Sched.LockProofs Sched.LockThms Sched.InheritEprio Sched.InheritHandover Sched.InheritKeys
  Sched.InheritFalls Sched.WaitInv Sched.WaitOps Sched.WaitProofs.
From Asynkit Require Import Sched.OrderInv Sched.OrderPass Sched.OrderThms Sched.OrderExample
  Sched.InheritLocal Sched.InheritChain Sched.InheritArrive Sched.InheritFinish.
Import RecordSetNotations.
Open Scope nat_scope.

(* every reachable state of the fixed-order domain satisfies the state hypotheses of the primitive
   theorems (with no frames held by the runner) *)
Theorem reach_ord_prims s t : reachable_ord s -> Inv s /\ WI true (t, []) s /\ OW s.
Proof.
  intros H.
  pose proof (reachable_ne_WInv s (reachable_ord_ne s H)) as W.
  split; [apply reachable_inv; now apply reachable_ord_reachable|].
  split; [exact (WI_runner true _ 0 t s W)|].
  apply OW_of_ordf; auto. now apply reachable_ord_ordf.
Qed.

Example kpre_keyed_all : forall l0, keyed kpre l0.
Proof.
  destruct kpre_facts as (_ & _ & _ & _ & _ & _ & _ & _ & _ & K0 & K1 & K2).
  intros l0. destruct l0 as [|[|[|l0]]]; auto.
  intros e He _. vm_compute in He. destruct l0; destruct He.
Qed.

Example kpre_T_norow : forall l0 g, ~ In (g, 3) (rows kpre l0).
Proof.
  intros l0 g H. destruct l0 as [|[|[|l0]]]; vm_compute in H.
  - destruct H.
  - destruct H as [H|[]]. discriminate.
  - destruct H as [H|[]]. discriminate.
  - destruct l0; destruct H.
Qed.

Example kpre_arrive :
  (forall l0, keyed knew11 l0) /\ OW knew11 /\
  map (fun l => map (fun e => (Qred (epri e), eobj e)) (arr (lpq (getl knew11 l)))) [0; 1; 2]
    = [[((-5)%Q, 7%Z)]; [((-5)%Q, 4%Z)]; [((-5)%Q, 3%Z)]] /\
  task_is_runnable kpre 2 = true.
Proof.
  destruct (reach_ord_prims kpre 3 kpre_reachable_ord) as (I & W & O).
  assert (A : (forall l0, keyed knew11 l0) /\ OW knew11).
  { apply (keyed_arrive kpre 3 0 []); auto.
    - vm_compute. lia.
    - intros _ l0 H. vm_compute in H. destruct H.
    - exact kpre_T_norow.
    - exact kpre_keyed_all. }
  destruct A as [A B]. split; [exact A|]. split; [exact B|]. split; vm_compute; reflexivity.
Qed.
