(* Correspondence interface for the loop-level stream of C08: the same program
   is run on the list queue (stock loop = 0, SchedulingSelectorEventLoop = 1)
   or on the PosPriorityQueue model (PrioritySelectorEventLoop = 2). *)
From Asynkit Require Import Base.Prelude Base.Obs Sched.ListLoop.

Definition loop_input : Type := Z * list (list op) * nat * list nat * nat.

Definition loop_run (i : loop_input) : obs :=
  let '(kind, scripts, nev, mains, fuel) := i in
  if (kind =? 2)%Z then run_prog PosQ scripts nev mains fuel
  else run_prog ListQ scripts nev mains fuel.
