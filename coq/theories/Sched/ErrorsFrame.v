(* A frame fact of the scheduler model, for every operation, every user program and every
   state: below the level of Task.__step (library calls, library frames, user code, the end of
   a step) the loop's error list is never touched.  (Same proof architecture as FrameFacts.v.) *)
From Coq Require Import QArith.
From RecordUpdate Require Import RecordUpdate.
From Asynkit Require Import Base.Prelude Queue.ListFacts Queue.PQ Queue.PosPQ Queue.Exec
     Sched.Model Sched.PartTables Sched.PartitionProofs.
Import RecordSetNotations.
Open Scope nat_scope.

Definition Er (s0 s : st) : Prop := errors s = errors s0.
Lemma Er_refl s : Er s s. Proof. reflexivity. Qed.
Lemma Er_trans s1 s2 s3 : Er s1 s2 -> Er s2 s3 -> Er s1 s3.
Proof. unfold Er. congruence. Qed.
Lemma Er_same s0 s s' : errors s' = errors s -> Er s0 s -> Er s0 s'.
Proof. unfold Er. congruence. Qed.

Lemma Er_setf s0 s f x : Er s0 s -> Er s0 (setf s f x). Proof. apply Er_same; reflexivity. Qed.
Lemma Er_sett s0 s t x : Er s0 s -> Er s0 (sett s t x). Proof. apply Er_same; reflexivity. Qed.
Lemma Er_setl s0 s l x : Er s0 s -> Er s0 (setl s l x). Proof. apply Er_same; reflexivity. Qed.
Lemma Er_setc s0 s l x : Er s0 s -> Er s0 (setc s l x). Proof. apply Er_same; reflexivity. Qed.
Lemma Er_sete s0 s l x : Er s0 s -> Er s0 (sete s l x). Proof. apply Er_same; reflexivity. Qed.
Lemma Er_ready s0 s r : Er s0 s -> Er s0 (s <| ready := r |>). Proof. apply Er_same; reflexivity. Qed.
Lemma Er_handles s0 s r : Er s0 s -> Er s0 (s <| handles := r |>). Proof. apply Er_same; reflexivity. Qed.
Lemma Er_timers s0 s r : Er s0 s -> Er s0 (s <| timers := r |>). Proof. apply Er_same; reflexivity. Qed.
Lemma Er_addlog s0 s n : Er s0 s -> Er s0 (addlog s n). Proof. apply Er_same; reflexivity. Qed.
Lemma Er_new_future s0 s o : Er s0 s -> Er s0 (fst (new_future s o)). Proof. apply Er_same; reflexivity. Qed.
Lemma Er_new_future_eq s0 s o s' f : new_future s o = (s', f) -> Er s0 s -> Er s0 s'.
Proof. intros E. inversion E. apply Er_same; reflexivity. Qed.
Lemma Er_call_soon s0 s c : Er s0 s -> Er s0 (call_soon_ s c). Proof. apply Er_same; reflexivity. Qed.
Lemma Er_call_at_eq s0 s w c s' h : call_at s w c = (s', h) -> Er s0 s -> Er s0 s'.
Proof. intros E. inversion E. apply Er_same; reflexivity. Qed.
Lemma Er_cancel_handle s0 s h : Er s0 s -> Er s0 (cancel_handle s h). Proof. apply Er_same; reflexivity. Qed.
Lemma Er_call_pos s0 s p c : Er s0 s -> Er s0 (call_pos s p c).
Proof.
  intros H. unfold call_pos. rewrite call_soon_eq. destruct (rq_remove _ _).
  - apply Er_ready, Er_call_soon, H.
  - apply Er_call_soon, H.
Qed.

Ltac case_goal_Er :=
  match goal with
  | |- Er _ (if ?b then _ else _) => destruct b eqn:?
  | |- Er _ (match ?x with _ => _ end) =>
      lazymatch type of x with
      | prod _ _ => let a := fresh "s" in let b := fresh "r" in destruct x as [a b] eqn:?
      | _ => destruct x eqn:?
      end
  | |- Er _ (fst (if ?b then _ else _)) => destruct b eqn:?
  | |- Er _ (fst (match ?x with _ => _ end)) =>
      lazymatch type of x with
      | prod _ _ => let a := fresh "s" in let b := fresh "r" in destruct x as [a b] eqn:?
      | _ => destruct x eqn:?
      end
  | |- Er _ (fst (_, _)) => cbn [fst]
  end.

Ltac eprim := fail.
Ltac estep :=
  first
    [ assumption
    | apply Er_call_soon | apply Er_cancel_handle | apply Er_call_pos
    | apply Er_setf | apply Er_sett | apply Er_setl | apply Er_setc | apply Er_sete | apply Er_ready
    | apply Er_handles | apply Er_timers | apply Er_addlog | apply Er_new_future
    | eapply Er_new_future_eq; [eassumption|]
    | eapply Er_call_at_eq; [eassumption|]
    | eprim
    | case_goal_Er ].
Ltac ego := repeat estep.
(* from an equation E : f ... = (s', r) *)
Ltac eop E := repeat case_in E; inversion E; subst; clear E; ego.

Lemma Er_fold {A} (f : st -> A -> st) :
  (forall s0 s a, Er s0 s -> Er s0 (f s a)) ->
  forall l s0 s, Er s0 s -> Er s0 (fold_left f l s).
Proof. intros H. induction l as [|a l IH]; intros s0 s HG; simpl; auto. Qed.

Lemma Er_schedule_callbacks s0 s f : Er s0 s -> Er s0 (schedule_callbacks s f).
Proof.
  intros H. unfold schedule_callbacks. apply Er_fold; [intros; apply Er_call_soon; auto|]. ego.
Qed.

Lemma Er_fut_finish s0 s f x s' ok : fut_finish s f x = (s', ok) -> Er s0 s -> Er s0 s'.
Proof.
  intros E H. unfold fut_finish in E. destruct (fstate_ (getf s f)); inversion E; subst; auto.
  apply Er_schedule_callbacks. ego.
Qed.
Lemma Er_fut_finish_fst s0 s f x : Er s0 s -> Er s0 (fst (fut_finish s f x)).
Proof. intros H. destruct (fut_finish s f x) eqn:E. eapply Er_fut_finish; eauto. Qed.

Lemma Er_add_done_callback s0 s f c : Er s0 s -> Er s0 (add_done_callback s f c).
Proof. intros H. unfold add_done_callback. ego. Qed.
Lemma Er_remove_done_callback s0 s f c : Er s0 s -> Er s0 (remove_done_callback s f c).
Proof. intros H. unfold remove_done_callback. ego. Qed.

Ltac eprim ::=
  first
    [ eapply Er_fut_finish; [eassumption|]
    | apply Er_fut_finish_fst | apply Er_schedule_callbacks
    | apply Er_add_done_callback | apply Er_remove_done_callback ].

Lemma Er_task_cancel s0 : forall fuel s t s' ok, task_cancel fuel s t = (s', ok) -> Er s0 s -> Er s0 s'.
Proof.
  induction fuel as [|fuel IH]; intros s t s' ok E H; cbn [task_cancel] in E.
  - eop E.
  - repeat case_in E; inversion E; subst; clear E; ego;
      match goal with Hc : task_cancel fuel _ _ = _ |- _ => try (eapply IH in Hc; [|eassumption]) end; ego.
Qed.
Lemma Er_cancel_task s0 s t s' ok : cancel_task s t = (s', ok) -> Er s0 s -> Er s0 s'.
Proof. apply Er_task_cancel. Qed.
Lemma Er_cancel_awaitable s0 s f s' ok : cancel_awaitable s f = (s', ok) -> Er s0 s -> Er s0 s'.
Proof.
  unfold cancel_awaitable. destruct (fowner (getf s f)); [apply Er_cancel_task|apply Er_fut_finish].
Qed.

Ltac eprim ::=
  first
    [ eapply Er_fut_finish; [eassumption|]
    | apply Er_fut_finish_fst | apply Er_schedule_callbacks
    | apply Er_add_done_callback | apply Er_remove_done_callback
    | eapply Er_task_cancel; [eassumption|]
    | eapply Er_cancel_task; [eassumption|]
    | eapply Er_cancel_awaitable; [eassumption|] ].

(* ------------------------------------------------------------ locks *)
Lemma Er_take_lock s0 s l t s' : take_lock s l t = inl s' -> Er s0 s -> Er s0 s'.
Proof. intros E H. unfold take_lock in E. eop E. Qed.

Lemma Er_wake_up_first_p s0 s l : Er s0 s -> Er s0 (wake_up_first_p s l).
Proof. intros H. unfold wake_up_first_p. ego. Qed.
Lemma Er_wake_up_first_a s0 s l : Er s0 s -> Er s0 (wake_up_first_a s l).
Proof. intros H. unfold wake_up_first_a. ego. Qed.
Lemma Er_task_reschedule s0 s t : Er s0 s -> Er s0 (task_reschedule s t).
Proof. intros H. unfold task_reschedule. ego. Qed.

Lemma Er_propagate_task s0 : forall fuel s t, Er s0 s -> Er s0 (propagate_task fuel s t).
Proof.
  induction fuel as [|fuel IH]; intros s t H; cbn [propagate_task].
  - destruct (negb _); auto.
    set (s' := if task_is_runnable s t then task_reschedule s t else s).
    assert (H' : Er s0 s') by (unfold s'; destruct (task_is_runnable s t); [apply Er_task_reschedule|]; auto).
    clearbody s'. clear H s. rename s' into s, H' into H.
    destruct (twaiting _); auto.
  - destruct (negb _); auto.
    set (s' := if task_is_runnable s t then task_reschedule s t else s).
    assert (H' : Er s0 s') by (unfold s'; destruct (task_is_runnable s t); [apply Er_task_reschedule|]; auto).
    clearbody s'. clear H s. rename s' into s, H' into H.
    destruct (twaiting (gett s t)) as [l|]; auto.
    set (s1 := match lowner (getl s l) with Some o => propagate_task fuel s o | None => s end).
    assert (H1 : Er s0 s1) by (unfold s1; destruct (lowner (getl s l)); auto).
    clearbody s1. ego.
Qed.
Lemma Er_propagate_priority s0 s t : Er s0 s -> Er s0 (propagate_priority s t).
Proof. apply Er_propagate_task. Qed.

Lemma Er_fut_result s0 s f s' r : fut_result s f = (s', r) -> Er s0 s -> Er s0 s'.
Proof. intros E H. unfold fut_result in E. eop E. Qed.
Lemma Er_await_fut s0 s f outer s' r : await_fut s f outer = (s', r) -> Er s0 s -> Er s0 s'.
Proof.
  intros E H. unfold await_fut in E. destruct (fdone s f).
  - destruct (fut_result s f) as [s1 r1] eqn:F. inversion E; subst. eapply Er_fut_result; eauto.
  - inversion E; subst. ego.
Qed.

Ltac eprim ::=
  first
    [ eapply Er_fut_finish; [eassumption|]
    | apply Er_fut_finish_fst | apply Er_schedule_callbacks
    | apply Er_add_done_callback | apply Er_remove_done_callback
    | eapply Er_task_cancel; [eassumption|]
    | eapply Er_cancel_task; [eassumption|]
    | eapply Er_cancel_awaitable; [eassumption|]
    | eapply Er_take_lock; [eassumption|]
    | apply Er_wake_up_first_p | apply Er_wake_up_first_a | apply Er_task_reschedule
    | apply Er_propagate_priority
    | eapply Er_fut_result; [eassumption|]
    | eapply Er_await_fut; [eassumption|] ].

Lemma Er_acquire_p_start s0 s t l s' r : acquire_p_start s t l = (s', r) -> Er s0 s -> Er s0 s'.
Proof. intros E H. unfold acquire_p_start in E. eop E. Qed.
Lemma Er_acquire_p_finish s0 s t l f had inp s' r :
  acquire_p_finish s t l f had inp = (s', r) -> Er s0 s -> Er s0 s'.
Proof.
  intros E H. unfold acquire_p_finish in E.
  set (p := match inp with RVal _ => _ | RExc e => (s, RExc e) end) in E.
  assert (H1 : Er s0 (fst p)).
  { unfold p. destruct inp; [|exact H]. destruct (take_lock s l t) eqn:T; [|exact H].
    eapply Er_take_lock; eauto. }
  destruct p as [s1 r1]. cbn [fst] in H1. inversion E; subst. ego.
Qed.
Lemma Er_release_p s0 s t l s' r : release_p s t l = (s', r) -> Er s0 s -> Er s0 s'.
Proof. intros E H. unfold release_p in E. eop E. Qed.
Lemma Er_acquire_a_start s0 s l s' r : acquire_a_start s l = (s', r) -> Er s0 s -> Er s0 s'.
Proof. intros E H. unfold acquire_a_start in E. eop E. Qed.
Lemma Er_acquire_a_finish s0 s l f inp s' r : acquire_a_finish s l f inp = (s', r) -> Er s0 s -> Er s0 s'.
Proof. intros E H. unfold acquire_a_finish in E. eop E. Qed.
Lemma Er_release_a s0 s l s' r : release_a s l = (s', r) -> Er s0 s -> Er s0 s'.
Proof. intros E H. unfold release_a in E. eop E. Qed.
Lemma Er_acquire_start s0 s t l s' r : acquire_start s t l = (s', r) -> Er s0 s -> Er s0 s'.
Proof.
  unfold acquire_start. destruct (lkind_ (getl s l)); [apply Er_acquire_p_start|apply Er_acquire_a_start].
Qed.
Lemma Er_release s0 s t l s' r : release s t l = (s', r) -> Er s0 s -> Er s0 s'.
Proof. unfold release. destruct (lkind_ (getl s l)); [apply Er_release_p|apply Er_release_a]. Qed.

(* ------------------------------------------------------------ throw / reinsert *)
Lemma Er_task_throw s0 s t e s' r : task_throw s t e = (s', r) -> Er s0 s -> Er s0 s'.
Proof. intros E H. unfold task_throw in E. eop E. Qed.
Lemma Er_task_reinsert s0 s t p s' r : task_reinsert s t p = (s', r) -> Er s0 s -> Er s0 s'.
Proof. intros E H. unfold task_reinsert in E. eop E. Qed.
Lemma Er_task_interrupt_start s0 s t e s' r : task_interrupt_start s t e = (s', r) -> Er s0 s -> Er s0 s'.
Proof.
  intros E H. unfold task_interrupt_start in E.
  destruct (task_throw s t e) as [s1 r1] eqn:T. pose proof (Er_task_throw _ _ _ _ _ _ T H) as H1.
  destruct r1; [|inversion E; subst; auto].
  destruct (task_reinsert s1 t 0) as [s2 r2] eqn:R. pose proof (Er_task_reinsert _ _ _ _ _ _ R H1) as H2.
  destruct r2; inversion E; subst; auto.
Qed.
Lemma Er_interruptor s0 : forall fuel s b i s' r, interruptor fuel s b i = (s', r) -> Er s0 s -> Er s0 s'.
Proof.
  induction fuel as [|fuel IH]; intros s b i s' r E H; cbn [interruptor] in E.
  - inversion E; subst; auto.
  - destruct (Nat.leb 3 i); [inversion E; subst; auto|].
    destruct (negb _); [eapply IH; eauto|].
    destruct (task_interrupt_start s _ _) as [s1 r1] eqn:T.
    pose proof (Er_task_interrupt_start _ _ _ _ _ _ T H) as H1.
    repeat case_in E; inversion E; subst; auto; eapply IH; eauto.
Qed.
Lemma interruptor_wrap_fst s r : fst (interruptor_wrap s r) = s.
Proof. unfold interruptor_wrap. destruct r as [[|e]|]; auto. destruct (is_exception e); auto. Qed.
Lemma Er_interruptor_wrap s0 s r s' r' : interruptor_wrap s r = (s', r') -> Er s0 s -> Er s0 s'.
Proof. intros E H. pose proof (interruptor_wrap_fst s r) as F. rewrite E in F. simpl in F. subst. exact H. Qed.

(* ------------------------------------------------------------ conditions *)
Lemma Er_notify_p s0 s c n : Er s0 s -> Er s0 (notify_p s c n).
Proof.
  intros H. unfold notify_p.
  match goal with |- context [fold_left ?F ?l ?a] =>
    assert (HF : Er s0 (fst (fst (fold_left F l a)))) end.
  { match goal with |- context [fold_left ?F ?l ?a] => generalize l; intros l0 end.
    assert (X : forall l (a : st * nat * nat), Er s0 (fst (fst a)) ->
      Er s0 (fst (fst (fold_left (fun '(s1, taken, cnt) (f : nat) =>
               if n <=? cnt then (s1, taken, cnt)
               else if fdone s1 f then (s1, S taken, cnt)
                    else (fst (fut_finish s1 f (FResult 1)), S taken, S cnt)) l a)))).
    { induction l as [|f l IH]; intros [[s1 tk] cnt] Ha; simpl; auto. apply IH.
      destruct (n <=? cnt); auto. destruct (fdone s1 f); auto. simpl. ego. }
    apply X. exact H. }
  destruct (fold_left _ _ _) as [[s1 tk] cnt]. cbn [fst] in HF. ego.
Qed.
Lemma Er_notify_i s0 s c n : Er s0 s -> Er s0 (notify_i s c n).
Proof.
  intros H. unfold notify_i.
  assert (X : forall l (a : st * nat), Er s0 (fst a) ->
    Er s0 (fst (fold_left (fun '(s1, cnt) (f : nat) =>
             if n <=? cnt then (s1, cnt)
             else if fdone s1 f then (s1, cnt)
                  else (fst (fut_finish s1 f (FResult 0)), S cnt)) l a))).
  { induction l as [|f l IH]; intros [s1 cnt] Ha; simpl; auto. apply IH.
    destruct (n <=? cnt); auto. destruct (fdone s1 f); auto. simpl. ego. }
  apply X. exact H.
Qed.
Lemma Er_reacquire s0 s t c pc err body s' r :
  reacquire s t c pc err body = (s', r) -> Er s0 s -> Er s0 s'.
Proof.
  intros E H. unfold reacquire in E.
  destruct (acquire_start s t _) as [s1 r1] eqn:A. pose proof (Er_acquire_start _ _ _ _ _ _ A H).
  repeat case_in E; inversion E; subst; auto.
Qed.
Lemma Er_cond_p_after s0 s c r s' r' : cond_p_after s c r = (s', r') -> Er s0 s -> Er s0 s'.
Proof. intros E H. unfold cond_p_after in E. destruct r; inversion E; subst; auto. apply Er_notify_p; auto. Qed.
Lemma Er_queue_iterated s0 s : Er s0 s -> Er s0 (queue_iterated s).
Proof. intros H. unfold queue_iterated. ego. Qed.

Ltac eprim ::=
  first
    [ eapply Er_fut_finish; [eassumption|]
    | apply Er_fut_finish_fst | apply Er_schedule_callbacks
    | apply Er_add_done_callback | apply Er_remove_done_callback
    | eapply Er_task_cancel; [eassumption|]
    | eapply Er_cancel_task; [eassumption|]
    | eapply Er_cancel_awaitable; [eassumption|]
    | eapply Er_take_lock; [eassumption|]
    | apply Er_wake_up_first_p | apply Er_wake_up_first_a | apply Er_task_reschedule
    | apply Er_propagate_priority
    | eapply Er_fut_result; [eassumption|]
    | eapply Er_await_fut; [eassumption|]
    | eapply Er_acquire_start; [eassumption|]
    | eapply Er_release; [eassumption|]
    | eapply Er_acquire_p_finish; [eassumption|]
    | eapply Er_acquire_a_finish; [eassumption|]
    | eapply Er_task_throw; [eassumption|]
    | eapply Er_task_reinsert; [eassumption|]
    | eapply Er_task_interrupt_start; [eassumption|]
    | eapply Er_interruptor; [eassumption|]
    | eapply Er_interruptor_wrap; [eassumption|]
    | apply Er_notify_p | apply Er_notify_i | apply Er_queue_iterated
    | eapply Er_reacquire; [eassumption|]
    | eapply Er_cond_p_after; [eassumption|] ].

(* ------------------------------------------------------------ timeout blocks *)
Lemma Er_blocks_app s0 s x : Er s0 s -> Er s0 (s <| blocks := blocks s ++ [x] |>).
Proof. apply Er_same; reflexivity. Qed.

Lemma Er_setb_exit s0 s b :
  Er s0 s -> Er s0 (setb s b (mkBlk (btask (getb s b)) false (btimer (getb s b)))).
Proof. apply Er_same; reflexivity. Qed.

(* ------------------------------------------------------------ library calls, frames, user code *)
Lemma Er_event_set_fold s0 : forall ws s,
  Er s0 s -> Er s0 (fold_left (fun s f => if fdone s f then s else fst (fut_finish s f (FResult 1))) ws s).
Proof. intros ws. apply Er_fold. intros. ego. Qed.

Lemma Er_lib_call s0 t op s s' r : lib_call t op s = (s', r) -> Er s0 s -> Er s0 s'.
Proof.
  intros E H. destruct op; cbn [lib_call] in E;
    try (eop E; fail).
  all: try (repeat case_in E; inversion E; subst; auto; apply Er_event_set_fold; ego; fail).
  all: try (repeat case_in E; inversion E; subst; auto; apply Er_blocks_app; ego; fail).
  all: try (inversion E; subst; apply Er_cancel_handle, Er_setb_exit, H).
Qed.

Lemma Er_frame_resume s0 t fr inp s s' r : frame_resume t fr inp s = (s', r) -> Er s0 s -> Er s0 s'.
Proof.
  intros E H. destruct fr; cbn [frame_resume] in E; try (eop E; fail);
    try (unfold interruptor_wrap in E; eop E; fail).
Qed.

Lemma Er_resume_stack s0 t : forall frs inp s s' r,
  resume_stack t frs inp s = (s', r) -> Er s0 s -> Er s0 s'.
Proof.
  induction frs as [|fr rest IH]; intros inp s s' r E H; cbn [resume_stack] in E.
  - inversion E; subst; auto.
  - destruct (frame_resume t fr inp s) as [s1 r1] eqn:F.
    pose proof (Er_frame_resume _ _ _ _ _ _ _ F H) as H1.
    destruct r1; [eapply IH; eauto|inversion E; subst; auto].
Qed.

Lemma Er_new_task s0 s kind p c s' t : new_task s kind p c = (s', t) -> Er s0 s -> Er s0 s'.
Proof.
  intros E H. unfold new_task in E.
  destruct (new_future s (Some (length (tasks s)))) as [s1 f] eqn:N.
  pose proof (Er_new_future_eq _ _ _ _ _ N H) as H1. inversion E; subst. apply Er_call_soon.
  eapply Er_same; [|exact H1]. reflexivity.
Qed.
Lemma Er_spawn_task s0 s how c s' t : spawn_task s how c = (s', t) -> Er s0 s -> Er s0 s'.
Proof. unfold spawn_task. destruct how; apply Er_new_task. Qed.

Lemma Er_exec s0 t : forall c s s' o, exec t c s = (s', o) -> Er s0 s -> Er s0 s'.
Proof.
  induction c as [v|e|op k IH|how child IHc k IHk]; intros s s' o E H.
  - inversion E; subst; auto.
  - inversion E; subst; auto.
  - cbn [exec] in E. destruct (lib_call t op s) as [s1 r1] eqn:L.
    pose proof (Er_lib_call _ _ _ _ _ _ L H) as H1.
    destruct r1; [eapply IH; eauto|inversion E; subst; auto].
  - destruct how; cbn [exec] in E;
      try (destruct (spawn_task s _ child) as [s1 t'] eqn:S;
           pose proof (Er_spawn_task _ _ _ _ _ _ S H) as H1).
    + eapply IHk; eauto.
    + eapply IHk; eauto.
    + eapply IHk; eauto.
    + destruct (lib_call t _ s1) as [s2 r2] eqn:L. pose proof (Er_lib_call _ _ _ _ _ _ L H1) as H2.
      destruct r2 as [[v|e]|]; [eapply IHk; eauto|eapply IHk; eauto|inversion E; subst; auto].
    + inversion E; subst; auto.
    + destruct (exec t child s) as [s1 o1] eqn:C. pose proof (IHc _ _ _ C H) as H1.
      destruct o1 as [r1|y frs kc].
      * eapply IHk; [exact E|]. ego.
      * eapply IHk; [exact E|]. apply Er_call_soon.
        match goal with |- Er s0 (?u <| futs := ?a |> <| tasks := ?b |>) => assert (HU : Er s0 u) end.
        { destruct y; ego. }
        eapply Er_same; [|exact HU]. reflexivity.
Qed.


Lemma Er_finish_step s0 t s o : Er s0 s -> Er s0 (finish_step t s o).
Proof. intros H. unfold finish_step. ego. Qed.

(* ------------------------------------------------------------ where the loop's errors come from *)
(* Task.__step: the only error is InvalidStateError when the task is already done *)
Theorem step_task_errors t exc s :
  errors (step_task t exc s) = if tdone s t then errors s ++ [LEInvalidState] else errors s.
Proof.
  unfold step_task. destruct (tdone s t); [reflexivity|].
  match goal with |- context [sett s t ?x <| current := Some t |>] =>
    set (s1 := sett s t x <| current := Some t |>) end.
  match goal with |- errors (let '(s2, o) := ?p in _) = _ =>
    assert (HP : Er s1 (fst p)); [|destruct p as [sx ox]] end.
  { destruct (tcont_ (gett s t)) as [c|frs k|y frs k| |].
    - destruct (if tmustc (gett s t) then _ else exc); [apply Er_refl|].
      destruct (exec t c s1) as [s2 o] eqn:E. cbn [fst]. eapply Er_exec; [exact E|apply Er_refl].
    - destruct (resume_stack t frs _ s1) as [s2 r] eqn:E.
      pose proof (Er_resume_stack s1 t _ _ _ _ _ E (Er_refl s1)) as H2.
      destruct r; [|exact H2]. destruct (exec t (k r) s2) as [s3 o] eqn:E3. cbn [fst].
      eapply Er_exec; eauto.
    - destruct (if tmustc (gett s t) then _ else exc).
      + destruct (resume_stack t frs _ s1) as [s2 r] eqn:E.
        pose proof (Er_resume_stack s1 t _ _ _ _ _ E (Er_refl s1)) as H2.
        destruct r; [|exact H2]. destruct (exec t (k r) s2) as [s3 o] eqn:E3. cbn [fst].
        eapply Er_exec; eauto.
      + cbn [fst]. destruct y; [apply Er_refl|apply Er_setf, Er_refl].
    - apply Er_refl.
    - apply Er_refl. }
  cbn [fst] in HP. change (errors (finish_step t sx ox) = errors s).
  rewrite (Er_finish_step s1 t sx ox HP). reflexivity.
Qed.

Lemma fut_result_tdone s f s' r t :
  fut_result s f = (s', r) -> tdone s' t = tdone s t /\ errors s' = errors s.
Proof.
  unfold fut_result. intros E. destruct (fstate_ (getf s f)) eqn:Es; try (inversion E; subst; auto; fail).
  destruct (fcexc (getf s f)); inversion E; subst; auto. split; [|reflexivity].
  unfold tdone, fdone. change (gett (setf s f (getf s f <| fcexc := None |>)) t) with (gett s t).
  rewrite getf_setf. destruct (_ && _) eqn:B; [|reflexivity].
  apply andb_prop in B. destruct B as [B _]. apply Nat.eqb_eq in B. rewrite B. reflexivity.
Qed.

Theorem wakeup_errors t f s :
  errors (wakeup t f s) = if tdone s t then errors s ++ [LEInvalidState] else errors s.
Proof.
  unfold wakeup. destruct (fstate_ (getf s f)); try apply step_task_errors.
  destruct (fut_result s f) as [s' r] eqn:E. destruct (fut_result_tdone s f s' r t E) as [E1 E2].
  rewrite step_task_errors, E1, E2. reflexivity.
Qed.

(* one callback: a step/wake-up of a done task (InvalidStateError), a _task_reinsert callback whose
   task is not in the queue (ValueError), nothing else *)
Theorem run_callback_errors c s :
  errors (run_callback c s) =
  match c with
  | HStep t _ | HWakeup t _ => if tdone s t then errors s ++ [LEInvalidState] else errors s
  | HReinsert t p => match rq_find (ready s) (task_key s t) true with
                     | Some _ => errors s | None => errors s ++ [LEValue] end
  | _ => errors s
  end.
Proof.
  destruct c as [t e|t f|t p|n|f v|b| |t]; cbn [run_callback].
  - apply step_task_errors.
  - apply wakeup_errors.
  - unfold task_reinsert. destruct (rq_find _ _ _) as [[h r]|]; reflexivity.
  - reflexivity.
  - apply (Er_fut_finish_fst s s f (FResult v) (Er_refl s)).
  - destruct (new_task s KC None (interruptor_body b)) as [s1 t1] eqn:E.
    apply (Er_new_task s s _ _ _ _ _ E (Er_refl s)).
  - apply (Er_queue_iterated s _ (Er_addlog s s _ (Er_refl s))).
  - destruct (cancel_task s t) as [s1 ok] eqn:E. apply (Er_cancel_task s s t s1 ok E (Er_refl s)).
Qed.

Theorem run_one_errors s :
  errors (run_one s) =
  match rq_popleft (ready s) with
  | None => errors s
  | Some (h, r) => if hcancelled (geth s h) then errors s
                   else errors (run_callback (hcb (geth s h)) (s <| ready := r |>))
  end.
Proof.
  unfold run_one. destruct (rq_popleft (ready s)) as [[h r]|]; [|reflexivity].
  change (geth (s <| ready := r |>) h) with (geth s h). destruct (hcancelled (geth s h)); reflexivity.
Qed.

(* every environment action other than a loop step leaves the errors alone *)
Theorem action_errors s a : a <> AStep -> errors (do_action s a) = errors s.
Proof.
  intros N. destruct a as [| |d|how c|op]; [congruence| | | |]; cbn [do_action].
  - unfold begin_iteration. generalize (length (timers s)). intros n.
    assert (D : forall fuel u, errors (drop_cancelled fuel u) = errors u).
    { induction fuel as [|fuel IH]; intros u; cbn [drop_cancelled]; auto.
      destruct (timers u) as [|[w h] tl]; auto. destruct (hcancelled _); auto.
      destruct (HeapqModel.heappop _ _ _) as [[x tm]|]; auto. rewrite IH. reflexivity. }
    assert (M : forall fuel u, errors (move_due fuel u) = errors u).
    { induction fuel as [|fuel IH]; intros u; cbn [move_due]; auto.
      destruct (timers u) as [|[w h] tl]; auto. destruct (Qle_bool _ _); auto.
      destruct (HeapqModel.heappop _ _ _) as [[[x h'] tm]|]; auto. rewrite IH. reflexivity. }
    rewrite M, D. reflexivity.
  - reflexivity.
  - destruct (spawn_task s how c) as [s1 t] eqn:E. apply (Er_spawn_task s s _ _ _ _ E (Er_refl s)).
  - destruct (lib_call 0 op s) as [s1 r] eqn:E. apply (Er_lib_call s 0 op s s1 r E (Er_refl s)).
Qed.
