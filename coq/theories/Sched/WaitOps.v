(* The operations that change the tables read by [WI]: joining / leaving a PriorityLock's
   waiter queue, `set_waiting_on`, and the waiter queues of the conditions. *)
From Coq Require Import QArith Sorting.Permutation.
From RecordUpdate Require Import RecordUpdate.
From Asynkit Require Import Base.Prelude Queue.PQ Queue.Order Queue.ListFacts Queue.PQProofs Queue.PosPQ Queue.Exec
  Sched.Model Sched.Tables Sched.QFacts Sched.LockInv Sched.Footprint Sched.LockOps Sched.LockLib
  Sched.LockProofs Sched.InheritEprio Sched.InheritHandover Sched.InheritKeys Sched.WaitInv.
Import RecordSetNotations.
Open Scope nat_scope.

(* ------------------------------------------------------------ lists of rows *)
Definition notf (f : nat) (pr : nat * nat) : bool := negb (Nat.eqb (fst pr) f).

Lemma in_filter_row (rw : list (nat * nat)) f g u :
  In (g, u) (filter (notf f) rw) <-> In (g, u) rw /\ g <> f.
Proof.
  rewrite filter_In. unfold notf. simpl. rewrite negb_true_iff, Nat.eqb_neq. tauto.
Qed.

Lemma in_map_fst_filter (rw : list (nat * nat)) f g :
  In g (map fst (filter (notf f) rw)) <-> In g (map fst rw) /\ g <> f.
Proof.
  rewrite !in_map_iff. split.
  - intros ([g' u] & E & H). simpl in E. subst g'. apply in_filter_row in H as [H Hne].
    split; auto. exists (g, u). auto.
  - intros [([g' u] & E & H) Hne]. simpl in E. subst g'. exists (g, u). split; auto.
    apply in_filter_row. auto.
Qed.

Lemma NoDup_map_fst_filter (rw : list (nat * nat)) p : NoDup (map fst rw) -> NoDup (map fst (filter p rw)).
Proof.
  induction rw as [|x rw IH]; simpl; intros H; [constructor|].
  inversion H as [|? ? Hn Hd]; subst. destruct (p x); simpl; auto.
  constructor; auto. intros Hin. apply Hn. apply in_map_iff in Hin as (y & E & Hy).
  apply filter_In in Hy as [Hy _]. apply in_map_iff. eauto.
Qed.

Lemma rows_unique (rw : list (nat * nat)) f u u' :
  NoDup (map fst rw) -> In (f, u) rw -> In (f, u') rw -> u = u'.
Proof.
  intros Hnd H1 H2. assert ((f, u) = (f, u')) as E by (eapply NoDup_map_inj_in; eauto). congruence.
Qed.

Lemma NoDup_app_snoc {A} (l : list A) h : NoDup l -> ~ In h l -> NoDup (l ++ [h]).
Proof.
  intros Hl Hh. apply NoDup_rev in Hl. rewrite <- (rev_involutive (l ++ [h])). apply NoDup_rev.
  rewrite rev_app_distr. simpl. constructor; auto. now rewrite <- in_rev.
Qed.

Lemma find_filter_notf (rw : list (nat * nat)) f g :
  g <> f ->
  find (fun p => Nat.eqb (fst p) g) (filter (notf f) rw) = find (fun p => Nat.eqb (fst p) g) rw.
Proof.
  intros Hne. induction rw as [|[a b] rw IH]; simpl; auto. unfold notf at 1. simpl.
  destruct (Nat.eqb a f) eqn:Ea; simpl.
  - apply Nat.eqb_eq in Ea. subst a. assert (Nat.eqb f g = false) as -> by (apply Nat.eqb_neq; auto). exact IH.
  - destruct (Nat.eqb a g); auto.
Qed.

Lemma find_app_old (rw : list (nat * nat)) g u x :
  In (g, u) rw ->
  find (fun p => Nat.eqb (fst p) g) (rw ++ [x]) = find (fun p => Nat.eqb (fst p) g) rw.
Proof.
  intros Hin. induction rw as [|[a b] rw IH]; [destruct Hin|]. simpl.
  destruct (Nat.eqb a g) eqn:Ea; auto. apply IH. destruct Hin as [E|H]; auto.
  inversion E; subst. rewrite Nat.eqb_refl in Ea. discriminate.
Qed.

Lemma find_app_new (rw : list (nat * nat)) f t :
  ~ In f (map fst rw) -> find (fun p => Nat.eqb (fst p) f) (rw ++ [(f, t)]) = Some (f, t).
Proof.
  intros Hn. induction rw as [|[a b] rw IH]; simpl.
  - now rewrite Nat.eqb_refl.
  - simpl in Hn. destruct (Nat.eqb a f) eqn:Ea; [apply Nat.eqb_eq in Ea; tauto|]. apply IH. tauto.
Qed.

Lemma in_rows_fst (rw : list (nat * nat)) f u : In (f, u) rw -> In f (map fst rw).
Proof. intros H. apply in_map_iff. exists (f, u). auto. Qed.

(* ------------------------------------------------------------ one task's _waiting_on *)
Lemma WIx_sett_waiting ne X X' R s t w :
  WIx ne X R s ->
  (forall l f, In (f, t) (rows s l) -> is_prio_task s t = true -> w = Some l /\ ~ X' t) ->
  (forall x, x <> t -> (X' x <-> X x)) ->
  (ne = true -> ~ X' t -> is_prio_task s t = true -> forall l, w = Some l ->
   exists f, In (f, t) (rows s l)) ->
  WIx ne X' R (sett s t (gett s t <| twaiting := w |>)).
Proof.
  intros W H1 HX H2. set (s' := sett s t (gett s t <| twaiting := w |>)).
  assert (Hp : forall t0, is_prio_task s' t0 = is_prio_task s t0).
  { intros t0. unfold is_prio_task, s'. rewrite gett_sett.
    destruct (Nat.eqb t t0 && Nat.ltb t (length (tasks s)))%bool eqn:E; auto.
    apply andb_prop in E as [E _]. apply Nat.eqb_eq in E. now subst t0. }
  assert (Hfr : forall t0, tcont_ (gett s' t0) = tcont_ (gett s t0)).
  { intros t0. unfold s'. rewrite gett_sett.
    destruct (Nat.eqb t t0 && Nat.ltb t (length (tasks s)))%bool eqn:E; auto.
    apply andb_prop in E as [E _]. apply Nat.eqb_eq in E. now subst t0. }
  assert (Hh : forall t0 fr, hasfr s' R t0 fr <-> hasfr s R t0 fr).
  { intros t0 fr. unfold hasfr, tframes. rewrite Hfr. tauto. }
  assert (Hw : forall t0, t0 <> t -> twaiting (gett s' t0) = twaiting (gett s t0)).
  { intros t0 Hne. unfold s'. rewrite gett_sett_other; auto. }
  assert (Hwt : t < length (tasks s) -> twaiting (gett s' t) = w).
  { intros Ht. unfold s'. rewrite gett_sett_same; auto. }
  constructor.
  - apply (w_nodup W).
  - apply (w_objs W).
  - intros l f t0 H. unfold s'. rewrite sett_len. apply (w_range W _ _ _ H).
  - intros l f t0 Hin Hpr. rewrite Hp in Hpr. destruct (Nat.eq_dec t0 t) as [->|Hne].
    + rewrite Hwt by (apply (w_range W _ _ _ Hin)). apply (H1 l f); auto.
    + rewrite Hw by auto. destruct (w_wait W _ _ _ Hin Hpr). split; auto. now rewrite HX.
  - intros l f f' t0 A B Hpr. rewrite Hp in Hpr. eapply (w_one W); eauto.
  - intros t0 l f had Hf. apply Hh in Hf. destruct (w_frame W _ _ _ _ Hf) as (u & A & B & C & D).
    exists u. rewrite !Hp. auto.
  - intros l f u Hin. destruct (w_row W _ _ _ Hin) as (t0 & had & Hf). exists t0, had. now apply Hh.
  - intros Hne. unfold s'. rewrite sett_len. apply (w_rt W Hne).
  - intros Hne t0. rewrite Hfr. apply (w_necont W Hne).
  - intros Hne t0 l Hx Hpr Hwt0. rewrite Hp in Hpr. destruct (Nat.eq_dec t0 t) as [->|Hn].
    + destruct (Nat.lt_ge_cases t (length (tasks s))) as [Ht|Ht].
      * rewrite Hwt in Hwt0 by auto. eapply H2; eauto.
      * rewrite is_prio_oob in Hpr by auto. discriminate.
    + rewrite Hw in Hwt0 by auto. apply (w_newait W Hne t0 l); auto. now rewrite <- HX.
  - intros Hne. apply (KF_transfer s s'); [auto|auto|auto| |exact (w_key W Hne)].
    intros l e _. cbv zeta. unfold s'. rewrite gett_sett.
    destruct (Nat.eqb t _ && Nat.ltb t (length (tasks s)))%bool eqn:E; auto.
    apply andb_prop in E as [E _]. apply Nat.eqb_eq in E. rewrite <- E. auto.
  - apply (w_cq W).
  - apply (w_cd W).
  - apply (w_cf W).
  - intros t0 fr c Hf. apply Hh in Hf. apply (w_cw W t0 fr c Hf).
Qed.

(* an update of fields the invariant does not read, or of the held locks / priority of a task
   that has no row *)
Lemma WIx_sett_own ne X R s t x :
  twaiting x = twaiting (gett s t) -> tcont_ x = tcont_ (gett s t) ->
  (match tprio x with Some _ => true | None => false end = is_prio_task s t) ->
  (ne = true -> forall l f, ~ In (f, t) (rows s l)) ->
  WIx ne X R s -> WIx ne X R (sett s t x).
Proof.
  intros Ew Ec Ep Hnr W. set (s' := sett s t x).
  assert (Hp : forall t0, is_prio_task s' t0 = is_prio_task s t0).
  { intros t0. unfold is_prio_task, s'. rewrite gett_sett.
    destruct (Nat.eqb t t0 && Nat.ltb t (length (tasks s)))%bool eqn:E; auto.
    apply andb_prop in E as [E _]. apply Nat.eqb_eq in E. now subst t0. }
  assert (Hfr : forall t0, tcont_ (gett s' t0) = tcont_ (gett s t0)).
  { intros t0. unfold s'. rewrite gett_sett.
    destruct (Nat.eqb t t0 && Nat.ltb t (length (tasks s)))%bool eqn:E; auto.
    apply andb_prop in E as [E _]. apply Nat.eqb_eq in E. now subst t0. }
  assert (Hw : forall t0, twaiting (gett s' t0) = twaiting (gett s t0)).
  { intros t0. unfold s'. rewrite gett_sett.
    destruct (Nat.eqb t t0 && Nat.ltb t (length (tasks s)))%bool eqn:E; auto.
    apply andb_prop in E as [E _]. apply Nat.eqb_eq in E. now subst t0. }
  assert (Hh : forall t0 fr, hasfr s' R t0 fr <-> hasfr s R t0 fr).
  { intros t0 fr. unfold hasfr, tframes. rewrite Hfr. tauto. }
  constructor.
  - apply (w_nodup W).
  - apply (w_objs W).
  - intros l f t0 H. unfold s'. rewrite sett_len. apply (w_range W _ _ _ H).
  - intros l f t0 Hin Hpr. rewrite Hp in Hpr. rewrite Hw. apply (w_wait W _ _ _ Hin Hpr).
  - intros l f f' t0 A B Hpr. rewrite Hp in Hpr. eapply (w_one W); eauto.
  - intros t0 l f had Hf. apply Hh in Hf. destruct (w_frame W _ _ _ _ Hf) as (u & A & B & C & D).
    exists u. rewrite !Hp. auto.
  - intros l f u Hin. destruct (w_row W _ _ _ Hin) as (t0 & had & Hf). exists t0, had. now apply Hh.
  - intros Hne. unfold s'. rewrite sett_len. apply (w_rt W Hne).
  - intros Hne t0. rewrite Hfr. apply (w_necont W Hne).
  - intros Hne t0 l Hx Hpr Hwt0. rewrite Hp in Hpr. rewrite Hw in Hwt0. apply (w_newait W Hne t0 l); auto.
  - intros Hne. apply (KF_transfer s s'); [auto|auto|auto| |exact (w_key W Hne)].
    intros l e He. cbv zeta. pose proof (rtask_row _ _ _ _ l e W He) as Hrow.
    unfold s'. rewrite gett_sett_other; auto. intros E. rewrite <- E in Hrow. eapply (Hnr Hne); eauto.
  - apply (w_cq W).
  - apply (w_cd W).
  - apply (w_cf W).
  - intros t0 fr c Hf. apply Hh in Hf. apply (w_cw W t0 fr c Hf).
Qed.

(* ------------------------------------------------------------ leaving the queue *)
Lemma setl_rows s l lk' l0 :
  l < length (locks s) -> rows (setl s l lk') l0 = if Nat.eqb l0 l then lwt lk' else rows s l0.
Proof.
  intros Hl. unfold rows. rewrite getl_setl. apply Nat.ltb_lt in Hl. rewrite Hl, andb_true_r.
  rewrite Nat.eqb_sym. destruct (Nat.eqb l0 l); reflexivity.
Qed.
Lemma setl_objs s l lk' l0 :
  l < length (locks s) -> objs (setl s l lk') l0 = if Nat.eqb l0 l then pq_objs (lpq lk') else objs s l0.
Proof.
  intros Hl. unfold objs. rewrite getl_setl. apply Nat.ltb_lt in Hl. rewrite Hl, andb_true_r.
  rewrite Nat.eqb_sym. destruct (Nat.eqb l0 l); reflexivity.
Qed.

Lemma WIx_leave ne t l f had rest s p q' :
  qwf (lpq (getl s l)) -> l < length (locks s) -> t < length (tasks s) ->
  pq_remove HQ (lpq (getl s l)) (Z.of_nat f) = Some (p, q') ->
  no_frame s f -> no_acq rest ->
  WI ne (t, InAcquireP l f had :: rest) s ->
  WIx ne (fun x => x = t /\ had = true) (t, rest)
      (setl s l (getl s l <| lpq := q' |> <| lwt := filter (notf f) (lwt (getl s l)) |>)).
Proof.
  intros Hq Hl Ht Er Hnf Hna W.
  set (lk' := getl s l <| lpq := q' |> <| lwt := filter (notf f) (lwt (getl s l)) |>).
  set (s' := setl s l lk').
  destruct (qwf_remove _ _ _ _ Hq Er) as (Hq' & Hp & Hnin).
  assert (Hob : forall g, In g (pq_objs q') <-> In g (objs s l) /\ g <> f).
  { intros g. split.
    - intros Hg. split; [eapply Permutation_in; [apply Permutation_sym; exact Hp|now right]|].
      intros ->. contradiction.
    - intros [Hg Hne]. eapply Permutation_in in Hg; [|exact Hp]. destruct Hg as [<-|Hg]; [congruence|auto]. }
  assert (Hrow : forall l0 g u, In (g, u) (rows s' l0) <-> In (g, u) (rows s l0) /\ (l0 = l -> g <> f)).
  { intros l0 g u. unfold s'. rewrite setl_rows by auto. destruct (Nat.eqb l0 l) eqn:E.
    - apply Nat.eqb_eq in E. subst l0. cbn. rewrite in_filter_row. unfold rows. tauto.
    - apply Nat.eqb_neq in E. tauto. }
  assert (Hh : forall t0 fr, hasfr s' (t, rest) t0 fr -> hasfr s (t, InAcquireP l f had :: rest) t0 fr).
  { intros t0 fr [H|[H1 H2]]; [now left|right]. simpl in *. auto. }
  (* the row of the popped frame *)
  destruct (w_frame W t l f had) as (u & Hu & Ehad & Hup & Hune).
  { right. simpl. auto. }
  constructor.
  - intros l0. unfold s'. rewrite setl_rows by auto. destruct (Nat.eqb l0 l); [|apply (w_nodup W)].
    cbn. apply NoDup_map_fst_filter. apply (w_nodup W l).
  - intros l0 g. unfold s'. rewrite setl_rows, setl_objs by auto. destruct (Nat.eqb l0 l) eqn:E; [|apply (w_objs W)].
    apply Nat.eqb_eq in E. subst l0. cbn. rewrite in_map_fst_filter, Hob.
    pose proof (w_objs W l g) as H. unfold rows in H. tauto.
  - intros l0 g t0 H. apply Hrow in H as [H _]. apply (w_range W _ _ _ H).
  - intros l0 g t0 H Hpr. apply Hrow in H as [H Hne]. destruct (w_wait W _ _ _ H Hpr) as [Hw _].
    split; [exact Hw|]. intros [-> Eh].
    (* t is a PriorityTask with had: its only row was (f, t) in l *)
    specialize (Hup Hpr). subst u.
    destruct (w_wait W _ _ _ Hu Hpr) as [Hw' _]. assert (l0 = l) by congruence. subst l0.
    apply (Hne eq_refl). eapply (w_one W); eauto.
  - intros l0 g g' t0 A B Hpr. apply Hrow in A as [A _]. apply Hrow in B as [B _]. eapply (w_one W); eauto.
  - intros t0 l0 g had0 Hf. pose proof (Hh _ _ Hf) as Hf0.
    destruct (w_frame W _ _ _ _ Hf0) as (u0 & A & B & C & D). exists u0. split; auto.
    apply Hrow. split; auto. intros -> ->.
    destruct Hf as [Hf|[_ Hf]]; [eapply Hnf; eauto|]. simpl in Hf. eapply no_acq_in; eauto.
  - intros l0 g u0 H. apply Hrow in H as [H Hne]. destruct (w_row W _ _ _ H) as (t0 & had0 & Hf).
    exists t0, had0. destruct Hf as [Hf|[E Hf]]; [now left|]. simpl in E, Hf. destruct Hf as [Hf|Hf].
    + inversion Hf; subst. exfalso. now apply Hne.
    + right. simpl. auto.
  - intros _. exact Ht.
  - apply (w_necont W).
  - intros Hne t0 l0 Hx Hpr Hw. change (is_prio_task s' t0) with (is_prio_task s t0) in Hpr.
    destruct (w_newait W Hne t0 l0 (fun F => F) Hpr Hw) as (g & Hg).
    exists g. apply Hrow. split; auto. intros -> ->.
    pose proof (rows_unique _ _ _ _ (w_nodup W l) Hu Hg) as E. specialize (Hune Hne).
    apply Hx. split; congruence.
  - intros Hne.
    assert (Hent : forall l0 e, In e (arr (lpq (getl s' l0))) ->
              In e (arr (lpq (getl s l0))) /\ (l0 = l -> Z.to_nat (eobj e) <> f)).
    { intros l0 e He. unfold s' in He. rewrite getl_setl in He. apply Nat.ltb_lt in Hl. rewrite Hl, andb_true_r in He.
      destruct (Nat.eqb l l0) eqn:E.
      - apply Nat.eqb_eq in E. subst l0. cbn in He. destruct Hq as (Hi & _).
        destruct (pq_remove_perm _ _ _ _ Hi Er) as (_ & e0 & _ & Hpe). split.
        + eapply Permutation_in; [apply Permutation_sym; exact Hpe|now right].
        + intros _ Ef. apply Hnin. rewrite <- Ef. unfold pq_objs.
          apply (in_map (fun e1 : entry Q => Z.to_nat (eobj e1))). exact He.
      - apply Nat.eqb_neq in E. split; [auto|intros E2; congruence]. }
    apply (KF_transfer s s'); [intros l0 e He; apply (Hent l0 e He)| |auto|auto|exact (w_key W Hne)].
    intros l0 e He. destruct (Hent l0 e He) as [_ Hne0]. unfold rtask, s'. rewrite getl_setl.
    apply Nat.ltb_lt in Hl. rewrite Hl, andb_true_r. destruct (Nat.eqb l l0) eqn:E; auto.
    apply Nat.eqb_eq in E. subst l0. unfold task_of_fut. cbn. rewrite find_filter_notf; auto.
  - apply (w_cq W).
  - apply (w_cd W).
  - intros c g H. destruct (w_cf W c g H) as (A & B & C). split; auto. split; auto.
    unfold s', setl. cbn. now rewrite set_nth_length.
  - intros t0 fr c Hf Ec. pose proof (w_cw W t0 fr c (Hh _ _ Hf) Ec) as Hk. unfold cok in *.
    unfold s', setl. cbn. now rewrite set_nth_length.
Qed.

(* ------------------------------------------------------------ joining the queue *)
Lemma WIx_join ne X t l f (had : bool) P s pr :
  l < length (locks s) -> t < length (tasks s) -> ~ In f (objs s l) ->
  had = is_prio_task s t ->
  (forall x, X x <-> x = t /\ had = true) ->
  (had = true -> twaiting (gett s t) = Some l) ->
  (ne = true -> tholding (gett s t) = [] -> (pr == own s t)%Q) -> PQInv (lpq (getl s l)) ->
  WIx ne X (t, P) s ->
  WI ne (t, InFut f :: InAcquireP l f had :: P)
     (setl s l (getl s l <| lpq := pq_add HQ (lpq (getl s l)) pr (Z.of_nat f) |>
                         <| lwt := lwt (getl s l) ++ [(f, t)] |>)).
Proof.
  intros Hl Ht Hnin Ehad HX Hwt Hpr0 Hinv W.
  set (lk' := getl s l <| lpq := pq_add HQ (lpq (getl s l)) pr (Z.of_nat f) |> <| lwt := lwt (getl s l) ++ [(f, t)] |>).
  set (s' := setl s l lk').
  assert (Hrow : forall l0 g u, In (g, u) (rows s' l0) <-> In (g, u) (rows s l0) \/ (l0 = l /\ g = f /\ u = t)).
  { intros l0 g u. unfold s'. rewrite setl_rows by auto. destruct (Nat.eqb l0 l) eqn:E.
    - apply Nat.eqb_eq in E. subst l0. cbn. rewrite in_app_iff. simpl. unfold rows.
      split; intros [H|H]; auto.
      + destruct H as [H|[]]. inversion H; subst. auto.
      + destruct H as (_ & -> & ->). auto.
    - apply Nat.eqb_neq in E. split; auto. intros [H|[H _]]; auto. contradiction. }
  assert (Hnorow : had = true -> forall l0 g, ~ In (g, t) (rows s l0)).
  { intros Eh l0 g Hin. assert (Hp : is_prio_task s t = true) by congruence.
    destruct (w_wait W _ _ _ Hin Hp) as [_ Hx]. apply Hx. apply HX. auto. }
  assert (Hnf : ~ In f (map fst (rows s l))) by (rewrite (w_objs W); exact Hnin).
  constructor.
  - intros l0. unfold s'. rewrite setl_rows by auto. destruct (Nat.eqb l0 l); [|apply (w_nodup W)].
    cbn. rewrite map_app. simpl. apply NoDup_app_snoc; [apply (w_nodup W l)|exact Hnf].
  - intros l0 g. unfold s'. rewrite setl_rows, setl_objs by auto. destruct (Nat.eqb l0 l) eqn:E; [|apply (w_objs W)].
    apply Nat.eqb_eq in E. subst l0. cbn. rewrite map_app, in_app_iff. simpl.
    pose proof (w_objs W l g) as H. unfold rows in H. split.
    + intros [Hg|[<-|[]]].
      * eapply Permutation_in; [apply Permutation_sym, pq_objs_add|]. right. now apply H.
      * eapply Permutation_in; [apply Permutation_sym, pq_objs_add|]. now left.
    + intros Hg. apply pq_add_in in Hg as [->|Hg]; [right; now left|left; now apply H].
  - intros l0 g u H. apply Hrow in H as [H|(_ & _ & ->)]; [apply (w_range W _ _ _ H)|exact Ht].
  - intros l0 g u H Hpr. change (is_prio_task s' u) with (is_prio_task s u) in Hpr.
    change (gett s' u) with (gett s u). apply Hrow in H as [H|(-> & -> & ->)].
    + destruct (w_wait W _ _ _ H Hpr). split; auto.
    + split; auto. apply Hwt. congruence.
  - intros l0 g g' u A B Hpr. change (is_prio_task s' u) with (is_prio_task s u) in Hpr.
    apply Hrow in A as [A|(-> & -> & ->)]; apply Hrow in B as [B|(E1 & -> & E3)].
    + eapply (w_one W); eauto.
    + subst l0 u. exfalso. assert (Eh : is_prio_task s t = true -> False).
      { intros Eh. rewrite <- Ehad in Eh. eapply (Hnorow Eh); eauto. }
      apply Eh. exact Hpr.
    + exfalso. assert (Eh : is_prio_task s t = true -> False).
      { intros Eh. rewrite <- Ehad in Eh. eapply (Hnorow Eh); eauto. }
      apply Eh. exact Hpr.
    + reflexivity.
  - intros t0 l0 g had0 Hf. change (is_prio_task s' t0) with (is_prio_task s t0).
    assert (Hc : hasfr s (t, P) t0 (InAcquireP l0 g had0) \/ (t0 = t /\ l0 = l /\ g = f /\ had0 = had)).
    { destruct Hf as [Hf|[E Hf]]; [left; now left|]. simpl in E, Hf.
      destruct Hf as [Hf|[Hf|Hf]]; [discriminate| |left; right; auto].
      inversion Hf; subst. auto. }
    destruct Hc as [Hc|(-> & -> & -> & ->)].
    + destruct (w_frame W _ _ _ _ Hc) as (u0 & A & B & C & D). exists u0. split; [apply Hrow; auto|].
      change (is_prio_task s' u0) with (is_prio_task s u0). auto.
    + exists t. split; [apply Hrow; auto|]. change (is_prio_task s' t) with (is_prio_task s t). auto.
  - intros l0 g u H. apply Hrow in H as [H|(-> & -> & ->)].
    + destruct (w_row W _ _ _ H) as (t0 & had0 & Hf). exists t0, had0.
      destruct Hf as [Hf|[E Hf]]; [now left|]. right. simpl in *. auto.
    + exists t, had. right. simpl. auto.
  - intros _. exact Ht.
  - apply (w_necont W).
  - intros Hne t0 l0 _ Hpr Hw. change (is_prio_task s' t0) with (is_prio_task s t0) in Hpr.
    change (gett s' t0) with (gett s t0) in Hw. destruct (Nat.eq_dec t0 t) as [->|Hn].
    + exists f. apply Hrow. right. assert (Eh : had = true) by congruence.
      rewrite (Hwt Eh) in Hw. split; [congruence|auto].
    + destruct (w_newait W Hne t0 l0) as (g & Hg); auto.
      * intros Hx. apply HX in Hx as [E _]. contradiction.
      * exists g. apply Hrow. auto.
  - intros Hne l0 e He Hd Hh. change (fdone s' (Z.to_nat (eobj e))) with (fdone s (Z.to_nat (eobj e))) in Hd.
    assert (Hown : forall u, own s' u = own s u) by reflexivity. rewrite Hown.
    change (gett s' (rtask s' l0 (Z.to_nat (eobj e)))) with (gett s (rtask s' l0 (Z.to_nat (eobj e)))) in Hh.
    unfold s' in He. rewrite getl_setl in He. pose proof Hl as Hlb. apply Nat.ltb_lt in Hlb.
    rewrite Hlb, andb_true_r in He.
    assert (Ert : l0 <> l -> rtask s' l0 (Z.to_nat (eobj e)) = rtask s l0 (Z.to_nat (eobj e))).
    { intros Hn. unfold rtask, s'. now rewrite getl_setl_other by auto. }
    destruct (Nat.eqb l l0) eqn:E.
    + apply Nat.eqb_eq in E. subst l0. cbn in He.
      eapply Permutation_in in He; [|apply (add_perm HQ HQ_spec)]. destruct He as [<-|He].
      * cbn [eobj epri] in *. rewrite Nat2Z.id in *.
        assert (Et : rtask s' l f = t).
        { unfold rtask, s'. rewrite getl_setl_same by auto. unfold task_of_fut. cbn.
          pose proof (find_app_new (lwt (getl s l)) f t Hnf) as Ef. now rewrite Ef. }
        rewrite Et in *. now apply Hpr0.
      * pose proof (rtask_row _ _ _ _ l e W He) as Hrow0.
        assert (Et : rtask s' l (Z.to_nat (eobj e)) = rtask s l (Z.to_nat (eobj e))).
        { unfold rtask at 1. unfold s'. rewrite getl_setl_same by auto. unfold task_of_fut at 1. cbn.
          pose proof (find_app_old (lwt (getl s l)) _ _ (f, t) Hrow0) as Ef. rewrite Ef. reflexivity. }
        rewrite Et in *. apply (w_key W Hne l e He Hd Hh).
    + apply Nat.eqb_neq in E. rewrite Ert in * by auto. apply (w_key W Hne l0 e He Hd Hh).
  - apply (w_cq W).
  - apply (w_cd W).
  - intros c g H. destruct (w_cf W c g H) as (A & B & C). split; auto. split; auto.
    unfold s', setl. cbn. now rewrite set_nth_length.
  - intros t0 fr c Hf Ec.
    assert (Hf0 : hasfr s (t, P) t0 fr).
    { destruct Hf as [Hf|[E Hf]]; [now left|right]. simpl in E, Hf. split; auto. simpl.
      destruct Hf as [Hf|[Hf|Hf]]; auto; subst fr; discriminate. }
    pose proof (w_cw W t0 fr c Hf0 Ec) as Hk. unfold cok in *.
    unfold s', setl. cbn. now rewrite set_nth_length.
Qed.

(* ------------------------------------------------------------ release *)
Lemma release_p_W ne X R s t l :
  (ne = true -> forall l0 f, ~ In (f, t) (rows s l0)) ->
  WIx ne X R s -> WIx ne X R (fst (release_p s t l)).
Proof.
  intros Hnr W. unfold release_p. destruct (negb (llocked (getl s l))); [exact W|].
  destruct (lowner (getl s l)); [|exact W]. destruct (negb (Nat.eqb n t)); [exact W|].
  cbn [fst].
  set (s1 := setl s l (getl s l <| lowner := None |>)).
  assert (K1 : wk s s1) by (apply wk_setl; reflexivity).
  pose proof (WI_wk _ _ _ _ _ K1 W) as W1.
  set (s2 := if is_prio_task s1 t then sett s1 t _ else s1).
  assert (W2 : WIx ne X R s2).
  { unfold s2. destruct (is_prio_task s1 t) eqn:Ep; [|exact W1].
    apply WIx_sett_own; auto.
    intros Hne l0 f. rewrite (k_rows K1). now apply Hnr. }
  eapply WI_wk; [apply wk_wake_p|]. eapply WI_wk; [apply wk_setl; reflexivity|exact W2].
Qed.

Lemma release_W ne X R s t l :
  (ne = true -> forall l0 f, ~ In (f, t) (rows s l0)) ->
  WIx ne X R s -> WIx ne X R (fst (release s t l)).
Proof.
  intros Hnr W. unfold release. destruct (lkind_ (getl s l)); [now apply release_p_W|].
  eapply WI_wk; [apply wk_release_a|exact W].
Qed.

Lemma release_aux s t l :
  length (locks (fst (release s t l))) = length (locks s) /\
  (forall g, g < length (futs s) -> fowner (getf (fst (release s t l)) g) = fowner (getf s g)).
Proof.
  unfold release. destruct (lkind_ (getl s l)).
  2:{ pose proof (wk_release_a s l) as K. split; [apply (k_nlocks K)|apply (k_fowner K)]. }
  unfold release_p. destruct (negb (llocked (getl s l))); [auto|].
  destruct (lowner (getl s l)); [|auto]. destruct (negb (Nat.eqb n t)); [auto|].
  cbn [fst].
  set (s1 := setl s l (getl s l <| lowner := None |>)).
  assert (K1 : wk s s1) by (apply wk_setl; reflexivity).
  set (s2 := if is_prio_task s1 t then sett s1 t _ else s1).
  assert (E2 : locks s2 = locks s1 /\ futs s2 = futs s1) by (unfold s2; destruct (is_prio_task s1 t); auto).
  destruct E2 as [E2l E2f].
  set (s3 := setl s2 l (getl s2 l <| llocked := false |>)).
  assert (K3 : wk s2 s3) by (apply wk_setl; reflexivity).
  pose proof (wk_wake_p s3 l) as K4. pose proof (wk_trans _ _ _ K3 K4) as K34.
  split.
  - rewrite (k_nlocks K34), E2l. apply (k_nlocks K1).
  - intros g Hg. rewrite (k_fowner K34) by (rewrite E2f; pose proof (k_nfuts K1); lia).
    unfold getf at 1. rewrite E2f. apply (k_fowner K1); auto.
Qed.

(* ------------------------------------------------------------ re-keying (propagate_priority) *)
Lemma WIx_rekey ne X R s l u f o q' np :
  WIx ne X R s -> qwf (lpq (getl s l)) -> l < length (locks s) ->
  In (f, u) (rows s l) ->
  pq_reschedule HQ (lpq (getl s l)) (fun o => Nat.eqb (Z.to_nat o) f) np = Some (o, q') ->
  (ne = true -> tholding (gett s u) = [] -> (np == own s u)%Q) ->
  WIx ne X R (setl s l (getl s l <| lpq := q' |>)).
Proof.
  intros W Hq Hl Hu Er Hnp. set (s' := setl s l (getl s l <| lpq := q' |>)).
  destruct (pq_resched_objs _ _ _ _ _ Hq Er) as [Hq' Hp].
  destruct Hq as (Hi & Hnd & _).
  destruct (resched_rekey _ _ _ _ _ Hi Er) as (e & e' & r & Hk & _ & Pq & Pq' & _ & _ & Oe & Ke).
  apply Nat.eqb_eq in Hk.
  assert (Hr : forall l0, rows s' l0 = rows s l0).
  { intros l0. unfold s'. rewrite setl_rows by auto. destruct (Nat.eqb l0 l) eqn:E; auto.
    apply Nat.eqb_eq in E. now subst l0. }
  assert (Hob : forall l0 g, In g (objs s' l0) <-> In g (objs s l0)).
  { intros l0 g. unfold s'. rewrite setl_objs by auto. destruct (Nat.eqb l0 l) eqn:E; [|tauto].
    apply Nat.eqb_eq in E. subst l0. cbn. split; intros H.
    - eapply Permutation_in; eauto.
    - eapply Permutation_in; [apply Permutation_sym|]; eauto. }
  constructor.
  - intros l0. rewrite Hr. apply (w_nodup W).
  - intros l0 g. rewrite Hr, Hob. apply (w_objs W).
  - intros l0 g t0. rewrite Hr. apply (w_range W).
  - intros l0 g t0. rewrite Hr. apply (w_wait W).
  - intros l0 g g' t0. rewrite !Hr. apply (w_one W).
  - intros t0 l0 g had Hf. destruct (w_frame W t0 l0 g had Hf) as (u0 & A & B). exists u0. rewrite Hr. auto.
  - intros l0 g u0. rewrite Hr. apply (w_row W).
  - apply (w_rt W).
  - apply (w_necont W).
  - intros Hne t0 l0. rewrite Hr. apply (w_newait W Hne).
  - intros Hne l0 x Hx Hd Hh.
    assert (Ert : rtask s' l0 (Z.to_nat (eobj x)) = rtask s l0 (Z.to_nat (eobj x))).
    { unfold rtask, task_of_fut. fold (rows s' l0). fold (rows s l0). now rewrite Hr. }
    rewrite Ert in *. change (own s' ?a) with (own s a). change (gett s' ?a) with (gett s a) in Hh.
    change (fdone s' ?a) with (fdone s a) in Hd.
    unfold s' in Hx. rewrite getl_setl in Hx. pose proof Hl as Hlb. apply Nat.ltb_lt in Hlb.
    rewrite Hlb, andb_true_r in Hx. destruct (Nat.eqb l l0) eqn:E.
    + apply Nat.eqb_eq in E. subst l0. cbn in Hx. apply (Permutation_in _ Pq') in Hx.
      destruct Hx as [<-|Hx].
      * rewrite Oe, Hk in *. unfold rtask in *. rewrite (task_of_fut_unique _ _ _ (w_nodup W l) Hu) in *.
        rewrite Ke. now apply Hnp.
      * apply (w_key W Hne l x); auto. eapply Permutation_in; [apply Permutation_sym, Pq|now right].
    + apply (w_key W Hne l0 x); auto.
  - apply (w_cq W).
  - apply (w_cd W).
  - intros c g H. destruct (w_cf W c g H) as (A & B & C). split; auto. split; auto.
    unfold s', setl. cbn. now rewrite set_nth_length.
  - intros t0 fr c Hf Ec. pose proof (w_cw W t0 fr c Hf Ec) as Hck. unfold cok in *.
    unfold s', setl. cbn. now rewrite set_nth_length.
Qed.

Lemma rows_inrange s l f u : In (f, u) (rows s l) -> l < length (locks s).
Proof.
  intros H. destruct (Nat.lt_ge_cases l (length (locks s))); auto.
  unfold rows in H. rewrite getl_oob in H by auto. destruct H.
Qed.

Lemma WI_propagate_task ne X R fuel : forall s t,
  Inv s -> WIx ne X R s -> WIx ne X R (propagate_task fuel s t).
Proof.
  induction fuel as [|fuel IH]; intros s t I W; cbn [propagate_task].
  - destruct (negb (is_prio_task s t)); auto.
    set (s0 := if task_is_runnable s t then task_reschedule s t else s).
    assert (H0 : Inv s0 /\ WIx ne X R s0).
    { unfold s0. destruct (task_is_runnable s t); [|auto]. split.
      - apply (ls_inv (proj1 (pstep_core_eq s (task_reschedule s t) I eq_refl eq_refl eq_refl eq_refl
                                            eq_refl eq_refl))).
      - apply (WI_wk _ _ _ s); [apply wk_core; reflexivity|exact W]. }
    clearbody s0. destruct H0 as [I0 W0]. clear I W s. rename s0 into s, I0 into I, W0 into W.
    destruct (twaiting (gett s t)); auto.
  - destruct (negb (is_prio_task s t)); auto.
    set (s0 := if task_is_runnable s t then task_reschedule s t else s).
    assert (H0 : Inv s0 /\ WIx ne X R s0).
    { unfold s0. destruct (task_is_runnable s t); [|auto]. split.
      - apply (ls_inv (proj1 (pstep_core_eq s (task_reschedule s t) I eq_refl eq_refl eq_refl eq_refl
                                            eq_refl eq_refl))).
      - apply (WI_wk _ _ _ s); [apply wk_core; reflexivity|exact W]. }
    clearbody s0. destruct H0 as [I0 W0]. clear I W s. rename s0 into s, I0 into I, W0 into W.
    destruct (twaiting (gett s t)) as [l|]; auto.
    set (s1 := match lowner (getl s l) with Some o => propagate_task fuel s o | None => s end).
    assert (H1 : Inv s1 /\ WIx ne X R s1).
    { unfold s1. destruct (lowner (getl s l)); [|auto]. split; [|now apply IH].
      apply (ls_inv (proj1 (pstep_propagate_task fuel s n I))). }
    destruct H1 as [I1 W1].
    destruct (find _ (lwt (getl s1 l))) as [[f t0]|] eqn:Ef; [|exact W1].
    destruct (pq_reschedule HQ (lpq (getl s1 l)) _ _) as [[o q']|] eqn:Er; [|exact W1].
    apply find_snd_in in Ef.
    apply (WIx_rekey ne X R s1 l t f o q' (effective_priority s1 t)); auto.
    + apply (iB1 I1).
    + eapply rows_inrange; eauto.
    + intros _ Hh. rewrite (eprio_own_nohold s1 t Hh). reflexivity.
Qed.

(* ------------------------------------------------------------ PriorityLock.acquire *)
Lemma take_lock_lpq s l t s' l0 : take_lock s l t = inl s' -> lpq (getl s' l0) = lpq (getl s l0).
Proof.
  unfold take_lock. destruct (lowner (getl s l)); [discriminate|]. intros H. inversion H; subst. clear H.
  set (s1 := setl s l (getl s l <| lowner := Some t |> <| llocked := true |>)).
  assert (E : lpq (getl s1 l0) = lpq (getl s l0)).
  { unfold s1. rewrite getl_setl. destruct (Nat.eqb l l0 && Nat.ltb l (length (locks s)))%bool eqn:E; auto.
    apply andb_prop in E as [E _]. apply Nat.eqb_eq in E. now subst l0. }
  destruct (is_prio_task s1 t); exact E.
Qed.

Lemma wk_no_frame s s' f : wk s s' -> no_frame s f -> no_frame s' f.
Proof.
  intros K H t l had Hin. destruct (wk_tframes s s' t K) as [E|[E _]]; rewrite E in Hin; [eapply H; eauto|destruct Hin].
Qed.

Theorem acquire_p_finish_W ne s t l f had inp rest :
  Inv s -> t < length (tasks s) -> In f (objs s l) -> no_frame s f -> no_acq rest ->
  WI ne (t, InAcquireP l f had :: rest) s ->
  WI ne (t, rest) (fst (acquire_p_finish s t l f had inp)).
Proof.
  intros I Ht Hf Hnf Hna W. unfold acquire_p_finish.
  set (p0 := match inp with
             | RVal _ => match take_lock s l t with inl s' => (s', RVal 1) | inr e => (s, RExc e) end
             | RExc e => (s, RExc e) end).
  pose proof (objs_inrange s l f Hf) as Hl.
  assert (H0 : wk s (fst p0) /\ (forall l0, lpq (getl (fst p0) l0) = lpq (getl s l0)) /\
               (fst p0 = s \/ (llocked (getl (fst p0) l) = true /\ lowner (getl (fst p0) l) = Some t))).
  { unfold p0. destruct inp as [v|e]; [|split; [apply wk_refl|auto]].
    destruct (take_lock s l t) as [s'|e] eqn:E; cbn [fst]; [|split; [apply wk_refl|auto]].
    split; [eapply wk_take_lock; eauto|]. split; [intros; eapply take_lock_lpq; eauto|]. right.
    rewrite (take_lock_eq s l t (take_lock_ok _ _ _ _ E)) in E. inversion E; subst s'.
    destruct (upd_lk s l (take_lk s l t) t (take_oh s l t)) as [[_ E1]|(Hge & _)]; [|lia].
    rewrite E1. split; reflexivity. }
  destruct p0 as [s0 r]. cbn [fst] in H0. destruct H0 as (K0 & Q0 & O0).
  pose proof (WI_wk _ _ _ _ _ K0 W) as W0.
  assert (Hl0 : l < length (locks s0)) by (rewrite (k_nlocks K0); exact Hl).
  assert (Ht0 : t < length (tasks s0)) by (pose proof (k_ntasks K0); lia).
  assert (Hq0 : qwf (lpq (getl s0 l))) by (rewrite Q0; apply (iB1 I)).
  assert (Hf0 : In f (objs s0 l)) by (apply (k_objs K0); exact Hf).
  destruct (pq_remove HQ (lpq (getl s0 l)) (Z.of_nat f)) as [[p q']|] eqn:Er.
  2:{ exfalso. eapply pq_remove_none; eauto. }
  pose proof (WIx_leave ne t l f had rest s0 p q' Hq0 Hl0 Ht0 Er (wk_no_frame _ _ _ K0 Hnf) Hna W0) as W1.
  fold (notf f).
  set (s1 := setl s0 l (getl s0 l <| lpq := q' |> <| lwt := filter (notf f) (lwt (getl s0 l)) |>)) in *.
  assert (E1 : getl s1 l = getl s0 l <| lpq := q' |> <| lwt := filter (notf f) (lwt (getl s0 l)) |>).
  { unfold s1. rewrite getl_setl, Nat.eqb_refl. apply Nat.ltb_lt in Hl0. now rewrite Hl0. }
  set (s2 := if llocked (getl s1 l)
             then match lowner (getl s1 l) with
                  | Some o => if Nat.eqb o t then s1 else propagate_priority s1 o
                  | None => s1 end
             else wake_up_first_p s1 l).
  assert (W2 : WIx ne (fun x => x = t /\ had = true) (t, rest) s2).
  { unfold s2. destruct (llocked (getl s1 l)) eqn:Elk; [|eapply WI_wk; [apply wk_wake_p|exact W1]].
    destruct (lowner (getl s1 l)) as [o|] eqn:Eo; [|exact W1].
    destruct (Nat.eqb o t) eqn:Eot; [exact W1|].
    apply WI_propagate_task; [|exact W1].
    destruct O0 as [->|[_ Ho]].
    - pose proof (Inv_leave s l t f p q' (filter (notf f) (lwt (getl s l))) false I Hl Er Hnf) as I1.
      cbv beta iota in I1. apply I1. intros H; discriminate.
    - exfalso. rewrite E1 in Eo. cbn in Eo. rewrite Ho in Eo. inversion Eo; subst o.
      rewrite Nat.eqb_refl in Eot. discriminate. }
  cbn [fst]. destruct had.
  - apply (WIx_sett_waiting ne (fun x => x = t /\ true = true) (fun _ => False) (t, rest) s2 t None W2).
    + intros l0 g Hin Hpr. exfalso. destruct (w_wait W2 _ _ _ Hin Hpr) as [_ Hx]. apply Hx. auto.
    + intros x Hne. split; [tauto|]. intros [E _]. contradiction.
    + intros _ _ _ l0 E. discriminate.
  - eapply WI_X; [|exact W2]. intros x. split; [intros [_ E]; discriminate|tauto].
Qed.

Theorem acquire_p_start_W ne s t l P :
  Inv s -> t < length (tasks s) -> lkind_ (getl s l) = LPrio ->
  WI ne (t, P) s ->
  WI ne (t, match snd (acquire_p_start s t l) with LSusp _ frs => frs ++ P | LDone _ => P end)
     (fst (acquire_p_start s t l)).
Proof.
  intros I Ht Hk W. unfold acquire_p_start.
  destruct (negb (llocked (getl s l)) && match arr (lpq (getl s l)) with [] => true | _ => false end)%bool eqn:Efast.
  - destruct (take_lock s l t) as [s'|e] eqn:E; cbn [fst snd]; auto.
    eapply WI_wk; [eapply wk_take_lock; eauto|exact W].
  - assert (Hl : l < length (locks s)).
    { destruct (Nat.lt_ge_cases l (length (locks s))); auto.
      rewrite getl_oob in Efast by auto. discriminate. }
    set (f := length (futs s)).
    set (s1 := fst (new_future s None)).
    assert (B1 : benign s s1) by apply chg_new_future.
    assert (K1 : wk s s1) by apply wk_new_future.
    change (new_future s None) with (s1, f). cbv beta iota.
    pose proof (WI_wk _ _ _ _ _ K1 W) as W1.
    destruct (is_prio_task s t && match twaiting (gett s1 t) with Some _ => true | None => false end)%bool eqn:Eas.
    { cbn [fst snd]. exact W1. }
    set (had := is_prio_task s t) in *.
    set (s2 := if had then sett s1 t (gett s1 t <| twaiting := Some l |>) else s1).
    assert (B2 : benign s s2).
    { unfold s2. destruct had; auto. eapply benign_trans; [exact B1|]. bsett. }
    pose proof (Inv_benign s s2 B2 I) as I2.
    assert (Hf2 : getf s2 f = mkFut FPending [] false None None).
    { unfold s2. destruct had; apply new_future_get. }
    assert (Hlen2 : length (futs s2) = S (length (futs s))).
    { unfold s2. destruct had; apply new_future_len. }
    assert (Hfor2 : forall g, foreign s2 g <-> foreign s g).
    { intros g. unfold s2. destruct had; reflexivity. }
    assert (Hl2 : getl s2 l = getl s l).
    { unfold s2. destruct had; reflexivity. }
    assert (Ht2 : t < length (tasks s2)).
    { unfold s2. destruct had; [rewrite sett_len|]; exact Ht. }
    assert (Hp2 : is_prio_task s2 t = had).
    { unfold s2. destruct had eqn:Eh; [|exact Eh]. unfold is_prio_task. rewrite gett_sett_same by exact Ht.
      cbn. exact Eh. }
    assert (W2 : WIx ne (fun x => x = t /\ had = true) (t, P) s2).
    { unfold s2. destruct had eqn:Eh.
      - simpl in Eas. destruct (twaiting (gett s1 t)) eqn:Ew; [discriminate|].
        apply (WIx_sett_waiting ne (fun _ => False) (fun x => x = t /\ true = true) (t, P) s1 t (Some l) W1).
        + intros l0 g Hin Hpr. destruct (w_wait W1 _ _ _ Hin Hpr) as [E _]. congruence.
        + intros x Hne. split; [intros [E _]; contradiction|tauto].
        + intros _ Hx. exfalso. apply Hx. auto.
      - eapply WI_X; [|exact W1]. intros x. split; [tauto|intros [_ E]; discriminate]. }
    set (p := if had then effective_priority s t else 0%Q).
    set (lk3 := getl s2 l <| lpq := pq_add HQ (lpq (getl s2 l)) p (Z.of_nat f) |> <| lwt := lwt (getl s2 l) ++ [(f, t)] |>).
    change (setl s2 l lk3) with (upd s2 l lk3 0 None).
    set (s3 := upd s2 l lk3 0 None).
    assert (Hnl2 : ~ lockfut s2 f).
    { intros H. apply (benign_lockfut s s2 f B2) in H. now apply (fresh_not_lockfut s I). }
    assert (I3 : Inv s3).
    { apply Inv_add; auto.
      - rewrite (c_nlocks B2). exact Hl.
      - rewrite Hl2. exact Hk.
      - rewrite Hlen2. unfold f. lia.
      - now rewrite Hf2.
      - intros H. apply Hfor2 in H. now apply (fresh_not_foreign s I).
      - unfold woken. now rewrite Hf2. }
    assert (W3 : WI ne (t, InFut f :: InAcquireP l f had :: P) s3).
    { unfold s3, upd. apply (WIx_join ne (fun x => x = t /\ had = true) t l f had P s2 p); auto.
      - rewrite (c_nlocks B2). exact Hl.
      - intros H. apply Hnl2. now exists l.
      - tauto.
      - intros Eh. unfold s2. rewrite Eh. rewrite gett_sett_same; [reflexivity|].
        change (tasks s1) with (tasks s). exact Ht.
      - intros _ Hh.
        assert (Eth : tholding (gett s2 t) = tholding (gett s t) /\ own s2 t = own s t).
        { unfold own, s2. destruct had; [rewrite gett_sett_same by exact Ht; cbn|]; auto. }
        destruct Eth as [Eth Eo]. rewrite Eth in Hh. rewrite Eo. unfold p.
        destruct had eqn:Eh; [rewrite (eprio_own_nohold s t Hh); reflexivity|].
        unfold own. unfold had, is_prio_task in Eh. destruct (tprio (gett s t)); [discriminate|reflexivity].
      - apply (iB1 I2). }
    set (s4 := match lowner (getl s3 l) with Some o => propagate_priority s3 o | None => s3 end).
    assert (W4 : WI ne (t, InFut f :: InAcquireP l f had :: P) s4).
    { unfold s4. destruct (lowner (getl s3 l)); [now apply WI_propagate_task|exact W3]. }
    cbn [fst snd]. eapply WI_wk; [apply wk_setf_flag; reflexivity|]. exact W4.
Qed.
