(* A static sufficient condition for the domain condition nec (Sched/InertRun.v): programs and
   environments that never call set_result / set_exception / Future.cancel (OSetResult, OSetExc,
   OFutCancel) - awaitable.cancel() (OCancelAw) and Task.cancel (OCancel) are allowed.  Same
   architecture as LockStatic.v (the generic kproj_* frame lemmas are reused from there). *)
From Coq Require Import QArith Sorting.Permutation.
From RecordUpdate Require Import RecordUpdate.
From Asynkit Require Import Base.Prelude Queue.PQ Queue.PosPQ Queue.Exec Sched.Model
  Sched.Tables Sched.LockStatic Sched.InertLib Sched.InertRun.
Import RecordSetNotations.
Open Scope nat_scope.

Definition op_nf (op : libop) : Prop :=
  match op with OSetResult _ _ | OSetExc _ _ | OFutCancel _ => False | _ => True end.

Inductive nofin : coro -> Prop :=
| nf_ret v : nofin (Ret v)
| nf_raise e : nofin (Raise e)
| nf_call op k : op_nf op -> (forall r, nofin (k r)) -> nofin (Call op k)
| nf_spawn how child k : nofin child -> (forall r, nofin (k r)) -> nofin (Spawn how child k).

Lemma op_nf_nec s op : op_nf op -> op_nec s op.
Proof. destruct op; simpl; auto; contradiction. Qed.

Lemma exec_nec_nofin c : nofin c -> forall t s, exec_nec t c s.
Proof.
  induction 1 as [v|e|op k Hp Hk IHk|how child k Hc IHc Hk IHk]; intros t s; cbn [exec_nec]; auto.
  - split; [now apply op_nf_nec|]. destruct (lib_call t op s) as [s' r]. destruct r; auto.
  - destruct how; cbn [exec_nec].
    + destruct (spawn_task s SPlain child) as [s1 t']. apply IHk.
    + destruct (spawn_task s SPy child) as [s1 t']. apply IHk.
    + destruct (spawn_task s (SPrio p) child) as [s1 t']. apply IHk.
    + destruct (spawn_task s SDescend child) as [s1 t'].
      destruct (lib_call t (OTaskSwitch t' (Some 1)) s1) as [s2 r]. destruct r as [[v|e]|]; auto; apply IHk.
    + destruct (spawn_task s SStart child) as [s1 t']. exact I.
    + split; [apply IHc|]. destruct (exec t child s) as [s1 o]. destruct o as [r|y frs kc].
      * destruct (new_future s1 None) as [s2 f]. apply IHk.
      * cbv zeta. destruct (new_future _ _) as [s2 f]. apply IHk.
Qed.

(* ---------------------------------------------------------------- stored continuations stay free of set_result / set_exception / Future.cancel *)
Definition cont_nf (k : tcont) : Prop :=
  match k with
  | TNew c => nofin c
  | TSusp _ k | TEager _ _ k => forall r, nofin (k r)
  | TRun | TFin => True
  end.
Definition conts_nf (s : st) : Prop := Forall cont_nf (kproj s).

Lemma conts_nf_same s s' : kproj s' = kproj s -> conts_nf s -> conts_nf s'.
Proof. unfold conts_nf. now intros ->. Qed.



Lemma conts_nf_sett s t x : conts_nf s -> cont_nf (tcont_ x) -> conts_nf (sett s t x).
Proof.
  intros H Hx. unfold conts_nf, kproj, sett. cbn. rewrite map_set_nth. now apply Forall_set_nth.
Qed.

Lemma conts_nf_get s t : conts_nf s -> cont_nf (tcont_ (gett s t)).
Proof.
  intros H. destruct (Nat.lt_ge_cases t (length (tasks s))) as [Ht|Ht].
  - unfold conts_nf, kproj in H. rewrite Forall_forall in H. apply H. apply in_map. now apply nth_In.
  - rewrite gett_oob by auto. exact I.
Qed.

Lemma conts_nf_app s tk : conts_nf s -> cont_nf (tcont_ tk) -> conts_nf (s <| tasks := tasks s ++ [tk] |>).
Proof.
  intros H Hx. unfold conts_nf, kproj. cbn. rewrite map_app. apply Forall_app. split; [exact H|].
  constructor; [exact Hx|constructor].
Qed.

Lemma conts_nf_new_task s kind p c : conts_nf s -> nofin c -> conts_nf (fst (new_task s kind p c)).
Proof.
  intros H Hc. unfold new_task.
  change (new_future s (Some (length (tasks s)))) with (fst (new_future s (Some (length (tasks s)))), length (futs s)).
  cbv beta iota. cbn [fst].
  match goal with |- conts_nf (call_soon_ ?S _) => change (conts_nf S) end.
  apply (conts_nf_app (fst (new_future s (Some (length (tasks s)))))); auto.
Qed.

Lemma conts_nf_spawn_task s how c : conts_nf s -> nofin c -> conts_nf (fst (spawn_task s how c)).
Proof. intros. unfold spawn_task. destruct how; now apply conts_nf_new_task. Qed.

Lemma exec_conts_nf c : nofin c -> forall t s, conts_nf s ->
  conts_nf (fst (exec t c s)) /\
  (forall y frs k, snd (exec t c s) = OYield y frs k -> forall r, nofin (k r)).
Proof.
  induction 1 as [v|e|op k Hp Hk IHk|how child k Hc IHc Hk IHk]; intros t s H; cbn [exec].
  - split; auto. intros; discriminate.
  - split; auto. intros; discriminate.
  - pose proof (kproj_lib_call t op s) as E. destruct (lib_call t op s) as [s1 r]. cbn [fst] in E.
    destruct r as [rep|y frs].
    + apply IHk. eapply conts_nf_same; eauto.
    + cbn [fst snd]. split; [eapply conts_nf_same; eauto|]. intros y0 frs0 k0 E0. inversion E0; subst. exact Hk.
  - assert (Hwrap : forall t', forall r, nofin (match r with RVal _ => k (RVal (Z.of_nat t')) | RExc e => k (RExc e) end)).
    { intros t' [v|e]; apply Hk. }
    destruct how.
    + pose proof (conts_nf_spawn_task s SPlain child H Hc) as H1. destruct (spawn_task s SPlain child) as [s1 t']. now apply IHk.
    + pose proof (conts_nf_spawn_task s SPy child H Hc) as H1. destruct (spawn_task s SPy child) as [s1 t']. now apply IHk.
    + pose proof (conts_nf_spawn_task s (SPrio p) child H Hc) as H1. destruct (spawn_task s (SPrio p) child) as [s1 t']. now apply IHk.
    + pose proof (conts_nf_spawn_task s SDescend child H Hc) as H1. destruct (spawn_task s SDescend child) as [s1 t'].
      cbn [fst] in H1. pose proof (kproj_lib_call t (OTaskSwitch t' (Some 1)) s1) as E.
      destruct (lib_call t (OTaskSwitch t' (Some 1)) s1) as [s2 r]. cbn [fst] in E.
      assert (H2 : conts_nf s2) by (eapply conts_nf_same; eauto).
      destruct r as [[v|e]|y frs]; [now apply IHk|now apply IHk|].
      cbn [fst snd]. split; auto. intros y0 frs0 k0 E0. inversion E0; subst. apply Hwrap.
    + pose proof (conts_nf_spawn_task s SStart child H Hc) as H1. destruct (spawn_task s SStart child) as [s1 t'].
      cbn [fst snd] in *. split; auto. intros y0 frs0 k0 E0. inversion E0; subst. apply Hwrap.
    + destruct (IHc t s H) as [H1 K1]. destruct (exec t child s) as [s1 o]. cbn [fst snd] in *.
      destruct o as [r|y frs kc].
      * change (new_future s1 None) with (fst (new_future s1 None), length (futs s1)). cbv beta iota.
        apply IHk. eapply conts_nf_same; [apply kproj_fut_finish|]. exact H1.
      * cbv zeta.
        match goal with |- context [new_future ?S ?O] =>
          change (new_future S O) with (fst (new_future S O), length (futs S)) end.
        cbv beta iota. apply IHk.
        match goal with |- conts_nf (call_soon_ ?S _) => change (conts_nf S) end.
        match goal with |- conts_nf (?S <| tasks := tasks ?S ++ [?TK] |>) => apply (conts_nf_app S TK) end.
        -- destruct y; exact H1.
        -- cbn. apply (K1 y frs kc eq_refl).
Qed.



Lemma finish_step_conts_nf t s o :
  conts_nf s -> (forall y frs k, o = OYield y frs k -> forall r, nofin (k r)) ->
  conts_nf (finish_step t s o).
Proof.
  intros H K. unfold finish_step. destruct o as [[v|e]|y frs k].
  - set (s1 := sett s t (gett s t <| tcont_ := TFin |>)).
    assert (H1 : conts_nf s1) by (apply conts_nf_sett; [exact H|exact I]).
    destruct (tmustc (gett s t)).
    + eapply conts_nf_same; [apply kproj_fut_finish|]. apply conts_nf_sett; [exact H1|].
      apply (conts_nf_get s1 t H1).
    + eapply conts_nf_same; [apply kproj_fut_finish|]. exact H1.
  - set (s1 := sett s t (gett s t <| tcont_ := TFin |>)).
    assert (H1 : conts_nf s1) by (apply conts_nf_sett; [exact H|exact I]).
    destruct (is_cancel e); (eapply conts_nf_same; [apply kproj_fut_finish|]); exact H1.
  - set (s1 := sett s t (gett s t <| tcont_ := TSusp frs k |>)).
    assert (H1 : conts_nf s1) by (apply conts_nf_sett; [exact H|]; cbn; eapply K; eauto).
    destruct y as [|f]; [exact H1|].
    destruct (fblock (getf s1 f)); [|exact H1].
    destruct (Nat.eqb f (tfut (gett s t))); [exact H1|].
    set (s2 := setf s1 f (getf s1 f <| fblock := false |>)).
    set (s3 := add_done_callback s2 f (CbWakeup t)).
    assert (H3 : conts_nf s3).
    { eapply conts_nf_same; [apply kproj_add_done_callback|]. exact H1. }
    set (s4 := sett s3 t (gett s3 t <| twaiter := Some f |>)).
    assert (H4 : conts_nf s4) by (apply conts_nf_sett; [exact H3|apply (conts_nf_get s3 t H3)]).
    destruct (tmustc (gett s4 t)); [|exact H4].
    pose proof (kproj_cancel_awaitable s4 f) as E. destruct (cancel_awaitable s4 f) as [s5 ok]. cbn [fst] in E.
    assert (H5 : conts_nf s5) by (eapply conts_nf_same; eauto).
    destruct ok; [|exact H5]. apply conts_nf_sett; [exact H5|apply (conts_nf_get s5 t H5)].
Qed.

Lemma resume_exec_conts_nf t frs inp s k :
  conts_nf s -> (forall r, nofin (k r)) ->
  let '(s3, o) := (let '(s1, r) := resume_stack t frs inp s in
                   match r with
                   | LDone rep => exec t (k rep) s1
                   | LSusp y frs' => (s1, OYield y frs' k) end) in
  conts_nf s3 /\ (forall y frs0 k0, o = OYield y frs0 k0 -> forall r, nofin (k0 r)).
Proof.
  intros H K. pose proof (kproj_resume_stack frs t inp s) as E.
  destruct (resume_stack t frs inp s) as [s1 r]. cbn [fst] in E.
  assert (H1 : conts_nf s1) by (eapply conts_nf_same; eauto).
  destruct r as [rep|y frs1].
  - destruct (exec_conts_nf (k rep) (K rep) t s1 H1) as [H2 K2].
    destruct (exec t (k rep) s1) as [s3 o]. cbn [fst snd] in *. auto.
  - split; auto. intros y0 frs0 k0 E0. inversion E0; subst. exact K.
Qed.

Theorem step_task_conts_nf t exc s : conts_nf s -> conts_nf (step_task t exc s).
Proof.
  intros H. unfold step_task. destruct (tdone s t); [exact H|].
  pose proof (conts_nf_get s t H) as Hc.
  set (exc' := if tmustc (gett s t) then _ else exc).
  set (s1 := sett s t (gett s t <| tmustc := false |> <| twaiter := None |> <| tcont_ := TRun |>)).
  set (s2 := s1 <| current := Some t |>).
  assert (H2 : conts_nf s2) by (apply (conts_nf_sett s t); [exact H|exact I]).
  assert (Tail : forall s3 o, conts_nf s3 -> (forall y frs k, o = OYield y frs k -> forall r, nofin (k r)) ->
                 conts_nf ((finish_step t s3 o) <| current := None |>)).
  { intros s3 o H3 K3. apply (finish_step_conts_nf t s3 o H3 K3). }
  destruct (tcont_ (gett s t)) as [c|frs k|y frs k| |]; cbn [cont_nf] in Hc.
  - destruct exc' as [e|].
    + apply Tail; auto. intros; discriminate.
    + destruct (exec_conts_nf c Hc t s2 H2) as [H3 K3]. destruct (exec t c s2) as [s3 o]. now apply Tail.
  - pose proof (resume_exec_conts_nf t frs (match exc' with None => RVal 0 | Some e => RExc e end) s2 k H2 Hc) as R.
    destruct (let '(s1, r) := resume_stack t frs _ s2 in _) as [s3 o]. destruct R. now apply Tail.
  - destruct exc' as [e|].
    + pose proof (resume_exec_conts_nf t frs (RExc e) s2 k H2 Hc) as R.
      destruct (let '(s1, r) := resume_stack t frs _ s2 in _) as [s3 o]. destruct R. now apply Tail.
    + apply Tail.
      * destruct y; exact H2.
      * intros y0 frs0 k0 E0. inversion E0; subst. exact Hc.
  - apply Tail; auto. intros; discriminate.
  - apply Tail; auto. intros; discriminate.
Qed.

Lemma step_nec_conts t exc s : conts_nf s -> step_nec t exc s.
Proof.
  intros H. unfold step_nec. destruct (tdone s t); [exact I|].
  pose proof (conts_nf_get s t H) as Hc.
  destruct (tcont_ (gett s t)) as [c|frs k|y frs k| |]; cbn [cont_nf] in Hc; auto.
  - match goal with |- match ?e with Some _ => True | None => _ end => destruct e end; auto.
    now apply exec_nec_nofin.
  - destruct (resume_stack _ _ _ _) as [s1 r]. destruct r; auto. now apply exec_nec_nofin.
  - match goal with |- match ?e with Some _ => _ | None => True end => destruct e end; auto.
    destruct (resume_stack _ _ _ _) as [s1 r]. destruct r; auto. now apply exec_nec_nofin.
Qed.

Lemma interruptor_body_nofin b : nofin (interruptor_body b).
Proof. unfold interruptor_body. constructor; [exact I|]. intros [v|e]; constructor. Qed.

Theorem run_callback_conts_nf c s : conts_nf s -> conts_nf (run_callback c s).
Proof.
  intros H. destruct c; cbn [run_callback].
  - now apply step_task_conts_nf.
  - unfold wakeup. destruct (fstate_ (getf s f)); try now apply step_task_conts_nf.
    pose proof (kproj_fut_result s f) as E. destruct (fut_result s f) as [s' r]. cbn [fst] in E.
    apply step_task_conts_nf. eapply conts_nf_same; eauto.
  - pose proof (kproj_task_reinsert s t p) as E. destruct (task_reinsert s t p) as [s' r]. cbn [fst] in E.
    destruct r; eapply conts_nf_same; eauto.
  - exact H.
  - eapply conts_nf_same; [apply kproj_fut_finish|exact H].
  - apply conts_nf_new_task; auto. apply interruptor_body_nofin.
  - unfold queue_iterated. destruct (ready _); exact H.
  - eapply conts_nf_same; [apply kproj_task_cancel|exact H].
Qed.

Lemma callback_nec_conts c s : conts_nf s -> callback_nec c s.
Proof.
  intros H. destruct c; cbn [callback_nec]; auto.
  - now apply step_nec_conts.
  - unfold wakeup_nec. destruct (fstate_ (getf s f)); try now apply step_nec_conts.
    pose proof (kproj_fut_result s f) as E. destruct (fut_result s f) as [s' r]. cbn [fst] in E.
    apply step_nec_conts. eapply conts_nf_same; eauto.
Qed.




(* statically checkable environment actions *)
Definition act_nf (a : action) : Prop :=
  match a with
  | ASpawn _ c => nofin c
  | ADo op => op_nf op
  | _ => True
  end.

Theorem do_action_conts_nf s a : conts_nf s -> act_nf a -> conts_nf (do_action s a).
Proof.
  intros H Ha. destruct a; cbn [do_action act_nf] in *.
  - unfold run_one. destruct (rq_popleft (ready s)) as [[h r]|]; auto.
    destruct (hcancelled _); auto. now apply run_callback_conts_nf.
  - unfold begin_iteration. eapply conts_nf_same; [|exact H].
    now rewrite kproj_move_due, kproj_drop_cancelled.
  - exact H.
  - now apply conts_nf_spawn_task.
  - eapply conts_nf_same; [apply kproj_lib_call|exact H].
Qed.

Lemma action_nec_static s a : conts_nf s -> act_nf a -> action_nec s a.
Proof.
  intros H Ha. destruct a; cbn [action_nec act_nf] in *; auto.
  - unfold run_one_nec. destruct (rq_popleft (ready s)) as [[h r]|]; auto.
    destruct (hcancelled _); auto. now apply callback_nec_conts.
  - now apply op_nf_nec.
Qed.

Theorem nec_static acts : forall s, conts_nf s -> Forall act_nf acts -> nec s acts.
Proof.
  induction acts as [|a acts IH]; intros s H Ha; simpl; auto.
  inversion Ha; subst. split; [now apply action_nec_static|]. apply IH; auto. now apply do_action_conts_nf.
Qed.

Theorem nec_static_init p fa dr lks cds nev acts :
  Forall act_nf acts -> nec (init_st p fa dr lks cds nev) acts.
Proof. apply nec_static. constructor. Qed.
