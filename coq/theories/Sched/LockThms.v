(* C13: corollaries of the invariant, non-vacuity examples, and the refutation of the
   pre-fix _wake_up_first. *)
From Coq Require Import QArith Sorting.Permutation.
From RecordUpdate Require Import RecordUpdate.
From Asynkit Require Import Base.Prelude Queue.PQ Queue.Order Queue.PosPQ Queue.Exec Sched.Model
  Sched.Corr Sched.Tables Sched.QFacts Sched.LockInv Sched.Footprint Sched.LockOps Sched.LockLib
  Sched.LockProofs Sched.LockStatic.
Import RecordSetNotations.
Open Scope nat_scope.

(* reachable states: any configuration, any action sequence satisfying the side condition *)
Definition reachable (s : st) : Prop :=
  exists p fa dr lks cds nev acts,
    run_ok (init_st p fa dr lks cds nev) acts /\
    s = fold_left do_action acts (init_st p fa dr lks cds nev).

Theorem reachable_inv s : reachable s -> Inv s.
Proof. intros (p & fa & dr & lks & cds & nev & acts & Hok & ->). now apply C13_inv_all. Qed.

(* ---------------------------------------------------------------- mutual exclusion *)
Theorem mutex_of_inv s l :
  Inv s -> l < length (locks s) ->
  (* at most one task records l as held, and it is the owner *)
  (forall t1 t2, In l (tholding (gett s t1)) -> In l (tholding (gett s t2)) -> t1 = t2) /\
  (forall t, In l (tholding (gett s t)) -> lowner (getl s l) = Some t) /\
  (* a PriorityTask that owns l records it *)
  (forall t, lowner (getl s l) = Some t -> is_prio_task s t = true -> In l (tholding (gett s t))) /\
  (* locked() reflects ownership *)
  (lkind_ (getl s l) = LPrio -> (llocked (getl s l) = true <-> exists t, lowner (getl s l) = Some t)) /\
  (* and nobody records l twice *)
  (forall t, count_occ Nat.eq_dec (tholding (gett s t)) l <= 1).
Proof.
  intros I Hl. split; [|split; [|split; [|split]]].
  - intros t1 t2 H1 H2. pose proof (iA2 I _ _ Hl H1). pose proof (iA2 I _ _ Hl H2). congruence.
  - intros t H. apply (iA2 I); auto.
  - intros t. apply (iA3 I).
  - intros Hk. rewrite <- (iA1 I l Hk). destruct (lowner (getl s l)) as [t|].
    + split; [eauto|congruence].
    + split; [congruence|intros [t H]; discriminate].
  - intros t. apply (iA6 I); auto.
Qed.

(* ---------------------------------------------------------------- the assertion never fires *)
Lemma acquire_p_finish_reply s t l f had inp :
  snd (acquire_p_finish s t l f had inp) =
  match inp with
  | RVal _ => match take_lock s l t with inl _ => RVal 1 | inr e => RExc e end
  | RExc e => RExc e end.
Proof. unfold acquire_p_finish. destruct inp; [destruct (take_lock s l t)|]; reflexivity. Qed.

Theorem take_lock_free_of_inv s l t f :
  Inv s -> In f (objs s l) -> woken s f = true -> exists s', take_lock s l t = inl s'.
Proof.
  intros I Hf Hw. destruct (lowner (getl s l)) eqn:Ho.
  - assert (lowner (getl s l) <> None) as Hn by congruence.
    rewrite (iC2 I l f Hn Hf) in Hw. discriminate.
  - rewrite (take_lock_eq s l t Ho). eauto.
Qed.

Theorem woken_unique_of_inv s l f1 f2 :
  Inv s -> In f1 (objs s l) -> In f2 (objs s l) -> woken s f1 = true -> woken s f2 = true -> f1 = f2.
Proof. intros I. apply (iC1 I). Qed.

Theorem no_woken_while_owned_of_inv s l f :
  Inv s -> lowner (getl s l) <> None -> In f (objs s l) -> woken s f = false.
Proof. intros I. apply (iC2 I). Qed.

(* ---------------------------------------------------------------- a concrete run *)
(* list loop, one PriorityLock; H (priority 0) holds the lock across two sleep(0);
   W1 (5) and W2 (7) queue up; H releases (W1 is woken); W0 (-5) arrives and becomes the
   heap head before W1 runs; W2 is cancelled and its `finally` runs before W1. *)
Definition sH : script := SDo (OAcquire 0) (SDo OSleep0 (SDo OSleep0 (SDo (ORelease 0) SEnd))).
Definition sW : script := SDo (OAcquire 0) (SDo (ORelease 0) SEnd).
Definition acts_a : list action :=
  map act [XSpawn (SPrio 0) sH; XStep; XSpawn (SPrio 5) sW; XSpawn (SPrio 7) sW; XStep; XStep; XStep].
Definition acts_b : list action :=
  map act [XStep; XSpawn (SPrio (-5)) sW; XDo (OTaskReinsert 3 0); XDo (OCancel 2); XStep;
           XDo (OTaskReinsert 2 0)].
Definition acts_c : list action := map act [XStep; XStep; XStep; XStep].
Definition st0 : st := init_st false 0 [] [LPrio] [] 0.
Definition stA : st := fold_left do_action acts_a st0.
Definition stB : st := fold_left do_action (acts_a ++ acts_b) st0.
Definition stC : st := fold_left do_action (acts_a ++ acts_b ++ acts_c) st0.

Example run_ok_example : run_ok st0 (acts_a ++ acts_b ++ acts_c).
Proof. vm_compute. repeat split. Qed.

Lemma run_ok_app s a b : run_ok s (a ++ b) -> run_ok s a.
Proof.
  revert s. induction a as [|x a IH]; intros s H; simpl in *; auto.
  destruct H as [H1 H2]. split; auto.
Qed.

Example reachable_stA : reachable stA.
Proof.
  exists false, 0%Q, [], [LPrio], [], 0, acts_a. split; [|reflexivity].
  apply (run_ok_app st0 acts_a (acts_b ++ acts_c)). apply run_ok_example.
Qed.
Example reachable_stB : reachable stB.
Proof.
  exists false, 0%Q, [], [LPrio], [], 0, (acts_a ++ acts_b). split; [|reflexivity].
  apply (run_ok_app st0 (acts_a ++ acts_b) acts_c). rewrite <- app_assoc. apply run_ok_example.
Qed.
Example reachable_stC : reachable stC.
Proof.
  exists false, 0%Q, [], [LPrio], [], 0, (acts_a ++ acts_b ++ acts_c). split; [|reflexivity].
  apply run_ok_example.
Qed.

(* the invariant is exercised non-vacuously: two contenders queued behind an owner ... *)
Example two_contenders :
  reachable stA /\ objs stA 0 = [3; 4] /\ lowner (getl stA 0) = Some 0 /\
  llocked (getl stA 0) = true /\ tholding (gett stA 0) = [0] /\
  tframes stA 1 = [InFut 3; InAcquireP 0 3 true] /\ tframes stA 2 = [InFut 4; InAcquireP 0 4 true].
Proof. split; [apply reachable_stA|]. vm_compute. repeat split. Qed.

(* ... a free lock with exactly one woken waiter (W1 = future 3) that is no longer the head,
   next to a cancelled one (4) and a more urgent pending one (6) ... *)
Example hand_over_in_progress :
  reachable stB /\ objs stB 0 = [6; 4; 3] /\ lowner (getl stB 0) = None /\
  map (woken stB) [6; 4; 3] = [false; false; true] /\
  map (fun f => fstate_ (getf stB f)) [6; 4; 3] = [FPending; FCancelled; FResult 1].
Proof. split; [apply reachable_stB|]. vm_compute. repeat split. Qed.

(* ... and the repaired code serves everybody: W1 and W0 acquire and return, W2 ends
   cancelled, the lock ends free with no waiters and nobody records a held/awaited lock *)
Example all_served :
  reachable stC /\
  map (fun t => fstate_ (getf stC (tfut t))) (tasks stC) = [FResult 0; FResult 0; FCancelled; FResult 0] /\
  objs stC 0 = [] /\ lowner (getl stC 0) = None /\ llocked (getl stC 0) = false /\
  map (fun t => (tholding t, twaiting t)) (tasks stC) = [([], None); ([], None); ([], None); ([], None)].
Proof. split; [apply reachable_stC|]. vm_compute. repeat split. Qed.

(* ---------------------------------------------------------------- before the fix *)
(* PriorityLock._wake_up_first as it was: wake the head whenever it is not done *)
Definition wake_up_first_p_old (s : st) (l : nat) : st :=
  match arr (lpq (getl s l)) with
  | [] => s
  | head :: _ =>
      let f := Z.to_nat (eobj head) in
      if fdone s f then s else fst (fut_finish s f (FResult 1))
  end.

(* PriorityLock.acquire after `await fut`, with the old _wake_up_first *)
Definition acquire_p_finish_old (s : st) (t l f : nat) (had : bool) (inp : reply) : st * reply :=
  let '(s, r) := match inp with
                 | RVal _ => match take_lock s l t with
                             | inl s' => (s', RVal 1)
                             | inr e => (s, RExc e)
                             end
                 | RExc e => (s, RExc e)
                 end in
  let lk := getl s l in
  let s := match pq_remove HQ (lpq lk) (Z.of_nat f) with
           | Some (_, q') => setl s l (lk <| lpq := q' |>
                                        <| lwt := filter (fun pr => negb (Nat.eqb (fst pr) f)) (lwt lk) |>)
           | None => s
           end in
  let s := if llocked (getl s l) then s else wake_up_first_p_old s l in
  let s := if had then sett s t (gett s t <| twaiting := None |>) else s in
  (s, r).

(* the two versions agree as long as no woken waiter is queued - so stB is reached by
   the unrepaired code as well *)
Lemma wake_old_agrees s l :
  (forall f, In f (objs s l) -> woken s f = false) -> wake_up_first_p s l = wake_up_first_p_old s l.
Proof.
  intros H. unfold wake_up_first_p, wake_up_first_p_old.
  destruct (arr (lpq (getl s l))) as [|head rest] eqn:Ea; [reflexivity|].
  assert (E : existsb (fun f => match fstate_ (getf s f) with FResult _ | FExc _ => true | _ => false end)
                      (pq_objs (lpq (getl s l))) = false).
  { destruct (existsb _ _) eqn:Ex; auto. apply existsb_exists in Ex as (f & Hin & Hw).
    pose proof (H f Hin) as Hf. unfold woken in Hf. rewrite Hf in Hw. discriminate. }
  rewrite E. reflexivity.
Qed.

(* the cancelled W2 (task 2, future 4) runs its finally clause in stB with the old code *)
Definition stB_old : st := fst (acquire_p_finish_old stB 2 0 4 true (RExc ECancelled)).
(* then W1 (task 1, future 3) resumes and takes the lock *)
Definition stB_old2 : st := fst (acquire_p_finish_old stB_old 1 0 3 true (RVal 0)).

Theorem refuted_before_fix :
  reachable stB /\
  (* two distinct queued waiters hold a result: I5 fails, hence the invariant *)
  (In 6 (objs stB_old 0) /\ In 3 (objs stB_old 0) /\ woken stB_old 6 = true /\ woken stB_old 3 = true) /\
  ~ Inv stB_old /\
  (* W1 takes the lock; W0 (task 3, future 6), also woken, hits `assert self._owning is None` *)
  snd (acquire_p_finish_old stB_old 1 0 3 true (RVal 0)) = RVal 1 /\
  snd (acquire_p_finish_old stB_old2 3 0 6 true (RVal 0)) = RExc EAssertion /\
  (* the repaired finally clause wakes nobody: W1 remains the only woken waiter *)
  map (woken (fst (acquire_p_finish stB 2 0 4 true (RExc ECancelled)))) [6; 3] = [false; true].
Proof.
  split; [apply reachable_stB|].
  assert (H : In 6 (objs stB_old 0) /\ In 3 (objs stB_old 0) /\
              woken stB_old 6 = true /\ woken stB_old 3 = true).
  { vm_compute. repeat split; auto. }
  split; [exact H|]. split.
  - intros I. destruct H as (H6 & H3 & W6 & W3). pose proof (iC1 I 0 6 3 H6 H3 W6 W3). discriminate.
  - vm_compute. repeat split.
Qed.

(* ---------------------------------------------------------------- packaged statements *)
Theorem take_reply_of_inv s l t f had v :
  Inv s -> In f (objs s l) -> woken s f = true ->
  snd (acquire_p_finish s t l f had (RVal v)) = RVal 1.
Proof.
  intros I Hf Hw. rewrite acquire_p_finish_reply.
  destruct (take_lock_free_of_inv s l t f I Hf Hw) as [s' ->]. reflexivity.
Qed.

Section Reachable.
Variables (prio_loop : bool) (factor : Q) (draws : list Q) (lks : list lkind)
          (cds : list (ckind * nat)) (nev : nat) (acts : list action).
Let s0 := init_st prio_loop factor draws lks cds nev.
Hypothesis Hok : run_ok s0 acts.
Let s := fold_left do_action acts s0.

Lemma reach_inv : Inv s.
Proof. apply C13_inv_all. exact Hok. Qed.

Theorem mutex_reach l :
  l < length (locks s) ->
  (forall t1 t2, In l (tholding (gett s t1)) -> In l (tholding (gett s t2)) -> t1 = t2) /\
  (forall t, In l (tholding (gett s t)) -> lowner (getl s l) = Some t) /\
  (forall t, lowner (getl s l) = Some t -> is_prio_task s t = true -> In l (tholding (gett s t))) /\
  (lkind_ (getl s l) = LPrio -> (llocked (getl s l) = true <-> exists t, lowner (getl s l) = Some t)) /\
  (forall t, count_occ Nat.eq_dec (tholding (gett s t)) l <= 1).
Proof. apply mutex_of_inv. apply reach_inv. Qed.

Theorem one_woken_reach l :
  (forall f1 f2, In f1 (pq_objs (lpq (getl s l))) -> In f2 (pq_objs (lpq (getl s l))) ->
     woken s f1 = true -> woken s f2 = true -> f1 = f2) /\
  (lowner (getl s l) <> None -> forall f, In f (pq_objs (lpq (getl s l))) -> woken s f = false).
Proof.
  split.
  - intros f1 f2. apply (iC1 reach_inv l).
  - intros Ho f. apply (iC2 reach_inv l f Ho).
Qed.

Theorem take_reach l t f had v v' :
  In f (pq_objs (lpq (getl s l))) -> fstate_ (getf s f) = FResult v' ->
  snd (acquire_p_finish s t l f had (RVal v)) = RVal 1 /\
  exists s', take_lock s l t = inl s'.
Proof.
  intros Hf Hs. assert (Hw : woken s f = true) by (unfold woken; now rewrite Hs). split.
  - apply take_reply_of_inv; auto. apply reach_inv.
  - eapply take_lock_free_of_inv; eauto. apply reach_inv.
Qed.

(* I4 (future half): a free PriorityLock with waiters has a waiter whose future is done -
   woken with a result, or cancelled; its task has therefore been scheduled and either
   takes the lock or passes the wake-up on in its finally clause *)
Theorem wake_in_flight_reach l :
  lkind_ (getl s l) = LPrio -> llocked (getl s l) = false -> pq_objs (lpq (getl s l)) <> [] ->
  exists f, In f (pq_objs (lpq (getl s l))) /\ fdone s f = true.
Proof. apply (C13_wake_in_flight_all prio_loop factor draws lks cds nev acts Hok l). Qed.
End Reachable.

(* ---------------------------------------------------------------- the static side condition *)
Theorem static_reach p fa dr lks cds nev acts :
  Forall act_static acts ->
  let s := fold_left do_action acts (init_st p fa dr lks cds nev) in
  Inv s /\ WF4 s.
Proof.
  intros H s. pose proof (run_ok_static_init p fa dr lks cds nev acts H) as Hok. split.
  - now apply C13_inv_all.
  - now apply C13_wake_in_flight_all.
Qed.

(* the run of the examples is in the static class *)
Example acts_static_example : Forall act_static (acts_a ++ acts_b ++ acts_c).
Proof.
  unfold acts_a, acts_b, acts_c. rewrite <- !map_app. apply Forall_forall. intros a Ha.
  apply in_map_iff in Ha as (x & <- & Hx). simpl in Hx.
  repeat (destruct Hx as [<-|Hx]; [cbn [act act_static]; try exact I; try (split; [exact I|reflexivity]);
          try (apply denote_task_nosr; cbn; tauto)|]). destruct Hx.
Qed.
