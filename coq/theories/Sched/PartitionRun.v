(* C09: task steps, run_one, timers, environment actions; Inv09 in every reachable state. *)
From Coq Require Import QArith Sorting.Permutation.
From RecordUpdate Require Import RecordUpdate.
From Asynkit Require Import Base.Prelude Queue.ListFacts Queue.PQ Queue.PosPQ Queue.Exec
     Queue.HeapqProofs Sched.Model Sched.PartTables Sched.PartitionProofs Sched.PartitionSteps.
Import RecordSetNotations.
Open Scope nat_scope.

Section Run.
Variable qok : rq -> Prop.
Hypothesis QS : QSpec qok.
Notation WF := (WF qok).
Notation InvC := (InvC qok).
Notation K := (K qok).

Lemma step_start t s x :
  InvC (Some t) s -> tfut x = tfut (gett s t) -> twaiter x = None -> tcont_ x = TRun ->
  InvC (Some t) (sett s t x).
Proof.
  intros I Hf Hw Hc. pose proof (i_cur I t eq_refl) as Ht.
  assert (W : WF (sett s t x)).
  { eapply WF_obs; [exact (i_wf I)|..]; try reflexivity; auto.
    - apply (i_wf I).
    - apply length_tasks_sett.
    - intros t' Ht'. rewrite gett_sett. destruct (_ && _) eqn:B; auto.
      apply andb_prop in B. destruct B as [B _]. apply Nat.eqb_eq in B. subst. auto.
    - intros t' Ht'. rewrite gett_sett. destruct (_ && _) eqn:B; [rewrite Hc; exact Logic.I|].
      apply (i_frm (i_wf I)); auto. }
  apply (InvC_obs_but qok (Some t) (Some t) s (sett s t x) t I W); auto.
  - apply length_tasks_sett.
  - intros t' Hq. inversion Hq; subst; auto.
  - intros t' Hn Ht'. rewrite gett_sett_other by auto. auto.
  - intros _ Hd. assert (Hd0 : tdone s t = false).
    { unfold tdone in *. rewrite gett_sett_same in Hd by auto. rewrite Hf in Hd. exact Hd. }
    destruct (InvC_cur_quiet qok t s I Hd0) as (Q1 & Q2 & Q3).
    unfold cls. simpl. rewrite Nat.eqb_refl. split; [exact Q1|]. split; [exact Q2|].
    unfold bo. rewrite gett_sett_same by auto. rewrite Hw. reflexivity.
  - intros; lia.
Qed.

Lemma step_task_inv t exc s :
  InvC (Some t) s -> current s = None ->
  InvC None (step_task t exc s) /\ current (step_task t exc s) = None.
Proof.
  intros I Hcur. pose proof (i_cur I t eq_refl) as Ht. unfold step_task.
  destruct (tdone s t) eqn:Hd.
  { split; [|exact Hcur]. apply (InvC_uncur qok t).
    - eapply InvC_same; [..|exact I]; reflexivity.
    - intros Hd'. change (tdone s t = false) in Hd'. congruence. }
  set (exc' := if tmustc (gett s t) then _ else exc).
  set (x := gett s t <| tmustc := false |> <| twaiter := None |> <| tcont_ := TRun |>).
  set (s2 := sett s t x <| current := Some t |>).
  assert (I2 : InvC (Some t) s2).
  { eapply InvC_same; [..|apply (step_start t s x I); reflexivity]; reflexivity. }
  pose proof (i_frm (i_wf I) t Ht) as Hk.
  assert (Hk2 : tcont_ok s2 (tcont_ (gett s t))).
  { eapply tcont_ok_eq; [| |exact Hk]; reflexivity. }
  set (inp := match exc' with None => RVal 0 | Some e => RExc e end).
  assert (Resume : forall frs k s3 o,
    Forall (frame_ok s2) frs -> kont_ok (length (blocks s2)) k ->
    (let '(s, r) := resume_stack t frs inp s2 in
     match r with LDone rep => exec t (k rep) s | LSusp y frs' => (s, OYield y frs' k) end) = (s3, o) ->
    InvC (Some t) s3 /\ outcome_ok s3 o).
  { intros frs k s3 o Hf Hko E. destruct (resume_stack t frs inp s2) as [sa r] eqn:R.
    destruct (resume_stack_K qok QS (Some t) t frs inp s2 sa r R Hf I2) as [HKa Hl].
    pose proof (e_blen (proj2 HKa)) as Hb.
    destruct r as [rep|y frs'].
    - destruct (exec_K qok QS (Some t) t (k rep) sa s3 o E) as [HKb Ho].
      + apply Hko. exact Hb.
      + apply HKa.
      + split; auto. apply HKb.
    - inversion E; subst. split; [apply HKa|]. split; [exact Hl|]. eapply kont_ok_mono; eauto. }
  assert (Body : forall s3 o,
    match tcont_ (gett s t) with
    | TNew c => match exc' with Some e => (s2, ODone (RExc e)) | None => exec t c s2 end
    | TSusp frs k =>
        let '(s, r) := resume_stack t frs inp s2 in
        match r with LDone rep => exec t (k rep) s | LSusp y frs' => (s, OYield y frs' k) end
    | TEager y frs k =>
        match exc' with
        | None => (match y with YFut f => setf s2 f (getf s2 f <| fblock := true |>) | YNone => s2 end,
                   OYield y frs k)
        | Some _ =>
            let '(s, r) := resume_stack t frs inp s2 in
            match r with LDone rep => exec t (k rep) s | LSusp y' frs' => (s, OYield y' frs' k) end
        end
    | TRun | TFin => (s2, ODone (RExc EInvalidState))
    end = (s3, o) -> InvC (Some t) s3 /\ outcome_ok s3 o).
  { intros s3 o E. destruct (tcont_ (gett s t)) as [c0|frs k|y frs k| |].
    - destruct exc'; [inversion E; subst; split; [auto|exact Logic.I]|].
      destruct (exec_K qok QS (Some t) t c0 s2 s3 o E Hk2 I2) as [HKb Ho]. split; auto. apply HKb.
    - destruct Hk2. eapply Resume; eauto.
    - destruct Hk2 as [Hf Hko]. destruct exc'; [eapply Resume; eauto|].
      inversion E; subst. destruct y as [|f].
      + split; [auto|]. split; auto.
      + assert (HK3 : K (Some t) s2 (setf s2 f (getf s2 f <| fblock := true |>))).
        { apply K_setf; try reflexivity. apply K_refl; auto. }
        split; [apply HK3|]. split; [eapply frames_ok_ext; [apply HK3|exact Hf]|exact Hko].
    - inversion E; subst. split; [auto|exact Logic.I].
    - inversion E; subst. split; [auto|exact Logic.I]. }
  match goal with |- context [match ?m with _ => _ end] =>
    lazymatch type of m with prod st outcome =>
      pose proof (Body (fst m) (snd m) (surjective_pairing m)) as B3; clear Body Resume;
      destruct m as [s3 o] end end.
  destruct B3 as [I3 Ho]. simpl in I3, Ho. split; [|reflexivity].
  eapply InvC_same; [..|apply (finish_step_inv qok QS t s3 o I3 Ho)]; reflexivity.
Qed.

(* ------------------------------------------------------------ popping a handle *)
Lemma pop_nontask c s0 s h r :
  qok r -> Permutation (rq_items (ready s)) (h :: rq_items r) -> task_of_handle s h = None ->
  K c s0 s -> K c s0 (s <| ready := r |>).
Proof.
  intros Hq P Hn [I E]. split.
  - assert (W : WF (s <| ready := r |>)).
    { apply WF_ready_sub; auto; [|apply (i_wf I)].
      intros h' Hh'. eapply Permutation_in; [symmetry; exact P|]. right; auto. }
    eapply InvC_obs; [exact I|exact W|reflexivity|..]; auto.
    intros t. unfold hcnt. rewrite (cnt_perm (task_key s t) _ _ P), cnt_cons.
    change (task_key (s <| ready := r |>) t) with (task_key s t).
    unfold task_key at 2. rewrite Hn. reflexivity.
  - eapply ext_same; [..|exact E]; reflexivity.
Qed.

Lemma pop_task s h r t :
  qok r -> Permutation (rq_items (ready s)) (h :: rq_items r) -> task_of_handle s h = Some t ->
  InvC None s -> InvC (Some t) (s <| ready := r |>).
Proof.
  intros Hq P Hh I. assert (Kh : task_key s t h = true) by (apply task_key_true; auto).
  destruct (hcnt_remove s r h t P Kh) as [H1 H2].
  assert (Ht : t < length (tasks s)).
  { destruct (Nat.lt_ge_cases t (length (tasks s))); auto.
    destruct (i_oor I t H) as [O _]. lia. }
  assert (W : WF (s <| ready := r |>)).
  { apply WF_ready_sub; auto; [|apply (i_wf I)].
    intros h' Hh'. eapply Permutation_in; [symmetry; exact P|]. right; auto. }
  apply (InvC_obs_but qok None (Some t) s (s <| ready := r |>) t I W); auto.
  - intros t' Hq'. inversion Hq'; subst; auto.
  - intros t' Hn. rewrite is_cur_some_other; auto.
  - intros _ Hd. pose proof (i_cls I t Ht Hd) as C. unfold cls in *. simpl in *.
    rewrite Nat.eqb_refl. destruct C as [R1 R2].
    assert (Eb : bo (s <| ready := r |>) t = bo s t) by reflexivity.
    unfold quiet. rewrite Eb. destruct (bo s t); [lia|]. split; [lia|]. split; auto.
  - intros; lia.
Qed.

Lemma coro_ok_interruptor n b : coro_ok n (interruptor_body b).
Proof. simpl. split; [exact Logic.I|]. intros m rep _. destruct rep; exact Logic.I. Qed.

Lemma run_one_inv s :
  InvC None s -> current s = None -> InvC None (run_one s) /\ current (run_one s) = None.
Proof.
  intros I Hc. unfold run_one. destruct (rq_popleft (ready s)) as [[h r]|] eqn:Pp; [|auto].
  destruct (q_popleft QS _ _ _ (i_qok (i_wf I)) Pp) as [Hq P].
  set (sp := s <| ready := r |>).
  change (geth sp h) with (geth s h).
  destruct (hcancelled (geth s h)) eqn:Hcan.
  { split; auto. apply (pop_nontask None s s h r Hq P (i_canc (i_wf I) h Hcan) (K_refl qok None s I)). }
  assert (NT : task_of_handle s h = None -> K None s sp).
  { intros Hn. apply (pop_nontask None s s h r Hq P Hn (K_refl qok None s I)). }
  assert (Fin : forall s', K None s s' -> InvC None s' /\ current s' = None).
  { intros s' [I' E']. split; auto. rewrite (e_cur E'). exact Hc. }
  unfold task_of_handle in NT.
  destruct (hcb (geth s h)) as [t e|t f|t p|n|f v|b| |t] eqn:Hcb; cbn [run_callback].
  - (* HStep *)
    apply step_task_inv; auto. apply (pop_task s h r t); auto. unfold task_of_handle. rewrite Hcb. reflexivity.
  - (* HWakeup *)
    assert (I1 : InvC (Some t) sp).
    { apply (pop_task s h r t); auto. unfold task_of_handle. rewrite Hcb. reflexivity. }
    unfold wakeup. destruct (fstate_ (getf sp f)); try (apply step_task_inv; auto).
    destruct (fut_result sp f) as [s' r'] eqn:Fr.
    pose proof (K_fut_result qok (Some t) sp sp f s' r' Fr (K_refl qok _ _ I1)) as [I2 E2].
    apply step_task_inv; auto. rewrite (e_cur E2). exact Hc.
  - (* HReinsert *)
    specialize (NT eq_refl). destruct (task_reinsert sp t p) as [s' r'] eqn:R.
    pose proof (K_task_reinsert qok QS _ _ _ _ _ _ _ R NT) as HK1.
    apply Fin. destruct r'; auto. apply K_adderr; auto.
  - apply Fin. apply K_addlog; auto.
  - apply Fin. apply K_fut_finish_fst; auto. discriminate.
  - (* HTrigger *)
    specialize (NT eq_refl). apply Fin. rewrite new_task_add. simpl.
    eapply K_trans; [exact NT|]. apply add_task_K; [exact QS|apply NT|apply coro_ok_interruptor].
  - apply Fin. apply K_queue_iterated; auto. apply K_addlog; auto.
  - specialize (NT eq_refl). apply Fin. destruct (cancel_task sp t) as [s' ok] eqn:C. simpl.
    eapply K_cancel_task; eauto.
Qed.

(* ------------------------------------------------------------ timers *)
Lemma K_timers_sub c s0 s tm :
  (forall x, In x tm -> In x (timers s)) -> K c s0 s -> K c s0 (s <| timers := tm |>).
Proof.
  intros Hs [I E]. split.
  - assert (W : WF (s <| timers := tm |>)).
    { destruct (i_wf I) as [W1 W2 W3 W4 W5 W6 W7]. constructor; auto.
      intros w h Hh. apply (W6 w h). apply Hs. exact Hh. }
    eapply InvC_obs; [exact I|exact W|reflexivity|..]; auto.
  - eapply ext_same; [..|exact E]; reflexivity.
Qed.

Lemma K_ready_append_nt c s0 s h p :
  nontask s h -> K c s0 s -> K c s0 (s <| ready := rq_append (ready s) h p |>).
Proof.
  intros [Hl Hn] [I E]. destruct (q_append QS (ready s) h p (i_qok (i_wf I))) as [Hq P].
  set (s' := s <| ready := rq_append (ready s) h p |>). split.
  - assert (W : WF s').
    { destruct (i_wf I) as [W1 W2 W3 W4 W5 W6 W7]. constructor; auto.
      intros h' Hh'. eapply Permutation_in in Hh'; [|exact P]. destruct Hh' as [<-|Hh']; auto. }
    eapply InvC_obs; [exact I|exact W|reflexivity|..]; auto.
    intros t. unfold hcnt. change (ready s') with (rq_append (ready s) h p).
    rewrite (cnt_perm _ _ _ P), cnt_cons. change (task_key s' t) with (task_key s t).
    unfold task_key at 1. rewrite Hn. reflexivity.
  - eapply ext_same; [..|exact E]; reflexivity.
Qed.

Lemma K_drop_cancelled c s0 : forall fuel s, K c s0 s -> K c s0 (drop_cancelled fuel s).
Proof.
  induction fuel as [|fuel IH]; intros s HK; cbn [drop_cancelled]; auto.
  destruct (timers s) as [|[w h] tl] eqn:T; auto.
  destruct (hcancelled (geth s h)); auto.
  destruct (HeapqModel.heappop timer_lt tdflt ((w, h) :: tl)) as [[e tm]|] eqn:Hp; auto.
  apply IH. apply K_timers_sub; auto. intros y Hy. rewrite T.
  eapply Permutation_in; [symmetry; apply (heappop_perm timer_lt tdflt timer_lt_asym timer_le_trans _ _ _ Hp)|].
  right; auto.
Qed.

Lemma K_move_due c s0 : forall fuel s, K c s0 s -> K c s0 (move_due fuel s).
Proof.
  induction fuel as [|fuel IH]; intros s HK; cbn [move_due]; auto.
  destruct (timers s) as [|[w h] tl] eqn:T; auto.
  destruct (Qle_bool w (now s)); auto.
  destruct (HeapqModel.heappop timer_lt tdflt ((w, h) :: tl)) as [[[w' h'] tm]|] eqn:Hp; auto.
  pose proof (heappop_perm timer_lt tdflt timer_lt_asym timer_le_trans _ _ _ Hp) as P.
  apply IH.
  assert (HK1 : K c s0 (s <| timers := tm |>)).
  { apply K_timers_sub; auto. intros y Hy. rewrite T.
    eapply Permutation_in; [symmetry; exact P|]. right; auto. }
  apply (K_ready_append_nt c s0 (s <| timers := tm |>)); auto.
  eapply nontask_eq; [|apply (i_tim (i_wf (proj1 HK)) w' h')]; [reflexivity|].
  rewrite T. eapply Permutation_in; [symmetry; exact P|]. left; auto.
Qed.

Lemma K_begin_iteration c s0 s : K c s0 s -> K c s0 (begin_iteration s).
Proof. intros HK. unfold begin_iteration. apply K_move_due. apply K_drop_cancelled. exact HK. Qed.

(* ------------------------------------------------------------ actions and reachability *)
Definition Inv09 (s : st) : Prop := InvC None s /\ current s = None.

Definition action_ok (s : st) (a : action) : Prop :=
  match a with
  | ASpawn _ c0 => coro_ok (length (blocks s)) c0
  | ADo op => op_ok (length (blocks s)) op
  | _ => True
  end.

Theorem Inv09_action s a : Inv09 s -> action_ok s a -> Inv09 (do_action s a).
Proof.
  intros [I Hc] Ha.
  assert (Fin : forall s', K None s s' -> Inv09 s').
  { intros s' [I' E']. split; auto. rewrite (e_cur E'). exact Hc. }
  destruct a as [| |d|how c0|op]; cbn [do_action].
  - apply run_one_inv; auto.
  - apply Fin. apply K_begin_iteration. apply K_refl; auto.
  - apply Fin. eapply K_same; [..|apply K_refl; exact I]; reflexivity.
  - apply Fin. destruct (spawn_task s how c0) as [s' t'] eqn:S. simpl.
    eapply spawn_task_K; eauto.
  - apply Fin. destruct (lib_call 0 op s) as [s' r] eqn:L. simpl.
    apply (lib_call_K qok QS None 0 op s s' r L Ha I).
Qed.

Fixpoint actions_ok (s : st) (l : list action) : Prop :=
  match l with
  | [] => True
  | a :: l' => action_ok s a /\ actions_ok (do_action s a) l'
  end.

Theorem Inv09_run : forall l s, Inv09 s -> actions_ok s l -> Inv09 (fold_left do_action l s).
Proof.
  induction l as [|a l IH]; intros s I H; simpl; auto.
  destruct H as [Ha Hl]. apply IH; auto. apply Inv09_action; auto.
Qed.

Lemma Inv09_init prio factor draws lks cds nev :
  qok (ready (init_st prio factor draws lks cds nev)) ->
  Inv09 (init_st prio factor draws lks cds nev).
Proof.
  intros Hq. set (s := init_st prio factor draws lks cds nev).
  assert (It : rq_items (ready s) = []).
  { unfold s, init_st. destruct prio; reflexivity. }
  split; [|reflexivity]. constructor.
  - constructor.
    + exact Hq.
    + rewrite It. intros h [].
    + intros h Hh. unfold task_of_handle, geth. simpl. destruct h; reflexivity.
    + simpl. intros; lia.
    + simpl. intros; lia.
    + simpl. intros w h [].
    + simpl. intros; lia.
  - discriminate.
  - simpl. intros; lia.
  - intros t _. split.
    + unfold hcnt. rewrite It. reflexivity.
    + intros g _. unfold ccnt, getf. simpl. destruct g; reflexivity.
Qed.

End Run.
