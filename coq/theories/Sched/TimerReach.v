(* C16: the well-formedness hypothesis [EnterWf] of the timer theorems holds at EVERY library call
   of EVERY reachable run - between loop actions and in the middle of a task step - and the
   invariant [Inv] of a block entered in such a run holds at the end of the action that entered it.

   "Every library call executed" is made precise by instrumenting the model: [exec_pre P t c s] is
   the proposition "P t op sm holds for every library call op that exec t c s makes, sm being the
   state in which the call is made"; it follows exec clause by clause.  [step_pre], [wakeup_pre],
   [callback_pre], [run_one_pre] do the same for Task.__step, Task.__wakeup, a ready handle and
   one loop step; [run_pre Pm Pe s acts] for a whole action list: Pm sf t op sm for the calls made
   inside the loop step that ends in state sf, Pe op s for the calls made from outside the loop
   (ADo). *)
From Coq Require Import QArith Sorting.Permutation.
From RecordUpdate Require Import RecordUpdate.
From Asynkit Require Import Base.Prelude Queue.ListFacts Queue.PQ Queue.PosPQ Queue.Exec
     Queue.Heap Queue.HeapqModel Queue.HeapqProofs
     Sched.Model Sched.PartTables Sched.PartitionProofs Sched.PartitionSteps Sched.PartitionRun
     Sched.FrameFacts Sched.PrioLoopProofs Sched.TimeoutProofs Sched.TimeoutCompose
     Sched.TimerInv Sched.TimerDue Sched.TimerWf.
Import RecordSetNotations.
Open Scope nat_scope.

(* ------------------------------------------------------------ instrumented model *)
Section Pre.
Variable P : nat -> libop -> st -> Prop.

Fixpoint exec_pre (t : nat) (c : coro) (s : st) {struct c} : Prop :=
  match c with
  | Ret _ | Raise _ => True
  | Call op k =>
      P t op s /\
      let '(s', r) := lib_call t op s in
      match r with
      | LDone rep => exec_pre t (k rep) s'
      | LSusp _ _ => True
      end
  | Spawn SEager child k =>
      exec_pre t child s /\
      let '(s, o) := exec t child s in
      match o with
      | ODone r =>
          let '(s, f) := new_future s None in
          let s := fst (fut_finish s f (match r with RVal v => FResult v | RExc e => FExc e end)) in
          exec_pre t (k (RVal (Z.of_nat f))) s
      | OYield y frs kc =>
          let s := match y with
                   | YFut f => setf s f (getf s f <| fblock := false |>)
                   | YNone => s end in
          let tn := length (tasks s) in
          let '(s, f) := new_future s (Some tn) in
          let s := s <| tasks := tasks s ++ [mkTask KC None f (TEager y frs kc) None false [] None] |> in
          let s := call_soon_ s (HStep tn None) in
          exec_pre t (k (RVal (Z.of_nat f))) s
      end
  | Spawn how child k =>
      let '(s, t') := spawn_task s how child in
      match how with
      | SDescend =>
          P t (OTaskSwitch t' (Some 1)) s /\
          let '(s, r) := lib_call t (OTaskSwitch t' (Some 1)) s in
          match r with
          | LDone (RExc e) => exec_pre t (k (RExc e)) s
          | LDone (RVal _) => exec_pre t (k (RVal (Z.of_nat t'))) s
          | LSusp _ _ => True
          end
      | SStart => True
      | _ => exec_pre t (k (RVal (Z.of_nat t'))) s
      end
  end.

Definition resume_pre (t : nat) (frs : list frame) (k : reply -> coro) (inp : reply) (s : st) : Prop :=
  let '(s, r) := resume_stack t frs inp s in
  match r with
  | LDone rep => exec_pre t (k rep) s
  | LSusp _ _ => True
  end.
End Pre.

(* the pieces of Task.__step *)
Definition step_exc (t : nat) (exc : option exn) (s : st) : option exn :=
  if tmustc (gett s t)
  then match exc with
       | Some e => if is_cancel e then Some e else Some ECancelled
       | None => Some ECancelled end
  else exc.
Definition step_st (t : nat) (s : st) : st :=
  sett s t (gett s t <| tmustc := false |> <| twaiter := None |> <| tcont_ := TRun |>) <| current := Some t |>.
Definition step_inp (exc : option exn) : reply := match exc with None => RVal 0 | Some e => RExc e end.
Definition resume_run (t : nat) (frs : list frame) (k : reply -> coro) (inp : reply) (s : st) : st * outcome :=
  let '(s, r) := resume_stack t frs inp s in
  match r with
  | LDone rep => exec t (k rep) s
  | LSusp y frs' => (s, OYield y frs' k)
  end.
Definition step_body (t : nat) (exc : option exn) (s : st) : st * outcome :=
  let exc' := step_exc t exc s in
  let s2 := step_st t s in
  match tcont_ (gett s t) with
  | TNew c => match exc' with Some e => (s2, ODone (RExc e)) | None => exec t c s2 end
  | TSusp frs k => resume_run t frs k (step_inp exc') s2
  | TEager y frs k =>
      match exc' with
      | None => (match y with YFut f => setf s2 f (getf s2 f <| fblock := true |>) | YNone => s2 end,
                 OYield y frs k)
      | Some _ => resume_run t frs k (step_inp exc') s2
      end
  | TRun | TFin => (s2, ODone (RExc EInvalidState))
  end.
Lemma step_task_eq t exc s :
  step_task t exc s =
  if tdone s t then adderr s LEInvalidState
  else let '(s3, o) := step_body t exc s in finish_step t s3 o <| current := None |>.
Proof. reflexivity. Qed.

Definition step_pre (P : nat -> libop -> st -> Prop) (t : nat) (exc : option exn) (s : st) : Prop :=
  if tdone s t then True else
  let exc' := step_exc t exc s in
  let s2 := step_st t s in
  match tcont_ (gett s t) with
  | TNew c => match exc' with Some _ => True | None => exec_pre P t c s2 end
  | TSusp frs k => resume_pre P t frs k (step_inp exc') s2
  | TEager y frs k =>
      match exc' with
      | None => True
      | Some _ => resume_pre P t frs k (step_inp exc') s2
      end
  | TRun | TFin => True
  end.

Definition wakeup_pre (P : nat -> libop -> st -> Prop) (t f : nat) (s : st) : Prop :=
  match fstate_ (getf s f) with
  | FResult _ => step_pre P t None s
  | FExc e => step_pre P t (Some e) s
  | FCancelled => let '(s', r) := fut_result s f in
                  step_pre P t (match r with RExc e => Some e | RVal _ => None end) s'
  | FPending => step_pre P t (Some EInvalidState) s
  end.

Definition callback_pre (P : nat -> libop -> st -> Prop) (c : callback) (s : st) : Prop :=
  match c with
  | HStep t e => step_pre P t e s
  | HWakeup t f => wakeup_pre P t f s
  | _ => True      (* the other callbacks run no user code *)
  end.

Definition run_one_pre (P : nat -> libop -> st -> Prop) (s : st) : Prop :=
  match rq_popleft (ready s) with
  | None => True
  | Some (h, r) =>
      let s := s <| ready := r |> in
      let hd := geth s h in
      if hcancelled hd then True else callback_pre P (hcb hd) s
  end.

Definition action_pre (Pm : st -> nat -> libop -> st -> Prop) (Pe : libop -> st -> Prop)
           (s : st) (a : action) : Prop :=
  match a with
  | AStep => run_one_pre (Pm (run_one s)) s
  | ADo op => Pe op s
  | _ => True
  end.

Fixpoint run_pre (Pm : st -> nat -> libop -> st -> Prop) (Pe : libop -> st -> Prop)
         (s : st) (acts : list action) : Prop :=
  match acts with
  | [] => True
  | a :: rest => action_pre Pm Pe s a /\ run_pre Pm Pe (do_action s a) rest
  end.

(* monotonicity in the predicate *)
Lemma exec_pre_impl (P Q : nat -> libop -> st -> Prop) t :
  (forall op s, P t op s -> Q t op s) ->
  forall c s, exec_pre P t c s -> exec_pre Q t c s.
Proof.
  intros HPQ. induction c as [v|e|op k IH|how child IHc k IHk]; intros s H; auto.
  - cbn [exec_pre] in *. destruct H as [H1 H2]. split; [auto|].
    destruct (lib_call t op s) as [s1 r1]. destruct r1; auto.
  - destruct how; cbn [exec_pre] in *.
    1,2,3: (destruct (spawn_task s _ child) as [s1 t']; auto).
    + destruct (spawn_task s SDescend child) as [s1 t']. destruct H as [H1 H2]. split; [auto|].
      destruct (lib_call t _ s1) as [s2 r2]. destruct r2 as [[v|e]|]; auto.
    + destruct (spawn_task s SStart child) as [s1 t']. auto.
    + destruct H as [H1 H2]. split; [auto|].
      destruct (exec t child s) as [s1 o1]. destruct o1 as [r|y frs kc].
      * destruct (new_future s1 None) as [s2 f]. auto.
      * match goal with |- context [new_future ?u ?x] => destruct (new_future u x) as [s2 f] end. auto.
Qed.

Lemma step_pre_impl (P Q : nat -> libop -> st -> Prop) t exc s :
  (forall op s, P t op s -> Q t op s) -> step_pre P t exc s -> step_pre Q t exc s.
Proof.
  intros HPQ. unfold step_pre, resume_pre. destruct (tdone s t); auto.
  cbv zeta. destruct (tcont_ (gett s t)) as [c|frs k|y frs k| |]; auto.
  - destruct (step_exc t exc s); auto. apply exec_pre_impl; auto.
  - destruct (resume_stack _ _ _ _) as [s1 r]. destruct r; auto. apply exec_pre_impl; auto.
  - destruct (step_exc t exc s); auto.
    destruct (resume_stack _ _ _ _) as [s1 r]. destruct r; auto. apply exec_pre_impl; auto.
Qed.

(* ------------------------------------------------------------ the proofs *)
Section Reach.
Variable qok : rq -> Prop.
Hypothesis QS : QSpec qok.
Notation InvC := (InvC qok).
Notation K := (PartitionProofs.K qok).
Notation Inv09 := (Inv09 qok).

(* C09's invariant + the timer tables + one handle exists  ==>  EnterWf *)
Lemma enter_wf_of c s : InvC c s -> TWfN 1 s -> EnterWf qok s.
Proof.
  intros I T. apply (InvC_EnterWf qok c s I).
  - apply (tw_len _ _ T).
  - apply (tw_trg _ _ T).
  - apply (tw_nd _ _ T).
  - apply (tw_hp _ _ T).
Qed.

(* the state in which block b (trigger handle h, deadline w) is entered; "sf is a later state of
   the same piece of code": Inv holds there and what is suspended has no frame for h *)
Definition armed_at (sf : st) (o : option outcome) (t : nat) (op : libop) (sm : st) : Prop :=
  EnterWf qok sm /\
  forall d, op = OTimeoutEnter (Some d) ->
    let b := length (blocks sm) in let h := length (handles sm) in let w := (now sm + d)%Q in
    lib_call t op sm = (enter_st sm t d, LDone (RVal (Z.of_nat b))) /\
    Inv qok b h w (enter_st sm t d) /\
    Inv qok b h w sf /\
    match o with Some o => out_ok h sf o | None => True end.

Lemma armed_at_lift sf o sf' o' t op sm :
  (forall b h w, Inv qok b h w sf -> match o with Some o => out_ok h sf o | None => True end ->
                 Inv qok b h w sf' /\ match o' with Some o => out_ok h sf' o | None => True end) ->
  armed_at sf o t op sm -> armed_at sf' o' t op sm.
Proof.
  intros HL [W A]. split; [exact W|]. intros d E. destruct (A d E) as (A1 & A2 & A3 & A4).
  destruct (HL _ _ _ A3 A4) as [B1 B2]. cbv zeta. auto.
Qed.

Lemma exec_arm c t : forall c0 s s' o,
  exec t c0 s = (s', o) -> coro_ok (length (blocks s)) c0 -> InvC c s -> TWfN 1 s ->
  exec_pre (armed_at s' (Some o)) t c0 s.
Proof.
  induction c0 as [v|e|op k IH|how child IHc k IHk]; intros s s' o E Hok I T.
  - exact Logic.I.
  - exact Logic.I.
  - cbn [exec_pre]. cbn [exec] in E. pose proof (enter_wf_of c s I T) as W. split.
    + split; [exact W|]. intros d ->.
      destruct (enter_arms qok t d s W) as (A1 & _ & _ & _ & _ & A6). cbv zeta.
      split; [exact A1|]. split; [exact A6|].
      rewrite A1 in E.
      destruct (K_exec qok QS _ _ _ t _ _ _ _ _ E (TimerInv.K_refl _ _ _ _ _ A6)) as [HK Ho].
      split; [apply (K_inv _ _ _ _ _ _ HK)|exact Ho].
    + destruct (lib_call t op s) as [s1 r] eqn:L.
      destruct (lib_call_K qok QS c t op s s1 r L (proj1 Hok) I) as [HK1 Hl1].
      pose proof (lib_call_kont _ t op k s s1 r Hok (Nat.le_refl _) L (e_blen (proj2 HK1))) as Hk1.
      pose proof (TW_lib_call 1 _ _ _ _ _ L T) as T1.
      destruct r as [rep|y frs]; [|exact Logic.I].
      apply (IH rep s1 s' o E Hk1 (proj1 HK1) T1).
  - destruct Hok as [Hchild Hk].
    assert (Hk' : forall s2, K c s s2 -> kont_ok (length (blocks s2)) k).
    { intros s2 H2. intros m rep Hm. apply Hk. pose proof (e_blen (proj2 H2)). lia. }
    destruct how.
    1,2,3: (cbn [exec] in E; cbn [exec_pre]; destruct (spawn_task s _ child) as [s1 t'] eqn:S;
            pose proof (spawn_task_K qok QS c s _ child s1 t' S I Hchild) as HK1;
            pose proof (TW_spawn_task 1 _ _ _ _ _ S T) as T1;
            apply (IHk (RVal (Z.of_nat t')) s1 s' o E); [apply (Hk' s1 HK1); lia|apply HK1|exact T1]).
    + (* SDescend *)
      cbn [exec] in E. cbn [exec_pre]. destruct (spawn_task s SDescend child) as [s1 t'] eqn:S.
      pose proof (spawn_task_K qok QS c s _ child s1 t' S I Hchild) as HK1.
      pose proof (TW_spawn_task 1 _ _ _ _ _ S T) as T1.
      split; [split; [apply (enter_wf_of c s1 (proj1 HK1) T1)|intros d Q0; discriminate]|].
      destruct (lib_call t (OTaskSwitch t' (Some 1)) s1) as [s2 r] eqn:L.
      destruct (lib_call_K qok QS c t _ s1 s2 r L Logic.I (proj1 HK1)) as [HK2 Hl2].
      pose proof (PartitionProofs.K_trans qok c s s1 s2 HK1 HK2) as HK12.
      pose proof (TW_lib_call 1 _ _ _ _ _ L T1) as T2.
      destruct r as [[v|e]|y frs]; [| |exact Logic.I].
      * apply (IHk (RVal (Z.of_nat t')) s2 s' o E); [apply (Hk' s2 HK12); lia|apply HK2|exact T2].
      * apply (IHk (RExc e) s2 s' o E); [apply (Hk' s2 HK12); lia|apply HK2|exact T2].
    + (* SStart *)
      cbn [exec_pre]. destruct (spawn_task s SStart child). exact Logic.I.
    + (* SEager *)
      cbn [exec] in E. cbn [exec_pre]. destruct (exec t child s) as [s1 o1] eqn:X.
      destruct (exec_K qok QS c t child s s1 o1 X Hchild I) as [HK1 Ho1].
      pose proof (TW_exec 1 t _ _ _ _ X T) as T1.
      pose proof (IHc s s1 o1 X Hchild I T) as PC.
      destruct o1 as [r|y frs kc].
      * destruct (new_future s1 None) as [s2 f] eqn:N.
        set (s3 := fst (fut_finish s2 f match r with RVal v => FResult v | RExc e => FExc e end)) in *.
        assert (HK2 : K c s s3).
        { apply PartitionProofs.K_fut_finish_fst; [exact QS|destruct r; discriminate|].
          eapply PartitionProofs.K_new_future_eq; eauto. }
        assert (T3 : TWfN 1 s3).
        { unfold s3. apply TW_fut_finish_fst. eapply TW_new_future_eq; eauto. }
        split.
        -- (* calls made by the child: the rest of the parent's code keeps Inv *)
           eapply exec_pre_impl; [|exact PC]. intros op0 sm. apply armed_at_lift.
           intros b h w J _.
           assert (J3 : TimerInv.K qok b h w s1 s3).
           { unfold s3. apply TimerInv.K_fut_finish_fst; [exact QS|]. eapply TimerInv.K_new_future_eq; [exact N|].
             apply TimerInv.K_refl; exact J. }
           destruct (K_exec qok QS b h w t _ _ _ _ _ E J3) as [HKe Hoe].
           split; [apply (K_inv _ _ _ _ _ _ HKe)|exact Hoe].
        -- apply (IHk (RVal (Z.of_nat f)) s3 s' o E); [apply (Hk' _ HK2); lia|apply HK2|exact T3].
      * set (s2 := match y with YFut f => setf s1 f (getf s1 f <| fblock := false |>) | YNone => s1 end) in *.
        assert (HK2 : K c s s2) by (unfold s2; destruct y; [exact HK1|apply PartitionProofs.K_setf; auto]).
        destruct Ho1 as [Hf1 Hkc].
        assert (Hk0 : tcont_ok s2 (TEager y frs kc)).
        { simpl. split.
          - eapply frames_ok_ext; [|exact Hf1]. unfold s2. destruct y; [apply ext_refl|].
            eapply ext_same; [..|apply ext_refl]; reflexivity.
          - replace (length (blocks s2)) with (length (blocks s1)); auto.
            unfold s2; destruct y; reflexivity. }
        pose proof (add_task_K qok QS c s2 KC None (TEager y frs kc) (proj1 HK2) Hk0) as HK3.
        pose proof (PartitionProofs.K_trans qok c s s2 _ HK2 HK3) as HK23.
        assert (T2 : TWfN 1 s2) by (unfold s2; destruct y; [exact T1|apply TW_setf; exact T1]).
        assert (T3 : TWfN 1 (add_task s2 KC None (TEager y frs kc))).
        { unfold add_task. apply TW_call_soon; [reflexivity|]. apply TW_tasks. apply TW_futs. exact T2. }
        change (exec t (k (RVal (Z.of_nat (length (futs s2))))) (add_task s2 KC None (TEager y frs kc))
                = (s', o)) in E.
        change (exec_pre (armed_at s' (Some o)) t child s /\
                exec_pre (armed_at s' (Some o)) t (k (RVal (Z.of_nat (length (futs s2)))))
                         (add_task s2 KC None (TEager y frs kc))).
        split.
        -- eapply exec_pre_impl; [|exact PC]. intros op0 sm. apply armed_at_lift.
           intros b h w J Jo.
           assert (J2 : TimerInv.K qok b h w s1 s2 /\ handles s2 = handles s1).
           { unfold s2. destruct y; split; try reflexivity; [apply TimerInv.K_refl; exact J|].
             apply TimerInv.K_setf. apply TimerInv.K_refl; exact J. }
           destruct J2 as [J2 EU].
           assert (J3 : TimerInv.K qok b h w s1 (add_task s2 KC None (TEager y frs kc))).
           { unfold add_task. apply TimerInv.K_call_soon; [exact QS|discriminate|].
             apply K_tasks_app; [|apply TimerInv.K_new_future; exact J2].
             cbn. rewrite EU. exact Jo. }
           destruct (K_exec qok QS b h w t _ _ _ _ _ E J3) as [HKe Hoe].
           split; [apply (K_inv _ _ _ _ _ _ HKe)|exact Hoe].
        -- apply (IHk _ _ s' o E); [apply (Hk' _ HK23); lia|apply HK3|exact T3].
Qed.

(* ------------------------------------------------------------ Task.__step *)
Lemma step_arm t exc s :
  InvC (Some t) s -> TWfN 1 s -> step_pre (armed_at (step_task t exc s) None) t exc s.
Proof.
  intros I T. pose proof (i_cur I t eq_refl) as Ht.
  rewrite step_task_eq. unfold step_pre. destruct (tdone s t) eqn:Hd; [exact Logic.I|].
  cbv zeta. unfold step_body. cbv zeta.
  set (exc' := step_exc t exc s). clearbody exc'. set (s2 := step_st t s).
  assert (I2 : InvC (Some t) s2).
  { unfold s2, step_st.
    set (x := gett s t <| tmustc := false |> <| twaiter := None |> <| tcont_ := TRun |>).
    eapply InvC_same; [..|apply (step_start qok t s x I); reflexivity]; reflexivity. }
  assert (T2 : TWfN 1 s2) by (unfold s2, step_st; apply TW_current, TW_sett, T).
  pose proof (i_frm (i_wf I) t Ht) as Hk.
  assert (Hk2 : tcont_ok s2 (tcont_ (gett s t))) by (eapply tcont_ok_eq; [| |exact Hk]; reflexivity).
  assert (Lift : forall s3 o op sm,
            armed_at s3 (Some o) t op sm -> armed_at (finish_step t s3 o <| current := None |>) None t op sm).
  { intros s3 o op sm. apply armed_at_lift. intros b h w J Jo. split; [|exact Logic.I].
    apply (K_inv qok b h w s3). apply TimerInv.K_current.
    apply K_finish_step; [exact QS|exact Jo|apply TimerInv.K_refl; exact J]. }
  assert (Resume : forall frs k, Forall (frame_ok s2) frs -> kont_ok (length (blocks s2)) k ->
     resume_pre (armed_at (let '(s3, o) := resume_run t frs k (step_inp exc') s2 in
                           finish_step t s3 o <| current := None |>) None) t frs k (step_inp exc') s2).
  { intros frs k Hf Hko. unfold resume_pre, resume_run.
    destruct (resume_stack t frs (step_inp exc') s2) as [sa r] eqn:R.
    destruct (resume_stack_K qok QS (Some t) t frs _ s2 sa r R Hf I2) as [HKa Hl].
    pose proof (TW_resume_stack 1 t _ _ _ _ _ R T2) as Ta.
    destruct r as [rep|y frs']; [|exact Logic.I].
    destruct (exec t (k rep) sa) as [s3 o] eqn:E.
    eapply exec_pre_impl; [intros op sm; apply Lift|].
    apply (exec_arm (Some t) t _ _ _ _ E); [apply Hko; apply (e_blen (proj2 HKa))|apply HKa|exact Ta]. }
  destruct (tcont_ (gett s t)) as [c0|frs k|y frs k| |]; try exact Logic.I.
  - destruct exc'; [exact Logic.I|]. destruct (exec t c0 s2) as [s3 o] eqn:E.
    eapply exec_pre_impl; [intros op sm; apply Lift|]. apply (exec_arm (Some t) t _ _ _ _ E Hk2 I2 T2).
  - destruct Hk2. apply Resume; auto.
  - destruct Hk2. destruct exc'; [apply Resume; auto|exact Logic.I].
Qed.

(* ------------------------------------------------------------ one ready handle *)
Lemma run_one_arm s : InvC None s -> TWf s -> run_one_pre (armed_at (run_one s) None) s.
Proof.
  intros I T. unfold run_one_pre, run_one.
  destruct (rq_popleft (ready s)) as [[h r]|] eqn:Pp; [|exact Logic.I].
  destruct (q_popleft QS _ _ _ (i_qok (i_wf I)) Pp) as [Hq P].
  set (sp := s <| ready := r |>). cbv zeta. change (geth sp h) with (geth s h).
  destruct (hcancelled (geth s h)) eqn:Hcan; [exact Logic.I|].
  assert (Hh : h < length (handles s)).
  { apply (i_rwf (i_wf I)). eapply Permutation_in; [symmetry; exact P|]. left; auto. }
  assert (Tp : TWfN 1 sp).
  { apply TW_ready. apply TWfN_intro; [exact T|lia]. }
  destruct (hcb (geth s h)) as [t e|t f|t p|z|f v|b| |t] eqn:Hcb; cbn [callback_pre run_callback];
    try exact Logic.I.
  - apply step_arm; auto. apply (pop_task qok s h r t); auto.
    unfold task_of_handle. rewrite Hcb. reflexivity.
  - assert (I1 : InvC (Some t) sp).
    { apply (pop_task qok s h r t); auto. unfold task_of_handle. rewrite Hcb. reflexivity. }
    unfold wakeup_pre, wakeup. destruct (fstate_ (getf sp f)); try (apply step_arm; auto).
    destruct (fut_result sp f) as [s' r'] eqn:Fr.
    pose proof (PartitionProofs.K_fut_result qok (Some t) sp sp f s' r' Fr (PartitionProofs.K_refl qok _ _ I1)) as [I2 E2].
    apply step_arm; auto. eapply TW_fut_result; eauto.
Qed.

(* ------------------------------------------------------------ every reachable run *)
Definition armed_ext (op : libop) (s : st) : Prop :=
  0 < length (handles s) -> armed_at (do_action s (ADo op)) None 0 op s.

Theorem reach_arm : forall acts s,
  Inv09 s -> TWf s -> actions_ok s acts ->
  run_pre (fun sf => armed_at sf None) armed_ext s acts.
Proof.
  induction acts as [|a acts IH]; intros s J T Ha; cbn [run_pre]; [exact Logic.I|].
  destruct Ha as [Ha Hl]. split.
  - destruct a as [| |d|how c0|op]; cbn [action_pre]; try exact Logic.I.
    + apply run_one_arm; [apply J|exact T].
    + intros Hpos. assert (T1 : TWfN 1 s) by (apply TWfN_intro; [exact T|lia]).
      pose proof (enter_wf_of None s (proj1 J) T1) as W. split; [exact W|].
      intros d ->. destruct (enter_arms qok 0 d s W) as (A1 & _ & _ & _ & _ & A6). cbv zeta.
      split; [exact A1|]. split; [exact A6|]. split; [|exact Logic.I].
      cbn [do_action]. rewrite A1. exact A6.
  - apply IH; [apply (Inv09_action qok QS); auto|apply TW_do_action; auto|exact Hl].
Qed.

(* between actions *)
Theorem reach_wf acts s0 :
  Inv09 s0 -> TWf s0 -> actions_ok s0 acts ->
  let s := fold_left do_action acts s0 in
  Inv09 s /\ TWf s /\ (0 < length (handles s) -> EnterWf qok s).
Proof.
  intros J T Ha s. pose proof (Inv09_run qok QS acts s0 J Ha) as J'. pose proof (TW_actions 0 acts s0 T) as T'.
  fold s in J', T'. split; [exact J'|]. split; [exact T'|]. intros Hpos.
  apply (enter_wf_of None s (proj1 J')). apply TWfN_intro; [exact T'|lia].
Qed.

End Reach.

(* ------------------------------------------------------------ monotonicity, whole runs *)
Lemma run_one_pre_impl (P Q : nat -> libop -> st -> Prop) s :
  (forall t op sm, P t op sm -> Q t op sm) -> run_one_pre P s -> run_one_pre Q s.
Proof.
  intros HPQ. unfold run_one_pre. destruct (rq_popleft (ready s)) as [[h r]|]; auto. cbv zeta.
  destruct (hcancelled _); auto.
  destruct (hcb _) as [t e|t f|t p|z|f v|b| |t]; cbn [callback_pre]; auto.
  - apply step_pre_impl. intros; apply HPQ; auto.
  - unfold wakeup_pre. destruct (fstate_ _); try (apply step_pre_impl; intros; apply HPQ; auto).
    destruct (fut_result _ _) as [s' r']. apply step_pre_impl; intros; apply HPQ; auto.
Qed.

Lemma run_pre_impl (Pm Qm : st -> nat -> libop -> st -> Prop) (Pe Qe : libop -> st -> Prop) :
  (forall sf t op sm, Pm sf t op sm -> Qm sf t op sm) -> (forall op s, Pe op s -> Qe op s) ->
  forall acts s, run_pre Pm Pe s acts -> run_pre Qm Qe s acts.
Proof.
  intros Hm He. induction acts as [|a acts IH]; intros s H; cbn [run_pre] in *; auto.
  destruct H as [H1 H2]. split; [|auto].
  destruct a; cbn [action_pre] in *; auto. eapply run_one_pre_impl; [|exact H1]. intros; apply Hm; auto.
Qed.

(* [at_enters R s0 acts]: R t d sm sf holds for every task_timeout(d) block entered in the run
   acts from s0 - by task t inside a loop step, or from outside the loop (t = 0, at least one
   handle exists) - sm being the state in which OTimeoutEnter (Some d) is called and sf the state
   at the end of the loop step (or of the external call) that made the call *)
Definition at_enters (R : nat -> Q -> st -> st -> Prop) (s0 : st) (acts : list action) : Prop :=
  run_pre (fun sf t op sm => forall d, op = OTimeoutEnter (Some d) -> R t d sm sf)
          (fun op s => 0 < length (handles s) ->
                       forall d, op = OTimeoutEnter (Some d) -> R 0 d s (do_action s (ADo op)))
          s0 acts.

(* [at_calls P s0 acts]: P sm holds for every library call made in the run, sm being the state in
   which it is made (calls from outside the loop: if at least one handle exists) *)
Definition at_calls (P : st -> Prop) (s0 : st) (acts : list action) : Prop :=
  run_pre (fun _ _ _ sm => P sm) (fun _ s => 0 < length (handles s) -> P s) s0 acts.

Section Thms.
Variable qok : rq -> Prop.
Hypothesis QS : QSpec qok.

Theorem enter_wf_every_call s0 acts :
  Inv09 qok s0 -> TWf s0 -> actions_ok s0 acts -> at_calls (EnterWf qok) s0 acts.
Proof.
  intros J T Ha. unfold at_calls. eapply run_pre_impl; [| |apply (reach_arm qok QS acts s0 J T Ha)].
  - intros sf t op sm [W _]. exact W.
  - intros op s H Hpos. apply (H Hpos).
Qed.

(* the generic form of the reachable corollaries: whatever follows from "EnterWf in the state
   of the call, the call arms, Inv right after the call and Inv at the end of the action" holds
   at every enter of every reachable run *)
Theorem at_enters_intro (R : nat -> Q -> st -> st -> Prop) s0 acts :
  (forall t d sm sf,
     let b := length (blocks sm) in let h := length (handles sm) in let w := (now sm + d)%Q in
     EnterWf qok sm ->
     lib_call t (OTimeoutEnter (Some d)) sm = (enter_st sm t d, LDone (RVal (Z.of_nat b))) ->
     Inv qok b h w (enter_st sm t d) -> Inv qok b h w sf -> R t d sm sf) ->
  Inv09 qok s0 -> TWf s0 -> actions_ok s0 acts -> at_enters R s0 acts.
Proof.
  intros HR J T Ha. unfold at_enters. eapply run_pre_impl; [| |apply (reach_arm qok QS acts s0 J T Ha)].
  - intros sf t op sm [W A] d E. destruct (A d E) as (A1 & A2 & A3 & _). subst op.
    apply (HR t d sm sf W A1 A2 A3).
  - intros op s H Hpos d E. destruct (H Hpos) as [W A]. destruct (A d E) as (A1 & A2 & A3 & _). subst op.
    apply (HR 0 d s _ W A1 A2 A3).
Qed.

End Thms.
