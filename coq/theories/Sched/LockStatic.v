(* C13: a static sufficient condition for the side condition [run_ok]: programs that
   never call set_result / set_exception on a future, run against environments that do
   not either (and do not call acquire from outside a task). *)
From Coq Require Import QArith Sorting.Permutation.
From RecordUpdate Require Import RecordUpdate.
From Asynkit Require Import Base.Prelude Queue.PQ Queue.Order Queue.PosPQ Queue.Exec Sched.Model Sched.Corr
  Sched.Tables Sched.QFacts Sched.LockInv Sched.Footprint Sched.LockOps Sched.LockLib Sched.LockProofs.
Import RecordSetNotations.
Open Scope nat_scope.

Definition op_plain (op : libop) : Prop :=
  match op with OSetResult _ _ | OSetExc _ _ => False | _ => True end.

Inductive nosr : coro -> Prop :=
| ns_ret v : nosr (Ret v)
| ns_raise e : nosr (Raise e)
| ns_call op k : op_plain op -> (forall r, nosr (k r)) -> nosr (Call op k)
| ns_spawn how child k : nosr child -> (forall r, nosr (k r)) -> nosr (Spawn how child k).

Lemma op_plain_safe s op : op_plain op -> op_safe s op.
Proof. destruct op; simpl; auto; contradiction. Qed.

Lemma exec_ok_nosr c : nosr c -> forall t s, exec_ok t c s.
Proof.
  induction 1 as [v|e|op k Hp Hk IHk|how child k Hc IHc Hk IHk]; intros t s; cbn [exec_ok]; auto.
  - split; [now apply op_plain_safe|]. destruct (lib_call t op s) as [s' r]. destruct r; auto.
  - destruct how; cbn [exec_ok].
    + destruct (spawn_task s SPlain child) as [s1 t']. apply IHk.
    + destruct (spawn_task s SPy child) as [s1 t']. apply IHk.
    + destruct (spawn_task s (SPrio p) child) as [s1 t']. apply IHk.
    + destruct (spawn_task s SDescend child) as [s1 t'].
      destruct (lib_call t (OTaskSwitch t' (Some 1)) s1) as [s2 r]. destruct r as [[v|e]|]; auto; apply IHk.
    + destruct (spawn_task s SStart child) as [s1 t']. exact I.
    + split; [apply IHc|]. destruct (exec t child s) as [s1 o]. destruct o as [r|y frs kc].
      * destruct (new_future s1 None) as [s2 f]. apply IHk.
      * cbv zeta. destruct (new_future _ _) as [s2 f]. apply IHk.
Qed.

(* ---------------------------------------------------------------- continuations in the task table *)
Definition kproj (s : st) : list tcont := map tcont_ (tasks s).

Lemma kproj_sett s t x : tcont_ x = tcont_ (gett s t) -> kproj (sett s t x) = kproj s.
Proof. intros E. unfold kproj, sett. cbn. apply map_set_nth_same with (d := dtask). exact E. Qed.

Ltac kp := try reflexivity; try (apply kproj_sett; reflexivity).

Lemma kproj_fold_soon f cbs : forall s,
  kproj (fold_left (fun s c => call_soon_ s (cb_callback f c)) cbs s) = kproj s.
Proof. induction cbs as [|c cbs IH]; intros s; simpl; auto. rewrite IH. reflexivity. Qed.

Lemma kproj_fut_finish s f x : kproj (fst (fut_finish s f x)) = kproj s.
Proof.
  unfold fut_finish. destruct (fstate_ (getf s f)); kp. cbn [fst]. unfold schedule_callbacks.
  rewrite kproj_fold_soon. reflexivity.
Qed.

Lemma kproj_task_cancel fuel : forall s t, kproj (fst (task_cancel fuel s t)) = kproj s.
Proof.
  induction fuel as [|fuel IH]; intros s t; cbn [task_cancel].
  - destruct (tdone s t); kp. destruct (twaiter (gett s t)) as [f|]; kp.
    destruct (fowner (getf s f)); kp.
    pose proof (kproj_fut_finish s f FCancelled) as E. destruct (fut_finish s f FCancelled) as [s' ok].
    destruct ok; kp. exact E.
  - destruct (tdone s t); kp. destruct (twaiter (gett s t)) as [f|]; kp.
    destruct (fowner (getf s f)) as [t'|].
    + pose proof (IH s t') as E. destruct (task_cancel fuel s t') as [s' ok]. cbn [fst] in *.
      destruct ok; [exact E|]. cbn [fst]. rewrite kproj_sett by reflexivity. exact E.
    + pose proof (kproj_fut_finish s f FCancelled) as E. destruct (fut_finish s f FCancelled) as [s' ok].
      destruct ok; kp. exact E.
Qed.

Lemma kproj_cancel_awaitable s f : kproj (fst (cancel_awaitable s f)) = kproj s.
Proof.
  unfold cancel_awaitable. destruct (fowner (getf s f)); [apply kproj_task_cancel|apply kproj_fut_finish].
Qed.

Lemma kproj_wake_p s l : kproj (wake_up_first_p s l) = kproj s.
Proof.
  unfold wake_up_first_p. destruct (arr (lpq (getl s l))); kp.
  match goal with |- context [if ?b then _ else _] => destruct b end; kp.
  match goal with |- context [if ?b then _ else _] => destruct b end; kp.
  apply kproj_fut_finish.
Qed.

Lemma kproj_wake_a s l : kproj (wake_up_first_a s l) = kproj s.
Proof.
  unfold wake_up_first_a. destruct (ldq (getl s l)); kp. destruct (fdone s n); kp. apply kproj_fut_finish.
Qed.

Lemma kproj_take_lock s l t s' : take_lock s l t = inl s' -> kproj s' = kproj s.
Proof.
  unfold take_lock. destruct (lowner (getl s l)); [discriminate|]. intros H. inversion H; subst. clear H.
  destruct (is_prio_task _ t); kp. rewrite kproj_sett by reflexivity. reflexivity.
Qed.

Lemma kproj_propagate_task fuel : forall s t, kproj (propagate_task fuel s t) = kproj s.
Proof.
  induction fuel as [|fuel IH]; intros s t; cbn [propagate_task].
  - destruct (negb (is_prio_task s t)); kp.
    set (s0 := if task_is_runnable s t then task_reschedule s t else s).
    assert (E0 : kproj s0 = kproj s) by (unfold s0; destruct (task_is_runnable s t); kp).
    clearbody s0. rewrite <- E0. clear E0 s. rename s0 into s.
    destruct (twaiting (gett s t)); kp.
  - destruct (negb (is_prio_task s t)); kp.
    set (s0 := if task_is_runnable s t then task_reschedule s t else s).
    assert (E0 : kproj s0 = kproj s) by (unfold s0; destruct (task_is_runnable s t); kp).
    clearbody s0. rewrite <- E0. clear E0 s. rename s0 into s.
    destruct (twaiting (gett s t)) as [l|]; kp.
    set (s1 := match lowner (getl s l) with Some o => propagate_task fuel s o | None => s end).
    assert (E1 : kproj s1 = kproj s) by (unfold s1; destruct (lowner (getl s l)); [apply IH|reflexivity]).
    destruct (find _ (lwt (getl s1 l))) as [[f t0]|]; [|exact E1].
    destruct (pq_reschedule HQ _ _ _) as [[o q']|]; exact E1.
Qed.

Lemma kproj_acquire_p_start s t l : kproj (fst (acquire_p_start s t l)) = kproj s.
Proof.
  unfold acquire_p_start.
  destruct (negb (llocked (getl s l)) && _)%bool.
  - destruct (take_lock s l t) as [s'|e] eqn:E; kp. cbn [fst]. eapply kproj_take_lock; eauto.
  - change (new_future s None) with (fst (new_future s None), length (futs s)). cbv beta iota.
    destruct (is_prio_task s t && _)%bool; kp. cbn [fst].
    match goal with |- kproj (setf ?S _ _) = _ => change (kproj S = kproj s) end.
    match goal with |- kproj (match ?o with Some x => propagate_priority ?S x | None => ?S end) = _ =>
      assert (E : kproj S = kproj s); [|destruct o; [unfold propagate_priority; now rewrite kproj_propagate_task|exact E]] end.
    destruct (is_prio_task s t); kp. 
    match goal with |- kproj (setl ?S _ _) = _ => change (kproj S = kproj s) end.
    rewrite kproj_sett by reflexivity. reflexivity.
Qed.

Lemma kproj_acquire_p_finish s t l f had inp : kproj (fst (acquire_p_finish s t l f had inp)) = kproj s.
Proof.
  unfold acquire_p_finish.
  set (p := match inp with
            | RVal _ => match take_lock s l t with inl s' => (s', RVal 1) | inr e => (s, RExc e) end
            | RExc e => (s, RExc e) end).
  assert (E0 : kproj (fst p) = kproj s).
  { unfold p. destruct inp; kp. destruct (take_lock s l t) eqn:E; kp. eapply kproj_take_lock; eauto. }
  destruct p as [s0 r]. cbn [fst] in *.
  set (s1 := match pq_remove HQ (lpq (getl s0 l)) (Z.of_nat f) with Some (_, q') => _ | None => s0 end).
  assert (E1 : kproj s1 = kproj s0) by (unfold s1; destruct (pq_remove _ _ _) as [[? ?]|]; reflexivity).
  set (s2 := if llocked (getl s1 l)
             then match lowner (getl s1 l) with
                  | Some o => if Nat.eqb o t then s1 else propagate_priority s1 o
                  | None => s1 end
             else wake_up_first_p s1 l).
  assert (E2 : kproj s2 = kproj s1).
  { unfold s2. destruct (llocked _); [|apply kproj_wake_p].
    destruct (lowner (getl s1 l)) as [o|]; [|reflexivity].
    destruct (Nat.eqb o t); [reflexivity|]. unfold propagate_priority. now rewrite kproj_propagate_task. }
  destruct had; cbn [fst]; [rewrite kproj_sett by reflexivity|]; congruence.
Qed.

Lemma kproj_release_p s t l : kproj (fst (release_p s t l)) = kproj s.
Proof.
  unfold release_p. destruct (negb (llocked (getl s l))); kp. destruct (lowner (getl s l)); kp.
  destruct (negb (Nat.eqb n t)); kp. cbn [fst]. rewrite kproj_wake_p.
  match goal with |- kproj (setl ?S _ _) = _ => change (kproj S = kproj s) end.
  destruct (is_prio_task _ t); kp. rewrite kproj_sett by reflexivity. reflexivity.
Qed.

Lemma kproj_acquire_start s t l : kproj (fst (acquire_start s t l)) = kproj s.
Proof.
  unfold acquire_start. destruct (lkind_ (getl s l)); [apply kproj_acquire_p_start|].
  unfold acquire_a_start. destruct (_ && _)%bool; kp.
Qed.

Lemma kproj_release s t l : kproj (fst (release s t l)) = kproj s.
Proof.
  unfold release. destruct (lkind_ (getl s l)); [apply kproj_release_p|].
  unfold release_a. destruct (llocked (getl s l)); kp. cbn [fst]. rewrite kproj_wake_a. reflexivity.
Qed.

Lemma kproj_task_throw s t e : kproj (fst (task_throw s t e)) = kproj s.
Proof.
  unfold task_throw. destruct (tdone s t); kp. destruct (tkind_ (gett s t)); kp.
  destruct (twaiter (gett s t)) as [f|].
  - destruct (negb (fdone s f)); [cbn [fst]; unfold call_soon_, call_soon; cbn [fst]|].
    + match goal with |- kproj (?S <| ready := _ |>) = _ => change (kproj S = kproj s) end.
      match goal with |- kproj (?S <| handles := _ |>) = _ => change (kproj S = kproj s) end.
      rewrite kproj_sett by reflexivity. reflexivity.
    + destruct (_ || _)%bool; kp. destruct (rq_find _ _ _) as [[h r]|]; kp. cbn [fst].
      unfold call_soon_, call_soon; cbn [fst].
      match goal with |- kproj (?S <| ready := _ |>) = _ => change (kproj S = kproj s) end.
      match goal with |- kproj (?S <| handles := _ |>) = _ => change (kproj S = kproj s) end.
      rewrite kproj_sett by reflexivity. reflexivity.
  - destruct (tmustc (gett s t)); kp. destruct (rq_find _ _ _) as [[h r]|]; kp. cbn [fst].
    unfold call_soon_, call_soon; cbn [fst].
    match goal with |- kproj (?S <| ready := _ |>) = _ => change (kproj S = kproj s) end.
    match goal with |- kproj (?S <| handles := _ |>) = _ => change (kproj S = kproj s) end.
    rewrite kproj_sett by reflexivity. reflexivity.
Qed.

Lemma kproj_task_reinsert s t p : kproj (fst (task_reinsert s t p)) = kproj s.
Proof. unfold task_reinsert. destruct (rq_find _ _ _) as [[h r]|]; kp. Qed.

Lemma kproj_task_interrupt_start s t e : kproj (fst (task_interrupt_start s t e)) = kproj s.
Proof.
  unfold task_interrupt_start. pose proof (kproj_task_throw s t e) as E1.
  destruct (task_throw s t e) as [s1 r]. cbn [fst] in E1. destruct r; [|exact E1].
  pose proof (kproj_task_reinsert s1 t 0) as E2. destruct (task_reinsert s1 t 0) as [s2 r2].
  cbn [fst] in E2. destruct r2; cbn [fst]; congruence.
Qed.

Lemma kproj_interruptor fuel : forall s b i, kproj (fst (interruptor fuel s b i)) = kproj s.
Proof.
  induction fuel as [|fuel IH]; intros s b i; cbn [interruptor]; kp.
  destruct (Nat.leb 3 i); kp. destruct (negb (bactive (getb s b))); [apply IH|].
  pose proof (kproj_task_interrupt_start s (btask (getb s b)) (ETimeoutInt b)) as E.
  destruct (task_interrupt_start s (btask (getb s b)) (ETimeoutInt b)) as [s1 r]. cbn [fst] in E.
  destruct r as [[v|e]|y frs]; cbn [fst]; auto.
  - rewrite IH. exact E.
  - destruct e; auto. destruct (Nat.eqb i 2); exact E.
Qed.

Lemma kproj_event_fold lst : forall s,
  kproj (fold_left (fun s f => if fdone s f then s else fst (fut_finish s f (FResult 1))) lst s) = kproj s.
Proof.
  induction lst as [|f lst IH]; intros s; simpl; auto. rewrite IH.
  destruct (fdone s f); [reflexivity|apply kproj_fut_finish].
Qed.

Lemma kproj_notify_i s c n : kproj (notify_i s c n) = kproj s.
Proof.
  unfold notify_i.
  assert (H : forall lst s0 cnt,
    kproj (fst (fold_left (fun '(s, cnt) f =>
                    if Nat.leb n cnt then (s, cnt)
                    else if fdone s f then (s, cnt)
                    else (fst (fut_finish s f (FResult 0)), S cnt)) lst (s0, cnt))) = kproj s0).
  { induction lst as [|f lst IH]; intros s0 cnt; simpl; auto.
    destruct (Nat.leb n cnt); [apply IH|]. destruct (fdone s0 f); [apply IH|].
    rewrite IH. apply kproj_fut_finish. }
  apply H.
Qed.

Lemma kproj_notify_p s c n : kproj (notify_p s c n) = kproj s.
Proof.
  unfold notify_p.
  assert (H : forall lst s0 a b,
    kproj (fst (fst (fold_left (fun '(s, taken, cnt) f =>
                 if Nat.leb n cnt then (s, taken, cnt)
                 else if fdone s f then (s, S taken, cnt)
                 else (fst (fut_finish s f (FResult 1)), S taken, S cnt)) lst (s0, a, b)))) = kproj s0).
  { induction lst as [|f lst IH]; intros s0 a b; simpl; auto.
    destruct (Nat.leb n b); [apply IH|]. destruct (fdone s0 f); [apply IH|].
    rewrite IH. apply kproj_fut_finish. }
  match goal with |- context [fold_left ?F ?L ?A] => specialize (H L s 0 0); destruct (fold_left F L A) as [[s1 tk] cnt] end.
  cbn [fst] in H. exact H.
Qed.

Lemma kproj_cond_p_after s c r : kproj (fst (cond_p_after s c r)) = kproj s.
Proof. unfold cond_p_after. destruct r; kp. apply kproj_notify_p. Qed.

Lemma kproj_reacquire s t c pc err body : kproj (fst (reacquire s t c pc err body)) = kproj s.
Proof.
  unfold reacquire. pose proof (kproj_acquire_start s t (clock (getc s c))) as E.
  destruct (acquire_start s t (clock (getc s c))) as [s1 r]. cbn [fst] in E.
  destruct r as [[v|e]|y frs]; exact E.
Qed.

Lemma kproj_interruptor_wrap s r : kproj (fst (interruptor_wrap s r)) = kproj s.
Proof. now rewrite interruptor_wrap_fst. Qed.

Lemma kproj_fut_result s f : kproj (fst (fut_result s f)) = kproj s.
Proof. unfold fut_result. destruct (fstate_ (getf s f)); kp. destruct (fcexc (getf s f)); kp. Qed.

Lemma kproj_await_fut s f outer : kproj (fst (await_fut s f outer)) = kproj s.
Proof.
  unfold await_fut. destruct (fdone s f); kp.
  pose proof (kproj_fut_result s f) as E. destruct (fut_result s f). exact E.
Qed.

Theorem kproj_lib_call t op s : kproj (fst (lib_call t op s)) = kproj s.
Proof.
  destruct op; cbn [lib_call]; kp.
  - apply kproj_await_fut.
  - apply kproj_await_fut.
  - pose proof (kproj_fut_finish s f (FResult v)) as E. destruct (fut_finish s f (FResult v)). exact E.
  - pose proof (kproj_fut_finish s f (FExc e)) as E. destruct (fut_finish s f (FExc e)). exact E.
  - pose proof (kproj_fut_finish s f FCancelled) as E. destruct (fut_finish s f FCancelled). exact E.
  - pose proof (kproj_task_cancel (length (tasks s)) s t0) as E. unfold cancel_task.
    destruct (task_cancel (length (tasks s)) s t0). exact E.
  - destruct (evalue (gete s e)); kp.
  - destruct (evalue (gete s e)); kp. cbn [fst]. rewrite kproj_event_fold. reflexivity.
  - apply kproj_acquire_start.
  - pose proof (kproj_release s t l) as E. destruct (release s t l). exact E.
  - (* OCondWait *)
    destruct (negb (cond_locked s c)); kp. destruct (ckind_ (getc s c)).
    + change (new_future s None) with (fst (new_future s None), length (futs s)). cbv beta iota.
      pose proof (kproj_release (fst (new_future s None)) t (clock (getc s c))) as E.
      destruct (release (fst (new_future s None)) t (clock (getc s c))) as [s2 rr]. cbn [fst] in E.
      change (kproj (fst (new_future s None))) with (kproj s) in E.
      destruct rr as [v|e]; [exact E|].
      pose proof (kproj_cond_p_after s2 c (RExc e)) as E2. destruct (cond_p_after s2 c (RExc e)) as [s3 r3].
      cbn [fst] in *. congruence.
    + pose proof (kproj_release s t (clock (getc s c))) as E.
      destruct (release s t (clock (getc s c))) as [s1 rr]. cbn [fst] in E.
      destruct rr as [v|e]; exact E.
  - destruct (negb (cond_locked s c)); kp. cbn [fst].
    destruct (ckind_ (getc s c)); [apply kproj_notify_p|apply kproj_notify_i].
  - destruct (negb (cond_locked s c)); kp. cbn [fst].
    destruct (ckind_ (getc s c)); [apply kproj_notify_p|apply kproj_notify_i].
  - (* OSleepInsert *) cbn [fst]. unfold call_pos. destruct (call_soon s _) as [s1 h] eqn:E.
    unfold call_soon in E. inversion E; subst. destruct (rq_remove _ _); reflexivity.
  - (* OTaskSwitch *)
    pose proof (kproj_task_reinsert s t0 0) as E. destruct (task_reinsert s t0 0) as [s1 r]. cbn [fst] in E.
    destruct r; [|exact E]. destruct p; [|exact E]. cbn [fst].
    unfold call_pos. destruct (call_soon s1 _) as [s2 h] eqn:E2.
    unfold call_soon in E2. inversion E2; subst. destruct (rq_remove _ _); exact E.
  - pose proof (kproj_task_reinsert s t0 p) as E. destruct (task_reinsert s t0 p). exact E.
  - (* OCallPos *) cbn [fst]. unfold call_pos. destruct (call_soon s _) as [s1 h] eqn:E.
    unfold call_soon in E. inversion E; subst. destruct (rq_remove _ _); reflexivity.
  - pose proof (kproj_task_throw s t0 e) as E. destruct (task_throw s t0 e). exact E.
  - apply kproj_task_interrupt_start.
  - destruct d; kp.
  - pose proof (kproj_interruptor 4 s b 0) as E. destruct (interruptor 4 s b 0) as [s1 r]. cbn [fst] in E.
    rewrite kproj_interruptor_wrap. exact E.
  - destruct (is_prio_task s t); kp.
  - cbn [fst]. unfold queue_iterated. destruct (ready _); reflexivity.
  - pose proof (kproj_cancel_awaitable s f) as E. destruct (cancel_awaitable s f). exact E.
Qed.

Theorem kproj_frame_resume t fr inp s : kproj (fst (frame_resume t fr inp s)) = kproj s.
Proof.
  destruct fr; cbn [frame_resume]; kp.
  - destruct inp; kp. destruct (fdone s f); kp.
    pose proof (kproj_fut_result s f) as E. destruct (fut_result s f). exact E.
  - pose proof (kproj_acquire_p_finish s t l f had inp) as E. destruct (acquire_p_finish s t l f had inp). exact E.
  - unfold acquire_a_finish. destruct inp; kp. destruct (is_cancel e); kp. cbn [fst].
    match goal with |- context [if ?b then _ else _] => destruct b end; kp. rewrite kproj_wake_a. reflexivity.
  - (* InCondWaitP *)
    set (s1 := match pq_remove HQ (cpq (getc s c)) (Z.of_nat f) with
               | Some (_, q') => setc s c (getc s c <| cpq := q' |>) | None => s end).
    assert (E1 : kproj s1 = kproj s) by (unfold s1; destruct (pq_remove _ _ _) as [[? ?]|]; reflexivity).
    match goal with |- context [reacquire s1 t c true None ?b] =>
      pose proof (kproj_reacquire s1 t c true None b) as E2; destruct (reacquire s1 t c true None b) as [s2 r] end.
    cbn [fst] in E2. destruct r as [rep|y frs]; [|cbn [fst]; congruence].
    pose proof (kproj_cond_p_after s2 c rep) as E3. destruct (cond_p_after s2 c rep). cbn [fst] in *. congruence.
  - (* InReleasedP *)
    destruct inp as [v|e].
    + match goal with |- context [cond_p_after s c ?r] =>
        pose proof (kproj_cond_p_after s c r) as E; destruct (cond_p_after s c r) end. exact E.
    + destruct (is_cancel e).
      * pose proof (kproj_reacquire s t c true (Some e) body) as E2.
        destruct (reacquire s t c true (Some e) body) as [s2 r]. cbn [fst] in E2.
        destruct r as [rep|y frs]; [|exact E2].
        pose proof (kproj_cond_p_after s2 c rep) as E3. destruct (cond_p_after s2 c rep). cbn [fst] in *. congruence.
      * pose proof (kproj_cond_p_after s c (RExc e)) as E. destruct (cond_p_after s c (RExc e)). exact E.
  - (* InCondWaitI *) rewrite kproj_reacquire. reflexivity.
  - destruct inp; kp. destruct (is_cancel e); kp. apply kproj_reacquire.
  - (* InIntr *)
    destruct inp as [v|e].
    + pose proof (kproj_interruptor 4 s b (S i)) as E. destruct (interruptor 4 s b (S i)) as [s1 r].
      cbn [fst] in E. rewrite kproj_interruptor_wrap. exact E.
    + destruct (_ && _)%bool; apply kproj_interruptor_wrap.
Qed.

Theorem kproj_resume_stack frs : forall t inp s, kproj (fst (resume_stack t frs inp s)) = kproj s.
Proof.
  induction frs as [|fr rest IH]; intros t inp s; cbn [resume_stack]; kp.
  pose proof (kproj_frame_resume t fr inp s) as E. destruct (frame_resume t fr inp s) as [s1 r].
  cbn [fst] in E. destruct r as [rep|y frs1]; [rewrite IH|]; exact E.
Qed.

(* ---------------------------------------------------------------- stored continuations stay set_result-free *)
Definition cont_ok (k : tcont) : Prop :=
  match k with
  | TNew c => nosr c
  | TSusp _ k | TEager _ _ k => forall r, nosr (k r)
  | TRun | TFin => True
  end.
Definition conts_ok (s : st) : Prop := Forall cont_ok (kproj s).

Lemma conts_ok_same s s' : kproj s' = kproj s -> conts_ok s -> conts_ok s'.
Proof. unfold conts_ok. now intros ->. Qed.

Lemma Forall_set_nth {A} (P : A -> Prop) l i x : Forall P l -> P x -> Forall P (set_nth l i x).
Proof.
  intros H Hx. revert i. induction H as [|a l Ha Hl IH]; intros [|i]; simpl; constructor; auto.
Qed.

Lemma conts_ok_sett s t x : conts_ok s -> cont_ok (tcont_ x) -> conts_ok (sett s t x).
Proof.
  intros H Hx. unfold conts_ok, kproj, sett. cbn. rewrite map_set_nth. now apply Forall_set_nth.
Qed.

Lemma conts_ok_get s t : conts_ok s -> cont_ok (tcont_ (gett s t)).
Proof.
  intros H. destruct (Nat.lt_ge_cases t (length (tasks s))) as [Ht|Ht].
  - unfold conts_ok, kproj in H. rewrite Forall_forall in H. apply H. apply in_map. now apply nth_In.
  - rewrite gett_oob by auto. exact I.
Qed.

Lemma conts_ok_app s tk : conts_ok s -> cont_ok (tcont_ tk) -> conts_ok (s <| tasks := tasks s ++ [tk] |>).
Proof.
  intros H Hx. unfold conts_ok, kproj. cbn. rewrite map_app. apply Forall_app. split; [exact H|].
  constructor; [exact Hx|constructor].
Qed.

Lemma conts_ok_new_task s kind p c : conts_ok s -> nosr c -> conts_ok (fst (new_task s kind p c)).
Proof.
  intros H Hc. unfold new_task.
  change (new_future s (Some (length (tasks s)))) with (fst (new_future s (Some (length (tasks s)))), length (futs s)).
  cbv beta iota. cbn [fst].
  match goal with |- conts_ok (call_soon_ ?S _) => change (conts_ok S) end.
  apply (conts_ok_app (fst (new_future s (Some (length (tasks s)))))); auto.
Qed.

Lemma conts_ok_spawn_task s how c : conts_ok s -> nosr c -> conts_ok (fst (spawn_task s how c)).
Proof. intros. unfold spawn_task. destruct how; now apply conts_ok_new_task. Qed.

Lemma exec_conts c : nosr c -> forall t s, conts_ok s ->
  conts_ok (fst (exec t c s)) /\
  (forall y frs k, snd (exec t c s) = OYield y frs k -> forall r, nosr (k r)).
Proof.
  induction 1 as [v|e|op k Hp Hk IHk|how child k Hc IHc Hk IHk]; intros t s H; cbn [exec].
  - split; auto. intros; discriminate.
  - split; auto. intros; discriminate.
  - pose proof (kproj_lib_call t op s) as E. destruct (lib_call t op s) as [s1 r]. cbn [fst] in E.
    destruct r as [rep|y frs].
    + apply IHk. eapply conts_ok_same; eauto.
    + cbn [fst snd]. split; [eapply conts_ok_same; eauto|]. intros y0 frs0 k0 E0. inversion E0; subst. exact Hk.
  - assert (Hwrap : forall t', forall r, nosr (match r with RVal _ => k (RVal (Z.of_nat t')) | RExc e => k (RExc e) end)).
    { intros t' [v|e]; apply Hk. }
    destruct how.
    + pose proof (conts_ok_spawn_task s SPlain child H Hc) as H1. destruct (spawn_task s SPlain child) as [s1 t']. now apply IHk.
    + pose proof (conts_ok_spawn_task s SPy child H Hc) as H1. destruct (spawn_task s SPy child) as [s1 t']. now apply IHk.
    + pose proof (conts_ok_spawn_task s (SPrio p) child H Hc) as H1. destruct (spawn_task s (SPrio p) child) as [s1 t']. now apply IHk.
    + pose proof (conts_ok_spawn_task s SDescend child H Hc) as H1. destruct (spawn_task s SDescend child) as [s1 t'].
      cbn [fst] in H1. pose proof (kproj_lib_call t (OTaskSwitch t' (Some 1)) s1) as E.
      destruct (lib_call t (OTaskSwitch t' (Some 1)) s1) as [s2 r]. cbn [fst] in E.
      assert (H2 : conts_ok s2) by (eapply conts_ok_same; eauto).
      destruct r as [[v|e]|y frs]; [now apply IHk|now apply IHk|].
      cbn [fst snd]. split; auto. intros y0 frs0 k0 E0. inversion E0; subst. apply Hwrap.
    + pose proof (conts_ok_spawn_task s SStart child H Hc) as H1. destruct (spawn_task s SStart child) as [s1 t'].
      cbn [fst snd] in *. split; auto. intros y0 frs0 k0 E0. inversion E0; subst. apply Hwrap.
    + destruct (IHc t s H) as [H1 K1]. destruct (exec t child s) as [s1 o]. cbn [fst snd] in *.
      destruct o as [r|y frs kc].
      * change (new_future s1 None) with (fst (new_future s1 None), length (futs s1)). cbv beta iota.
        apply IHk. eapply conts_ok_same; [apply kproj_fut_finish|]. exact H1.
      * cbv zeta.
        match goal with |- context [new_future ?S ?O] =>
          change (new_future S O) with (fst (new_future S O), length (futs S)) end.
        cbv beta iota. apply IHk.
        match goal with |- conts_ok (call_soon_ ?S _) => change (conts_ok S) end.
        match goal with |- conts_ok (?S <| tasks := tasks ?S ++ [?TK] |>) => apply (conts_ok_app S TK) end.
        -- destruct y; exact H1.
        -- cbn. apply (K1 y frs kc eq_refl).
Qed.

Lemma kproj_add_done_callback s f c : kproj (add_done_callback s f c) = kproj s.
Proof. unfold add_done_callback. destruct (fdone s f); reflexivity. Qed.

Lemma finish_step_conts t s o :
  conts_ok s -> (forall y frs k, o = OYield y frs k -> forall r, nosr (k r)) ->
  conts_ok (finish_step t s o).
Proof.
  intros H K. unfold finish_step. destruct o as [[v|e]|y frs k].
  - set (s1 := sett s t (gett s t <| tcont_ := TFin |>)).
    assert (H1 : conts_ok s1) by (apply conts_ok_sett; [exact H|exact I]).
    destruct (tmustc (gett s t)).
    + eapply conts_ok_same; [apply kproj_fut_finish|]. apply conts_ok_sett; [exact H1|].
      apply (conts_ok_get s1 t H1).
    + eapply conts_ok_same; [apply kproj_fut_finish|]. exact H1.
  - set (s1 := sett s t (gett s t <| tcont_ := TFin |>)).
    assert (H1 : conts_ok s1) by (apply conts_ok_sett; [exact H|exact I]).
    destruct (is_cancel e); (eapply conts_ok_same; [apply kproj_fut_finish|]); exact H1.
  - set (s1 := sett s t (gett s t <| tcont_ := TSusp frs k |>)).
    assert (H1 : conts_ok s1) by (apply conts_ok_sett; [exact H|]; cbn; eapply K; eauto).
    destruct y as [|f]; [exact H1|].
    destruct (fblock (getf s1 f)); [|exact H1].
    destruct (Nat.eqb f (tfut (gett s t))); [exact H1|].
    set (s2 := setf s1 f (getf s1 f <| fblock := false |>)).
    set (s3 := add_done_callback s2 f (CbWakeup t)).
    assert (H3 : conts_ok s3).
    { eapply conts_ok_same; [apply kproj_add_done_callback|]. exact H1. }
    set (s4 := sett s3 t (gett s3 t <| twaiter := Some f |>)).
    assert (H4 : conts_ok s4) by (apply conts_ok_sett; [exact H3|apply (conts_ok_get s3 t H3)]).
    destruct (tmustc (gett s4 t)); [|exact H4].
    pose proof (kproj_cancel_awaitable s4 f) as E. destruct (cancel_awaitable s4 f) as [s5 ok]. cbn [fst] in E.
    assert (H5 : conts_ok s5) by (eapply conts_ok_same; eauto).
    destruct ok; [|exact H5]. apply conts_ok_sett; [exact H5|apply (conts_ok_get s5 t H5)].
Qed.

Lemma resume_exec_conts t frs inp s k :
  conts_ok s -> (forall r, nosr (k r)) ->
  let '(s3, o) := (let '(s1, r) := resume_stack t frs inp s in
                   match r with
                   | LDone rep => exec t (k rep) s1
                   | LSusp y frs' => (s1, OYield y frs' k) end) in
  conts_ok s3 /\ (forall y frs0 k0, o = OYield y frs0 k0 -> forall r, nosr (k0 r)).
Proof.
  intros H K. pose proof (kproj_resume_stack frs t inp s) as E.
  destruct (resume_stack t frs inp s) as [s1 r]. cbn [fst] in E.
  assert (H1 : conts_ok s1) by (eapply conts_ok_same; eauto).
  destruct r as [rep|y frs1].
  - destruct (exec_conts (k rep) (K rep) t s1 H1) as [H2 K2].
    destruct (exec t (k rep) s1) as [s3 o]. cbn [fst snd] in *. auto.
  - split; auto. intros y0 frs0 k0 E0. inversion E0; subst. exact K.
Qed.

Theorem step_task_conts t exc s : conts_ok s -> conts_ok (step_task t exc s).
Proof.
  intros H. unfold step_task. destruct (tdone s t); [exact H|].
  pose proof (conts_ok_get s t H) as Hc.
  set (exc' := if tmustc (gett s t) then _ else exc).
  set (s1 := sett s t (gett s t <| tmustc := false |> <| twaiter := None |> <| tcont_ := TRun |>)).
  set (s2 := s1 <| current := Some t |>).
  assert (H2 : conts_ok s2) by (apply (conts_ok_sett s t); [exact H|exact I]).
  assert (Tail : forall s3 o, conts_ok s3 -> (forall y frs k, o = OYield y frs k -> forall r, nosr (k r)) ->
                 conts_ok ((finish_step t s3 o) <| current := None |>)).
  { intros s3 o H3 K3. apply (finish_step_conts t s3 o H3 K3). }
  destruct (tcont_ (gett s t)) as [c|frs k|y frs k| |]; cbn [cont_ok] in Hc.
  - destruct exc' as [e|].
    + apply Tail; auto. intros; discriminate.
    + destruct (exec_conts c Hc t s2 H2) as [H3 K3]. destruct (exec t c s2) as [s3 o]. now apply Tail.
  - pose proof (resume_exec_conts t frs (match exc' with None => RVal 0 | Some e => RExc e end) s2 k H2 Hc) as R.
    destruct (let '(s1, r) := resume_stack t frs _ s2 in _) as [s3 o]. destruct R. now apply Tail.
  - destruct exc' as [e|].
    + pose proof (resume_exec_conts t frs (RExc e) s2 k H2 Hc) as R.
      destruct (let '(s1, r) := resume_stack t frs _ s2 in _) as [s3 o]. destruct R. now apply Tail.
    + apply Tail.
      * destruct y; exact H2.
      * intros y0 frs0 k0 E0. inversion E0; subst. exact Hc.
  - apply Tail; auto. intros; discriminate.
  - apply Tail; auto. intros; discriminate.
Qed.

Lemma step_ok_conts t exc s : conts_ok s -> step_ok t exc s.
Proof.
  intros H. unfold step_ok. destruct (tdone s t); [exact I|].
  pose proof (conts_ok_get s t H) as Hc.
  destruct (tcont_ (gett s t)) as [c|frs k|y frs k| |]; cbn [cont_ok] in Hc; auto.
  - match goal with |- match ?e with Some _ => True | None => _ end => destruct e end; auto.
    now apply exec_ok_nosr.
  - destruct (resume_stack _ _ _ _) as [s1 r]. destruct r; auto. now apply exec_ok_nosr.
  - match goal with |- match ?e with Some _ => _ | None => True end => destruct e end; auto.
    destruct (resume_stack _ _ _ _) as [s1 r]. destruct r; auto. now apply exec_ok_nosr.
Qed.

Lemma interruptor_body_nosr b : nosr (interruptor_body b).
Proof. unfold interruptor_body. constructor; [exact I|]. intros [v|e]; constructor. Qed.

Theorem run_callback_conts c s : conts_ok s -> conts_ok (run_callback c s).
Proof.
  intros H. destruct c; cbn [run_callback].
  - now apply step_task_conts.
  - unfold wakeup. destruct (fstate_ (getf s f)); try now apply step_task_conts.
    pose proof (kproj_fut_result s f) as E. destruct (fut_result s f) as [s' r]. cbn [fst] in E.
    apply step_task_conts. eapply conts_ok_same; eauto.
  - pose proof (kproj_task_reinsert s t p) as E. destruct (task_reinsert s t p) as [s' r]. cbn [fst] in E.
    destruct r; eapply conts_ok_same; eauto.
  - exact H.
  - eapply conts_ok_same; [apply kproj_fut_finish|exact H].
  - apply conts_ok_new_task; auto. apply interruptor_body_nosr.
  - unfold queue_iterated. destruct (ready _); exact H.
  - eapply conts_ok_same; [apply kproj_task_cancel|exact H].
Qed.

Lemma run_callback_ok_conts c s : conts_ok s -> run_callback_ok c s.
Proof.
  intros H. destruct c; cbn [run_callback_ok]; auto.
  - now apply step_ok_conts.
  - unfold wakeup_ok. destruct (fstate_ (getf s f)); try now apply step_ok_conts.
    pose proof (kproj_fut_result s f) as E. destruct (fut_result s f) as [s' r]. cbn [fst] in E.
    apply step_ok_conts. eapply conts_ok_same; eauto.
Qed.

Lemma kproj_drop_cancelled fuel : forall s, kproj (drop_cancelled fuel s) = kproj s.
Proof.
  induction fuel as [|fuel IH]; intros s; cbn [drop_cancelled]; kp.
  destruct (timers s) as [|[w h] tm]; kp. destruct (hcancelled (geth s h)); kp.
  destruct (HeapqModel.heappop _ _ _) as [[e tm']|]; kp. now rewrite IH.
Qed.
Lemma kproj_move_due fuel : forall s, kproj (move_due fuel s) = kproj s.
Proof.
  induction fuel as [|fuel IH]; intros s; cbn [move_due]; kp.
  destruct (timers s) as [|[w h] tm]; kp. destruct (Qle_bool w (now s)); kp.
  destruct (HeapqModel.heappop _ _ _) as [[[w' h'] tm']|]; kp. now rewrite IH.
Qed.

(* statically checkable environment actions *)
Definition act_static (a : action) : Prop :=
  match a with
  | ASpawn _ c => nosr c
  | ADo op => op_plain op /\ needs_task op = false
  | _ => True
  end.

Theorem do_action_conts s a : conts_ok s -> act_static a -> conts_ok (do_action s a).
Proof.
  intros H Ha. destruct a; cbn [do_action act_static] in *.
  - unfold run_one. destruct (rq_popleft (ready s)) as [[h r]|]; auto.
    destruct (hcancelled _); auto. now apply run_callback_conts.
  - unfold begin_iteration. eapply conts_ok_same; [|exact H].
    now rewrite kproj_move_due, kproj_drop_cancelled.
  - exact H.
  - now apply conts_ok_spawn_task.
  - eapply conts_ok_same; [apply kproj_lib_call|exact H].
Qed.

Lemma action_ok_static s a : conts_ok s -> act_static a -> action_ok s a.
Proof.
  intros H Ha. destruct a; cbn [action_ok act_static] in *; auto.
  - unfold run_one_ok. destruct (rq_popleft (ready s)) as [[h r]|]; auto.
    destruct (hcancelled _); auto. now apply run_callback_ok_conts.
  - destruct Ha. split; auto. now apply op_plain_safe.
Qed.

Theorem run_ok_static acts : forall s, conts_ok s -> Forall act_static acts -> run_ok s acts.
Proof.
  induction acts as [|a acts IH]; intros s H Ha; simpl; auto.
  inversion Ha; subst. split; [now apply action_ok_static|]. apply IH; auto. now apply do_action_conts.
Qed.

Theorem run_ok_static_init p fa dr lks cds nev acts :
  Forall act_static acts -> run_ok (init_st p fa dr lks cds nev) acts.
Proof. apply run_ok_static. constructor. Qed.

(* ---------------------------------------------------------------- scripts of the harness *)
Fixpoint script_plain (s : script) : Prop :=
  match s with
  | SEnd | SRet _ | SRaise _ | SReraise => True
  | SLogExc r => script_plain r
  | SDo op r => op_plain op /\ script_plain r
  | SSpawn _ ch r => script_plain ch /\ script_plain r
  | STry b _ h f r => script_plain b /\ script_plain h /\ script_plain f /\ script_plain r
  | STimeout _ b r => script_plain b /\ script_plain r
  end.

Lemma resolve_plain env op : op_plain op -> op_plain (resolve env op).
Proof. destruct op; simpl; auto. Qed.

Lemma denote_nosr s : script_plain s -> forall env cur k,
  (forall env' c, nosr (k env' c)) -> nosr (denote s env cur k).
Proof.
  induction s as [|op rest IH|how ch IHc rest IHr|b IHb c h IHh f IHf r IHr|d b IHb r IHr|v|e| |rest IH];
    intros Hp env cur k Hk; cbn [denote script_plain] in *; auto.
  - destruct Hp as [Ho Hr]. constructor; [now apply resolve_plain|]. intros [v|e]; auto.
  - destruct Hp as [Hc Hr]. constructor.
    + apply IHc; auto. intros _ [|v|e]; constructor.
    + intros [t|e]; auto.
  - destruct Hp as (Hb & Hh & Hf & Hr).
    assert (Hfin : forall env0 (k' : list nat -> compl -> coro),
              (forall env1 cf, nosr (k' env1 cf)) -> nosr (denote f env0 cur k')).
    { intros env0 k' Hk'. apply IHf; auto. }
    apply IHb; auto. intros env0 c0. destruct c0 as [|v|e].
    + apply Hfin. intros env1 [|v|e]; auto.
    + apply Hfin. intros env1 [|v'|e]; auto.
    + destruct (catches c e).
      * apply IHh; auto. intros env1 c1. apply Hfin. intros env2 [|v|e']; auto. destruct c1; auto.
      * apply Hfin. intros env1 [|v|e']; auto.
  - destruct Hp as [Hb Hr]. constructor; [exact I|]. intros [bv|e]; auto.
    destruct (bv <? 0)%Z.
    + apply IHb; auto. intros env0 [|v|e]; auto.
    + apply IHb; auto. intros env0 c0. constructor; [exact I|]. intros [v|e]; auto. destruct c0; auto.
  - constructor; [exact I|]. intros _. auto.
Qed.

Theorem denote_task_nosr s : script_plain s -> nosr (denote_task s).
Proof. intros H. unfold denote_task. apply denote_nosr; auto. intros _ [|v|e]; constructor. Qed.
