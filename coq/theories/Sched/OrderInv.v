(* C11/C12 on the property's own domain: tasks acquire PriorityLocks IN A FIXED ORDER.
   [ordf s]: every task that is suspended inside PriorityLock.acquire() of lock l' holds only
   PriorityLocks with a smaller index.  The run-checked side condition [run_ord] ("whenever a
   task starts acquire() on PriorityLock l it holds only locks with smaller index") makes it an
   invariant.  This file: the invariant, the footprint relation [hr] and the primitives. *)
From Coq Require Import QArith Sorting.Permutation.
From RecordUpdate Require Import RecordUpdate.
From Asynkit Require Import Base.Prelude Queue.PQ Queue.Order Queue.PosPQ Queue.Exec Sched.Model
  Sched.Tables Sched.QFacts Sched.LockInv Sched.Footprint Sched.LockOps Sched.LockLib Sched.LockProofs.
Import RecordSetNotations.
Open Scope nat_scope.

(* ------------------------------------------------------------ the invariant *)
(* stored frames *)
Definition ordf (s : st) : Prop :=
  forall u l' f had l, In (InAcquireP l' f had) (tframes s u) -> In l (tholding (gett s u)) -> l < l'.
(* frames held by the running task t *)
Definition ordp (s : st) (t : nat) (P : list frame) : Prop :=
  forall l' f had l, In (InAcquireP l' f had) P -> In l (tholding (gett s t)) -> l < l'.
(* the condition checked when task t starts acquire() on lock l *)
Definition holds_below (s : st) (t l : nat) : Prop :=
  lkind_ (getl s l) = LPrio -> forall l0, In l0 (tholding (gett s t)) -> l0 < l.

Lemma ordp_noacq s t P : (forall l f had, ~ In (InAcquireP l f had) P) -> ordp s t P.
Proof. intros H l' f had l Hin. destruct (H _ _ _ Hin). Qed.

Lemma ordp_no_acq s t P : no_acq P -> ordp s t P.
Proof. intros H. apply ordp_noacq. intros l f had. now apply no_acq_in. Qed.

Lemma ordp_inert s t P : Forall (fun fr => inert fr = true) P -> ordp s t P.
Proof.
  intros H. apply ordp_noacq. intros l f had Hin. rewrite Forall_forall in H.
  specialize (H _ Hin). discriminate.
Qed.

Lemma ordp_app s t P Q : ordp s t P -> ordp s t Q -> ordp s t (P ++ Q).
Proof. intros A B l' f had l Hin. apply in_app_or in Hin as [Hin|Hin]; eauto. Qed.

Lemma ordp_hold s s' t P : tholding (gett s' t) = tholding (gett s t) -> ordp s t P -> ordp s' t P.
Proof. intros E H l' f had l Hin Hl. rewrite E in Hl. eauto. Qed.

(* ------------------------------------------------------------ the footprint *)
(* a step made while task t is running: the other tasks keep their held locks and keep or
   lose their stored frames; new tasks have no frames; t's stored frames do not grow *)
Record hr (g : bool) (t : nat) (s s' : st) : Prop := mkHr {
  h_nt : length (tasks s) <= length (tasks s');
  h_oth : forall u, u < length (tasks s) -> u <> t ->
          tholding (gett s' u) = tholding (gett s u) /\
          (tframes s' u = tframes s u \/ tframes s' u = []);
  h_new : forall u, length (tasks s) <= u -> tframes s' u = [];
  h_self : tframes s' t = tframes s t \/ tframes s' t = [];
  (* g = false: t acquires nothing *)
  h_hold : g = false -> forall l, In l (tholding (gett s' t)) -> In l (tholding (gett s t)) }.
Arguments h_nt {g t s s'} _. Arguments h_oth {g t s s'} _. Arguments h_new {g t s s'} _.
Arguments h_self {g t s s'} _. Arguments h_hold {g t s s'} _.

Lemma hr_refl g t s : hr g t s s.
Proof.
  constructor; auto. intros u Hu. apply tframes_oob. exact Hu.
Qed.

Lemma hr_trans g t s1 s2 s3 : hr g t s1 s2 -> hr g t s2 s3 -> hr g t s1 s3.
Proof.
  intros A B. pose proof (h_nt A) as N1. pose proof (h_nt B) as N2. constructor.
  - lia.
  - intros u Hu Hne. destruct (h_oth A u Hu Hne) as [a1 a2].
    destruct (h_oth B u ltac:(lia) Hne) as [b1 b2]. split; [congruence|].
    destruct b2 as [b2|b2]; auto. rewrite b2. exact a2.
  - intros u Hu. destruct (Nat.lt_ge_cases u (length (tasks s2))) as [H2|H2].
    + pose proof (h_new A u Hu) as a. destruct (Nat.eq_dec u t) as [->|Hne].
      * destruct (h_self B) as [b|b]; congruence.
      * destruct (h_oth B u H2 Hne) as [_ [b|b]]; congruence.
    + apply (h_new B u H2).
  - destruct (h_self A) as [a|a]; destruct (h_self B) as [b|b]; auto.
    + left. congruence.
    + right. congruence.
  - intros Eg l Hl. apply (h_hold A Eg). apply (h_hold B Eg). exact Hl.
Qed.

Lemma hr_weaken g t s s' : hr false t s s' -> hr g t s s'.
Proof.
  intros H. destruct H. constructor; auto.
Qed.

Lemma hr_chg W g t s s' : chg W s s' -> hr g t s s'.
Proof.
  intros C. constructor.
  - apply (c_ntasks C).
  - intros u Hu _. destruct (c_task C u Hu) as (a & _ & _ & b). auto.
  - intros u Hu. apply (c_newtask C u Hu).
  - destruct (Nat.lt_ge_cases t (length (tasks s))) as [Ht|Ht].
    + apply (c_task C t Ht).
    + right. apply (c_newtask C t Ht).
  - intros _ l. destruct (Nat.lt_ge_cases t (length (tasks s))) as [Ht|Ht].
    + destruct (c_task C t Ht) as (-> & _). auto.
    + destruct (c_newtask C t Ht) as (-> & _). intros [].
Qed.

Lemma hr_benign g t s s' : benign s s' -> hr g t s s'.
Proof. apply hr_chg. Qed.

(* a step in which t acquires nothing *)
Lemma ordf_hr_false t s s' : hr false t s s' -> ordf s -> ordf s'.
Proof.
  intros H O u l' f had l Hin Hl.
  destruct (Nat.lt_ge_cases u (length (tasks s))) as [Hu|Hu].
  - destruct (Nat.eq_dec u t) as [->|Hne].
    + apply (h_hold H eq_refl) in Hl.
      destruct (h_self H) as [E|E]; rewrite E in Hin; [eauto|destruct Hin].
    + destruct (h_oth H u Hu Hne) as [E1 E2]. rewrite E1 in Hl.
      destruct E2 as [E2|E2]; rewrite E2 in Hin; [eauto|destruct Hin].
  - rewrite (h_new H u Hu) in Hin. destruct Hin.
Qed.

(* the invariant across a step of the running task, whose frames are not stored *)
Lemma ordf_hr g t s s' : hr g t s s' -> tframes s t = [] -> ordf s -> ordf s' /\ tframes s' t = [].
Proof.
  intros H Hfr O.
  assert (Hfr' : tframes s' t = []) by (destruct (h_self H) as [E|E]; congruence).
  split; auto. intros u l' f had l Hin Hl.
  destruct (Nat.eq_dec u t) as [->|Hne]; [rewrite Hfr' in Hin; destruct Hin|].
  destruct (Nat.lt_ge_cases u (length (tasks s))) as [Hu|Hu].
  - destruct (h_oth H u Hu Hne) as [E1 E2]. rewrite E1 in Hl.
    destruct E2 as [E2|E2]; rewrite E2 in Hin; [eauto|destruct Hin].
  - rewrite (h_new H u Hu) in Hin. destruct Hin.
Qed.

Lemma ordf_chg W s s' : chg W s s' -> ordf s -> ordf s'.
Proof.
  intros C O u l' f had l Hin Hl.
  destruct (Nat.lt_ge_cases u (length (tasks s))) as [Hu|Hu].
  - destruct (c_task C u Hu) as (E1 & _ & _ & E2). rewrite E1 in Hl.
    destruct E2 as [E2|E2]; rewrite E2 in Hin; [eauto|destruct Hin].
  - destruct (c_newtask C u Hu) as (_ & E & _). rewrite E in Hin. destruct Hin.
Qed.

Lemma ordp_chg W s s' t P : chg W s s' -> t < length (tasks s) -> ordp s t P -> ordp s' t P.
Proof. intros C Ht. apply ordp_hold. apply (c_task C t Ht). Qed.

(* ------------------------------------------------------------ steps that only touch task t *)
Record ot (t : nat) (s s' : st) : Prop := mkOt {
  o_nt : length (tasks s') = length (tasks s);
  o_oth : forall u, u <> t -> gett s' u = gett s u;
  o_fr : tframes s' t = tframes s t }.
Arguments o_nt {t s s'} _. Arguments o_oth {t s s'} _. Arguments o_fr {t s s'} _.

Lemma ot_refl t s : ot t s s.
Proof. constructor; auto. Qed.
Lemma ot_trans t s1 s2 s3 : ot t s1 s2 -> ot t s2 s3 -> ot t s1 s3.
Proof.
  intros A B. constructor.
  - rewrite (o_nt B). apply (o_nt A).
  - intros u Hu. rewrite (o_oth B u Hu). apply (o_oth A u Hu).
  - rewrite (o_fr B). apply (o_fr A).
Qed.
Lemma ot_tasks t s s' : tasks s' = tasks s -> ot t s s'.
Proof. intros E. constructor; unfold tframes, gett; now rewrite E. Qed.
Lemma ot_sett t s x : tcont_ x = tcont_ (gett s t) -> ot t s (sett s t x).
Proof.
  intros E. constructor.
  - apply sett_len.
  - intros u Hu. apply gett_sett_other. congruence.
  - unfold tframes. rewrite gett_sett, Nat.eqb_refl. simpl.
    destruct (Nat.ltb t (length (tasks s))); [now rewrite E|reflexivity].
Qed.
Lemma ot_hr t s s' : ot t s s' -> hr true t s s'.
Proof.
  intros O. constructor; [| | | |discriminate].
  - rewrite (o_nt O). lia.
  - intros u _ Hne. unfold tframes. rewrite (o_oth O u Hne). auto.
  - intros u Hu. destruct (Nat.eq_dec u t) as [->|Hne].
    + rewrite (o_fr O). now apply tframes_oob.
    + unfold tframes. rewrite (o_oth O u Hne). now apply tframes_oob.
  - left. apply (o_fr O).
Qed.
Lemma ot_hr_false t s s' :
  ot t s s' -> (forall l, In l (tholding (gett s' t)) -> In l (tholding (gett s t))) -> hr false t s s'.
Proof.
  intros O Hh. destruct (ot_hr t s s' O). constructor; auto.
Qed.
(* t's held locks after an [ot] step *)
Lemma ot_hold_other t s s' u : ot t s s' -> u <> t -> tholding (gett s' u) = tholding (gett s u).
Proof. intros O Hne. now rewrite (o_oth O u Hne). Qed.

(* ------------------------------------------------------------ the PriorityLock primitives *)
Lemma tasks_fut_finish s f x : tasks (fst (fut_finish s f x)) = tasks s.
Proof. apply (fut_finish_proj s f x). Qed.

Lemma tasks_wake_p s l : tasks (wake_up_first_p s l) = tasks s.
Proof.
  unfold wake_up_first_p. destruct (arr (lpq (getl s l))); auto.
  destruct (existsb _ _); auto. destruct (fdone s _); auto. apply tasks_fut_finish.
Qed.

Lemma tasks_propagate_task fuel : forall s t, tasks (propagate_task fuel s t) = tasks s.
Proof.
  induction fuel as [|fuel IH]; intros s t; cbn [propagate_task].
  - destruct (negb (is_prio_task s t)); auto.
    set (s0 := if task_is_runnable s t then task_reschedule s t else s).
    assert (E0 : tasks s0 = tasks s) by (unfold s0; destruct (task_is_runnable s t); auto).
    clearbody s0. rewrite <- E0. clear E0 s. rename s0 into s.
    destruct (twaiting (gett s t)); auto.
  - destruct (negb (is_prio_task s t)); auto.
    set (s0 := if task_is_runnable s t then task_reschedule s t else s).
    assert (E0 : tasks s0 = tasks s) by (unfold s0; destruct (task_is_runnable s t); auto).
    clearbody s0. rewrite <- E0. clear E0 s. rename s0 into s.
    destruct (twaiting (gett s t)) as [l|]; auto.
    set (s1 := match lowner (getl s l) with Some o => propagate_task fuel s o | None => s end).
    assert (E1 : tasks s1 = tasks s) by (unfold s1; destruct (lowner (getl s l)); auto).
    destruct (find _ (lwt (getl s1 l))) as [[f t0]|]; auto.
    destruct (pq_reschedule HQ (lpq (getl s1 l)) _ _) as [[o q']|]; auto.
Qed.

Lemma tasks_propagate_priority s t : tasks (propagate_priority s t) = tasks s.
Proof. apply tasks_propagate_task. Qed.

Lemma tholding_sett s t x :
  tholding (gett (sett s t x) t) = tholding x \/ tholding (gett (sett s t x) t) = tholding (gett s t).
Proof.
  rewrite gett_sett, Nat.eqb_refl. simpl. destruct (Nat.ltb t (length (tasks s))); auto.
Qed.

(* _take_lock: only the taker changes - it records the lock *)
Lemma take_lock_ot s l t s' :
  take_lock s l t = inl s' ->
  ot t s s' /\ (forall l0, In l0 (tholding (gett s' t)) -> l0 = l \/ In l0 (tholding (gett s t))).
Proof.
  unfold take_lock. destruct (lowner (getl s l)); [discriminate|]. intros H. inversion H; subst. clear H.
  set (s1 := setl s l (getl s l <| lowner := Some t |> <| llocked := true |>)).
  assert (O1 : ot t s s1) by (apply ot_tasks; reflexivity).
  destruct (is_prio_task s1 t).
  - split.
    + eapply ot_trans; [exact O1|]. apply ot_sett. reflexivity.
    + intros l0. destruct (tholding_sett s1 t (gett s1 t <| tholding := l :: tholding (gett s1 t) |>)) as [E|E];
        rewrite E; change (gett s1 t) with (gett s t); cbn; [intros H; destruct H as [H|H]; auto|auto].
  - split; [exact O1|]. intros l0 H. right. exact H.
Qed.

Lemma release_p_ot s t l :
  ot t s (fst (release_p s t l)) /\
  (forall l0, In l0 (tholding (gett (fst (release_p s t l)) t)) -> In l0 (tholding (gett s t))).
Proof.
  unfold release_p. destruct (negb (llocked (getl s l))); [split; [apply ot_refl|auto]|].
  destruct (lowner (getl s l)) as [o|]; [|split; [apply ot_refl|auto]].
  destruct (negb (Nat.eqb o t)); [split; [apply ot_refl|auto]|]. cbn [fst].
  set (s1 := setl s l (getl s l <| lowner := None |>)).
  set (s2 := if is_prio_task s1 t
             then sett s1 t (gett s1 t <| tholding := filter (fun x => negb (Nat.eqb x l)) (tholding (gett s1 t)) |>)
             else s1).
  set (s3 := setl s2 l (getl s2 l <| llocked := false |>)).
  assert (O2 : ot t s s2).
  { unfold s2. destruct (is_prio_task s1 t).
    - eapply ot_trans; [apply (ot_tasks t s s1); reflexivity|]. apply ot_sett. reflexivity.
    - apply ot_tasks. reflexivity. }
  assert (O4 : ot t s (wake_up_first_p s3 l)).
  { eapply ot_trans; [exact O2|]. apply ot_tasks. rewrite tasks_wake_p. reflexivity. }
  split; [exact O4|]. intros l0.
  assert (E : gett (wake_up_first_p s3 l) t = gett s2 t).
  { unfold gett. rewrite tasks_wake_p. reflexivity. }
  rewrite E. unfold s2. destruct (is_prio_task s1 t); auto.
  destruct (tholding_sett s1 t (gett s1 t <| tholding := filter (fun x => negb (Nat.eqb x l)) (tholding (gett s1 t)) |>)) as [E'|E'];
    rewrite E'; change (gett s1 t) with (gett s t); cbn; auto.
  intros H. apply filter_In in H. apply H.
Qed.

(* acquire() up to its `await`: the lock is taken at once, or a frame is pushed and the held
   locks are unchanged *)
Lemma acquire_p_start_ot s t l :
  ot t s (fst (acquire_p_start s t l)) /\
  (forall y frs, snd (acquire_p_start s t l) = LSusp y frs ->
     tholding (gett (fst (acquire_p_start s t l)) t) = tholding (gett s t) /\
     exists f had, frs = [InFut f; InAcquireP l f had]).
Proof.
  unfold acquire_p_start.
  destruct (negb (llocked (getl s l)) && match arr (lpq (getl s l)) with [] => true | _ => false end)%bool.
  - destruct (take_lock s l t) as [s'|e] eqn:Et; cbn [fst snd].
    + split; [apply (take_lock_ot _ _ _ _ Et)|intros; discriminate].
    + split; [apply ot_refl|intros; discriminate].
  - change (new_future s None) with (fst (new_future s None), length (futs s)). cbv beta iota.
    set (s1 := fst (new_future s None)). set (f := length (futs s)).
    set (had := is_prio_task s t).
    assert (O1 : ot t s s1) by (apply ot_tasks; reflexivity).
    destruct (had && match twaiting (gett s1 t) with Some _ => true | None => false end)%bool.
    + cbn [fst snd]. split; [exact O1|intros; discriminate].
    + cbn [fst snd].
      set (s2 := if had then sett s1 t (gett s1 t <| twaiting := Some l |>) else s1).
      assert (O2 : ot t s s2).
      { unfold s2. destruct had; auto. eapply ot_trans; [exact O1|]. apply ot_sett. reflexivity. }
      assert (H2 : tholding (gett s2 t) = tholding (gett s t)).
      { unfold s2. destruct had; auto.
        destruct (tholding_sett s1 t (gett s1 t <| twaiting := Some l |>)) as [E'|E']; rewrite E'; reflexivity. }
      set (s3 := setl s2 l _).
      set (s4 := match lowner (getl s3 l) with Some o => propagate_priority s3 o | None => s3 end).
      assert (E4 : tasks s4 = tasks s2).
      { unfold s4. destruct (lowner (getl s3 l)); [rewrite tasks_propagate_priority|]; reflexivity. }
      split.
      * eapply ot_trans; [exact O2|]. apply ot_tasks. cbn. exact E4.
      * intros y frs H. inversion H; subst. split; [|eauto].
        rewrite <- H2. unfold gett. cbn. now rewrite E4.
Qed.

(* ... and after it *)
Lemma acquire_p_finish_ot s t l f had inp :
  ot t s (fst (acquire_p_finish s t l f had inp)) /\
  (forall l0, In l0 (tholding (gett (fst (acquire_p_finish s t l f had inp)) t)) ->
              l0 = l \/ In l0 (tholding (gett s t))).
Proof.
  unfold acquire_p_finish.
  set (p := match inp with
            | RVal _ => match take_lock s l t with inl s' => (s', RVal 1) | inr e => (s, RExc e) end
            | RExc e => (s, RExc e) end).
  assert (P1 : ot t s (fst p) /\
               (forall l0, In l0 (tholding (gett (fst p) t)) -> l0 = l \/ In l0 (tholding (gett s t)))).
  { unfold p. destruct inp as [v|e]; cbn [fst]; [|split; [apply ot_refl|auto]].
    destruct (take_lock s l t) as [s'|e] eqn:Et; cbn [fst]; [|split; [apply ot_refl|auto]].
    apply (take_lock_ot _ _ _ _ Et). }
  destruct p as [s1 r]. cbn [fst snd] in *. destruct P1 as [O1 H1].
  set (s2 := match pq_remove HQ (lpq (getl s1 l)) (Z.of_nat f) with
             | Some (_, q') => setl s1 l _ | None => s1 end).
  assert (E2 : tasks s2 = tasks s1).
  { unfold s2. destruct (pq_remove HQ (lpq (getl s1 l)) (Z.of_nat f)) as [[p0 q']|]; reflexivity. }
  set (s3 := if llocked (getl s2 l)
             then match lowner (getl s2 l) with
                  | Some o => if Nat.eqb o t then s2 else propagate_priority s2 o
                  | None => s2 end
             else wake_up_first_p s2 l).
  assert (E3 : tasks s3 = tasks s1).
  { unfold s3. destruct (llocked (getl s2 l)).
    - destruct (lowner (getl s2 l)) as [o|]; auto. destruct (Nat.eqb o t); auto.
      now rewrite tasks_propagate_priority.
    - now rewrite tasks_wake_p. }
  assert (O3 : ot t s s3) by (eapply ot_trans; [exact O1|apply ot_tasks; exact E3]).
  assert (G3 : gett s3 t = gett s1 t) by (unfold gett; now rewrite E3).
  cbn [fst]. destruct had.
  - split; [eapply ot_trans; [exact O3|apply ot_sett; reflexivity]|].
    intros l0. destruct (tholding_sett s3 t (gett s3 t <| twaiting := None |>)) as [E'|E']; rewrite E';
      cbn; rewrite G3; apply H1.
  - split; [exact O3|]. intros l0. rewrite G3. apply H1.
Qed.
