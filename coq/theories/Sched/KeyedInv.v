(* C12: the footprint [wq] (what [keyed] and the table form [OW] of the fixed lock order read) and
   the two generic preservation lemmas of the fifth pass:
   [KO_same]  - a step that keeps the lock tables, priorities, _waiting_on and held locks;
   [KO_run]   - a step of the running task t (not queued anywhere) that may change t's held locks. *)
From Coq Require Import QArith Lqa Sorting.Permutation.
From RecordUpdate Require Import RecordUpdate.
From Asynkit Require Import Base.Prelude Queue.PQ Queue.Order Queue.Heap Queue.ListFacts Queue.PQProofs
  Queue.PosPQ Queue.Exec
  Sched.Model Sched.Tables Sched.QFacts Sched.LockInv Sched.Footprint Sched.LockOps Sched.LockLib
  Sched.LockProofs Sched.LockThms Sched.InheritEprio Sched.InheritHandover Sched.InheritKeys
  Sched.InheritFalls Sched.WaitInv Sched.WaitOps Sched.WaitLib Sched.WaitProofs.
From Asynkit Require Import Sched.OrderInv Sched.OrderPass Sched.OrderThms Sched.InheritLocal
  Sched.InheritChain Sched.InheritArrive Sched.InheritFinish.
Import RecordSetNotations.
Open Scope nat_scope.

(* the fixed order (tables) and the keys *)
Definition KO (s : st) : Prop := OW s /\ forall l, keyed s l.

Record wq (s s' : st) : Prop := mkWq {
  q_rows : forall l, rows s' l = rows s l;
  q_lpq : forall l, lpq (getl s' l) = lpq (getl s l);
  q_nlocks : length (locks s') = length (locks s);
  q_ntasks : length (tasks s) <= length (tasks s');
  q_task : forall t, t < length (tasks s) ->
     twaiting (gett s' t) = twaiting (gett s t) /\ tprio (gett s' t) = tprio (gett s t);
  q_new : forall t, length (tasks s) <= t -> t < length (tasks s') -> twaiting (gett s' t) = None;
  q_done : forall g, fdone s g = true -> fdone s' g = true }.
Arguments q_rows {s s'} _. Arguments q_lpq {s s'} _. Arguments q_nlocks {s s'} _.
Arguments q_ntasks {s s'} _. Arguments q_task {s s'} _. Arguments q_new {s s'} _. Arguments q_done {s s'} _.

Lemma wk_wq s s' : wk s s' -> wq s s'.
Proof.
  intros K. constructor.
  - apply (k_rows K).
  - apply (k_lpq K).
  - apply (k_nlocks K).
  - apply (k_ntasks K).
  - intros t Ht. destruct (k_task K t Ht) as (A & _). destruct (k_hold K t Ht) as (_ & B). auto.
  - intros t H1 H2. now destruct (k_new K t H1 H2).
  - apply (k_done K).
Qed.

Lemma wq_refl s : wq s s.
Proof. apply wk_wq, wk_refl. Qed.

Lemma wq_trans s1 s2 s3 : wq s1 s2 -> wq s2 s3 -> wq s1 s3.
Proof.
  intros A B. pose proof (q_ntasks A) as N1. pose proof (q_ntasks B) as N2. constructor.
  - intros l. rewrite (q_rows B). apply (q_rows A).
  - intros l. rewrite (q_lpq B). apply (q_lpq A).
  - rewrite (q_nlocks B). apply (q_nlocks A).
  - lia.
  - intros t Ht. destruct (q_task A t Ht) as (a1 & a2). destruct (q_task B t ltac:(lia)) as (b1 & b2).
    split; congruence.
  - intros t H1 H3. destruct (Nat.lt_ge_cases t (length (tasks s2))) as [H2|H2].
    + destruct (q_task B t H2) as (b1 & _). rewrite b1. apply (q_new A t H1 H2).
    + apply (q_new B t H2 H3).
  - intros g Hg. apply (q_done B), (q_done A), Hg.
Qed.

(* only the tables of the conditions / only fields of a task that keyed does not read *)
Lemma wq_setc s c cd : wq s (setc s c cd).
Proof. constructor; auto; try reflexivity. intros t H1 H2. change (tasks (setc s c cd)) with (tasks s) in H2. lia. Qed.

Lemma wq_sett s t x :
  twaiting x = twaiting (gett s t) -> tprio x = tprio (gett s t) -> wq s (sett s t x).
Proof.
  intros Ew Ep. constructor; try reflexivity.
  - rewrite sett_len. lia.
  - intros t0 Ht0. rewrite gett_sett.
    destruct (Nat.eqb t t0 && Nat.ltb t (length (tasks s)))%bool eqn:B; auto.
    apply andb_prop in B as [B _]. apply Nat.eqb_eq in B. subst t0. auto.
  - intros t0 H1 H2. rewrite sett_len in H2. lia.
  - auto.
Qed.

Lemma wq_core s s' :
  locks s' = locks s -> tasks s' = tasks s -> futs s' = futs s -> wq s s'.
Proof.
  intros El Et Ef. constructor.
  - intros l. unfold rows, getl. now rewrite El.
  - intros l. unfold getl. now rewrite El.
  - now rewrite El.
  - rewrite Et. lia.
  - intros t _. unfold gett. rewrite Et. auto.
  - intros t H1 H2. rewrite Et in H2. lia.
  - intros g Hg. unfold fdone, getf in *. now rewrite Ef.
Qed.

Section Gen.
Variables (s s' : st) (R : nat * list frame).
Hypothesis I : Inv s.
Hypothesis W : WI true R s.
Hypothesis Rk' : OW s' -> ranked s'.
Hypothesis Q : wq s s'.
Hypothesis K : KO s.

Lemma gen_old_prio x : x < length (tasks s) -> is_prio_task s' x = is_prio_task s x.
Proof. intros Hx. unfold is_prio_task. now destruct (q_task Q x Hx) as (_ & ->). Qed.

Lemma gen_oob_prio x : length (tasks s') <= x -> is_prio_task s' x = false.
Proof. intros Hx. unfold is_prio_task. now rewrite gett_oob. Qed.

Lemma gen_entry_task l e : entry_task (getl s' l) e = entry_task (getl s l) e.
Proof. unfold entry_task, task_of_fut. pose proof (q_rows Q l) as E. unfold rows in E. now rewrite E. Qed.

Lemma gen_lwtasks l : lock_waiter_tasks (getl s' l) = lock_waiter_tasks (getl s l).
Proof. apply lwtasks_ext; [apply (q_lpq Q)|apply (q_rows Q)]. Qed.

Lemma gen_waiter_old x w : In w (waiters_of s x) -> w < length (tasks s).
Proof.
  intros Hw. apply waits_on_iff in Hw as (l1 & _ & Hw).
  destruct (waiter_has_row _ _ _ _ _ _ W Hw) as (g & Hr). eapply (w_range W); eauto.
Qed.

(* a step of the running task t, which is not queued anywhere: t's held locks may change *)
Theorem KO_run_r t :
  (forall x, x < length (tasks s) -> x <> t -> tholding (gett s' x) = tholding (gett s x)) ->
  (forall l f, ~ In (f, t) (rows s l)) -> KO s'.
Proof.
  intros Hh Hnr. destruct K as [O Ky].
  assert (O' : OW s').
  { intros x l l0 Hp Ew Hl0.
    destruct (Nat.lt_ge_cases x (length (tasks s))) as [Hx|Hx].
    - destruct (q_task Q x Hx) as (A & _). rewrite A in Ew. rewrite (gen_old_prio x Hx) in Hp.
      destruct (Nat.eq_dec x t) as [->|Hne].
      + exfalso. destruct (w_newait W eq_refl t l (fun h => h) Hp Ew) as (g & Hr). exact (Hnr _ _ Hr).
      + rewrite (Hh x Hx Hne) in Hl0. eapply O; eauto.
    - destruct (Nat.lt_ge_cases x (length (tasks s'))) as [Hx'|Hx'].
      + rewrite (q_new Q x Hx Hx') in Ew. discriminate.
      + rewrite (gen_oob_prio x Hx') in Hp. discriminate. }
  split; [exact O'|]. intros l0 e' He' Hl'.
  set (D := fun x : nat => x = t \/ length (tasks s) <= x).
  assert (Rs : ranked s) by (apply (ranked_tbl true (fun _ => False) R s); auto).
  assert (Rs' : ranked s') by (apply Rk'; exact O').
  rewrite (q_lpq Q) in He'.
  pose proof (rtask_row _ _ _ _ _ _ W He') as Hrow. unfold rtask in Hrow.
  fold (entry_task (getl s l0) e') in Hrow.
  apply (keyed_local s s' D Rs Rs'); auto.
  - intros x Hx. apply (q_task Q). unfold D in Hx. lia.
  - intros x Hx. unfold waiters_of. rewrite Hh by (unfold D in Hx; lia).
    erewrite flat_map_ext_in; [apply Permutation_refl|]. intros l1 _. apply gen_lwtasks.
  - intros x w _ Hw [->|Hd].
    + apply waits_on_iff in Hw as (l1 & _ & Hw). destruct (waiter_has_row _ _ _ _ _ _ W Hw) as (g & Hr).
      exact (Hnr _ _ Hr).
    + pose proof (gen_waiter_old x w Hw). lia.
  - rewrite gen_entry_task. intros [E|Hd].
    + rewrite E in Hrow. exact (Hnr _ _ Hrow).
    + pose proof (w_range W _ _ _ Hrow). lia.
  - right. exists e'. split; auto. split; [|split; [reflexivity|now rewrite gen_entry_task]].
    unfold live in *. destruct (fdone s (Z.to_nat (eobj e'))) eqn:E; auto. rewrite (q_done Q _ E) in Hl'. discriminate.
Qed.

(* a step that keeps every task's held locks *)
Theorem KO_same_r :
  (forall x, x < length (tasks s) -> tholding (gett s' x) = tholding (gett s x)) -> KO s'.
Proof.
  intros Hh. destruct K as [O Ky].
  assert (O' : OW s').
  { intros x l l0 Hp Ew Hl0.
    destruct (Nat.lt_ge_cases x (length (tasks s))) as [Hx|Hx].
    - destruct (q_task Q x Hx) as (A & _). rewrite A in Ew. rewrite (gen_old_prio x Hx) in Hp.
      rewrite (Hh x Hx) in Hl0. eapply O; eauto.
    - destruct (Nat.lt_ge_cases x (length (tasks s'))) as [Hx'|Hx'].
      + rewrite (q_new Q x Hx Hx') in Ew. discriminate.
      + rewrite (gen_oob_prio x Hx') in Hp. discriminate. }
  split; [exact O'|]. intros l0 e' He' Hl'.
  set (D := fun x : nat => length (tasks s) <= x).
  assert (Rs : ranked s) by (apply (ranked_tbl true (fun _ => False) R s); auto).
  assert (Rs' : ranked s') by (apply Rk'; exact O').
  rewrite (q_lpq Q) in He'.
  pose proof (rtask_row _ _ _ _ _ _ W He') as Hrow. unfold rtask in Hrow.
  fold (entry_task (getl s l0) e') in Hrow.
  apply (keyed_local s s' D Rs Rs'); auto.
  - intros x Hx. apply (q_task Q). unfold D in Hx. lia.
  - intros x Hx. unfold waiters_of. rewrite Hh by (unfold D in Hx; lia).
    erewrite flat_map_ext_in; [apply Permutation_refl|]. intros l1 _. apply gen_lwtasks.
  - intros x w _ Hw Hd. pose proof (gen_waiter_old x w Hw). unfold D in Hd. lia.
  - rewrite gen_entry_task. intros Hd. pose proof (w_range W _ _ _ Hrow). unfold D in Hd. lia.
  - right. exists e'. split; auto. split; [|split; [reflexivity|now rewrite gen_entry_task]].
    unfold live in *. destruct (fdone s (Z.to_nat (eobj e'))) eqn:E; auto. rewrite (q_done Q _ E) in Hl'. discriminate.
Qed.
End Gen.

Theorem KO_run s s' R R' : Inv s -> WI true R s -> Inv s' -> WI true R' s' -> wq s s' -> KO s ->
  forall t, (forall x, x < length (tasks s) -> x <> t -> tholding (gett s' x) = tholding (gett s x)) ->
  (forall l f, ~ In (f, t) (rows s l)) -> KO s'.
Proof.
  intros I W I' W' Q K t. apply (KO_run_r s s' R I W); auto.
  intros O'. apply (ranked_tbl true (fun _ => False) R' s'); auto.
Qed.

Theorem KO_same s s' R R' : Inv s -> WI true R s -> Inv s' -> WI true R' s' -> wq s s' -> KO s ->
  (forall x, x < length (tasks s) -> tholding (gett s' x) = tholding (gett s x)) -> KO s'.
Proof.
  intros I W I' W' Q K. apply (KO_same_r s s' R I W); auto.
  intros O'. apply (ranked_tbl true (fun _ => False) R' s'); auto.
Qed.

(* a benign step (C13's footprint: held locks, lock queues and owners unchanged) that also keeps the
   rows, priorities and _waiting_on: no invariant of the new state is needed *)
Theorem KO_bq s s' R : Inv s -> WI true R s -> benign s s' -> wq s s' -> KO s -> KO s'.
Proof.
  intros I W B Q K.
  assert (Hh : forall x, x < length (tasks s) -> tholding (gett s' x) = tholding (gett s x)).
  { intros x Hx. now destruct (c_task B x Hx). }
  apply (KO_same_r s s' R I W); auto.
  intros _. destruct K as [O _].
  destruct (ranked_tbl true (fun _ => False) R s I W O) as (rank & Hr & Hb).
  exists rank. split.
  - intros w x (l1 & H1 & H2). apply Hr. exists l1.
    destruct (Nat.lt_ge_cases x (length (tasks s))) as [Hx|Hx].
    + rewrite (Hh x Hx) in H1. split; auto. now rewrite <- (gen_lwtasks s s' Q l1).
    + destruct (c_newtask B x Hx) as (E & _). rewrite E in H1. destruct H1.
  - intros x. pose proof (Hb x). pose proof (q_ntasks Q). pose proof (q_nlocks Q). unfold efuel in *. lia.
Qed.
