(* C10 - the priority loop: most urgent first, FIFO among equals, positions override.
   Scheduler model: Sched/Model.v with the ready queue RPos (PosPriorityQueue over the
   transcription HPV of heapq), starvation boosting disabled (factor 0, part of PInv).
   [plist HPV p] (Queue/PosList.v) is the sorted list of the queue's entries = the run order;
   rq_items (RPos p) = map onat (plist HPV p). *)
From Coq Require Import QArith Lqa Sorting.Sorted Sorting.Permutation.
From RecordUpdate Require Import RecordUpdate.
From Asynkit Require Import Base.Prelude Queue.ListFacts Queue.PQ Queue.Order Queue.Heap
     Queue.HeapqProofs Queue.PQProofs Queue.PosPQ Queue.PosProofs Queue.PosInsert Queue.PosList
     Queue.Exec Sched.Model Sched.PartTables Sched.PrioQueueProofs.
Import RecordSetNotations.
Open Scope nat_scope.

Notation plistv := (plist HPV).
Notation PInvv := (PInv HPV).
Notation eltv := (entry_lt pv_lt).

(* ------------------------------------------------------------------ the key order *)
(* PriEntry.__lt__ over PriorityValue: class, then priority = base + boost, then arrival *)
Lemma eltv_spec a b :
  eltv a b = true <->
  (pclass (epri a) < pclass (epri b))%Z \/
  (pclass (epri a) = pclass (epri b) /\
   (pv_priority (epri a) < pv_priority (epri b) \/
    (pv_priority (epri a) == pv_priority (epri b) /\ (eseq a < eseq b)%Z)))%Q.
Proof.
  rewrite elt_true. rewrite pv_lt_true. split.
  - intros [[Hc|[Hc Hp]]|(H1 & H2 & Hs)]; auto.
    apply pv_lt_false in H1, H2. destruct H1 as [?|[? ?]]; destruct H2 as [?|[? ?]]; try lia.
    right. split; auto. right. split; auto. lra.
  - intros [Hc|[Hc [Hp|[Hp Hs]]]]; auto.
    right. rewrite !pv_lt_false. repeat split; auto; right; split; auto; lra.
Qed.

Lemma eltv_false_spec a b :
  eltv a b = false <->
  (pclass (epri b) < pclass (epri a))%Z \/
  (pclass (epri a) = pclass (epri b) /\
   (pv_priority (epri b) < pv_priority (epri a) \/
    (pv_priority (epri a) == pv_priority (epri b) /\ (eseq b <= eseq a)%Z)))%Q.
Proof.
  rewrite (elt_false pv_lt_strict_weak). rewrite pv_lt_true. split.
  - intros [[Hc|[Hc Hp]]|(H1 & H2 & Hs)]; auto.
    apply pv_lt_false in H1, H2. destruct H1 as [?|[? ?]]; destruct H2 as [?|[? ?]]; try lia.
    right. split; auto. right. split; auto. lra.
  - intros [Hc|[Hc [Hp|[Hp Hs]]]]; auto.
    right. rewrite !pv_lt_false. repeat split; auto; right; split; auto; lra.
Qed.

(* ------------------------------------------------------------------ pop_min *)
(* popleft returns the object of the unique entry that is minimal for the key order *)
Theorem pop_min_queue p o p' :
  PInvv p -> pos_popleft HPV p = Some (o, p') ->
  exists e, In e (arr (pq_ p)) /\ eobj e = o /\
    (forall x, In x (arr (pq_ p)) -> x = e \/ eltv e x = true) /\
    Permutation (arr (pq_ p)) (e :: arr (pq_ p')) /\ PInvv p'.
Proof.
  intros Hp E. destruct (popleft_min HPV HPV_plt HPV_spec p o p' Hp E) as (e & H1 & H2 & _ & H4 & H5 & H6).
  exists e. auto.
Qed.

(* ... in particular: a positional entry whenever there is one, otherwise a regular entry of
   least priority value, the earliest arrival among those *)
Corollary pop_min_cases p o p' :
  PInvv p -> pos_popleft HPV p = Some (o, p') ->
  exists e, In e (arr (pq_ p)) /\ eobj e = o /\
    ((exists x, In x (arr (pq_ p)) /\ pclass (epri x) = 0%Z) -> pclass (epri e) = 0%Z) /\
    (forall x, In x (arr (pq_ p)) -> pclass (epri x) = pclass (epri e) ->
       (pv_priority (epri e) <= pv_priority (epri x))%Q /\
       (pv_priority (epri e) == pv_priority (epri x) -> (eseq e <= eseq x)%Z)).
Proof.
  intros Hp E. destruct (pop_min_queue p o p' Hp E) as (e & Hin & Ho & Hmin & _ & _).
  exists e. split; auto. split; auto.
  assert (Hc : Forall cls_ok (arr (pq_ p))) by apply Hp. rewrite Forall_forall in Hc. split.
  - intros (x & Hx & Hx0). destruct (Hmin x Hx) as [->|Hlt]; auto.
    apply eltv_spec in Hlt. destruct (Hc e Hin) as [[? _]|?]; auto. lia.
  - intros x Hx Hcl. destruct (Hmin x Hx) as [->|Hlt]; [split; [lra | lia]|].
    apply eltv_spec in Hlt. destruct Hlt as [?|[_ [?|[? ?]]]]; [lia | split; [lra|] | split; [lra | lia]].
    intros; lra.
Qed.

(* the run order: all positional entries, then all regular ones *)
Lemma sorted_class_split (l : list (entry pv)) :
  StronglySorted (fun a b => eltv a b = true) l -> Forall cls_ok l ->
  exists ps rs, l = ps ++ rs /\ Forall (fun e => pclass (epri e) = 0%Z) ps /\
                Forall (fun e => pclass (epri e) = 1%Z) rs.
Proof.
  induction l as [|a l IH]; intros Hs Hc.
  - exists [], []. auto.
  - inversion Hs as [|? ? Hs' Hall]; subst. inversion Hc as [|? ? Ha Hc']; subst.
    destruct Ha as [[Ha _]|Ha].
    + destruct (IH Hs' Hc') as (ps & rs & -> & Hps & Hrs). exists (a :: ps), rs. auto.
    + exists [], (a :: l). split; auto. split; auto. constructor; auto.
      rewrite Forall_forall in *. intros x Hx. specialize (Hall x Hx). apply eltv_spec in Hall.
      destruct (Hc' x Hx) as [[? _]|?]; auto. lia.
Qed.

Theorem plist_class_split p : PInvv p ->
  exists ps rs, plistv p = ps ++ rs /\ Forall (fun e => pclass (epri e) = 0%Z) ps /\
                Forall (fun e => pclass (epri e) = 1%Z) rs.
Proof.
  intros Hp. apply sorted_class_split.
  - apply (plist_strict HPV HPV_plt p Hp).
  - apply (plist_cls HPV p Hp).
Qed.

(* ------------------------------------------------------------------ run_one *)
Lemma rq_popleft_pos p : PInvv p ->
  match rq_items (RPos p) with
  | [] => rq_popleft (RPos p) = None
  | h :: rest => exists p', rq_popleft (RPos p) = Some (h, RPos p') /\ PInvv p' /\
                            rq_items (RPos p') = rest /\
                            exists e, plistv p = e :: plistv p' /\ onat e = h
  end.
Proof.
  intros Hp. pose proof (popleft_plist HPV HPV_plt HPV_spec p Hp) as Hl.
  rewrite rq_items_pos. cbn [rq_popleft].
  destruct (plistv p) as [|e t]; cbn [map].
  - rewrite Hl. reflexivity.
  - destruct Hl as (s' & E1 & Ht & Hp'). exists s'. rewrite E1.
    split; [reflexivity|]. split; [exact Hp'|]. rewrite rq_items_pos, Ht. split; [reflexivity|].
    exists e. auto.
Qed.

(* the loop runs the head of the (sorted) ready queue *)
Theorem run_one_head s p :
  ready s = RPos p -> PInvv p ->
  match rq_items (ready s) with
  | [] => run_one s = s
  | h :: rest =>
      exists p', PInvv p' /\ rq_items (RPos p') = rest /\
        run_one s = (let s1 := s <| ready := RPos p' |> in
                     if hcancelled (geth s1 h) then s1 else run_callback (hcb (geth s1 h)) s1)
  end.
Proof.
  intros Er Hp. pose proof (rq_popleft_pos p Hp) as Hl. unfold run_one. rewrite Er.
  destruct (rq_items (RPos p)) as [|h rest].
  - rewrite Hl. reflexivity.
  - destruct Hl as (p' & E & Hp' & Hi & _). exists p'. rewrite E. auto.
Qed.

(* rq_items is the key-sorted list of the queue's entries *)
Theorem rq_items_sorted p : PInvv p ->
  rq_items (RPos p) = map onat (plistv p) /\
  Permutation (plistv p) (arr (pq_ p)) /\
  StronglySorted (fun a b => eltv a b = true) (plistv p).
Proof.
  intros Hp. split; [reflexivity|]. split; [apply plist_perm | apply (plist_strict HPV HPV_plt p Hp)].
Qed.

(* ------------------------------------------------------------------ keys *)
(* effective_priority only reads the task and lock tables *)
Lemma fold_left_ext_in' {A B} (f g : A -> B -> A) l : forall a,
  (forall a x, In x l -> f a x = g a x) -> fold_left f l a = fold_left g l a.
Proof.
  induction l as [|x l IH]; intros a Hfg; simpl; auto.
  rewrite Hfg by (now left). apply IH. intros; apply Hfg; now right.
Qed.

Lemma eprio_frame s s' :
  tasks s' = tasks s -> locks s' = locks s -> forall fuel t, eprio fuel s' t = eprio fuel s t.
Proof.
  intros Ht Hl. induction fuel as [|fuel IH]; intros t; cbn [eprio]; unfold gett, getl; rewrite Ht, ?Hl.
  - reflexivity.
  - match goal with |- match ?a with _ => _ end = match ?b with _ => _ end => assert (E : a = b) end.
    { apply fold_left_ext_in'. intros acc l _.
      destruct (lock_waiter_tasks (nth l (locks s) dlock)) as [|w ws]; auto.
      match goal with |- match ?a with _ => _ end = match ?b with _ => _ end => assert (E : a = b) end.
      { apply fold_left_ext_in'. intros m x _. rewrite IH. reflexivity. }
      rewrite E. reflexivity. }
    rewrite E. reflexivity.
Qed.

Lemma effective_priority_frame s s' t :
  tasks s' = tasks s -> locks s' = locks s -> effective_priority s' t = effective_priority s t.
Proof.
  intros Ht Hl. unfold effective_priority, efuel. rewrite Ht, Hl. apply eprio_frame; auto.
Qed.

Lemma handle_priority_frame s s' c :
  tasks s' = tasks s -> locks s' = locks s -> handle_priority s' c = handle_priority s c.
Proof.
  intros Ht Hl. unfold handle_priority, gett. rewrite Ht.
  destruct (task_of_cb c) as [t|]; auto.
  destruct (tprio (nth t (tasks s) dtask)); auto. apply effective_priority_frame; auto.
Qed.

(* PrioritySchedulingMixin.get_priority: the effective priority of the PriorityTask whose
   step / wake-up the callback is; 0 for plain Tasks and every other callback *)
Lemma handle_priority_spec s c :
  handle_priority s c =
  match c with
  | HStep t _ | HWakeup t _ => if is_prio_task s t then effective_priority s t else 0%Q
  | _ => 0%Q
  end.
Proof.
  unfold handle_priority, is_prio_task. destruct c; simpl; auto; destruct (tprio (gett s t)); auto.
Qed.

(* call_soon on the priority loop: one new regular (class 1) entry, keyed with the handle's
   priority at this moment, the current insertion count and the next sequence number *)
Theorem call_soon_key s c p :
  ready s = RPos p -> PInvv p ->
  let h := length (handles s) in
  let e := mkE (mkPV (handle_priority s c) (n_ins p) 0 1) (seqn (pq_ p)) (Z.of_nat h) in
  exists p', call_soon s c = (s <| handles := handles s ++ [mkH c false] |> <| ready := RPos p' |>, h) /\
    PInvv p' /\
    plistv p' = ins_stable HPV e (plistv p) /\
    Permutation (arr (pq_ p')) (e :: arr (pq_ p)) /\
    Permutation (rq_items (RPos p')) (h :: rq_items (RPos p)).
Proof.
  intros Er Hp h e. unfold call_soon. fold h.
  set (s1 := s <| handles := handles s ++ [mkH c false] |>).
  assert (Er1 : ready s1 = RPos p) by exact Er. rewrite Er1. cbn [rq_append].
  assert (Ehp : handle_priority s1 c = handle_priority s c) by (apply handle_priority_frame; reflexivity).
  rewrite Ehp. exists (pos_append_pri HPV p (Z.of_nat h) (handle_priority s c)).
  split; [reflexivity|]. split; [apply (append_pri_inv HPV HPV_spec); auto|].
  split; [apply (append_plist HPV HPV_plt HPV_spec); auto|]. split.
  - unfold pos_append_pri. rewrite pq_counters.
    + apply (add_perm HPV HPV_spec).
    + destruct Hp as (Hi & Hf & Hc). apply PInv_with_pq; [split; auto | apply (add_inv HPV HPV_spec); auto |].
      eapply cls_perm; [apply Permutation_sym, (add_perm HPV HPV_spec)|]. constructor; auto. right. reflexivity.
  - apply (q_append QSpec_pos (RPos p) h (handle_priority s c) Hp).
Qed.

(* ------------------------------------------------------------------ task_reschedule *)
(* at most one queued handle satisfies the key => the key selects at most one entry *)
Lemma cnt_le1_uniq {A} (f : A -> bool) (l : list A) x y :
  cnt f l <= 1 -> forall l1 l2 l3, l = l1 ++ x :: l2 ++ y :: l3 -> f x = true -> f y = true -> False.
Proof.
  intros Hc l1 l2 l3 -> Hx Hy.
  rewrite cnt_app, cnt_cons, cnt_app, cnt_cons, Hx, Hy in Hc. lia.
Qed.

Lemma keyuniq_of_cnt p (key : nat -> bool) :
  PInvv p -> cnt key (rq_items (RPos p)) <= 1 ->
  KeyUniq (fun o => key (Z.to_nat o)) (arr (pq_ p)).
Proof.
  intros Hp Hc x y Hx Hy Kx Ky.
  apply (Permutation_in _ (Permutation_sym (plist_perm HPV p))) in Hx, Hy.
  rewrite rq_items_pos in Hc.
  pose proof (plist_nodup HPV p Hp) as Hnd.
  destruct (Z.eq_dec (eseq x) (eseq y)) as [Es|Es].
  - eapply NoDup_map_inj_in; eauto.
  - exfalso. destruct (in_split _ _ Hx) as (l1 & r & E). rewrite E in Hy.
    apply in_app_or in Hy. destruct Hy as [Hy|[Hy|Hy]]; [|congruence|].
    + destruct (in_split _ _ Hy) as (a & b & ->). rewrite E in Hc.
      rewrite <- app_assoc in Hc. simpl in Hc.
      rewrite map_app in Hc. simpl in Hc. rewrite map_app in Hc. simpl in Hc.
      eapply (cnt_le1_uniq key _ (onat y) (onat x) Hc); eauto.
    + destruct (in_split _ _ Hy) as (a & b & ->). rewrite E in Hc.
      rewrite map_app in Hc. simpl in Hc. rewrite map_app in Hc. simpl in Hc.
      eapply (cnt_le1_uniq key _ (onat x) (onat y) Hc); eauto.
Qed.

Lemma rq_set_ready_id (s : st) : s <| ready := ready s |> = s.
Proof. destruct s; reflexivity. Qed.

(* F6 repair: re-prioritising a task whose queued entry is positional changes nothing *)
Theorem reschedule_positional_keeps_place s t p e :
  ready s = RPos p -> PInvv p -> hcnt s t <= 1 ->
  In e (arr (pq_ p)) -> task_key s t (onat e) = true -> pclass (epri e) = 0%Z ->
  task_reschedule s t = s.
Proof.
  intros Er Hp Hc Hin Hk Hcl. unfold task_reschedule, rq_reschedule. rewrite Er.
  unfold hcnt in Hc. rewrite Er in Hc.
  pose proof (keyuniq_of_cnt p (task_key s t) Hp Hc) as Hu.
  pose proof (reschedule_plist HPV HPV_plt HPV_spec p _ (effective_priority s t) Hp Hu) as Hr.
  cbv zeta in Hr.
  assert (Hf : find (okey (fun o => task_key s t (Z.to_nat o))) (plistv p) = Some e).
  { apply find_unique; auto.
    - apply (Permutation_in _ (Permutation_sym (plist_perm HPV p))). exact Hin.
    - intros x Hx Kx. apply Hu; auto. apply (Permutation_in _ (plist_perm HPV p)). exact Hx. }
  rewrite Hf in Hr. destruct Hr as (p' & E & _ & Hcase). rewrite E.
  rewrite Hcl in Hcase. simpl in Hcase. subst p'. rewrite <- Er. apply rq_set_ready_id.
Qed.

(* a regular entry is re-keyed to the task's effective priority; every other entry is untouched *)
Theorem reschedule_rekeys s t p e :
  ready s = RPos p -> PInvv p -> hcnt s t <= 1 ->
  In e (arr (pq_ p)) -> task_key s t (onat e) = true -> pclass (epri e) = 1%Z ->
  exists p' e' rest,
    task_reschedule s t = s <| ready := RPos p' |> /\ PInvv p' /\
    Permutation (arr (pq_ p)) (e :: rest) /\ Permutation (arr (pq_ p')) (e' :: rest) /\
    eobj e' = eobj e /\ eseq e' = eseq e /\ pclass (epri e') = 1%Z /\
    (pv_priority (epri e') == effective_priority s t)%Q.
Proof.
  intros Er Hp Hc Hin Hk Hcl. unfold task_reschedule, rq_reschedule. rewrite Er.
  unfold hcnt in Hc. rewrite Er in Hc.
  pose proof (keyuniq_of_cnt p (task_key s t) Hp Hc) as Hu.
  pose proof (reschedule_plist HPV HPV_plt HPV_spec p _ (effective_priority s t) Hp Hu) as Hr.
  cbv zeta in Hr.
  assert (Hf : find (okey (fun o => task_key s t (Z.to_nat o))) (plistv p) = Some e).
  { apply find_unique; auto.
    - apply (Permutation_in _ (Permutation_sym (plist_perm HPV p))). exact Hin.
    - intros x Hx Kx. apply Hu; auto. apply (Permutation_in _ (plist_perm HPV p)). exact Hx. }
  rewrite Hf in Hr. destruct Hr as (p' & E & Hp' & Hcase). rewrite E.
  rewrite Hcl in Hcase. simpl (_ =? _)%Z in Hcase. cbv iota in Hcase.
  set (newp := mkPV (effective_priority s t) (n_ins p) 0 1) in *.
  pose proof (find_perm_remove _ _ _ Hf) as Hpr.
  set (rest := remove_first (okey (fun o => task_key s t (Z.to_nat o))) (plistv p)) in *.
  assert (Hpa : Permutation (arr (pq_ p)) (e :: rest)).
  { eapply perm_trans; [apply Permutation_sym, (plist_perm HPV p) | exact Hpr]. }
  destruct (pv_lt (epri e) newp || pv_lt newp (epri e)) eqn:Ed.
  - exists p', (mkE newp (eseq e) (eobj e)), rest. split; [reflexivity|]. split; [exact Hp'|].
    split; [exact Hpa|]. split.
    + eapply perm_trans; [apply Permutation_sym, (plist_perm HPV p')|]. rewrite Hcase.
      apply (ins_stable_perm HPV).
    + simpl. repeat split; auto. unfold pv_priority. simpl. lra.
  - subst p'. exists p, e, rest. split; [reflexivity|]. split; [exact Hp|].
    split; [exact Hpa|]. split; [exact Hpa|]. repeat split; auto.
    apply orb_false_elim in Ed. destruct Ed as [E1 E2]. apply pv_lt_false in E1, E2.
    unfold newp in E1, E2. simpl pclass in E1, E2. rewrite Hcl in E1, E2.
    assert (Hn : (pv_priority (mkPV (effective_priority s t) (n_ins p) 0 1) == effective_priority s t)%Q)
      by (unfold pv_priority; simpl; lra).
    destruct E1 as [?|[_ E1]]; [lia|]. destruct E2 as [?|[_ E2]]; [lia|]. lra.
Qed.

(* ------------------------------------------------------------------ positional entries *)
Lemma insert_nth_split {A} (l : list A) x : forall k, firstn k l ++ x :: skipn k l = insert_nth l k x.
Proof.
  induction l as [|a l IH]; intros [|k]; simpl; auto. rewrite IH. reflexivity.
Qed.

Definition class0 (e : entry pv) : Prop := pclass (epri e) = 0%Z.
Definition class1 (e : entry pv) : Prop := pclass (epri e) = 1%Z.

(* queue_insert_pos(h, k): h and the k entries promoted in front of it become positional
   entries, in the old order, in front of everything else; as a list: insert at index k *)
Theorem insert_pos_items p k h :
  PInvv p ->
  exists p' news,
    rq_insert_pos (RPos p) k h = RPos p' /\ PInvv p' /\
    plistv p' = news ++ skipn k (plistv p) /\ Forall class0 news /\
    map onat news = firstn k (rq_items (RPos p)) ++ [h] /\
    rq_items (RPos p') = insert_nth (rq_items (RPos p)) k h.
Proof.
  intros Hp. destruct (insert_plist HPV HPV_plt HPV_spec p k (Z.of_nat h) Hp) as (news & En & Em & Ec).
  exists (pos_insert HPV p k (Z.of_nat h)), news. split; [reflexivity|].
  split; [apply (insert_inv HPV HPV_plt HPV_spec); auto|]. split; [exact En|]. split; [exact Ec|].
  assert (Emn : map onat news = firstn k (rq_items (RPos p)) ++ [h]).
  { unfold onat. rewrite <- (map_map (@eobj pv) Z.to_nat), Em, map_app. cbn [map]. rewrite Nat2Z.id.
    rewrite rq_items_pos. unfold onat. rewrite <- (map_map (@eobj pv) Z.to_nat (plistv p)).
    rewrite <- !firstn_map. reflexivity. }
  split; [exact Emn|].
  rewrite (rq_items_pos (pos_insert HPV p k (Z.of_nat h))), En, map_app, Emn, <- app_assoc. simpl.
  rewrite <- skipn_map, <- rq_items_pos. apply insert_nth_split.
Qed.

Lemma remove_first_ins (f : entry pv -> bool) e : forall L,
  f e = true -> (forall x, In x L -> f x = false) ->
  find f (ins_stable HPV e L) = Some e /\ remove_first f (ins_stable HPV e L) = L.
Proof.
  induction L as [|a L IH]; intros He Hn; cbn [ins_stable].
  - cbn [find remove_first]. rewrite He. auto.
  - destruct (entry_lt (plt HPV) e a); cbn [find remove_first].
    + rewrite He. auto.
    + rewrite (Hn a) by (simpl; auto). destruct IH as [I1 I2]; auto.
      { intros x Hx. apply Hn. simpl; auto. }
      rewrite I1, I2. auto.
Qed.

(* call_pos(k, callback): call_soon, queue_remove, queue_insert_pos - the new handle ends up
   positional at index k of the run order *)
Theorem call_pos_items s k c p :
  ready s = RPos p -> PInvv p ->
  (forall x, In x (rq_items (ready s)) -> x < length (handles s)) ->
  let h := length (handles s) in
  exists p' news,
    call_pos s k c = s <| handles := handles s ++ [mkH c false] |> <| ready := RPos p' |> /\
    PInvv p' /\
    plistv p' = news ++ skipn k (plistv p) /\ Forall class0 news /\
    map onat news = firstn k (rq_items (RPos p)) ++ [h] /\
    rq_items (RPos p') = insert_nth (rq_items (RPos p)) k h.
Proof.
  intros Er Hp Hlt h. rewrite Er in Hlt.
  destruct (call_soon_key s c p Er Hp) as (p1 & Ecs & Hp1 & Epl1 & Eperm1 & _). fold h in Ecs, Epl1, Eperm1.
  set (e := mkE (mkPV (handle_priority s c) (n_ins p) 0 1) (seqn (pq_ p)) (Z.of_nat h)) in *.
  unfold call_pos. rewrite Ecs. cbn [rq_remove].
  assert (Hother : forall x, In x (arr (pq_ p)) -> okey (Z.eqb (Z.of_nat h)) x = false).
  { intros x Hx. unfold okey. apply Z.eqb_neq. intros Eo.
    assert (Hi : In (onat x) (rq_items (RPos p))).
    { apply (Permutation_in _ (Permutation_sym (items_perm_arr p))). apply in_map. exact Hx. }
    apply Hlt in Hi. unfold onat in Hi. rewrite <- Eo, Nat2Z.id in Hi. unfold h in Hi. lia. }
  assert (Hu : KeyUniq (Z.eqb (Z.of_nat h)) (arr (pq_ p1))).
  { intros x y Hx Hy Kx Ky.
    apply (Permutation_in _ Eperm1) in Hx, Hy.
    destruct Hx as [<-|Hx]; destruct Hy as [<-|Hy]; auto.
    - apply Hother in Hy. unfold okey in Hy. congruence.
    - apply Hother in Hx. unfold okey in Hx. congruence.
    - apply Hother in Hx. unfold okey in Hx. congruence. }
  pose proof (remove_plist HPV HPV_plt HPV_spec p1 (Z.of_nat h) Hp1 Hu) as Hr.
  destruct (remove_first_ins (okey (Z.eqb (Z.of_nat h))) e (plistv p)) as [F1 F2].
  { unfold okey, e. simpl. apply Z.eqb_refl. }
  { intros x Hx. apply Hother. apply (Permutation_in _ (plist_perm HPV p)). exact Hx. }
  rewrite Epl1, F1 in Hr. destruct Hr as (p2 & Er2 & Hp2 & Epl2). rewrite F2 in Epl2.
  simpl ready. cbn [rq_remove]. rewrite Er2.
  destruct (insert_pos_items p2 k h Hp2) as (p3 & news & E3 & Hp3 & Epl3 & Ec3 & Em3 & Ei3).
  rewrite E3. exists p3, news. split; [reflexivity|]. split; [exact Hp3|].
  rewrite !(rq_items_pos p2), Epl2, <- rq_items_pos in *. auto.
Qed.

(* ------------------------------------------------------------------ equal priorities: FIFO *)
(* With every priority handed to the queue equal to one value c, the PosPriorityQueue and the
   list queue are isomorphic: [Riso c rp rl] relates a priority ready queue to the list of its
   run order, and every ready-queue operation of the scheduler model preserves it with equal
   results. *)
Definition flat_ent (c : Q) (e : entry pv) : Prop :=
  (0 <= eobj e)%Z /\ (pclass (epri e) = 1%Z -> pv_priority (epri e) == c).

Definition Riso (c : Q) (rp rl : rq) : Prop :=
  match rp, rl with
  | RPos p, RList l => PInvv p /\ Forall (flat_ent c) (plistv p) /\ rq_items (RPos p) = l
  | _, _ => False
  end.

Lemma Riso_empty c ds : Riso c (RPos (pos_empty 0 ds)) (RList []).
Proof. split; [apply PInv_empty|]. split; [constructor | reflexivity]. Qed.

Lemma ins_last e : forall L,
  (forall x, In x L -> entry_lt (plt HPV) e x = false) -> ins_stable HPV e L = L ++ [e].
Proof.
  induction L as [|a L IH]; intros Hn; cbn [ins_stable app]; auto.
  rewrite (Hn a) by (simpl; auto). rewrite IH; auto. intros x Hx. apply Hn. simpl; auto.
Qed.

Lemma plist_seq_lt p : PInvv p -> forall x, In x (plistv p) -> (eseq x < seqn (pq_ p))%Z.
Proof.
  intros ((_ & _ & Hall & _) & _) x Hx. rewrite Forall_forall in Hall. apply Hall.
  apply (Permutation_in _ (plist_perm HPV p)). exact Hx.
Qed.

(* append with the common priority: the new handle goes to the end of the run order *)
Theorem iso_append c rp rl h pr :
  Riso c rp rl -> pr == c -> Riso c (rq_append rp h pr) (rq_append rl h pr).
Proof.
  destruct rp as [l0|p]; destruct rl as [l|p0]; try (intros []; fail). intros (Hp & Hfl & Hit) Hpr.
  cbn [rq_append]. set (e := mkE (mkPV pr (n_ins p) 0 1) (seqn (pq_ p)) (Z.of_nat h)).
  assert (Epl : plistv (pos_append_pri HPV p (Z.of_nat h) pr) = plistv p ++ [e]).
  { rewrite (append_plist HPV HPV_plt HPV_spec) by exact Hp. apply ins_last.
    intros x Hx. change (plt HPV) with pv_lt. apply eltv_false_spec.
    pose proof (plist_seq_lt p Hp x Hx) as Hs.
    pose proof (plist_cls HPV p Hp) as Hc. rewrite Forall_forall in Hc, Hfl.
    destruct (Hc x Hx) as [[Hx0 _]|Hx1].
    - left. simpl. lia.
    - right. simpl pclass. split; [auto|]. right. destruct (Hfl x Hx) as [_ Hq]. specialize (Hq Hx1).
      unfold pv_priority at 1. simpl. split; [lra | lia]. }
  split; [apply (append_pri_inv HPV HPV_spec); auto|]. split.
  - rewrite Epl. apply Forall_app. split; auto. constructor; auto. split; simpl; [lia|].
    intros _. unfold pv_priority. simpl. lra.
  - rewrite rq_items_pos, Epl, map_app, <- rq_items_pos, Hit. simpl. unfold onat. simpl.
    rewrite Nat2Z.id. reflexivity.
Qed.

Theorem iso_popleft c rp rl :
  Riso c rp rl ->
  match rq_popleft rp, rq_popleft rl with
  | None, None => True
  | Some (h, rp'), Some (h', rl') => h = h' /\ Riso c rp' rl'
  | _, _ => False
  end.
Proof.
  destruct rp as [l0|p]; destruct rl as [l|p0]; try (intros []; fail). intros (Hp & Hfl & Hit).
  pose proof (rq_popleft_pos p Hp) as Hl. rewrite Hit in Hl. destruct l as [|h rest].
  - rewrite Hl. simpl. exact Logic.I.
  - destruct Hl as (p' & E & Hp' & Hi' & e & Epl & _). rewrite E. simpl. split; auto.
    split; auto. split; auto. rewrite Epl in Hfl. inversion Hfl; auto.
Qed.

Lemma in_firstn {A} (x : A) k l : In x (firstn k l) -> In x l.
Proof. intros Hx. rewrite <- (firstn_skipn k l). apply in_or_app. auto. Qed.
Lemma in_skipn {A} (x : A) k l : In x (skipn k l) -> In x l.
Proof. intros Hx. rewrite <- (firstn_skipn k l). apply in_or_app. auto. Qed.

Theorem iso_insert_pos c rp rl k h :
  Riso c rp rl -> Riso c (rq_insert_pos rp k h) (rq_insert_pos rl k h).
Proof.
  destruct rp as [l0|p]; destruct rl as [l|p0]; try (intros []; fail). intros (Hp & Hfl & Hit).
  destruct (insert_pos_items p k h Hp) as (p' & news0 & E & _ & _ & _ & _ & Ei).
  assert (Ep' : p' = pos_insert HPV p k (Z.of_nat h)) by (cbn [rq_insert_pos] in E; congruence).
  subst p'. clear E.
  destruct (insert_plist HPV HPV_plt HPV_spec p k (Z.of_nat h) Hp) as (news & En & Em & Ec).
  cbn [rq_insert_pos]. split; [apply (insert_inv HPV HPV_plt HPV_spec); auto|].
  split; [|rewrite Ei, Hit; reflexivity].
  rewrite En. apply Forall_app. split.
  - rewrite Forall_forall in *. intros x Hx. split.
    + assert (Hi : In (eobj x) (map (@eobj pv) news)) by (apply in_map; auto).
      rewrite Em in Hi. apply in_app_or in Hi. destruct Hi as [Hi|[<-|[]]]; [|lia].
      apply in_map_iff in Hi. destruct Hi as (y & <- & Hy). apply in_firstn in Hy. apply (Hfl y Hy).
    + intros Hx1. specialize (Ec x Hx). simpl in Ec. lia.
  - rewrite Forall_forall in *. intros x Hx. apply Hfl. eapply in_skipn; eauto.
Qed.

(* list side of find: with at most one match, the last match is the first match *)
Lemma find_last_cnt0 {A} (f : A -> bool) l : cnt f l = 0 -> find_last f l = None.
Proof.
  induction l as [|a l IH]; auto. rewrite cnt_cons. intros Hc. simpl.
  rewrite IH by lia. destruct (f a); auto. lia.
Qed.

Lemma find_iso {B} (f : nat -> bool) (g : B -> nat) (L : list B) :
  cnt f (map g L) <= 1 ->
  match find (fun e => f (g e)) L with
  | None => find_last f (map g L) = None
  | Some e => exists i, find_last f (map g L) = Some i /\ nth i (map g L) 0 = g e /\
               remove_nth (map g L) i = map g (remove_first (fun e => f (g e)) L)
  end.
Proof.
  induction L as [|a L IH]; intros Hc; cbn [map find remove_first]; auto.
  cbn [map] in Hc. rewrite cnt_cons in Hc. destruct (f (g a)) eqn:Ea.
  - exists 0. simpl. rewrite find_last_cnt0 by lia. rewrite Ea. auto.
  - specialize (IH ltac:(lia)). destruct (find (fun e => f (g e)) L) as [e|].
    + destruct IH as (i & I1 & I2 & I3). exists (S i). simpl. rewrite I1, I2, I3. auto.
    + simpl. rewrite IH, Ea. reflexivity.
Qed.

Lemma Forall_remove_first {A} (P : A -> Prop) f l : Forall P l -> Forall P (remove_first f l).
Proof.
  rewrite !Forall_forall. intros Hl x Hx. apply Hl. eapply remove_first_incl; eauto.
Qed.

Theorem iso_find c rp rl key rm :
  Riso c rp rl -> cnt key (rq_items rl) <= 1 ->
  match rq_find rp key rm, rq_find rl key rm with
  | None, None => True
  | Some (h, rp'), Some (h', rl') => h = h' /\ Riso c rp' rl'
  | _, _ => False
  end.
Proof.
  destruct rp as [l0|p]; destruct rl as [l|p0]; try (intros []; fail). intros (Hp & Hfl & Hit) Hc.
  cbn [rq_items] in Hc. rewrite <- Hit in Hc.
  pose proof (keyuniq_of_cnt p key Hp Hc) as Hu.
  pose proof (find_plist HPV HPV_plt HPV_spec p _ rm Hp Hu) as Hf.
  rewrite rq_items_pos in Hc. pose proof (find_iso key onat (plistv p) Hc) as Hl.
  change (find (okey (fun o => key (Z.to_nat o))) (plistv p))
    with (find (fun e => key (onat e)) (plistv p)) in Hf.
  change (remove_first (okey (fun o => key (Z.to_nat o))) (plistv p))
    with (remove_first (fun e => key (onat e)) (plistv p)) in Hf.
  cbn [rq_find]. rewrite <- Hit, rq_items_pos.
  destruct (find (fun e => key (onat e)) (plistv p)) as [e|].
  - destruct Hf as (p' & E & Hp' & Hcase). destruct Hl as (i & I1 & I2 & I3).
    rewrite E, I1. split; [symmetry; exact I2|]. destruct rm.
    + split; auto. split; [rewrite Hcase; apply Forall_remove_first; auto|].
      rewrite rq_items_pos, Hcase. symmetry. exact I3.
    + subst p'. split; auto.
  - rewrite Hf, Hl. exact Logic.I.
Qed.

Lemma find_ext_in {A} (f g : A -> bool) l : (forall x, In x l -> f x = g x) -> find f l = find g l.
Proof.
  induction l as [|a l IH]; intros Hfg; simpl; auto. rewrite (Hfg a) by (simpl; auto).
  destruct (g a); auto. apply IH. intros; apply Hfg; simpl; auto.
Qed.

Lemma remove_first_ext_in {A} (f g : A -> bool) l :
  (forall x, In x l -> f x = g x) -> remove_first f l = remove_first g l.
Proof.
  induction l as [|a l IH]; intros Hfg; simpl; auto. rewrite (Hfg a) by (simpl; auto).
  destruct (g a); auto. f_equal. apply IH. intros; apply Hfg; simpl; auto.
Qed.

Theorem iso_remove c rp rl h :
  Riso c rp rl -> cnt (Nat.eqb h) (rq_items rl) <= 1 ->
  match rq_remove rp h, rq_remove rl h with
  | None, None => True
  | Some rp', Some rl' => Riso c rp' rl'
  | _, _ => False
  end.
Proof.
  destruct rp as [l0|p]; destruct rl as [l|p0]; try (intros []; fail). intros (Hp & Hfl & Hit) Hc.
  cbn [rq_items] in Hc. rewrite <- Hit in Hc.
  assert (Hext : forall x, In x (plistv p) -> okey (Z.eqb (Z.of_nat h)) x = Nat.eqb h (onat x)).
  { intros x Hx. rewrite Forall_forall in Hfl. destruct (Hfl x Hx) as [Hnn _].
    unfold okey, onat. destruct (Z.eqb_spec (Z.of_nat h) (eobj x)) as [E|E].
    - rewrite <- E, Nat2Z.id. symmetry. apply Nat.eqb_refl.
    - symmetry. apply Nat.eqb_neq. intros E'. apply E. rewrite E'. rewrite Z2Nat.id; auto. }
  assert (Hu : KeyUniq (Z.eqb (Z.of_nat h)) (arr (pq_ p))).
  { pose proof (keyuniq_of_cnt p (Nat.eqb h) Hp Hc) as Hu0. intros x y Hx Hy Kx Ky.
    apply Hu0; auto.
    - change ((h =? onat x) = true). rewrite <- (Hext x) by (apply (Permutation_in _ (Permutation_sym (plist_perm HPV p))); auto). exact Kx.
    - change ((h =? onat y) = true). rewrite <- (Hext y) by (apply (Permutation_in _ (Permutation_sym (plist_perm HPV p))); auto). exact Ky. }
  pose proof (remove_plist HPV HPV_plt HPV_spec p (Z.of_nat h) Hp Hu) as Hf.
  rewrite (find_ext_in _ _ _ Hext), (remove_first_ext_in _ _ _ Hext) in Hf.
  rewrite rq_items_pos in Hc. pose proof (find_iso (Nat.eqb h) onat (plistv p) Hc) as Hl.
  cbn [rq_remove]. rewrite <- Hit, rq_items_pos.
  destruct (find (fun e => Nat.eqb h (onat e)) (plistv p)) as [e|].
  - destruct Hf as (p' & E & Hp' & Epl). destruct Hl as (i & I1 & I2 & I3).
    rewrite E, I1. split; auto. split; [rewrite Epl; apply Forall_remove_first; auto|].
    rewrite rq_items_pos, Epl. symmetry. exact I3.
  - rewrite Hf, Hl. exact Logic.I.
Qed.

(* rescheduling to the common priority changes nothing (on the list loop it is a no-op) *)
Theorem iso_reschedule c rp rl key pr :
  Riso c rp rl -> pr == c -> rq_reschedule rp key pr = rp /\ rq_reschedule rl key pr = rl.
Proof.
  destruct rp as [l0|p]; destruct rl as [l|p0]; try (intros []; fail). intros (Hp & Hfl & Hit) Hpr.
  split; [|reflexivity]. cbn [rq_reschedule]. unfold pos_reschedule.
  destruct Hp as (Hi & Hf & Hc).
  destruct (pq_find HPV (pq_ p) (fun o => key (Z.to_nat o)) false) as [[e q]|] eqn:Ef; [|reflexivity].
  destruct (pclass (epri e) =? 0)%Z eqn:Ecl; [reflexivity|].
  unfold pos_reschedule_reg.
  destruct (find_last_index (fun o => key (Z.to_nat o)) (arr (pq_ p))) as [i|] eqn:Hfi.
  2: { rewrite (find_none HPV) in Ef by auto. discriminate. }
  rewrite (resched_some HPV (pq_ p) _ _ i Hfi).
  destruct (find_some HPV HPV_spec (pq_ p) _ i Hi Hfi) as (E0 & _). rewrite E0 in Ef.
  inversion Ef; subst q. rewrite H0.
  assert (Hin : In e (plistv p)).
  { apply (Permutation_in _ (Permutation_sym (plist_perm HPV p))). rewrite <- H0.
    apply nth_In. apply (find_last_index_some _ _ _ (edflt HPV) Hfi). }
  rewrite Forall_forall in Hfl, Hc. destruct (Hfl e Hin) as [_ Hq].
  assert (Hcl1 : pclass (epri e) = 1%Z).
  { destruct (Hc e) as [[? _]|?]; auto.
    - apply (Permutation_in _ (plist_perm HPV p)). exact Hin.
    - apply Z.eqb_neq in Ecl. lia. }
  specialize (Hq Hcl1).
  assert (Ed : plt HPV (epri e) (mkPV pr (n_ins p) 0 1) || plt HPV (mkPV pr (n_ins p) 0 1) (epri e) = false).
  { change (plt HPV) with pv_lt. apply orb_false_intro; apply pv_lt_false; right; simpl pclass;
      (split; [lia|]); unfold pv_priority at 1 2; simpl; unfold pv_priority in Hq; lra. }
  rewrite Ed. rewrite with_pq_id. reflexivity.
Qed.

(* iteration: same items, and the relation survives the in-place sort *)
Theorem iso_iter c p rl :
  Riso c (RPos p) rl ->
  Riso c (RPos (snd (pos_iter HPV p))) rl /\
  RList (map Z.to_nat (fst (pos_iter HPV p))) = rl.
Proof.
  destruct rl as [l|p0]; try (intros []; fail). intros (Hp & Hfl & Hit).
  destruct (iter_plist HPV HPV_plt p Hp) as [E1 E2]. split.
  - split; [apply (iter_inv_pos HPV HPV_plt); auto|]. split; [rewrite E2; auto|].
    rewrite rq_items_pos, E2, <- rq_items_pos. exact Hit.
  - rewrite E1, map_map, <- Hit. reflexivity.
Qed.

(* ------------------------------------------------------------------ all priorities equal *)
(* every PriorityTask has priority 0 (plain Tasks and callbacks count as 0 anyway): then every
   effective priority, hence every key handed to the queue, is 0 *)
Definition all_prio0 (s : st) : Prop :=
  forall t, match tprio (gett s t) with Some q => q == 0 | None => True end.

Definition okopt (m : option Q) : Prop := match m with Some x => x == 0 | None => True end.

Lemma qmin_0 x y : x == 0 -> y == 0 -> qmin x y == 0.
Proof. intros Hx Hy. unfold qmin. destruct (qltb y x); auto. Qed.

Lemma qmin_opt_ok m x : okopt m -> x == 0 -> okopt (qmin_opt m x).
Proof. destruct m; simpl; auto. intros; apply qmin_0; auto. Qed.

Lemma fold_okopt {B} (f : option Q -> B -> option Q) l :
  (forall a x, okopt a -> okopt (f a x)) -> forall acc, okopt acc -> okopt (fold_left f l acc).
Proof. intros Hf. induction l as [|x l IH]; intros acc Ha; simpl; auto. Qed.

Lemma eprio_all0 s : all_prio0 s -> forall fuel t, eprio fuel s t == 0.
Proof.
  intros H0. assert (Hown : forall t, match tprio (gett s t) with Some p => p | None => 0 end == 0).
  { intros t. specialize (H0 t). destruct (tprio (gett s t)); auto. reflexivity. }
  induction fuel as [|fuel IH]; intros t; cbn [eprio]; [apply Hown|].
  match goal with |- match ?a with _ => _ end == 0 => assert (Hm : okopt a) end.
  { apply fold_okopt; [|exact Logic.I]. intros acc l Hacc.
    destruct (lock_waiter_tasks (getl s l)) as [|w ws]; auto.
    match goal with |- okopt (match ?a with _ => _ end) => assert (Hi : okopt a) end.
    { apply fold_okopt; [|exact Logic.I]. intros m x Hm. apply qmin_opt_ok; auto.
      destruct (tprio (gett s x)); [apply IH | reflexivity]. }
    destruct (fold_left _ (w :: ws) None) as [x|]; auto. apply qmin_opt_ok; auto. }
  destruct (fold_left _ (tholding (gett s t)) None) as [m|]; [|apply Hown].
  apply qmin_0; [apply Hown | exact Hm].
Qed.

Theorem equal_prio_keys s : all_prio0 s ->
  (forall t, effective_priority s t == 0) /\ (forall c, handle_priority s c == 0).
Proof.
  intros H0. split.
  - intros t. apply eprio_all0; auto.
  - intros c. unfold handle_priority. destruct (task_of_cb c) as [t|]; [|reflexivity].
    destruct (tprio (gett s t)); [apply eprio_all0; auto | reflexivity].
Qed.

(* the scheduler's entry points to the queue, on a priority loop and a list loop whose ready
   queues are related and that have allocated the same number of handles *)
Theorem equal_prio_call_soon sp sl c :
  Riso 0 (ready sp) (ready sl) -> length (handles sp) = length (handles sl) -> all_prio0 sp ->
  Riso 0 (ready (fst (call_soon sp c))) (ready (fst (call_soon sl c))) /\
  snd (call_soon sp c) = snd (call_soon sl c).
Proof.
  intros HR Hl H0. unfold call_soon. cbn [fst snd]. split; [|exact Hl].
  simpl ready. rewrite Hl.
  set (sp1 := sp <| handles := handles sp ++ [mkH c false] |>).
  set (sl1 := sl <| handles := handles sl ++ [mkH c false] |>).
  assert (Epr : handle_priority sp1 c == 0).
  { rewrite (handle_priority_frame sp sp1) by reflexivity. apply equal_prio_keys; auto. }
  change (ready sp1) with (ready sp). change (ready sl1) with (ready sl).
  destruct (ready sl) as [l|p0] eqn:El; [|destruct (ready sp); destruct HR].
  change (rq_append (RList l) (length (handles sl)) (handle_priority sl1 c))
    with (rq_append (RList l) (length (handles sl)) (handle_priority sp1 c)).
  apply iso_append; auto.
Qed.

Theorem equal_prio_task_reschedule sp sl t :
  Riso 0 (ready sp) (ready sl) -> all_prio0 sp ->
  task_reschedule sp t = sp /\ task_reschedule sl t = sl.
Proof.
  intros HR H0. unfold task_reschedule.
  destruct (iso_reschedule 0 (ready sp) (ready sl) (task_key sp t) (effective_priority sp t) HR) as [E1 _].
  { apply equal_prio_keys; auto. }
  rewrite E1. split; [apply rq_set_ready_id|].
  destruct (ready sl) as [l|p0] eqn:El; [|destruct (ready sp); destruct HR].
  cbn [rq_reschedule]. rewrite <- El. apply rq_set_ready_id.
Qed.
