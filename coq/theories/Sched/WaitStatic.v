(* A static sufficient condition for the side condition [run_ne] (no eager start is executed):
   programs that contain no [Spawn SEager], run against environments that spawn such programs
   and make no release / condition-wait / set-priority call from outside the loop.
   Same structure as Sched/LockStatic.v ([nosr] for [run_ok]); the footprint lemmas
   [kproj_*] of that file are reused. *)
From Coq Require Import QArith Sorting.Permutation.
From RecordUpdate Require Import RecordUpdate.
From Asynkit Require Import Base.Prelude Queue.PQ Queue.Order Queue.PosPQ Queue.Exec Sched.Model Sched.Corr
  Sched.Tables Sched.QFacts Sched.LockInv Sched.Footprint Sched.LockOps Sched.LockLib Sched.LockProofs
  Sched.LockStatic Sched.LockThms Sched.WaitInv Sched.WaitLib Sched.WaitProofs.
Import RecordSetNotations.
Open Scope nat_scope.

Inductive noeag : coro -> Prop :=
| ng_ret v : noeag (Ret v)
| ng_raise e : noeag (Raise e)
| ng_call op k : (forall r, noeag (k r)) -> noeag (Call op k)
| ng_spawn how child k :
    how <> SEager -> noeag child -> (forall r, noeag (k r)) -> noeag (Spawn how child k).

Lemma exec_ne_noeag c : noeag c -> forall t s, exec_ne t c s.
Proof.
  induction 1 as [v|e|op k Hk IHk|how child k Hh Hc IHc Hk IHk]; intros t s; cbn [exec_ne]; auto.
  - destruct (lib_call t op s) as [s' r]. destruct r; auto.
  - destruct how; cbn [exec_ne]; try congruence.
    + destruct (spawn_task s SPlain child) as [s1 t']. apply IHk.
    + destruct (spawn_task s SPy child) as [s1 t']. apply IHk.
    + destruct (spawn_task s (SPrio p) child) as [s1 t']. apply IHk.
    + destruct (spawn_task s SDescend child) as [s1 t'].
      destruct (lib_call t (OTaskSwitch t' (Some 1)) s1) as [s2 r]. destruct r as [[v|e]|]; auto; apply IHk.
    + destruct (spawn_task s SStart child) as [s1 t']. exact I.
Qed.

(* ---------------------------------------------------------------- stored continuations *)
Definition cont_ne (k : tcont) : Prop :=
  match k with
  | TNew c => noeag c
  | TSusp _ k | TEager _ _ k => forall r, noeag (k r)
  | TRun | TFin => True
  end.
Definition conts_ne (s : st) : Prop := Forall cont_ne (kproj s).

Lemma conts_ne_same s s' : kproj s' = kproj s -> conts_ne s -> conts_ne s'.
Proof. unfold conts_ne. now intros ->. Qed.

Lemma conts_ne_sett s t x : conts_ne s -> cont_ne (tcont_ x) -> conts_ne (sett s t x).
Proof.
  intros H Hx. unfold conts_ne, kproj, sett. cbn. rewrite map_set_nth. now apply Forall_set_nth.
Qed.

Lemma conts_ne_get s t : conts_ne s -> cont_ne (tcont_ (gett s t)).
Proof.
  intros H. destruct (Nat.lt_ge_cases t (length (tasks s))) as [Ht|Ht].
  - unfold conts_ne, kproj in H. rewrite Forall_forall in H. apply H. apply in_map. now apply nth_In.
  - rewrite gett_oob by auto. exact I.
Qed.

Lemma conts_ne_app s tk : conts_ne s -> cont_ne (tcont_ tk) -> conts_ne (s <| tasks := tasks s ++ [tk] |>).
Proof.
  intros H Hx. unfold conts_ne, kproj. cbn. rewrite map_app. apply Forall_app. split; [exact H|].
  constructor; [exact Hx|constructor].
Qed.

Lemma conts_ne_new_task s kind p c : conts_ne s -> noeag c -> conts_ne (fst (new_task s kind p c)).
Proof.
  intros H Hc. unfold new_task.
  change (new_future s (Some (length (tasks s)))) with (fst (new_future s (Some (length (tasks s)))), length (futs s)).
  cbv beta iota. cbn [fst].
  match goal with |- conts_ne (call_soon_ ?S _) => change (conts_ne S) end.
  apply (conts_ne_app (fst (new_future s (Some (length (tasks s)))))); auto.
Qed.

Lemma conts_ne_spawn_task s how c : conts_ne s -> noeag c -> conts_ne (fst (spawn_task s how c)).
Proof. intros. unfold spawn_task. destruct how; now apply conts_ne_new_task. Qed.

Lemma exec_conts_ne c : noeag c -> forall t s, conts_ne s ->
  conts_ne (fst (exec t c s)) /\
  (forall y frs k, snd (exec t c s) = OYield y frs k -> forall r, noeag (k r)).
Proof.
  induction 1 as [v|e|op k Hk IHk|how child k Hh Hc IHc Hk IHk]; intros t s H; cbn [exec].
  - split; auto. intros; discriminate.
  - split; auto. intros; discriminate.
  - pose proof (kproj_lib_call t op s) as E. destruct (lib_call t op s) as [s1 r]. cbn [fst] in E.
    destruct r as [rep|y frs].
    + apply IHk. eapply conts_ne_same; eauto.
    + cbn [fst snd]. split; [eapply conts_ne_same; eauto|]. intros y0 frs0 k0 E0. inversion E0; subst. exact Hk.
  - assert (Hwrap : forall t', forall r, noeag (match r with RVal _ => k (RVal (Z.of_nat t')) | RExc e => k (RExc e) end)).
    { intros t' [v|e]; apply Hk. }
    destruct how; try congruence.
    + pose proof (conts_ne_spawn_task s SPlain child H Hc) as H1. destruct (spawn_task s SPlain child) as [s1 t']. now apply IHk.
    + pose proof (conts_ne_spawn_task s SPy child H Hc) as H1. destruct (spawn_task s SPy child) as [s1 t']. now apply IHk.
    + pose proof (conts_ne_spawn_task s (SPrio p) child H Hc) as H1. destruct (spawn_task s (SPrio p) child) as [s1 t']. now apply IHk.
    + pose proof (conts_ne_spawn_task s SDescend child H Hc) as H1. destruct (spawn_task s SDescend child) as [s1 t'].
      cbn [fst] in H1. pose proof (kproj_lib_call t (OTaskSwitch t' (Some 1)) s1) as E.
      destruct (lib_call t (OTaskSwitch t' (Some 1)) s1) as [s2 r]. cbn [fst] in E.
      assert (H2 : conts_ne s2) by (eapply conts_ne_same; eauto).
      destruct r as [[v|e]|y frs]; [now apply IHk|now apply IHk|].
      cbn [fst snd]. split; auto. intros y0 frs0 k0 E0. inversion E0; subst. apply Hwrap.
    + pose proof (conts_ne_spawn_task s SStart child H Hc) as H1. destruct (spawn_task s SStart child) as [s1 t'].
      cbn [fst snd] in *. split; auto. intros y0 frs0 k0 E0. inversion E0; subst. apply Hwrap.
Qed.

Lemma finish_step_conts_ne t s o :
  conts_ne s -> (forall y frs k, o = OYield y frs k -> forall r, noeag (k r)) ->
  conts_ne (finish_step t s o).
Proof.
  intros H K. unfold finish_step. destruct o as [[v|e]|y frs k].
  - set (s1 := sett s t (gett s t <| tcont_ := TFin |>)).
    assert (H1 : conts_ne s1) by (apply conts_ne_sett; [exact H|exact I]).
    destruct (tmustc (gett s t)).
    + eapply conts_ne_same; [apply kproj_fut_finish|]. apply conts_ne_sett; [exact H1|].
      apply (conts_ne_get s1 t H1).
    + eapply conts_ne_same; [apply kproj_fut_finish|]. exact H1.
  - set (s1 := sett s t (gett s t <| tcont_ := TFin |>)).
    assert (H1 : conts_ne s1) by (apply conts_ne_sett; [exact H|exact I]).
    destruct (is_cancel e); (eapply conts_ne_same; [apply kproj_fut_finish|]); exact H1.
  - set (s1 := sett s t (gett s t <| tcont_ := TSusp frs k |>)).
    assert (H1 : conts_ne s1) by (apply conts_ne_sett; [exact H|]; cbn; eapply K; eauto).
    destruct y as [|f]; [exact H1|].
    destruct (fblock (getf s1 f)); [|exact H1].
    destruct (Nat.eqb f (tfut (gett s t))); [exact H1|].
    set (s2 := setf s1 f (getf s1 f <| fblock := false |>)).
    set (s3 := add_done_callback s2 f (CbWakeup t)).
    assert (H3 : conts_ne s3).
    { eapply conts_ne_same; [apply kproj_add_done_callback|]. exact H1. }
    set (s4 := sett s3 t (gett s3 t <| twaiter := Some f |>)).
    assert (H4 : conts_ne s4) by (apply conts_ne_sett; [exact H3|apply (conts_ne_get s3 t H3)]).
    destruct (tmustc (gett s4 t)); [|exact H4].
    pose proof (kproj_cancel_awaitable s4 f) as E. destruct (cancel_awaitable s4 f) as [s5 ok]. cbn [fst] in E.
    assert (H5 : conts_ne s5) by (eapply conts_ne_same; eauto).
    destruct ok; [|exact H5]. apply conts_ne_sett; [exact H5|apply (conts_ne_get s5 t H5)].
Qed.

Lemma resume_exec_conts_ne t frs inp s k :
  conts_ne s -> (forall r, noeag (k r)) ->
  let '(s3, o) := (let '(s1, r) := resume_stack t frs inp s in
                   match r with
                   | LDone rep => exec t (k rep) s1
                   | LSusp y frs' => (s1, OYield y frs' k) end) in
  conts_ne s3 /\ (forall y frs0 k0, o = OYield y frs0 k0 -> forall r, noeag (k0 r)).
Proof.
  intros H K. pose proof (kproj_resume_stack frs t inp s) as E.
  destruct (resume_stack t frs inp s) as [s1 r]. cbn [fst] in E.
  assert (H1 : conts_ne s1) by (eapply conts_ne_same; eauto).
  destruct r as [rep|y frs1].
  - destruct (exec_conts_ne (k rep) (K rep) t s1 H1) as [H2 K2].
    destruct (exec t (k rep) s1) as [s3 o]. cbn [fst snd] in *. auto.
  - split; auto. intros y0 frs0 k0 E0. inversion E0; subst. exact K.
Qed.

Theorem step_task_conts_ne t exc s : conts_ne s -> conts_ne (step_task t exc s).
Proof.
  intros H. unfold step_task. destruct (tdone s t); [exact H|].
  pose proof (conts_ne_get s t H) as Hc.
  set (exc' := if tmustc (gett s t) then _ else exc).
  set (s1 := sett s t (gett s t <| tmustc := false |> <| twaiter := None |> <| tcont_ := TRun |>)).
  set (s2 := s1 <| current := Some t |>).
  assert (H2 : conts_ne s2) by (apply (conts_ne_sett s t); [exact H|exact I]).
  assert (Tail : forall s3 o, conts_ne s3 -> (forall y frs k, o = OYield y frs k -> forall r, noeag (k r)) ->
                 conts_ne ((finish_step t s3 o) <| current := None |>)).
  { intros s3 o H3 K3. apply (finish_step_conts_ne t s3 o H3 K3). }
  destruct (tcont_ (gett s t)) as [c|frs k|y frs k| |]; cbn [cont_ne] in Hc.
  - destruct exc' as [e|].
    + apply Tail; auto. intros; discriminate.
    + destruct (exec_conts_ne c Hc t s2 H2) as [H3 K3]. destruct (exec t c s2) as [s3 o]. now apply Tail.
  - pose proof (resume_exec_conts_ne t frs (match exc' with None => RVal 0 | Some e => RExc e end) s2 k H2 Hc) as R.
    destruct (let '(s1, r) := resume_stack t frs _ s2 in _) as [s3 o]. destruct R. now apply Tail.
  - destruct exc' as [e|].
    + pose proof (resume_exec_conts_ne t frs (RExc e) s2 k H2 Hc) as R.
      destruct (let '(s1, r) := resume_stack t frs _ s2 in _) as [s3 o]. destruct R. now apply Tail.
    + apply Tail.
      * destruct y; exact H2.
      * intros y0 frs0 k0 E0. inversion E0; subst. exact Hc.
  - apply Tail; auto. intros; discriminate.
  - apply Tail; auto. intros; discriminate.
Qed.

Lemma step_ne_conts t exc s : conts_ne s -> step_ne t exc s.
Proof.
  intros H. unfold step_ne. destruct (tdone s t); [exact I|].
  pose proof (conts_ne_get s t H) as Hc.
  destruct (tcont_ (gett s t)) as [c|frs k|y frs k| |]; cbn [cont_ne] in Hc; auto.
  - match goal with |- match ?e with Some _ => True | None => _ end => destruct e end; auto.
    now apply exec_ne_noeag.
  - destruct (resume_stack _ _ _ _) as [s1 r]. destruct r; auto. now apply exec_ne_noeag.
  - match goal with |- match ?e with Some _ => _ | None => True end => destruct e end; auto.
    destruct (resume_stack _ _ _ _) as [s1 r]. destruct r; auto. now apply exec_ne_noeag.
Qed.

Lemma interruptor_body_noeag b : noeag (interruptor_body b).
Proof. unfold interruptor_body. constructor. intros [v|e]; constructor. Qed.

Theorem run_callback_conts_ne c s : conts_ne s -> conts_ne (run_callback c s).
Proof.
  intros H. destruct c; cbn [run_callback].
  - now apply step_task_conts_ne.
  - unfold wakeup. destruct (fstate_ (getf s f)); try now apply step_task_conts_ne.
    pose proof (kproj_fut_result s f) as E. destruct (fut_result s f) as [s' r]. cbn [fst] in E.
    apply step_task_conts_ne. eapply conts_ne_same; eauto.
  - pose proof (kproj_task_reinsert s t p) as E. destruct (task_reinsert s t p) as [s' r]. cbn [fst] in E.
    destruct r; eapply conts_ne_same; eauto.
  - exact H.
  - eapply conts_ne_same; [apply kproj_fut_finish|exact H].
  - apply conts_ne_new_task; auto. apply interruptor_body_noeag.
  - unfold queue_iterated. destruct (ready _); exact H.
  - eapply conts_ne_same; [apply kproj_task_cancel|exact H].
Qed.

Lemma run_callback_ne_conts c s : conts_ne s -> run_callback_ne c s.
Proof.
  intros H. destruct c; cbn [run_callback_ne]; auto.
  - now apply step_ne_conts.
  - unfold wakeup_ne. destruct (fstate_ (getf s f)); try now apply step_ne_conts.
    pose proof (kproj_fut_result s f) as E. destruct (fut_result s f) as [s' r]. cbn [fst] in E.
    apply step_ne_conts. eapply conts_ne_same; eauto.
Qed.

(* statically checkable environment actions *)
Definition act_static_ne (a : action) : Prop :=
  match a with
  | ASpawn _ c => noeag c
  | ADo op => touches_own op = false
  | _ => True
  end.

Theorem do_action_conts_ne s a : conts_ne s -> act_static_ne a -> conts_ne (do_action s a).
Proof.
  intros H Ha. destruct a; cbn [do_action act_static_ne] in *.
  - unfold run_one. destruct (rq_popleft (ready s)) as [[h r]|]; auto.
    destruct (hcancelled _); auto. now apply run_callback_conts_ne.
  - unfold begin_iteration. eapply conts_ne_same; [|exact H].
    now rewrite kproj_move_due, kproj_drop_cancelled.
  - exact H.
  - now apply conts_ne_spawn_task.
  - eapply conts_ne_same; [apply kproj_lib_call|exact H].
Qed.

Lemma action_ne_static s a : conts_ne s -> act_static_ne a -> action_ne s a.
Proof.
  intros H Ha. destruct a; cbn [action_ne act_static_ne] in *; auto.
  - unfold run_one_ne. destruct (rq_popleft (ready s)) as [[h r]|]; auto.
    destruct (hcancelled _); auto. now apply run_callback_ne_conts.
  - intros E. congruence.
Qed.

Theorem run_ne_static acts : forall s, conts_ne s -> Forall act_static_ne acts -> run_ne s acts.
Proof.
  induction acts as [|a acts IH]; intros s H Ha; simpl; auto.
  inversion Ha; subst. split; [now apply action_ne_static|]. apply IH; auto. now apply do_action_conts_ne.
Qed.

Theorem run_ne_static_init p fa dr lks cds nev acts :
  Forall act_static_ne acts -> run_ne (init_st p fa dr lks cds nev) acts.
Proof. apply run_ne_static. constructor. Qed.

(* every run of set_result-free and eager-free programs is in the domain of all theorems *)
Theorem static_reachable_ne p fa dr lks cds nev acts :
  Forall act_static acts -> Forall act_static_ne acts ->
  reachable_ne (fold_left do_action acts (init_st p fa dr lks cds nev)).
Proof.
  intros H1 H2. exists p, fa, dr, lks, cds, nev, acts.
  split; [now apply run_ok_static_init|]. split; [now apply run_ne_static_init|reflexivity].
Qed.

(* ---------------------------------------------------------------- scripts of the harness *)
Fixpoint script_noeager (s : script) : Prop :=
  match s with
  | SEnd | SRet _ | SRaise _ | SReraise => True
  | SLogExc r => script_noeager r
  | SDo _ r => script_noeager r
  | SSpawn how ch r => how <> SEager /\ script_noeager ch /\ script_noeager r
  | STry b _ h f r => script_noeager b /\ script_noeager h /\ script_noeager f /\ script_noeager r
  | STimeout _ b r => script_noeager b /\ script_noeager r
  end.

Lemma denote_noeag s : script_noeager s -> forall env cur k,
  (forall env' c, noeag (k env' c)) -> noeag (denote s env cur k).
Proof.
  induction s as [|op rest IH|how ch IHc rest IHr|b IHb c h IHh f IHf r IHr|d b IHb r IHr|v|e| |rest IH];
    intros Hp env cur k Hk; cbn [denote script_noeager] in *; auto.
  - constructor. intros [v|e]; auto.
  - destruct Hp as (Hh & Hc & Hr). constructor; auto.
    + apply IHc; auto. intros _ [|v|e]; constructor.
    + intros [t|e]; auto.
  - destruct Hp as (Hb & Hh & Hf & Hr).
    assert (Hfin : forall env0 (k' : list nat -> compl -> coro),
              (forall env1 cf, noeag (k' env1 cf)) -> noeag (denote f env0 cur k')).
    { intros env0 k' Hk'. apply IHf; auto. }
    apply IHb; auto. intros env0 c0. destruct c0 as [|v|e].
    + apply Hfin. intros env1 [|v|e]; auto.
    + apply Hfin. intros env1 [|v'|e]; auto.
    + destruct (catches c e).
      * apply IHh; auto. intros env1 c1. apply Hfin. intros env2 [|v|e']; auto. destruct c1; auto.
      * apply Hfin. intros env1 [|v|e']; auto.
  - destruct Hp as [Hb Hr]. constructor. intros [bv|e]; auto.
    destruct (bv <? 0)%Z.
    + apply IHb; auto. intros env0 [|v|e]; auto.
    + apply IHb; auto. intros env0 c0. constructor. intros [v|e]; auto. destruct c0; auto.
  - constructor. intros _. auto.
Qed.

Theorem denote_task_noeag s : script_noeager s -> noeag (denote_task s).
Proof. intros H. unfold denote_task. apply denote_noeag; auto. intros _ [|v|e]; constructor. Qed.
