(* C08_exactly_once on the list queue: in any run, no handle is executed twice,
   none is duplicated, and a handle only ever moves between the queue and the
   `held` slot (removed and re-inserted as the same handle). *)
From Asynkit Require Import Base.Prelude Base.Obs Queue.Deque Queue.DequeProofs
     Sched.ListLoop Sched.ListLoopProofs.
From Coq Require Import Permutation.
Open Scope Z_scope.

Lemma NoDup_app_l {A} (l r : list A) : NoDup (l ++ r) -> NoDup l.
Proof.
  induction l as [|x l IH]; simpl; intros H; [constructor|].
  inversion H as [|? ? Hx Hn]; subst. constructor; [|now apply IH].
  intros Hin. apply Hx. apply in_or_app. now left.
Qed.

Lemma NoDup_app_snoc {A} (l : list A) h : NoDup l -> ~ In h l -> NoDup (l ++ [h]).
Proof.
  intros Nd Hn. eapply Permutation_NoDup; [|constructor; [exact Hn|exact Nd]].
  apply Permutation_cons_append.
Qed.

Definition held_list (s : st) : list Z := match held s with Some h => [h] | None => [] end.
Definition live (s : st) : list Z := rq s ++ held_list s.

(* no handle twice among queue + held; all of them are ids already allocated *)
Definition J (s : st) : Prop :=
  NoDup (live s) /\ (forall h, In h (live s) -> 0 <= h < next_id s).

(* s' follows s: ids only grow, J holds, and every live handle of s' was live in s
   or has been allocated since *)
Definition ext (s s' : st) : Prop :=
  next_id s <= next_id s' /\ J s' /\ (forall h, In h (live s') -> In h (live s) \/ next_id s <= h).

Lemma ext_refl s : J s -> ext s s.
Proof. intros Hj. split; [lia|]. split; auto. Qed.

Lemma ext_trans s1 s2 s3 : ext s1 s2 -> ext s2 s3 -> ext s1 s3.
Proof.
  intros (N1 & J2 & L1) (N2 & J3 & L2). split; [lia|]. split; [exact J3|].
  intros h Hh. destruct (L2 h Hh) as [H|H]; [|right; lia].
  destruct (L1 h H); auto.
Qed.

Lemma ext_J s s' : ext s s' -> J s'.
Proof. now intros (_ & Hj & _). Qed.

Lemma ext_sub (s s' : st) :
  hs s' = hs s -> NoDup (live s') -> incl (live s') (live s) -> J s -> ext s s'.
Proof.
  intros Eh Nd Inc (Nd0 & B). unfold ext, J, next_id. rewrite Eh. split; [lia|]. split.
  - split; auto.
  - intros h Hh. left. now apply Inc.
Qed.

Lemma ext_fresh (s s' : st) k :
  hs s' = hs s ++ [k] -> NoDup (live s') -> incl (live s') (next_id s :: live s) -> J s -> ext s s'.
Proof.
  intros Eh Nd Inc (Nd0 & B). unfold ext, J, next_id in *. rewrite Eh, app_length. simpl.
  split; [lia|]. split.
  - split; auto. intros h Hh. destruct (Inc h Hh) as [<-|H]; [lia|]. specialize (B h H). lia.
  - intros h Hh. destruct (Inc h Hh) as [<-|H]; [right; lia|now left].
Qed.

Lemma J_fresh_notin s : J s -> ~ In (next_id s) (live s).
Proof. intros (_ & B) Hin. specialize (B _ Hin). lia. Qed.

(* ---- primitives ---- *)
Lemma ext_logz s l : J s -> ext s (logz s l).
Proof. intros Hj. apply ext_sub; auto; [apply Hj|apply incl_refl]. Qed.
Lemma ext_logo s o : J s -> ext s (logo s o).
Proof. intros Hj. apply ext_sub; auto; [apply Hj|apply incl_refl]. Qed.
Lemma ext_set_ts s l : J s -> ext s (set_ts s l).
Proof. intros Hj. apply ext_sub; auto; [apply Hj|apply incl_refl]. Qed.
Lemma ext_set_evs s l : J s -> ext s (set_evs s l).
Proof. intros Hj. apply ext_sub; auto; [apply Hj|apply incl_refl]. Qed.
Lemma ext_set_task s t k d : J s -> ext s (set_task s t k d).
Proof. intros Hj. apply ext_set_ts; auto. Qed.

Lemma NoDup_perm_app (q q' r : list Z) : Permutation q' q -> NoDup (q ++ r) -> NoDup (q' ++ r).
Proof. intros P N. eapply Permutation_NoDup; [|exact N]. apply Permutation_app_tail. now symmetry. Qed.

Lemma ext_soon s k : J s -> ext s (fst (call_soon ListQ s k)).
Proof.
  intros Hj. rewrite call_soon_eq. cbn [fst]. eapply ext_fresh; [reflexivity| | |exact Hj].
  - unfold live, held_list. cbn [rq held].
    eapply Permutation_NoDup; [|apply (NoDup_cons (next_id s) (J_fresh_notin s Hj) (proj1 Hj))].
    unfold live, held_list. rewrite <- app_assoc. apply Permutation_cons_app. reflexivity.
  - unfold live, held_list. cbn [rq held]. intros h Hh.
    rewrite <- app_assoc in Hh. apply in_app_or in Hh as [H|H]; [right; apply in_or_app; auto|].
    simpl in H. destruct H as [<-|H]; [now left|right; apply in_or_app; auto].
Qed.

Lemma ext_pos s p k : J s -> ext s (fst (call_pos_ ListQ s p k)).
Proof.
  intros Hj. rewrite call_pos_eq. cbn [fst]. eapply ext_fresh; [reflexivity| | |exact Hj].
  - unfold live, held_list. cbn [rq held].
    eapply NoDup_perm_app; [symmetry; apply ins_at_perm|].
    simpl. constructor; [apply (J_fresh_notin s Hj)|apply Hj].
  - unfold live, held_list. cbn [rq held]. intros h Hh.
    apply in_app_or in Hh as [H|H].
    + eapply Permutation_in in H; [|symmetry; apply ins_at_perm].
      destruct H as [<-|H]; [now left|right; apply in_or_app; auto].
    + right; apply in_or_app; auto.
Qed.

Lemma ext_set_rq_perm s q' : Permutation q' (rq s) -> J s -> ext s (set_rq s q').
Proof.
  intros P Hj. apply ext_sub; auto.
  - unfold live, held_list. cbn [rq held set_rq]. eapply NoDup_perm_app; [exact P|apply Hj].
  - unfold live, held_list. cbn [rq held set_rq]. intros h Hh.
    apply in_app_or in Hh as [H|H]; apply in_or_app; [left; eapply Permutation_in; eauto|auto].
Qed.

Lemma task_reinsert_perm (s : st) t p :
  exists q', fst (task_reinsert ListQ s t p) = set_rq s q' /\ Permutation q' (rq s).
Proof.
  destruct (queue_find_spec Z.eqb Z.eqb_refl (rq s) (task_key s t) true)
    as [(Hn & _)|(a & h & b & E & Kh & Kb & _)].
  - rewrite (task_reinsert_absent s t p Hn). exists (rq s). now rewrite set_rq_same.
  - rewrite (task_reinsert_found s t p a h b E Kh Kb). cbn [fst]. eexists. split; [reflexivity|].
    rewrite E. etransitivity; [symmetry; apply ins_at_perm|]. apply Permutation_middle.
Qed.

Lemma ext_reins s t p : J s -> ext s (fst (task_reinsert ListQ s t p)).
Proof.
  intros Hj. destruct (task_reinsert_perm s t p) as (q' & -> & P). now apply ext_set_rq_perm.
Qed.

Lemma ext_yield s me k : J s -> ext s (yield_ ListQ s me k).
Proof.
  intros Hj. unfold yield_. eapply ext_trans; [apply ext_soon, Hj|].
  apply ext_set_task. eapply ext_J, ext_soon, Hj.
Qed.

Lemma ext_sleep_insert s me p k : J s -> ext s (sleep_insert_ ListQ s me p k).
Proof.
  intros Hj. unfold sleep_insert_. eapply ext_trans; [apply ext_pos, Hj|].
  apply ext_yield. eapply ext_J, ext_pos, Hj.
Qed.

Lemma ext_spawn s i : J s -> ext s (fst (spawn ListQ s i)).
Proof.
  intros Hj. unfold spawn. cbn [fst]. eapply ext_trans; [apply ext_set_ts, Hj|].
  apply ext_soon. eapply ext_J, ext_set_ts, Hj.
Qed.

Lemma ext_wake_all ws : forall s, J s -> ext s (wake_all ListQ s ws).
Proof.
  induction ws as [|w ws IH]; intros s Hj; [now apply ext_refl|].
  change (wake_all ListQ s (w :: ws)) with (wake_all ListQ (fst (call_soon ListQ s (HWakeup w))) ws).
  eapply ext_trans; [apply ext_soon, Hj|]. apply IH. eapply ext_J, ext_soon, Hj.
Qed.

(* the queue after find / remove is the old one or the old one minus one entry *)
Lemma find_shape (q : list Z) key rm :
  let '(r, q1) := qi_find ListQ q key rm in
  (r = None /\ q1 = q) \/ (exists a h b, q = a ++ h :: b /\ r = Some h /\ q1 = if rm then a ++ b else q).
Proof.
  destruct (queue_find_spec Z.eqb Z.eqb_refl q key rm) as [(_ & E)|(a & h & b & E0 & _ & _ & E)];
    cbn [qi_find ListQ]; rewrite E; cbn [out_val out_deque].
  - now left.
  - right. exists a, h, b. auto.
Qed.

Lemma remove_shape (q : list Z) h :
  let '(ok, q1) := qi_remove ListQ q h in
  (ok = false /\ q1 = q) \/ (exists a b, q = a ++ h :: b /\ ok = true /\ q1 = a ++ b).
Proof.
  destruct (queue_remove_spec Z.eqb Z.eqb_refl Zeqb_eq' q h) as [(_ & E)|(a & b & E0 & _ & E)];
    cbn [qi_remove ListQ]; rewrite E; cbn [out_ok out_deque].
  - now left.
  - right. exists a, b. auto.
Qed.

(* taking h out of the queue into the held slot (whatever was held is dropped) *)
Lemma ext_take s a h b :
  rq s = a ++ h :: b -> J s -> ext s (set_held (set_rq s (a ++ b)) (Some h)).
Proof.
  intros E Hj. apply ext_sub; auto.
  - unfold live, held_list. cbn [rq held set_held set_rq].
    destruct Hj as (Nd & _). unfold live in Nd. rewrite E in Nd. apply NoDup_app_l in Nd.
    eapply Permutation_NoDup; [|exact Nd].
    etransitivity; [symmetry; apply Permutation_middle|]. apply Permutation_cons_append.
  - unfold live, held_list. cbn [rq held set_held set_rq]. rewrite E. intros x Hx.
    apply in_or_app. left. apply in_app_or in Hx as [Hx|[<-|[]]].
    + apply in_app_or in Hx as [Hx|Hx]; apply in_or_app; simpl; auto.
    + apply in_or_app; simpl; auto.
Qed.

Lemma ext_drop s a h b :
  rq s = a ++ h :: b -> J s -> ext s (set_rq s (a ++ b)).
Proof.
  intros E Hj. apply ext_sub; auto.
  - unfold live, held_list. cbn [rq held set_rq].
    destruct Hj as (Nd & _). unfold live in Nd. rewrite E, <- app_assoc in Nd. simpl in Nd.
    apply NoDup_remove_1 in Nd. now rewrite <- app_assoc.
  - unfold live. cbn [rq held set_rq]. unfold held_list. cbn [held set_rq]. rewrite E. intros x Hx.
    apply in_app_or in Hx as [Hx|Hx]; apply in_or_app; auto.
    left. apply in_app_or in Hx as [Hx|Hx]; apply in_or_app; simpl; auto.
Qed.

(* ready_insert(held) *)
Lemma ext_put s h :
  held s = Some h -> J s -> ext s (set_held (set_rq s (qi_append ListQ (rq s) h)) None).
Proof.
  intros E Hj. apply ext_sub; auto.
  - unfold live, held_list. cbn [rq held set_held set_rq qi_append ListQ append]. rewrite app_nil_r.
    destruct Hj as (Nd & _). unfold live, held_list in Nd. now rewrite E in Nd.
  - unfold live, held_list. cbn [rq held set_held set_rq qi_append ListQ append]. rewrite app_nil_r, E.
    apply incl_refl.
Qed.

(* ---- a whole task step ---- *)
Ltac chain H := eapply ext_trans; [apply H|].

Lemma exec_ext me ops : forall s, J s -> ext s (exec_ops ListQ me ops s).
Proof.
  induction ops as [|o k IH]; intros s Hj.
  - cbn [exec_ops]. eapply ext_trans; [apply ext_logz, Hj|].
    apply ext_set_task. eapply ext_J, ext_logz, Hj.
  - assert (TL : forall s' l, ext s s' -> ext s (exec_ops ListQ me k (logz s' l))).
    { intros s' l He. eapply ext_trans; [exact He|]. eapply ext_trans; [apply ext_logz, (ext_J _ _ He)|].
      apply IH. eapply ext_J, ext_logz, (ext_J _ _ He). }
    destruct o as [ |p|t ip|t p|p n|n|p t q|i|i|i|t rm|t| | |e|e| ]; cbn [exec_ops].
    + (* OSleep *) eapply ext_trans; [apply ext_logz, Hj|]. apply ext_yield. eapply ext_J, ext_logz, Hj.
    + (* OSleepInsert *) eapply ext_trans; [apply ext_logz, Hj|]. apply ext_sleep_insert. eapply ext_J, ext_logz, Hj.
    + (* OSwitch *)
      set (s0 := logz s _). assert (H0 : ext s s0) by apply ext_logz, Hj.
      destruct (Nat.ltb t (length (ts s0))); [|now apply TL].
      pose proof (ext_reins s0 t 0 (ext_J _ _ H0)) as H1.
      destruct (task_reinsert ListQ s0 t 0) as [s1 ok]. cbn [fst] in H1.
      assert (H01 : ext s s1) by exact (ext_trans _ _ _ H0 H1).
      destruct ok; [|now apply TL].
      destruct ip.
      * eapply ext_trans; [exact H01|]. apply ext_sleep_insert, (ext_J _ _ H01).
      * eapply ext_trans; [exact H01|]. apply ext_yield, (ext_J _ _ H01).
    + (* OReinsert *)
      set (s0 := logz s _). assert (H0 : ext s s0) by apply ext_logz, Hj.
      destruct (Nat.ltb t (length (ts s0))); [|now apply TL].
      pose proof (ext_reins s0 t p (ext_J _ _ H0)) as H1.
      destruct (task_reinsert ListQ s0 t p) as [s1 ok]. cbn [fst] in H1.
      assert (H01 : ext s s1) by exact (ext_trans _ _ _ H0 H1).
      destruct ok; now apply TL.
    + (* OCallPos *)
      set (s0 := logz s _). assert (H0 : ext s s0) by apply ext_logz, Hj.
      pose proof (ext_pos s0 p (HCb n) (ext_J _ _ H0)) as H1.
      destruct (call_pos_ ListQ s0 p (HCb n)) as [s1 h]. cbn [fst] in H1.
      apply TL. exact (ext_trans _ _ _ H0 H1).
    + (* OCallSoon *)
      set (s0 := logz s _). assert (H0 : ext s s0) by apply ext_logz, Hj.
      pose proof (ext_soon s0 (HCb n) (ext_J _ _ H0)) as H1.
      destruct (call_soon ListQ s0 (HCb n)) as [s1 h]. cbn [fst] in H1.
      apply TL. exact (ext_trans _ _ _ H0 H1).
    + (* OCallPosReins *)
      set (s0 := logz s _). assert (H0 : ext s s0) by apply ext_logz, Hj.
      destruct (Nat.ltb t (length (ts s0))); [|now apply TL].
      pose proof (ext_pos s0 p (HReins t q) (ext_J _ _ H0)) as H1.
      destruct (call_pos_ ListQ s0 p (HReins t q)) as [s1 h]. cbn [fst] in H1.
      apply TL. exact (ext_trans _ _ _ H0 H1).
    + (* OCreate *)
      set (s0 := logz s _). assert (H0 : ext s s0) by apply ext_logz, Hj.
      destruct (Nat.ltb i (length (prog s0))); [|now apply TL].
      pose proof (ext_spawn s0 i (ext_J _ _ H0)) as H1.
      destruct (spawn ListQ s0 i) as [s2 t]. cbn [fst] in H1.
      apply TL. exact (ext_trans _ _ _ H0 H1).
    + (* ODescend *)
      set (s0 := logz s _). assert (H0 : ext s s0) by apply ext_logz, Hj.
      destruct (Nat.ltb i (length (prog s0))); [|now apply TL].
      pose proof (ext_spawn s0 i (ext_J _ _ H0)) as H1.
      destruct (spawn ListQ s0 i) as [s2 t]. cbn [fst] in H1.
      assert (H02 : ext s s2) by exact (ext_trans _ _ _ H0 H1).
      pose proof (ext_reins s2 t 0 (ext_J _ _ H02)) as H2.
      destruct (task_reinsert ListQ s2 t 0) as [s3 ok]. cbn [fst] in H2.
      assert (H03 : ext s s3) by exact (ext_trans _ _ _ H02 H2).
      destruct ok; [|now apply TL].
      eapply ext_trans; [exact H03|]. apply ext_sleep_insert, (ext_J _ _ H03).
    + (* OStart *)
      set (s0 := logz s _). assert (H0 : ext s s0) by apply ext_logz, Hj.
      destruct (Nat.ltb i (length (prog s0))); [|now apply TL].
      pose proof (ext_spawn s0 i (ext_J _ _ H0)) as H1.
      destruct (spawn ListQ s0 i) as [s2 t]. cbn [fst] in H1.
      assert (H02 : ext s s2) by exact (ext_trans _ _ _ H0 H1).
      eapply ext_trans; [exact H02|]. apply ext_yield, (ext_J _ _ H02).
    + (* OFind *)
      set (s0 := logz s _). assert (H0 : ext s s0) by apply ext_logz, Hj.
      destruct (Nat.ltb t (length (ts s0))); [|now apply TL].
      pose proof (find_shape (rq s0) (task_key s0 t) rm) as Hf.
      destruct (qi_find ListQ (rq s0) (task_key s0 t) rm) as [r q1].
      destruct Hf as [(-> & ->)|(a & h & b & E & -> & ->)].
      * apply TL. rewrite set_rq_same. exact H0.
      * destruct rm.
        -- apply TL. eapply ext_trans; [exact H0|]. now apply ext_take, (ext_J _ _ H0).
        -- apply TL. rewrite set_rq_same. exact H0.
    + (* ORemove *)
      set (s0 := logz s _). assert (H0 : ext s s0) by apply ext_logz, Hj.
      destruct (Nat.ltb t (length (ts s0))); [|now apply TL].
      pose proof (find_shape (rq s0) (task_key s0 t) false) as Hf.
      destruct (qi_find ListQ (rq s0) (task_key s0 t) false) as [r q1].
      destruct Hf as [(-> & ->)|(a & h & b & E & -> & ->)].
      * apply TL. rewrite set_rq_same. exact H0.
      * rewrite set_rq_same.
        pose proof (remove_shape (rq s0) h) as Hr.
        destruct (qi_remove ListQ (rq s0) h) as [ok q2].
        destruct Hr as [(-> & ->)|(a' & b' & E' & -> & ->)].
        -- apply TL. rewrite set_rq_same. exact H0.
        -- apply TL. eapply ext_trans; [exact H0|]. now apply ext_take, (ext_J _ _ H0).
    + (* ORemoveHeld *)
      set (s0 := logz s _). assert (H0 : ext s s0) by apply ext_logz, Hj.
      destruct (held s0) as [h|]; [|now apply TL].
      pose proof (remove_shape (rq s0) h) as Hr.
      destruct (qi_remove ListQ (rq s0) h) as [ok q2].
      destruct Hr as [(-> & ->)|(a' & b' & E' & -> & ->)].
      * apply TL. rewrite set_rq_same. exact H0.
      * apply TL. eapply ext_trans; [exact H0|]. now apply (ext_drop _ _ _ _ E'), (ext_J _ _ H0).
    + (* OInsert *)
      set (s0 := logz s _). assert (H0 : ext s s0) by apply ext_logz, Hj.
      destruct (held s0) as [h|] eqn:Eh; [|now apply TL].
      apply TL. eapply ext_trans; [exact H0|]. now apply ext_put, (ext_J _ _ H0).
    + (* OWait *)
      set (s0 := logz s _). assert (H0 : ext s s0) by apply ext_logz, Hj.
      destruct (nth_error (evs s0) e) as [[[|] ws]|]; [| |now apply TL].
      * eapply ext_trans; [exact H0|]. apply IH, (ext_J _ _ H0).
      * eapply ext_trans; [exact H0|]. eapply ext_trans; [apply ext_set_evs, (ext_J _ _ H0)|].
        apply ext_set_task. eapply ext_J, ext_set_evs, (ext_J _ _ H0).
    + (* OSet *)
      set (s0 := logz s _). assert (H0 : ext s s0) by apply ext_logz, Hj.
      destruct (nth_error (evs s0) e) as [[[|] ws]|]; [| |now apply TL].
      * eapply ext_trans; [exact H0|]. apply IH, (ext_J _ _ H0).
      * assert (H1 : ext s (set_evs s0 (set_nth (evs s0) e (true, [])))).
        { eapply ext_trans; [exact H0|]. apply ext_set_evs, (ext_J _ _ H0). }
        assert (H2 : ext s (wake_all ListQ (set_evs s0 (set_nth (evs s0) e (true, []))) ws)).
        { eapply ext_trans; [exact H1|]. apply ext_wake_all, (ext_J _ _ H1). }
        eapply ext_trans; [exact H2|]. apply IH, (ext_J _ _ H2).
    + (* OItems *)
      cbn [qi_items ListQ].
      assert (H1 : ext s (logo (set_rq (logz s [17; zn me]) (rq s)) (OL [OI 91; olist OI (rq s)]))).
      { eapply ext_trans; [apply ext_logz, Hj|].
        change (rq s) with (rq (logz s [17; zn me])) at 1. rewrite set_rq_same.
        apply ext_logo. eapply ext_J, ext_logz, Hj. }
      eapply ext_trans; [exact H1|]. apply IH, (ext_J _ _ H1).
Qed.

(* ---- one handle ---- *)
Lemma run_one_ext (s s' : st) h :
  J s -> run_one ListQ s = Some (h, s') ->
  exists q', rq s = h :: q' /\ ~ In h (live s') /\ J s' /\
             (forall x, In x (live s') -> In x (live s) \/ next_id s <= x) /\
             next_id s <= next_id s'.
Proof.
  intros Hj. unfold run_one. cbn [qi_popleft ListQ]. destruct (rq s) as [|x q'] eqn:E; simpl; [discriminate|].
  intros [= <- <-]. exists q'. split; [reflexivity|].
  set (sp := mkSt q' (hs s) (ts s) (evs s) (held s) [] (errs s) (prog s)).
  assert (Hsp : ext s sp /\ ~ In x (live sp)).
  { destruct Hj as (Nd & B). unfold live in *. rewrite E in *. split.
    - apply ext_sub; [reflexivity| | |].
      + unfold live. cbn [rq held sp]. unfold held_list. cbn [held]. now inversion Nd.
      + unfold live, held_list. cbn [rq held sp]. rewrite E. intros y Hy. simpl. auto.
      + split; unfold live; rewrite E; auto.
    - cbn [rq sp]. unfold held_list. cbn [held]. now inversion Nd. }
  destruct Hsp as (Hsp & Hnx).
  assert (Hx : x < next_id s).
  { destruct Hj as (_ & B). apply B. unfold live. rewrite E. simpl. auto. }
  assert (Hrun : ext sp (run_handle ListQ sp x)).
  { unfold run_handle. destruct (x <? 0); [apply ext_refl, (ext_J _ _ Hsp)|].
    destruct (nth_error (hs sp) (Z.to_nat x)) as [[t|t|n|t p]|].
    - unfold run_task. destruct (nth_error (ts sp) t) as [[ops [|]]|];
        try apply ext_refl, (ext_J _ _ Hsp). apply exec_ext, (ext_J _ _ Hsp).
    - unfold run_task. destruct (nth_error (ts sp) t) as [[ops [|]]|];
        try apply ext_refl, (ext_J _ _ Hsp). apply exec_ext, (ext_J _ _ Hsp).
    - apply ext_logz, (ext_J _ _ Hsp).
    - pose proof (ext_reins sp t p (ext_J _ _ Hsp)) as H1.
      destruct (task_reinsert ListQ sp t p) as [s1 [|]]; cbn [fst] in H1; [exact H1|].
      eapply ext_trans; [exact H1|]. apply ext_sub; [reflexivity|apply (ext_J _ _ H1)|apply incl_refl|apply (ext_J _ _ H1)].
    - apply ext_refl, (ext_J _ _ Hsp). }
  pose proof (ext_trans _ _ _ Hsp Hrun) as (Nf & Jf & Lf).
  split; [|split; [exact Jf|split; [exact Lf|exact Nf]]].
  intros Hin. destruct Hrun as (_ & _ & L). destruct (L x Hin) as [H|H]; [now apply Hnx|].
  unfold next_id in *. cbn [hs sp] in H. lia.
Qed.

(* ---- whole runs ---- *)
Fixpoint run_trace (fuel : nat) (s : st) : list Z * st :=
  match fuel with
  | O => ([], s)
  | S f => match run_one ListQ s with
           | None => ([], s)
           | Some (h, s') => let '(tr, sf) := run_trace f s' in (h :: tr, sf)
           end
  end.

(* executed handles are never live again, and never executed again *)
Lemma run_trace_inv fuel : forall s dead,
  J s -> (forall h, In h dead -> h < next_id s /\ ~ In h (live s)) -> NoDup dead ->
  let '(tr, sf) := run_trace fuel s in
  NoDup (dead ++ tr) /\ J sf /\ (forall h, In h (dead ++ tr) -> ~ In h (live sf)).
Proof.
  induction fuel as [|f IH]; intros s dead Hj Hd Nd; simpl.
  - rewrite app_nil_r. split; [exact Nd|]. split; [exact Hj|]. intros h Hh. now apply Hd.
  - destruct (run_one ListQ s) as [[h s']|] eqn:R.
    2:{ rewrite app_nil_r. split; [exact Nd|]. split; [exact Hj|]. intros h Hh. now apply Hd. }
    destruct (run_one_ext s s' h Hj R) as (q' & E & Hnot & Jf & Lf & Hid).
    assert (Hlive : In h (live s)) by (unfold live; rewrite E; simpl; auto).
    assert (Hnd : ~ In h dead) by (intros Hin; now apply (Hd h Hin)).
    specialize (IH s' (dead ++ [h]) Jf).
    destruct (run_trace f s') as [tr sf].
    rewrite <- app_assoc in IH. simpl in IH. apply IH.
    + intros x Hx. apply in_app_or in Hx as [Hx|[<-|[]]].
      * destruct (Hd x Hx) as (Hlt & Hnl). split; [lia|].
        intros Hin. destruct (Lf x Hin); [contradiction|lia].
      * split; [|exact Hnot]. destruct Hj as (_ & B). specialize (B h Hlive). lia.
    + apply NoDup_app_snoc; auto.
Qed.

Lemma J_init_fold mains : forall s, J s -> J (fold_left (fun s i => fst (spawn ListQ s i)) mains s).
Proof.
  induction mains as [|i l IH]; intros s Hj; simpl; [exact Hj|].
  apply IH. eapply ext_J, ext_spawn, Hj.
Qed.

Lemma J_init scripts nev mains : J (init ListQ scripts nev mains).
Proof.
  unfold init. apply J_init_fold. split.
  - constructor.
  - intros h [].
Qed.

(* C08_exactly_once, from any state satisfying J (in particular any initial state):
   in a run of any length the executed handles are pairwise distinct (none runs
   twice), at the end no handle is in the queue / held slot twice, and no executed
   handle is queued or held again.  Together with [ext] (a live handle was live
   before or is newly allocated) this says: a handle appended to the queue is
   executed at most once, and until then it only moves between the queue and the
   held slot as the same handle. *)
Theorem exactly_once_from (s : st) (fuel : nat) :
  J s ->
  let '(tr, sf) := run_trace fuel s in
  NoDup tr /\ NoDup (rq sf ++ held_list sf) /\
  (forall h, In h tr -> ~ In h (rq sf ++ held_list sf)) /\
  (forall h, In h (rq sf ++ held_list sf) -> 0 <= h < next_id sf).
Proof.
  intros Hj.
  assert (Hd : forall h, In h [] -> h < next_id s /\ ~ In h (live s)) by (intros h []).
  pose proof (run_trace_inv fuel s [] Hj Hd (NoDup_nil Z)) as H.
  destruct (run_trace fuel s) as [tr sf]. simpl in H.
  destruct H as (Nd & (Ndl & B) & Hn).
  split; [exact Nd|]. split; [exact Ndl|]. split; [exact Hn|exact B].
Qed.

Theorem exactly_once scripts nev mains fuel :
  let '(tr, sf) := run_trace fuel (init ListQ scripts nev mains) in
  NoDup tr /\ NoDup (rq sf ++ held_list sf) /\
  (forall h, In h tr -> ~ In h (rq sf ++ held_list sf)) /\
  (forall h, In h (rq sf ++ held_list sf) -> 0 <= h < next_id sf).
Proof. apply exactly_once_from, J_init. Qed.

(* the trace of run_trace is the sequence of handles reported by the observed run *)
Lemma run_trace_steps fuel : forall s,
  length (run_steps ListQ fuel s) = length (fst (run_trace fuel s)).
Proof.
  induction fuel as [|f IH]; intros s; simpl; [reflexivity|].
  destruct (run_one ListQ s) as [[h s']|]; [|reflexivity].
  specialize (IH s'). destruct (run_trace f s') as [tr sf]. simpl in *. now rewrite IH.
Qed.

(* non-vacuity: a run in which a handle is taken out, held, re-inserted and then runs once *)
Example exactly_once_example :
  fst (run_trace 12 (init ListQ [[OSleep; OFind 1 true; OSleep; OInsert; OSleep]; [OSleep; OSleep]] 1 [0; 1]%nat))
  = [0; 1; 2; 4; 3; 5; 6].
Proof. vm_compute. reflexivity. Qed.
