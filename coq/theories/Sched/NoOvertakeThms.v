(* C12, last sentence, as a HISTORY theorem over runs of the scheduler model:
   "A waiter is never overtaken by a waiter that was strictly less urgent during the whole
    time both were waiting."

   A run is an action list from an initial state; [tr s0 acts k] is the state after the first
   k actions.  Vocabulary:
     queued_at s l f q    lock l's waiter heap has an entry for future f with arrival number q
     waits_at s l f q     ... and f is still pending (the waiter has not been served/cancelled)
     waits_through        waits_at in every state k of a window [i, j]
     granted_at tr l f k  action k hands lock l over to the waiter with future f: f is queued on
                          l before and after the action and goes from pending to "woken"
                          (holds a result: what _wake_up_first does; by C13_at_most_one_woken at
                          most one such waiter exists, the lock has no owner, and by
                          C13_take_lock_only_when_free that waiter's _take_lock succeeds)
     waiter_prio s l f    the effective priority (0 for a plain task) of the task recorded for
                          waiter future f of lock l. *)
From Coq Require Import QArith Lqa Sorting.Permutation.
From RecordUpdate Require Import RecordUpdate.
From Asynkit Require Import Base.Prelude Queue.PQ Queue.Order Queue.PQProofs Queue.PosPQ Queue.Exec
  Sched.Model Sched.Tables Sched.QFacts Sched.LockInv Sched.Footprint Sched.LockOps Sched.LockLib
  Sched.LockProofs Sched.LockThms Sched.InheritEprio Sched.InheritHandover Sched.WaitInv Sched.WaitProofs
  Sched.WaitThms Sched.NoOvertakeRel Sched.NoOvertakePass.
Import RecordSetNotations.
Open Scope nat_scope.

(* ------------------------------------------------------------ one action *)
Lemma nodup_map_inj {A B} (f : A -> B) (xs : list A) x y :
  NoDup (map f xs) -> In x xs -> In y xs -> f x = f y -> x = y.
Proof.
  induction xs as [|z xs IH]; simpl; intros Hn Hx Hy E; [destruct Hx|].
  inversion Hn as [|? ? Hni Hn']; subst.
  destruct Hx as [->|Hx]; destruct Hy as [->|Hy]; auto.
  - exfalso. apply Hni. rewrite E. now apply in_map.
  - exfalso. apply Hni. rewrite <- E. now apply in_map.
Qed.

(* The side condition under which the stored keys of the state BEFORE an action are the keys the
   hand-over of that action goes by.  Since the repair of F16 the `finally` of acquire() - the
   first thing a resumed waiter executes - may re-key entries of l (owning.propagate_priority up
   the holder chain) before the same task, later in the same step, releases l.  That needs a task
   that holds l and was itself suspended in acquire(): a waits-for cycle through l broken by a
   cancellation (NoOvertakeExample.v, [cyc_*]).  [holder_free s l]: the holder of l is not
   queued on any PriorityLock.  [calmf] is the same in terms of suspended frames. *)
Definition holder_free (s : st) (l : nat) : Prop :=
  forall o l0 f, lowner (getl s l) = Some o -> ~ In (f, o) (lwt (getl s l0)).
Definition calmf (s : st) (l : nat) : Prop :=
  forall t, lowner (getl s l) = Some t -> ~ acqfr (tframes s t).

(* the hand-over clause across a whole action *)
Theorem pp3_no_overtake l s s' ea eb :
  Inv s -> pp3 l s s' -> calmf s l ->
  In ea (qa l s) -> In eb (qa l s) ->
  In (fo ea) (objs s' l) -> In (fo eb) (objs s' l) ->
  woken s (fo eb) = false -> woken s' (fo eb) = true -> fdone s' (fo ea) = false ->
  entry_lt qltb eb ea = true.
Proof.
  intros I (m & B & [A|(t & m0 & F & R & [A O])]) Hc Ha Hb Ha' Hb' W0 W1 Da.
  - pose proof (p_len _ _ _ A) as Lm.
    assert (Hra : fo ea < nf s) by (apply (Inv_bound s I l); now apply in_objs_qa).
    assert (Hrb : fo eb < nf s) by (apply (Inv_bound s I l); now apply in_objs_qa).
    assert (Wm : woken m (fo eb) = true) by (apply (q_wok _ _ _ B); auto; lia).
    assert (Dm : fdone m (fo ea) = false).
    { destruct (fdone m (fo ea)) eqn:D; auto. apply (q_done _ _ _ B) in D. congruence. }
    assert (Hnd : NoDup (map fo (qa l s))).
    { destruct (iB1 I l) as (_ & Hn & _). exact Hn. }
    assert (Hin : forall e, In e (qa l s) -> In (fo e) (objs s' l) -> In e (qa l m)).
    { intros e He He'. destruct (q_objs _ _ _ B _ He') as [H|H].
      - rewrite objs_qa in H. apply in_map_iff in H as (e' & E & He2).
        pose proof (p_sub _ _ _ A _ He2) as He3.
        assert (e' = e) by (eapply nodup_map_inj; eauto). now subst e'.
      - assert (fo e < nf s) by (apply (Inv_bound s I l); now apply in_objs_qa). lia. }
    apply (p_min _ _ _ A); auto.
  - (* entries of l were re-keyed by the `finally` of task t's acquire(): then no waiter of l is
       woken in this action, because t would have to hold l *)
    exfalso.
    pose proof (r_len _ _ _ R) as L0. pose proof (p_len _ _ _ A) as Lm.
    assert (Hrb : fo eb < nf s) by (apply (Inv_bound s I l); now apply in_objs_qa).
    assert (Wm : woken m (fo eb) = true) by (apply (q_wok _ _ _ B); auto; lia).
    destruct (q_objs _ _ _ B _ Hb') as [H|H]; [|lia].
    rewrite objs_qa in H. apply in_map_iff in H as (e' & E & He').
    pose proof (p_sub _ _ _ A _ He') as He0.
    destruct (woken m0 (fo e')) eqn:W.
    + apply (r_wok _ _ _ R) in W; [|now apply in_objs_qa]. rewrite E in W. congruence.
    + assert (Ho : lowner (getl m0 l) = Some t).
      { apply (o_own _ _ _ _ O e'); auto. now rewrite E. }
      rewrite (r_own _ _ _ R) in Ho. exact (Hc t Ho F).
Qed.

Theorem action_no_overtake l s a ea eb :
  Inv s -> action_ok s a -> action_ne s a -> calmf s l ->
  In ea (qa l s) -> In eb (qa l s) ->
  In (fo ea) (objs (do_action s a) l) -> In (fo eb) (objs (do_action s a) l) ->
  woken s (fo eb) = false -> woken (do_action s a) (fo eb) = true ->
  fdone (do_action s a) (fo ea) = false ->
  entry_lt qltb eb ea = true.
Proof.
  intros I Hok Hne Hc. apply pp3_no_overtake; auto. now apply do_action_pp.
Qed.

(* ------------------------------------------------------------ runs *)
Definition tr (s0 : st) (acts : list action) (k : nat) : st := fold_left do_action (firstn k acts) s0.

Lemma tr_step : forall k acts s0, k < length acts ->
  exists a, tr s0 acts (S k) = do_action (tr s0 acts k) a /\
            (run_ok s0 acts -> action_ok (tr s0 acts k) a) /\
            (run_ne s0 acts -> action_ne (tr s0 acts k) a).
Proof.
  induction k as [|k IH]; intros [|a0 rest] s0 Hk; simpl in Hk; try lia.
  - exists a0. split; [reflexivity|]. split; intros H; apply H.
  - destruct (IH rest (do_action s0 a0) ltac:(lia)) as (a & E & H1 & H2).
    exists a. split; [exact E|]. split; intros H; [apply H1|apply H2]; apply H.
Qed.

Lemma tr_inv : forall k acts s0, Inv s0 -> run_ok s0 acts -> Inv (tr s0 acts k).
Proof.
  induction k as [|k IH]; intros [|a0 rest] s0 I Hok; try exact I.
  destruct Hok as [Ha Hr]. change (tr s0 (a0 :: rest) (S k)) with (tr (do_action s0 a0) rest k).
  apply IH; auto. apply (ext_inv _ _ (do_action_ext s0 a0 I Ha)).
Qed.

Lemma tr_run : forall k acts s0, run_ok s0 acts -> run_ne s0 acts ->
  run_ok s0 (firstn k acts) /\ run_ne s0 (firstn k acts).
Proof.
  induction k as [|k IH]; intros [|a0 rest] s0 Hok Hne; simpl; auto.
  destruct Hok as [A1 A2]. destruct Hne as [B1 B2]. destruct (IH rest _ A2 B2). auto.
Qed.

Definition queued_at (s : st) (l f : nat) (q : Z) : Prop :=
  exists e, In e (qa l s) /\ fo e = f /\ eseq e = q.
Definition waits_at (s : st) (l f : nat) (q : Z) : Prop := queued_at s l f q /\ fdone s f = false.
Definition waits_through (tr : nat -> st) (l f : nat) (q : Z) (i j : nat) : Prop :=
  forall k, i <= k <= j -> waits_at (tr k) l f q.
Definition granted_at (tr : nat -> st) (l f : nat) (k : nat) : Prop :=
  In f (objs (tr k) l) /\ In f (objs (tr (S k)) l) /\
  fdone (tr k) f = false /\ woken (tr (S k)) f = true.

Lemma pending_not_woken s f : fdone s f = false -> woken s f = false.
Proof. unfold fdone, woken. destruct (fstate_ (getf s f)); auto; discriminate. Qed.
Definition waiter_prio (s : st) (l f : nat) : Q := wprio s (task_of_fut (getl s l) f).

Lemma queued_objs s l f q : queued_at s l f q -> In f (objs s l).
Proof. intros (e & He & <- & _). now apply in_objs_qa. Qed.

Section Run.
  Variables (prio_loop : bool) (factor : Q) (draws : list Q) (lks : list lkind)
            (cds : list (ckind * nat)) (nev : nat) (acts : list action).
  Let s0 := init_st prio_loop factor draws lks cds nev.
  Let T := tr s0 acts.
  Hypothesis Hok : run_ok s0 acts.
  Hypothesis Hne : run_ne s0 acts.

  Lemma T_inv k : Inv (T k).
  Proof. apply tr_inv; auto. apply Inv_init. Qed.

  Lemma T_reach k : reachable_ne (T k).
  Proof.
    destruct (tr_run k acts s0 Hok Hne) as [A B].
    exists prio_loop, factor, draws, lks, cds, nev, (firstn k acts). auto.
  Qed.

  Lemma holder_free_calm l k : holder_free (T k) l -> calmf (T k) l.
  Proof.
    intros H t Ho (l0 & f & had & Hin). pose proof (reachable_ne_WInv _ (T_reach k)) as W.
    destruct (w_frame W t l0 f had (or_introl Hin)) as (u & Hu & _ & _ & Hn).
    rewrite (Hn eq_refl) in Hu. exact (H t l0 f Ho Hu).
  Qed.

  (* the step: if action k hands l over to b while a is waiting before and after, then b's entry
     is (key, arrival)-less than a's, keys and arrival numbers as queued before the action -
     provided the holder of l is not itself queued on a PriorityLock in that state *)
  Theorem no_overtake_keys l fa fb k ea eb :
    k < length acts -> holder_free (T k) l ->
    In ea (qa l (T k)) -> fo ea = fa -> In eb (qa l (T k)) -> fo eb = fb ->
    In fa (objs (T (S k)) l) -> fdone (T (S k)) fa = false ->
    granted_at T l fb k ->
    (epri eb < epri ea)%Q \/ ((epri eb == epri ea)%Q /\ (eseq eb < eseq ea)%Z).
  Proof.
    intros Hk HF Ha Efa Hb Efb Ha' Da (_ & Hb' & D0 & W1). subst fa fb.
    pose proof (pending_not_woken _ _ D0) as W0.
    destruct (tr_step k acts s0 Hk) as (a & E & A1 & A2). fold T in E, A1, A2.
    apply elt_q_true. apply (action_no_overtake l (T k) a ea eb); auto; try (rewrite <- E; auto).
    - apply T_inv.
    - now apply holder_free_calm.
  Qed.

  (* ... hence, when the keys of the live entries are the current effective priorities
     ([keyed], the domain of C12), b was at least as urgent as a at that moment, and if
     equally urgent it had arrived earlier *)
  Theorem no_overtake_step l fa qa_ fb qb k :
    k < length acts -> holder_free (T k) l -> keyed (T k) l ->
    waits_at (T k) l fa qa_ -> waits_at (T (S k)) l fa qa_ ->
    queued_at (T k) l fb qb -> granted_at T l fb k ->
    (waiter_prio (T k) l fb < waiter_prio (T k) l fa)%Q \/
    ((waiter_prio (T k) l fb == waiter_prio (T k) l fa)%Q /\ (qb < qa_)%Z).
  Proof.
    intros Hk HF K [(ea & Ha & Efa & Eqa) Da0] [Qa' Da1] (eb & Hb & Efb & Eqb) G.
    pose proof (no_overtake_keys l fa fb k ea eb Hk HF Ha Efa Hb Efb (queued_objs _ _ _ _ Qa') Da1 G) as H.
    assert (La : live (T k) ea) by (unfold live; fold (fo ea); now rewrite Efa).
    assert (Lb : live (T k) eb).
    { unfold live. fold (fo eb). rewrite Efb. apply G. }
    pose proof (K _ Ha La) as Ka. pose proof (K _ Hb Lb) as Kb.
    unfold waiter_prio. unfold entry_task in Ka, Kb. fold (fo ea) in Ka. fold (fo eb) in Kb.
    rewrite Efa in Ka. rewrite Efb in Kb. rewrite <- Eqa, <- Eqb.
    destruct H as [H|[H1 H2]]; [left|right; split; auto]; lra.
  Qed.

  (* THE HISTORY THEOREM.  Let a (future fa, arrival number qa_) wait on l in every state of the
     window [i, j+1].  If in every state k of [i, j] in which b (future fb) is queued on l, b is
     strictly less urgent than a (greater effective priority value), then no action of the window
     hands l over to b.  [keyed] in the states of the window is the domain condition of C12
     (keys = current effective priorities; violated only after a waiter's priority became LESS
     urgent, observation O16). *)
  Theorem no_overtake l fa qa_ fb i j :
    j < length acts ->
    waits_through T l fa qa_ i (S j) ->
    (forall k, i <= k <= j -> holder_free (T k) l) ->
    (forall k, i <= k <= j -> keyed (T k) l) ->
    (forall k, i <= k <= j -> In fb (objs (T k) l) ->
               (waiter_prio (T k) l fa < waiter_prio (T k) l fb)%Q) ->
    forall k, i <= k <= j -> ~ granted_at T l fb k.
  Proof.
    intros Hj Wa HF K Hlt k Hk G.
    assert (Hq : In fb (objs (T k) l)) by apply G.
    pose proof Hq as Hq'. rewrite objs_qa in Hq'. apply in_map_iff in Hq' as (eb & Efb & Hb).
    assert (Qb : queued_at (T k) l fb (eseq eb)) by (exists eb; auto).
    pose proof (no_overtake_step l fa qa_ fb (eseq eb) k ltac:(lia) (HF k Hk) (K k Hk)
                  (Wa k ltac:(lia)) (Wa (S k) ltac:(lia)) Qb G) as H.
    specialize (Hlt k Hk Hq). destruct H as [H|[H _]]; lra.
  Qed.

  (* equal priorities: grants follow arrival order.  If a arrived before b (qa_ < qb) and both are
     equally urgent in every state of the window in which b is queued, b is not granted l while a
     waits. *)
  Theorem fifo_among_equals l fa qa_ fb qb i j :
    j < length acts ->
    waits_through T l fa qa_ i (S j) ->
    (forall k, i <= k <= j -> holder_free (T k) l) ->
    (forall k, i <= k <= j -> keyed (T k) l) ->
    (qa_ < qb)%Z ->
    (forall k, i <= k <= j -> queued_at (T k) l fb qb ->
               (waiter_prio (T k) l fa == waiter_prio (T k) l fb)%Q) ->
    forall k, i <= k <= j -> queued_at (T k) l fb qb -> ~ granted_at T l fb k.
  Proof.
    intros Hj Wa HF K Hseq Heq k Hk Qb G.
    pose proof (no_overtake_step l fa qa_ fb qb k ltac:(lia) (HF k Hk) (K k Hk)
                  (Wa k ltac:(lia)) (Wa (S k) ltac:(lia)) Qb G) as H.
    specialize (Heq k Hk Qb). destruct H as [H|[_ H]]; [lra|lia].
  Qed.

  (* the domain in which [keyed] is derived from reachability: the tasks queued on l hold no
     PriorityLock (C12_keyed_lock_free_waiters) *)
  Definition flat (s : st) (l : nat) : Prop :=
    forall g w, In (g, w) (lwt (getl s l)) -> tholding (gett s w) = [].

  Lemma flat_keyed l k : flat (T k) l -> keyed (T k) l.
  Proof. intros H. apply reach_ne_keyed_flat; auto. apply T_reach. Qed.

  Theorem no_overtake_flat l fa qa_ fb i j :
    j < length acts ->
    waits_through T l fa qa_ i (S j) ->
    (forall k, i <= k <= j -> holder_free (T k) l) ->
    (forall k, i <= k <= j -> flat (T k) l) ->
    (forall k, i <= k <= j -> In fb (objs (T k) l) ->
               (waiter_prio (T k) l fa < waiter_prio (T k) l fb)%Q) ->
    forall k, i <= k <= j -> ~ granted_at T l fb k.
  Proof.
    intros Hj Wa HF F. apply (no_overtake l fa qa_ fb i j); auto. intros k Hk. apply flat_keyed. now apply F.
  Qed.

  (* plain asyncio tasks count as priority 0: among plain tasks the lock is FIFO, as asyncio.Lock;
     no [keyed] hypothesis is needed when nobody queued on l holds a PriorityLock *)
  Theorem fifo_plain_tasks l fa qa_ fb qb i j :
    j < length acts ->
    waits_through T l fa qa_ i (S j) ->
    (forall k, i <= k <= j -> holder_free (T k) l) ->
    (forall k, i <= k <= j -> flat (T k) l) ->
    (qa_ < qb)%Z ->
    (forall k, i <= k <= j ->
       is_prio_task (T k) (task_of_fut (getl (T k) l) fa) = false /\
       is_prio_task (T k) (task_of_fut (getl (T k) l) fb) = false) ->
    forall k, i <= k <= j -> queued_at (T k) l fb qb -> ~ granted_at T l fb k.
  Proof.
    intros Hj Wa HF F Hseq Hpl. apply (fifo_among_equals l fa qa_ fb qb i j); auto.
    - intros k Hk. apply flat_keyed. now apply F.
    - intros k Hk _. destruct (Hpl k Hk) as [A B]. unfold waiter_prio, wprio.
      unfold is_prio_task in A, B.
      destruct (tprio (gett (T k) (task_of_fut (getl (T k) l) fa))); [discriminate|].
      destruct (tprio (gett (T k) (task_of_fut (getl (T k) l) fb))); [discriminate|]. reflexivity.
  Qed.

  (* the granted waiter and ownership: after the grant the lock has no owner, fb is the only
     woken waiter queued on l (one hand-over in flight), and _take_lock by whoever resumes that
     waiter succeeds and makes it the owner *)
  Theorem grant_in_flight l fb k :
    granted_at T l fb k ->
    lowner (getl (T (S k)) l) = None /\
    (forall g, In g (objs (T (S k)) l) -> woken (T (S k)) g = true -> g = fb) /\
    (forall t, exists s', take_lock (T (S k)) l t = inl s' /\ lowner (getl s' l) = Some t).
  Proof.
    intros (_ & Hq & _ & W). pose proof (T_inv (S k)) as I.
    assert (Ho : lowner (getl (T (S k)) l) = None).
    { destruct (lowner (getl (T (S k)) l)) eqn:Ho; auto.
      assert (lowner (getl (T (S k)) l) <> None) as Hn by congruence.
      rewrite (iC2 I l fb Hn Hq) in W. discriminate. }
    split; [exact Ho|]. split.
    - intros g Hg Wg. apply (iC1 I l); auto.
    - intros t. pose proof (objs_inrange _ _ _ Hq) as Hl.
      unfold take_lock. rewrite Ho. eexists. split; [reflexivity|].
      set (s1 := setl (T (S k)) l _).
      assert (E : lowner (getl s1 l) = Some t) by (unfold s1; rewrite getl_setl_same by exact Hl; reflexivity).
      destruct (is_prio_task s1 t); exact E.
  Qed.
End Run.
