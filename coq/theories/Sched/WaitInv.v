(* C11/C12/C14: a second invariant of reachable states of the scheduler model, about the
   tables the C13 invariant [Inv] does not constrain: the future->task rows [lwt] of the
   PriorityLocks, [twaiting] of the tasks, the suspended PriorityLock.acquire frames, and the
   waiter queues of the conditions.

   [WI ne R s]: R = (t, P) are the frames P held by the task t that is running (popped from
   its stored continuation, not yet stored again); between two actions P = [].  With
   [ne = true] the clauses that only hold for programs without eager starts
   ([Spawn SEager]: the started coroutine runs under the identity of the creating task) are
   included.

   This file: the invariant, the footprint relation [wk] (steps that do not touch the tables
   the invariant reads) and [wk] for every primitive of the model that is not a
   PriorityLock.acquire / condition-queue operation. *)
From Coq Require Import QArith Sorting.Permutation.
From RecordUpdate Require Import RecordUpdate.
From Asynkit Require Import Base.Prelude Queue.PQ Queue.Order Queue.PosPQ Queue.Exec Sched.Model
  Sched.Tables Sched.QFacts Sched.LockInv Sched.Footprint Sched.LockOps Sched.LockLib
  Sched.LockProofs Sched.InheritEprio Sched.InheritHandover Sched.InheritKeys.
Import RecordSetNotations.
Open Scope nat_scope.

(* ------------------------------------------------------------ vocabulary *)
(* the rows (waiter future, task) of lock l *)
Definition rows (s : st) (l : nat) : list (nat * nat) := lwt (getl s l).
(* frame fr belongs to task t: stored in its continuation, or held by the running task *)
Definition hasfr (s : st) (R : nat * list frame) (t : nat) (fr : frame) : Prop :=
  In fr (tframes s t) \/ (t = fst R /\ In fr (snd R)).
Definition is_eager (k : tcont) : bool := match k with TEager _ _ _ => true | _ => false end.
(* the condition of a frame suspended inside the `await fut` of wait() *)
Definition cwait (fr : frame) : option nat :=
  match fr with InCondWaitP c _ | InCondWaitI c _ => Some c | _ => None end.
(* the lock of condition c exists *)
Definition cok (s : st) (c : nat) : Prop := clock (getc s c) < length (locks s).
(* the task recorded for waiter future f of lock l *)
Definition rtask (s : st) (l f : nat) : nat := task_of_fut (getl s l) f.

Record WIx (ne : bool) (X : nat -> Prop) (R : nat * list frame) (s : st) : Prop := mkWI {
  (* W1: one row per queued entry *)
  w_nodup : forall l, NoDup (map fst (rows s l));
  w_objs : forall l f, In f (map fst (rows s l)) <-> In f (objs s l);
  w_range : forall l f t, In (f, t) (rows s l) -> t < length (tasks s);
  (* W2: a PriorityTask recorded as waiter of l has _waiting_on = l, and one row only *)
  w_wait : forall l f t, In (f, t) (rows s l) -> is_prio_task s t = true ->
           twaiting (gett s t) = Some l /\ ~ X t;
  w_one : forall l f f' t, In (f, t) (rows s l) -> In (f', t) (rows s l) ->
          is_prio_task s t = true -> f = f';
  (* W3: every suspended PriorityLock.acquire frame has its row; had = the row's task is a
     PriorityTask; the frame of a PriorityTask is its own *)
  w_frame : forall t l f had, hasfr s R t (InAcquireP l f had) ->
            exists u, In (f, u) (rows s l) /\ had = is_prio_task s u /\
                      (is_prio_task s t = true -> u = t) /\ (ne = true -> u = t);
  (* ... and every row has a suspended (or running) acquirer *)
  w_row : forall l f u, In (f, u) (rows s l) -> exists t had, hasfr s R t (InAcquireP l f had);
  w_rt : snd R <> [] -> fst R < length (tasks s);
  (* without eager starts *)
  w_necont : ne = true -> forall t, is_eager (tcont_ (gett s t)) = false;
  w_newait : ne = true -> forall t l, ~ X t -> is_prio_task s t = true ->
             twaiting (gett s t) = Some l -> exists f, In (f, t) (rows s l);
  (* W5: the live entry of a waiter that holds no PriorityLock is keyed by its own priority *)
  w_key : ne = true -> forall l e, In e (arr (lpq (getl s l))) ->
          fdone s (Z.to_nat (eobj e)) = false ->
          tholding (gett s (rtask s l (Z.to_nat (eobj e)))) = [] ->
          (epri e == own s (rtask s l (Z.to_nat (eobj e))))%Q;
  (* W4: condition queues *)
  w_cq : forall c, NoDup (pq_objs (cpq (getc s c))) /\
                   Forall (fun e => (0 <= eobj e)%Z) (arr (cpq (getc s c)));
  w_cd : forall c, NoDup (cdq (getc s c));
  w_cf : forall c f, In f (pq_objs (cpq (getc s c))) \/ In f (cdq (getc s c)) ->
         f < length (futs s) /\ fowner (getf s f) = None /\ clock (getc s c) < length (locks s);
  (* the condition of a task suspended in wait() has an existing lock *)
  w_cw : forall t fr c, hasfr s R t fr -> cwait fr = Some c -> cok s c
}.

Arguments w_nodup {ne X R s} _.
Arguments w_objs {ne X R s} _.
Arguments w_range {ne X R s} _.
Arguments w_wait {ne X R s} _.
Arguments w_one {ne X R s} _.
Arguments w_frame {ne X R s} _.
Arguments w_row {ne X R s} _.
Arguments w_rt {ne X R s} _.
Arguments w_necont {ne X R s} _.
Arguments w_newait {ne X R s} _.
Arguments w_key {ne X R s} _.
Arguments w_cq {ne X R s} _.
Arguments w_cd {ne X R s} _.
Arguments w_cf {ne X R s} _.
Arguments w_cw {ne X R s} _.

(* [X]: tasks that are between `set_waiting_on` and the update of the lock's tables (only
   inside PriorityLock.acquire); empty otherwise *)
Definition WI (ne : bool) (R : nat * list frame) (s : st) : Prop := WIx ne (fun _ => False) R s.
(* the invariant between two actions *)
Definition WInv (ne : bool) (s : st) : Prop := WI ne (0, []) s.

(* changing the record of pending frames *)
Lemma WI_R ne X R R' s :
  (forall t l f had, hasfr s R' t (InAcquireP l f had) <-> hasfr s R t (InAcquireP l f had)) ->
  (forall t fr c, cwait fr = Some c -> hasfr s R' t fr -> exists t', hasfr s R t' fr) ->
  (snd R' <> [] -> fst R' < length (tasks s)) -> WIx ne X R s -> WIx ne X R' s.
Proof.
  intros H Hc Hrt W. destruct W. constructor; auto.
  - intros t l f had Hh. apply H in Hh. eauto.
  - intros l f u Hin. destruct (w_row0 l f u Hin) as (t & had & Hh). exists t, had. now apply H.
  - intros t fr c Hh Ec. destruct (Hc t fr c Ec Hh) as (t' & Hh'). eauto.
Qed.

Lemma hasfr_nil s t t0 fr : hasfr s (t0, []) t fr <-> In fr (tframes s t).
Proof. unfold hasfr. simpl. tauto. Qed.

Lemma WI_runner ne X t t' s : WIx ne X (t, []) s -> WIx ne X (t', []) s.
Proof.
  apply WI_R.
  - intros. rewrite !hasfr_nil. tauto.
  - intros t0 fr c _ Hh. exists t0. apply hasfr_nil. now apply hasfr_nil in Hh.
  - simpl. congruence.
Qed.

(* frames that are not PriorityLock.acquire frames do not count *)
Lemma WI_frames ne X t P P' s :
  (forall l f had, In (InAcquireP l f had) P' <-> In (InAcquireP l f had) P) ->
  (forall fr c, cwait fr = Some c -> In fr P' -> In fr P) ->
  (P' <> [] -> t < length (tasks s)) -> WIx ne X (t, P) s -> WIx ne X (t, P') s.
Proof.
  intros H Hc Hrt. apply WI_R; [| |exact Hrt].
  - intros t0 l f had. unfold hasfr. simpl. rewrite H. tauto.
  - intros t0 fr c Ec [Hh|[E Hh]]; exists t0; [now left|right]. simpl in *. split; auto. eapply Hc; eauto.
Qed.

Lemma WI_X ne X X' R s : (forall x, X x <-> X' x) -> WIx ne X R s -> WIx ne X' R s.
Proof.
  intros H W. destruct W. constructor; auto.
  - intros l f t H1 H2. destruct (w_wait0 l f t H1 H2). split; auto. now rewrite <- H.
  - intros Hne t l Hx. apply w_newait0; auto. now rewrite H.
Qed.

(* ------------------------------------------------------------ the footprint *)
Record wk (s s' : st) : Prop := mkWk {
  k_rows : forall l, rows s' l = rows s l;
  k_lpq : forall l, lpq (getl s' l) = lpq (getl s l);
  k_nlocks : length (locks s') = length (locks s);
  k_ntasks : length (tasks s) <= length (tasks s');
  k_task : forall t, t < length (tasks s) ->
     twaiting (gett s' t) = twaiting (gett s t) /\ is_prio_task s' t = is_prio_task s t /\
     tframes s' t = tframes s t /\
     (is_eager (tcont_ (gett s' t)) = true -> is_eager (tcont_ (gett s t)) = true);
  k_hold : forall t, t < length (tasks s) ->
     (tholding (gett s' t) = [] -> tholding (gett s t) = []) /\ tprio (gett s' t) = tprio (gett s t);
  k_new : forall t, length (tasks s) <= t -> t < length (tasks s') ->
     twaiting (gett s' t) = None /\ tframes s' t = [] /\ is_eager (tcont_ (gett s' t)) = false;
  k_cond : forall c, cpq (getc s' c) = cpq (getc s c) /\ cdq (getc s' c) = cdq (getc s c) /\
                     clock (getc s' c) = clock (getc s c);
  k_nfuts : length (futs s) <= length (futs s');
  k_fowner : forall g, g < length (futs s) -> fowner (getf s' g) = fowner (getf s g);
  k_done : forall g, fdone s g = true -> fdone s' g = true
}.

Arguments k_rows {s s'} _.
Arguments k_lpq {s s'} _.
Arguments k_hold {s s'} _.
Arguments k_done {s s'} _.
Arguments k_nlocks {s s'} _.
Arguments k_ntasks {s s'} _.
Arguments k_task {s s'} _.
Arguments k_new {s s'} _.
Arguments k_cond {s s'} _.
Arguments k_nfuts {s s'} _.
Arguments k_fowner {s s'} _.

Lemma k_objs {s s'} (K : wk s s') : forall l f, In f (objs s' l) <-> In f (objs s l).
Proof. intros l f. unfold objs. rewrite (k_lpq K). tauto. Qed.

Lemma wk_refl s : wk s s.
Proof.
  constructor; auto; try tauto.
  - intros t H1 H2. lia.
Qed.

Lemma wk_trans s1 s2 s3 : wk s1 s2 -> wk s2 s3 -> wk s1 s3.
Proof.
  intros A B. pose proof (k_ntasks A) as N1. pose proof (k_ntasks B) as N2.
  constructor.
  - intros l. rewrite (k_rows B). apply (k_rows A).
  - intros l. rewrite (k_lpq B). apply (k_lpq A).
  - rewrite (k_nlocks B). apply (k_nlocks A).
  - lia.
  - intros t Ht. destruct (k_task A t Ht) as (a1 & a2 & a3 & a4).
    destruct (k_task B t ltac:(lia)) as (b1 & b2 & b3 & b4).
    repeat split; try congruence. auto.
  - intros t Ht. destruct (k_hold A t Ht) as (a1 & a2). destruct (k_hold B t ltac:(lia)) as (b1 & b2).
    split; [auto|congruence].
  - intros t H1 H3. destruct (Nat.lt_ge_cases t (length (tasks s2))) as [H2|H2].
    + destruct (k_new A t H1 H2) as (a1 & a2 & a3).
      destruct (k_task B t H2) as (b1 & b2 & b3 & b4).
      split; [congruence|]. split; [congruence|].
      destruct (is_eager (tcont_ (gett s3 t))) eqn:E; auto. rewrite b4 in a3; auto.
    + apply (k_new B t H2 H3).
  - intros c. destruct (k_cond A c) as (a1 & a2 & a3). destruct (k_cond B c) as (b1 & b2 & b3).
    repeat split; congruence.
  - pose proof (k_nfuts A). pose proof (k_nfuts B). lia.
  - intros g Hg. pose proof (k_nfuts A). rewrite (k_fowner B) by lia. apply (k_fowner A); auto.
  - intros g Hg. apply (k_done B), (k_done A), Hg.
Qed.

Lemma wk_tframes s s' t : wk s s' -> tframes s' t = tframes s t \/ (tframes s' t = [] /\ length (tasks s) <= t).
Proof.
  intros K. destruct (Nat.lt_ge_cases t (length (tasks s))) as [Ht|Ht].
  - left. apply (k_task K t Ht).
  - right. split; auto. destruct (Nat.lt_ge_cases t (length (tasks s'))) as [Ht'|Ht'].
    + apply (k_new K t Ht Ht').
    + unfold tframes. now rewrite gett_oob.
Qed.

Lemma tframes_inrange s t fr : In fr (tframes s t) -> t < length (tasks s).
Proof.
  intros H. destruct (Nat.lt_ge_cases t (length (tasks s))); auto.
  rewrite tframes_oob in H by auto. destruct H.
Qed.

Lemma wk_prio s s' t : wk s s' -> t < length (tasks s) -> is_prio_task s' t = is_prio_task s t.
Proof. intros K Ht. apply (k_task K t Ht). Qed.

(* the invariant only reads what [wk] keeps *)
Theorem WI_wk ne X R s s' : wk s s' -> WIx ne X R s -> WIx ne X R s'.
Proof.
  intros K W. pose proof (k_ntasks K) as Nt.
  assert (Hfr : forall t fr, hasfr s' R t fr <-> hasfr s R t fr).
  { intros t fr. unfold hasfr. destruct (wk_tframes s s' t K) as [E|[E Ht]]; rewrite E; [tauto|].
    split; intros [H|H]; auto; [destruct H|]. exfalso. apply tframes_inrange in H. lia. }
  constructor.
  - intros l. rewrite (k_rows K). apply (w_nodup W).
  - intros l f. rewrite (k_rows K), (k_objs K). apply (w_objs W).
  - intros l f t. rewrite (k_rows K). intros H. pose proof (w_range W _ _ _ H). lia.
  - intros l f t. rewrite (k_rows K). intros H Hp. pose proof (w_range W _ _ _ H) as Ht.
    destruct (k_task K t Ht) as (E1 & E2 & _). rewrite E1. rewrite E2 in Hp. eapply (w_wait W); eauto.
  - intros l f f' t. rewrite (k_rows K). intros H1 H2 Hp. pose proof (w_range W _ _ _ H1) as Ht.
    rewrite (wk_prio _ _ _ K Ht) in Hp. eapply (w_one W); eauto.
  - intros t l f had Hh. apply Hfr in Hh. destruct (w_frame W _ _ _ _ Hh) as (u & Hu & Eh & Hp & Hn).
    exists u. rewrite (k_rows K). split; auto. pose proof (w_range W _ _ _ Hu) as Hur.
    rewrite (wk_prio _ _ _ K Hur). split; auto. split; auto.
    intros Hpt. apply Hp. assert (Ht : t < length (tasks s)).
    { destruct Hh as [Hh|[-> Hh]]; [eapply tframes_inrange; eauto|].
      apply (w_rt W). intros E. rewrite E in Hh. destruct Hh. }
    now rewrite <- (wk_prio _ _ _ K Ht).
  - intros l f u. rewrite (k_rows K). intros H. destruct (w_row W _ _ _ H) as (t & had & Hh).
    exists t, had. now apply Hfr.
  - intros H. pose proof (w_rt W H). lia.
  - intros Hne t. destruct (Nat.lt_ge_cases t (length (tasks s))) as [Ht|Ht].
    + destruct (k_task K t Ht) as (_ & _ & _ & E). destruct (is_eager (tcont_ (gett s' t))) eqn:Ee; auto.
      rewrite (w_necont W Hne t) in E. symmetry. now apply E.
    + destruct (Nat.lt_ge_cases t (length (tasks s'))) as [Ht'|Ht'].
      * apply (k_new K t Ht Ht').
      * now rewrite gett_oob.
  - intros Hne t l Hx Hp Hw. rewrite (k_rows K). destruct (Nat.lt_ge_cases t (length (tasks s))) as [Ht|Ht].
    + destruct (k_task K t Ht) as (E1 & E2 & _). rewrite E1 in Hw. rewrite E2 in Hp.
      eapply (w_newait W); eauto.
    + exfalso. destruct (Nat.lt_ge_cases t (length (tasks s'))) as [Ht'|Ht'].
      * destruct (k_new K t Ht Ht') as (E & _). congruence.
      * rewrite gett_oob in Hw by auto. discriminate.
  - intros Hne l e. unfold rtask, getl at 1. fold (getl s' l). rewrite (k_lpq K).
    assert (Er : task_of_fut (getl s' l) (Z.to_nat (eobj e)) = task_of_fut (getl s l) (Z.to_nat (eobj e))).
    { unfold task_of_fut. fold (rows s' l). fold (rows s l). now rewrite (k_rows K). }
    rewrite Er. intros He Hd Hh.
    assert (Hd0 : fdone s (Z.to_nat (eobj e)) = false).
    { destruct (fdone s (Z.to_nat (eobj e))) eqn:E; auto. rewrite (k_done K _ E) in Hd. discriminate. }
    assert (Hin : In (Z.to_nat (eobj e)) (objs s l)).
    { unfold objs, pq_objs. apply (in_map (fun e0 : entry Q => Z.to_nat (eobj e0))). exact He. }
    apply (w_objs W) in Hin. apply in_map_iff in Hin as ([f u] & Ef & Hu). simpl in Ef. subst f.
    pose proof (task_of_fut_unique _ _ _ (w_nodup W l) Hu) as Eu. rewrite Eu in *.
    pose proof (w_range W _ _ _ Hu) as Hur. destruct (k_hold K u Hur) as [H1 H2].
    assert (Eo : own s' u = own s u) by (unfold own; now rewrite H2). rewrite Eo.
    pose proof (w_key W Hne l e He Hd0) as Hk. unfold rtask in Hk. rewrite Eu in Hk. apply Hk. auto.
  - intros c. destruct (k_cond K c) as (-> & _ & _). apply (w_cq W).
  - intros c. destruct (k_cond K c) as (_ & -> & _). apply (w_cd W).
  - intros c f. destruct (k_cond K c) as (-> & -> & ->). intros H. destruct (w_cf W c f H) as (Hr & Ho & Hl).
    rewrite (k_nlocks K). pose proof (k_nfuts K). split; [lia|]. split; auto. rewrite (k_fowner K); auto.
  - intros t fr c Hh Ec. apply Hfr in Hh. pose proof (w_cw W t fr c Hh Ec) as Hk. unfold cok in *.
    destruct (k_cond K c) as (_ & _ & ->). now rewrite (k_nlocks K).
Qed.

(* ------------------------------------------------------------ building blocks *)
(* steps that keep the task and condition tables *)
Lemma wk_same s s' :
  (forall l, lpq (getl s' l) = lpq (getl s l) /\ lwt (getl s' l) = lwt (getl s l)) ->
  length (locks s') = length (locks s) -> tasks s' = tasks s -> conds s' = conds s ->
  length (futs s) <= length (futs s') ->
  (forall g, g < length (futs s) -> fowner (getf s' g) = fowner (getf s g)) ->
  (forall g, fdone s g = true -> fdone s' g = true) -> wk s s'.
Proof.
  intros Hl Enl Et Ec Hnf Hfo Hdn.
  assert (Ht : forall t, gett s' t = gett s t) by (intros; unfold gett; now rewrite Et).
  assert (Hc : forall c, getc s' c = getc s c) by (intros; unfold getc; now rewrite Ec).
  constructor.
  - intros l. unfold rows. apply Hl.
  - intros l. apply Hl.
  - exact Enl.
  - rewrite Et. lia.
  - intros t _. unfold is_prio_task, tframes. rewrite Ht. auto.
  - intros t _. rewrite Ht. auto.
  - intros t H1 H2. rewrite Et in H2. lia.
  - intros c. rewrite Hc. auto.
  - exact Hnf.
  - exact Hfo.
  - exact Hdn.
Qed.

(* states that agree on the four tables *)
Lemma wk_core s s' :
  locks s' = locks s -> tasks s' = tasks s -> conds s' = conds s -> futs s' = futs s -> wk s s'.
Proof.
  intros El Et Ec Ef. apply wk_same; auto.
  - intros l. unfold getl. now rewrite El.
  - now rewrite El.
  - rewrite Ef. lia.
  - intros g _. unfold getf. now rewrite Ef.
  - intros g. unfold fdone, getf. now rewrite Ef.
Qed.

Lemma wk_setf s f x :
  fowner x = fowner (getf s f) -> (fstate_ x = fstate_ (getf s f) \/ fstate_ (getf s f) = FPending) ->
  wk s (setf s f x).
Proof.
  intros Eo Es. apply wk_same; try reflexivity.
  - intros l. auto.
  - unfold setf. cbn. rewrite set_nth_length. lia.
  - intros g _. rewrite getf_setf. destruct (Nat.eqb f g && Nat.ltb f (length (futs s)))%bool eqn:E; auto.
    apply andb_prop in E as [E _]. apply Nat.eqb_eq in E. now subst g.
  - intros g. unfold fdone. rewrite getf_setf.
    destruct (Nat.eqb f g && Nat.ltb f (length (futs s)))%bool eqn:E; auto.
    apply andb_prop in E as [E _]. apply Nat.eqb_eq in E. subst g.
    destruct Es as [Es|Es]; rewrite Es; [auto|discriminate].
Qed.

Lemma wk_setf_flag s f x :
  fowner x = fowner (getf s f) -> fstate_ x = fstate_ (getf s f) -> wk s (setf s f x).
Proof. intros A B. apply wk_setf; auto. Qed.

Lemma wk_new_future s o : wk s (fst (new_future s o)).
Proof.
  unfold new_future. cbn [fst]. apply wk_same; try reflexivity.
  - intros l. auto.
  - cbn. rewrite app_length. lia.
  - intros g Hg. unfold getf. cbn. now rewrite nth_app_old.
  - intros g Hd. destruct (Nat.lt_ge_cases g (length (futs s))) as [Hg|Hg].
    + unfold fdone, getf in *. cbn. now rewrite nth_app_old.
    + unfold fdone in Hd. rewrite getf_oob in Hd by auto. discriminate.
Qed.

Lemma wk_setl s l x :
  lpq x = lpq (getl s l) -> lwt x = lwt (getl s l) -> wk s (setl s l x).
Proof.
  intros Eq Ew. apply wk_same; try reflexivity.
  - intros l0. rewrite getl_setl. destruct (Nat.eqb l l0 && Nat.ltb l (length (locks s)))%bool eqn:E; auto.
    apply andb_prop in E as [E _]. apply Nat.eqb_eq in E. subst l0. auto.
  - unfold setl. cbn. apply set_nth_length.
  - intros g H. exact H.
Qed.

Lemma wk_sett s t x :
  twaiting x = twaiting (gett s t) ->
  (match tprio x with Some _ => true | None => false end = is_prio_task s t) ->
  frames_of (tcont_ x) = tframes s t ->
  (is_eager (tcont_ x) = true -> is_eager (tcont_ (gett s t)) = true) ->
  (tholding x = [] -> tholding (gett s t) = []) -> tprio x = tprio (gett s t) ->
  wk s (sett s t x).
Proof.
  intros Ew Ep Efr Ee Eh Et. constructor.
  - intros l. reflexivity.
  - intros l. reflexivity.
  - reflexivity.
  - rewrite sett_len. lia.
  - intros t0 _. unfold is_prio_task, tframes. rewrite gett_sett.
    destruct (Nat.eqb t t0 && Nat.ltb t (length (tasks s)))%bool eqn:E; auto.
    apply andb_prop in E as [E _]. apply Nat.eqb_eq in E. subst t0. auto.
  - intros t0 _. rewrite gett_sett.
    destruct (Nat.eqb t t0 && Nat.ltb t (length (tasks s)))%bool eqn:E; auto.
    apply andb_prop in E as [E _]. apply Nat.eqb_eq in E. subst t0. auto.
  - intros t0 H1 H2. rewrite sett_len in H2. lia.
  - intros c. auto.
  - cbn. lia.
  - intros g _. reflexivity.
  - intros g Hg. exact Hg.
Qed.

(* a task update that keeps _waiting_on, the priority, the held locks and the continuation *)
Ltac wsett := apply wk_sett; [reflexivity|reflexivity|reflexivity|intros H; exact H|intros H; exact H|reflexivity].

Lemma wk_append_task s tk :
  twaiting tk = None -> frames_of (tcont_ tk) = [] -> is_eager (tcont_ tk) = false ->
  wk s (s <| tasks := tasks s ++ [tk] |>).
Proof.
  intros Ew Efr Ee. set (s' := s <| tasks := tasks s ++ [tk] |>).
  assert (Ht : forall t, t < length (tasks s) -> gett s' t = gett s t).
  { intros t Ht. unfold gett, s'. cbn. now apply nth_app_old. }
  constructor.
  - intros l. reflexivity.
  - intros l. reflexivity.
  - reflexivity.
  - unfold s'. cbn. rewrite app_length. lia.
  - intros t Hlt. unfold is_prio_task, tframes. rewrite Ht; auto.
  - intros t Hlt. rewrite Ht; auto.
  - intros t H1 H2. unfold s' in H2. cbn in H2. rewrite app_length in H2. simpl in H2.
    assert (t = length (tasks s)) as -> by lia.
    assert (E : gett s' (length (tasks s)) = tk) by (unfold gett, s'; cbn; apply nth_app_fresh).
    unfold tframes. rewrite E. auto.
  - intros c. auto.
  - cbn. lia.
  - intros g _. reflexivity.
  - intros g Hg. exact Hg.
Qed.

(* ------------------------------------------------------------ handles and futures *)
Lemma wk_call_soon s c : wk s (call_soon_ s c).
Proof. apply wk_core; reflexivity. Qed.
Lemma wk_call_at s w c : wk s (fst (call_at s w c)).
Proof. apply wk_core; reflexivity. Qed.
Lemma wk_cancel_handle s h : wk s (cancel_handle s h).
Proof. apply wk_core; reflexivity. Qed.
Lemma wk_call_pos s p c : wk s (call_pos s p c).
Proof.
  unfold call_pos. pose proof (wk_call_soon s c) as H. unfold call_soon_ in H.
  destruct (call_soon s c) as [s1 h]. cbn [fst] in H.
  destruct (rq_remove (ready s1) h); auto.
  eapply wk_trans; [exact H|]. apply wk_core; reflexivity.
Qed.

Lemma wk_fold_soon f cbs : forall s, wk s (fold_left (fun s c => call_soon_ s (cb_callback f c)) cbs s).
Proof.
  induction cbs as [|c cbs IH]; intros s; simpl; [apply wk_refl|].
  eapply wk_trans; [apply wk_call_soon|apply IH].
Qed.

Lemma wk_fut_finish s f x : wk s (fst (fut_finish s f x)).
Proof.
  unfold fut_finish. destruct (fstate_ (getf s f)) eqn:Es; try apply wk_refl. cbn [fst].
  unfold schedule_callbacks.
  set (s1 := setf s f (getf s f <| fstate_ := x |>)).
  apply wk_trans with (s2 := s1); [apply wk_setf; [reflexivity|right; exact Es]|].
  apply wk_trans with (s2 := setf s1 f (getf s1 f <| fcbs := [] |>)); [apply wk_setf_flag; reflexivity|].
  apply wk_fold_soon.
Qed.

Lemma wk_add_done_callback s f c : wk s (add_done_callback s f c).
Proof. unfold add_done_callback. destruct (fdone s f); [apply wk_call_soon|apply wk_setf_flag; reflexivity]. Qed.
Lemma wk_remove_done_callback s f c : wk s (remove_done_callback s f c).
Proof. unfold remove_done_callback. apply wk_setf_flag; reflexivity. Qed.

Lemma wk_fut_result s f : wk s (fst (fut_result s f)).
Proof.
  unfold fut_result. destruct (fstate_ (getf s f)); try apply wk_refl.
  destruct (fcexc (getf s f)); [|apply wk_refl]. cbn [fst]. apply wk_setf_flag; reflexivity.
Qed.

Lemma wk_await_fut s f outer : wk s (fst (await_fut s f outer)).
Proof.
  unfold await_fut. destruct (fdone s f).
  - pose proof (wk_fut_result s f) as H. destruct (fut_result s f) as [s' r]. exact H.
  - cbn [fst]. apply wk_setf_flag; reflexivity.
Qed.

Lemma wk_task_cancel fuel : forall s t, wk s (fst (task_cancel fuel s t)).
Proof.
  induction fuel as [|fuel IH]; intros s t; cbn [task_cancel].
  - destruct (tdone s t); [apply wk_refl|].
    destruct (twaiter (gett s t)) as [f|]; [|cbn [fst]; wsett].
    destruct (fowner (getf s f)); [cbn [fst]; wsett|].
    pose proof (wk_fut_finish s f FCancelled) as B.
    destruct (fut_finish s f FCancelled) as [s' ok]. destruct ok; [exact B|cbn [fst]; wsett].
  - destruct (tdone s t); [apply wk_refl|].
    destruct (twaiter (gett s t)) as [f|]; [|cbn [fst]; wsett].
    destruct (fowner (getf s f)) as [t'|].
    + pose proof (IH s t') as B. destruct (task_cancel fuel s t') as [s' ok]. cbn [fst] in B.
      destruct ok; [exact B|]. cbn [fst]. eapply wk_trans; [exact B|]. wsett.
    + pose proof (wk_fut_finish s f FCancelled) as B.
      destruct (fut_finish s f FCancelled) as [s' ok]. destruct ok; [exact B|cbn [fst]; wsett].
Qed.

Lemma wk_cancel_task s t : wk s (fst (cancel_task s t)).
Proof. apply wk_task_cancel. Qed.

Lemma wk_cancel_awaitable s f : wk s (fst (cancel_awaitable s f)).
Proof.
  unfold cancel_awaitable. destruct (fowner (getf s f)); [apply wk_cancel_task|apply wk_fut_finish].
Qed.

Lemma wk_task_reinsert s t p : wk s (fst (task_reinsert s t p)).
Proof. unfold task_reinsert. destruct (rq_find _ _ _) as [[h r]|]; apply wk_core; reflexivity. Qed.

Lemma wk_go s t e : wk s (call_soon_ (sett s t (gett s t <| twaiter := None |>)) (HStep t (Some e))).
Proof. eapply wk_trans; [|apply wk_call_soon]. wsett. Qed.

Lemma wk_task_throw s t e : wk s (fst (task_throw s t e)).
Proof.
  unfold task_throw. destruct (tdone s t); [apply wk_refl|].
  destruct (tkind_ (gett s t)); [apply wk_refl|].
  destruct (twaiter (gett s t)) as [f|].
  - destruct (negb (fdone s f)).
    + cbn [fst]. eapply wk_trans; [apply wk_remove_done_callback|]. apply wk_go.
    + destruct (tmustc (gett s t) || fcancelled s f)%bool; [apply wk_refl|].
      destruct (rq_find (ready s) (task_key s t) true) as [[h r]|]; [|apply wk_refl].
      cbn [fst]. apply wk_trans with (s2 := s <| ready := r |>); [apply wk_core; reflexivity|].
      apply wk_go.
  - destruct (tmustc (gett s t)); [apply wk_refl|].
    destruct (rq_find (ready s) (task_key s t) true) as [[h r]|]; [|apply wk_refl].
    cbn [fst]. apply wk_trans with (s2 := s <| ready := r |>); [apply wk_core; reflexivity|].
    apply wk_go.
Qed.

Lemma wk_task_interrupt_start s t e : wk s (fst (task_interrupt_start s t e)).
Proof.
  unfold task_interrupt_start. pose proof (wk_task_throw s t e) as B.
  destruct (task_throw s t e) as [s1 r]. cbn [fst] in B. destruct r; [|exact B].
  pose proof (wk_task_reinsert s1 t 0) as B2. destruct (task_reinsert s1 t 0) as [s2 r2].
  cbn [fst] in B2. destruct r2; cbn [fst]; eapply wk_trans; eauto.
Qed.

Lemma wk_interruptor fuel : forall s b i, wk s (fst (interruptor fuel s b i)).
Proof.
  induction fuel as [|fuel IH]; intros s b i; cbn [interruptor]; [apply wk_refl|].
  destruct (Nat.leb 3 i); [apply wk_refl|].
  destruct (negb (bactive (getb s b))); [apply IH|].
  pose proof (wk_task_interrupt_start s (btask (getb s b)) (ETimeoutInt b)) as B.
  destruct (task_interrupt_start s (btask (getb s b)) (ETimeoutInt b)) as [s1 r]. cbn [fst] in B.
  destruct r as [[v|e]|y frs]; cbn [fst]; auto.
  - eapply wk_trans; [exact B|apply IH].
  - destruct e; auto. destruct (Nat.eqb i 2); exact B.
Qed.

(* ------------------------------------------------------------ lock primitives that keep the rows *)
Lemma wk_wake_p s l : wk s (wake_up_first_p s l).
Proof.
  unfold wake_up_first_p. destruct (arr (lpq (getl s l))); [apply wk_refl|].
  destruct (existsb _ _); [apply wk_refl|]. destruct (fdone s _); [apply wk_refl|]. apply wk_fut_finish.
Qed.
Lemma wk_wake_a s l : wk s (wake_up_first_a s l).
Proof.
  unfold wake_up_first_a. destruct (ldq (getl s l)); [apply wk_refl|].
  destruct (fdone s n); [apply wk_refl|]. apply wk_fut_finish.
Qed.

Lemma wk_take_lock s l t s' : take_lock s l t = inl s' -> wk s s'.
Proof.
  unfold take_lock. destruct (lowner (getl s l)); [discriminate|]. intros H. inversion H; subst. clear H.
  set (s1 := setl s l (getl s l <| lowner := Some t |> <| llocked := true |>)).
  assert (K1 : wk s s1) by (apply wk_setl; reflexivity).
  destruct (is_prio_task s1 t); [|exact K1]. eapply wk_trans; [exact K1|].
  apply wk_sett; [reflexivity|reflexivity|reflexivity|intros H; exact H|intros H; discriminate H|reflexivity].
Qed.

Lemma wk_release_a s l : wk s (fst (release_a s l)).
Proof.
  unfold release_a. destruct (llocked (getl s l)); [|apply wk_refl]. cbn [fst].
  eapply wk_trans; [|apply wk_wake_a]. apply wk_setl; reflexivity.
Qed.

Lemma wk_acquire_a_start s l : wk s (fst (acquire_a_start s l)).
Proof.
  unfold acquire_a_start. destruct (_ && _)%bool; cbn [fst]; [apply wk_setl; reflexivity|].
  change (new_future s None) with (fst (new_future s None), length (futs s)). cbv beta iota. cbn [fst].
  eapply wk_trans; [apply wk_new_future|]. eapply wk_trans; [|apply wk_setf_flag; reflexivity].
  apply wk_setl; reflexivity.
Qed.

Lemma wk_acquire_a_finish s l f inp : wk s (fst (acquire_a_finish s l f inp)).
Proof.
  unfold acquire_a_finish.
  set (s1 := setl s l (getl s l <| ldq := filter (fun x => negb (Nat.eqb x f)) (ldq (getl s l)) |>)).
  assert (K1 : wk s s1) by (apply wk_setl; reflexivity).
  destruct inp as [v|e]; cbn [fst].
  - eapply wk_trans; [exact K1|]. apply wk_setl; reflexivity.
  - destruct (is_cancel e); [|exact K1]. cbn [fst].
    destruct (llocked (getl s1 l)); [exact K1|]. eapply wk_trans; [exact K1|apply wk_wake_a].
Qed.

(* ------------------------------------------------------------ tasks *)
Lemma wk_new_task s kind p c : wk s (fst (new_task s kind p c)).
Proof.
  unfold new_task.
  change (new_future s (Some (length (tasks s)))) with (fst (new_future s (Some (length (tasks s)))), length (futs s)).
  cbv beta iota. cbn [fst].
  eapply wk_trans; [apply wk_new_future|]. eapply wk_trans; [|apply wk_call_soon].
  apply (wk_append_task (fst (new_future s (Some (length (tasks s)))))); reflexivity.
Qed.

Lemma wk_spawn_task s how c : wk s (fst (spawn_task s how c)).
Proof. unfold spawn_task. destruct how; apply wk_new_task. Qed.

Lemma wk_drop_cancelled fuel : forall s, wk s (drop_cancelled fuel s).
Proof.
  induction fuel as [|fuel IH]; intros s; cbn [drop_cancelled]; [apply wk_refl|].
  destruct (timers s) as [|[w h] tm]; [apply wk_refl|].
  destruct (hcancelled (geth s h)); [|apply wk_refl].
  destruct (HeapqModel.heappop timer_lt tdflt ((w, h) :: tm)) as [[e tm']|]; [|apply wk_refl].
  eapply wk_trans; [|apply IH]. apply wk_core; reflexivity.
Qed.
Lemma wk_move_due fuel : forall s, wk s (move_due fuel s).
Proof.
  induction fuel as [|fuel IH]; intros s; cbn [move_due]; [apply wk_refl|].
  destruct (timers s) as [|[w h] tm]; [apply wk_refl|].
  destruct (Qle_bool w (now s)); [|apply wk_refl].
  destruct (HeapqModel.heappop timer_lt tdflt ((w, h) :: tm)) as [[[w' h'] tm']|]; [|apply wk_refl].
  eapply wk_trans; [|apply IH]. apply wk_core; reflexivity.
Qed.
Lemma wk_begin_iteration s : wk s (begin_iteration s).
Proof. unfold begin_iteration. eapply wk_trans; [apply wk_drop_cancelled|apply wk_move_due]. Qed.

(* ------------------------------------------------------------ the key clause on its own *)
Definition KF (s : st) : Prop :=
  forall l e, In e (arr (lpq (getl s l))) ->
    fdone s (Z.to_nat (eobj e)) = false ->
    tholding (gett s (rtask s l (Z.to_nat (eobj e)))) = [] ->
    (epri e == own s (rtask s l (Z.to_nat (eobj e))))%Q.

Lemma KF_transfer s s' :
  (forall l e, In e (arr (lpq (getl s' l))) -> In e (arr (lpq (getl s l)))) ->
  (forall l e, In e (arr (lpq (getl s' l))) ->
     rtask s' l (Z.to_nat (eobj e)) = rtask s l (Z.to_nat (eobj e))) ->
  (forall g, fdone s g = true -> fdone s' g = true) ->
  (forall l e, In e (arr (lpq (getl s' l))) ->
     let u := rtask s l (Z.to_nat (eobj e)) in
     (tholding (gett s' u) = [] -> tholding (gett s u) = []) /\ tprio (gett s' u) = tprio (gett s u)) ->
  KF s -> KF s'.
Proof.
  intros Hsub Hrt Hdn Hth K l e He Hd Hh. rewrite (Hrt l e He) in *.
  destruct (Hth l e He) as [H1 H2].
  assert (Eo : own s' (rtask s l (Z.to_nat (eobj e))) = own s (rtask s l (Z.to_nat (eobj e)))).
  { unfold own. now rewrite H2. }
  rewrite Eo. apply K; auto.
  destruct (fdone s (Z.to_nat (eobj e))) eqn:E; auto. rewrite (Hdn _ E) in Hd. discriminate.
Qed.

(* the recorded task of a queued future is the task of its row *)
Lemma rtask_row ne X R s l e :
  WIx ne X R s -> In e (arr (lpq (getl s l))) ->
  In (Z.to_nat (eobj e), rtask s l (Z.to_nat (eobj e))) (rows s l).
Proof.
  intros W He.
  assert (Hin : In (Z.to_nat (eobj e)) (objs s l)).
  { unfold objs, pq_objs. apply (in_map (fun e0 : entry Q => Z.to_nat (eobj e0))). exact He. }
  apply (w_objs W) in Hin. apply in_map_iff in Hin as ([f u] & Ef & Hu). simpl in Ef. subst f.
  unfold rtask. rewrite (task_of_fut_unique _ _ _ (w_nodup W l) Hu). exact Hu.
Qed.

(* a waiter that holds no lock contributes its own priority *)
Lemma wprio_own_nohold s u : tholding (gett s u) = [] -> wprio s u = own s u.
Proof.
  intros H. unfold wprio, own. destruct (tprio (gett s u)) eqn:E; auto.
  unfold effective_priority. rewrite eprio_no_waiters; [unfold own; now rewrite E|].
  unfold waiters_of. now rewrite H.
Qed.
Lemma eprio_own_nohold s u : tholding (gett s u) = [] -> effective_priority s u = own s u.
Proof.
  intros H. unfold effective_priority. apply eprio_no_waiters. unfold waiters_of. now rewrite H.
Qed.
