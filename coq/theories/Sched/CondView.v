(* C14, part 1: what the lock operations used by Condition.wait() do to the
   "ownership view" of the state.

   [lview]  per lock: kind, locked flag, owner        (what C14 talks about)
   [cview]  per condition: its lock
   [pview]  per task: is it a PriorityTask

   Every primitive of the model either leaves the three views alone or rewrites
   exactly one entry of [lview] (taking a lock).  Equalities of views compose by
   rewriting, so the frame lemmas of Sched/CondProofs.v stay short. *)
From Coq Require Import QArith.
From RecordUpdate Require Import RecordUpdate.
From Asynkit Require Import Base.Prelude Queue.PQ Queue.PosPQ Queue.Exec Sched.Model Sched.Tables.
Import RecordSetNotations.
Open Scope nat_scope.

Definition lv (lk : lock) : lkind * bool * option nat := (lkind_ lk, llocked lk, lowner lk).
Definition lview (s : st) : list (lkind * bool * option nat) := map lv (locks s).
Definition cview (s : st) : list nat := map clock (conds s).
Definition isp (tk : task) : bool := match tprio tk with Some _ => true | None => false end.
Definition pview (s : st) : list bool := map isp (tasks s).

Record same_view (s s' : st) : Prop := mkSV {
  sv_l : lview s' = lview s; sv_c : cview s' = cview s; sv_p : pview s' = pview s }.

Arguments sv_l {s s'} _.
Arguments sv_c {s s'} _.
Arguments sv_p {s s'} _.

Lemma sv_refl s : same_view s s.
Proof. constructor; reflexivity. Qed.
Lemma sv_trans s1 s2 s3 : same_view s1 s2 -> same_view s2 s3 -> same_view s1 s3.
Proof. intros [a b c] [d e f]. constructor; congruence. Qed.

(* reading the views *)
Lemma lv_getl s l : lv (getl s l) = nth l (lview s) (lv dlock).
Proof. unfold lview, getl. now rewrite map_nth. Qed.
Lemma clock_getc s c : clock (getc s c) = nth c (cview s) (clock dcond).
Proof. unfold cview, getc. now rewrite map_nth. Qed.
Lemma isp_gett s t : is_prio_task s t = nth t (pview s) (isp dtask).
Proof. unfold pview, gett, is_prio_task. now rewrite (map_nth isp). Qed.

Lemma lview_kind s s' l : lview s' = lview s -> lkind_ (getl s' l) = lkind_ (getl s l).
Proof.
  intros E. pose proof (lv_getl s l) as A. pose proof (lv_getl s' l) as B. rewrite E in B.
  unfold lv in *. congruence.
Qed.
Lemma lview_locked s s' l : lview s' = lview s -> llocked (getl s' l) = llocked (getl s l).
Proof.
  intros E. pose proof (lv_getl s l) as A. pose proof (lv_getl s' l) as B. rewrite E in B.
  unfold lv in *. congruence.
Qed.
Lemma lview_owner s s' l : lview s' = lview s -> lowner (getl s' l) = lowner (getl s l).
Proof.
  intros E. pose proof (lv_getl s l) as A. pose proof (lv_getl s' l) as B. rewrite E in B.
  unfold lv in *. congruence.
Qed.
Lemma lview_len s s' : lview s' = lview s -> length (locks s') = length (locks s).
Proof. intros E. apply (f_equal (@length _)) in E. unfold lview in E. now rewrite !map_length in E. Qed.
Lemma cview_clock s s' c : cview s' = cview s -> clock (getc s' c) = clock (getc s c).
Proof. intros E. now rewrite !clock_getc, E. Qed.
Lemma pview_prio s s' t : pview s' = pview s -> is_prio_task s' t = is_prio_task s t.
Proof. intros E. now rewrite !isp_gett, E. Qed.

(* ------------------------------------------------------------ setters *)
Lemma lview_setl_same s l x : lv x = lv (getl s l) -> lview (setl s l x) = lview s.
Proof. intros E. unfold lview, setl. cbn. apply map_set_nth_same with (d := dlock). exact E. Qed.
Lemma lview_setl s l x : lview (setl s l x) = set_nth (lview s) l (lv x).
Proof. unfold lview, setl. cbn. apply map_set_nth. Qed.
Lemma pview_sett_same s t x : isp x = isp (gett s t) -> pview (sett s t x) = pview s.
Proof. intros E. unfold pview, sett. cbn. apply map_set_nth_same with (d := dtask). exact E. Qed.
Lemma cview_setc_same s c x : clock x = clock (getc s c) -> cview (setc s c x) = cview s.
Proof. intros E. unfold cview, setc. cbn. apply map_set_nth_same with (d := dcond). exact E. Qed.

Lemma sv_setl s l x : lv x = lv (getl s l) -> same_view s (setl s l x).
Proof. intros E. constructor; [now apply lview_setl_same|reflexivity|reflexivity]. Qed.
Lemma sv_sett s t x : isp x = isp (gett s t) -> same_view s (sett s t x).
Proof. intros E. constructor; [reflexivity|reflexivity|now apply pview_sett_same]. Qed.
Lemma sv_setc s c x : clock x = clock (getc s c) -> same_view s (setc s c x).
Proof. intros E. constructor; [reflexivity|now apply cview_setc_same|reflexivity]. Qed.
Lemma sv_setf s f x : same_view s (setf s f x).
Proof. constructor; reflexivity. Qed.
Lemma sv_new_future s o : same_view s (fst (new_future s o)).
Proof. constructor; reflexivity. Qed.
Lemma sv_call_soon s c : same_view s (call_soon_ s c).
Proof. constructor; reflexivity. Qed.

(* states that share the lock, condition and task tables *)
Lemma sv_tables s s' : locks s' = locks s -> conds s' = conds s -> tasks s' = tasks s -> same_view s s'.
Proof. intros A B C. constructor; unfold lview, cview, pview; congruence. Qed.

(* ------------------------------------------------------------ futures *)
Lemma fold_soon_tables f cbs : forall s,
  let s' := fold_left (fun s c => call_soon_ s (cb_callback f c)) cbs s in
  locks s' = locks s /\ conds s' = conds s /\ tasks s' = tasks s /\ futs s' = futs s.
Proof.
  induction cbs as [|c cbs IH]; intros s; simpl; auto.
  destruct (IH (call_soon_ s (cb_callback f c))) as (A & B & C & D). auto.
Qed.

Lemma fut_finish_tables s f x :
  let s' := fst (fut_finish s f x) in
  locks s' = locks s /\ conds s' = conds s /\ tasks s' = tasks s.
Proof.
  unfold fut_finish. destruct (fstate_ (getf s f)); cbn [fst]; auto.
  unfold schedule_callbacks.
  match goal with |- context [fold_left ?F ?L ?S] => destruct (fold_soon_tables f L S) as (A & B & C & _) end.
  cbv zeta. rewrite A, B, C. auto.
Qed.

Lemma sv_fut_finish s f x : same_view s (fst (fut_finish s f x)).
Proof. destruct (fut_finish_tables s f x) as (A & B & C). now apply sv_tables. Qed.

(* the futures table after fut_finish: only f changes *)
Lemma fut_finish_getf_other s f x g : g <> f -> getf (fst (fut_finish s f x)) g = getf s g.
Proof.
  intros Hne. unfold fut_finish. destruct (fstate_ (getf s f)); cbn [fst]; auto.
  unfold schedule_callbacks.
  match goal with |- context [fold_left ?F ?L ?S] => destruct (fold_soon_tables f L S) as (_ & _ & _ & D) end.
  unfold getf at 1. cbv zeta in D. rewrite D. fold (getf (setf (setf s f (getf s f <| fstate_ := x |>)) f
     (getf (setf s f (getf s f <| fstate_ := x |>)) f <| fcbs := [] |>)) g).
  rewrite !getf_setf_other by auto. reflexivity.
Qed.

Lemma fut_finish_len s f x : length (futs (fst (fut_finish s f x))) = length (futs s).
Proof.
  unfold fut_finish. destruct (fstate_ (getf s f)); cbn [fst]; auto.
  unfold schedule_callbacks.
  match goal with |- context [fold_left ?F ?L ?S] => destruct (fold_soon_tables f L S) as (_ & _ & _ & D) end.
  cbv zeta in D. rewrite D. unfold setf. cbn. now rewrite !set_nth_length.
Qed.

Lemma fut_finish_state s f x :
  f < length (futs s) -> fstate_ (getf s f) = FPending ->
  fstate_ (getf (fst (fut_finish s f x)) f) = x.
Proof.
  intros Hf Hp. unfold fut_finish. rewrite Hp. cbn [fst]. unfold schedule_callbacks.
  match goal with |- context [fold_left ?F ?L ?S] => destruct (fold_soon_tables f L S) as (_ & _ & _ & D) end.
  unfold getf at 1. cbv zeta in D. rewrite D.
  set (s1 := setf s f (getf s f <| fstate_ := x |>)).
  fold (getf (setf s1 f (getf s1 f <| fcbs := [] |>)) f).
  assert (H1 : f < length (futs s1)) by (unfold s1, setf; cbn; now rewrite set_nth_length).
  rewrite getf_setf_same by auto.
  assert (E1 : getf s1 f = getf s f <| fstate_ := x |>) by (unfold s1; now rewrite getf_setf_same).
  rewrite E1. reflexivity.
Qed.

Lemma sv_wake_p s l : same_view s (wake_up_first_p s l).
Proof.
  unfold wake_up_first_p. destruct (arr (lpq (getl s l))); [apply sv_refl|].
  match goal with |- context [if ?b then _ else _] => destruct b end; [apply sv_refl|].
  match goal with |- context [if ?b then _ else _] => destruct b end; [apply sv_refl|].
  apply sv_fut_finish.
Qed.
Lemma wake_p_tasks s l : tasks (wake_up_first_p s l) = tasks s.
Proof.
  unfold wake_up_first_p. destruct (arr (lpq (getl s l))); [reflexivity|].
  match goal with |- context [if ?b then _ else _] => destruct b end; [reflexivity|].
  match goal with |- context [if ?b then _ else _] => destruct b end; [reflexivity|].
  apply fut_finish_tables.
Qed.
Lemma wake_p_conds s l : conds (wake_up_first_p s l) = conds s.
Proof.
  unfold wake_up_first_p. destruct (arr (lpq (getl s l))); [reflexivity|].
  match goal with |- context [if ?b then _ else _] => destruct b end; [reflexivity|].
  match goal with |- context [if ?b then _ else _] => destruct b end; [reflexivity|].
  apply fut_finish_tables.
Qed.

Lemma sv_wake_a s l : same_view s (wake_up_first_a s l).
Proof.
  unfold wake_up_first_a. destruct (ldq (getl s l)) as [|f r]; [apply sv_refl|].
  destruct (fdone s f); [apply sv_refl|apply sv_fut_finish].
Qed.
Lemma wake_a_conds s l : conds (wake_up_first_a s l) = conds s.
Proof.
  unfold wake_up_first_a. destruct (ldq (getl s l)) as [|f r]; [reflexivity|].
  destruct (fdone s f); [reflexivity|apply fut_finish_tables].
Qed.

(* ------------------------------------------------------------ priority propagation *)
Lemma sv_propagate_task fuel : forall s t, same_view s (propagate_task fuel s t).
Proof.
  induction fuel as [|fuel IH]; intros s t; cbn [propagate_task].
  - destruct (negb (is_prio_task s t)); [apply sv_refl|].
    destruct (task_is_runnable s t); destruct (twaiting (gett _ t)); try apply sv_refl; constructor; reflexivity.
  - destruct (negb (is_prio_task s t)); [apply sv_refl|].
    set (s0 := if task_is_runnable s t then task_reschedule s t else s).
    assert (E0 : same_view s s0) by (unfold s0; destruct (task_is_runnable s t); [constructor; reflexivity|apply sv_refl]).
    clearbody s0. eapply sv_trans; [exact E0|]. clear E0 s. rename s0 into s.
    destruct (twaiting (gett s t)) as [l|]; [|apply sv_refl].
    set (s1 := match lowner (getl s l) with Some o => propagate_task fuel s o | None => s end).
    assert (E1 : same_view s s1) by (unfold s1; destruct (lowner (getl s l)); [apply IH|apply sv_refl]).
    destruct (find _ (lwt (getl s1 l))) as [[f t0]|]; [|exact E1].
    destruct (pq_reschedule HQ _ _ _) as [[o q']|]; [|exact E1].
    eapply sv_trans; [exact E1|]. apply sv_setl. reflexivity.
Qed.
Lemma propagate_task_conds fuel : forall s t, conds (propagate_task fuel s t) = conds s.
Proof.
  induction fuel as [|fuel IH]; intros s t; cbn [propagate_task].
  - destruct (negb (is_prio_task s t)); [reflexivity|].
    destruct (task_is_runnable s t); destruct (twaiting (gett _ t)); reflexivity.
  - destruct (negb (is_prio_task s t)); [reflexivity|].
    set (s0 := if task_is_runnable s t then task_reschedule s t else s).
    assert (E0 : conds s0 = conds s) by (unfold s0; destruct (task_is_runnable s t); reflexivity).
    clearbody s0. rewrite <- E0. clear E0 s. rename s0 into s.
    destruct (twaiting (gett s t)) as [l|]; [|reflexivity].
    set (s1 := match lowner (getl s l) with Some o => propagate_task fuel s o | None => s end).
    assert (E1 : conds s1 = conds s) by (unfold s1; destruct (lowner (getl s l)); [apply IH|reflexivity]).
    destruct (find _ (lwt (getl s1 l))) as [[f t0]|]; [|exact E1].
    destruct (pq_reschedule HQ _ _ _) as [[o q']|]; exact E1.
Qed.
Lemma propagate_task_futs fuel : forall s t, futs (propagate_task fuel s t) = futs s.
Proof.
  induction fuel as [|fuel IH]; intros s t; cbn [propagate_task].
  - destruct (negb (is_prio_task s t)); [reflexivity|].
    destruct (task_is_runnable s t); destruct (twaiting (gett _ t)); reflexivity.
  - destruct (negb (is_prio_task s t)); [reflexivity|].
    set (s0 := if task_is_runnable s t then task_reschedule s t else s).
    assert (E0 : futs s0 = futs s) by (unfold s0; destruct (task_is_runnable s t); reflexivity).
    clearbody s0. rewrite <- E0. clear E0 s. rename s0 into s.
    destruct (twaiting (gett s t)) as [l|]; [|reflexivity].
    set (s1 := match lowner (getl s l) with Some o => propagate_task fuel s o | None => s end).
    assert (E1 : futs s1 = futs s) by (unfold s1; destruct (lowner (getl s l)); [apply IH|reflexivity]).
    destruct (find _ (lwt (getl s1 l))) as [[f t0]|]; [|exact E1].
    destruct (pq_reschedule HQ _ _ _) as [[o q']|]; exact E1.
Qed.
Lemma sv_propagate s t : same_view s (propagate_priority s t).
Proof. apply sv_propagate_task. Qed.

(* ------------------------------------------------------------ holding the lock *)
(* "the condition's lock is held by the caller": locked; for a PriorityLock the
   recorded owner is the caller (an asyncio.Lock has no owner field) *)
Definition held (s : st) (t l : nat) : Prop :=
  llocked (getl s l) = true /\ (lkind_ (getl s l) = LPrio -> lowner (getl s l) = Some t).

Lemma held_view s s' t l : lview s' = lview s -> held s t l -> held s' t l.
Proof.
  intros E [A B]. split.
  - now rewrite (lview_locked s s' l E).
  - rewrite (lview_kind s s' l E), (lview_owner s s' l E). exact B.
Qed.

(* the lock entry of the view after a successful take *)
Definition taken (s s' : st) (t l : nat) : Prop :=
  lview s' = set_nth (lview s) l
    (lkind_ (getl s l), true, match lkind_ (getl s l) with LPrio => Some t | LPlain => lowner (getl s l) end) /\
  cview s' = cview s /\ pview s' = pview s.

Lemma taken_held s s' t l : l < length (locks s) -> taken s s' t l -> held s' t l.
Proof.
  intros Hl (E & _ & _). unfold held.
  pose proof (lv_getl s' l) as B. rewrite E in B.
  rewrite nth_set_nth_same in B by (unfold lview; now rewrite map_length).
  unfold lv in B. injection B as K L O. split; auto.
  intros Hk. rewrite K in Hk. rewrite O, Hk. reflexivity.
Qed.

Lemma taken_view s s' s'' t l : taken s s' t l -> same_view s' s'' -> taken s s'' t l.
Proof. intros (A & B & C) [D E F]. unfold taken. repeat split; congruence. Qed.

Lemma view_taken s s' s'' t l : same_view s s' -> taken s' s'' t l -> taken s s'' t l.
Proof.
  intros [D E F] (A & B & C). unfold taken.
  rewrite <- (lview_kind s s' l D), <- (lview_owner s s' l D), <- D. repeat split; congruence.
Qed.

Lemma taken_kind s s' t l l0 : taken s s' t l -> lkind_ (getl s' l0) = lkind_ (getl s l0).
Proof.
  intros (E & _ & _). pose proof (lv_getl s' l0) as B. rewrite E in B.
  rewrite nth_set_nth in B. pose proof (lv_getl s l0) as A.
  destruct (Nat.eqb l l0 && Nat.ltb l (length (lview s)))%bool eqn:Eb.
  - apply andb_prop in Eb as [Eq _]. apply Nat.eqb_eq in Eq. subst l0.
    unfold lv in B. congruence.
  - unfold lv in *. congruence.
Qed.
Lemma taken_len s s' t l : taken s s' t l -> length (locks s') = length (locks s).
Proof.
  intros (E & _ & _). apply (f_equal (@length _)) in E. rewrite set_nth_length in E.
  unfold lview in E. now rewrite !map_length in E.
Qed.

(* ------------------------------------------------------------ _take_lock *)
Lemma take_lock_taken s l t :
  lkind_ (getl s l) = LPrio -> lowner (getl s l) = None ->
  exists s', take_lock s l t = inl s' /\ taken s s' t l /\ conds s' = conds s /\
             (forall t', twaiting (gett s' t') = twaiting (gett s t')).
Proof.
  intros Hk Ho. unfold take_lock. rewrite Ho.
  set (s1 := setl s l (getl s l <| lowner := Some t |> <| llocked := true |>)).
  assert (T1 : taken s s1 t l).
  { unfold taken, s1. rewrite lview_setl. unfold lv. cbn. rewrite !Hk. auto. }
  destruct (is_prio_task s1 t) eqn:Ep.
  - eexists. split; [reflexivity|]. split; [|split; [reflexivity|]].
    + eapply taken_view; [exact T1|]. apply sv_sett. reflexivity.
    + intros t'. rewrite gett_sett.
      destruct (Nat.eqb t t' && Nat.ltb t (length (tasks s1)))%bool eqn:Eb; [|reflexivity].
      apply andb_prop in Eb as [Eq _]. apply Nat.eqb_eq in Eq. subst t'. reflexivity.
  - eexists. split; [reflexivity|]. split; [exact T1|]. split; reflexivity.
Qed.

(* ------------------------------------------------------------ acquire, first half *)
(* PriorityLock.acquire() up to its await: with the lock's bookkeeping sound
   (free => no owner) and the task not already waiting on a lock, it either
   takes the lock at once - only when the lock is free and nobody queues - or
   suspends on a fresh future, leaving all ownership untouched. *)
Lemma acquire_p_start_spec s t l :
  lkind_ (getl s l) = LPrio ->
  (llocked (getl s l) = false -> lowner (getl s l) = None) ->
  (is_prio_task s t = true -> twaiting (gett s t) = None) ->
  let s' := fst (acquire_p_start s t l) in
  (snd (acquire_p_start s t l) = LDone (RVal 1) /\ taken s s' t l /\ llocked (getl s l) = false /\
   conds s' = conds s)
  \/
  (snd (acquire_p_start s t l) = LSusp (YFut (length (futs s)))
         [InFut (length (futs s)); InAcquireP l (length (futs s)) (is_prio_task s t)] /\
   same_view s s' /\ conds s' = conds s).
Proof.
  intros Hk HI1 Hw. unfold acquire_p_start.
  destruct (negb (llocked (getl s l)) && _)%bool eqn:Efast.
  - left. apply andb_prop in Efast as [Hl _]. apply negb_true_iff in Hl.
    destruct (take_lock_taken s l t Hk (HI1 Hl)) as (s1 & E & T & C & _).
    rewrite E. cbn [fst snd]. auto.
  - right. change (new_future s None) with (fst (new_future s None), length (futs s)). cbv beta iota.
    set (s1 := fst (new_future s None)).
    assert (Ew : (is_prio_task s t && match twaiting (gett s1 t) with Some _ => true | None => false end)%bool = false).
    { destruct (is_prio_task s t) eqn:Ep; [|reflexivity].
      change (gett s1 t) with (gett s t). now rewrite (Hw eq_refl). }
    rewrite Ew. cbn [fst snd]. split; [reflexivity|].
    set (s2 := if is_prio_task s t then sett s1 t (gett s1 t <| twaiting := Some l |>) else s1).
    assert (V2 : same_view s s2 /\ conds s2 = conds s).
    { unfold s2. destruct (is_prio_task s t); [|split; [apply sv_new_future|reflexivity]].
      split; [|reflexivity]. eapply sv_trans; [apply sv_new_future|]. apply sv_sett. reflexivity. }
    set (s3 := setl s2 l _).
    assert (V3 : same_view s s3 /\ conds s3 = conds s).
    { destruct V2 as [V2 C2]. split; [|exact C2]. eapply sv_trans; [exact V2|]. apply sv_setl. reflexivity. }
    match goal with |- same_view s (setf ?S _ _) /\ _ => set (s4 := S) end.
    assert (V4 : same_view s s4 /\ conds s4 = conds s).
    { unfold s4. destruct V3 as [V3 C3]. destruct (lowner (getl s3 l)); [|auto].
      split; [eapply sv_trans; [exact V3|apply sv_propagate]|].
      unfold propagate_priority. now rewrite propagate_task_conds. }
    destruct V4 as [V4 C4]. split; [|exact C4]. eapply sv_trans; [exact V4|apply sv_setf].
Qed.

(* asyncio.Lock.acquire() up to its await *)
Lemma acquire_a_start_spec s t l :
  lkind_ (getl s l) = LPlain ->
  let s' := fst (acquire_a_start s l) in
  (snd (acquire_a_start s l) = LDone (RVal 1) /\ taken s s' t l /\ llocked (getl s l) = false /\
   conds s' = conds s /\ tasks s' = tasks s)
  \/
  (snd (acquire_a_start s l) = LSusp (YFut (length (futs s)))
         [InFut (length (futs s)); InAcquireA l (length (futs s))] /\
   same_view s s' /\ conds s' = conds s /\ tasks s' = tasks s).
Proof.
  intros Hk. unfold acquire_a_start.
  destruct (negb (llocked (getl s l)) && _)%bool eqn:Efast.
  - left. apply andb_prop in Efast as [Hl _]. apply negb_true_iff in Hl. cbn [fst snd].
    split; [reflexivity|]. split; [|repeat split; auto].
    unfold taken. rewrite lview_setl. unfold lv. cbn. rewrite !Hk. auto.
  - right. change (new_future s None) with (fst (new_future s None), length (futs s)). cbv beta iota.
    cbn [fst snd]. split; [reflexivity|]. split; [|split; reflexivity].
    eapply sv_trans; [apply sv_new_future|]. eapply sv_trans; [|apply sv_setf]. apply sv_setl; reflexivity.
Qed.

(* ------------------------------------------------------------ acquire, second half *)
(* PriorityLock.acquire() after its await, woken with a result while the lock has no owner *)
Lemma acquire_p_finish_val s t l f had v :
  lkind_ (getl s l) = LPrio -> lowner (getl s l) = None ->
  let s' := fst (acquire_p_finish s t l f had (RVal v)) in
  snd (acquire_p_finish s t l f had (RVal v)) = RVal 1 /\ taken s s' t l /\ conds s' = conds s.
Proof.
  intros Hk Ho. unfold acquire_p_finish.
  destruct (take_lock_taken s l t Hk Ho) as (s1 & E & T & C & _). rewrite E.
  set (s2 := match pq_remove HQ (lpq (getl s1 l)) (Z.of_nat f) with
             | Some (_, q') => setl s1 l (getl s1 l <| lpq := q' |>
                                 <| lwt := filter (fun pr => negb (Nat.eqb (fst pr) f)) (lwt (getl s1 l)) |>)
             | None => s1 end).
  assert (V2 : same_view s1 s2 /\ conds s2 = conds s1).
  { unfold s2. destruct (pq_remove HQ _ _) as [[p q']|]; [|split; [apply sv_refl|reflexivity]].
    split; [apply sv_setl; reflexivity|reflexivity]. }
  set (s3 := if llocked (getl s2 l)
             then match lowner (getl s2 l) with
                  | Some o => if Nat.eqb o t then s2 else propagate_priority s2 o
                  | None => s2 end
             else wake_up_first_p s2 l).
  assert (V3 : same_view s2 s3 /\ conds s3 = conds s2).
  { unfold s3. destruct (llocked (getl s2 l)).
    - destruct (lowner (getl s2 l)) as [o|]; [|split; [apply sv_refl|reflexivity]].
      destruct (Nat.eqb o t); [split; [apply sv_refl|reflexivity]|].
      split; [apply sv_propagate|]. unfold propagate_priority. now rewrite propagate_task_conds.
    - split; [apply sv_wake_p|apply wake_p_conds]. }
  destruct V2 as [V2 C2]. destruct V3 as [V3 C3].
  assert (V23 : same_view s1 s3) by (eapply sv_trans; eauto).
  destruct had; cbn [fst snd]; (split; [reflexivity|]);
    (split; [|try change (conds s3 = conds s); congruence]).
  - eapply taken_view; [exact T|]. eapply sv_trans; [exact V23|]. apply sv_sett. reflexivity.
  - eapply taken_view; eauto.
Qed.

(* ... and when an exception is thrown into it: the waiter is dequeued, the
   wake-up possibly passed on, nothing is taken, the exception propagates *)
Lemma acquire_p_finish_exc s t l f had e :
  let s' := fst (acquire_p_finish s t l f had (RExc e)) in
  snd (acquire_p_finish s t l f had (RExc e)) = RExc e /\ same_view s s' /\ conds s' = conds s /\
  (had = true -> twaiting (gett s' t) = None).
Proof.
  unfold acquire_p_finish.
  set (s2 := match pq_remove HQ (lpq (getl s l)) (Z.of_nat f) with
             | Some (_, q') => setl s l (getl s l <| lpq := q' |>
                                 <| lwt := filter (fun pr => negb (Nat.eqb (fst pr) f)) (lwt (getl s l)) |>)
             | None => s end).
  assert (V2 : same_view s s2 /\ conds s2 = conds s).
  { unfold s2. destruct (pq_remove HQ _ _) as [[p q']|]; [|split; [apply sv_refl|reflexivity]].
    split; [apply sv_setl; reflexivity|reflexivity]. }
  set (s3 := if llocked (getl s2 l)
             then match lowner (getl s2 l) with
                  | Some o => if Nat.eqb o t then s2 else propagate_priority s2 o
                  | None => s2 end
             else wake_up_first_p s2 l).
  assert (V3 : same_view s2 s3 /\ conds s3 = conds s2).
  { unfold s3. destruct (llocked (getl s2 l)).
    - destruct (lowner (getl s2 l)) as [o|]; [|split; [apply sv_refl|reflexivity]].
      destruct (Nat.eqb o t); [split; [apply sv_refl|reflexivity]|].
      split; [apply sv_propagate|]. unfold propagate_priority. now rewrite propagate_task_conds.
    - split; [apply sv_wake_p|apply wake_p_conds]. }
  destruct V2 as [V2 C2]. destruct V3 as [V3 C3].
  assert (V23 : same_view s s3) by (eapply sv_trans; eauto).
  destruct had; cbn [fst snd]; (split; [reflexivity|]).
  - split; [eapply sv_trans; [exact V23|apply sv_sett; reflexivity]|].
    split; [change (conds s3 = conds s); congruence|].
    intros _. rewrite gett_sett.
    destruct (Nat.eqb t t && Nat.ltb t (length (tasks s3)))%bool eqn:Eb; [reflexivity|].
    rewrite Nat.eqb_refl in Eb. cbn in Eb. apply Nat.ltb_ge in Eb. now rewrite gett_oob.
  - split; [exact V23|]. split; [congruence|]. intros; discriminate.
Qed.

(* asyncio.Lock.acquire() after its await *)
Lemma acquire_a_finish_val s t l f v :
  lkind_ (getl s l) = LPlain ->
  let s' := fst (acquire_a_finish s l f (RVal v)) in
  snd (acquire_a_finish s l f (RVal v)) = RVal 1 /\ taken s s' t l /\ conds s' = conds s /\
  tasks s' = tasks s.
Proof.
  intros Hk. unfold acquire_a_finish. cbv zeta.
  set (s1 := setl s l (getl s l <| ldq := filter (fun x => negb (Nat.eqb x f)) (ldq (getl s l)) |>)).
  cbn [fst snd]. split; [reflexivity|]. split; [|split; reflexivity].
  assert (V1 : same_view s s1) by (apply sv_setl; reflexivity).
  eapply view_taken; [exact V1|]. unfold taken. rewrite lview_setl.
  pose proof (lview_kind s s1 l (sv_l V1)) as K1. rewrite Hk in K1.
  change (lv (getl s1 l <| llocked := true |>)) with (lkind_ (getl s1 l), true, lowner (getl s1 l)).
  rewrite !K1. repeat split; reflexivity.
Qed.

Lemma acquire_a_finish_exc s l f e :
  let s' := fst (acquire_a_finish s l f (RExc e)) in
  snd (acquire_a_finish s l f (RExc e)) = RExc e /\ same_view s s' /\ conds s' = conds s /\
  tasks s' = tasks s.
Proof.
  unfold acquire_a_finish. cbv zeta.
  set (s1 := setl s l (getl s l <| ldq := filter (fun x => negb (Nat.eqb x f)) (ldq (getl s l)) |>)).
  assert (V1 : same_view s s1) by (apply sv_setl; reflexivity).
  destruct (is_cancel e); cbn [fst snd]; (split; [reflexivity|]); [|auto].
  destruct (llocked (getl s1 l)); [auto|].
  split; [eapply sv_trans; [exact V1|apply sv_wake_a]|]. split; [now rewrite wake_a_conds|].
  unfold wake_up_first_a. destruct (ldq (getl s1 l)) as [|g r]; [reflexivity|].
  destruct (fdone s1 g); [reflexivity|]. now destruct (fut_finish_tables s1 g (FResult 1)) as (_ & _ & ->).
Qed.

(* ------------------------------------------------------------ the futures table keeps its size *)
Lemma take_lock_futs s l t s' : take_lock s l t = inl s' -> futs s' = futs s.
Proof.
  unfold take_lock. destruct (lowner (getl s l)); [discriminate|]. intros H. inversion H; subst; clear H.
  match goal with |- context [if ?b then _ else _] => destruct b end; reflexivity.
Qed.

Lemma wake_p_flen s l : length (futs (wake_up_first_p s l)) = length (futs s).
Proof.
  unfold wake_up_first_p. destruct (arr (lpq (getl s l))); [reflexivity|].
  match goal with |- context [if ?b then _ else _] => destruct b end; [reflexivity|].
  match goal with |- context [if ?b then _ else _] => destruct b end; [reflexivity|].
  apply fut_finish_len.
Qed.
Lemma wake_a_flen s l : length (futs (wake_up_first_a s l)) = length (futs s).
Proof.
  unfold wake_up_first_a. destruct (ldq (getl s l)) as [|g r]; [reflexivity|].
  destruct (fdone s g); [reflexivity|apply fut_finish_len].
Qed.

Lemma acquire_p_finish_flen s t l f had inp :
  length (futs (fst (acquire_p_finish s t l f had inp))) = length (futs s).
Proof.
  unfold acquire_p_finish.
  set (p := match inp with
            | RVal _ => match take_lock s l t with inl s' => (s', RVal 1) | inr e => (s, RExc e) end
            | RExc e => (s, RExc e) end).
  assert (E0 : futs (fst p) = futs s).
  { unfold p. destruct inp; [|reflexivity]. destruct (take_lock s l t) eqn:E; [|reflexivity].
    cbn [fst]. eapply take_lock_futs; eauto. }
  destruct p as [s1 r]. cbn [fst] in E0.
  set (s2 := match pq_remove HQ (lpq (getl s1 l)) (Z.of_nat f) with
             | Some (_, q') => setl s1 l (getl s1 l <| lpq := q' |>
                                 <| lwt := filter (fun pr => negb (Nat.eqb (fst pr) f)) (lwt (getl s1 l)) |>)
             | None => s1 end).
  assert (E2 : futs s2 = futs s1) by (unfold s2; destruct (pq_remove HQ _ _) as [[? ?]|]; reflexivity).
  set (s3 := if llocked (getl s2 l)
             then match lowner (getl s2 l) with
                  | Some o => if Nat.eqb o t then s2 else propagate_priority s2 o
                  | None => s2 end
             else wake_up_first_p s2 l).
  assert (E3 : length (futs s3) = length (futs s2)).
  { unfold s3. destruct (llocked (getl s2 l)); [|apply wake_p_flen].
    destruct (lowner (getl s2 l)) as [o|]; [|reflexivity].
    destruct (Nat.eqb o t); [reflexivity|].
    unfold propagate_priority. now rewrite propagate_task_futs. }
  destruct had; cbn [fst]; [change (length (futs s3) = length (futs s))|]; congruence.
Qed.

Lemma acquire_a_finish_flen s l f inp :
  length (futs (fst (acquire_a_finish s l f inp))) = length (futs s).
Proof.
  unfold acquire_a_finish. cbv zeta.
  set (s1 := setl s l (getl s l <| ldq := filter (fun x => negb (Nat.eqb x f)) (ldq (getl s l)) |>)).
  destruct inp as [v|e]; [reflexivity|].
  destruct (is_cancel e); [|reflexivity]. cbn [fst].
  destruct (llocked (getl s1 l)); [reflexivity|]. now rewrite wake_a_flen.
Qed.

Lemma acquire_start_done_flen s t l v :
  snd (acquire_start s t l) = LDone (RVal v) ->
  length (futs (fst (acquire_start s t l))) = length (futs s).
Proof.
  unfold acquire_start. destruct (lkind_ (getl s l)).
  - unfold acquire_p_start.
    destruct (negb (llocked (getl s l)) && _)%bool.
    + destruct (take_lock s l t) eqn:E; cbn [fst snd]; [|reflexivity].
      intros _. f_equal. eapply take_lock_futs; eauto.
    + change (new_future s None) with (fst (new_future s None), length (futs s)). cbv beta iota.
      destruct (is_prio_task s t && _)%bool; cbn [fst snd]; intros H; discriminate.
  - unfold acquire_a_start.
    destruct (negb (llocked (getl s l)) && _)%bool; [reflexivity|].
    change (new_future s None) with (fst (new_future s None), length (futs s)). cbv beta iota.
    cbn [snd]. intros H; discriminate.
Qed.
