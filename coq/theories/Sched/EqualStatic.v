(* C10: the monitor of the whole-run simulation holds on every run satisfying actions_ok + nec +
   "all priorities are 0" (Part B; Part A is EqualStaticA.v).  Under InvC + XI:
     uq s t    for EVERY task t - a task that is not done has at most one handle (Inv09), a
               finished one has none (XI) - so every queue_find(task) sees at most one handle;
     rwfb s    is i_rwf;
   and these are threaded through lib_call / resume_stack / exec (every coro tree) /
   step_task / run_one / do_action / whole runs next to the monitor. *)
From Coq Require Import QArith Sorting.Permutation.
From RecordUpdate Require Import RecordUpdate.
From Asynkit Require Import Base.Prelude Base.Obs Queue.ListFacts Queue.PQ Queue.PosPQ Queue.Exec
     Sched.Model Sched.Corr Sched.PartTables Sched.PartitionProofs Sched.PartitionSteps Sched.PartitionRun
     Sched.PartitionFinal Sched.LockStatic
     Sched.EqualRunBase Sched.EqualRunOps Sched.EqualRunSteps Sched.EqualRun
     Sched.InertBase Sched.InertOps Sched.InertLib Sched.InertRun Sched.InertStatic Sched.InertThms Sched.EqualStaticA.
Import RecordSetNotations.
Open Scope nat_scope.

Section MonInert.
Variable qok : rq -> Prop.
Hypothesis QS : QSpec qok.
Notation InvC := (InvC qok).
Notation K := (K qok).
Notation KX := (KX qok).

Lemma uq_inert c s t : InvC c s -> XI c s -> uq s t = true.
Proof.
  intros I X. destruct (tdone s t) eqn:Hd; [|eapply uq_of_inv; eauto]. unfold uq. apply Nat.leb_le.
  destruct (Nat.lt_ge_cases t (length (tasks s))) as [Hl|Hl].
  - destruct (x_dead X t Hl Hd) as [-> _]. lia.
  - destruct (i_oor I t Hl) as [-> _]. lia.
Qed.

Lemma mon_lib_inert c s t op : InvC c s -> XI c s -> op_pz op -> mon_lib t op s = true.
Proof.
  intros I X Hp. destruct op; cbn [mon_lib]; auto;
    try (eapply rwfb_of_inv; eauto; fail).
  - (* OTaskSwitch *)
    rewrite (uq_inert c s t0 I X). simpl. destruct p as [p|]; auto.
    destruct (task_reinsert s t0 0) as [s1 r1] eqn:T.
    pose proof (K_task_reinsert qok QS c s s t0 0 s1 r1 T (K_refl qok c s I)) as [I1 _].
    eapply rwfb_of_inv; eauto.
  - eapply uq_inert; eauto.
  - eapply mon_throw_of_inv; eauto.
  - eapply mon_tis_of_inv; eauto.
  - eapply mon_interruptor_of_inv; eauto.
Qed.

Lemma mon_stack_inert c t : forall frs inp s,
  Forall (frame_ok s) frs -> InvC c s -> XI c s -> mon_stack t frs inp s = true.
Proof.
  induction frs as [|fr rest IH]; intros inp s Hf I X; cbn [mon_stack]; auto.
  rewrite (mon_frame_of_inv qok QS c s t fr inp I). simpl.
  inversion Hf as [|? ? Hfr Hrest]; subst.
  destruct (frame_resume t fr inp s) as [s1 r1] eqn:F.
  destruct (frame_resume_K qok QS c t fr inp s s1 r1 F Hfr I) as [HK1 _].
  pose proof (frame_resume_KX qok QS c t fr inp s s1 r1 F Hfr I X) as HX1.
  destruct r1 as [rep|y frs']; auto.
  apply IH; [eapply frames_ok_ext; [apply HK1|exact Hrest]|apply HK1|apply HX1].
Qed.

Lemma mon_exec_inert c t : forall c0, pz c0 -> forall s,
  coro_ok (length (blocks s)) c0 -> exec_nec t c0 s -> InvC c s -> XI c s -> mon_exec t c0 s = true.
Proof.
  induction 1 as [v|e|op k Hp Hk IHk|how child k Hh Hc IHc Hk IHk]; intros s Hok Hn I X.
  - reflexivity.
  - reflexivity.
  - cbn [mon_exec]. cbn [exec_nec] in Hn. destruct Hn as [Hn1 Hn2].
    rewrite (mon_lib_inert c s t op I X Hp). simpl.
    destruct (lib_call t op s) as [s1 r] eqn:L.
    pose proof (lib_call_KX qok QS c t op s s1 r L (proj1 Hok) Hn1 I X) as HK1.
    pose proof (lib_call_kont _ t op k s s1 r Hok (Nat.le_refl _) L (e_blen (proj2 (proj1 HK1)))) as Hk1.
    destruct r as [rep|y frs]; auto.
    apply IHk; [exact Hk1|exact Hn2|apply HK1|apply HK1].
  - destruct Hok as [Hchild Hkk].
    assert (Hk' : forall s2, K c s s2 -> kont_ok (length (blocks s2)) k).
    { intros s2 H2. intros m rep Hm. apply Hkk. pose proof (e_blen (proj2 H2)). lia. }
    destruct how.
    1,2,3: (cbn [mon_exec]; cbn [exec_nec] in Hn; rewrite Hh; cbn [andb];
            destruct (spawn_task s _ child) as [s1 t'] eqn:S;
            pose proof (spawn_task_KX qok QS c s _ child s1 t' S I X Hchild) as HK1;
            apply IHk; [apply (Hk' s1 (proj1 HK1)); lia|exact Hn|apply HK1|apply HK1]).
    + (* SDescend *)
      cbn [mon_exec]. cbn [exec_nec] in Hn. cbn [prio_ok andb].
      destruct (spawn_task s SDescend child) as [s1 t'] eqn:S.
      pose proof (spawn_task_KX qok QS c s _ child s1 t' S I X Hchild) as HK1.
      rewrite (mon_lib_inert c s1 t (OTaskSwitch t' (Some 1)) (proj1 (proj1 HK1)) (proj2 HK1) Logic.I).
      cbn [andb].
      destruct (lib_call t (OTaskSwitch t' (Some 1)) s1) as [s2 r] eqn:L.
      pose proof (lib_call_KX qok QS c t _ s1 s2 r L Logic.I Logic.I (proj1 (proj1 HK1)) (proj2 HK1)) as HK2.
      pose proof (KX_trans qok c s s1 s2 HK1 HK2) as HK12.
      destruct r as [[v|e]|y frs]; auto.
      * apply IHk; [apply (Hk' s2 (proj1 HK12)); lia|exact Hn|apply HK2|apply HK2].
      * apply IHk; [apply (Hk' s2 (proj1 HK12)); lia|exact Hn|apply HK2|apply HK2].
    + (* SStart *)
      cbn [mon_exec]. cbn [prio_ok andb]. destruct (spawn_task s SStart child) as [s1 t']. reflexivity.
    + (* SEager *)
      cbn [mon_exec]. cbn [exec_nec] in Hn. destruct Hn as [Hnc Hn].
      rewrite (IHc s Hchild Hnc I X). cbn [andb].
      destruct (exec t child s) as [s1 o1] eqn:X0.
      pose proof (exec_KX qok QS c t child s s1 o1 X0 Hchild Hnc I X) as HK1.
      destruct (exec_K qok QS c t child s s1 o1 X0 Hchild I) as [_ Ho1].
      destruct o1 as [r|y frs kc].
      * destruct (new_future s1 None) as [s2 f] eqn:N.
        assert (HK2 : KX c s (fst (fut_finish s2 f match r with RVal v => FResult v | RExc e => FExc e end))).
        { apply KX_fut_finish_fst'; [exact QS|destruct r; discriminate| |eapply KX_new_future_eq; eauto].
          intros _. apply (ntf_new_future_eq _ _ _ N). }
        apply IHk; [apply (Hk' _ (proj1 HK2)); lia|exact Hn|apply HK2|apply HK2].
      * set (s2 := match y with YFut f => setf s1 f (getf s1 f <| fblock := false |>) | YNone => s1 end) in *.
        assert (HK2 : KX c s s2) by (unfold s2; xgo).
        destruct Ho1 as [Hf1 Hkc].
        assert (Hk0 : tcont_ok s2 (TEager y frs kc)).
        { simpl. split.
          - eapply frames_ok_ext; [|exact Hf1]. unfold s2. destruct y; [apply ext_refl|].
            eapply ext_same; [..|apply ext_refl]; reflexivity.
          - replace (length (blocks s2)) with (length (blocks s1)); auto.
            unfold s2; destruct y; reflexivity. }
        pose proof (add_task_KX qok QS c s2 KC None (TEager y frs kc) (proj1 (proj1 HK2)) Hk0 (proj2 HK2)) as HK3.
        pose proof (KX_trans qok c s s2 _ HK2 HK3) as HK23.
        change (mon_exec t (k (RVal (Z.of_nat (length (futs s2))))) (add_task s2 KC None (TEager y frs kc)) = true).
        apply IHk; [apply (Hk' _ (proj1 HK23)); lia|exact Hn|apply HK3|apply HK3].
Qed.

(* Task.__step *)
Lemma mon_step_inert t exc s :
  InvC (Some t) s -> current s = None -> XI None s -> step_nec t exc s ->
  cont_pz (tcont_ (gett s t)) -> mon_step t exc s = true.
Proof.
  intros I Hcur X Hn Hpz. pose proof (i_cur I t eq_refl) as Ht. unfold mon_step. unfold step_nec in Hn.
  destruct (tdone s t) eqn:Hd; [reflexivity|].
  cbv zeta in Hn. cbv zeta.
  set (exc' := if tmustc (gett s t) then _ else exc) in *.
  set (x := gett s t <| tmustc := false |> <| twaiter := None |> <| tcont_ := TRun |>) in *.
  set (s2 := sett s t x <| current := Some t |>) in *.
  assert (I2 : InvC (Some t) s2).
  { eapply InvC_same; [..|apply (step_start qok t s x I); reflexivity]; reflexivity. }
  assert (X2 : XI (Some t) s2).
  { eapply XI_same; [..|apply (XI_sett (Some t) s t x eq_refl (XI_cur t s X Hd))]; reflexivity. }
  pose proof (i_frm (i_wf I) t Ht) as Hk.
  assert (Hk2 : tcont_ok s2 (tcont_ (gett s t))).
  { eapply tcont_ok_eq; [| |exact Hk]; reflexivity. }
  set (inp := match exc' with None => RVal 0 | Some e => RExc e end) in *.
  assert (Resume : forall frs k,
    Forall (frame_ok s2) frs -> kont_ok (length (blocks s2)) k -> (forall r, pz (k r)) ->
    (let '(s, r) := resume_stack t frs inp s2 in
     match r with LDone rep => exec_nec t (k rep) s | LSusp _ _ => True end) ->
    mon_resume t frs k inp s2 = true).
  { intros frs k Hf Hko Hpk N. unfold mon_resume.
    rewrite (mon_stack_inert (Some t) t frs inp s2 Hf I2 X2). cbn [andb].
    destruct (resume_stack t frs inp s2) as [sa r] eqn:R.
    destruct (resume_stack_K qok QS (Some t) t frs inp s2 sa r R Hf I2) as [HKa Hl].
    pose proof (resume_stack_KX qok QS (Some t) t frs inp s2 sa r R Hf I2 X2) as HXa.
    pose proof (e_blen (proj2 HKa)) as Hb.
    destruct r as [rep|y frs']; auto.
    apply (mon_exec_inert (Some t) t (k rep) (Hpk rep) sa); [apply Hko; exact Hb|exact N|apply HKa|apply HXa]. }
  destruct (tcont_ (gett s t)) as [c0|frs k|y frs k| |]; cbn [cont_pz] in Hpz; auto.
  - destruct exc'; auto. apply (mon_exec_inert (Some t) t c0 Hpz s2 Hk2 Hn I2 X2).
  - destruct Hk2. apply Resume; auto.
  - destruct Hk2. destruct exc'; [apply Resume; auto|reflexivity].
Qed.

Lemma mon_run_one_inert s :
  InvC None s -> current s = None -> XI None s -> run_one_nec s -> conts_pz s -> mon_run_one s = true.
Proof.
  intros I Hc X Hn Hpz. unfold mon_run_one. unfold run_one_nec in Hn.
  destruct (rq_popleft (ready s)) as [[h r]|] eqn:Pp; [|reflexivity].
  destruct (q_popleft QS _ _ _ (i_qok (i_wf I)) Pp) as [Hq P].
  cbv zeta in Hn. cbv zeta.
  set (sp := s <| ready := r |>) in *.
  change (geth sp h) with (geth s h) in *.
  assert (Xp : XI None sp) by apply (XI_pop None s h r P X).
  assert (Hpzp : conts_pz sp) by exact Hpz.
  destruct (hcancelled (geth s h)) eqn:Hcan; [reflexivity|].
  destruct (hcb (geth s h)) as [t e|t f|t p|n|f v|b| |t] eqn:Hcb; cbn [mon_cb]; cbn [callback_nec] in Hn; auto.
  - (* HStep *)
    apply mon_step_inert; auto; [|apply (conts_pz_get sp t Hpzp)].
    eapply pop_task; eauto. unfold task_of_handle. rewrite Hcb. reflexivity.
  - (* HWakeup *)
    assert (I1 : InvC (Some t) sp).
    { eapply pop_task; eauto. unfold task_of_handle. rewrite Hcb. reflexivity. }
    unfold mon_wakeup. unfold wakeup_nec in Hn.
    destruct (fstate_ (getf sp f)); try (apply mon_step_inert; auto; apply (conts_pz_get sp t Hpzp)).
    pose proof (kproj_fut_result sp f) as Ek.
    destruct (fut_result sp f) as [s' r'] eqn:Fr. cbn [fst] in Ek.
    pose proof (K_fut_result qok (Some t) sp sp f s' r' Fr (K_refl qok _ _ I1)) as [I2 E2].
    apply mon_step_inert; auto.
    + rewrite (e_cur E2); exact Hc.
    + eapply XI_fut_result; eauto.
    + apply conts_pz_get. eapply conts_pz_same; eauto.
  - (* HReinsert *)
    assert (HKp : K None s sp).
    { eapply pop_nontask; eauto; [|apply K_refl; auto]. unfold task_of_handle. rewrite Hcb. reflexivity. }
    apply (uq_inert None sp t (proj1 HKp) Xp).
Qed.

Theorem mon_action_inert s a :
  Inv09 qok s -> XI None s -> conts_pz s -> action_nec s a -> act_pz a -> mon_action s a = true.
Proof.
  intros [I Hc] X Hpz Hn Hp. destruct a as [| |d|how c0|op]; cbn [mon_action]; auto.
  - apply mon_run_one_inert; auto.
  - apply Hp.
  - apply (mon_lib_inert None s 0 op I X Hp).
Qed.

Theorem mon_run_inert : forall acts s,
  Inv09 qok s -> XI None s -> conts_pz s -> actions_ok s acts -> nec s acts -> Forall act_pz acts ->
  mon_run s acts = true.
Proof.
  induction acts as [|a acts IH]; intros s J X Hpz Ha Hn Hp; cbn [mon_run]; auto.
  destruct Ha as [Ha Hl]. destruct Hn as [Hn Hnl]. inversion Hp as [|? ? Hp1 Hp2]; subst.
  rewrite (mon_action_inert s a J X Hpz Hn Hp1). cbn [andb].
  apply IH; auto.
  - apply (Inv09_action qok QS); auto.
  - apply (inert_action qok QS); auto.
  - apply do_action_conts_pz; auto.
Qed.

End MonInert.

(* ------------------------------------------------------------ the whole-run theorems *)
Theorem mon_run_static factor draws lks cds nev acts :
  let sl0 := init_st false factor draws lks cds nev in
  actions_ok sl0 acts -> nec sl0 acts -> Forall act_pz acts -> mon_run sl0 acts = true.
Proof.
  intros sl0 Ha Hn Hp. apply (mon_run_inert qok_list QSpec_list); auto.
  - apply (Inv09_init qok_list). exact Logic.I.
  - apply XI_init.
  - constructor.
Qed.

Theorem equal_priorities_whole_run_static factor draws lks cds nev (acts : list action) :
  let sl0 := init_st false factor draws lks cds nev in
  let sp0 := init_st true factor draws lks cds nev in
  actions_ok sl0 acts -> nec sl0 acts -> Forall act_pz acts ->
  forall n, SimEq (fold_left do_action (firstn n acts) sl0) (fold_left do_action (firstn n acts) sp0).
Proof.
  intros sl0 sp0 Ha Hn Hp. apply equal_priorities_whole_run. apply mon_run_static; auto.
Qed.

Theorem equal_priorities_whole_run_obs_static factor draws lks cds nev (acts : list saction) :
  let sl0 := init_st false factor draws lks cds nev in
  let sp0 := init_st true factor draws lks cds nev in
  actions_ok sl0 (map act acts) -> nec sl0 (map act acts) -> Forall act_pz (map act acts) ->
  run_view sp0 acts = run_from sl0 acts.
Proof.
  intros sl0 sp0 Ha Hn Hp. apply equal_priorities_whole_run_obs. apply mon_run_static; auto.
Qed.

(* ------------------------------------------------------------ example *)
(* the run of EqualRun.equal_priorities_example (3 tasks, a PriorityLock, sleep_insert, both forms
   of task_switch, cancel, set_priority(0), a sleep timer, boost factor 1/2) satisfies the three
   hypotheses - actions_ok and act_pz syntactically, nec by computation and also by the static
   condition act_nf - so the simulation follows without running the monitor *)
Definition ex_sl0 : st := init_st false (1#2) [1#3; 2#3] [LPrio] [] 0.

Lemma ex_acts_ok : actions_ok ex_sl0 ex_acts.
Proof. vm_compute. repeat (first [exact Logic.I | split | intros ?]). Qed.

Lemma ex_acts_pz : Forall act_pz ex_acts.
Proof.
  unfold ex_acts, exA, exB, exC, sq. simpl.
  repeat first [exact Logic.I | reflexivity | constructor | intros ?].
Qed.

Lemma ex_acts_nf : Forall InertStatic.act_nf ex_acts.
Proof.
  unfold ex_acts, exA, exB, exC, sq. simpl.
  repeat first [exact Logic.I | constructor | intros ?].
Qed.

Example equal_priorities_static_example :
  actions_ok ex_sl0 ex_acts /\ nec ex_sl0 ex_acts /\ Forall act_pz ex_acts /\
  mon_run ex_sl0 ex_acts = true /\ SimEq ex_sl ex_sp /\
  log ex_sp = [(1, 1%Z); (1, 2%Z); (3, 4%Z); (2, 3%Z); (3, 5%Z); (3, 8%Z); (1, 6%Z); (2, 7%Z)].
Proof.
  assert (Hn : nec ex_sl0 ex_acts) by (apply InertStatic.nec_static_init; exact ex_acts_nf).
  split; [exact ex_acts_ok|]. split; [exact Hn|]. split; [exact ex_acts_pz|].
  split; [apply mon_run_static; auto using ex_acts_ok, ex_acts_pz|]. split.
  - pose proof (equal_priorities_whole_run_static (1#2) [1#3; 2#3] [LPrio] [] 0 ex_acts
                  ex_acts_ok Hn ex_acts_pz (length ex_acts)) as H.
    rewrite firstn_all in H. exact H.
  - vm_compute. reflexivity.
Qed.
